import Hpl.Spec.PrintToks
/-!
# C06 — reading back the printed form, at token level

`parse_toks_roundtrip`: for every tree the parser can produce (`Raw.printable`), the parser model applied to the token
sequence of its printed form (`Raw.toks`) returns exactly that tree and consumes all tokens, with the fuel the model
actually uses.  By structural induction over the tree, any depth.
-/
namespace Hpl

abbrev PFun := Nat → List Tok → PR (Raw × List Tok)

/-- with at least `n` units of fuel, `p` reads `x` off `ts` and leaves `rest` -/
def ParsesTo (p : PFun) (n : Nat) (ts : List Tok) (x : Raw) (rest : List Tok) : Prop :=
  ∀ fuel, n ≤ fuel → p fuel ts = .ok (x, rest)

theorem ParsesTo.mono {p : PFun} {n m : Nat} {ts : List Tok} {x : Raw} {rest : List Tok} (h : ParsesTo p n ts x rest) (hm : n ≤ m) :
    ParsesTo p m ts x rest := fun fuel hf => h fuel (Nat.le_trans hm hf)

/-- the head of the remaining tokens, as (kind, text, afterWord) tests -/
def headIs (ts : List Tok) (p : Tok → Bool) : Bool := match ts with | t :: _ => p t | [] => false

theorem exists_succ {fuel n : Nat} (h : n + 1 ≤ fuel) : ∃ f, fuel = f + 1 ∧ n ≤ f := ⟨fuel - 1, by omega, by omega⟩

/-! ## one level up when the next token is not an operator of that level -/

theorem lift_factor {n : Nat} {ts rest : List Tok} {x : Raw} (h : ParsesTo pExponent n ts x rest) (hn : 1 ≤ n)
    (hs : headIs rest (fun t => isSym t "**") = false) : ParsesTo pFactor (n + 1) ts x rest := by
  intro fuel hf
  obtain ⟨f, rfl, hf'⟩ := exists_succ hf
  obtain ⟨g, rfl, _⟩ := exists_succ (Nat.le_trans hn hf')
  simp only [pFactor, h (g + 1) hf', bind, Except.bind]
  cases rest with
  | nil => simp [pFactorLoop]
  | cons t ts' => simp only [headIs] at hs; simp [pFactorLoop, hs]

theorem lift_term {n : Nat} {ts rest : List Tok} {x : Raw} (h : ParsesTo pFactor n ts x rest) (hn : 1 ≤ n)
    (hs : headIs rest (fun t => isSym t "*" || isSym t "/") = false) : ParsesTo pTerm (n + 1) ts x rest := by
  intro fuel hf
  obtain ⟨f, rfl, hf'⟩ := exists_succ hf
  obtain ⟨g, rfl, _⟩ := exists_succ (Nat.le_trans hn hf')
  simp only [pTerm, h (g + 1) hf', bind, Except.bind]
  cases rest with
  | nil => simp [pTermLoop]
  | cons t ts' => simp only [headIs] at hs; simp [pTermLoop, hs]

theorem lift_expr {n : Nat} {ts rest : List Tok} {x : Raw} (h : ParsesTo pTerm n ts x rest) (hn : 1 ≤ n)
    (hs : headIs rest (fun t => isSym t "+" || isSym t "-") = false) : ParsesTo pExpr (n + 1) ts x rest := by
  intro fuel hf
  obtain ⟨f, rfl, hf'⟩ := exists_succ hf
  obtain ⟨g, rfl, _⟩ := exists_succ (Nat.le_trans hn hf')
  simp only [pExpr, h (g + 1) hf', bind, Except.bind]
  cases rest with
  | nil => simp [pExprLoop]
  | cons t ts' => simp only [headIs] at hs; simp [pExprLoop, hs]

theorem lift_atomicCondition {n : Nat} {ts rest : List Tok} {x : Raw} (h : ParsesTo pExpr n ts x rest)
    (hs : headIs rest (fun t => (t.kind == .sym && relOps.contains t.text) || isKw t "in") = false) :
    ParsesTo pAtomicCondition (n + 1) ts x rest := by
  intro fuel hf
  obtain ⟨f, rfl, hf'⟩ := exists_succ hf
  simp only [pAtomicCondition, h f hf', bind, Except.bind]
  cases rest with
  | nil => rfl
  | cons t ts' =>
    simp only [headIs, Bool.or_eq_false_iff] at hs
    simp only [hs.1, hs.2, Bool.false_eq_true, ↓reduceIte, pure, Except.pure]


theorem lift_logic {n : Nat} {ts rest : List Tok} {x : Raw} (h : ParsesTo pAtomicCondition n ts x rest)
    (hh : headIs ts isLogicKw = false) (hne : ts ≠ []) : ParsesTo pLogic (n + 1) ts x rest := by
  intro fuel hf
  obtain ⟨f, rfl, hf'⟩ := exists_succ hf
  cases ts with
  | nil => exact absurd rfl hne
  | cons t ts' =>
    simp only [headIs, isLogicKw, Bool.or_eq_false_iff] at hh
    simp only [pLogic, hh.1.1, hh.1.2, hh.2, Bool.false_eq_true, ↓reduceIte, Bool.or_self]
    exact h f hf'

theorem lift_conjunction {n : Nat} {ts rest : List Tok} {x : Raw} (h : ParsesTo pLogic n ts x rest) (hn : 1 ≤ n)
    (hs : headIs rest (fun t => isKw t "and") = false) : ParsesTo pConjunction (n + 1) ts x rest := by
  intro fuel hf
  obtain ⟨f, rfl, hf'⟩ := exists_succ hf
  obtain ⟨g, rfl, _⟩ := exists_succ (Nat.le_trans hn hf')
  simp only [pConjunction, h (g + 1) hf', bind, Except.bind]
  cases rest with
  | nil => simp [pConjLoop]
  | cons t ts' => simp only [headIs] at hs; simp [pConjLoop, hs]

theorem lift_disjunction {n : Nat} {ts rest : List Tok} {x : Raw} (h : ParsesTo pConjunction n ts x rest) (hn : 1 ≤ n)
    (hs : headIs rest (fun t => isKw t "or") = false) : ParsesTo pDisjunction (n + 1) ts x rest := by
  intro fuel hf
  obtain ⟨f, rfl, hf'⟩ := exists_succ hf
  obtain ⟨g, rfl, _⟩ := exists_succ (Nat.le_trans hn hf')
  simp only [pDisjunction, h (g + 1) hf', bind, Except.bind]
  cases rest with
  | nil => simp [pDisjLoop]
  | cons t ts' => simp only [headIs] at hs; simp [pDisjLoop, hs]

theorem lift_condition {n : Nat} {ts rest : List Tok} {x : Raw} (h : ParsesTo pDisjunction n ts x rest) (hn : 1 ≤ n)
    (hs : headIs rest (fun t => isKw t "implies" || isKw t "iff") = false) : ParsesTo pCondition (n + 1) ts x rest := by
  intro fuel hf
  obtain ⟨f, rfl, hf'⟩ := exists_succ hf
  obtain ⟨g, rfl, _⟩ := exists_succ (Nat.le_trans hn hf')
  simp only [pCondition, h (g + 1) hf', bind, Except.bind]
  cases rest with
  | nil => simp [pCondLoop]
  | cons t ts' => simp only [headIs] at hs; simp [pCondLoop, hs]

/-! ## tokens that end a phrase at a level -/

def isRelTok (t : Tok) : Bool := (t.kind == .sym && relOps.contains t.text) || isKw t "in"

/-- `t` is not an infix operator of level `k` or tighter, and does not continue a reference or call -/
def stopsB (k : Nat) (t : Tok) : Bool :=
  (decide (0 < k) || !(isKw t "implies" || isKw t "iff")) && (decide (1 < k) || !isKw t "or") && (decide (2 < k) || !isKw t "and") &&
  (decide (4 < k) || !isRelTok t) && (decide (5 < k) || !(isSym t "+" || isSym t "-")) &&
  (decide (6 < k) || !(isSym t "*" || isSym t "/")) && (decide (7 < k) || !isSym t "**") &&
  !isSym t "." && !isSym t "[" && !isSym t "("

def stops (k : Nat) (rest : List Tok) : Bool := match rest with | t :: _ => stopsB k t | [] => true

theorem stops_mono {k j : Nat} {rest : List Tok} (h : stops k rest = true) (hkj : k ≤ j) : stops j rest = true := by
  cases rest with
  | nil => rfl
  | cons t ts =>
    simp only [stops, stopsB, Bool.and_eq_true, Bool.or_eq_true, decide_eq_true_eq] at h ⊢
    obtain ⟨⟨⟨⟨⟨⟨⟨⟨⟨h0, h1⟩, h2⟩, h4⟩, h5⟩, h6⟩, h7⟩, h8⟩, h9⟩, h10⟩ := h
    refine ⟨⟨⟨⟨⟨⟨⟨⟨⟨?_, ?_⟩, ?_⟩, ?_⟩, ?_⟩, ?_⟩, ?_⟩, h8⟩, h9⟩, h10⟩
    · rcases h0 with h | h; exact Or.inl (by omega); exact Or.inr h
    · rcases h1 with h | h; exact Or.inl (by omega); exact Or.inr h
    · rcases h2 with h | h; exact Or.inl (by omega); exact Or.inr h
    · rcases h4 with h | h; exact Or.inl (by omega); exact Or.inr h
    · rcases h5 with h | h; exact Or.inl (by omega); exact Or.inr h
    · rcases h6 with h | h; exact Or.inl (by omega); exact Or.inr h
    · rcases h7 with h | h; exact Or.inl (by omega); exact Or.inr h

theorem stops_head {k : Nat} {rest : List Tok} (h : stops k rest = true) (j : Nat) (hj : k ≤ j) (p : Tok → Bool)
    (hp : ∀ t, stopsB j t = true → p t = false) : headIs rest p = false := by
  have h' := stops_mono h hj
  cases rest with
  | nil => rfl
  | cons t ts => exact hp t h'

theorem stopsB_7 (t : Tok) (h : stopsB 7 t = true) : isSym t "**" = false := by
  simp only [stopsB, Bool.and_eq_true, Bool.or_eq_true, decide_eq_true_eq, Bool.not_eq_true'] at h
  rcases h.1.1.1.2 with h | h; omega; exact h
theorem stopsB_6 (t : Tok) (h : stopsB 6 t = true) : (isSym t "*" || isSym t "/") = false := by
  simp only [stopsB, Bool.and_eq_true, Bool.or_eq_true, decide_eq_true_eq, Bool.not_eq_true'] at h
  rcases h.1.1.1.1.2 with h | h; omega; exact h
theorem stopsB_5 (t : Tok) (h : stopsB 5 t = true) : (isSym t "+" || isSym t "-") = false := by
  simp only [stopsB, Bool.and_eq_true, Bool.or_eq_true, decide_eq_true_eq, Bool.not_eq_true'] at h
  rcases h.1.1.1.1.1.2 with h | h; omega; exact h
theorem stopsB_4 (t : Tok) (h : stopsB 4 t = true) : isRelTok t = false := by
  simp only [stopsB, Bool.and_eq_true, Bool.or_eq_true, decide_eq_true_eq, Bool.not_eq_true'] at h
  rcases h.1.1.1.1.1.1.2 with h | h; omega; exact h
theorem stopsB_2 (t : Tok) (h : stopsB 2 t = true) : isKw t "and" = false := by
  simp only [stopsB, Bool.and_eq_true, Bool.or_eq_true, decide_eq_true_eq, Bool.not_eq_true'] at h
  rcases h.1.1.1.1.1.1.1.2 with h | h; omega; exact h
theorem stopsB_1 (t : Tok) (h : stopsB 1 t = true) : isKw t "or" = false := by
  simp only [stopsB, Bool.and_eq_true, Bool.or_eq_true, decide_eq_true_eq, Bool.not_eq_true'] at h
  rcases h.1.1.1.1.1.1.1.1.2 with h | h; omega; exact h
theorem stopsB_0 (t : Tok) (h : stopsB 0 t = true) : (isKw t "implies" || isKw t "iff") = false := by
  simp only [stopsB, Bool.and_eq_true, Bool.or_eq_true, decide_eq_true_eq, Bool.not_eq_true'] at h
  rcases h.1.1.1.1.1.1.1.1.1 with h | h; omega; exact h

/-! ## from `_exponent` up to any level, when the next token stops that level -/

structure Phrase (n : Nat) (ts : List Tok) (x : Raw) (rest : List Tok) : Prop where
  exp : ParsesTo pExponent n ts x rest
  pos : 1 ≤ n
  head : headIs ts isLogicKw = false
  ne : ts ≠ []

theorem Phrase.factor {n ts x rest} (h : Phrase n ts x rest) (hs : stops 7 rest = true) : ParsesTo pFactor (n + 1) ts x rest :=
  lift_factor h.exp h.pos (stops_head hs 7 (Nat.le_refl _) _ stopsB_7)
theorem Phrase.term {n ts x rest} (h : Phrase n ts x rest) (hs : stops 6 rest = true) : ParsesTo pTerm (n + 2) ts x rest :=
  lift_term (h.factor (stops_mono hs (by omega))) (by omega) (stops_head hs 6 (Nat.le_refl _) _ stopsB_6)
theorem Phrase.expr {n ts x rest} (h : Phrase n ts x rest) (hs : stops 5 rest = true) : ParsesTo pExpr (n + 3) ts x rest :=
  lift_expr (h.term (stops_mono hs (by omega))) (by omega) (stops_head hs 5 (Nat.le_refl _) _ stopsB_5)
theorem Phrase.atomicCondition {n ts x rest} (h : Phrase n ts x rest) (hs : stops 4 rest = true) :
    ParsesTo pAtomicCondition (n + 4) ts x rest :=
  lift_atomicCondition (h.expr (stops_mono hs (by omega))) (stops_head hs 4 (Nat.le_refl _) _ stopsB_4)
theorem Phrase.logic {n ts x rest} (h : Phrase n ts x rest) (hs : stops 4 rest = true) : ParsesTo pLogic (n + 5) ts x rest :=
  lift_logic (h.atomicCondition hs) h.head h.ne
theorem Phrase.conjunction {n ts x rest} (h : Phrase n ts x rest) (hs : stops 2 rest = true) : ParsesTo pConjunction (n + 6) ts x rest :=
  lift_conjunction (h.logic (stops_mono hs (by omega))) (by omega) (stops_head hs 2 (Nat.le_refl _) _ stopsB_2)
theorem Phrase.disjunction {n ts x rest} (h : Phrase n ts x rest) (hs : stops 1 rest = true) : ParsesTo pDisjunction (n + 7) ts x rest :=
  lift_disjunction (h.conjunction (stops_mono hs (by omega))) (by omega) (stops_head hs 1 (Nat.le_refl _) _ stopsB_1)
theorem Phrase.condition {n ts x rest} (h : Phrase n ts x rest) (hs : stops 0 rest = true) : ParsesTo pCondition (n + 8) ts x rest :=
  lift_condition (h.disjunction (stops_mono hs (by omega))) (by omega) (stops_head hs 0 (Nat.le_refl _) _ stopsB_0)

/-! ## a closing parenthesis ends every level -/

theorem headIs_rp (rest : List Tok) (p : Tok → Bool) (hp : p (symT ")") = false) : headIs (symT ")" :: rest) p = false := hp

section close
variable {n : Nat} {ts rest : List Tok} {x : Raw}

theorem close_disjunction (h : ParsesTo pDisjunction n ts x (symT ")" :: rest)) (hn : 1 ≤ n) :
    ParsesTo pCondition (n + 1) ts x (symT ")" :: rest) := lift_condition h hn (headIs_rp _ _ (by decide))
theorem close_conjunction (h : ParsesTo pConjunction n ts x (symT ")" :: rest)) (hn : 1 ≤ n) :
    ParsesTo pCondition (n + 2) ts x (symT ")" :: rest) :=
  close_disjunction (lift_disjunction h hn (headIs_rp _ _ (by decide))) (by omega)
theorem close_logic (h : ParsesTo pLogic n ts x (symT ")" :: rest)) (hn : 1 ≤ n) :
    ParsesTo pCondition (n + 3) ts x (symT ")" :: rest) :=
  close_conjunction (lift_conjunction h hn (headIs_rp _ _ (by decide))) (by omega)
theorem close_atomicCondition (h : ParsesTo pAtomicCondition n ts x (symT ")" :: rest)) (hn : 1 ≤ n)
    (hh : headIs ts isLogicKw = false) (hne : ts ≠ []) : ParsesTo pCondition (n + 4) ts x (symT ")" :: rest) :=
  close_logic (lift_logic h hh hne) (by omega)
theorem close_expr (h : ParsesTo pExpr n ts x (symT ")" :: rest)) (hn : 1 ≤ n)
    (hh : headIs ts isLogicKw = false) (hne : ts ≠ []) : ParsesTo pCondition (n + 5) ts x (symT ")" :: rest) :=
  close_atomicCondition (lift_atomicCondition h (headIs_rp _ _ (by decide))) (by omega) hh hne
theorem close_term (h : ParsesTo pTerm n ts x (symT ")" :: rest)) (hn : 1 ≤ n)
    (hh : headIs ts isLogicKw = false) (hne : ts ≠ []) : ParsesTo pCondition (n + 6) ts x (symT ")" :: rest) :=
  close_expr (lift_expr h hn (headIs_rp _ _ (by decide))) (by omega) hh hne
theorem close_factor (h : ParsesTo pFactor n ts x (symT ")" :: rest)) (hn : 1 ≤ n)
    (hh : headIs ts isLogicKw = false) (hne : ts ≠ []) : ParsesTo pCondition (n + 7) ts x (symT ")" :: rest) :=
  close_term (lift_term h hn (headIs_rp _ _ (by decide))) (by omega) hh hne
end close

/-! ## `( a op b )` at the level of `op` -/

theorem stops_rp (k : Nat) (rest : List Tok) : stops k (symT ")" :: rest) = true := by
  show stopsB k (symT ")") = true
  simp only [stopsB, Bool.and_eq_true, Bool.or_eq_true, decide_eq_true_eq]
  refine ⟨⟨⟨⟨⟨⟨⟨⟨⟨?_, ?_⟩, ?_⟩, ?_⟩, ?_⟩, ?_⟩, ?_⟩, ?_⟩, ?_⟩, ?_⟩ <;> first | (right; decide) | decide

section bin
variable {na nb : Nat} {A B rest : List Tok} {a b : Raw} {t : Tok}

theorem bin_factor (ht : isSym t "**" = true)
    (PA : Phrase na (A ++ t :: (B ++ symT ")" :: rest)) a (t :: (B ++ symT ")" :: rest)))
    (PB : Phrase nb (B ++ symT ")" :: rest) b (symT ")" :: rest)) :
    ParsesTo pFactor (max na nb + 3) (A ++ t :: (B ++ symT ")" :: rest)) (.bin "**" a b) (symT ")" :: rest) := by
  intro fuel hf
  obtain ⟨f, rfl, hf1⟩ := exists_succ (n := max na nb + 2) hf
  obtain ⟨g, rfl, hf2⟩ := exists_succ (n := max na nb + 1) hf1
  obtain ⟨g', rfl, hf3⟩ := exists_succ (n := max na nb) hf2
  have h1 := PA.exp (g' + 1 + 1) (by omega)
  have h2 := PB.exp (g' + 1) (by omega)
  simp only [pFactor, h1, bind, Except.bind, pFactorLoop, ht, ↓reduceIte, h2]
  simp [pFactorLoop, isSym, symT, mkTok]

theorem bin_term (ht : (isSym t "*" || isSym t "/") = true) (hst : stopsB 7 t = true)
    (PA : Phrase na (A ++ t :: (B ++ symT ")" :: rest)) a (t :: (B ++ symT ")" :: rest)))
    (PB : Phrase nb (B ++ symT ")" :: rest) b (symT ")" :: rest)) :
    ParsesTo pTerm (max na nb + 4) (A ++ t :: (B ++ symT ")" :: rest)) (.bin t.text a b) (symT ")" :: rest) := by
  intro fuel hf
  obtain ⟨f, rfl, hf1⟩ := exists_succ (n := max na nb + 3) hf
  obtain ⟨g, rfl, hf2⟩ := exists_succ (n := max na nb + 2) hf1
  obtain ⟨g', rfl, hf3⟩ := exists_succ (n := max na nb + 1) hf2
  have h1 := PA.factor (show stops 7 (t :: _) = true from hst) (g' + 1 + 1) (by omega)
  have h2 := PB.factor (stops_rp 7 rest) (g' + 1) (by omega)
  simp only [pTerm, h1, bind, Except.bind, pTermLoop, ht, ↓reduceIte, h2]
  simp [pTermLoop, isSym, symT, mkTok]

theorem bin_expr (ht : (isSym t "+" || isSym t "-") = true) (hst : stopsB 6 t = true)
    (PA : Phrase na (A ++ t :: (B ++ symT ")" :: rest)) a (t :: (B ++ symT ")" :: rest)))
    (PB : Phrase nb (B ++ symT ")" :: rest) b (symT ")" :: rest)) :
    ParsesTo pExpr (max na nb + 5) (A ++ t :: (B ++ symT ")" :: rest)) (.bin t.text a b) (symT ")" :: rest) := by
  intro fuel hf
  obtain ⟨f, rfl, hf1⟩ := exists_succ (n := max na nb + 4) hf
  obtain ⟨g, rfl, hf2⟩ := exists_succ (n := max na nb + 3) hf1
  obtain ⟨g', rfl, hf3⟩ := exists_succ (n := max na nb + 2) hf2
  have h1 := PA.term (show stops 6 (t :: _) = true from hst) (g' + 1 + 1) (by omega)
  have h2 := PB.term (stops_rp 6 rest) (g' + 1) (by omega)
  simp only [pExpr, h1, bind, Except.bind, pExprLoop, ht, ↓reduceIte, h2]
  simp [pExprLoop, isSym, symT, mkTok]

theorem bin_rel (ht : (t.kind == .sym && relOps.contains t.text) = true) (hst : stopsB 5 t = true)
    (PA : Phrase na (A ++ t :: (B ++ symT ")" :: rest)) a (t :: (B ++ symT ")" :: rest)))
    (PB : Phrase nb (B ++ symT ")" :: rest) b (symT ")" :: rest)) :
    ParsesTo pAtomicCondition (max na nb + 4) (A ++ t :: (B ++ symT ")" :: rest)) (.bin t.text a b) (symT ")" :: rest) := by
  intro fuel hf
  obtain ⟨f, rfl, hf1⟩ := exists_succ (n := max na nb + 3) hf
  have h1 := PA.expr (show stops 5 (t :: _) = true from hst) f (by omega)
  have h2 := PB.expr (stops_rp 5 rest) f (by omega)
  simp only [pAtomicCondition, h1, bind, Except.bind, ht, ↓reduceIte, h2, pure, Except.pure]

theorem bin_in (ht : isKw t "in" = true) (hk : (t.kind == .sym) = false) (hst : stopsB 5 t = true)
    (PA : Phrase na (A ++ t :: (B ++ symT ")" :: rest)) a (t :: (B ++ symT ")" :: rest)))
    (PB : Phrase nb (B ++ symT ")" :: rest) b (symT ")" :: rest)) :
    ParsesTo pAtomicCondition (max na nb + 4) (A ++ t :: (B ++ symT ")" :: rest)) (.bin "in" a b) (symT ")" :: rest) := by
  intro fuel hf
  obtain ⟨f, rfl, hf1⟩ := exists_succ (n := max na nb + 3) hf
  have h1 := PA.expr (show stops 5 (t :: _) = true from hst) f (by omega)
  have h2 := PB.expr (stops_rp 5 rest) f (by omega)
  simp only [pAtomicCondition, h1, bind, Except.bind, ht, hk, Bool.false_and, Bool.false_eq_true, ↓reduceIte, h2, pure, Except.pure]

theorem bin_and (ht : isKw t "and" = true) (hst : stopsB 4 t = true)
    (PA : Phrase na (A ++ t :: (B ++ symT ")" :: rest)) a (t :: (B ++ symT ")" :: rest)))
    (PB : Phrase nb (B ++ symT ")" :: rest) b (symT ")" :: rest)) :
    ParsesTo pConjunction (max na nb + 8) (A ++ t :: (B ++ symT ")" :: rest)) (.bin "and" a b) (symT ")" :: rest) := by
  intro fuel hf
  obtain ⟨f, rfl, hf1⟩ := exists_succ (n := max na nb + 7) hf
  obtain ⟨g, rfl, hf2⟩ := exists_succ (n := max na nb + 6) hf1
  obtain ⟨g', rfl, hf3⟩ := exists_succ (n := max na nb + 5) hf2
  have h1 := PA.logic (show stops 4 (t :: _) = true from hst) (g' + 1 + 1) (by omega)
  have h2 := PB.logic (stops_rp 4 rest) (g' + 1) (by omega)
  simp only [pConjunction, h1, bind, Except.bind, pConjLoop, ht, ↓reduceIte, h2]
  simp [pConjLoop, isKw, symT, mkTok]

theorem bin_or (ht : isKw t "or" = true) (hst : stopsB 2 t = true)
    (PA : Phrase na (A ++ t :: (B ++ symT ")" :: rest)) a (t :: (B ++ symT ")" :: rest)))
    (PB : Phrase nb (B ++ symT ")" :: rest) b (symT ")" :: rest)) :
    ParsesTo pDisjunction (max na nb + 9) (A ++ t :: (B ++ symT ")" :: rest)) (.bin "or" a b) (symT ")" :: rest) := by
  intro fuel hf
  obtain ⟨f, rfl, hf1⟩ := exists_succ (n := max na nb + 8) hf
  obtain ⟨g, rfl, hf2⟩ := exists_succ (n := max na nb + 7) hf1
  obtain ⟨g', rfl, hf3⟩ := exists_succ (n := max na nb + 6) hf2
  have h1 := PA.conjunction (show stops 2 (t :: _) = true from hst) (g' + 1 + 1) (by omega)
  have h2 := PB.conjunction (stops_rp 2 rest) (g' + 1) (by omega)
  simp only [pDisjunction, h1, bind, Except.bind, pDisjLoop, ht, ↓reduceIte, h2]
  simp [pDisjLoop, isKw, symT, mkTok]

theorem bin_cond (ht : (isKw t "implies" || isKw t "iff") = true) (hst : stopsB 1 t = true)
    (PA : Phrase na (A ++ t :: (B ++ symT ")" :: rest)) a (t :: (B ++ symT ")" :: rest)))
    (PB : Phrase nb (B ++ symT ")" :: rest) b (symT ")" :: rest)) :
    ParsesTo pCondition (max na nb + 10) (A ++ t :: (B ++ symT ")" :: rest)) (.bin t.text a b) (symT ")" :: rest) := by
  intro fuel hf
  obtain ⟨f, rfl, hf1⟩ := exists_succ (n := max na nb + 9) hf
  obtain ⟨g, rfl, hf2⟩ := exists_succ (n := max na nb + 8) hf1
  obtain ⟨g', rfl, hf3⟩ := exists_succ (n := max na nb + 7) hf2
  have h1 := PA.disjunction (show stops 1 (t :: _) = true from hst) (g' + 1 + 1) (by omega)
  have h2 := PB.disjunction (stops_rp 1 rest) (g' + 1) (by omega)
  simp only [pCondition, h1, bind, Except.bind, pCondLoop, ht, ↓reduceIte, h2]
  simp [pCondLoop, isKw, symT, mkTok]

end bin

/-- the operators with a level, enumerated -/
theorem opLevel_cases {op : String} {j : Nat} (h : opLevel op = some j) :
    op = "implies" ∨ op = "iff" ∨ op = "or" ∨ op = "and" ∨ op = "=" ∨ op = "!=" ∨ op = "<" ∨ op = "<=" ∨ op = ">" ∨ op = ">=" ∨
    op = "in" ∨ op = "+" ∨ op = "-" ∨ op = "*" ∨ op = "/" ∨ op = "**" := by
  unfold opLevel at h
  split at h
  · rename_i h1; simp only [Bool.or_eq_true, beq_iff_eq] at h1; rcases h1 with h1 | h1 <;> simp [h1]
  · split at h
    · rename_i h1; simp only [beq_iff_eq] at h1; simp [h1]
    · split at h
      · rename_i h1; simp only [beq_iff_eq] at h1; simp [h1]
      · split at h
        · rename_i h1
          simp only [Bool.or_eq_true, beq_iff_eq, relOps, List.contains_cons, List.contains_nil, Bool.or_false] at h1
          rcases h1 with (h1 | h1 | h1 | h1 | h1 | h1) | h1 <;> simp [h1]
        · split at h
          · rename_i h1; simp only [Bool.or_eq_true, beq_iff_eq] at h1; rcases h1 with h1 | h1 <;> simp [h1]
          · split at h
            · rename_i h1; simp only [Bool.or_eq_true, beq_iff_eq] at h1; rcases h1 with h1 | h1 <;> simp [h1]
            · split at h
              · rename_i h1; simp only [beq_iff_eq] at h1; simp [h1]
              · cases h

/-- `( a op b )`: the phrase between the parentheses read as a `condition` -/
theorem bin_condition {na nb : Nat} {A B rest : List Tok} {a b : Raw} {op : String} {j : Nat} (hop : opLevel op = some j)
    (PA : Phrase na (A ++ opTok op :: (B ++ symT ")" :: rest)) a (opTok op :: (B ++ symT ")" :: rest)))
    (PB : Phrase nb (B ++ symT ")" :: rest) b (symT ")" :: rest)) :
    ParsesTo pCondition (max na nb + 12) (A ++ opTok op :: (B ++ symT ")" :: rest)) (.bin op a b) (symT ")" :: rest) := by
  have hh := PA.head
  have hne := PA.ne
  rcases opLevel_cases hop with rfl | rfl | rfl | rfl | rfl | rfl | rfl | rfl | rfl | rfl | rfl | rfl | rfl | rfl | rfl | rfl
  · exact (bin_cond (t := opTok "implies") (by decide) (by decide) PA PB).mono (by omega)
  · exact (bin_cond (t := opTok "iff") (by decide) (by decide) PA PB).mono (by omega)
  · exact (close_disjunction (bin_or (t := opTok "or") (by decide) (by decide) PA PB) (by omega)).mono (by omega)
  · exact (close_conjunction (bin_and (t := opTok "and") (by decide) (by decide) PA PB) (by omega)).mono (by omega)
  · exact (close_atomicCondition (bin_rel (t := opTok "=") (by decide) (by decide) PA PB) (by omega) hh hne).mono (by omega)
  · exact (close_atomicCondition (bin_rel (t := opTok "!=") (by decide) (by decide) PA PB) (by omega) hh hne).mono (by omega)
  · exact (close_atomicCondition (bin_rel (t := opTok "<") (by decide) (by decide) PA PB) (by omega) hh hne).mono (by omega)
  · exact (close_atomicCondition (bin_rel (t := opTok "<=") (by decide) (by decide) PA PB) (by omega) hh hne).mono (by omega)
  · exact (close_atomicCondition (bin_rel (t := opTok ">") (by decide) (by decide) PA PB) (by omega) hh hne).mono (by omega)
  · exact (close_atomicCondition (bin_rel (t := opTok ">=") (by decide) (by decide) PA PB) (by omega) hh hne).mono (by omega)
  · exact (close_atomicCondition (bin_in (t := opTok "in") (by decide) (by decide) (by decide) PA PB) (by omega) hh hne).mono (by omega)
  · exact (close_expr (bin_expr (t := opTok "+") (by decide) (by decide) PA PB) (by omega) hh hne).mono (by omega)
  · exact (close_expr (bin_expr (t := opTok "-") (by decide) (by decide) PA PB) (by omega) hh hne).mono (by omega)
  · exact (close_term (bin_term (t := opTok "*") (by decide) (by decide) PA PB) (by omega) hh hne).mono (by omega)
  · exact (close_term (bin_term (t := opTok "/") (by decide) (by decide) PA PB) (by omega) hh hne).mono (by omega)
  · exact (close_factor (bin_factor (t := opTok "**") (by decide) PA PB) (by omega) hh hne).mono (by omega)

/-! ## atoms -/

theorem stopsB_8 {t : Tok} (h : stopsB 8 t = true) : isSym t "." = false ∧ isSym t "[" = false ∧ isSym t "(" = false := by
  simp only [stopsB, Bool.and_eq_true, Bool.not_eq_true'] at h
  exact ⟨h.1.1.2, h.1.2, h.2⟩

theorem refTail_stop {f : Nat} {r : Raw} {rest : List Tok} (h : stops 8 rest = true) : pRefTail (f + 1) r rest = .ok (r, rest) := by
  cases rest with
  | nil => rfl
  | cons t ts =>
    obtain ⟨h1, h2, _⟩ := stopsB_8 (show stopsB 8 t = true from h)
    simp only [pRefTail, h1, h2, Bool.false_eq_true, ↓reduceIte]

theorem numberConstant_some {s : String} (h : (numberConstant s).isSome = true) : s = "INF" ∨ s = "NAN" ∨ s = "PI" ∨ s = "E" := by
  unfold numberConstant at h
  split at h
  · rename_i h1; exact Or.inl (eq_of_beq h1)
  · split at h
    · rename_i h1; exact Or.inr (Or.inl (eq_of_beq h1))
    · split at h
      · rename_i h1; exact Or.inr (Or.inr (Or.inl (eq_of_beq h1)))
      · split at h
        · rename_i h1; exact Or.inr (Or.inr (Or.inr (eq_of_beq h1)))
        · cases h

/-- a literal token is read back as the literal -/
theorem lit_atomic {tok : String} {v : LitVal} (h : litOk tok v = true) (rest : List Tok) :
    ParsesTo pAtomicValue 1 (litTok tok v :: rest) (.lit tok v) rest := by
  intro fuel hf
  obtain ⟨f, rfl, _⟩ := exists_succ (n := 0) hf
  have num : ∀ v : LitVal, (match v with | .str _ => False | .bool _ => False | _ => True) →
      (if (numberConstant tok).isSome then (numberConstant tok == some v && isCName tok) else decimalValue tok == some v) = true →
      pAtomicValue (f + 1) ((if (numberConstant tok).isSome then wordT tok else mkTok .num tok) :: rest) = .ok (.lit tok v, rest) := by
    intro v _ hv
    split at hv
    · rename_i hc
      simp only [hc, ↓reduceIte, Bool.and_eq_true, beq_iff_eq] at hv ⊢
      obtain ⟨hv, hcn⟩ := hv
      have hne : tok ≠ "True" ∧ tok ≠ "False" := by
        rcases numberConstant_some hc with rfl | rfl | rfl | rfl <;> decide
      simp [pAtomicValue, wordT, mkTok, hcn, hne.1, hne.2, hv]
    · rename_i hc
      simp only [hc, Bool.false_eq_true, ↓reduceIte, beq_iff_eq] at hv ⊢
      simp [pAtomicValue, mkTok, hv]
  cases v with
  | str s =>
    simp only [litOk, beq_iff_eq] at h; subst h
    simp [litTok, pAtomicValue, mkTok]
  | bool b =>
    simp only [litOk, beq_iff_eq] at h; subst h
    have c1 : isCName "True" = true := by decide
    have c2 : isCName "False" = true := by decide
    cases b <;> simp [litTok, pAtomicValue, wordT, mkTok, c1, c2]
  | int n => exact num _ trivial h
  | flt q => exact num _ trivial h
  | inf => exact num _ trivial h
  | ninf => exact num _ trivial h
  | nan => exact num _ trivial h

/-! ## fuel -/

mutual
/-- fuel that suffices to read the printed form of `x` as an `_atomic_value` (one more as an `_exponent`) -/
def Raw.need : Raw → Nat
  | .lit .. => 1
  | .this => 0
  | .var _ => 3
  | .set vs => RawList.needL vs + 6
  | .range lo hi _ _ => max lo.need hi.need + 8
  | .quant _ _ d b => max d.need b.need + 16
  | .un _ a => a.need + 16
  | .bin _ a b => max a.need b.need + 16
  | .call _ as => RawList.needL as + 8
  | .field m _ => (match m with | .this => 4 | _ => m.need + 1)
  | .index a i => a.need + i.need + 5
def RawList.needL : RawList → Nat
  | .nil => 0
  | .cons e es => max (e.need + 5) (RawList.needL es + 1)
end

/-! ## references: `@x` or an own field, then `.name` and `[index]` accessors -/

/-- after the tokens of the reference `x`, `_atomic_value` is in the accessor loop with `x` read so far -/
def RefReads (x : Raw) : Prop :=
  ∀ more, headIs more (fun t => isSym t "(") = false → ∀ fuel, x.need ≤ fuel + 2 →
    ∃ f', fuel + 2 ≤ f' + x.need ∧ pAtomicValue fuel (x.toks ++ more) = pRefTail f' x more

theorem ref_var (v : String) : RefReads (.var v) := by
  intro more _ fuel hf
  obtain ⟨f, rfl, _⟩ := exists_succ (n := 0) (show 0 + 1 ≤ fuel by simp only [Raw.need] at hf; omega)
  exact ⟨f, by simp only [Raw.need]; omega, by simp [Raw.toks, pAtomicValue, mkTok]⟩

theorem isName_spec {s : String} (h : isName s = true) :
    isCName s = true ∧ s ≠ "True" ∧ s ≠ "False" ∧ (numberConstant s).isSome = false ∧
    s ≠ "not" ∧ s ≠ "forall" ∧ s ≠ "exists" := by
  simp only [isName, Bool.and_eq_true, Bool.not_eq_true', reservedWords] at h
  obtain ⟨hc, hr⟩ := h
  have hr' : ∀ w ∈ reservedWords, s ≠ w := by
    intro w hw heq
    subst heq
    have : reservedWords.contains s = true := List.contains_iff_mem.2 hw
    simp [reservedWords] at this hr
    simp_all
  refine ⟨hc, hr' _ (by decide), hr' _ (by decide), ?_, hr' _ (by decide), hr' _ (by decide), hr' _ (by decide)⟩
  cases hn : (numberConstant s).isSome with
  | false => rfl
  | true => rcases numberConstant_some hn with rfl | rfl | rfl | rfl <;> exact absurd rfl (hr' _ (by decide))

theorem ref_own (n : String) (hn : isName n = true) : RefReads (.field .this n) := by
  intro more hm fuel hf
  obtain ⟨hc, ht, hfa, hnc, _⟩ := isName_spec hn
  simp only [Raw.need] at hf
  obtain ⟨f, rfl, hf1⟩ := exists_succ (n := 1) (show 1 + 1 ≤ fuel by omega)
  obtain ⟨g, rfl, _⟩ := exists_succ (n := 0) hf1
  refine ⟨g + 1, by simp only [Raw.need]; omega, ?_⟩
  cases more with
  | nil => simp [Raw.toks, pAtomicValue, wordT, mkTok, hc, ht, hfa, hnc, pRefTail]
  | cons o rest2 =>
    simp only [headIs] at hm
    simp [Raw.toks, pAtomicValue, wordT, mkTok, hc, ht, hfa, hnc, hm]

theorem toks_field {m : Raw} (n : String) (hm : m.isRef = true) : (Raw.field m n).toks = m.toks ++ [symT ".", wordT n] := by
  cases m <;> simp [Raw.toks, Raw.isRef] at hm ⊢

theorem need_field {m : Raw} (n : String) (hm : m.isRef = true) : (Raw.field m n).need = m.need + 1 := by
  cases m <;> simp [Raw.need, Raw.isRef] at hm ⊢

theorem ref_field {m : Raw} (n : String) (hm : m.isRef = true) (hc : isCName n = true) (ih : RefReads m) : RefReads (.field m n) := by
  intro more _ fuel hf
  rw [need_field n hm] at hf ⊢
  obtain ⟨f', hf', heq⟩ := ih (symT "." :: wordT n :: more) (show isSym (symT ".") "(" = false by decide) fuel (by omega)
  obtain ⟨f'', rfl, _⟩ := exists_succ (n := 0) (show 0 + 1 ≤ f' by omega)
  refine ⟨f'', by omega, ?_⟩
  rw [toks_field n hm, List.append_assoc]
  simp only [List.cons_append, List.nil_append]
  rw [heq]
  simp [pRefTail, isSym, symT, wordT, mkTok, hc]

theorem ref_index {a i : Raw} (iha : RefReads a)
    (ihi : ∀ rest, stops 8 rest = true → Phrase (i.need + 1) (i.toks ++ rest) i rest) : RefReads (.index a i) := by
  intro more _ fuel hf
  simp only [Raw.need] at hf ⊢
  obtain ⟨f', hf', heq⟩ := iha (symT "[" :: (i.toks ++ symT "]" :: more)) (show isSym (symT "[") "(" = false by decide) fuel (by omega)
  obtain ⟨f'', rfl, _⟩ := exists_succ (n := 0) (show 0 + 1 ≤ f' by omega)
  refine ⟨f'', by omega, ?_⟩
  have hi := (ihi (symT "]" :: more) (show stopsB 8 (symT "]") = true by decide)).expr (show stopsB 5 (symT "]") = true by decide) f'' (by omega)
  simp only [Raw.toks, List.append_assoc, List.cons_append, List.nil_append]
  rw [heq]
  have e1 : isSym (symT "[") "." = false := by decide
  have e2 : isSym (symT "[") "[" = true := by decide
  have e3 : isSym (symT "]") "]" = true := by decide
  simp only [pRefTail, e1, e2, e3, hi, bind, Except.bind, Bool.false_eq_true, ↓reduceIte]

theorem word_not_logicKw {n : String} (hn : isName n = true) : isLogicKw (wordT n) = false := by
  obtain ⟨_, _, _, _, h1, h2, h3⟩ := isName_spec hn
  simp [isLogicKw, isKw, wordT, mkTok, h1, h2, h3]

theorem isRef_field {m : Raw} {n : String} (h : (Raw.field m n).isRef = true) : m = .this ∨ m.isRef = true := by
  cases m <;> simp_all [Raw.isRef]

theorem printable_field {m : Raw} {n : String} (hm : m.isRef = true) (h : (Raw.field m n).printable = true) :
    isCName n = true ∧ m.printable = true := by
  cases m <;> simp_all [Raw.printable, Raw.isRef]

theorem printable_own {n : String} (h : (Raw.field .this n).printable = true) : isName n = true := by
  simpa [Raw.printable] using h

theorem printable_index {a i : Raw} (h : (Raw.index a i).printable = true) : a.isRef = true ∧ a.printable = true ∧ i.printable = true := by
  simp only [Raw.printable, Bool.and_eq_true] at h; exact ⟨h.1.1, h.1.2, h.2⟩

/-- a reference starts with a token that is neither punctuation nor `not` / `forall` / `exists` -/
theorem ref_head : ∀ (x : Raw), x.isRef = true → x.printable = true →
    ∃ t ts, x.toks = t :: ts ∧ (t.kind == .sym) = false ∧ isLogicKw t = false
  | .var v, _, _ => ⟨mkTok .var v, [], rfl, rfl, by simp [isLogicKw, isKw, mkTok]⟩
  | .field m n, hr, hp => by
      rcases isRef_field hr with rfl | hm
      · exact ⟨wordT n, [], rfl, rfl, word_not_logicKw (printable_own hp)⟩
      · obtain ⟨t, ts, h1, h2, h3⟩ := ref_head m hm (printable_field hm hp).2
        exact ⟨t, ts ++ [symT ".", wordT n], by rw [toks_field n hm, h1]; rfl, h2, h3⟩
  | .index a i, hr, hp => by
      obtain ⟨ha, hpa, _⟩ := printable_index hp
      obtain ⟨t, ts, h1, h2, h3⟩ := ref_head a ha hpa
      exact ⟨t, ts ++ [symT "["] ++ i.toks ++ [symT "]"], by simp [Raw.toks, h1], h2, h3⟩
  | .lit .., hr, _ | .this, hr, _ | .set .., hr, _ | .range .., hr, _ | .quant .., hr, _ | .un .., hr, _ | .bin .., hr, _
  | .call .., hr, _ => by simp [Raw.isRef] at hr

/-! ## wrappers -/

theorem paren_phrase {n : Nat} {ts rest : List Tok} {x : Raw} (h : ParsesTo pCondition n ts x (symT ")" :: rest)) :
    Phrase (n + 1) (symT "(" :: ts) x rest := by
  refine ⟨?_, by omega, (show isLogicKw (symT "(") = false by decide), by simp⟩
  intro fuel hf
  obtain ⟨f, rfl, hf'⟩ := exists_succ hf
  have e1 : isSym (symT "(") "-" = false := by decide
  have e2 : isSym (symT "(") "(" = true := by decide
  have e3 : isSym (symT ")") ")" = true := by decide
  simp only [pExponent, e1, e2, e3, h f hf', bind, Except.bind, Bool.false_eq_true, ↓reduceIte, pure, Except.pure]

theorem phrase_of_atomic {n : Nat} {t : Tok} {ts' rest : List Tok} {x : Raw} (h : ParsesTo pAtomicValue n (t :: ts') x rest)
    (h1 : isSym t "-" = false) (h2 : isSym t "(" = false) (h3 : isLogicKw t = false) : Phrase (n + 1) (t :: ts') x rest := by
  refine ⟨?_, by omega, h3, by simp⟩
  intro fuel hf
  obtain ⟨f, rfl, hf'⟩ := exists_succ hf
  simp only [pExponent, h1, h2, Bool.false_eq_true, ↓reduceIte]
  exact h f hf'

theorem isSym_of_kind {t : Tok} (h : (t.kind == .sym) = false) (s : String) : isSym t s = false := by
  simp [isSym, h]

/-! ## function calls, ranges -/

theorem call_atomic {f : String} {a : Raw} (hf : isName f = true)
    (iha : ∀ rest, stops 8 rest = true → Phrase (a.need + 1) (a.toks ++ rest) a rest) (rest : List Tok) :
    ParsesTo pAtomicValue (Raw.call f (.cons a .nil)).need ((Raw.call f (.cons a .nil)).toks ++ rest) (.call f (.cons a .nil)) rest := by
  obtain ⟨hc, ht, hfa, hnc, _⟩ := isName_spec hf
  intro fuel hfuel
  simp only [Raw.need, RawList.needL] at hfuel
  obtain ⟨g, rfl, hg⟩ := exists_succ (n := a.need + 12) (show a.need + 12 + 1 ≤ fuel by omega)
  have ha := (iha (symT ")" :: rest) (show stopsB 8 (symT ")") = true by decide)).expr (show stopsB 5 (symT ")") = true by decide) g (by omega)
  have e1 : isSym (symT "(") "(" = true := by decide
  have e3 : isSym (symT ")") ")" = true := by decide
  simp only [Raw.toks, RawList.toksSep, List.append_assoc, List.cons_append, List.nil_append]
  simp [pAtomicValue, wordT, mkTok, hc, ht, hfa, hnc]
  simp only [e1, ↓reduceIte, ha, bind, Except.bind, e3, pure, Except.pure]

theorem range_atomic {lo hi : Raw} {exLo exHi : Bool}
    (ihl : ∀ rest, stops 8 rest = true → Phrase (lo.need + 1) (lo.toks ++ rest) lo rest)
    (ihh : ∀ rest, stops 8 rest = true → Phrase (hi.need + 1) (hi.toks ++ rest) hi rest) (rest : List Tok) :
    ParsesTo pAtomicValue (Raw.range lo hi exLo exHi).need ((Raw.range lo hi exLo exHi).toks ++ rest) (.range lo hi exLo exHi) rest := by
  intro fuel hfuel
  simp only [Raw.need] at hfuel
  obtain ⟨f, rfl, hf⟩ := exists_succ (n := max lo.need hi.need + 7) (show max lo.need hi.need + 7 + 1 ≤ fuel by omega)
  obtain ⟨g, rfl, hg⟩ := exists_succ (n := max lo.need hi.need + 6) hf
  have hto : stopsB 8 (wordT "to") = true := by decide
  have hto5 : stopsB 5 (wordT "to") = true := by decide
  have hkw : isKw (wordT "to") "to" = true := by decide
  have key : ∀ c : Tok, stopsB 8 c = true → stopsB 5 c = true →
      pRangeBody (g + 1) exLo (lo.toks ++ wordT "to" :: (hi.toks ++ c :: rest)) =
      (if isSym c "]" then pure (.range lo hi exLo false, rest) else if isSym c "]!" then pure (.range lo hi exLo true, rest) else perr) := by
    intro c hc8 hc5
    have h1 := (ihl (wordT "to" :: (hi.toks ++ c :: rest)) hto).expr hto5 g (by omega)
    have h2 := (ihh (c :: rest) hc8).expr hc5 g (by omega)
    simp only [pRangeBody, h1, bind, Except.bind, hkw, ↓reduceIte, h2]
  have b1 : stopsB 8 (symT "]") = true := by decide
  have b2 : stopsB 5 (symT "]") = true := by decide
  have b3 : stopsB 8 (symT "]!") = true := by decide
  have b4 : stopsB 5 (symT "]!") = true := by decide
  simp only [Raw.toks, List.append_assoc, List.cons_append, List.nil_append]
  cases exLo <;> cases exHi <;>
    simp [pAtomicValue, symT, mkTok] <;>
    simp only [symT, mkTok] at key b1 b2 b3 b4 <;>
    first
      | (rw [key _ b1 b2]; simp [isSym, pure, Except.pure])
      | (rw [key _ b3 b4]; simp [isSym, pure, Except.pure])

/-! ## set literals -/

def RawList.toList : RawList → List Raw
  | .nil => []
  | .cons e es => e :: RawList.toList es

def rawListOf (l : List Raw) : RawList := l.foldr (fun e es => RawList.cons e es) .nil

theorem rawListOf_toList : ∀ es : RawList, rawListOf es.toList = es
  | .nil => rfl
  | .cons e es => by simp [RawList.toList, rawListOf, List.foldr]; exact rawListOf_toList es

/-- the tokens after the first member: `, e` for each further member -/
def tailToks : RawList → List Tok
  | .nil => []
  | .cons e es => symT "," :: (e.toks ++ tailToks es)

theorem toksSep_cons (e : Raw) : ∀ es : RawList, RawList.toksSep (.cons e es) = e.toks ++ tailToks es
  | .nil => by simp [RawList.toksSep, tailToks]
  | .cons e' es' => by
      have := toksSep_cons e' es'
      simp only [RawList.toksSep, tailToks, this, List.append_assoc, List.cons_append, List.nil_append]

theorem stops_tail_or_close (k : Nat) (es : RawList) (rest : List Tok) : stops k (tailToks es ++ symT "}" :: rest) = true := by
  have c1 : stopsB k (symT ",") = true := by
    simp only [stopsB, Bool.and_eq_true, Bool.or_eq_true, decide_eq_true_eq]
    refine ⟨⟨⟨⟨⟨⟨⟨⟨⟨?_, ?_⟩, ?_⟩, ?_⟩, ?_⟩, ?_⟩, ?_⟩, ?_⟩, ?_⟩, ?_⟩ <;> first | (right; decide) | decide
  have c2 : stopsB k (symT "}") = true := by
    simp only [stopsB, Bool.and_eq_true, Bool.or_eq_true, decide_eq_true_eq]
    refine ⟨⟨⟨⟨⟨⟨⟨⟨⟨?_, ?_⟩, ?_⟩, ?_⟩, ?_⟩, ?_⟩, ?_⟩, ?_⟩, ?_⟩, ?_⟩ <;> first | (right; decide) | decide
  cases es with
  | nil => exact c2
  | cons e es => exact c1

/-- the loop of `enum_literal` over the remaining members -/
theorem setTail_reads : ∀ (es : RawList),
    (∀ e ∈ es.toList, ∀ rest, stops 8 rest = true → Phrase (e.need + 1) (e.toks ++ rest) e rest) →
    ∀ (acc : List Raw) (rest : List Tok) (fuel : Nat), RawList.needL es + 1 ≤ fuel →
      pSetTail fuel acc (tailToks es ++ symT "}" :: rest) = .ok (.set (rawListOf (acc.reverse ++ es.toList)), rest)
  | .nil, _, acc, rest, fuel, hf => by
      obtain ⟨f, rfl, _⟩ := exists_succ (n := 0) (show 0 + 1 ≤ fuel by simp only [RawList.needL] at hf; omega)
      have e1 : isSym (symT "}") "}" = true := by decide
      simp only [tailToks, List.nil_append, pSetTail, e1, ↓reduceIte, RawList.toList, List.append_nil, rawListOf]
  | .cons e es, ih, acc, rest, fuel, hf => by
      simp only [RawList.needL] at hf
      obtain ⟨f, rfl, hf'⟩ := exists_succ (n := max (e.need + 5) (RawList.needL es + 1)) hf
      have e1 : isSym (symT ",") "}" = false := by decide
      have e2 : isSym (symT ",") "," = true := by decide
      have he := (ih e (by simp [RawList.toList]) (tailToks es ++ symT "}" :: rest) (stops_tail_or_close 8 es rest)).expr
        (stops_tail_or_close 5 es rest) f (by omega)
      have := setTail_reads es (fun e' he' => ih e' (by simp [RawList.toList, he'])) (e :: acc) rest f (by omega)
      simp only [tailToks, List.cons_append, List.append_assoc, pSetTail, e1, e2, Bool.false_eq_true, ↓reduceIte, he, bind, Except.bind, this]
      simp [RawList.toList]

theorem set_atomic {e : Raw} {es : RawList}
    (ih : ∀ e' ∈ (RawList.cons e es).toList, ∀ rest, stops 8 rest = true → Phrase (e'.need + 1) (e'.toks ++ rest) e' rest) (rest : List Tok) :
    ParsesTo pAtomicValue (Raw.set (.cons e es)).need ((Raw.set (.cons e es)).toks ++ rest) (.set (.cons e es)) rest := by
  intro fuel hfuel
  simp only [Raw.need, RawList.needL] at hfuel
  obtain ⟨f, rfl, hf⟩ := exists_succ (n := max (e.need + 5) (RawList.needL es + 1) + 5) (show _ + 1 ≤ fuel by omega)
  have he := (ih e (by simp [RawList.toList]) (tailToks es ++ symT "}" :: rest) (stops_tail_or_close 8 es rest)).expr
    (stops_tail_or_close 5 es rest) f (by omega)
  have ht := setTail_reads es (fun e' he' => ih e' (by simp [RawList.toList, he'])) [e] rest f (by omega)
  simp only [Raw.toks, toksSep_cons, List.append_assoc, List.cons_append, List.nil_append]
  simp only [List.reverse_cons, List.reverse_nil, List.nil_append, List.cons_append] at ht
  have hr : rawListOf (e :: es.toList) = .cons e es := by
    have := rawListOf_toList (.cons e es); simpa [RawList.toList] using this
  rw [hr] at ht
  simp [pAtomicValue, symT, mkTok]
  simp only [symT, mkTok] at he ht
  simp only [he, bind, Except.bind, ht]

/-! ## negation, unary minus, quantifiers -/

theorem not_phrase {a : Raw} (iha : ∀ rest, stops 8 rest = true → Phrase (a.need + 1) (a.toks ++ rest) a rest) (rest : List Tok) :
    Phrase ((Raw.un "not" a).need + 1) ((Raw.un "not" a).toks ++ rest) (.un "not" a) rest := by
  have hl : ParsesTo pLogic (a.need + 7) (wordT "not" :: (a.toks ++ symT ")" :: rest)) (.un "not" a) (symT ")" :: rest) := by
    intro fuel hf
    obtain ⟨f, rfl, hf'⟩ := exists_succ (n := a.need + 6) hf
    have ha := (iha (symT ")" :: rest) (stops_rp 8 rest)).logic (stops_rp 4 rest) f (by omega)
    have e1 : isKw (wordT "not") "not" = true := by decide
    simp only [pLogic, e1, ↓reduceIte, ha, bind, Except.bind, pure, Except.pure]
  have := paren_phrase (close_logic hl (by omega))
  simp only [Raw.need, Raw.toks, List.append_assoc, List.cons_append, List.nil_append]
  exact ⟨this.exp.mono (by omega), by omega, this.head, this.ne⟩

theorem neg_phrase {a : Raw} (iha : ∀ rest, stops 8 rest = true → Phrase (a.need + 1) (a.toks ++ rest) a rest) (rest : List Tok) :
    Phrase ((Raw.un "-" a).need + 1) ((Raw.un "-" a).toks ++ rest) (.un "-" a) rest := by
  have hp : Phrase (a.need + 2) (symT "-" :: (a.toks ++ symT ")" :: rest)) (.un "-" a) (symT ")" :: rest) := by
    refine ⟨?_, by omega, (show isLogicKw (symT "-") = false by decide), by simp⟩
    intro fuel hf
    obtain ⟨f, rfl, hf'⟩ := exists_succ (n := a.need + 1) hf
    have ha := (iha (symT ")" :: rest) (stops_rp 8 rest)).exp f hf'
    have e1 : isSym (symT "-") "-" = true := by decide
    simp only [pExponent, e1, ↓reduceIte, ha, bind, Except.bind, pure, Except.pure]
  have := paren_phrase (hp.condition (stops_rp 0 rest))
  have e : ("-" == "not") = false := by decide
  simp only [Raw.need, Raw.toks, e, Bool.false_eq_true, ↓reduceIte, List.append_assoc, List.cons_append, List.nil_append]
  exact ⟨this.exp.mono (by omega), by omega, this.head, this.ne⟩

theorem quant_phrase {q : Quant} {x : String} {d b : Raw} (hc : isCName x = true)
    (ihd : ∀ rest, stops 8 rest = true → ParsesTo pAtomicValue d.need (d.toks ++ rest) d rest)
    (ihb : ∀ rest, stops 8 rest = true → Phrase (b.need + 1) (b.toks ++ rest) b rest) (rest : List Tok) :
    Phrase ((Raw.quant q x d b).need + 1) ((Raw.quant q x d b).toks ++ rest) (.quant q x d b) rest := by
  have hl : ParsesTo pLogic (max d.need b.need + 8)
      (wordT (match q with | .all => "forall" | .some => "exists") :: wordT x :: wordT "in" :: (d.toks ++ symT ":" :: (b.toks ++ symT ")" :: rest)))
      (.quant q x d b) (symT ")" :: rest) := by
    intro fuel hf
    obtain ⟨f, rfl, hf'⟩ := exists_succ (n := max d.need b.need + 7) hf
    have hd := ihd (symT ":" :: (b.toks ++ symT ")" :: rest)) (show stopsB 8 (symT ":") = true by decide) f (by omega)
    have hb := (ihb (symT ")" :: rest) (stops_rp 8 rest)).logic (stops_rp 4 rest) f (by omega)
    have e3 : isKw (wordT "in") "in" = true := by decide
    have e4 : isSym (symT ":") ":" = true := by decide
    have e5 : ((wordT x).kind == TokKind.word) = true := rfl
    cases q with
    | all =>
      have e1 : isKw (wordT "forall") "not" = false := by decide
      have e2 : (isKw (wordT "forall") "forall" || isKw (wordT "forall") "exists") = true := by decide
      simp only [pLogic, e1, e2, e3, e4, e5, hc, show (wordT x).text = x from rfl, Bool.false_eq_true, ↓reduceIte, Bool.and_self, hd, hb, bind, Except.bind,
        pure, Except.pure, show ((wordT "forall").text == "forall") = true by decide]
    | some =>
      have e1 : isKw (wordT "exists") "not" = false := by decide
      have e2 : (isKw (wordT "exists") "forall" || isKw (wordT "exists") "exists") = true := by decide
      simp only [pLogic, e1, e2, e3, e4, e5, hc, show (wordT x).text = x from rfl, Bool.false_eq_true, ↓reduceIte, Bool.and_self, hd, hb, bind, Except.bind,
        pure, Except.pure, show ((wordT "exists").text == "forall") = false by decide]
  have := paren_phrase (close_logic hl (by omega))
  simp only [Raw.need, Raw.toks, List.append_assoc, List.cons_append, List.nil_append]
  exact ⟨this.exp.mono (by omega), by omega, this.head, this.ne⟩

/-! ## the induction over the tree -/

theorem litTok_kind (tok : String) (v : LitVal) : ((litTok tok v).kind == .sym) = false := by
  cases v <;> simp only [litTok] <;> (try split) <;> rfl

theorem litTok_notLogic {tok : String} {v : LitVal} (h : litOk tok v = true) : isLogicKw (litTok tok v) = false := by
  have num : (if (numberConstant tok).isSome then wordT tok else mkTok .num tok) = litTok tok v → isLogicKw (litTok tok v) = false := by
    intro he
    rw [← he]
    split
    · rename_i hc
      rcases numberConstant_some hc with rfl | rfl | rfl | rfl <;> decide
    · simp [isLogicKw, isKw, mkTok]
  cases v with
  | str s => simp [litTok, isLogicKw, isKw, mkTok]
  | bool b =>
    simp only [litOk, beq_iff_eq] at h; subst h
    cases b <;> decide
  | int n => exact num rfl
  | flt q => exact num rfl
  | inf => exact num rfl
  | ninf => exact num rfl
  | nan => exact num rfl

theorem stops8_opTok {op : String} {j : Nat} (h : opLevel op = some j) : stopsB 8 (opTok op) = true := by
  rcases opLevel_cases h with rfl | rfl | rfl | rfl | rfl | rfl | rfl | rfl | rfl | rfl | rfl | rfl | rfl | rfl | rfl | rfl <;> decide

theorem ref_atomic {x : Raw} (h : RefReads x) (rest : List Tok) (hs : stops 8 rest = true) :
    ParsesTo pAtomicValue x.need (x.toks ++ rest) x rest := by
  intro fuel hf
  have hpar : headIs rest (fun t => isSym t "(") = false := by
    cases rest with
    | nil => rfl
    | cons t ts => exact (stopsB_8 (show stopsB 8 t = true from hs)).2.2
  obtain ⟨f', hf', heq⟩ := h rest hpar fuel (by omega)
  obtain ⟨f'', rfl, _⟩ := exists_succ (n := 0) (show 0 + 1 ≤ f' by omega)
  rw [heq, refTail_stop hs]

structure Reads (x : Raw) : Prop where
  phrase : ∀ rest, stops 8 rest = true → Phrase (x.need + 1) (x.toks ++ rest) x rest
  atomic : x.isAtomic = true → ∀ rest, stops 8 rest = true → ParsesTo pAtomicValue x.need (x.toks ++ rest) x rest
  ref : x.isRef = true → RefReads x

theorem reads_of_ref {x : Raw} (hr : x.isRef = true) (hp : x.printable = true) (h : RefReads x) : Reads x := by
  refine ⟨?_, fun _ rest hs => ref_atomic h rest hs, fun _ => h⟩
  intro rest hs
  obtain ⟨t, ts, ht, hk, hl⟩ := ref_head x hr hp
  have := ref_atomic h rest hs
  rw [ht] at this ⊢
  exact phrase_of_atomic this (isSym_of_kind hk _) (isSym_of_kind hk _) hl

theorem reads_of_atomic {x : Raw} {t : Tok} {ts : List Tok} (ht : x.toks = t :: ts) (hk : (t.kind == .sym) = false ∨ (isSym t "-" = false ∧ isSym t "(" = false))
    (hl : isLogicKw t = false) (hnr : x.isRef = false)
    (h : ∀ rest, stops 8 rest = true → ParsesTo pAtomicValue x.need (x.toks ++ rest) x rest) : Reads x := by
  refine ⟨?_, fun _ => h, fun hr => (by rw [hnr] at hr; cases hr)⟩
  intro rest hs
  have := h rest hs
  rw [ht] at this ⊢
  rcases hk with hk | ⟨h1, h2⟩
  · exact phrase_of_atomic this (isSym_of_kind hk _) (isSym_of_kind hk _) hl
  · exact phrase_of_atomic this h1 h2 hl

theorem reads_of_paren {x : Raw} (hna : x.isAtomic = false)
    (h : ∀ rest, stops 8 rest = true → Phrase (x.need + 1) (x.toks ++ rest) x rest) : Reads x := by
  refine ⟨h, fun ha => (by rw [hna] at ha; cases ha), fun hr => ?_⟩
  have : x.isAtomic = true := by cases x <;> simp_all [Raw.isAtomic, Raw.isRef]
  rw [hna] at this; cases this

mutual
theorem reads : ∀ (x : Raw), x.printable = true → Reads x
  | .lit tok v, hp => by
      have hp' : litOk tok v = true := by simpa [Raw.printable] using hp
      exact reads_of_atomic (t := litTok tok v) (ts := []) rfl (Or.inl (litTok_kind tok v)) (litTok_notLogic hp') rfl
        (fun rest _ => (lit_atomic hp' rest).mono (by simp [Raw.need]))
  | .this, hp => by simp [Raw.printable] at hp
  | .var v, hp => reads_of_ref rfl hp (ref_var v)
  | .field m n, hp => by
      by_cases hm : m = .this
      · subst hm
        exact reads_of_ref rfl hp (ref_own n (printable_own hp))
      · have hmr : m.isRef = true := by cases m <;> simp_all [Raw.printable]
        obtain ⟨hn, hpm⟩ := printable_field hmr hp
        have hr : (Raw.field m n).isRef = true := by cases m <;> simp_all [Raw.isRef]
        exact reads_of_ref hr hp (ref_field n hmr hn ((reads m hpm).ref hmr))
  | .index a i, hp => by
      obtain ⟨ha, hpa, hpi⟩ := printable_index hp
      exact reads_of_ref (by simpa [Raw.isRef] using ha) hp (ref_index ((reads a hpa).ref ha) (reads i hpi).phrase)
  | .set vs, hp => by
      cases vs with
      | nil => simp [Raw.printable] at hp
      | cons e es =>
        have hpl : (RawList.cons e es).printable = true := by simpa [Raw.printable] using hp
        exact reads_of_atomic (t := symT "{") (ts := RawList.toksSep (.cons e es) ++ [symT "}"]) (by simp [Raw.toks])
          (Or.inr ⟨by decide, by decide⟩) (by decide) rfl
          (fun rest _ => set_atomic (fun e' he' => (readsL (.cons e es) hpl e' he').phrase) rest)
  | .range lo hi exLo exHi, hp => by
      simp only [Raw.printable, Bool.and_eq_true] at hp
      have key := fun rest (_ : stops 8 rest = true) => range_atomic (exLo := exLo) (exHi := exHi) (reads lo hp.1).phrase (reads hi hp.2).phrase rest
      cases exLo
      · exact reads_of_atomic (t := symT "[") (ts := lo.toks ++ [wordT "to"] ++ hi.toks ++ [symT (if exHi then "]!" else "]")]) (by simp [Raw.toks])
          (Or.inr ⟨by decide, by decide⟩) (by decide) rfl key
      · exact reads_of_atomic (t := symT "![") (ts := lo.toks ++ [wordT "to"] ++ hi.toks ++ [symT (if exHi then "]!" else "]")]) (by simp [Raw.toks])
          (Or.inr ⟨by decide, by decide⟩) (by decide) rfl key
  | .call f (.cons a .nil), hp => by
      simp only [Raw.printable, Bool.and_eq_true] at hp
      obtain ⟨hf, has⟩ := hp
      exact reads_of_atomic (t := wordT f) (ts := symT "(" :: (RawList.toksSep (.cons a .nil) ++ [symT ")"])) (by simp [Raw.toks])
        (Or.inl rfl) (word_not_logicKw hf) rfl (fun rest _ => call_atomic hf (reads a has).phrase rest)
  | .call f .nil, hp => by simp [Raw.printable] at hp
  | .call f (.cons _ (.cons _ _)), hp => by simp [Raw.printable] at hp
  | .un op a, hp => by
      simp only [Raw.printable, Bool.and_eq_true, Bool.or_eq_true, beq_iff_eq] at hp
      obtain ⟨hop, hpa⟩ := hp
      rcases hop with rfl | rfl
      · exact reads_of_paren rfl (fun rest _ => not_phrase (reads a hpa).phrase rest)
      · exact reads_of_paren rfl (fun rest _ => neg_phrase (reads a hpa).phrase rest)
  | .bin op a b, hp => by
      simp only [Raw.printable, Bool.and_eq_true] at hp
      obtain ⟨⟨hop, hpa⟩, hpb⟩ := hp
      obtain ⟨j, hj⟩ := Option.isSome_iff_exists.1 hop
      refine reads_of_paren rfl (fun rest _ => ?_)
      have PA := (reads a hpa).phrase (opTok op :: (b.toks ++ symT ")" :: rest)) (stops8_opTok hj)
      have PB := (reads b hpb).phrase (symT ")" :: rest) (stops_rp 8 rest)
      have := paren_phrase (bin_condition hj PA PB)
      simp only [Raw.need, Raw.toks, List.append_assoc, List.cons_append, List.nil_append]
      exact ⟨this.exp.mono (by omega), by omega, this.head, this.ne⟩
  | .quant q x d b, hp => by
      simp only [Raw.printable, Bool.and_eq_true] at hp
      obtain ⟨⟨⟨hx, hpd⟩, hda⟩, hpb⟩ := hp
      exact reads_of_paren rfl (fun rest _ => quant_phrase hx ((reads d hpd).atomic hda) (reads b hpb).phrase rest)
theorem readsL : ∀ (es : RawList), es.printable = true → ∀ e ∈ es.toList, Reads e
  | .nil, _ => fun e he => by simp [RawList.toList] at he
  | .cons e' es, hp => fun e he => by
      simp only [RawList.printable, Bool.and_eq_true] at hp
      simp only [RawList.toList, List.mem_cons] at he
      rcases he with he | he
      · exact he ▸ reads e' hp.1
      · exact readsL es hp.2 e he
end

/-! ## the fuel the model gives itself is enough -/

theorem toks_ne {x : Raw} (hp : x.printable = true) : 1 ≤ x.toks.length := by
  have := ((reads x hp).phrase [] rfl).ne
  simp only [List.append_nil] at this
  cases h : x.toks with
  | nil => exact absurd h this
  | cons t ts => simp

mutual
theorem need_le : ∀ (x : Raw), x.printable = true → x.need ≤ 20 * x.toks.length
  | .lit tok v, _ => by simp [Raw.need, Raw.toks]
  | .this, hp => by simp [Raw.printable] at hp
  | .var v, _ => by simp [Raw.need, Raw.toks]
  | .field m n, hp => by
      by_cases hm : m = .this
      · subst hm; simp [Raw.need, Raw.toks]
      · have hmr : m.isRef = true := by cases m <;> simp_all [Raw.printable]
        obtain ⟨_, hpm⟩ := printable_field hmr hp
        have := need_le m hpm
        rw [need_field n hmr, toks_field n hmr]
        simp only [List.length_append, List.length_cons, List.length_nil]; omega
  | .index a i, hp => by
      obtain ⟨_, hpa, hpi⟩ := printable_index hp
      have h1 := need_le a hpa
      have h2 := need_le i hpi
      simp only [Raw.need, Raw.toks, List.length_append, List.length_cons, List.length_nil]; omega
  | .set .nil, hp => by simp [Raw.printable] at hp
  | .set (.cons e es), hp => by
      have hpl : (RawList.cons e es).printable = true := by simpa [Raw.printable] using hp
      simp only [RawList.printable, Bool.and_eq_true] at hpl
      have h1 := need_le e hpl.1
      have h2 := needL_le es hpl.2
      simp only [Raw.need, RawList.needL, Raw.toks, toksSep_cons, List.length_append, List.length_cons, List.length_nil]; omega
  | .range lo hi exLo exHi, hp => by
      simp only [Raw.printable, Bool.and_eq_true] at hp
      have h1 := need_le lo hp.1
      have h2 := need_le hi hp.2
      simp only [Raw.need, Raw.toks, List.length_append, List.length_cons, List.length_nil]; omega
  | .call f (.cons a .nil), hp => by
      simp only [Raw.printable, Bool.and_eq_true] at hp
      have h1 := need_le a hp.2
      simp only [Raw.need, RawList.needL, Raw.toks, RawList.toksSep, List.length_append, List.length_cons, List.length_nil]; omega
  | .call f .nil, hp => by simp [Raw.printable] at hp
  | .call f (.cons _ (.cons _ _)), hp => by simp [Raw.printable] at hp
  | .un op a, hp => by
      simp only [Raw.printable, Bool.and_eq_true] at hp
      have h1 := need_le a hp.2
      simp only [Raw.need, Raw.toks, List.length_append, List.length_cons, List.length_nil]; omega
  | .bin op a b, hp => by
      simp only [Raw.printable, Bool.and_eq_true] at hp
      have h1 := need_le a hp.1.2
      have h2 := need_le b hp.2
      simp only [Raw.need, Raw.toks, List.length_append, List.length_cons, List.length_nil]; omega
  | .quant q x d b, hp => by
      simp only [Raw.printable, Bool.and_eq_true] at hp
      have h1 := need_le d hp.1.1.2
      have h2 := need_le b hp.2
      simp only [Raw.need, Raw.toks, List.length_append, List.length_cons, List.length_nil]; omega
theorem needL_le : ∀ (es : RawList), es.printable = true → RawList.needL es ≤ 20 * (tailToks es).length + 5
  | .nil, _ => by simp [RawList.needL]
  | .cons e es, hp => by
      simp only [RawList.printable, Bool.and_eq_true] at hp
      have h1 := need_le e hp.1
      have h2 := needL_le es hp.2
      simp only [RawList.needL, tailToks, List.length_append, List.length_cons]; omega
end

/-- **C06 (token level)**: the parser model reads the printed form of every tree it can produce back to that tree,
    consuming all tokens, with the fuel it gives itself -/
theorem parse_toks_roundtrip (x : Raw) (hp : x.printable = true) : parseExpressionToks x.toks = .ok x := by
  have hph := (reads x hp).phrase [] rfl
  simp only [List.append_nil] at hph
  have hc := hph.condition rfl (parseFuel x.toks) (by have := need_le x hp; simp only [parseFuel]; omega)
  simp only [parseExpressionToks, hc, bind, Except.bind, List.isEmpty_nil, ↓reduceIte, pure, Except.pure]

/-- the hypothesis is satisfiable by a tree with every kind of node (non-vacuity) -/
def roundtripExample : Raw :=
  .bin "implies"
    (.quant .all "i" (.range (.lit "NAN" .nan) (.call "len" (.cons (.field .this "xs") .nil)) false true)
      (.bin ">" (.index (.field .this "xs") (.var "i")) (.un "-" (.lit "INF" .inf))))
    (.un "not" (.bin "in" (.field (.var "A") "y") (.set (.cons (.lit "True" (.bool true)) (.cons (.lit "\"a\"" (.str "\"a\"")) .nil)))))

theorem roundtripExample_printable : roundtripExample.printable = true := by
  simp only [roundtripExample, Raw.printable, RawList.printable, Raw.isAtomic, Raw.isRef, Bool.and_eq_true, Bool.and_true, Bool.true_and]
  decide

example : parseExpressionToks roundtripExample.toks = .ok roundtripExample :=
  parse_toks_roundtrip _ roundtripExample_printable

/-- the same inside braces, as a predicate -/
theorem parse_pred_toks_roundtrip (x : Raw) (hp : x.printable = true) (rest : List Tok) :
    pPredicate (symT "{" :: (x.toks ++ symT "}" :: rest)) = .ok (x, rest) := by
  have hph := (reads x hp).phrase (symT "}" :: rest) (show stopsB 8 (symT "}") = true by decide)
  have hc := hph.condition (show stopsB 0 (symT "}") = true by decide) (parseFuel (symT "{" :: (x.toks ++ symT "}" :: rest)))
    (by have := need_le x hp; simp only [parseFuel, List.length_cons, List.length_append]; omega)
  have e1 : isSym (symT "{") "{" = true := by decide
  have e2 : isSym (symT "}") "}" = true := by decide
  simp only [pPredicate, e1, ↓reduceIte, hc, bind, Except.bind, e2, pure, Except.pure]

end Hpl
