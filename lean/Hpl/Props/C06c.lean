import Hpl.Spec.PrintToksProp
import Hpl.Props.C06b
/-!
# C06 / C18 — reading back the printed form of properties and specification files, at token level

`parse_property_toks_roundtrip`, `parse_file_toks_roundtrip`: the property-level parser model reads the token sequence of
the printed form of every property tree it can produce (`RawProperty.printable`) back to that tree, and a sequence of k
printed properties back to exactly those k trees in order.
-/
namespace Hpl

def evStop (rest : List Tok) : Bool := match rest with | t :: _ => !isKw t "as" && !isSym t "{" | [] => true

theorem isKw_as_wordT : isKw (wordT "as") "as" = true := by decide

/-- one simple event -/
theorem pEvent_reads (s : RawSimple) (hp : s.printable = true) (rest : List Tok) (hs : evStop rest = true) :
    pEvent (s.toks ++ rest) = .ok (s, rest) := by
  obtain ⟨name, alias, pred⟩ := s
  simp only [RawSimple.printable, Bool.and_eq_true] at hp
  obtain ⟨⟨hn, ha⟩, hpr⟩ := hp
  have hstop : ∀ t ts, rest = t :: ts → isKw t "as" = false ∧ isSym t "{" = false := by
    intro t ts h; subst h; simpa [evStop] using hs
  cases alias with
  | some a =>
    cases pred with
    | some r =>
      have hrt := parse_pred_toks_roundtrip r hpr rest
      simp only [RawSimple.toks, List.append_assoc, List.cons_append, List.nil_append]
      simp only [pEvent, wordT, mkTok, hn, ha, isKw, isSym, symT, beq_self_eq_true, Bool.and_self, Bool.not_false, ↓reduceIte]
      simp only [symT, mkTok] at hrt
      simp [hrt, bind, Except.bind, pure, Except.pure]
    | none =>
      simp only [RawSimple.toks, List.append_assoc, List.cons_append, List.nil_append, List.append_nil]
      simp only [pEvent, wordT, mkTok, hn, ha, isKw, beq_self_eq_true, Bool.and_self, Bool.not_false, ↓reduceIte]
      cases rest with
      | nil => rfl
      | cons t ts =>
        obtain ⟨_, h2⟩ := hstop t ts rfl
        simp [h2]
  | none =>
    cases pred with
    | some r =>
      have hrt := parse_pred_toks_roundtrip r hpr rest
      simp only [RawSimple.toks, List.append_assoc, List.cons_append, List.nil_append]
      have e1 : isKw (symT "{") "as" = false := by decide
      have e2 : isSym (symT "{") "{" = true := by decide
      cases hrs : r.toks ++ symT "}" :: rest with
      | nil => simp at hrs
      | cons v r' =>
        rw [hrs] at hrt
        simp only [pEvent, wordT, mkTok, hn, beq_self_eq_true, Bool.true_and, e1, Bool.false_and, Bool.false_eq_true, ↓reduceIte, e2, hrt,
          bind, Except.bind, pure, Except.pure]
    | none =>
      simp only [RawSimple.toks, List.append_assoc, List.cons_append, List.nil_append, List.append_nil]
      cases rest with
      | nil => simp [pEvent, wordT, mkTok, hn]
      | cons t ts =>
        obtain ⟨h1, h2⟩ := hstop t ts rfl
        cases ts with
        | nil => simp [pEvent, wordT, mkTok, hn, h1, h2]
        | cons u us => simp [pEvent, wordT, mkTok, hn, h1, h2]

/-! ## event disjunctions -/

theorem evStop_or (ts : List Tok) : evStop (wordT "or" :: ts) = true := by
  show (!isKw (wordT "or") "as" && !isSym (wordT "or") "{") = true; decide
theorem evStop_rp (ts : List Tok) : evStop (symT ")" :: ts) = true := by
  show (!isKw (symT ")") "as" && !isSym (symT ")") "{") = true; decide

/-- the loop over the alternatives after the opening parenthesis -/
theorem pDisjTail_reads : ∀ (alts : List RawSimple), alts ≠ [] → (∀ s ∈ alts, s.printable = true) →
    ∀ (acc : List RawSimple) (rest : List Tok) (fuel : Nat), alts.length ≤ fuel → 2 ≤ acc.length + alts.length →
      pDisjTail fuel acc (altsToks alts ++ symT ")" :: rest) = .ok (.disj (acc.reverse ++ alts), rest)
  | [], hne, _, _, _, _, _, _ => absurd rfl hne
  | [s], _, hp, acc, rest, fuel, hf, hlen => by
      obtain ⟨f, rfl⟩ : ∃ f, fuel = f + 1 := ⟨fuel - 1, by simp at hf; omega⟩
      have he := pEvent_reads s (hp s (by simp)) (symT ")" :: rest) (evStop_rp rest)
      have e1 : isKw (symT ")") "or" = false := by decide
      have e2 : isSym (symT ")") ")" = true := by decide
      have hacc : acc.isEmpty = false := by
        cases acc with
        | nil => simp at hlen
        | cons _ _ => rfl
      simp only [altsToks, pDisjTail, he, bind, Except.bind, e1, e2, Bool.false_eq_true, ↓reduceIte, hacc, pure, Except.pure,
        List.reverse_cons, List.append_assoc, List.cons_append, List.nil_append]
  | s :: s' :: more, _, hp, acc, rest, fuel, hf, hlen => by
      obtain ⟨f, rfl⟩ : ∃ f, fuel = f + 1 := ⟨fuel - 1, by simp at hf; omega⟩
      have he := pEvent_reads s (hp s (by simp)) (wordT "or" :: (altsToks (s' :: more) ++ symT ")" :: rest)) (evStop_or _)
      have e1 : isKw (wordT "or") "or" = true := by decide
      have ih := pDisjTail_reads (s' :: more) (by simp) (fun x hx => hp x (List.mem_cons_of_mem _ hx)) (s :: acc) rest f
        (by simp at hf ⊢; omega) (by simp at hlen ⊢; omega)
      simp only [altsToks, List.append_assoc, List.cons_append, List.nil_append, pDisjTail, he, bind, Except.bind, e1, ↓reduceIte]
      rw [ih]; simp

theorem altsToks_length_le : ∀ (alts : List RawSimple), alts.length ≤ (altsToks alts).length + 1
  | [] => by simp
  | [s] => by simp [altsToks, RawSimple.toks]
  | s :: s' :: more => by
      have := altsToks_length_le (s' :: more)
      simp only [altsToks, List.length_cons, List.length_append, RawSimple.toks] at this ⊢
      omega

/-- an event (simple, or a parenthesised disjunction) -/
theorem pAnyEvent_reads (e : RawEvent) (hp : e.printable = true) (rest : List Tok) (hs : evStop rest = true) :
    pAnyEvent (e.toks ++ rest) = .ok (e, rest) := by
  cases e with
  | simple s =>
    have he := pEvent_reads s hp rest hs
    simp only [RawEvent.toks]
    have hne : ∃ t ts, s.toks ++ rest = t :: ts ∧ isSym t "(" = false := by
      refine ⟨wordT s.name, _, by simp only [RawSimple.toks, List.append_assoc, List.cons_append, List.nil_append]; rfl, by simp [isSym, wordT, mkTok]⟩
    obtain ⟨t, ts, hts, hsym⟩ := hne
    rw [hts] at he ⊢
    simp only [pAnyEvent, hsym, Bool.false_eq_true, ↓reduceIte, he, bind, Except.bind, pure, Except.pure]
  | disj alts =>
    simp only [RawEvent.printable, Bool.and_eq_true, decide_eq_true_eq, List.all_eq_true] at hp
    obtain ⟨hlen, hall⟩ := hp
    have hne : alts ≠ [] := by intro h; subst h; simp at hlen
    have e1 : isSym (symT "(") "(" = true := by decide
    have hfuel : alts.length ≤ (symT "(" :: (altsToks alts ++ symT ")" :: rest)).length + 1 := by
      have := altsToks_length_le alts
      simp only [List.length_cons, List.length_append]; omega
    have := pDisjTail_reads alts hne hall [] rest _ hfuel (by simpa using hlen)
    simp only [RawEvent.toks, List.append_assoc, List.cons_append, List.nil_append, pAnyEvent, e1, ↓reduceIte]
    simpa using this

/-! ## time bound, annotations -/

theorem pTimeBound_reads (fmt : Rat → String) (tb : Option (Rat × TimeUnit)) (hok : timeOk fmt tb = true) (rest : List Tok)
    (hs : ∀ t ts, rest = t :: ts → isKw t "within" = false) : pTimeBound (timeToks fmt tb ++ rest) = .ok (tb, rest) := by
  cases tb with
  | none =>
    simp only [timeToks, List.nil_append]
    cases rest with
    | nil => rfl
    | cons t ts => simp [pTimeBound, hs t ts rfl]
  | some qu =>
    obtain ⟨q, u⟩ := qu
    simp only [timeOk] at hok
    have e1 : isKw (wordT "within") "within" = true := by decide
    have e2 : ((mkTok TokKind.num (fmt q)).kind == TokKind.num) = true := rfl
    simp only [timeToks, List.cons_append, List.nil_append, pTimeBound, e1, ↓reduceIte, e2, show (mkTok TokKind.num (fmt q)).text = fmt q from rfl]
    cases hd : decimalValue (fmt q) with
    | none => rw [hd] at hok; simp at hok
    | some v =>
      rw [hd] at hok
      simp only
      cases v with
      | int i =>
        simp only [beq_iff_eq] at hok
        cases u <;> simp [unitTok, unitText, isWordS, hok]
      | flt r =>
        simp only [beq_iff_eq] at hok
        cases u <;> simp [unitTok, unitText, isWordS, hok]
      | bool _ => simp at hok
      | inf => simp at hok
      | ninf => simp at hok
      | nan => simp at hok
      | str _ => simp at hok

theorem pMetadata_stop {f : Nat} (acc : List (String × String)) (rest : List Tok)
    (hs : ∀ t ts, rest = t :: ts → isSym t "#" = false) : pMetadata (f + 1) acc rest = .ok (acc, rest) := by
  match rest, hs with
  | [], _ => rfl
  | [h], hs => simp [pMetadata, hs h [] rfl]
  | [h, k], hs => simp [pMetadata, hs h _ rfl]
  | [h, k, c], hs => simp [pMetadata, hs h _ rfl]
  | h :: k :: c :: v :: r, hs => simp [pMetadata, hs h _ rfl]

theorem pMetadata_reads : ∀ (md : List (String × String)), mdOk md = true → ∀ (acc : List (String × String)) (rest : List Tok) (fuel : Nat),
    md.length + 1 ≤ fuel → (∀ t ts, rest = t :: ts → isSym t "#" = false) →
    pMetadata fuel acc (mdToks md ++ rest) = .ok (acc ++ md, rest)
  | [], _, acc, rest, fuel, hf, hs => by
      obtain ⟨f, rfl⟩ : ∃ f, fuel = f + 1 := ⟨fuel - 1, by simp at hf; omega⟩
      simp only [mdToks, List.nil_append, List.append_nil]
      exact pMetadata_stop acc rest hs
  | (k, v) :: md, hok, acc, rest, fuel, hf, hs => by
      obtain ⟨f, rfl⟩ : ∃ f, fuel = f + 1 := ⟨fuel - 1, by simp at hf; omega⟩
      simp only [mdOk, Bool.and_eq_true, Bool.or_eq_true] at hok
      obtain ⟨hk, hrest⟩ := hok
      have ih := fun acc' => pMetadata_reads md hrest acc' rest f (by simp at hf ⊢; omega) hs
      have e1 : isSym (symT "#") "#" = true := by decide
      have e2 : isSym (symT ":") ":" = true := by decide
      simp only [mdToks, List.cons_append, List.nil_append, pMetadata, e1, e2, ↓reduceIte]
      rcases hk with (⟨hid, hcn⟩ | ht) | hd
      · have := eq_of_beq hid; subst this
        simp only [beq_self_eq_true, ↓reduceIte, isWordS, wordT, mkTok, Bool.and_self, hcn, Bool.true_and]
        rw [ih]; simp
      · have := eq_of_beq ht; subst this
        have n1 : ("title" == "id") = false := by decide
        simp only [n1, Bool.false_eq_true, ↓reduceIte, isWordS, wordT, mkTok, beq_self_eq_true, Bool.and_self, Bool.false_and, Bool.and_false]
        rw [ih]; simp
      · have := eq_of_beq hd; subst this
        have n1 : ("description" == "id") = false := by decide
        have n2 : ("description" == "title") = false := by decide
        simp only [n1, n2, Bool.false_eq_true, ↓reduceIte, isWordS, wordT, mkTok, beq_self_eq_true, Bool.and_self, Bool.false_and, Bool.and_false]
        rw [ih]; simp

/-! ## scope, pattern, property -/

/-- what may follow a property: nothing that would continue its last event or its time bound -/
def propStop (rest : List Tok) : Bool := match rest with | t :: _ => !isKw t "as" && !isSym t "{" && !isKw t "within" | [] => true

theorem evStop_word (w : String) (hw : (w == "as") = false) (ts : List Tok) : evStop (wordT w :: ts) = true := by
  show (!isKw (wordT w) "as" && !isSym (wordT w) "{") = true
  simp [isKw, isSym, wordT, mkTok, hw]

theorem evStop_colon (ts : List Tok) : evStop (symT ":" :: ts) = true := by
  show (!isKw (symT ":") "as" && !isSym (symT ":") "{") = true; decide

theorem evStop_time (fmt : Rat → String) (tb : Option (Rat × TimeUnit)) (rest : List Tok) (hs : propStop rest = true) :
    evStop (timeToks fmt tb ++ rest) = true := by
  cases tb with
  | some qu => obtain ⟨q, u⟩ := qu; exact evStop_word "within" (by decide) _
  | none =>
    simp only [timeToks, List.nil_append]
    cases rest with
    | nil => rfl
    | cons t ts => simp only [propStop, Bool.and_eq_true] at hs; simp only [evStop, Bool.and_eq_true]; exact hs.1

theorem notWithin_of_stop {rest : List Tok} (hs : propStop rest = true) : ∀ t ts, rest = t :: ts → isKw t "within" = false := by
  intro t ts h; subst h
  simp only [propStop, Bool.and_eq_true, Bool.not_eq_true'] at hs; exact hs.2

theorem pScope_reads (p : RawProperty) (hact : optPrintable p.activator = true) (hterm : optPrintable p.terminator = true)
    (hshape : (match p.scopeKind with
       | .global => p.activator.isNone && p.terminator.isNone
       | .after => p.activator.isSome && p.terminator.isNone
       | .until_ => p.activator.isNone && p.terminator.isSome
       | .afterUntil => p.activator.isSome && p.terminator.isSome) = true) (rest : List Tok) :
    pScope (scopeToks p ++ symT ":" :: rest) = .ok (p.scopeKind, p.activator, p.terminator, symT ":" :: rest) := by
  obtain ⟨sk, act, term, pk, beh, trig, tb, md⟩ := p
  simp only at hact hterm hshape
  have k1 : isKw (wordT "globally") "globally" = true := by decide
  have k2 : isKw (wordT "after") "globally" = false := by decide
  have k3 : isKw (wordT "after") "after" = true := by decide
  have k4 : isKw (wordT "until") "globally" = false := by decide
  have k5 : isKw (wordT "until") "after" = false := by decide
  have k6 : isKw (wordT "until") "until" = true := by decide
  have k7 : isKw (symT ":") "until" = false := by decide
  cases sk with
  | global =>
    cases act <;> cases term <;> simp at hshape
    simp only [scopeToks, List.cons_append, List.nil_append, pScope, k1, ↓reduceIte, pure, Except.pure]
  | after =>
    cases act with
    | none => simp at hshape
    | some a =>
      cases term with
      | some _ => simp at hshape
      | none =>
        have ha := pAnyEvent_reads a hact (symT ":" :: rest) (evStop_colon rest)
        simp only [scopeToks, optToks, List.cons_append, List.nil_append, List.append_assoc, pScope, k2, k3, Bool.false_eq_true, ↓reduceIte, ha, bind, Except.bind,
          k7, pure, Except.pure]
  | until_ =>
    cases act with
    | some _ => simp at hshape
    | none =>
      cases term with
      | none => simp at hshape
      | some q =>
        have hq := pAnyEvent_reads q hterm (symT ":" :: rest) (evStop_colon rest)
        simp only [scopeToks, optToks, List.cons_append, List.nil_append, List.append_assoc, pScope, k4, k5, k6, Bool.false_eq_true, ↓reduceIte, hq, bind, Except.bind,
          pure, Except.pure]
  | afterUntil =>
    cases act with
    | none => simp at hshape
    | some a =>
      cases term with
      | none => simp at hshape
      | some q =>
        have ha := pAnyEvent_reads a hact (wordT "until" :: (q.toks ++ symT ":" :: rest)) (evStop_word "until" (by decide) _)
        have hq := pAnyEvent_reads q hterm (symT ":" :: rest) (evStop_colon rest)
        simp only [scopeToks, optToks, List.cons_append, List.nil_append, List.append_assoc, pScope, k2, k3, Bool.false_eq_true, ↓reduceIte, ha, bind, Except.bind,
          k6, hq, pure, Except.pure]

theorem headOk_spec {e : RawEvent} (h : e.headOk = true) (rest : List Tok) :
    ∃ t ts, e.toks ++ rest = t :: ts ∧ isKw t "some" = false ∧ isKw t "no" = false := by
  cases e with
  | simple s =>
    simp only [RawEvent.headOk, Bool.and_eq_true, bne_iff_ne, ne_eq] at h
    refine ⟨wordT s.name, _, by simp only [RawEvent.toks, RawSimple.toks, List.append_assoc, List.cons_append, List.nil_append]; rfl, ?_, ?_⟩
    · simp [isKw, wordT, mkTok, h.1]
    · simp [isKw, wordT, mkTok, h.2]
  | disj alts =>
    exact ⟨symT "(", _, by simp only [RawEvent.toks, List.append_assoc, List.cons_append, List.nil_append]; rfl, by decide, by decide⟩

theorem pPattern_reads (fmt : Rat → String) (p : RawProperty) (hp : p.printable fmt = true) (sk : ScopeKind) (act term : Option RawEvent)
    (md : List (String × String)) (rest : List Tok) (hs : propStop rest = true) :
    pPattern sk act term md (patternToks p ++ timeToks fmt p.maxTime ++ rest) =
      .ok (⟨sk, act, term, p.patternKind, p.behaviour, p.trigger, p.maxTime, md⟩, rest) := by
  obtain ⟨sk0, act0, term0, pk, beh, trig, tb, md0⟩ := p
  simp only [RawProperty.printable, Bool.and_eq_true] at hp
  obtain ⟨⟨⟨⟨⟨⟨⟨_, htb⟩, hb⟩, _⟩, _⟩, htrig⟩, _⟩, hpk⟩ := hp
  simp only at htb hb htrig hpk ⊢
  have hstopT := evStop_time fmt tb rest hs
  have htime := pTimeBound_reads fmt tb htb rest (notWithin_of_stop hs)
  have kb := pAnyEvent_reads beh hb (timeToks fmt tb ++ rest) hstopT
  cases pk with
  | existence =>
    cases trig with
    | some _ => simp at hpk
    | none =>
      have k1 : isKw (wordT "some") "some" = true := by decide
      simp only [patternToks, List.cons_append, List.nil_append, List.append_assoc, pPattern, k1, ↓reduceIte, kb, bind, Except.bind, htime, pure, Except.pure]
  | absence =>
    cases trig with
    | some _ => simp at hpk
    | none =>
      have k0 : isKw (wordT "no") "some" = false := by decide
      have k1 : isKw (wordT "no") "no" = true := by decide
      simp only [patternToks, List.cons_append, List.nil_append, List.append_assoc, pPattern, k0, k1, Bool.false_eq_true, ↓reduceIte, kb, bind, Except.bind, htime,
        pure, Except.pure]
  | response =>
    cases trig with
    | none => simp at hpk
    | some tr =>
      simp only [optPrintable] at htrig
      have kt := pAnyEvent_reads tr htrig (wordT "causes" :: (beh.toks ++ (timeToks fmt tb ++ rest))) (evStop_word "causes" (by decide) _)
      obtain ⟨t0, ts0, hts, n1, n2⟩ := headOk_spec hpk (wordT "causes" :: (beh.toks ++ (timeToks fmt tb ++ rest)))
      have k1 : isKw (wordT "causes") "causes" = true := by decide
      simp only [patternToks, optToks, List.cons_append, List.nil_append, List.append_assoc]
      rw [hts] at kt ⊢
      simp only [pPattern, n1, n2, Bool.false_eq_true, ↓reduceIte, kt, bind, Except.bind, k1, kb, htime, pure, Except.pure]
  | prevention =>
    cases trig with
    | none => simp at hpk
    | some tr =>
      simp only [optPrintable] at htrig
      have kt := pAnyEvent_reads tr htrig (wordT "forbids" :: (beh.toks ++ (timeToks fmt tb ++ rest))) (evStop_word "forbids" (by decide) _)
      obtain ⟨t0, ts0, hts, n1, n2⟩ := headOk_spec hpk (wordT "forbids" :: (beh.toks ++ (timeToks fmt tb ++ rest)))
      have k0 : isKw (wordT "forbids") "causes" = false := by decide
      have k1 : isKw (wordT "forbids") "forbids" = true := by decide
      simp only [patternToks, optToks, List.cons_append, List.nil_append, List.append_assoc]
      rw [hts] at kt ⊢
      simp only [pPattern, n1, n2, Bool.false_eq_true, ↓reduceIte, kt, bind, Except.bind, k0, k1, kb, htime, pure, Except.pure]
  | requirement =>
    cases trig with
    | none => simp at hpk
    | some tr =>
      simp only [optPrintable] at htrig
      simp only [Option.isSome_some, Bool.true_and] at hpk
      have kb' := pAnyEvent_reads beh hb (wordT "requires" :: (tr.toks ++ (timeToks fmt tb ++ rest))) (evStop_word "requires" (by decide) _)
      have kt := pAnyEvent_reads tr htrig (timeToks fmt tb ++ rest) hstopT
      obtain ⟨t0, ts0, hts, n1, n2⟩ := headOk_spec hpk (wordT "requires" :: (tr.toks ++ (timeToks fmt tb ++ rest)))
      have k0 : isKw (wordT "requires") "causes" = false := by decide
      have k1 : isKw (wordT "requires") "forbids" = false := by decide
      have k2 : isKw (wordT "requires") "requires" = true := by decide
      simp only [patternToks, optToks, List.cons_append, List.nil_append, List.append_assoc]
      rw [hts] at kb' ⊢
      simp only [pPattern, n1, n2, Bool.false_eq_true, ↓reduceIte, kb', bind, Except.bind, k0, k1, k2, kt, htime, pure, Except.pure]

theorem scopeToks_head (p : RawProperty) (more : List Tok) :
    ∃ w ts, scopeToks p ++ more = wordT w :: ts ∧ (w = "globally" ∨ w = "after" ∨ w = "until") := by
  obtain ⟨sk, act, term, pk, beh, trig, tb, md⟩ := p
  cases sk
  · exact ⟨"globally", more, by simp [scopeToks], Or.inl rfl⟩
  · exact ⟨"after", optToks act ++ wordT "until" :: (optToks term ++ more), by simp [scopeToks], Or.inr (Or.inl rfl)⟩
  · exact ⟨"after", optToks act ++ more, by simp [scopeToks], Or.inr (Or.inl rfl)⟩
  · exact ⟨"until", optToks term ++ more, by simp [scopeToks], Or.inr (Or.inr rfl)⟩

theorem mdToks_length (md : List (String × String)) : (mdToks md).length = 4 * md.length := by
  induction md with
  | nil => rfl
  | cons kv md ih => obtain ⟨k, v⟩ := kv; simp only [mdToks, List.length_append, List.length_cons, List.length_nil, ih]; omega

/-- **one property**: the parser reads the printed form of a printable property back to it -/
theorem pProperty_reads (fmt : Rat → String) (p : RawProperty) (hp : p.printable fmt = true) (rest : List Tok) (hs : propStop rest = true) :
    pProperty (p.toks fmt ++ rest) = .ok (p, rest) := by
  have hp' := hp
  simp only [RawProperty.printable, Bool.and_eq_true] at hp'
  obtain ⟨⟨⟨⟨⟨⟨⟨hmd, _⟩, _⟩, hact⟩, hterm⟩, _⟩, hshape⟩, _⟩ := hp'
  obtain ⟨w, ts, hhead, hw⟩ := scopeToks_head p (symT ":" :: (patternToks p ++ timeToks fmt p.maxTime ++ rest))
  have hnohash : ∀ t ts', scopeToks p ++ symT ":" :: (patternToks p ++ timeToks fmt p.maxTime ++ rest) = t :: ts' → isSym t "#" = false := by
    intro t ts' h
    rw [hhead] at h
    cases h
    simp [isSym, wordT, mkTok]
  have hm := pMetadata_reads p.metadata hmd [] (scopeToks p ++ symT ":" :: (patternToks p ++ timeToks fmt p.maxTime ++ rest))
    ((p.toks fmt ++ rest).length + 1) (by
      simp only [RawProperty.toks, List.length_append, mdToks_length]; omega) hnohash
  have hsc := pScope_reads p hact hterm hshape (patternToks p ++ timeToks fmt p.maxTime ++ rest)
  have hpt := pPattern_reads fmt p hp p.scopeKind p.activator p.terminator p.metadata rest hs
  have e1 : isSym (symT ":") ":" = true := by decide
  have hto : p.toks fmt ++ rest = mdToks p.metadata ++ (scopeToks p ++ symT ":" :: (patternToks p ++ timeToks fmt p.maxTime ++ rest)) := by
    simp only [RawProperty.toks, List.append_assoc, List.cons_append, List.nil_append]
  unfold pProperty
  rw [← hto] at hm
  simp only [hm, bind, Except.bind, List.nil_append, hsc, e1, Bool.not_true, Bool.false_eq_true, ↓reduceIte, hpt]

theorem parse_property_toks_roundtrip (fmt : Rat → String) (p : RawProperty) (hp : p.printable fmt = true) :
    parsePropertyToks (p.toks fmt) = .ok p := by
  have := pProperty_reads fmt p hp [] rfl
  simp only [List.append_nil] at this
  simp only [parsePropertyToks, this, bind, Except.bind, List.isEmpty_nil, ↓reduceIte, pure, Except.pure]

/-! ## specification files -/

def specToks (fmt : Rat → String) : List RawProperty → List Tok
  | [] => []
  | p :: ps => p.toks fmt ++ specToks fmt ps

theorem toks_head_stop (fmt : Rat → String) (p : RawProperty) (more : List Tok) :
    propStop (p.toks fmt ++ more) = true ∧ (p.toks fmt ++ more).isEmpty = false := by
  obtain ⟨w, ts, hhead, hw⟩ := scopeToks_head p (symT ":" :: (patternToks p ++ timeToks fmt p.maxTime ++ more))
  cases hmd : p.metadata with
  | nil =>
    have : p.toks fmt ++ more = wordT w :: ts := by
      simp only [RawProperty.toks, hmd, mdToks, List.nil_append, List.append_assoc, List.cons_append] at hhead ⊢; exact hhead
    rw [this]
    refine ⟨?_, rfl⟩
    show (!isKw (wordT w) "as" && !isSym (wordT w) "{" && !isKw (wordT w) "within") = true
    rcases hw with rfl | rfl | rfl <;> decide
  | cons kv md =>
    obtain ⟨k, v⟩ := kv
    have : ∃ ts', p.toks fmt ++ more = symT "#" :: ts' :=
      ⟨_, by simp only [RawProperty.toks, hmd, mdToks, List.append_assoc, List.cons_append, List.nil_append]; rfl⟩
    obtain ⟨ts', h⟩ := this
    rw [h]
    exact ⟨(show (!isKw (symT "#") "as" && !isSym (symT "#") "{" && !isKw (symT "#") "within") = true by decide), rfl⟩

theorem pFile_reads (fmt : Rat → String) : ∀ (ps : List RawProperty), ps ≠ [] → (∀ p ∈ ps, p.printable fmt = true) →
    ∀ (acc : List RawProperty) (fuel : Nat), ps.length ≤ fuel → pFile fuel acc (specToks fmt ps) = .ok (acc ++ ps)
  | [], hne, _, _, _, _ => absurd rfl hne
  | [p], _, hp, acc, fuel, hf => by
      obtain ⟨f, rfl⟩ : ∃ f, fuel = f + 1 := ⟨fuel - 1, by simp at hf; omega⟩
      have := pProperty_reads fmt p (hp p (by simp)) [] rfl
      simp only [specToks, List.append_nil] at this ⊢
      simp only [pFile, this, bind, Except.bind, List.isEmpty_nil, ↓reduceIte, pure, Except.pure]
  | p :: q :: ps, _, hp, acc, fuel, hf => by
      obtain ⟨f, rfl⟩ : ∃ f, fuel = f + 1 := ⟨fuel - 1, by simp at hf; omega⟩
      have hstop := toks_head_stop fmt q (specToks fmt ps)
      have := pProperty_reads fmt p (hp p (by simp)) (specToks fmt (q :: ps)) hstop.1
      have ih := pFile_reads fmt (q :: ps) (by simp) (fun x hx => hp x (List.mem_cons_of_mem _ hx)) (acc ++ [p]) f (by simp at hf ⊢; omega)
      have hne : (specToks fmt (q :: ps)).isEmpty = false := hstop.2
      simp only [specToks] at this hne ih ⊢
      simp only [pFile, this, bind, Except.bind, hne, Bool.false_eq_true, ↓reduceIte, ih, List.append_assoc, List.cons_append, List.nil_append]

theorem specToks_length (fmt : Rat → String) : ∀ (ps : List RawProperty), ps.length ≤ (specToks fmt ps).length
  | [] => by simp [specToks]
  | p :: ps => by
      have := specToks_length fmt ps
      obtain ⟨_, hne⟩ := toks_head_stop fmt p []
      simp only [List.append_nil] at hne
      have : 1 ≤ (p.toks fmt).length := by
        cases h : p.toks fmt with
        | nil => rw [h] at hne; cases hne
        | cons _ _ => simp
      simp only [specToks, List.length_cons, List.length_append]; omega

/-- **C18 / C06 (token level)**: a file that is the printed form of k printable properties is read back as exactly those k
    properties, in order -/
theorem parse_file_toks_roundtrip (fmt : Rat → String) (ps : List RawProperty) (hne : ps ≠ []) (hp : ∀ p ∈ ps, p.printable fmt = true) :
    parseFileToks (specToks fmt ps) = .ok ps := by
  have := pFile_reads fmt ps hne hp [] ((specToks fmt ps).length + 1) (by have := specToks_length fmt ps; omega)
  simpa [parseFileToks] using this

end Hpl
