import Hpl.Props.C01c
/-!
# C06 — the scanner reads the printed form as its token sequence

`Lx`: a piece of text is scanned to a given sequence of token keys, whatever follows it (subject to a condition on the next
character).  Pieces: white space, punctuation, words, variables, literals; they compose; the printed form of an expression
tree is such a composition.
-/
namespace Hpl

abbrev Key := TokKind × String × Bool

/-- scanning `cs` (followed by any `rest` satisfying `P`) at brace depth `d` yields tokens with keys `keys` and leaves depth `d'`.
    `req`: the piece must not directly follow a word character; `ex`: after the piece the scanner is not "after a word character". -/
def Lx (cs : List Char) (d : Nat) (req : Bool) (keys : List Key) (d' : Nat) (ex : Bool) (P : List Char → Prop) : Prop :=
  ∀ rest, P rest → ∀ g aw acc, (req = true → aw = false) →
    ∃ (n : Nat) (ts : List Tok) (g' aw' : Bool), n ≤ cs.length ∧ (ex = true → aw' = false) ∧ ts.map tokKey = keys ∧
      ∀ f, scan (f + n) (cs ++ rest) d g aw acc = scan f rest d' g' aw' (ts.reverse ++ acc)

theorem Lx.comp {cs1 cs2 : List Char} {d d1 d2 : Nat} {r1 r2 e1 e2 : Bool} {k1 k2 : List Key} {P1 P2 : List Char → Prop}
    (h1 : Lx cs1 d r1 k1 d1 e1 P1) (h2 : Lx cs2 d1 r2 k2 d2 e2 P2) (hre : r2 = true → e1 = true)
    (hP : ∀ rest, P2 rest → P1 (cs2 ++ rest)) : Lx (cs1 ++ cs2) d r1 (k1 ++ k2) d2 e2 P2 := by
  intro rest hr g aw acc haw
  obtain ⟨n1, ts1, g1, aw1, hn1, hex1, hk1, hs1⟩ := h1 (cs2 ++ rest) (hP rest hr) g aw acc haw
  obtain ⟨n2, ts2, g2, aw2, hn2, hex2, hk2, hs2⟩ := h2 rest hr g1 aw1 (ts1.reverse ++ acc) (fun h => hex1 (hre h))
  refine ⟨n2 + n1, ts1 ++ ts2, g2, aw2, by simp only [List.length_append]; omega, hex2, by simp [hk1, hk2], fun f => ?_⟩
  rw [List.append_assoc, ← Nat.add_assoc, hs1 (f + n2), hs2 f]
  simp [List.reverse_append, List.append_assoc]

theorem Lx.weaken {cs : List Char} {d d' : Nat} {r e : Bool} {k : List Key} {P P' : List Char → Prop}
    (h : Lx cs d r k d' e P) (hP : ∀ rest, P' rest → P rest) : Lx cs d true k d' false P' := by
  intro rest hr g aw acc haw
  obtain ⟨n, ts, g', aw', hn, _, hk, hs⟩ := h rest (hP rest hr) g aw acc (fun _ => haw rfl)
  exact ⟨n, ts, g', aw', hn, (fun h => by cases h), hk, hs⟩

theorem Lx.weakenP {cs : List Char} {d d' : Nat} {r e : Bool} {k : List Key} {P P' : List Char → Prop}
    (h : Lx cs d r k d' e P) (hP : ∀ rest, P' rest → P rest) : Lx cs d r k d' e P' := by
  intro rest hr g aw acc haw
  exact h rest (hP rest hr) g aw acc haw

/-- one step of the scanner, unfolded -/
theorem scan_succ (f : Nat) (cs : List Char) (depth : Nat) (glued afterWord : Bool) (acc : List Tok) :
    scan (f + 1) cs depth glued afterWord acc = (
    match cs with
    | [] => .ok acc.reverse
    | c :: rest =>
      if isWs c then scan f rest depth false false acc
      else
        let mk (k : TokKind) (t : List Char) : Tok := ⟨k, String.ofList t, glued, afterWord⟩
        if c == '@' then
          match rest with
          | d :: _ =>
            if isIdStart d then
              let (w, r) := takeWhileC isIdChar rest
              scan f r depth true true (mk .var w :: acc)
            else .error .unexpectedChar
          | [] => .error .unexpectedChar
        else if c == '"' then
          match scanString rest ['"'] with
          | some (s, r) => scan f r depth true false (mk .str s :: acc)
          | none => .error .unexpectedChar
        else if isDigitA c || (c == '.' && (match rest with | d :: _ => isDigitA d | [] => false)) then
          match scanNumber cs with
          -- `\b` before a following keyword: a number such as `10.` ends in a non-word character
          | some (n, r) => scan f r depth true (n.getLast? != some '.') (mk .num n :: acc)
          | none => .error .unexpectedChar
        else if isIdStart c then
          let (w, r) := takeWhileC isIdChar cs
          if depth == 0 && isAlphaA c then
            let (more, r') := chanSegments (r.length + 1) r
            scan f r' depth true true (mk .word (w ++ more) :: acc)
          else scan f r depth true true (mk .word w :: acc)
        else if depth == 0 && (c == '/' || c == '~') then
          -- a channel name with a leading / or ~
          match rest with
          | d :: _ =>
            if isAlphaA d then
              let (w, r) := takeWhileC isIdChar rest
              let (more, r') := chanSegments (r.length + 1) r
              scan f r' depth true true (mk .word (c :: w ++ more) :: acc)
            else .error .unexpectedChar
          | [] => .error .unexpectedChar
        else
          -- punctuation: maximal munch for ** <= >= != ![ ]!  (after an atom the LALR lookahead sets are merged over all
          -- contexts, so `]!` is taken even where only `]` can follow: `xs[0]!= 3` is a syntax error in Lark too)
          let two : Option (List Char) := match c, rest with
            | '*', '*' :: _ => some ['*', '*']
            | '<', '=' :: _ => some ['<', '=']
            | '>', '=' :: _ => some ['>', '=']
            | '!', '=' :: _ => some ['!', '=']
            | '!', '[' :: _ => some ['!', '[']
            | ']', '!' :: _ => some [']', '!']
            | _, _ => none
          match two with
          | some t => scan f (rest.drop 1) depth true false (mk .sym t :: acc)
          | none =>
            if c == '{' then scan f rest (depth + 1) true false (mk .sym [c] :: acc)
            else if c == '}' then scan f rest (depth - 1) true false (mk .sym [c] :: acc)
            else if "()[],:.#=!<>+-*/".toList.contains c then scan f rest depth true false (mk .sym [c] :: acc)
            else .error .unexpectedChar) := rfl

/-- one blank -/
theorem lx_space (d : Nat) : Lx [' '] d false [] d true (fun _ => True) := by
  intro rest _ g aw acc _
  refine ⟨1, [], false, false, by simp, fun _ => rfl, rfl, fun f => ?_⟩
  rw [show f + 1 = f + 1 from rfl, List.cons_append, scan_succ]
  simp [isWs]

/-! ## punctuation -/

def symKey (cs : List Char) : Key := (.sym, String.ofList cs, false)

theorem tokKey_sym (cs : List Char) (g aw : Bool) : tokKey ⟨.sym, String.ofList cs, g, aw⟩ = symKey cs := by
  simp [tokKey, symKey]

/-- the first character of a two-character symbol, with the second -/
def pairOf (c : Char) : Option Char :=
  if c == '*' then some '*' else if c == '<' then some '=' else if c == '>' then some '=' else if c == ']' then some '!' else none

/-- a one-character symbol other than braces, `.` and `!`; if it can start a two-character symbol the next character must not complete it -/
theorem lx_sym1 (c : Char) (d : Nat) (hd : d ≠ 0) (hc : c ∈ ['(', ')', '[', ']', ',', ':', '=', '<', '>', '+', '-', '*', '/']) :
    Lx [c] d false [symKey [c]] d true (fun rest => ∀ p, pairOf c = some p → rest.head? ≠ some p) := by
  intro rest hP g aw acc _
  refine ⟨1, [⟨.sym, String.ofList [c], g, aw⟩], true, false, by simp, fun _ => rfl, by rw [List.map_cons, List.map_nil, tokKey_sym], fun f => ?_⟩
  have hd0 : (d == 0) = false := by simpa using hd
  simp only [List.mem_cons, List.not_mem_nil, or_false] at hc
  rw [List.singleton_append, scan_succ]
  rcases hc with rfl | rfl | rfl | rfl | rfl | rfl | rfl | rfl | rfl | rfl | rfl | rfl | rfl
  all_goals (simp only [pairOf] at hP)
  all_goals first
    | (simp [isWs, isDigitA, isIdStart, isAlphaA, hd0]; done)
    | (cases rest with
       | nil => simp [isWs, isDigitA, isIdStart, isAlphaA, hd0]
       | cons x xs =>
         have hx := hP _ rfl
         simp only [List.head?_cons, ne_eq, Option.some.injEq] at hx
         simp [isWs, isDigitA, isIdStart, isAlphaA, hd0, hx])

theorem lx_open (d : Nat) : Lx ['{'] d false [symKey ['{']] (d + 1) true (fun _ => True) := by
  intro rest _ g aw acc _
  refine ⟨1, [⟨.sym, String.ofList ['{'], g, aw⟩], true, false, by simp, fun _ => rfl, by rw [List.map_cons, List.map_nil, tokKey_sym], fun f => ?_⟩
  rw [List.singleton_append, scan_succ]
  simp [isWs, isDigitA, isIdStart, isAlphaA]

theorem lx_close (d : Nat) (hd : d ≠ 0) : Lx ['}'] d false [symKey ['}']] (d - 1) true (fun _ => True) := by
  intro rest _ g aw acc _
  refine ⟨1, [⟨.sym, String.ofList ['}'], g, aw⟩], true, false, by simp, fun _ => rfl, by rw [List.map_cons, List.map_nil, tokKey_sym], fun f => ?_⟩
  have hd0 : (d == 0) = false := by simpa using hd
  rw [List.singleton_append, scan_succ]
  simp [isWs, isDigitA, isIdStart, isAlphaA, hd0]

/-- `.` (not followed by a digit: that would start a number) -/
theorem lx_dot (d : Nat) (hd : d ≠ 0) :
    Lx ['.'] d false [symKey ['.']] d true (fun rest => ∀ x, rest.head? = some x → isDigitA x = false) := by
  intro rest hP g aw acc _
  refine ⟨1, [⟨.sym, String.ofList ['.'], g, aw⟩], true, false, by simp, fun _ => rfl, by rw [List.map_cons, List.map_nil, tokKey_sym], fun f => ?_⟩
  have hd0 : (d == 0) = false := by simpa using hd
  rw [List.singleton_append, scan_succ]
  cases rest with
  | nil => simp [isWs, isDigitA, isIdStart, isAlphaA, hd0]
  | cons x xs =>
    have hx := hP x rfl
    simp [isWs, isIdStart, isAlphaA, hd0, hx]
    simp [isDigitA]

/-- the two-character symbols -/
theorem lx_sym2 (a b : Char) (d : Nat) (hd : d ≠ 0)
    (hab : (a, b) ∈ [('*', '*'), ('<', '='), ('>', '='), ('!', '='), ('!', '['), (']', '!')]) :
    Lx [a, b] d false [symKey [a, b]] d true (fun _ => True) := by
  intro rest _ g aw acc _
  refine ⟨1, [⟨.sym, String.ofList [a, b], g, aw⟩], true, false, by simp, fun _ => rfl, by rw [List.map_cons, List.map_nil, tokKey_sym], fun f => ?_⟩
  have hd0 : (d == 0) = false := by simpa using hd
  simp only [List.mem_cons, Prod.mk.injEq, List.not_mem_nil, or_false] at hab
  rw [List.cons_append, List.singleton_append, scan_succ]
  rcases hab with ⟨rfl, rfl⟩ | ⟨rfl, rfl⟩ | ⟨rfl, rfl⟩ | ⟨rfl, rfl⟩ | ⟨rfl, rfl⟩ | ⟨rfl, rfl⟩ <;>
    simp [isWs, isDigitA, isIdStart, isAlphaA, hd0]

/-! ## words and variables -/

theorem takeWhileC_append (p : Char → Bool) : ∀ (w rest : List Char), w.all p = true → (∀ x, rest.head? = some x → p x = false) →
    takeWhileC p (w ++ rest) = (w, rest)
  | [], rest, _, hr => by
      cases rest with
      | nil => rfl
      | cons x xs => simp [takeWhileC, hr x rfl]
  | c :: w, rest, hw, hr => by
      simp only [List.all_cons, Bool.and_eq_true] at hw
      simp [takeWhileC, hw.1, takeWhileC_append p w rest hw.2 hr]

theorem idStart_not_digit (c : Char) (h : isIdStart c = true) : isDigitA c = false := by
  simp only [isIdStart, isAlphaA, isDigitA, Bool.or_eq_true, Bool.and_eq_true, decide_eq_true_eq, beq_iff_eq, Bool.and_eq_false_iff, decide_eq_false_iff_not] at *
  simp only [Char.le_def] at *
  rcases h with (⟨h1, h2⟩ | ⟨h1, h2⟩) | rfl
  · right; intro h3; have := UInt32.le_trans h1 h3; revert this; decide
  · right; intro h3; have := UInt32.le_trans h1 h3; revert this; decide
  · decide
theorem idStart_not_ws (c : Char) (h : isIdStart c = true) : isWs c = false := by
  simp only [isWs, Bool.or_eq_false_iff, beq_eq_false_iff_ne, ne_eq]
  refine ⟨⟨⟨⟨?_, ?_⟩, ?_⟩, ?_⟩, ?_⟩ <;> (intro hh; subst hh; revert h; decide)
theorem idStart_ne (c x : Char) (h : isIdStart c = true) (hx : isIdStart x = false) : (c == x) = false := by
  cases hcx : c == x with
  | false => rfl
  | true => have := eq_of_beq hcx; subst this; rw [h] at hx; cases hx
theorem idStart_idChar (c : Char) (h : isIdStart c = true) : isIdChar c = true := by
  simp only [isIdStart, Bool.or_eq_true] at h
  simp only [isIdChar, Bool.or_eq_true]
  rcases h with h | h
  · exact Or.inl (Or.inl h)
  · exact Or.inr h

def wordKey (w : List Char) : Key := (.word, String.ofList w, false)

/-- an identifier (not directly after a word character), followed by something that does not continue it -/
theorem lx_word (c : Char) (w : List Char) (d : Nat) (hd : d ≠ 0) (hc : isIdStart c = true) (hw : w.all isIdChar = true) :
    Lx (c :: w) d true [wordKey (c :: w)] d false (fun rest => ∀ x, rest.head? = some x → isIdChar x = false) := by
  intro rest hP g aw acc haw
  have haw' := haw rfl
  subst haw'
  refine ⟨1, [⟨.word, String.ofList (c :: w), g, false⟩], true, true, by simp, (fun h => by cases h), by simp [tokKey, wordKey], fun f => ?_⟩
  have hd0 : (d == 0) = false := by simpa using hd
  have htw : takeWhileC isIdChar (c :: (w ++ rest)) = (c :: w, rest) := by
    have := takeWhileC_append isIdChar (c :: w) rest (by simp [idStart_idChar c hc, hw]) hP
    simpa using this
  rw [List.cons_append, scan_succ]
  simp only [idStart_not_ws c hc, idStart_ne c '@' hc (by decide), idStart_ne c '"' hc (by decide), idStart_not_digit c hc,
    idStart_ne c '.' hc (by decide), Bool.false_eq_true, ↓reduceIte, Bool.false_and, Bool.or_self, hc, htw, hd0, List.reverse_cons,
    List.reverse_nil, List.nil_append, List.cons_append]

def varKey (w : List Char) : Key := (.var, String.ofList w, false)

/-- `@name` -/
theorem lx_var (c : Char) (w : List Char) (d : Nat) (hc : isIdStart c = true) (hw : w.all isIdChar = true) :
    Lx ('@' :: c :: w) d false [varKey (c :: w)] d false (fun rest => ∀ x, rest.head? = some x → isIdChar x = false) := by
  intro rest hP g aw acc _
  refine ⟨1, [⟨.var, String.ofList (c :: w), g, aw⟩], true, true, by simp, (fun h => by cases h), by simp [tokKey, varKey], fun f => ?_⟩
  have htw : takeWhileC isIdChar (c :: (w ++ rest)) = (c :: w, rest) := by
    have := takeWhileC_append isIdChar (c :: w) rest (by simp [idStart_idChar c hc, hw]) hP
    simpa using this
  rw [List.cons_append, List.cons_append, scan_succ]
  simp [isWs, hc, htw]

/-! ## what follows a printed sub-expression -/

/-- the character after a printed (sub-)expression: a blank or closing punctuation (or nothing) -/
def Delim (rest : List Char) : Prop := ∀ x, rest.head? = some x → x ∈ [' ', ')', ']', ',', '}', ':']

theorem Delim.notId {rest : List Char} (h : Delim rest) : ∀ x, rest.head? = some x → isIdChar x = false := by
  intro x hx
  have := h x hx
  simp only [List.mem_cons, List.not_mem_nil, or_false] at this
  rcases this with rfl | rfl | rfl | rfl | rfl | rfl <;> decide

theorem Delim.notDigit {rest : List Char} (h : Delim rest) : ∀ x, rest.head? = some x → isDigitA x = false := by
  intro x hx
  have := h x hx
  simp only [List.mem_cons, List.not_mem_nil, or_false] at this
  rcases this with rfl | rfl | rfl | rfl | rfl | rfl <;> decide

theorem Delim.noPair {rest : List Char} (h : Delim rest) (c : Char) : ∀ p, pairOf c = some p → rest.head? ≠ some p := by
  intro p hp hx
  have := h p hx
  simp only [List.mem_cons, List.not_mem_nil, or_false] at this
  unfold pairOf at hp
  rcases this with rfl | rfl | rfl | rfl | rfl | rfl <;> (repeat' (split at hp)) <;> simp_all

theorem delim_cons {x : Char} {xs : List Char} (h : x ∈ [' ', ')', ']', ',', '}', ':']) : Delim (x :: xs) := by
  intro y hy; simp only [List.head?_cons, Option.some.injEq] at hy; subst hy; exact h

/-- a word given as a string -/
theorem lx_wordS (s : String) (d : Nat) (hd : d ≠ 0) (hs : isCName s = true) :
    Lx s.toList d true [(.word, s, false)] d false (fun rest => ∀ x, rest.head? = some x → isIdChar x = false) := by
  unfold isCName at hs
  cases h : s.toList with
  | nil => rw [h] at hs; cases hs
  | cons c w =>
    rw [h] at hs
    simp only [Bool.and_eq_true] at hs
    have := lx_word c w d hd hs.1 hs.2
    have hk : wordKey (c :: w) = (.word, s, false) := by
      simp only [wordKey, ← h]; simp
    rw [hk] at this
    exact this

/-- an infix operator between blanks -/
theorem lx_op {op : String} {j : Nat} (h : opLevel op = some j) (d : Nat) (hd : d ≠ 0) :
    Lx op.toList d true [tokKey (opTok op)] d false (fun rest => rest.head? = some ' ') := by
  rcases opLevel_cases h with rfl | rfl | rfl | rfl | rfl | rfl | rfl | rfl | rfl | rfl | rfl | rfl | rfl | rfl | rfl | rfl
  · have h := lx_wordS "implies" d hd (by decide)
    have hk : ((TokKind.word, "implies", false) : Key) = tokKey (opTok "implies") := by decide
    rw [hk] at h
    exact h.weaken (fun rest hr x hx => by rw [hr] at hx; cases hx; decide)
  · have h := lx_wordS "iff" d hd (by decide)
    have hk : ((TokKind.word, "iff", false) : Key) = tokKey (opTok "iff") := by decide
    rw [hk] at h
    exact h.weaken (fun rest hr x hx => by rw [hr] at hx; cases hx; decide)
  · have h := lx_wordS "or" d hd (by decide)
    have hk : ((TokKind.word, "or", false) : Key) = tokKey (opTok "or") := by decide
    rw [hk] at h
    exact h.weaken (fun rest hr x hx => by rw [hr] at hx; cases hx; decide)
  · have h := lx_wordS "and" d hd (by decide)
    have hk : ((TokKind.word, "and", false) : Key) = tokKey (opTok "and") := by decide
    rw [hk] at h
    exact h.weaken (fun rest hr x hx => by rw [hr] at hx; cases hx; decide)
  · have h := lx_sym1 '=' d hd (by decide)
    have hk : symKey ['='] = tokKey (opTok "=") := by decide
    have hl : ("=" : String).toList = ['='] := by decide
    rw [hk] at h; rw [hl]
    exact h.weaken (fun rest hr p hp hx => by rw [hr] at hx; cases hx; revert hp; decide)
  · have h := lx_sym2 '!' '=' d hd (by decide)
    have hk : symKey ['!', '='] = tokKey (opTok "!=") := by decide
    have hl : ("!=" : String).toList = ['!', '='] := by decide
    rw [hk] at h; rw [hl]
    exact h.weaken (fun rest _ => trivial)
  · have h := lx_sym1 '<' d hd (by decide)
    have hk : symKey ['<'] = tokKey (opTok "<") := by decide
    have hl : ("<" : String).toList = ['<'] := by decide
    rw [hk] at h; rw [hl]
    exact h.weaken (fun rest hr p hp hx => by rw [hr] at hx; cases hx; revert hp; decide)
  · have h := lx_sym2 '<' '=' d hd (by decide)
    have hk : symKey ['<', '='] = tokKey (opTok "<=") := by decide
    have hl : ("<=" : String).toList = ['<', '='] := by decide
    rw [hk] at h; rw [hl]
    exact h.weaken (fun rest _ => trivial)
  · have h := lx_sym1 '>' d hd (by decide)
    have hk : symKey ['>'] = tokKey (opTok ">") := by decide
    have hl : (">" : String).toList = ['>'] := by decide
    rw [hk] at h; rw [hl]
    exact h.weaken (fun rest hr p hp hx => by rw [hr] at hx; cases hx; revert hp; decide)
  · have h := lx_sym2 '>' '=' d hd (by decide)
    have hk : symKey ['>', '='] = tokKey (opTok ">=") := by decide
    have hl : (">=" : String).toList = ['>', '='] := by decide
    rw [hk] at h; rw [hl]
    exact h.weaken (fun rest _ => trivial)
  · have h := lx_wordS "in" d hd (by decide)
    have hk : ((TokKind.word, "in", false) : Key) = tokKey (opTok "in") := by decide
    rw [hk] at h
    exact h.weaken (fun rest hr x hx => by rw [hr] at hx; cases hx; decide)
  · have h := lx_sym1 '+' d hd (by decide)
    have hk : symKey ['+'] = tokKey (opTok "+") := by decide
    have hl : ("+" : String).toList = ['+'] := by decide
    rw [hk] at h; rw [hl]
    exact h.weaken (fun rest hr p hp hx => by rw [hr] at hx; cases hx; revert hp; decide)
  · have h := lx_sym1 '-' d hd (by decide)
    have hk : symKey ['-'] = tokKey (opTok "-") := by decide
    have hl : ("-" : String).toList = ['-'] := by decide
    rw [hk] at h; rw [hl]
    exact h.weaken (fun rest hr p hp hx => by rw [hr] at hx; cases hx; revert hp; decide)
  · have h := lx_sym1 '*' d hd (by decide)
    have hk : symKey ['*'] = tokKey (opTok "*") := by decide
    have hl : ("*" : String).toList = ['*'] := by decide
    rw [hk] at h; rw [hl]
    exact h.weaken (fun rest hr p hp hx => by rw [hr] at hx; cases hx; revert hp; decide)
  · have h := lx_sym1 '/' d hd (by decide)
    have hk : symKey ['/'] = tokKey (opTok "/") := by decide
    have hl : ("/" : String).toList = ['/'] := by decide
    rw [hk] at h; rw [hl]
    exact h.weaken (fun rest hr p hp hx => by rw [hr] at hx; cases hx; revert hp; decide)
  · have h := lx_sym2 '*' '*' d hd (by decide)
    have hk : symKey ['*', '*'] = tokKey (opTok "**") := by decide
    have hl : ("**" : String).toList = ['*', '*'] := by decide
    rw [hk] at h; rw [hl]
    exact h.weaken (fun rest _ => trivial)

end Hpl
