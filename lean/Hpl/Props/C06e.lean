import Hpl.Props.C06d
import Hpl.Spec.PrintChars
/-!
# C06 — the printed text of an expression tree is scanned to the printed token sequence

`Raw.chars` is the text `__str__` writes for a tree (`Expr.print` on the typed tree, see `print_chars`); `lex_printed`: the scanner
turns it into `Raw.toks` up to the keys the grammar reads — for every printable tree whose literal tokens and variable names are
themselves scanned as one token (`Raw.lexOk`).
-/
namespace Hpl

/-- what may follow a reference chain: anything that does not continue a name and is not `!` (which would glue to `]`) -/
def RefNext (rest : List Char) : Prop := ∀ x, rest.head? = some x → isIdChar x = false ∧ x ≠ '!'

theorem Delim.refNext {rest : List Char} (h : Delim rest) : RefNext rest := by
  intro x hx
  have := h x hx
  simp only [List.mem_cons, List.not_mem_nil, or_false] at this
  rcases this with rfl | rfl | rfl | rfl | rfl | rfl <;> decide

/-- a literal token is scanned as one token when followed by a delimiter -/
def LitLex (tok : String) (v : LitVal) : Prop :=
  ∀ d, d ≠ 0 → Lx tok.toList d true [tokKey (litTok tok v)] d false Delim

mutual
def Raw.lexOk : Raw → Prop
  | .lit tok v => LitLex tok v
  | .this => True
  | .var x => isCName x = true
  | .set vs => RawList.lexOkL vs
  | .range lo hi _ _ => lo.lexOk ∧ hi.lexOk
  | .quant _ _ d b => d.lexOk ∧ b.lexOk
  | .un _ a => a.lexOk
  | .bin _ a b => a.lexOk ∧ b.lexOk
  | .call _ as => RawList.lexOkL as
  | .field m _ => m.lexOk
  | .index a i => a.lexOk ∧ i.lexOk
def RawList.lexOkL : RawList → Prop
  | .nil => True
  | .cons e es => e.lexOk ∧ RawList.lexOkL es
end

end Hpl

namespace Hpl

theorem Lx.keys {cs : List Char} {d d' : Nat} {r e : Bool} {k k' : List Key} {P : List Char → Prop}
    (h : Lx cs d r k d' e P) (hk : k = k') : Lx cs d r k' d' e P := hk ▸ h

@[simp] theorem tokKey_symT (s : String) : tokKey (symT s) = (.sym, s, false) := rfl
@[simp] theorem tokKey_wordT (s : String) : tokKey (wordT s) = (.word, s, false) := rfl
@[simp] theorem tokKey_varT (s : String) : tokKey (mkTok .var s) = (.var, s, false) := rfl

/-- a one-character symbol that starts no two-character symbol -/
theorem lx_c (c : Char) (d : Nat) (hd : d ≠ 0) (hc : c ∈ ['(', ')', '[', ',', ':', '=', '+', '-', '/']) :
    Lx [c] d false [(.sym, String.ofList [c], false)] d true (fun _ => True) := by
  have h := lx_sym1 c d hd (by
    simp only [List.mem_cons, List.not_mem_nil, or_false] at hc ⊢
    rcases hc with rfl | rfl | rfl | rfl | rfl | rfl | rfl | rfl | rfl <;> simp)
  refine h.weakenP (fun rest _ p hp => ?_)
  simp only [List.mem_cons, List.not_mem_nil, or_false] at hc
  rcases hc with rfl | rfl | rfl | rfl | rfl | rfl | rfl | rfl | rfl <;> simp [pairOf] at hp

theorem lx_rb (d : Nat) (hd : d ≠ 0) :
    Lx [']'] d false [(.sym, "]", false)] d true (fun rest => ∀ x, rest.head? = some x → x ≠ '!') := by
  have h := lx_sym1 ']' d hd (by decide)
  refine h.weakenP (fun rest hr p hp hx => ?_)
  have : p = '!' := by simp [pairOf] at hp; exact hp.symm
  subst this
  exact hr _ hx rfl

/-- a keyword followed by a blank -/
theorem lx_kw (s : String) (d : Nat) (hd : d ≠ 0) (hs : isCName s = true) :
    Lx s.toList d true [(.word, s, false)] d false (fun rest => rest.head? = some ' ') :=
  (lx_wordS s d hd hs).weakenP (fun rest hr x hx => by rw [hr] at hx; cases hx; decide)

end Hpl

namespace Hpl

/-- what follows the printed form of `r` -/
def Next (r : Raw) : List Char → Prop := if r.isRef = true then RefNext else Delim

theorem next_of_delim (r : Raw) {rest : List Char} (h : Delim rest) : Next r rest := by
  unfold Next; split
  · exact h.refNext
  · exact h

syntax "lx_re" : term
macro_rules | `(lx_re) => `((fun h => by first | rfl | cases h))

theorem isCName_cons {s : String} (h : isCName s = true) : ∃ c w, s.toList = c :: w ∧ isIdStart c = true ∧ w.all isIdChar = true := by
  unfold isCName at h
  cases hs : s.toList with
  | nil => rw [hs] at h; cases h
  | cons c w => rw [hs] at h; simp only [Bool.and_eq_true] at h; exact ⟨c, w, rfl, h.1, h.2⟩

theorem lx_nil (d : Nat) (P : List Char → Prop) : Lx [] d true [] d false P := by
  intro rest _ g aw acc _
  exact ⟨0, [], g, aw, by simp, (fun h => by cases h), rfl, fun f => by simp⟩

theorem lx_ropen (ex : Bool) (d : Nat) (hd : d ≠ 0) :
    Lx (if ex then ['!', '['] else ['[']) d false [(.sym, if ex then "![" else "[", false)] d true (fun _ => True) := by
  cases ex
  · exact lx_c '[' d hd (by decide)
  · exact lx_sym2 '!' '[' d hd (by decide)

theorem lx_rclose (ex : Bool) (d : Nat) (hd : d ≠ 0) :
    Lx (if ex then [']', '!'] else [']']) d false [(.sym, if ex then "]!" else "]", false)] d true
      (fun rest => ∀ x, rest.head? = some x → x ≠ '!') := by
  cases ex
  · exact lx_rb d hd
  · exact (lx_sym2 ']' '!' d hd (by decide)).weakenP (fun _ _ => trivial)

theorem delim_rclose (ex : Bool) (rest : List Char) : Delim ((if ex then [']', '!'] else [']']) ++ rest) := by
  cases ex <;> exact delim_cons (by decide)

theorem symKey_rbrace : symKey ['}'] = (.sym, "}", false) := by decide
theorem symKey_dot : symKey ['.'] = (.sym, ".", false) := by decide
theorem quantWord_cname (q : Quant) : isCName (match q with | .all => "forall" | .some => "exists") = true := by cases q <;> decide

theorem lx_close' (d : Nat) : Lx ['}'] (d + 1) false [(.sym, "}", false)] d true (fun _ => True) := by
  simpa [symKey_rbrace] using lx_close (d + 1) (by omega)

theorem lx_open' (d : Nat) : Lx ['{'] d false [(.sym, "{", false)] (d + 1) true (fun _ => True) := lx_open d

theorem chars_field {m : Raw} (n : String) (hm : m.isRef = true) : (Raw.field m n).chars = (m.chars ++ ['.']) ++ n.toList := by
  cases m <;> simp [Raw.chars, Raw.isRef] at *

theorem Delim.notBang {rest : List Char} (h : Delim rest) : ∀ x, rest.head? = some x → x ≠ '!' := fun x hx => (h.refNext x hx).2

theorem notId_of_cons {c : Char} {rest : List Char} (hc : isIdChar c = false) : ∀ x, (c :: rest).head? = some x → isIdChar x = false := by
  intro x hx; simp only [List.head?_cons, Option.some.injEq] at hx; subst hx; exact hc

theorem refNext_cons {c : Char} {rest : List Char} (hc : isIdChar c = false) (hb : c ≠ '!') : RefNext (c :: rest) := by
  intro x hx; simp only [List.head?_cons, Option.some.injEq] at hx; subst hx; exact ⟨hc, hb⟩

/-- a field access on a (non-`this`) reference chain, given the scan of the chain -/
theorem lexField (m : Raw) (n : String) (hm : m.isRef = true) (hp : (Raw.field m n).printable = true)
    (ihm : Lx m.chars d true (m.toks.map tokKey) d false (Next m)) (hd : d ≠ 0) :
    Lx (Raw.field m n).chars d true ((Raw.field m n).toks.map tokKey) d false (Next (.field m n)) := by
  have hn := (printable_field hm hp).1
  obtain ⟨c, w, hnl, hc, hw⟩ := isCName_cons hn
  simp only [Next, hm, if_true] at ihm
  have h := Lx.comp (Lx.comp ihm (lx_dot d hd) lx_re (fun rest _ => refNext_cons (by decide) (by decide))) (lx_wordS n d hd hn) lx_re
    (fun rest _ x hx => by rw [hnl] at hx; simp only [List.cons_append, List.head?_cons, Option.some.injEq] at hx; subst hx; exact idStart_not_digit _ hc)
  rw [chars_field n hm, toks_field n hm]
  have hr : (Raw.field m n).isRef = true := by cases m <;> simp_all [Raw.isRef]
  refine (h.weakenP (P' := Next (.field m n)) (fun rest hr' x hx => ?_)).keys ?_
  · simp only [Next, hr, if_true] at hr'; exact (hr' x hx).1
  · simp [symKey_dot]

mutual
theorem lexR : ∀ (r : Raw), r.printable = true → r.lexOk → ∀ d, d ≠ 0 →
    Lx r.chars d true (r.toks.map tokKey) d false (Next r)
  | .lit tok v, _, hl, d, hd => by
      have h := hl d hd
      simp only [Raw.chars, Raw.toks, List.map_cons, List.map_nil]
      exact h.weakenP (fun rest hr => by simpa [Next, Raw.isRef] using hr)
  | .this, hp, _, _, _ => by simp [Raw.printable] at hp
  | .var x, _, hl, d, hd => by
      obtain ⟨c, w, hx, hc, hw⟩ := isCName_cons hl
      have h := (lx_var c w d hc hw).weaken (P' := Next (.var x)) (fun rest hr y hy => by
        have := hr y hy
        simp only [Next, Raw.isRef] at hr
        exact (hr y hy).1)
      simp only [Raw.chars, Raw.toks, List.map_cons, List.map_nil, hx, tokKey_varT]
      refine h.keys ?_
      simp [varKey, ← hx]
  | .bin op a b, hp, hl, d, hd => by
      simp only [Raw.printable, Bool.and_eq_true] at hp
      obtain ⟨⟨ho, hpa⟩, hpb⟩ := hp
      obtain ⟨j, hj⟩ := Option.isSome_iff_exists.mp ho
      have iha := (lexR a hpa hl.1 d hd).weakenP (fun rest hr => next_of_delim a hr)
      have ihb := (lexR b hpb hl.2 d hd).weakenP (fun rest hr => next_of_delim b hr)
      have h := Lx.comp (lx_c '(' d hd (by decide)) (Lx.comp iha (Lx.comp (lx_space d) (Lx.comp (lx_op hj d hd) (Lx.comp (lx_space d)
        (Lx.comp ihb (lx_c ')' d hd (by decide)) lx_re (fun rest _ => delim_cons (by decide)))
        lx_re (fun _ _ => trivial)) lx_re (fun _ _ => rfl)) lx_re (fun _ _ => trivial)) lx_re (fun rest _ => delim_cons (by decide)))
        lx_re (fun _ _ => trivial)
      simp only [Raw.chars, Raw.toks]
      refine (h.weaken (P' := Next (.bin op a b)) (fun _ _ => trivial)).keys ?_
      simp
  | .un op a, hp, hl, d, hd => by
      simp only [Raw.printable, Bool.and_eq_true, Bool.or_eq_true, beq_iff_eq] at hp
      obtain ⟨ho, hpa⟩ := hp
      have iha := (lexR a hpa hl d hd).weakenP (fun rest hr => next_of_delim a hr)
      have tl := Lx.comp iha (lx_c ')' d hd (by decide)) lx_re (fun rest _ => delim_cons (by decide))
      rcases ho with rfl | rfl
      · have h := Lx.comp (lx_c '(' d hd (by decide)) (Lx.comp (Lx.comp (lx_kw "not" d hd (by decide)) (lx_space d) lx_re (fun _ _ => rfl))
          tl lx_re (fun _ _ => trivial)) lx_re (fun _ _ => trivial)
        simp only [Raw.chars, Raw.toks]
        refine (h.weaken (P' := Next (.un "not" a)) (fun _ _ => trivial)).keys ?_
        simp
      · have h := Lx.comp (lx_c '(' d hd (by decide)) (Lx.comp (lx_c '-' d hd (by decide)) tl lx_re (fun _ _ => trivial)) lx_re (fun _ _ => trivial)
        simp only [Raw.chars, Raw.toks]
        have e1 : (("-" : String) == "not") = false := by decide
        have e2 : ("-" : String).toList = ['-'] := by decide
        simp only [e1, e2, Bool.false_eq_true, if_false]
        refine (h.weaken (P' := Next (.un "-" a)) (fun _ _ => trivial)).keys ?_
        simp
  | .quant q x dm b, hp, hl, d, hd => by
      simp only [Raw.printable, Bool.and_eq_true] at hp
      obtain ⟨⟨⟨hx, hpd⟩, _⟩, hpb⟩ := hp
      have ihd := (lexR dm hpd hl.1 d hd).weakenP (fun rest hr => next_of_delim dm hr)
      have ihb := (lexR b hpb hl.2 d hd).weakenP (fun rest hr => next_of_delim b hr)
      have hq := quantWord_cname q
      have h := Lx.comp (lx_c '(' d hd (by decide)) (Lx.comp (lx_kw _ d hd hq) (Lx.comp (lx_space d) (Lx.comp (lx_kw x d hd hx) (Lx.comp (lx_space d)
        (Lx.comp (lx_kw "in" d hd (by decide)) (Lx.comp (lx_space d) (Lx.comp ihd (Lx.comp (lx_c ':' d hd (by decide)) (Lx.comp (lx_space d)
        (Lx.comp ihb (lx_c ')' d hd (by decide)) lx_re (fun rest _ => delim_cons (by decide)))
        lx_re (fun _ _ => trivial)) lx_re (fun _ _ => trivial)) lx_re (fun rest _ => delim_cons (by decide))) lx_re (fun _ _ => trivial))
        lx_re (fun _ _ => rfl)) lx_re (fun _ _ => trivial)) lx_re (fun _ _ => rfl)) lx_re (fun _ _ => trivial)) lx_re (fun _ _ => rfl))
        lx_re (fun _ _ => trivial)
      simp only [Raw.chars, Raw.toks]
      refine (h.weaken (P' := Next (.quant q x dm b)) (fun _ _ => trivial)).keys ?_
      cases q <;> simp
  | .range lo hi exLo exHi, hp, hl, d, hd => by
      simp only [Raw.printable, Bool.and_eq_true] at hp
      have ihl := (lexR lo hp.1 hl.1 d hd).weakenP (fun rest hr => next_of_delim lo hr)
      have ihh := (lexR hi hp.2 hl.2 d hd).weakenP (fun rest hr => next_of_delim hi hr)
      have h := Lx.comp (lx_ropen exLo d hd) (Lx.comp ihl (Lx.comp (lx_space d) (Lx.comp (lx_kw "to" d hd (by decide)) (Lx.comp (lx_space d)
        (Lx.comp ihh (lx_rclose exHi d hd) lx_re (fun rest _ => delim_rclose exHi rest))
        lx_re (fun _ _ => trivial)) lx_re (fun _ _ => rfl)) lx_re (fun _ _ => trivial)) lx_re (fun rest _ => delim_cons (by decide)))
        lx_re (fun _ _ => trivial)
      simp only [Raw.chars, Raw.toks]
      refine (h.weaken (P' := Next (.range lo hi exLo exHi)) (fun rest hr => ?_)).keys ?_
      · simp only [Next, Raw.isRef] at hr; exact Delim.notBang (by simpa using hr)
      · simp
  | .set vs, hp, hl, d, hd => by
      simp only [Raw.printable, Bool.and_eq_true] at hp
      have ihs := lexL vs hp.2 hl (d + 1) (by omega)
      have h := Lx.comp (lx_open' d) (Lx.comp ihs (lx_close' d) lx_re (fun rest _ => delim_cons (by decide))) lx_re (fun _ _ => trivial)
      simp only [Raw.chars, Raw.toks]
      refine (h.weaken (P' := Next (.set vs)) (fun _ _ => trivial)).keys ?_
      simp
  | .call f (.cons a .nil), hp, hl, d, hd => by
      simp only [Raw.printable, Bool.and_eq_true] at hp
      have hf : isCName f = true := by have := hp.1; simp only [isName, Bool.and_eq_true] at this; exact this.1
      have iha := (lexR a hp.2 hl.1 d hd).weakenP (fun rest hr => next_of_delim a hr)
      have h := Lx.comp (lx_wordS f d hd hf) (Lx.comp (lx_c '(' d hd (by decide)) (Lx.comp iha (lx_c ')' d hd (by decide))
        lx_re (fun rest _ => delim_cons (by decide))) lx_re (fun _ _ => trivial)) lx_re (fun rest _ => notId_of_cons (by decide))
      simp only [Raw.chars, Raw.toks, RawList.charsSep, RawList.toksSep]
      refine (h.weaken (P' := Next (.call f (.cons a .nil))) (fun _ _ => trivial)).keys ?_
      simp
  | .call f .nil, hp, _, _, _ => by simp [Raw.printable] at hp
  | .call f (.cons _ (.cons _ _)), hp, _, _, _ => by simp [Raw.printable] at hp
  | .field .this n, hp, _, d, hd => by
      have hn : isCName n = true := by have := printable_own hp; simp only [isName, Bool.and_eq_true] at this; exact this.1
      have h := lx_wordS n d hd hn
      simp only [Raw.chars, Raw.toks, List.nil_append, List.map_cons, List.map_nil, tokKey_wordT]
      exact h.weakenP (fun rest hr x hx => by simp only [Next, Raw.isRef] at hr; exact (hr x hx).1)
  | .field (.var y) n, hp, hl, d, hd => lexField (.var y) n rfl hp (lexR (.var y) (printable_field rfl hp).2 hl d hd) hd
  | .field (.field m' n') n, hp, hl, d, hd =>
      have hm : (Raw.field m' n').isRef = true := by simp only [Raw.printable, Bool.and_eq_true] at hp; exact hp.1.2
      lexField (.field m' n') n hm hp (lexR (.field m' n') (printable_field hm hp).2 hl d hd) hd
  | .field (.index a' i') n, hp, hl, d, hd =>
      have hm : (Raw.index a' i').isRef = true := by simp only [Raw.printable, Bool.and_eq_true] at hp; exact hp.1.2
      lexField (.index a' i') n hm hp (lexR (.index a' i') (printable_field hm hp).2 hl d hd) hd
  | .field (.lit ..) n, hp, _, _, _ => by simp [Raw.printable, Raw.isRef] at hp
  | .field (.set ..) n, hp, _, _, _ => by simp [Raw.printable, Raw.isRef] at hp
  | .field (.range ..) n, hp, _, _, _ => by simp [Raw.printable, Raw.isRef] at hp
  | .field (.quant ..) n, hp, _, _, _ => by simp [Raw.printable, Raw.isRef] at hp
  | .field (.un ..) n, hp, _, _, _ => by simp [Raw.printable, Raw.isRef] at hp
  | .field (.bin ..) n, hp, _, _, _ => by simp [Raw.printable, Raw.isRef] at hp
  | .field (.call ..) n, hp, _, _, _ => by simp [Raw.printable, Raw.isRef] at hp
  | .index a i, hp, hl, d, hd => by
      obtain ⟨har, hpa, hpi⟩ := printable_index hp
      have iha := lexR a hpa hl.1 d hd
      simp only [Next, har, if_true] at iha
      have ihi := (lexR i hpi hl.2 d hd).weakenP (fun rest hr => next_of_delim i hr)
      have h := Lx.comp iha (Lx.comp (lx_c '[' d hd (by decide)) (Lx.comp ihi (lx_rb d hd) lx_re (fun rest _ => delim_cons (by decide)))
        lx_re (fun _ _ => trivial)) lx_re (fun rest _ => refNext_cons (by decide) (by decide))
      simp only [Raw.chars, Raw.toks]
      refine (h.weaken (P' := Next (.index a i)) (fun rest hr x hx => ?_)).keys ?_
      · simp only [Next, Raw.isRef, har, if_true] at hr; exact (hr x hx).2
      · simp
theorem lexL : ∀ (vs : RawList), RawList.printable vs = true → RawList.lexOkL vs → ∀ d, d ≠ 0 →
    Lx (RawList.charsSep vs) d true ((RawList.toksSep vs).map tokKey) d false Delim
  | .nil, _, _, d, _ => by simpa [RawList.charsSep, RawList.toksSep] using lx_nil d Delim
  | .cons e .nil, hp, hl, d, hd => by
      simp only [RawList.printable, Bool.and_eq_true] at hp
      simpa [RawList.charsSep, RawList.toksSep] using (lexR e hp.1 hl.1 d hd).weakenP (fun rest hr => next_of_delim e hr)
  | .cons e (.cons e' es), hp, hl, d, hd => by
      have hp' := hp
      simp only [RawList.printable, Bool.and_eq_true] at hp
      have ihe := (lexR e hp.1 hl.1 d hd).weakenP (fun rest hr => next_of_delim e hr)
      have ihs := lexL (.cons e' es) (by simp only [RawList.printable, Bool.and_eq_true]; exact hp.2) hl.2 d hd
      have h := Lx.comp ihe (Lx.comp (lx_c ',' d hd (by decide)) (Lx.comp (lx_space d) ihs lx_re (fun _ _ => trivial))
        lx_re (fun _ _ => trivial)) lx_re (fun rest _ => delim_cons (by decide))
      simp only [RawList.charsSep, RawList.toksSep]
      refine (h.weaken (P' := Delim) (fun _ hr => hr)).keys ?_
      simp
end

end Hpl

namespace Hpl

/-- **the scanner reads the printed text of a tree as the tree's printed tokens** (up to the keys the grammar reads) -/
theorem lex_printed (r : Raw) (hp : r.printable = true) (hl : r.lexOk) :
    ∃ ts, lexExpr (String.ofList r.chars) = .ok ts ∧ ts.map tokKey = r.toks.map tokKey := by
  obtain ⟨n, ts, g', aw', hn, _, hk, hs⟩ := lexR r hp hl 1 (by decide) [] (next_of_delim r (fun x hx => by cases hx)) false false [] (fun _ => rfl)
  refine ⟨ts, ?_, hk⟩
  unfold lexExpr
  simp only [String.toList_ofList, List.append_nil] at hs ⊢
  have := hs (r.chars.length + 1 - n)
  rw [show r.chars.length + 1 - n + n = r.chars.length + 1 by omega] at this
  rw [this]
  obtain ⟨f, hf⟩ : ∃ f, r.chars.length + 1 - n = f + 1 := ⟨r.chars.length - n, by omega⟩
  rw [hf, scan_succ]
  simp

/-- **text-level round trip at the grammar**: the printed text of a printable tree parses back to the tree -/
theorem parse_printed (r : Raw) (hp : r.printable = true) (hl : r.lexOk) :
    parseExpression (String.ofList r.chars) = build r := by
  obtain ⟨ts, hlex, hk⟩ := lex_printed r hp hl
  unfold parseExpression
  rw [hlex]
  simp only [roundtrip_of_scanned r hp ts hk]

end Hpl
