import Hpl.Props.C06e
import Hpl.Spec.WellTyped
/-!
# C06 — text-level round trip: `parseExpression (print e) = e` for every tree the constructors build from a printable syntax tree

`build` only decorates a syntax tree with type sets (`build_erase`), the printer ignores them (`print_erase`), the printed text of a
printable tree is `Raw.chars` (`print_chars`); with `parse_printed` (scanner + grammar) this closes the loop on *strings*.
-/
namespace Hpl

mutual
/-- forget the type sets -/
def Expr.erase : Expr → Raw
  | .lit _ tok v => .lit tok v
  | .this _ => .this
  | .var _ x => .var x
  | .set _ vs => .set (ExprList.eraseL vs)
  | .range _ lo hi a b => .range lo.erase hi.erase a b
  | .quant _ q x d b => .quant q x d.erase b.erase
  | .un _ op a => .un op a.erase
  | .bin _ op a b => .bin op a.erase b.erase
  | .call _ f as => .call f (ExprList.eraseL as)
  | .field _ m n => .field m.erase n
  | .index _ a i => .index a.erase i.erase
def ExprList.eraseL : ExprList → RawList
  | .nil => .nil
  | .cons e es => .cons e.erase (ExprList.eraseL es)
end

@[simp] theorem erase_withTy (t : DataType) (e : Expr) : (e.withTy t).erase = e.erase := by
  cases e <;> simp [Expr.withTy, Expr.erase]

theorem castE_erase {e e' : Expr} {t : DataType} (h : castE e t = .ok e') : e'.erase = e.erase := by
  unfold castE at h
  simp only at h
  split at h
  · cases h
  · split at h
    · cases h; rfl
    · cases h; simp

theorem castList_erase (t : DataType) : ∀ (es es' : ExprList), castList t es = .ok es' → ExprList.eraseL es' = ExprList.eraseL es
  | .nil, es', h => by simp only [castList] at h; cases h; rfl
  | .cons e es, es', h => by
      simp only [castList, bind, Except.bind, pure, Except.pure] at h
      split at h
      · cases h
      · rename_i e1 he
        split at h
        · cases h
        · rename_i es1 hes
          cases h
          simp only [ExprList.eraseL, castE_erase he, castList_erase t es es1 hes]

theorem castArgs_erase : ∀ (es : ExprList) (ts : List DataType) (es' : ExprList), es.length ≤ ts.length → castArgs es ts = .ok es' →
    ExprList.eraseL es' = ExprList.eraseL es
  | .nil, ts, es', _, h => by cases ts <;> (simp only [castArgs] at h; cases h; rfl)
  | .cons e es, [], es', hl, _ => by simp [ExprList.length] at hl
  | .cons e es, t :: ts, es', hl, h => by
      simp only [castArgs, bind, Except.bind, pure, Except.pure] at h
      split at h
      · cases h
      · rename_i e1 he
        split at h
        · cases h
        · rename_i es1 hes
          cases h
          simp only [ExprList.length, List.length_cons] at hl
          simp only [ExprList.eraseL, castE_erase he, castArgs_erase es ts es1 (by omega) hes]

end Hpl

namespace Hpl

theorem mkUn_erase {op : String} {a e : Expr} (h : mkUn op a = .ok e) : e.erase = .un op a.erase := by
  unfold mkUn at h
  split at h
  · cases h
  · simp only [bind, Except.bind, pure, Except.pure] at h
    split at h
    · cases h
    · rename_i a1 ha; cases h; simp [Expr.erase, castE_erase ha]

theorem mkBin_erase {op : String} {a b e : Expr} (h : mkBin op a b = .ok e) : e.erase = .bin op a.erase b.erase := by
  unfold mkBin at h
  split at h
  · cases h
  · simp only [bind, Except.bind, pure, Except.pure] at h
    split at h
    · cases h
    · rename_i a1 ha
      split at h
      · cases h
      · rename_i b1 hb
        split at h
        · split at h
          · cases h
          · rename_i a2 ha2
            split at h
            · cases h
            · rename_i b2 hb2
              cases h
              simp [Expr.erase, castE_erase ha, castE_erase hb, castE_erase ha2, castE_erase hb2]
        · cases h; simp [Expr.erase, castE_erase ha, castE_erase hb]

theorem paramsFor_len_ge (s : Sig) (n : Nat) : n ≤ (s.paramsFor n).length := by
  simp only [Sig.paramsFor, List.length_append, List.length_replicate]; omega

theorem mkCall_erase {f : String} {as : ExprList} {e : Expr} (h : mkCall f as = .ok e) : e.erase = .call f (ExprList.eraseL as) := by
  unfold mkCall at h
  split at h
  · cases h
  · split at h
    · cases h
    · simp only [bind, Except.bind, pure, Except.pure] at h
      split at h
      · cases h
      · rename_i as1 has; cases h
        simp [Expr.erase, castArgs_erase _ _ _ (paramsFor_len_ge _ _) has]
    · cases h; simp [Expr.erase]

theorem mkField_erase {m e : Expr} {n : String} (h : mkField m n = .ok e) : e.erase = .field m.erase n := by
  unfold mkField mkFieldT at h
  split at h
  · cases h
  · simp only [bind, Except.bind, pure, Except.pure] at h
    split at h
    · cases h
    · rename_i m1 hm; cases h; simp [Expr.erase, castE_erase hm]

theorem mkIndex_erase {a i e : Expr} (h : mkIndex a i = .ok e) : e.erase = .index a.erase i.erase := by
  unfold mkIndex mkIndexT at h
  split at h
  · cases h
  · simp only [bind, Except.bind, pure, Except.pure] at h
    split at h
    · cases h
    · rename_i a1 ha
      split at h
      · cases h
      · rename_i i1 hi; cases h; simp [Expr.erase, castE_erase ha, castE_erase hi]

theorem mkSet_erase {vs : ExprList} {e : Expr} (h : mkSet vs = .ok e) : e.erase = .set (ExprList.eraseL vs) := by
  unfold mkSet at h
  simp only [bind, Except.bind, pure, Except.pure] at h
  split at h
  · cases h
  · rename_i vs1 hvs; cases h; simp [Expr.erase, castList_erase _ _ _ hvs]

theorem mkRange_erase {lo hi e : Expr} {a b : Bool} (h : mkRange lo hi a b = .ok e) : e.erase = .range lo.erase hi.erase a b := by
  unfold mkRange at h
  simp only [bind, Except.bind, pure, Except.pure] at h
  split at h
  · cases h
  · rename_i l1 hl
    split at h
    · cases h
    · rename_i h1 hh; cases h; simp [Expr.erase, castE_erase hl, castE_erase hh]

theorem mkQuant_erase {q : Quant} {x : String} {d b e : Expr} (h : mkQuant q x d b = .ok e) : e.erase = .quant q x d.erase b.erase := by
  unfold mkQuant at h
  simp only [bind, Except.bind, pure, Except.pure] at h
  split at h
  · cases h
  · rename_i d1 hd
    split at h
    · cases h
    · rename_i b1 hb
      split at h
      · cases h
      · split at h
        · cases h
        · split at h
          · cases h
          · cases h; simp [Expr.erase, castE_erase hd, castE_erase hb]

mutual
/-- **`build` only adds type sets** -/
theorem build_erase : ∀ (r : Raw) (e : Expr), build r = .ok e → e.erase = r
  | .lit tok v, e, h => by simp only [build] at h; cases h; rfl
  | .this, e, h => by simp only [build] at h; cases h; rfl
  | .var x, e, h => by simp only [build] at h; cases h; rfl
  | .set vs, e, h => by
      simp only [build, bind, Except.bind] at h
      split at h
      · cases h
      · rename_i es hes; rw [mkSet_erase h, buildList_erase vs es hes]
  | .range lo hi a b, e, h => by
      simp only [build, bind, Except.bind] at h
      split at h
      · cases h
      · rename_i l hl
        split at h
        · cases h
        · rename_i h' hh; rw [mkRange_erase h, build_erase lo l hl, build_erase hi h' hh]
  | .quant q x d b, e, h => by
      simp only [build, bind, Except.bind] at h
      split at h
      · cases h
      · rename_i d' hd
        split at h
        · cases h
        · rename_i b' hb; rw [mkQuant_erase h, build_erase d d' hd, build_erase b b' hb]
  | .un op a, e, h => by
      simp only [build, bind, Except.bind] at h
      split at h
      · cases h
      · rename_i a' ha; rw [mkUn_erase h, build_erase a a' ha]
  | .bin op a b, e, h => by
      simp only [build, bind, Except.bind] at h
      split at h
      · cases h
      · rename_i a' ha
        split at h
        · cases h
        · rename_i b' hb; rw [mkBin_erase h, build_erase a a' ha, build_erase b b' hb]
  | .call f as, e, h => by
      simp only [build, bind, Except.bind] at h
      split at h
      · cases h
      · rename_i as' has; rw [mkCall_erase h, buildList_erase as as' has]
  | .field m n, e, h => by
      simp only [build, bind, Except.bind] at h
      split at h
      · cases h
      · rename_i m' hm; rw [mkField_erase h, build_erase m m' hm]
  | .index a i, e, h => by
      simp only [build, bind, Except.bind] at h
      split at h
      · cases h
      · rename_i a' ha
        split at h
        · cases h
        · rename_i i' hi; rw [mkIndex_erase h, build_erase a a' ha, build_erase i i' hi]
theorem buildList_erase : ∀ (rs : RawList) (es : ExprList), buildList rs = .ok es → ExprList.eraseL es = rs
  | .nil, es, h => by simp only [buildList] at h; cases h; rfl
  | .cons r rs, es, h => by
      simp only [buildList, bind, Except.bind, pure, Except.pure] at h
      split at h
      · cases h
      · rename_i e he
        split at h
        · cases h
        · rename_i es' hes; cases h; simp only [ExprList.eraseL, build_erase r e he, buildList_erase rs es' hes]
end

end Hpl

namespace Hpl

mutual
/-- the printer does not look at type sets -/
theorem print_erase : ∀ (e : Expr), e.print = e.erase.print
  | .lit .. => by simp [Expr.print, Expr.erase, Raw.print]
  | .this _ => by simp [Expr.print, Expr.erase, Raw.print]
  | .var .. => by simp [Expr.print, Expr.erase, Raw.print]
  | .set _ vs => by simp only [Expr.print, Expr.erase, Raw.print, printSep_erase vs]
  | .range _ lo hi _ _ => by simp only [Expr.print, Expr.erase, Raw.print, print_erase lo, print_erase hi]
  | .quant _ q x d b => by cases q <;> simp only [Expr.print, Expr.erase, Raw.print, print_erase d, print_erase b]
  | .un _ _ a => by simp only [Expr.print, Expr.erase, Raw.print, print_erase a]
  | .bin _ _ a b => by simp only [Expr.print, Expr.erase, Raw.print, print_erase a, print_erase b]
  | .call _ _ as => by simp only [Expr.print, Expr.erase, Raw.print, printSep_erase as]
  | .field _ m _ => by simp only [Expr.print, Expr.erase, Raw.print, print_erase m]
  | .index _ a i => by simp only [Expr.print, Expr.erase, Raw.print, print_erase a, print_erase i]
theorem printSep_erase : ∀ (es : ExprList), ExprList.printSep es = RawList.printSep (ExprList.eraseL es)
  | .nil => by simp [ExprList.printSep, ExprList.eraseL, RawList.printSep]
  | .cons e .nil => by simp only [ExprList.printSep, ExprList.eraseL, RawList.printSep, print_erase e]
  | .cons e (.cons e' es) => by
      have ih := printSep_erase (.cons e' es)
      simp only [ExprList.eraseL] at ih
      simp only [ExprList.printSep, ExprList.eraseL, RawList.printSep, print_erase e, ih]
end

end Hpl

namespace Hpl

theorem chars_ne_nil : ∀ (r : Raw), r.isRef = true → r.printable = true → r.chars ≠ []
  | .var x, _, _ => by simp [Raw.chars]
  | .field m n, _, hp => by
      have hn : isCName n = true := by
        cases m <;> simp_all [Raw.printable, isName]
      obtain ⟨c, w, hnl, _, _⟩ := isCName_cons hn
      simp [Raw.chars, hnl]
  | .index a i, _, _ => by simp [Raw.chars]
  | .lit .., h, _ | .this, h, _ | .set .., h, _ | .range .., h, _ | .quant .., h, _ | .un .., h, _ | .bin .., h, _ | .call .., h, _ => by
      simp [Raw.isRef] at h

theorem lp_toList : ("(" : String).toList = ['('] := by decide
theorem rp_toList : (")" : String).toList = [')'] := by decide
theorem sp_toList : (" " : String).toList = [' '] := by decide

/-- the printed form of a field access on a (non-`this`) reference chain -/
theorem printField_chars (m : Raw) (n : String) (hm : m.isRef = true) (hp : (Raw.field m n).printable = true)
    (ih : m.print.toList = m.chars) : (Raw.field m n).print.toList = (Raw.field m n).chars := by
  have hne := chars_ne_nil m hm (printable_field hm hp).2
  have hs : (m.print == "") = false := by
    cases h : m.print == "" with
    | false => rfl
    | true =>
      have := eq_of_beq h
      rw [this] at ih
      exact absurd ih.symm hne
  rw [chars_field n hm]
  simp only [Raw.print, hs, Bool.false_eq_true, if_false, String.toList_append, ih]
  rw [show ("." : String).toList = ['.'] by decide]

mutual
/-- the printed text of a printable tree is `Raw.chars` -/
theorem print_chars : ∀ (r : Raw), r.printable = true → r.print.toList = r.chars
  | .lit .., _ => by simp [Raw.print, Raw.chars]
  | .this, hp => by simp [Raw.printable] at hp
  | .var x, _ => by
      simp only [Raw.print, Raw.chars, String.toList_append]
      rw [show ("@" : String).toList = ['@'] by decide]
  | .set vs, hp => by
      simp only [Raw.printable, Bool.and_eq_true] at hp
      simp only [Raw.print, Raw.chars, String.toList_append, printSep_chars vs hp.2]
      rw [show ("{" : String).toList = ['{'] by decide, show ("}" : String).toList = ['}'] by decide]
      simp
  | .range lo hi exLo exHi, hp => by
      simp only [Raw.printable, Bool.and_eq_true] at hp
      simp only [Raw.print, Raw.chars, String.toList_append, print_chars lo hp.1, print_chars hi hp.2]
      rw [show (" to " : String).toList = [' '] ++ ("to".toList ++ [' ']) by decide]
      cases exLo <;> cases exHi <;> simp <;> decide
  | .quant q x d b, hp => by
      simp only [Raw.printable, Bool.and_eq_true] at hp
      simp only [Raw.print, Raw.chars, String.toList_append, print_chars d hp.1.1.2, print_chars b hp.2]
      rw [show (" in " : String).toList = [' '] ++ ("in".toList ++ [' ']) by decide, show (": " : String).toList = [':', ' '] by decide,
        lp_toList, rp_toList, sp_toList]
      cases q <;> simp [Gen.ALL_OPERATOR, Gen.SOME_OPERATOR]
  | .un op a, hp => by
      simp only [Raw.printable, Bool.and_eq_true, Bool.or_eq_true, beq_iff_eq] at hp
      simp only [Raw.print, Raw.chars, String.toList_append, print_chars a hp.2, lp_toList, rp_toList]
      rcases hp.1 with rfl | rfl
      · rw [show lastIsAlpha "not" = true by decide]; simp
      · rw [show lastIsAlpha "-" = false by decide, show (("-" : String) == "not") = false by decide]; simp
  | .bin op a b, hp => by
      simp only [Raw.printable, Bool.and_eq_true] at hp
      simp only [Raw.print, Raw.chars, String.toList_append, print_chars a hp.1.2, print_chars b hp.2, lp_toList, rp_toList, sp_toList]
      simp
  | .call f (.cons a .nil), hp => by
      simp only [Raw.printable, Bool.and_eq_true] at hp
      simp only [Raw.print, Raw.chars, RawList.printSep, RawList.charsSep, String.toList_append, print_chars a hp.2, lp_toList, rp_toList]
      simp
  | .call f .nil, hp => by simp [Raw.printable] at hp
  | .call f (.cons _ (.cons _ _)), hp => by simp [Raw.printable] at hp
  | .field .this n, _ => by simp [Raw.print, Raw.chars]
  | .field (.var y) n, hp => printField_chars _ n rfl hp (print_chars _ (printable_field rfl hp).2)
  | .field (.field m' n') n, hp =>
      have hm : (Raw.field m' n').isRef = true := by simp only [Raw.printable, Bool.and_eq_true] at hp; exact hp.1.2
      printField_chars _ n hm hp (print_chars _ (printable_field hm hp).2)
  | .field (.index a' i') n, hp =>
      have hm : (Raw.index a' i').isRef = true := by simp only [Raw.printable, Bool.and_eq_true] at hp; exact hp.1.2
      printField_chars _ n hm hp (print_chars _ (printable_field hm hp).2)
  | .field (.lit ..) n, hp | .field (.set ..) n, hp | .field (.range ..) n, hp | .field (.quant ..) n, hp | .field (.un ..) n, hp
  | .field (.bin ..) n, hp | .field (.call ..) n, hp => by simp [Raw.printable, Raw.isRef] at hp
  | .index a i, hp => by
      obtain ⟨_, hpa, hpi⟩ := printable_index hp
      simp only [Raw.print, Raw.chars, String.toList_append, print_chars a hpa, print_chars i hpi]
      rw [show ("[" : String).toList = ['['] by decide, show ("]" : String).toList = [']'] by decide]
      simp
theorem printSep_chars : ∀ (rs : RawList), RawList.printable rs = true → (RawList.printSep rs).toList = RawList.charsSep rs
  | .nil, _ => by simp [RawList.printSep, RawList.charsSep]
  | .cons e .nil, hp => by
      simp only [RawList.printable, Bool.and_eq_true] at hp
      simp only [RawList.printSep, RawList.charsSep, print_chars e hp.1]
  | .cons e (.cons e' es), hp => by
      simp only [RawList.printable, Bool.and_eq_true] at hp
      have ih := printSep_chars (.cons e' es) (by simp only [RawList.printable, Bool.and_eq_true]; exact hp.2)
      simp only [RawList.printSep, RawList.charsSep, String.toList_append, print_chars e hp.1] at ih ⊢
      rw [ih, show (", " : String).toList = [',', ' '] by decide]
      simp
end

end Hpl

namespace Hpl

/-- **C06 on strings, expressions**: if the constructors build `e` from a printable syntax tree whose literal tokens and variable
    names are scanned as single tokens, then parsing the text `e` prints gives `e` again. -/
theorem print_parse_roundtrip (r : Raw) (e : Expr) (hp : r.printable = true) (hl : r.lexOk) (hb : build r = .ok e) :
    parseExpression e.print = .ok e := by
  have h1 : e.print = String.ofList r.chars := by
    rw [print_erase e, build_erase r e hb, ← print_chars r hp, String.ofList_toList]
  rw [h1, parse_printed r hp hl, hb]

/-- ... and printing the result yields the same text again (immediate: it is the same tree) -/
theorem print_parse_print (r : Raw) (e e' : Expr) (hp : r.printable = true) (hl : r.lexOk) (hb : build r = .ok e)
    (h : parseExpression e.print = .ok e') : e'.print = e.print := by
  rw [print_parse_roundtrip r e hp hl hb] at h; cases h; rfl

end Hpl
