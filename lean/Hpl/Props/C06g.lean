import Hpl.Props.C06f
/-!
# C06 — literal tokens are scanned as themselves (decidable side conditions of `print_parse_roundtrip`)

The number and string scanners are *local*: what they do on `w ++ rest` is what they do on `w`, when `rest` starts with a character
that cannot continue the token (`scanNumber_local`, `scanString_local`). Hence a literal whose token text is scanned completely on
its own (`numTokOk`, `strTokOk`: decidable, evaluated by the driver on every printed tree) is scanned as that one token in every
printed context.
-/
namespace Hpl

theorem takeWhileC_local (p : Char → Bool) : ∀ (w rest : List Char), (∀ x, rest.head? = some x → p x = false) →
    takeWhileC p (w ++ rest) = ((takeWhileC p w).1, (takeWhileC p w).2 ++ rest)
  | [], rest, h => by
      cases rest with
      | nil => rfl
      | cons x xs => simp [takeWhileC, h x rfl]
  | c :: w, rest, h => by
      by_cases hc : p c = true
      · simp [takeWhileC, hc, takeWhileC_local p w rest h]
      · simp [takeWhileC, hc]

/-- a character that cannot continue a number -/
def NumStop (rest : List Char) : Prop :=
  ∀ x, rest.head? = some x → isDigitA x = false ∧ x ≠ '.' ∧ x ≠ 'e' ∧ x ≠ 'E' ∧ x ≠ '+' ∧ x ≠ '-'

theorem NumStop.digit {rest : List Char} (h : NumStop rest) : ∀ x, rest.head? = some x → isDigitA x = false := fun x hx => (h x hx).1

theorem scanExp_stop {rest : List Char} (h : NumStop rest) : scanExp rest = ([], rest) := by
  cases rest with
  | nil => rfl
  | cons x xs =>
    obtain ⟨_, _, h1, h2, _, _⟩ := h x rfl
    simp [scanExp, h1, h2]

theorem scanExp_local (u rest : List Char) (h : NumStop rest) : scanExp (u ++ rest) = ((scanExp u).1, (scanExp u).2 ++ rest) := by
  match u with
  | [] => rw [List.nil_append, scanExp_stop h]; simp [scanExp]
  | [e] =>
    by_cases he : (e == 'e' || e == 'E') = true
    · cases rest with
      | nil => simp [scanExp]
      | cons x xs =>
        obtain ⟨hd, _, _, _, hp, hm⟩ := h x rfl
        cases xs with
        | nil => simp [scanExp, he, hd]
        | cons y ys => simp [scanExp, he, hd, hp, hm]
    · simp [scanExp, he]
  | [e, s] =>
    by_cases he : (e == 'e' || e == 'E') = true
    · cases rest with
      | nil => simp [scanExp]
      | cons x xs =>
        obtain ⟨hd, _, _, _, _, _⟩ := h x rfl
        by_cases hs : isDigitA s = true
        · simp [scanExp, he, hd, hs, takeWhileC]
        · simp [scanExp, he, hd, hs]
    · simp [scanExp, he]
  | e :: s :: d :: u' =>
    by_cases he : (e == 'e' || e == 'E') = true
    · by_cases h1 : ((s == '+' || s == '-') && isDigitA d) = true
      · simp [scanExp, he, h1, takeWhileC_local isDigitA u' rest h.digit]
      · by_cases hs : isDigitA s = true
        · have := takeWhileC_local isDigitA (d :: u') rest h.digit
          simp only [List.cons_append] at this
          simp [scanExp, he, h1, hs, this]
        · simp [scanExp, he, h1, hs]
    · simp [scanExp, he]

end Hpl

namespace Hpl

/-- `scanNumber` after its integer part -/
def numTail (ip r1 : List Char) : Option (List Char × List Char) :=
  match r1 with
  | '.' :: r2 =>
    let (fp, r3) := takeWhileC isDigitA r2
    if ip.isEmpty && fp.isEmpty then none
    else
      let (ex, r4) := scanExp r3
      some (ip ++ '.' :: fp ++ ex, r4)
  | _ =>
    if ip.isEmpty then none
    else
      let (ex, r4) := scanExp r1
      some (ip ++ ex, r4)

theorem scanNumber_eq (cs : List Char) : scanNumber cs = numTail (takeWhileC isDigitA cs).1 (takeWhileC isDigitA cs).2 := rfl

theorem numTail_dot (ip r2 : List Char) : numTail ip ('.' :: r2) =
    (if ip.isEmpty && (takeWhileC isDigitA r2).1.isEmpty then none
     else some (ip ++ '.' :: (takeWhileC isDigitA r2).1 ++ (scanExp (takeWhileC isDigitA r2).2).1, (scanExp (takeWhileC isDigitA r2).2).2)) := rfl

theorem numTail_other (ip r1 : List Char) (h : ∀ r2, r1 ≠ '.' :: r2) : numTail ip r1 =
    (if ip.isEmpty then none else some (ip ++ (scanExp r1).1, (scanExp r1).2)) := by
  unfold numTail
  split
  · rename_i r2; exact absurd rfl (h r2)
  · rfl

theorem scanNumber_local (w rest : List Char) (h : NumStop rest) :
    scanNumber (w ++ rest) = (scanNumber w).map (fun p => (p.1, p.2 ++ rest)) := by
  rw [scanNumber_eq, scanNumber_eq, takeWhileC_local isDigitA w rest h.digit]
  generalize (takeWhileC isDigitA w).1 = ip
  generalize (takeWhileC isDigitA w).2 = r1
  show numTail ip (r1 ++ rest) = _
  match r1 with
  | [] =>
    have hx : ∀ r2, ([] : List Char) ++ rest ≠ '.' :: r2 := by
      intro r2 hh
      cases rest with
      | nil => cases hh
      | cons x xs => simp at hh; exact (h x rfl).2.1 hh.1
    rw [numTail_other _ _ hx, numTail_other _ _ (by intro r2 hh; cases hh), List.nil_append, scanExp_stop h]
    split <;> simp [scanExp]
  | c :: t =>
    by_cases hc : c = '.'
    · subst hc
      rw [List.cons_append, numTail_dot, numTail_dot, takeWhileC_local isDigitA t rest h.digit]
      simp only [scanExp_local _ rest h]
      split <;> simp
    · have hx : ∀ r2, c :: t ++ rest ≠ '.' :: r2 := by intro r2 hh; simp at hh; exact hc hh.1
      have hx' : ∀ r2, c :: t ≠ '.' :: r2 := by intro r2 hh; simp at hh; exact hc hh.1
      rw [numTail_other _ _ hx, numTail_other _ _ hx', scanExp_local (c :: t) rest h]
      split <;> simp

theorem Delim.numStop {rest : List Char} (h : Delim rest) : NumStop rest := by
  intro x hx
  have := h x hx
  simp only [List.mem_cons, List.not_mem_nil, or_false] at this
  rcases this with rfl | rfl | rfl | rfl | rfl | rfl <;> decide

/-- a complete number token is scanned as one token before a delimiter -/
theorem lx_num (w : List Char) (d : Nat) (hw : numTokOk w = true) :
    Lx w d false [(.num, String.ofList w, false)] d false Delim := by
  intro rest hP g aw acc _
  simp only [numTokOk, Bool.and_eq_true, beq_iff_eq] at hw
  obtain ⟨hs, hh⟩ := hw
  have hloc := scanNumber_local w rest hP.numStop
  rw [hs] at hloc
  simp only [Option.map_some, List.nil_append] at hloc
  match w, hh with
  | c :: w', hh =>
    refine ⟨1, [⟨.num, String.ofList (c :: w'), g, aw⟩], true, (c :: w').getLast? != some '.', by simp, (fun h => by cases h), by simp [tokKey], fun f => ?_⟩
    rw [scan_succ]
    have hws : isWs c = false := by
      simp only [Bool.or_eq_true, Bool.and_eq_true, beq_iff_eq] at hh
      rcases hh with h1 | ⟨rfl, _⟩
      · cases hw : isWs c with
        | false => rfl
        | true =>
          simp only [isWs, Bool.or_eq_true, beq_iff_eq] at hw
          rcases hw with (((rfl | rfl) | rfl) | rfl) | rfl <;> revert h1 <;> decide
      · decide
    have hat : (c == '@') = false := by
      simp only [Bool.or_eq_true, Bool.and_eq_true, beq_iff_eq] at hh
      rcases hh with h1 | ⟨rfl, _⟩
      · cases hw : c == '@' with
        | false => rfl
        | true => have := eq_of_beq hw; subst this; revert h1; decide
      · decide
    have hq : (c == '"') = false := by
      simp only [Bool.or_eq_true, Bool.and_eq_true, beq_iff_eq] at hh
      rcases hh with h1 | ⟨rfl, _⟩
      · cases hw : c == '"' with
        | false => rfl
        | true => have := eq_of_beq hw; subst this; revert h1; decide
      · decide
    simp only [List.cons_append] at hloc ⊢
    simp only [hws, hat, hq, Bool.false_eq_true, if_false]
    simp only [Bool.or_eq_true, Bool.and_eq_true, beq_iff_eq] at hh
    rcases hh with h1 | ⟨rfl, h2⟩
    · simp [h1, hloc]
    · cases w' with
      | nil => cases h2
      | cons d' t =>
        simp only [List.cons_append] at hloc ⊢
        simp [h2, hloc]

end Hpl

namespace Hpl

/-- the string scanner never looks beyond the closing quote -/
theorem scanString_local (body acc : List Char) (s r rest : List Char) (h : scanString body acc = some (s, r)) :
    scanString (body ++ rest) acc = some (s, r ++ rest) := by
  fun_induction scanString body acc with
  | case1 acc => simp at h
  | case2 acc t => simp only [Option.some.injEq, Prod.mk.injEq] at h; obtain ⟨rfl, rfl⟩ := h; simp [scanString]
  | case3 acc c t hc => simp at h
  | case4 x body acc hc ih =>
    simp only [List.cons_append]
    rw [scanString]
    simp only [hc]
    exact ih h
  | case5 acc t => simp at h
  | case6 x body acc h1 h2 h3 ih =>
    by_cases hb : x = '\\'
    · subst hb
      cases body with
      | nil => simp [scanString] at h
      | cons y ys => exact absurd rfl (h2 y ys rfl)
    · simp only [List.cons_append]
      rw [scanString]
      · exact ih h
      all_goals first | exact h1 | exact h3 | (intro c' r' hc'; exact absurd hc' hb) | skip

end Hpl

namespace Hpl

theorem lx_str (w : List Char) (d : Nat) (hw : strTokOk w = true) :
    Lx w d false [(.str, String.ofList w, false)] d true (fun _ => True) := by
  intro rest _ g aw acc _
  unfold strTokOk at hw
  split at hw
  · rename_i body
    have hs := scanString_local body ['"'] _ _ rest (eq_of_beq hw)
    refine ⟨1, [⟨.str, String.ofList ('"' :: body), g, aw⟩], true, false, by simp, fun _ => rfl, by simp [tokKey], fun f => ?_⟩
    rw [List.cons_append, scan_succ]
    simp [isWs, hs]
  · cases hw

theorem litLex_of {tok : String} {v : LitVal} (hok : litOk tok v = true) (hb : litLexB tok v = true) : LitLex tok v := by
  intro d hd
  have word : isCName tok = true → litTok tok v = wordT tok → Lx tok.toList d true [tokKey (litTok tok v)] d false Delim := by
    intro hc ht
    rw [ht, tokKey_wordT]
    exact (lx_wordS tok d hd hc).weakenP (fun rest hr => hr.notId)
  have num : (numberConstant tok).isSome = false → numTokOk tok.toList = true → litTok tok v = mkTok .num tok →
      Lx tok.toList d true [tokKey (litTok tok v)] d false Delim := by
    intro _ hn ht
    rw [ht]
    have := (lx_num tok.toList d hn).weaken (P' := Delim) (fun _ h => h)
    simpa [tokKey, mkTok, String.ofList_toList] using this
  cases v with
  | str s =>
    simp only [litLexB] at hb
    have := (lx_str tok.toList d hb).weaken (P' := Delim) (fun _ _ => trivial)
    simpa [litTok, tokKey, mkTok, String.ofList_toList] using this
  | bool b =>
    simp only [litOk, beq_iff_eq] at hok
    refine word ?_ (by simp [litTok])
    subst hok; cases b <;> decide
  | int n =>
    simp only [litOk, litLexB] at hok hb
    by_cases hc : (numberConstant tok).isSome = true
    · simp only [hc, if_true, Bool.and_eq_true] at hok
      exact word hok.2 (by simp [litTok, hc])
    · simp only [hc, Bool.false_or] at hb
      exact num (by simpa using hc) hb (by simp [litTok, hc])
  | flt q =>
    simp only [litOk, litLexB] at hok hb
    by_cases hc : (numberConstant tok).isSome = true
    · simp only [hc, if_true, Bool.and_eq_true] at hok
      exact word hok.2 (by simp [litTok, hc])
    · simp only [hc, Bool.false_or] at hb
      exact num (by simpa using hc) hb (by simp [litTok, hc])
  | inf =>
    simp only [litOk, litLexB] at hok hb
    by_cases hc : (numberConstant tok).isSome = true
    · simp only [hc, if_true, Bool.and_eq_true] at hok
      exact word hok.2 (by simp [litTok, hc])
    · simp only [hc, Bool.false_or] at hb
      exact num (by simpa using hc) hb (by simp [litTok, hc])
  | ninf =>
    simp only [litOk, litLexB] at hok hb
    by_cases hc : (numberConstant tok).isSome = true
    · simp only [hc, if_true, Bool.and_eq_true] at hok
      exact word hok.2 (by simp [litTok, hc])
    · simp only [hc, Bool.false_or] at hb
      exact num (by simpa using hc) hb (by simp [litTok, hc])
  | nan =>
    simp only [litOk, litLexB] at hok hb
    by_cases hc : (numberConstant tok).isSome = true
    · simp only [hc, if_true, Bool.and_eq_true] at hok
      exact word hok.2 (by simp [litTok, hc])
    · simp only [hc, Bool.false_or] at hb
      exact num (by simpa using hc) hb (by simp [litTok, hc])

end Hpl

namespace Hpl

mutual
theorem lexOk_of_B : ∀ (r : Raw), r.lexOkB = true → r.lexOk
  | .lit tok v, h => by simp only [Raw.lexOkB, Bool.and_eq_true] at h; exact litLex_of h.1 h.2
  | .this, _ => trivial
  | .var x, h => by simpa [Raw.lexOkB, Raw.lexOk] using h
  | .set vs, h => by simp only [Raw.lexOkB] at h; exact lexOkL_of_B vs h
  | .range lo hi _ _, h => by simp only [Raw.lexOkB, Bool.and_eq_true] at h; exact ⟨lexOk_of_B lo h.1, lexOk_of_B hi h.2⟩
  | .quant _ _ d b, h => by simp only [Raw.lexOkB, Bool.and_eq_true] at h; exact ⟨lexOk_of_B d h.1, lexOk_of_B b h.2⟩
  | .un _ a, h => by simp only [Raw.lexOkB] at h; exact lexOk_of_B a h
  | .bin _ a b, h => by simp only [Raw.lexOkB, Bool.and_eq_true] at h; exact ⟨lexOk_of_B a h.1, lexOk_of_B b h.2⟩
  | .call _ as, h => by simp only [Raw.lexOkB] at h; exact lexOkL_of_B as h
  | .field m _, h => by simp only [Raw.lexOkB] at h; exact lexOk_of_B m h
  | .index a i, h => by simp only [Raw.lexOkB, Bool.and_eq_true] at h; exact ⟨lexOk_of_B a h.1, lexOk_of_B i h.2⟩
theorem lexOkL_of_B : ∀ (rs : RawList), RawList.lexOkLB rs = true → RawList.lexOkL rs
  | .nil, _ => trivial
  | .cons e es, h => by simp only [RawList.lexOkLB, Bool.and_eq_true] at h; exact ⟨lexOk_of_B e h.1, lexOkL_of_B es h.2⟩
end

/-- **C06 on strings, expressions, decidable hypotheses**: for a syntax tree that is printable and whose literal tokens and variable
    names are complete tokens (`printable`, `lexOkB`: both computed by the driver for every tree the correspondence stream prints),
    every typed tree `e` the constructors build from it satisfies `parse (str e) = e`. -/
theorem print_parse_roundtrip_dec (r : Raw) (e : Expr) (hp : r.printable = true) (hl : r.lexOkB = true) (hb : build r = .ok e) :
    parseExpression e.print = .ok e :=
  print_parse_roundtrip r e hp (lexOk_of_B r hl) hb

/-- the scanner on the printed text, decidable hypotheses -/
theorem lex_printed_dec (r : Raw) (hp : r.printable = true) (hl : r.lexOkB = true) :
    ∃ ts, lexExpr (String.ofList r.chars) = .ok ts ∧ ts.map tokKey = r.toks.map tokKey :=
  lex_printed r hp (lexOk_of_B r hl)

end Hpl
