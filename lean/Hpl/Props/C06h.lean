import Hpl.Props.C06g
/-!
# C06 — text-level round trip for predicates; non-vacuity of the expression and predicate theorems
-/
namespace Hpl

/-- from a scan of a whole text to the scanner's result -/
theorem scan_of_Lx {cs : List Char} {d d' : Nat} {keys : List Key} {ex : Bool} {P : List Char → Prop}
    (h : Lx cs d true keys d' ex P) (hP : P []) :
    ∃ ts, scan (cs.length + 1) cs d false false [] = .ok ts ∧ ts.map tokKey = keys := by
  obtain ⟨n, ts, g', aw', hn, _, hk, hs⟩ := h [] hP false false [] (fun _ => rfl)
  refine ⟨ts, ?_, hk⟩
  simp only [List.append_nil] at hs
  have := hs (cs.length + 1 - n)
  rw [show cs.length + 1 - n + n = cs.length + 1 by omega] at this
  rw [this]
  obtain ⟨f, hf⟩ : ∃ f, cs.length + 1 - n = f + 1 := ⟨cs.length - n, by omega⟩
  rw [hf, scan_succ]
  simp

/-- the text of a predicate: `{ ` expression ` }` -/
def predChars (r : Raw) : List Char := ['{'] ++ ([' '] ++ (r.chars ++ ([' '] ++ ['}'])))

theorem lex_printed_pred (r : Raw) (hp : r.printable = true) (hl : r.lexOk) :
    ∃ o ts c, lex (String.ofList (predChars r)) = .ok (o :: (ts ++ [c])) ∧ isSym o "{" = true ∧ isSym c "}" = true ∧
      ts.map tokKey = r.toks.map tokKey := by
  have ih := (lexR r hp hl 1 (by decide)).weakenP (fun rest hr => next_of_delim r hr)
  have h := Lx.comp (lx_open' 0) (Lx.comp (lx_space 1) (Lx.comp ih (Lx.comp (lx_space 1) (lx_close' 0) lx_re (fun _ _ => trivial))
    lx_re (fun rest _ => delim_cons (by decide))) lx_re (fun _ _ => trivial)) lx_re (fun _ _ => trivial)
  obtain ⟨ts, hs, hk⟩ := scan_of_Lx (h.weaken (P' := fun _ => True) (fun _ _ => trivial)) trivial
  simp only [List.nil_append] at hk
  have hk' : ts.map tokKey = (symT "{" :: (r.toks ++ [symT "}"])).map tokKey := by simpa using hk
  obtain ⟨o, r1, rfl, hko, h1⟩ := map_cons_inv hk'
  obtain ⟨ts', c', rfl, hts, h2⟩ := map_append_inv h1
  obtain ⟨c, rfl, hkc⟩ := map_single_inv h2
  refine ⟨o, ts', c, ?_, by rw [key_isSym hko]; decide, by rw [key_isSym hkc]; decide, hts⟩
  unfold lex
  simp only [String.toList_ofList]
  exact hs

theorem parse_printed_pred (r : Raw) (hp : r.printable = true) (hl : r.lexOk) :
    parsePredicate (String.ofList (predChars r)) = (do let e ← build r; predFromExpr e) := by
  obtain ⟨o, ts, c, hlex, ho, hc, hk⟩ := lex_printed_pred r hp hl
  unfold parsePredicate
  rw [hlex]
  simp only [parse_predicate_complete (renders_sim (printed_is_rendering r hp) ts hk) o c ho hc]

theorem pred_print_chars {r : Raw} {e : Expr} {p : Pred} (hp : r.printable = true) (hb : build r = .ok e) (hpr : predFromExpr e = .ok p) :
    p.print = String.ofList (predChars r) := by
  have he : e.print.toList = r.chars := by rw [print_erase e, build_erase r e hb, print_chars r hp]
  have wrap : ∀ s : String, s.toList = r.chars → ("{ " ++ s ++ " }") = String.ofList (predChars r) := by
    intro s hs
    apply String.toList_injective
    simp only [String.toList_append, String.toList_ofList, predChars, hs]
    rw [show ("{ " : String).toList = ['{', ' '] by decide, show (" }" : String).toList = [' ', '}'] by decide]
    simp
  unfold predFromExpr at hpr
  split at hpr
  · cases hpr
  · split at hpr
    · rename_i t tok b _
      have hr : r = .lit tok (.bool b) := by rw [← build_erase r _ hb]; rfl
      subst hr
      simp only [Raw.printable, litOk, beq_iff_eq] at hp
      cases hpr
      have := wrap tok (by simpa [Expr.print] using he)
      subst hp
      cases b <;> simpa [Pred.print] using this
    · cases hpr
    · unfold mkPred at hpr
      simp only [bind, Except.bind, pure, Except.pure] at hpr
      split at hpr
      · cases hpr
      · rename_i e' he'
        split at hpr
        · cases hpr
          simp only [Pred.print]
          exact wrap _ (by rw [print_erase, castE_erase he', ← print_erase]; exact he)
        · cases hpr

/-- **C06 on strings, predicates**: `parse_predicate (str p) = p` for every predicate the parser's constructors build from a printable
    syntax tree whose literal tokens and variable names are complete tokens. -/
theorem pred_print_parse_roundtrip (r : Raw) (e : Expr) (p : Pred) (hp : r.printable = true) (hl : r.lexOkB = true)
    (hb : build r = .ok e) (hpr : predFromExpr e = .ok p) : parsePredicate p.print = .ok p := by
  rw [pred_print_chars hp hb hpr, parse_printed_pred r hp (lexOk_of_B r hl), hb]
  exact hpr

end Hpl

namespace Hpl

/-! ## non-vacuity: the hypotheses hold of a tree with a reference chain, a set, a string and a boolean literal, a number -/

def textExample : Raw :=
  .un "not" (.bin "in" (.field (.var "A") "y") (.set (.cons (.lit "True" (.bool true)) (.cons (.lit "\"a\"" (.str "\"a\"")) .nil))))

theorem textExample_printable : textExample.printable = true := by
  simp only [textExample, Raw.printable, RawList.printable, Raw.isRef, Bool.and_eq_true, Bool.and_true, Bool.true_and]
  decide

theorem textExample_lexOkB : textExample.lexOkB = true := by
  simp only [textExample, Raw.lexOkB, RawList.lexOkLB, Bool.and_eq_true, Bool.and_true]
  decide

theorem textExample_chars : String.ofList textExample.chars = "(not (@A.y in {True, \"a\"}))" := by
  simp only [textExample, Raw.chars, RawList.charsSep]
  decide

theorem textExample_builds : ∃ e, build textExample = .ok e := by
  have h : (match build textExample with | .ok _ => true | .error _ => false) = true := by decide
  cases hb : build textExample with
  | ok e => exact ⟨e, rfl⟩
  | error _ => rw [hb] at h; cases h

example : ∃ e, build textExample = .ok e ∧ e.print = "(not (@A.y in {True, \"a\"}))" ∧ parseExpression e.print = .ok e := by
  obtain ⟨e, he⟩ := textExample_builds
  refine ⟨e, he, ?_, print_parse_roundtrip_dec _ e textExample_printable textExample_lexOkB he⟩
  rw [print_erase e, build_erase _ e he, ← textExample_chars, ← print_chars _ textExample_printable, String.ofList_toList]

/-- a number literal with fraction and exponent is a complete token; `1.`, `.`, `1e` followed by nothing are not numbers of that text -/
example : numTokOk "12.5e-3".toList = true ∧ numTokOk ".5".toList = true ∧ numTokOk "10.".toList = true ∧
    numTokOk "1e".toList = false ∧ numTokOk ".".toList = false ∧ numTokOk "1.2.3".toList = false := by decide

example : strTokOk "\"a\\\"b\"".toList = true ∧ strTokOk "\"a\"b\"".toList = false ∧ strTokOk "\"a".toList = false := by decide

end Hpl
