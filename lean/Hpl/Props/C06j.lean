import Hpl.Props.C06h
import Hpl.Props.C18b
import Hpl.Props.C06c
import Hpl.Spec.PrintCharsProp
/-!
# C06 / C18 — the scanner at property level (brace depth 0): keywords, channel names, punctuation, time bounds
-/
namespace Hpl

theorem chanSegments_stop (f : Nat) (rest : List Char) (h : rest.head? ≠ some '/') : chanSegments f rest = ([], rest) := by
  cases f with
  | zero => rfl
  | succ f =>
    cases rest with
    | nil => rfl
    | cons x xs =>
      have hx : x ≠ '/' := by intro hh; subst hh; exact h rfl
      cases xs with
      | nil => unfold chanSegments; split <;> simp_all
      | cons y ys => unfold chanSegments; split <;> simp_all

theorem takeWhileC_split (p : Char → Bool) : ∀ (cs a b : List Char), takeWhileC p cs = (a, b) → cs = a ++ b
  | [], a, b, h => by simp [takeWhileC] at h; obtain ⟨rfl, rfl⟩ := h; rfl
  | c :: cs, a, b, h => by
      simp only [takeWhileC] at h
      split at h
      · have ih := takeWhileC_split p cs (takeWhileC p cs).1 (takeWhileC p cs).2 rfl
        simp only [Prod.mk.injEq] at h
        obtain ⟨rfl, rfl⟩ := h
        simp [← ih]
      · simp only [Prod.mk.injEq] at h
        obtain ⟨rfl, rfl⟩ := h; rfl

/-- what may follow a name at property level: not a name character and not `/` -/
def NameEnd (rest : List Char) : Prop := ∀ x, rest.head? = some x → isIdChar x = false ∧ x ≠ '/'

theorem NameEnd.notId {rest : List Char} (h : NameEnd rest) : ∀ x, rest.head? = some x → isIdChar x = false := fun x hx => (h x hx).1
theorem NameEnd.notSlash {rest : List Char} (h : NameEnd rest) : rest.head? ≠ some '/' := fun hh => (h '/' hh).2 rfl

theorem chanSegments_succ_slash (f : Nat) (c : Char) (cs : List Char) (hc : isAlphaA c = true) :
    chanSegments (f + 1) ('/' :: c :: cs) =
      ('/' :: c :: (takeWhileC isIdChar cs).1 ++ (chanSegments f (takeWhileC isIdChar cs).2).1, (chanSegments f (takeWhileC isIdChar cs).2).2) := by
  simp [chanSegments, hc]

theorem chanSegments_noseg (f : Nat) (w : List Char) (h : ∀ c cs, w = '/' :: c :: cs → isAlphaA c = false) : chanSegments f w = ([], w) := by
  cases f with
  | zero => rfl
  | succ f =>
    unfold chanSegments
    split
    · rfl
    · rename_i c cs _
      have := h c cs rfl
      simp [this]
    · rfl

theorem chanSegments_local : ∀ (f : Nat) (w : List Char), chanSegments f w = (w, []) → ∀ (f' : Nat) (rest : List Char), f ≤ f' → NameEnd rest →
    chanSegments f' (w ++ rest) = (w, rest)
  | 0, w, h, f', rest, _, hr => by
      simp only [chanSegments, Prod.mk.injEq] at h
      have : w = [] := h.1.symm
      subst this
      exact chanSegments_stop f' rest hr.notSlash
  | f + 1, w, h, f', rest, hf, hr => by
      obtain ⟨f'', rfl⟩ : ∃ k, f' = k + 1 := ⟨f' - 1, by omega⟩
      by_cases hw : ∃ c cs, w = '/' :: c :: cs ∧ isAlphaA c = true
      · obtain ⟨c, cs, rfl, hc⟩ := hw
        rw [chanSegments_succ_slash f c cs hc] at h
        have hsplit := takeWhileC_split isIdChar cs _ _ rfl
        simp only [Prod.mk.injEq] at h
        obtain ⟨h1, h2⟩ := h
        have h1' : (takeWhileC isIdChar cs).1 ++ (chanSegments f (takeWhileC isIdChar cs).2).1 = cs := by
          have := h1; simp only [List.cons_append, List.cons.injEq, true_and] at this; exact this
        have hmore : (chanSegments f (takeWhileC isIdChar cs).2).1 = (takeWhileC isIdChar cs).2 := by
          have : (takeWhileC isIdChar cs).1 ++ (chanSegments f (takeWhileC isIdChar cs).2).1 = (takeWhileC isIdChar cs).1 ++ (takeWhileC isIdChar cs).2 := by
            rw [h1']; exact hsplit
          exact List.append_cancel_left this
        have hcs : chanSegments f (takeWhileC isIdChar cs).2 = ((takeWhileC isIdChar cs).2, []) := by
          rw [Prod.ext_iff]; exact ⟨hmore, h2⟩
        rw [List.cons_append, List.cons_append, chanSegments_succ_slash f'' c _ hc, takeWhileC_local isIdChar cs rest hr.notId]
        simp only
        rw [chanSegments_local f _ hcs f'' rest (by omega) hr]
        simp only [Prod.mk.injEq, and_true, List.cons_append, List.cons.injEq, true_and]
        exact hsplit.symm
      · have hno : ∀ c cs, w = '/' :: c :: cs → isAlphaA c = false := by
          intro c cs hh
          cases hcc : isAlphaA c with
          | false => rfl
          | true => exact absurd ⟨c, cs, hh, hcc⟩ hw
        rw [chanSegments_noseg _ w hno] at h
        simp only [Prod.mk.injEq] at h
        have : w = [] := h.1.symm
        subst this
        exact chanSegments_stop _ rest hr.notSlash

end Hpl

namespace Hpl

/-- an identifier at property level (keyword, alias), followed by something that continues neither a name nor a channel -/
theorem lx_word0 (c : Char) (w : List Char) (hc : isIdStart c = true) (hw : w.all isIdChar = true) :
    Lx (c :: w) 0 true [wordKey (c :: w)] 0 false NameEnd := by
  intro rest hP g aw acc haw
  have haw' := haw rfl
  subst haw'
  refine ⟨1, [⟨.word, String.ofList (c :: w), g, false⟩], true, true, by simp, (fun h => by cases h), by simp [tokKey, wordKey], fun f => ?_⟩
  have htw : takeWhileC isIdChar (c :: (w ++ rest)) = (c :: w, rest) := by
    have := takeWhileC_append isIdChar (c :: w) rest (by simp [idStart_idChar c hc, hw]) hP.notId
    simpa using this
  have hcs : ∀ n, chanSegments n rest = ([], rest) := fun n => chanSegments_stop n rest hP.notSlash
  rw [List.cons_append, scan_succ]
  simp only [idStart_not_ws c hc, idStart_ne c '@' hc (by decide), idStart_ne c '"' hc (by decide), idStart_not_digit c hc,
    idStart_ne c '.' hc (by decide), Bool.false_eq_true, ↓reduceIte, Bool.false_and, Bool.or_self, hc, htw, hcs, List.reverse_cons,
    List.reverse_nil, List.nil_append, List.cons_append, List.append_nil, beq_self_eq_true, Bool.true_and]
  split <;> rfl

/-- a word given as a string, at property level -/
theorem lx_word0S (s : String) (hs : isCName s = true) : Lx s.toList 0 true [(.word, s, false)] 0 false NameEnd := by
  obtain ⟨c, w, hl, hc, hw⟩ := isCName_cons hs
  have := lx_word0 c w hc hw
  rw [hl]
  have hk : wordKey (c :: w) = (.word, s, false) := by simp only [wordKey, ← hl]; simp
  rw [hk] at this
  exact this

theorem nameEnd_cons {x : Char} {xs : List Char} (h1 : isIdChar x = false) (h2 : x ≠ '/') : NameEnd (x :: xs) := by
  intro y hy; simp only [List.head?_cons, Option.some.injEq] at hy; subst hy; exact ⟨h1, h2⟩
theorem nameEnd_nil : NameEnd [] := by intro y hy; cases hy

/-- `(`, `)`, `:` at property level -/
theorem lx_c0 (c : Char) (hc : c ∈ ['(', ')', ':']) : Lx [c] 0 false [(.sym, String.ofList [c], false)] 0 true (fun _ => True) := by
  intro rest _ g aw acc _
  refine ⟨1, [⟨.sym, String.ofList [c], g, aw⟩], true, false, by simp, fun _ => rfl, by simp [tokKey], fun f => ?_⟩
  simp only [List.mem_cons, List.not_mem_nil, or_false] at hc
  rw [List.singleton_append, scan_succ]
  rcases hc with rfl | rfl | rfl <;> simp [isWs, isDigitA, isIdStart, isAlphaA]

end Hpl

namespace Hpl

theorem chan_tail {cs : List Char} {hd : List Char} {name : List Char}
    (h1 : hd ++ (takeWhileC isIdChar cs).1 ++ (chanSegments ((takeWhileC isIdChar cs).2.length + 1) (takeWhileC isIdChar cs).2).1 = name)
    (h2 : (chanSegments ((takeWhileC isIdChar cs).2.length + 1) (takeWhileC isIdChar cs).2).2 = [])
    (hn : name = hd ++ cs) (rest : List Char) (hr : NameEnd rest) :
    takeWhileC isIdChar (cs ++ rest) = ((takeWhileC isIdChar cs).1, (takeWhileC isIdChar cs).2 ++ rest) ∧
    chanSegments (((takeWhileC isIdChar cs).2 ++ rest).length + 1) ((takeWhileC isIdChar cs).2 ++ rest) = ((takeWhileC isIdChar cs).2, rest) ∧
    hd ++ (takeWhileC isIdChar cs).1 ++ (takeWhileC isIdChar cs).2 = name := by
  have hsplit := takeWhileC_split isIdChar cs _ _ rfl
  have hmore : (chanSegments ((takeWhileC isIdChar cs).2.length + 1) (takeWhileC isIdChar cs).2).1 = (takeWhileC isIdChar cs).2 := by
    have : hd ++ (takeWhileC isIdChar cs).1 ++ (chanSegments ((takeWhileC isIdChar cs).2.length + 1) (takeWhileC isIdChar cs).2).1 =
        hd ++ (takeWhileC isIdChar cs).1 ++ (takeWhileC isIdChar cs).2 := by
      rw [h1, hn, List.append_assoc, ← hsplit]
    exact List.append_cancel_left this
  have hcs : chanSegments ((takeWhileC isIdChar cs).2.length + 1) (takeWhileC isIdChar cs).2 = ((takeWhileC isIdChar cs).2, []) := by
    rw [Prod.ext_iff]; exact ⟨hmore, h2⟩
  refine ⟨takeWhileC_local isIdChar cs rest hr.notId, ?_, ?_⟩
  · exact chanSegments_local _ _ hcs _ rest (by simp only [List.length_append]; omega) hr
  · rw [hn, List.append_assoc, ← hsplit]

/-- a complete channel name is scanned as one word at property level -/
theorem lx_chan (name : List Char) (hok : chanTokOk name = true) :
    Lx name 0 true [(.word, String.ofList name, false)] 0 false NameEnd := by
  intro rest hP g aw acc haw
  have haw' := haw rfl
  subst haw'
  refine ⟨1, [⟨.word, String.ofList name, g, false⟩], true, true, ?_, (fun h => by cases h), by simp [tokKey], fun f => ?_⟩
  · cases name with
    | nil => simp [chanTokOk] at hok
    | cons _ _ => simp
  unfold chanTokOk at hok
  cases name with
  | nil => cases hok
  | cons c cs =>
    simp only at hok
    split at hok
    · rename_i hc
      simp only [Bool.and_eq_true, beq_iff_eq, List.isEmpty_iff] at hok hc
      obtain ⟨t1, t2, t3⟩ := chan_tail (hd := []) (cs := c :: cs) (name := c :: cs) (by simpa using hok.1) hok.2 (by simp) rest hP
      rw [scan_succ]
      simp only [idStart_not_ws c hc.1, idStart_ne c '@' hc.1 (by decide), idStart_ne c '"' hc.1 (by decide), idStart_not_digit c hc.1,
        idStart_ne c '.' hc.1 (by decide), Bool.false_eq_true, ↓reduceIte, Bool.false_and, Bool.or_self, hc.1, hc.2, List.reverse_cons,
        List.reverse_nil, List.nil_append, List.cons_append, beq_self_eq_true, Bool.true_and]
      simp only [List.cons_append] at t1 t2
      rw [t1]
      simp only
      rw [t2]
      simp only [List.nil_append] at t3
      simp only [t3]
    · split at hok
      · rename_i hns hc
        cases cs with
        | nil => cases hok
        | cons d ds =>
          simp only [Bool.and_eq_true, beq_iff_eq, List.isEmpty_iff] at hok
          obtain ⟨⟨hd', hk1⟩, hk2⟩ := hok
          obtain ⟨t1, t2, t3⟩ := chan_tail (hd := [c]) (cs := d :: ds) (name := c :: d :: ds) (by simpa using hk1) hk2 (by simp) rest hP
          have hnid : isIdStart c = false := by
            simp only [Bool.or_eq_true, beq_iff_eq] at hc
            rcases hc with rfl | rfl <;> decide
          have hws : isWs c = false := by
            simp only [Bool.or_eq_true, beq_iff_eq] at hc
            rcases hc with rfl | rfl <;> decide
          have hmisc : (c == '@') = false ∧ (c == '"') = false ∧ isDigitA c = false ∧ (c == '.') = false := by
            simp only [Bool.or_eq_true, beq_iff_eq] at hc
            rcases hc with rfl | rfl <;> decide
          rw [List.cons_append, scan_succ]
          simp only [hws, hmisc.1, hmisc.2.1, hmisc.2.2.1, hmisc.2.2.2, hnid, hc, Bool.false_eq_true, ↓reduceIte, Bool.false_and, Bool.or_self,
            List.cons_append, beq_self_eq_true, Bool.true_and, hd']
          simp only [List.cons_append] at t1 t2
          rw [t1]
          simp only
          rw [t2]
          simp only [List.nil_append, List.cons_append, List.cons.injEq, true_and] at t3
          simp only [List.reverse_cons, List.reverse_nil, List.nil_append, List.cons_append, t3]
      · cases hok

end Hpl

namespace Hpl

/-- one step of the scanner over a complete number token followed by something that cannot continue it -/
theorem scan_num_step (w rest : List Char) (hw : numTokOk w = true) (hP : NumStop rest) (d : Nat) (g aw : Bool) (acc : List Tok) (f : Nat) :
    scan (f + 1) (w ++ rest) d g aw acc = scan f rest d true (w.getLast? != some '.') (⟨.num, String.ofList w, g, aw⟩ :: acc) := by
  simp only [numTokOk, Bool.and_eq_true, beq_iff_eq] at hw
  obtain ⟨hs, hh⟩ := hw
  have hloc := scanNumber_local w rest hP
  rw [hs] at hloc
  simp only [Option.map_some, List.nil_append] at hloc
  match w, hh with
  | c :: w', hh =>
    rw [scan_succ]
    have hws : isWs c = false := by
      simp only [Bool.or_eq_true, Bool.and_eq_true, beq_iff_eq] at hh
      rcases hh with h1 | ⟨rfl, _⟩
      · cases hw : isWs c with
        | false => rfl
        | true =>
          simp only [isWs, Bool.or_eq_true, beq_iff_eq] at hw
          rcases hw with (((rfl | rfl) | rfl) | rfl) | rfl <;> revert h1 <;> decide
      · decide
    have hat : (c == '@') = false := by
      simp only [Bool.or_eq_true, Bool.and_eq_true, beq_iff_eq] at hh
      rcases hh with h1 | ⟨rfl, _⟩
      · cases hw : c == '@' with
        | false => rfl
        | true => have := eq_of_beq hw; subst this; revert h1; decide
      · decide
    have hq : (c == '"') = false := by
      simp only [Bool.or_eq_true, Bool.and_eq_true, beq_iff_eq] at hh
      rcases hh with h1 | ⟨rfl, _⟩
      · cases hw : c == '"' with
        | false => rfl
        | true => have := eq_of_beq hw; subst this; revert h1; decide
      · decide
    simp only [List.cons_append] at hloc ⊢
    simp only [hws, hat, hq, Bool.false_eq_true, if_false]
    simp only [Bool.or_eq_true, Bool.and_eq_true, beq_iff_eq] at hh
    rcases hh with h1 | ⟨rfl, h2⟩
    · simp [h1, hloc]
    · cases w' with
      | nil => cases h2
      | cons d' t =>
        simp only [List.cons_append] at hloc ⊢
        simp [h2, hloc]

/-- one step of the scanner over an identifier at property level, whatever precedes it -/
theorem scan_word0_step (c : Char) (w rest : List Char) (hc : isIdStart c = true) (hw : w.all isIdChar = true) (hP : NameEnd rest)
    (g aw : Bool) (acc : List Tok) (f : Nat) :
    scan (f + 1) (c :: w ++ rest) 0 g aw acc = scan f rest 0 true true (⟨.word, String.ofList (c :: w), g, aw⟩ :: acc) := by
  have htw : takeWhileC isIdChar (c :: (w ++ rest)) = (c :: w, rest) := by
    have := takeWhileC_append isIdChar (c :: w) rest (by simp [idStart_idChar c hc, hw]) hP.notId
    simpa using this
  have hcs : ∀ n, chanSegments n rest = ([], rest) := fun n => chanSegments_stop n rest hP.notSlash
  rw [List.cons_append, scan_succ]
  simp only [idStart_not_ws c hc, idStart_ne c '@' hc (by decide), idStart_ne c '"' hc (by decide), idStart_not_digit c hc,
    idStart_ne c '.' hc (by decide), Bool.false_eq_true, ↓reduceIte, Bool.false_and, Bool.or_self, hc, htw, hcs, List.reverse_cons,
    List.reverse_nil, List.nil_append, List.cons_append, List.append_nil, beq_self_eq_true, Bool.true_and]
  split <;> rfl

/-- a time amount as printed: the number directly followed by its unit -/
theorem lx_time (w : List Char) (u : String) (hu : u = "ms" ∨ u = "s") (hw : numTokOk w = true) (hlast : w.getLast? ≠ some '.') :
    Lx (w ++ u.toList) 0 false [(.num, String.ofList w, false), (.word, u, true)] 0 false NameEnd := by
  intro rest hP g aw acc _
  refine ⟨2, [⟨.num, String.ofList w, g, aw⟩, ⟨.word, u, true, true⟩], true, true, ?_, (fun h => by cases h), by simp [tokKey], fun f => ?_⟩
  · have hwn : 1 ≤ w.length := by
      cases w with
      | nil => simp [numTokOk, scanNumber, takeWhileC] at hw
      | cons _ _ => simp
    rcases hu with rfl | rfl
    · simp only [List.length_append]; rw [show ("ms" : String).toList.length = 2 by decide]; omega
    · simp only [List.length_append]; rw [show ("s" : String).toList.length = 1 by decide]; omega
  have hl : (w.getLast? != some '.') = true := by simpa using hlast
  rcases hu with rfl | rfl
  · have hstop : NumStop (("ms" : String).toList ++ rest) := by
      intro x hx
      rw [show ("ms" : String).toList = ['m', 's'] by decide] at hx
      simp only [List.cons_append, List.head?_cons, Option.some.injEq] at hx; subst hx; decide
    rw [List.append_assoc, show f + 2 = (f + 1) + 1 by omega, scan_num_step w _ hw hstop, hl]
    rw [show ("ms" : String).toList = 'm' :: ['s'] by decide, scan_word0_step 'm' ['s'] rest (by decide) (by decide) hP]
    simp [show String.ofList ['m', 's'] = "ms" by decide]
  · have hstop : NumStop (("s" : String).toList ++ rest) := by
      intro x hx
      rw [show ("s" : String).toList = ['s'] by decide] at hx
      simp only [List.cons_append, List.head?_cons, Option.some.injEq] at hx; subst hx; decide
    rw [List.append_assoc, show f + 2 = (f + 1) + 1 by omega, scan_num_step w _ hw hstop, hl]
    rw [show ("s" : String).toList = 's' :: [] by decide, scan_word0_step 's' [] rest (by decide) (by decide) hP]
    simp [show String.ofList ['s'] = "s" by decide]

end Hpl
