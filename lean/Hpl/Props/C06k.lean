import Hpl.Props.C06j
/-!
# C06 / C18 — text-level round trip for properties: the printed text of a property tree scans and parses back to that tree
-/
namespace Hpl

theorem Lx.chars {cs cs' : List Char} {d d' : Nat} {r e : Bool} {k : List Key} {P : List Char → Prop}
    (h : Lx cs d r k d' e P) (hc : cs = cs') : Lx cs' d r k d' e P := hc ▸ h

theorem Lx.reqTrue {cs : List Char} {d d' : Nat} {e : Bool} {k : List Key} {P : List Char → Prop}
    (h : Lx cs d false k d' e P) : Lx cs d true k d' e P := fun rest hr g aw acc _ => h rest hr g aw acc (fun h => by cases h)

theorem nameEnd_space (xs : List Char) : NameEnd (' ' :: xs) := nameEnd_cons (by decide) (by decide)
theorem nameEnd_colon (xs : List Char) : NameEnd (':' :: xs) := nameEnd_cons (by decide) (by decide)

/-- a keyword at property level followed by a blank -/
theorem lx_kw0 (s : String) (hs : isCName s = true) : Lx s.toList 0 true [(.word, s, false)] 0 false (fun rest => rest.head? = some ' ') :=
  (lx_word0S s hs).weakenP (fun rest hr => by
    cases rest with
    | nil => cases hr
    | cons x xs => simp only [List.head?_cons, Option.some.injEq] at hr; subst hr; exact nameEnd_space xs)

/-- one simple event as printed -/
theorem lexSimple (s : RawSimple) (hp : s.printable = true) (hl : s.lexOkB = true) :
    Lx s.chars 0 true (s.toks.map tokKey) 0 true (fun _ => True) := by
  obtain ⟨name, al, pred⟩ := s
  simp only [RawSimple.printable, Bool.and_eq_true] at hp
  simp only [RawSimple.lexOkB, Bool.and_eq_true] at hl
  cases pred with
  | none => simp at hl
  | some r =>
    simp only at hp hl
    have hname := lx_chan name.toList hl.1
    rw [String.ofList_toList] at hname
    have ih := (lexR r hp.2 (lexOk_of_B r hl.2) 1 (by decide)).weakenP (fun rest hr => next_of_delim r hr)
    have body := Lx.comp (lx_space 0) (Lx.comp (lx_open' 0) (Lx.comp (lx_space 1) (Lx.comp ih (Lx.comp (lx_space 1) (lx_close' 0)
      lx_re (fun _ _ => trivial)) lx_re (fun rest _ => delim_cons (by decide))) lx_re (fun _ _ => trivial)) lx_re (fun _ _ => trivial))
      lx_re (fun _ _ => trivial)
    cases al with
    | none =>
      have h := Lx.comp hname body lx_re (fun rest _ => nameEnd_space _)
      simp only [RawSimple.chars, RawSimple.toks, List.nil_append]
      refine h.keys ?_
      simp
    | some a =>
      simp only at hp
      have ha := lx_word0S a hp.1.2
      have h := Lx.comp hname (Lx.comp (lx_space 0) (Lx.comp (lx_kw0 "as" (by decide)) (Lx.comp (lx_space 0) (Lx.comp ha body
        lx_re (fun rest _ => nameEnd_space _)) lx_re (fun _ _ => trivial)) lx_re (fun _ _ => rfl)) lx_re (fun _ _ => trivial))
        lx_re (fun rest _ => nameEnd_space _)
      simp only [RawSimple.chars, RawSimple.toks]
      refine (Lx.chars h ?_).keys ?_
      · simp [List.append_assoc]
      · simp

end Hpl

namespace Hpl

theorem lexAlts : ∀ (alts : List RawSimple), alts ≠ [] → (∀ s ∈ alts, s.printable = true) → (∀ s ∈ alts, s.lexOkB = true) →
    Lx (altsChars alts) 0 true ((altsToks alts).map tokKey) 0 true (fun _ => True)
  | [], h, _, _ => absurd rfl h
  | [s], _, hp, hl => by simpa [altsChars, altsToks] using lexSimple s (hp s (by simp)) (hl s (by simp))
  | s :: s2 :: rest, _, hp, hl => by
      have h1 := lexSimple s (hp s (by simp)) (hl s (by simp))
      have h2 := lexAlts (s2 :: rest) (by simp) (fun x hx => hp x (by simp [hx])) (fun x hx => hl x (by simp [hx]))
      have h := Lx.comp h1 (Lx.comp (lx_space 0) (Lx.comp (lx_kw0 "or" (by decide)) (Lx.comp (lx_space 0) h2 lx_re (fun _ _ => trivial))
        lx_re (fun _ _ => rfl)) lx_re (fun _ _ => trivial)) lx_re (fun _ _ => trivial)
      simp only [altsChars, altsToks]
      refine h.keys ?_
      simp

theorem lexEvent (e : RawEvent) (hp : e.printable = true) (hl : e.lexOkB = true) :
    Lx e.chars 0 true (e.toks.map tokKey) 0 true (fun _ => True) := by
  cases e with
  | simple s => exact lexSimple s hp hl
  | disj alts =>
    simp only [RawEvent.printable, Bool.and_eq_true, decide_eq_true_eq, List.all_eq_true] at hp
    simp only [RawEvent.lexOkB, List.all_eq_true] at hl
    have hne : alts ≠ [] := by intro hh; subst hh; simp at hp
    have h := Lx.comp (lx_c0 '(' (by decide)) (Lx.comp (lexAlts alts hne hp.2 hl) (lx_c0 ')' (by decide)) lx_re (fun _ _ => trivial))
      lx_re (fun _ _ => trivial)
    simp only [RawEvent.chars, RawEvent.toks]
    refine h.reqTrue.keys ?_
    simp

end Hpl

namespace Hpl

theorem optPrintable_some {e : RawEvent} (h : optPrintable (some e) = true) : e.printable = true := h
theorem optLexOkB_some {e : RawEvent} (h : optLexOkB (some e) = true) : e.lexOkB = true := h

theorem lx_nil' (d : Nat) (P : List Char → Prop) : Lx [] d false [] d false P := by
  intro rest _ g aw acc _
  exact ⟨0, [], g, aw, by simp, (fun h => by cases h), rfl, fun f => by simp⟩

/-- the time bound as printed, followed by the end of the text or a line break -/
theorem lexTime (fmt : Rat → String) (mt : Option (Rat × TimeUnit)) (hl : timeLexOkB fmt mt = true) :
    Lx (timeChars fmt mt) 0 false ((timeToks fmt mt).map tokKey) 0 false NameEnd := by
  cases mt with
  | none => simpa [timeChars, timeToks] using lx_nil' 0 NameEnd
  | some qu =>
    obtain ⟨q, u⟩ := qu
    simp only [timeLexOkB, Bool.and_eq_true, bne_iff_ne, ne_eq] at hl
    have ht := lx_time (fmt q).toList (unitText u) (by cases u <;> simp [unitText]) hl.1 hl.2
    rw [String.ofList_toList] at ht
    have h := Lx.comp (lx_space 0) (Lx.comp (lx_kw0 "within" (by decide)) (Lx.comp (lx_space 0) ht lx_re (fun _ _ => trivial))
      lx_re (fun _ _ => rfl)) lx_re (fun _ _ => trivial)
    simp only [timeChars, timeToks]
    refine h.keys ?_
    cases u <;> simp [unitTok, tokKey, unitText, wordT, mkTok]

end Hpl

namespace Hpl

theorem lexScope (fmt : Rat → String) (p : RawProperty) (hp : p.printable fmt = true) (hl : p.lexOkB fmt = true) :
    Lx (scopeChars p) 0 true ((scopeToks p).map tokKey) 0 false NameEnd := by
  simp only [RawProperty.printable, Bool.and_eq_true] at hp
  simp only [RawProperty.lexOkB, Bool.and_eq_true] at hl
  obtain ⟨⟨⟨⟨⟨⟨⟨_, _⟩, hpb⟩, hpa⟩, hpt⟩, hptr⟩, hsk⟩, hpk⟩ := hp
  obtain ⟨⟨⟨⟨⟨_, hlb⟩, hla⟩, hlt⟩, hltr⟩, hltime⟩ := hl
  unfold scopeChars scopeToks
  cases hk : p.scopeKind with
  | global =>
    simp only
    exact ((lx_word0S "globally" (by decide)).keys (by simp))
  | after =>
    simp only [hk, Bool.and_eq_true] at hsk
    obtain ⟨a, ha⟩ := Option.isSome_iff_exists.mp hsk.1
    rw [ha] at hpa hla
    have he := lexEvent a (optPrintable_some hpa) (optLexOkB_some hla)
    have h := Lx.comp (lx_kw0 "after" (by decide)) (Lx.comp (lx_space 0) he lx_re (fun _ _ => trivial)) lx_re (fun _ _ => rfl)
    simp only [ha, optChars, optToks]
    exact (h.weaken (P' := NameEnd) (fun _ _ => trivial)).keys (by simp)
  | until_ =>
    simp only [hk, Bool.and_eq_true] at hsk
    obtain ⟨t, ht⟩ := Option.isSome_iff_exists.mp hsk.2
    rw [ht] at hpt hlt
    have he := lexEvent t (optPrintable_some hpt) (optLexOkB_some hlt)
    have h := Lx.comp (lx_kw0 "until" (by decide)) (Lx.comp (lx_space 0) he lx_re (fun _ _ => trivial)) lx_re (fun _ _ => rfl)
    simp only [ht, optChars, optToks]
    exact (h.weaken (P' := NameEnd) (fun _ _ => trivial)).keys (by simp)
  | afterUntil =>
    simp only [hk, Bool.and_eq_true] at hsk
    obtain ⟨a, ha⟩ := Option.isSome_iff_exists.mp hsk.1
    obtain ⟨t, ht⟩ := Option.isSome_iff_exists.mp hsk.2
    rw [ha] at hpa hla
    rw [ht] at hpt hlt
    have hea := lexEvent a (optPrintable_some hpa) (optLexOkB_some hla)
    have het := lexEvent t (optPrintable_some hpt) (optLexOkB_some hlt)
    have h := Lx.comp (lx_kw0 "after" (by decide)) (Lx.comp (lx_space 0) (Lx.comp hea (Lx.comp (lx_space 0) (Lx.comp (lx_kw0 "until" (by decide))
      (Lx.comp (lx_space 0) het lx_re (fun _ _ => trivial)) lx_re (fun _ _ => rfl)) lx_re (fun _ _ => trivial)) lx_re (fun _ _ => trivial))
      lx_re (fun _ _ => trivial)) lx_re (fun _ _ => rfl)
    simp only [ha, ht, optChars, optToks]
    exact (h.weaken (P' := NameEnd) (fun _ _ => trivial)).keys (by simp)

theorem lexPattern (fmt : Rat → String) (p : RawProperty) (hp : p.printable fmt = true) (hl : p.lexOkB fmt = true) :
    Lx (patternChars p) 0 true ((patternToks p).map tokKey) 0 true (fun _ => True) := by
  simp only [RawProperty.printable, Bool.and_eq_true] at hp
  simp only [RawProperty.lexOkB, Bool.and_eq_true] at hl
  obtain ⟨⟨⟨⟨⟨⟨⟨_, _⟩, hpb⟩, hpa⟩, hpt⟩, hptr⟩, hsk⟩, hpk⟩ := hp
  obtain ⟨⟨⟨⟨⟨_, hlb⟩, hla⟩, hlt⟩, hltr⟩, hltime⟩ := hl
  have heb := lexEvent p.behaviour hpb hlb
  unfold patternChars patternToks
  cases hk : p.patternKind with
  | existence =>
    simp only
    have h := Lx.comp (lx_kw0 "some" (by decide)) (Lx.comp (lx_space 0) heb lx_re (fun _ _ => trivial)) lx_re (fun _ _ => rfl)
    exact h.keys (by simp)
  | absence =>
    simp only
    have h := Lx.comp (lx_kw0 "no" (by decide)) (Lx.comp (lx_space 0) heb lx_re (fun _ _ => trivial)) lx_re (fun _ _ => rfl)
    exact h.keys (by simp)
  | response =>
    simp only [hk] at hpk
    cases htr : p.trigger with
    | none => rw [htr] at hpk; cases hpk
    | some t =>
      rw [htr] at hptr hltr
      have het := lexEvent t (optPrintable_some hptr) (optLexOkB_some hltr)
      have h := Lx.comp het (Lx.comp (lx_space 0) (Lx.comp (lx_kw0 "causes" (by decide)) (Lx.comp (lx_space 0) heb lx_re (fun _ _ => trivial))
        lx_re (fun _ _ => rfl)) lx_re (fun _ _ => trivial)) lx_re (fun _ _ => trivial)
      simp only [optChars, optToks]
      exact h.keys (by simp)
  | prevention =>
    simp only [hk] at hpk
    cases htr : p.trigger with
    | none => rw [htr] at hpk; cases hpk
    | some t =>
      rw [htr] at hptr hltr
      have het := lexEvent t (optPrintable_some hptr) (optLexOkB_some hltr)
      have h := Lx.comp het (Lx.comp (lx_space 0) (Lx.comp (lx_kw0 "forbids" (by decide)) (Lx.comp (lx_space 0) heb lx_re (fun _ _ => trivial))
        lx_re (fun _ _ => rfl)) lx_re (fun _ _ => trivial)) lx_re (fun _ _ => trivial)
      simp only [optChars, optToks]
      exact h.keys (by simp)
  | requirement =>
    simp only [hk, Bool.and_eq_true] at hpk
    obtain ⟨t, htr⟩ := Option.isSome_iff_exists.mp hpk.1
    rw [htr] at hptr hltr
    have het := lexEvent t (optPrintable_some hptr) (optLexOkB_some hltr)
    have h := Lx.comp heb (Lx.comp (lx_space 0) (Lx.comp (lx_kw0 "requires" (by decide)) (Lx.comp (lx_space 0) het lx_re (fun _ _ => trivial))
      lx_re (fun _ _ => rfl)) lx_re (fun _ _ => trivial)) lx_re (fun _ _ => trivial)
    simp only [htr, optChars, optToks]
    exact h.keys (by simp)

/-- **the scanner reads the printed text of a property as the property's printed tokens** -/
theorem lexProperty (fmt : Rat → String) (p : RawProperty) (hp : p.printable fmt = true) (hl : p.lexOkB fmt = true) :
    Lx (p.chars fmt) 0 true ((p.toks fmt).map tokKey) 0 false NameEnd := by
  have hmd : p.metadata = [] := by
    simp only [RawProperty.lexOkB, Bool.and_eq_true, List.isEmpty_iff] at hl
    exact hl.1.1.1.1.1
  have htime : timeLexOkB fmt p.maxTime = true := by
    simp only [RawProperty.lexOkB, Bool.and_eq_true] at hl
    exact hl.2
  have h := Lx.comp (lexScope fmt p hp hl) (Lx.comp (lx_c0 ':' (by decide)) (Lx.comp (lx_space 0) (Lx.comp (lexPattern fmt p hp hl) (lexTime fmt _ htime)
    lx_re (fun _ _ => trivial)) lx_re (fun _ _ => trivial)) lx_re (fun _ _ => trivial)) lx_re (fun rest _ => nameEnd_colon _)
  unfold RawProperty.chars RawProperty.toks
  refine h.keys ?_
  simp [hmd, mdToks]

end Hpl

namespace Hpl

/-- **C06 / C18 on strings, properties (grammar and scanner)**: the printed text of a printable property tree — every event with its
    predicate, names that are complete channel tokens, a time amount that is a complete number — is scanned and parsed back to exactly
    that tree, and therefore to whatever AST the constructors build from it -/
theorem parse_printed_property (fmt : Rat → String) (p : RawProperty) (hp : p.printable fmt = true) (hl : p.lexOkB fmt = true) :
    parseProperty (String.ofList (p.chars fmt)) = buildProperty p := by
  obtain ⟨ts, hs, hk⟩ := scan_of_Lx (lexProperty fmt p hp hl) nameEnd_nil
  have hlex : lex (String.ofList (p.chars fmt)) = .ok ts := by
    unfold lex; simp only [String.toList_ofList]; exact hs
  have hparse : parsePropertyToks ts = .ok p := by
    rw [parsePropertyToks_sim (ts := p.toks fmt) hk]; exact parse_property_toks_roundtrip fmt p hp
  unfold parseProperty
  rw [hlex]
  simp only [hparse]

end Hpl

namespace Hpl

/-- a line break between properties -/
theorem lx_newline (d : Nat) : Lx ['\n'] d false [] d true (fun _ => True) := by
  intro rest _ g aw acc _
  refine ⟨1, [], false, false, by simp, fun _ => rfl, rfl, fun f => ?_⟩
  rw [List.cons_append, scan_succ]
  simp [isWs]

theorem nameEnd_newline (xs : List Char) : NameEnd ('\n' :: xs) := nameEnd_cons (by decide) (by decide)

/-- `str(specification)`: the printed properties, one per line -/
def specChars (fmt : Rat → String) : List RawProperty → List Char
  | [] => []
  | [p] => p.chars fmt
  | p :: ps => p.chars fmt ++ (['\n'] ++ specChars fmt ps)

theorem lexSpec (fmt : Rat → String) : ∀ (ps : List RawProperty), ps ≠ [] → (∀ p ∈ ps, p.printable fmt = true) → (∀ p ∈ ps, p.lexOkB fmt = true) →
    Lx (specChars fmt ps) 0 true ((specToks fmt ps).map tokKey) 0 false NameEnd
  | [], h, _, _ => absurd rfl h
  | [p], _, hp, hl => by
      simpa [specChars, specToks] using lexProperty fmt p (hp p (by simp)) (hl p (by simp))
  | p :: q :: rest, _, hp, hl => by
      have h1 := lexProperty fmt p (hp p (by simp)) (hl p (by simp))
      have h2 := lexSpec fmt (q :: rest) (by simp) (fun x hx => hp x (by simp [hx])) (fun x hx => hl x (by simp [hx]))
      have h := Lx.comp h1 (Lx.comp (lx_newline 0) h2 lx_re (fun _ _ => trivial)) lx_re (fun rest _ => nameEnd_newline _)
      simp only [specChars]
      refine h.keys ?_
      simp [specToks]

/-- **C18 on strings (grammar and scanner)**: a file of printed properties, one per line, is scanned and parsed back to exactly
    those property trees, in order -/
theorem parse_printed_file (fmt : Rat → String) (ps : List RawProperty) (hne : ps ≠ []) (hp : ∀ p ∈ ps, p.printable fmt = true)
    (hl : ∀ p ∈ ps, p.lexOkB fmt = true) : parseSpecification (String.ofList (specChars fmt ps)) = buildSpec ps := by
  obtain ⟨ts, hs, hk⟩ := scan_of_Lx (lexSpec fmt ps hne hp hl) nameEnd_nil
  have hlex : lex (String.ofList (specChars fmt ps)) = .ok ts := by
    unfold lex; simp only [String.toList_ofList]; exact hs
  have hparse : parseFileToks ts = .ok ps := by
    rw [parseFileToks_sim (ts := specToks fmt ps) hk]; exact parse_file_toks_roundtrip fmt ps hne hp
  unfold parseSpecification
  rw [hlex]
  simp only [hparse]

end Hpl
