import Hpl.Props.C01e
/-!
# C06 — every parser output whose own-field and function names are not reserved round-trips

`Raw.printable` (the hypothesis of the round-trip theorems) has a structural part - what shapes the parser can produce - and a naming
part.  Here the structural part is discharged for *every* parser output: if the grammar derives a tree (equivalently, by
`parse_iff_renders`, if the parser returns it) and its own-field and function names are not among the nine words that open an atom
or a logic operand (`Raw.goodNames`), the tree is printable.  Hence `parse_print_parse`: the parser applied to the printed tokens of
its own output returns that output - for every token sequence, with exactly the exception recorded as known finding
`C06-own-field-logic-keyword-unparseable` (and its alias-normalised siblings).
-/
namespace Hpl

theorem decimalValue_kind {s : String} {v : LitVal} (h : decimalValue s = some v) : (∃ i, v = .int i) ∨ (∃ q, v = .flt q) := by
  unfold decimalValue at h
  simp only at h
  split at h
  · simp only [Option.map_eq_some_iff] at h
    obtain ⟨n, _, rfl⟩ := h
    exact .inl ⟨_, rfl⟩
  · repeat' (split at h)
    all_goals first | exact .inr ⟨_, (Option.some.inj h).symm⟩ | cases h

theorem decimalValue_notConst {s : String} {v : LitVal} (h : decimalValue s = some v) : (numberConstant s).isSome = false := by
  cases hc : (numberConstant s).isSome with
  | false => rfl
  | true =>
    have h1 : decimalValue "INF" = none := by rfl
    have h2 : decimalValue "NAN" = none := by rfl
    have h3 : decimalValue "PI" = none := by rfl
    have h4 : decimalValue "E" = none := by rfl
    rcases numberConstant_some hc with rfl | rfl | rfl | rfl
    · rw [h1] at h; cases h
    · rw [h2] at h; cases h
    · rw [h3] at h; cases h
    · rw [h4] at h; cases h

theorem litOk_num {s : String} {v : LitVal} (h : decimalValue s = some v) : litOk s v = true := by
  have hn := decimalValue_notConst h
  rcases decimalValue_kind h with ⟨i, rfl⟩ | ⟨q, rfl⟩ <;> simp [litOk, hn, h]

theorem litOk_const {s : String} {v : LitVal} (h : numberConstant s = some v) : litOk s v = true := by
  have hs : (numberConstant s).isSome = true := by rw [h]; rfl
  have hc : isCName s = true := by
    rcases numberConstant_some hs with rfl | rfl | rfl | rfl <;> decide
  have hv : (∃ q, v = .flt q) ∨ v = .inf ∨ v = .nan := by
    unfold numberConstant at h
    split at h
    · exact .inr (.inl (Option.some.inj h).symm)
    · split at h
      · exact .inr (.inr (Option.some.inj h).symm)
      · split at h
        · exact .inl ⟨_, (Option.some.inj h).symm⟩
        · split at h
          · exact .inl ⟨_, (Option.some.inj h).symm⟩
          · cases h
  rcases hv with ⟨q, rfl⟩ | rfl | rfl <;> simp [litOk, hs, h, hc]

theorem rawSnoc_printable : ∀ (es : RawList) (e : Raw), es.printable = true → e.printable = true → (rawSnoc es e).printable = true
  | .nil, e, _, he => by simp [rawSnoc, RawList.printable, he]
  | .cons x xs, e, hes, he => by
      simp only [RawList.printable, Bool.and_eq_true] at hes
      simp only [rawSnoc, RawList.printable, Bool.and_eq_true]
      exact ⟨hes.1, rawSnoc_printable xs e hes.2 he⟩

theorem rawSnoc_goodNames : ∀ (es : RawList) (e : Raw), (rawSnoc es e).goodNames = (es.goodNames && e.goodNames)
  | .nil, e => by simp [rawSnoc, RawList.goodNames]
  | .cons x xs, e => by simp [rawSnoc, RawList.goodNames, rawSnoc_goodNames xs e, Bool.and_assoc]

theorem rawSnoc_ne_nil : ∀ (es : RawList) (e : Raw), rawSnoc es e ≠ .nil
  | .nil, _ => by simp [rawSnoc]
  | .cons _ _, _ => by simp [rawSnoc]

theorem opTest_level {k : Nat} {t : Tok} (hl : isLoopLevel k = true) (h : opTest k t = true) : (opLevel t.text).isSome = true := by
  simp only [isLoopLevel, Bool.or_eq_true, beq_iff_eq] at hl
  rcases hl with ((((rfl | rfl) | rfl) | rfl) | rfl) | rfl <;>
    simp only [opTest, Bool.or_eq_true] at h
  · rcases h with h | h <;> (rw [isKw_text h]; decide)
  · rw [isKw_text h]; decide
  · rw [isKw_text h]; decide
  · rcases h with h | h <;> (rw [isSym_text h]; decide)
  · rcases h with h | h <;> (rw [isSym_text h]; decide)
  · rw [isSym_text h]; decide

theorem relTest_level {t : Tok} (h : relTest t = true) : (opLevel t.text).isSome = true := by
  simp only [relTest, Bool.or_eq_true, Bool.and_eq_true] at h
  rcases h with h | h
  · have hm := h.2
    simp only [relOps, List.contains_cons, List.contains_nil, Bool.or_false, Bool.or_eq_true, beq_iff_eq] at hm
    rcases hm with hm | hm | hm | hm | hm | hm <;> (rw [hm]; decide)
  · rw [isKw_text h]; decide

/-- what the grammar derives is printable, as far as its shape goes: only names can stand in the way -/
theorem renders_printable {k : Nat} {e : Raw} {ts : List Tok} (h : Renders k e ts) : e.goodNames = true →
    e.printable = true ∧ (9 ≤ k → k ≤ 10 → e.isAtomic = true) ∧ (k = 10 → e.isRef = true) ∧
    (k = 11 → ∃ es, e = .set es ∧ es ≠ .nil) := by
  induction h with
  | up hk _ _ ih =>
    intro hg
    exact ⟨(ih hg).1, fun h9 => by omega, fun h => by omega, fun h => by omega⟩
  | @binL k a b ta tb t hl ht _ _ iha ihb =>
    intro hg
    simp only [Raw.goodNames, Bool.and_eq_true] at hg
    have hk : k ≤ 7 := by simp only [isLoopLevel, Bool.or_eq_true, beq_iff_eq] at hl; omega
    refine ⟨?_, fun h9 => by omega, fun h => by omega, fun h => by omega⟩
    simp only [Raw.printable, Bool.and_eq_true]
    exact ⟨⟨opTest_level hl ht, (iha hg.1).1⟩, (ihb hg.2).1⟩
  | rel t ht _ _ iha ihb =>
    intro hg
    simp only [Raw.goodNames, Bool.and_eq_true] at hg
    refine ⟨?_, fun h9 => by omega, fun h => by omega, fun h => by omega⟩
    simp only [Raw.printable, Bool.and_eq_true]
    exact ⟨⟨relTest_level ht, (iha hg.1).1⟩, (ihb hg.2).1⟩
  | not t _ _ iha =>
    intro hg
    simp only [Raw.goodNames] at hg
    exact ⟨by simp [Raw.printable, (iha hg).1], fun h9 => by omega, fun h => by omega, fun h => by omega⟩
  | quant t v kin c _ _ hvn _ _ _ _ ihd ihb =>
    intro hg
    simp only [Raw.goodNames, Bool.and_eq_true] at hg
    refine ⟨?_, fun h9 => by omega, fun h => by omega, fun h => by omega⟩
    simp only [Raw.printable, Bool.and_eq_true]
    exact ⟨⟨⟨hvn, (ihd hg.1).1⟩, (ihd hg.1).2.1 (by omega) (by omega)⟩, (ihb hg.2).1⟩
  | neg t _ _ iha =>
    intro hg
    simp only [Raw.goodNames] at hg
    exact ⟨by simp [Raw.printable, (iha hg).1], fun h9 => by omega, fun h => by omega, fun h => by omega⟩
  | paren o c _ _ _ ih =>
    intro hg
    exact ⟨(ih hg).1, fun h9 => by omega, fun h => by omega, fun h => by omega⟩
  | str t _ => intro _; exact ⟨by simp [Raw.printable, litOk], fun _ _ => rfl, fun h => by omega, fun h => by omega⟩
  | num t v _ hv => intro _; exact ⟨by simp [Raw.printable, litOk_num hv], fun _ _ => rfl, fun h => by omega, fun h => by omega⟩
  | true_ t _ _ => intro _; exact ⟨by simp [Raw.printable, litOk], fun _ _ => rfl, fun h => by omega, fun h => by omega⟩
  | false_ t _ _ => intro _; exact ⟨by simp [Raw.printable, litOk], fun _ _ => rfl, fun h => by omega, fun h => by omega⟩
  | const t v _ _ hv => intro _; exact ⟨by simp [Raw.printable, litOk_const hv], fun _ _ => rfl, fun h => by omega, fun h => by omega⟩
  | call f o c _ _ _ _ _ iha =>
    intro hg
    simp only [Raw.goodNames, RawList.goodNames, Bool.and_eq_true, Bool.and_true] at hg
    refine ⟨?_, fun _ _ => rfl, fun h => by omega, fun h => by omega⟩
    simp only [Raw.printable, Bool.and_eq_true]
    exact ⟨hg.1, (iha hg.2).1⟩
  | range o kto c _ _ _ _ _ ihl ihh =>
    intro hg
    simp only [Raw.goodNames, Bool.and_eq_true] at hg
    refine ⟨?_, fun _ _ => rfl, fun h => by omega, fun h => by omega⟩
    simp only [Raw.printable, Bool.and_eq_true]
    exact ⟨(ihl hg.1).1, (ihh hg.2).1⟩
  | setOne _ ihe =>
    intro hg
    simp only [Raw.goodNames, RawList.goodNames, Bool.and_true] at hg
    refine ⟨by simp [Raw.printable, RawList.printable, (ihe hg).1], fun h9 h10 => by omega, fun h => by omega, fun _ => ⟨_, rfl, by simp⟩⟩
  | @setMore es ts e te c _ _ _ ihs ihe =>
    intro hg
    simp only [Raw.goodNames, rawSnoc_goodNames, Bool.and_eq_true] at hg
    have hs := (ihs (by simpa [Raw.goodNames] using hg.1)).1
    have hes : es.printable = true := by
      cases es with
      | nil => rfl
      | cons x xs => simpa [Raw.printable] using hs
    have hne := rawSnoc_ne_nil es e
    refine ⟨?_, fun h9 h10 => by omega, fun h => by omega, fun _ => ⟨_, rfl, hne⟩⟩
    have hp := rawSnoc_printable es e hes (ihe hg.2).1
    cases hh : rawSnoc es e with
    | nil => exact absurd hh hne
    | cons x xs => rw [hh] at hp; simpa [Raw.printable] using hp
  | set o c _ _ _ ihs =>
    intro hg
    exact ⟨(ihs hg).1, fun _ _ => rfl, fun h => by omega, fun h => by omega⟩
  | var t _ => intro _; exact ⟨rfl, fun _ _ => rfl, fun _ => rfl, fun h => by omega⟩
  | own t _ _ =>
    intro hg
    simp only [Raw.goodNames] at hg
    exact ⟨by simpa [Raw.printable] using hg, fun _ _ => rfl, fun _ => rfl, fun h => by omega⟩
  | @field m tm d n _ _ hn _ ih =>
    intro hg
    have hgm : m.goodNames = true := by
      cases m <;> first | rfl | simpa [Raw.goodNames] using hg
    have hm := (ih hgm).2.2.1 rfl
    have hpm := (ih hgm).1
    refine ⟨?_, fun _ _ => ?_, fun _ => ?_, fun h => by omega⟩ <;>
      (cases m <;> simp_all [Raw.printable, Raw.isRef, Raw.isAtomic])
  | index o c _ _ _ _ iha ihi =>
    intro hg
    simp only [Raw.goodNames, Bool.and_eq_true] at hg
    have ha := iha hg.1
    refine ⟨?_, fun _ _ => ?_, fun _ => ?_, fun h => by omega⟩
    · simp only [Raw.printable, Bool.and_eq_true]
      exact ⟨⟨ha.2.2.1 rfl, ha.1⟩, (ihi hg.2).1⟩
    · simpa [Raw.isAtomic, Raw.isRef] using ha.2.2.1 rfl
    · simpa [Raw.isRef] using ha.2.2.1 rfl
  | ref _ ih =>
    intro hg
    have := ih hg
    refine ⟨this.1, fun _ _ => ?_, fun h => by omega, fun h => by omega⟩
    have hr := this.2.2.1 rfl
    rename_i x _ _
    cases x <;> simp_all [Raw.isAtomic, Raw.isRef]

/-- **C06, for every parser output**: whatever token sequence was parsed, the parser applied to the printed tokens of the result
    returns the result again - provided no own field or function of it is named like one of the nine words that open an atom or a
    logic operand (`not forall exists True False INF NAN PI E`). -/
theorem parse_print_parse {ts : List Tok} {e : Raw} (h : parseExpressionToks ts = .ok e) (hg : e.goodNames = true) :
    e.printable = true ∧ parseExpressionToks e.toks = .ok e := by
  have hp := (renders_printable (parse_sound h) hg).1
  exact ⟨hp, roundtrip_from_completeness e hp⟩

theorem parse_print_parse_pred {ts : List Tok} {e : Raw} (h : parsePredicateToks ts = .ok e) (hg : e.goodNames = true) :
    e.printable = true ∧ parsePredicateToks (symT "{" :: (e.toks ++ [symT "}"])) = .ok e := by
  obtain ⟨o, mid, c, _, _, _, hr⟩ := parse_predicate_sound h
  have hp := (renders_printable hr hg).1
  exact ⟨hp, parse_predicate_complete (printed_is_rendering e hp) (symT "{") (symT "}") (by decide) (by decide)⟩

end Hpl
