import Hpl.Props.C06m
import Hpl.Props.C06h
/-!
# C06 — from text to text: `parse (print (parse s)) = parse s` for every text

The scanner's tokens are complete tokens of their own text (`lex_tokOk`: a NUMBER / ESCAPED_STRING token scanned out of any text is
scanned to the same token when it stands alone; a variable name is an identifier), so every parser output satisfies the decidable
hypothesis `lexOkB` of the text-level round trip (`renders_lexOk`).  With `parse_print_parse` (`Props/C06m`):
**`parse_print_parse_text`**.
-/
namespace Hpl

theorem takeWhileC_spec (p : Char → Bool) : ∀ (cs a b : List Char), takeWhileC p cs = (a, b) →
    cs = a ++ b ∧ a.all p = true ∧ (∀ x, b.head? = some x → p x = false)
  | [], a, b, h => by
      simp only [takeWhileC, Prod.mk.injEq] at h
      obtain ⟨rfl, rfl⟩ := h
      exact ⟨rfl, rfl, fun x hx => by cases hx⟩
  | c :: cs, a, b, h => by
      simp only [takeWhileC] at h
      split at h
      · rename_i hc
        cases hr : takeWhileC p cs with
        | mk a' b' =>
          rw [hr] at h
          simp only [Prod.mk.injEq] at h
          obtain ⟨rfl, rfl⟩ := h
          obtain ⟨h1, h2, h3⟩ := takeWhileC_spec p cs a' b' hr
          exact ⟨by rw [h1]; rfl, by simp [hc, h2], h3⟩
      · rename_i hc
        simp only [Prod.mk.injEq] at h
        obtain ⟨rfl, rfl⟩ := h
        exact ⟨rfl, rfl, fun x hx => by simp only [List.head?_cons, Option.some.injEq] at hx; subst hx; simpa using hc⟩

theorem takeWhileC_all (p : Char → Bool) (a : List Char) (h : a.all p = true) : takeWhileC p a = (a, []) := by
  have := takeWhileC_append p a [] h (fun x hx => by cases hx)
  simpa using this

/-- an exponent part is empty or starts with `e` / `E`, and is an exponent part on its own -/
theorem scanExp_self (cs ex r : List Char) (h : scanExp cs = (ex, r)) :
    cs = ex ++ r ∧ scanExp ex = (ex, []) ∧ (∀ x, ex.head? = some x → x = 'e' ∨ x = 'E') := by
  unfold scanExp at h
  have nil : (ex, r) = ([], cs) → cs = ex ++ r ∧ scanExp ex = (ex, []) ∧ (∀ x, ex.head? = some x → x = 'e' ∨ x = 'E') := by
    intro he
    simp only [Prod.mk.injEq] at he
    obtain ⟨rfl, rfl⟩ := he
    exact ⟨rfl, rfl, fun x hx => by cases hx⟩
  match cs, h, nil with
  | [], h, nil => exact nil h.symm
  | e :: rest, h, nil =>
    simp only at h
    split at h
    · rename_i he
      have hee : e = 'e' ∨ e = 'E' := by simpa using he
      match rest, h, nil with
      | [], h, nil => exact nil h.symm
      | [d], h, nil =>
        simp only at h
        split at h
        · rename_i hd
          simp only [Prod.mk.injEq] at h
          obtain ⟨rfl, rfl⟩ := h
          refine ⟨rfl, ?_, fun x hx => by simp only [List.head?_cons, Option.some.injEq] at hx; exact hx ▸ hee⟩
          simp [scanExp, he, hd]
        · exact nil h.symm
      | s :: d :: rest', h, nil =>
        simp only at h
        split at h
        · rename_i hsd
          cases hr : takeWhileC isDigitA rest' with
          | mk ds r' =>
            rw [hr] at h
            simp only [Prod.mk.injEq] at h
            obtain ⟨rfl, rfl⟩ := h
            obtain ⟨h1, h2, h3⟩ := takeWhileC_spec _ _ _ _ hr
            refine ⟨by rw [h1]; rfl, ?_, fun x hx => by simp only [List.head?_cons, Option.some.injEq] at hx; exact hx ▸ hee⟩
            cases ds with
            | nil =>
              simp only [Bool.and_eq_true] at hsd
              simp [scanExp, he, hsd.2]
              -- `[e, s, d]`: the sign then a digit
              simp only [Bool.or_eq_true, beq_iff_eq] at hsd
              simp [hsd.1, takeWhileC]
            | cons x xs =>
              simp only [scanExp, he, if_true, hsd, takeWhileC_all _ _ h2]
        · rename_i hsd
          split at h
          · rename_i hs
            cases hr : takeWhileC isDigitA (d :: rest') with
            | mk ds r' =>
              rw [hr] at h
              simp only [Prod.mk.injEq] at h
              obtain ⟨rfl, rfl⟩ := h
              obtain ⟨h1, h2, h3⟩ := takeWhileC_spec _ _ _ _ hr
              refine ⟨by rw [h1]; rfl, ?_, fun x hx => by simp only [List.head?_cons, Option.some.injEq] at hx; exact hx ▸ hee⟩
              have hnots : ((s == '+' || s == '-')) = false := by
                cases hh : (s == '+' || s == '-') with
                | false => rfl
                | true =>
                  simp only [Bool.or_eq_true, beq_iff_eq] at hh
                  rcases hh with rfl | rfl <;> simp [isDigitA] at hs
              cases ds with
              | nil => simp [scanExp, he, hs]
              | cons x xs =>
                cases xs with
                | nil =>
                  simp only [List.all_cons, Bool.and_eq_true] at h2
                  simp [scanExp, he, hs, hnots, h2.1, takeWhileC]
                | cons y ys =>
                  simp only [scanExp, he, if_true, hnots, Bool.false_and, Bool.false_eq_true, if_false, hs, takeWhileC_all _ _ h2]
          · exact nil h.symm
    · exact nil h.symm

theorem exp_head_notDigit {ex : List Char} (h : ∀ x, ex.head? = some x → x = 'e' ∨ x = 'E') : ∀ x, ex.head? = some x → isDigitA x = false := by
  intro x hx
  rcases h x hx with rfl | rfl <;> decide

theorem exp_head_notDot {ex : List Char} (h : ∀ x, ex.head? = some x → x = 'e' ∨ x = 'E') : ∀ r2, ex ≠ '.' :: r2 := by
  intro r2 he
  subst he
  rcases h '.' rfl with h | h <;> cases h

/-- a NUMBER token scanned out of a text is the whole of its own text -/
theorem scanNumber_self (cs n r : List Char) (h : scanNumber cs = some (n, r)) : cs = n ++ r ∧ scanNumber n = some (n, []) := by
  rw [scanNumber_eq] at h
  cases hr : takeWhileC isDigitA cs with
  | mk ip r1 =>
    rw [hr] at h
    simp only at h
    obtain ⟨h1, h2, h3⟩ := takeWhileC_spec _ _ _ _ hr
    by_cases hdot : ∃ r2, r1 = '.' :: r2
    · obtain ⟨r2, rfl⟩ := hdot
      rw [numTail_dot] at h
      cases hf : takeWhileC isDigitA r2 with
      | mk fp r3 =>
        rw [hf] at h
        simp only at h
        obtain ⟨f1, f2, f3⟩ := takeWhileC_spec _ _ _ _ hf
        split at h
        · cases h
        · rename_i hemp
          cases he : scanExp r3 with
          | mk ex r4 =>
            rw [he] at h
            simp only [Option.some.injEq, Prod.mk.injEq] at h
            obtain ⟨rfl, rfl⟩ := h
            obtain ⟨e1, e2, e3⟩ := scanExp_self _ _ _ he
            refine ⟨by rw [h1, f1, e1]; simp, ?_⟩
            rw [scanNumber_eq]
            have t1 : takeWhileC isDigitA (ip ++ '.' :: fp ++ ex) = (ip, '.' :: fp ++ ex) := by
              have := takeWhileC_append isDigitA ip ('.' :: fp ++ ex) h2 (fun x hx => by
                simp only [List.cons_append, List.head?_cons, Option.some.injEq] at hx; subst hx; decide)
              simpa using this
            rw [t1]
            simp only
            have : ('.' :: fp ++ ex) = '.' :: (fp ++ ex) := rfl
            rw [this, numTail_dot]
            have t2 : takeWhileC isDigitA (fp ++ ex) = (fp, ex) := takeWhileC_append isDigitA fp ex f2 (exp_head_notDigit e3)
            rw [t2]
            simp only [hemp, e2]
            simp
    · have hnd : ∀ r2, r1 ≠ '.' :: r2 := fun r2 he => hdot ⟨r2, he⟩
      rw [numTail_other _ _ hnd] at h
      split at h
      · cases h
      · rename_i hemp
        cases he : scanExp r1 with
        | mk ex r4 =>
          rw [he] at h
          simp only [Option.some.injEq, Prod.mk.injEq] at h
          obtain ⟨rfl, rfl⟩ := h
          obtain ⟨e1, e2, e3⟩ := scanExp_self _ _ _ he
          refine ⟨by rw [h1, e1]; simp, ?_⟩
          rw [scanNumber_eq]
          have t1 : takeWhileC isDigitA (ip ++ ex) = (ip, ex) := takeWhileC_append isDigitA ip ex h2 (exp_head_notDigit e3)
          rw [t1]
          simp only
          rw [numTail_other _ _ (exp_head_notDot e3)]
          simp only [hemp, e2]
          simp

def numGuard (c : Char) (rest : List Char) : Bool :=
  isDigitA c || (c == '.' && (match rest with | d :: _ => isDigitA d | [] => false))

theorem num_tok_ok (c : Char) (rest n r : List Char) (hg : numGuard c rest = true)
    (h : scanNumber (c :: rest) = some (n, r)) : numTokOk n = true := by
  unfold numGuard at hg
  obtain ⟨hcs, hself⟩ := scanNumber_self _ _ _ h
  cases n with
  | nil => exact absurd hself (by decide)
  | cons c' w' =>
    simp only [List.cons_append, List.cons.injEq] at hcs
    obtain ⟨rfl, rfl⟩ := hcs
    simp only [numTokOk, hself, beq_self_eq_true, Bool.true_and]
    simp only [Bool.or_eq_true, Bool.and_eq_true] at hg ⊢
    rcases hg with hd | ⟨hdot, hnext⟩
    · exact .inl hd
    · refine .inr ⟨hdot, ?_⟩
      have hc : c = '.' := by simpa using hdot
      subst hc
      cases w' with
      | nil => exact absurd hself (by decide)
      | cons d w'' => simpa using hnext

/-- an ESCAPED_STRING token scanned out of a text is the whole of its own text -/
theorem scanString_self (cs acc s r : List Char) (h : scanString cs acc = some (s, r)) :
    ∃ body, cs = body ++ r ∧ s = acc.reverse ++ body ∧ scanString body acc = some (s, []) := by
  fun_induction scanString cs acc with
  | case1 acc => simp at h
  | case2 acc t =>
    simp only [Option.some.injEq, Prod.mk.injEq] at h
    obtain ⟨rfl, rfl⟩ := h
    exact ⟨['"'], rfl, rfl, by simp [scanString]⟩
  | case3 acc c t hc => simp at h
  | case4 x body acc hc ih =>
    obtain ⟨b, rfl, hs, hb⟩ := ih h
    refine ⟨'\\' :: x :: b, rfl, by simpa using hs, ?_⟩
    rw [scanString]
    simp only [hc]
    exact hb
  | case5 acc t => simp at h
  | case6 x body acc h1 h2 h3 ih =>
    obtain ⟨b, rfl, hs, hb⟩ := ih h
    refine ⟨x :: b, rfl, by simpa using hs, ?_⟩
    by_cases hx : x = '\\'
    · subst hx
      cases b with
      | nil => simp [scanString] at hb
      | cons y ys => exact absurd rfl (h2 y (ys ++ r) rfl)
    · rw [scanString]
      · exact hb
      all_goals first | exact h1 | exact h3 | (intro c' r' hc'; exact absurd hc' hx) | skip

theorem str_tok_ok (rest s r : List Char) (h : scanString rest ['"'] = some (s, r)) : strTokOk s = true := by
  obtain ⟨body, _, hs, hb⟩ := scanString_self _ _ _ _ h
  simp only [List.reverse_cons, List.reverse_nil, List.nil_append, List.singleton_append] at hs
  subst hs
  simp only [strTokOk, hb, beq_self_eq_true]

/-- what the scanner guarantees of a token: a NUMBER / ESCAPED_STRING token is a complete token of its own text, a variable
    name is an identifier -/
def TokOk (t : Tok) : Bool :=
  match t.kind with
  | .num => numTokOk t.text.toList
  | .str => strTokOk t.text.toList
  | .var => isCName t.text
  | _ => true

theorem var_tok_ok (d : Char) (rest' w r : List Char) (g aw : Bool) (hd : isIdStart d = true)
    (hw : takeWhileC isIdChar (d :: rest') = (w, r)) : TokOk ⟨.var, String.ofList w, g, aw⟩ = true := by
  obtain ⟨h1, h2, _⟩ := takeWhileC_spec _ _ _ _ hw
  cases w with
  | nil =>
    simp only [takeWhileC, idStart_idChar d hd, if_true] at hw
    cases hr : takeWhileC isIdChar rest' with
    | mk a b => rw [hr] at hw; simp at hw
  | cons x xs =>
    simp only [List.cons_append, List.cons.injEq] at h1
    obtain ⟨rfl, _⟩ := h1
    simp only [List.all_cons, Bool.and_eq_true] at h2
    simp only [TokOk, isCName, String.toList_ofList, hd, h2.2, Bool.and_self]

theorem scan_tokOk : ∀ (f : Nat) (cs : List Char) (depth : Nat) (g aw : Bool) (acc ts : List Tok),
    scan f cs depth g aw acc = .ok ts → (∀ t ∈ acc, TokOk t = true) → ∀ t ∈ ts, TokOk t = true
  | 0, cs, depth, g, aw, acc, ts, h, _ => by
      have : scan 0 cs depth g aw acc = .error .unexpectedChar := rfl
      rw [this] at h; cases h
  | f + 1, cs, depth, g, aw, acc, ts, h, hacc => by
      have step : ∀ (tok : Tok) (cs' : List Char) (d' : Nat) (g' aw' : Bool), TokOk tok = true →
          scan f cs' d' g' aw' (tok :: acc) = .ok ts → ∀ t ∈ ts, TokOk t = true := by
        intro tok cs' d' g' aw' htok h'
        exact scan_tokOk f cs' d' g' aw' (tok :: acc) ts h' (fun t ht => by
          simp only [List.mem_cons] at ht
          rcases ht with rfl | ht
          · exact htok
          · exact hacc t ht)
      rw [scan_succ] at h
      cases cs with
      | nil =>
        simp only [Except.ok.injEq] at h
        subst h
        intro t ht
        exact hacc t (by simpa using ht)
      | cons c rest =>
        simp only at h
        by_cases hws : isWs c = true
        · simp only [hws, if_true] at h
          exact scan_tokOk f rest depth false false acc ts h hacc
        · simp only [hws, Bool.false_eq_true, if_false] at h
          by_cases hat : (c == '@') = true
          · simp only [hat, if_true] at h
            cases rest with
            | nil => cases h
            | cons d rest' =>
              simp only at h
              by_cases hd : isIdStart d = true
              · simp only [hd, if_true] at h
                exact step _ _ _ _ _ (var_tok_ok d rest' _ _ g aw hd rfl) h
              · simp only [hd, Bool.false_eq_true, if_false] at h
                cases h
          · simp only [hat, Bool.false_eq_true, if_false] at h
            by_cases hq : (c == '"') = true
            · simp only [hq, if_true] at h
              cases hs : scanString rest ['"'] with
              | none => rw [hs] at h; cases h
              | some p =>
                obtain ⟨s, r⟩ := p
                rw [hs] at h
                exact step _ _ _ _ _ (by simp only [TokOk, String.toList_ofList]; exact str_tok_ok rest s r hs) h
            · simp only [hq, Bool.false_eq_true, if_false] at h
              have numcase : numGuard c rest = true →
                  (match scanNumber (c :: rest) with
                    | some (n, r) => scan f r depth true (n.getLast? != some '.') (⟨.num, String.ofList n, g, aw⟩ :: acc)
                    | none => (.error .unexpectedChar : Except LexErr (List Tok))) = .ok ts → ∀ t ∈ ts, TokOk t = true := by
                intro hg h
                cases hn : scanNumber (c :: rest) with
                | none => rw [hn] at h; cases h
                | some p =>
                  obtain ⟨n, r⟩ := p
                  rw [hn] at h
                  exact step _ _ _ _ _ (by simp only [TokOk, String.toList_ofList]; exact num_tok_ok c rest n r hg hn) h
              cases rest with
              | nil =>
                simp only at h
                by_cases hg : (isDigitA c || (c == '.' && false)) = true
                · rw [if_pos hg] at h
                  exact numcase hg h
                · rw [if_neg hg] at h
                  repeat' (split at h)
                  all_goals first | cases h | exact step _ _ _ _ _ rfl h
              | cons d rest' =>
                simp only at h
                by_cases hg : (isDigitA c || (c == '.' && isDigitA d)) = true
                · rw [if_pos hg] at h
                  exact numcase hg h
                · rw [if_neg hg] at h
                  -- words, channel names, punctuation: nothing to show about the token
                  repeat' (split at h)
                  all_goals first | cases h | exact step _ _ _ _ _ rfl h

theorem lex_tokOk {s : String} {ts : List Tok} (h : lex s = .ok ts) : ∀ t ∈ ts, TokOk t = true :=
  scan_tokOk _ _ _ _ _ [] ts h (fun _ ht => by cases ht)

theorem lexExpr_tokOk {s : String} {ts : List Tok} (h : lexExpr s = .ok ts) : ∀ t ∈ ts, TokOk t = true :=
  scan_tokOk _ _ _ _ _ [] ts h (fun _ ht => by cases ht)

theorem const_kind {s : String} {v : LitVal} (h : numberConstant s = some v) : (∃ q, v = .flt q) ∨ v = .inf ∨ v = .nan := by
  unfold numberConstant at h
  split at h
  · exact .inr (.inl (Option.some.inj h).symm)
  · split at h
    · exact .inr (.inr (Option.some.inj h).symm)
    · split at h
      · exact .inl ⟨_, (Option.some.inj h).symm⟩
      · split at h
        · exact .inl ⟨_, (Option.some.inj h).symm⟩
        · cases h

theorem rawSnoc_lexOk : ∀ (es : RawList) (e : Raw), RawList.lexOkLB (rawSnoc es e) = (RawList.lexOkLB es && e.lexOkB)
  | .nil, e => by simp [rawSnoc, RawList.lexOkLB]
  | .cons x xs, e => by simp [rawSnoc, RawList.lexOkLB, rawSnoc_lexOk xs e, Bool.and_assoc]

/-- the literal tokens and variable names of whatever the grammar derives from scanned tokens are complete tokens -/
theorem renders_lexOk {k : Nat} {e : Raw} {ts : List Tok} (h : Renders k e ts) : (∀ t ∈ ts, TokOk t = true) → e.lexOkB = true := by
  induction h with
  | up _ _ _ ih => exact ih
  | binL t _ _ _ _ iha ihb =>
    intro ht
    simp only [Raw.lexOkB, Bool.and_eq_true]
    exact ⟨iha (fun x hx => ht x (by simp [hx])), ihb (fun x hx => ht x (by simp [hx]))⟩
  | rel t _ _ _ iha ihb =>
    intro ht
    simp only [Raw.lexOkB, Bool.and_eq_true]
    exact ⟨iha (fun x hx => ht x (by simp [hx])), ihb (fun x hx => ht x (by simp [hx]))⟩
  | not t _ _ iha => intro ht; simp only [Raw.lexOkB]; exact iha (fun x hx => ht x (by simp [hx]))
  | quant t v kin c _ _ _ _ _ _ _ ihd ihb =>
    intro ht
    simp only [Raw.lexOkB, Bool.and_eq_true]
    exact ⟨ihd (fun x hx => ht x (by simp [hx])), ihb (fun x hx => ht x (by simp [hx]))⟩
  | neg t _ _ iha => intro ht; simp only [Raw.lexOkB]; exact iha (fun x hx => ht x (by simp [hx]))
  | paren o c _ _ _ ih => intro ht; exact ih (fun x hx => ht x (by simp [hx]))
  | str t hk =>
    intro ht
    have := ht t (by simp)
    simp only [TokOk, hk] at this
    simp [Raw.lexOkB, litOk, litLexB, this]
  | num t v hk hv =>
    intro ht
    have := ht t (by simp)
    simp only [TokOk, hk] at this
    rcases decimalValue_kind hv with ⟨i, rfl⟩ | ⟨q, rfl⟩ <;> simp [Raw.lexOkB, litOk_num hv, litLexB, this]
  | true_ t _ _ => intro _; simp [Raw.lexOkB, litOk, litLexB]
  | false_ t _ _ => intro _; simp [Raw.lexOkB, litOk, litLexB]
  | const t v _ _ hv =>
    intro _
    have hs : (numberConstant t.text).isSome = true := by rw [hv]; rfl
    rcases const_kind hv with ⟨q, rfl⟩ | rfl | rfl <;> simp [Raw.lexOkB, litOk_const hv, litLexB, hs]
  | call f o c _ _ _ _ _ iha =>
    intro ht
    simp only [Raw.lexOkB, RawList.lexOkLB, Bool.and_true]
    exact iha (fun x hx => ht x (by simp [hx]))
  | range o kto c _ _ _ _ _ ihl ihh =>
    intro ht
    simp only [Raw.lexOkB, Bool.and_eq_true]
    exact ⟨ihl (fun x hx => ht x (by simp [hx])), ihh (fun x hx => ht x (by simp [hx]))⟩
  | setOne _ ihe =>
    intro ht
    simp only [Raw.lexOkB, RawList.lexOkLB, Bool.and_true]
    exact ihe ht
  | setMore c _ _ _ ihs ihe =>
    intro ht
    simp only [Raw.lexOkB, rawSnoc_lexOk, Bool.and_eq_true]
    exact ⟨by simpa [Raw.lexOkB] using ihs (fun x hx => ht x (by simp [hx])), ihe (fun x hx => ht x (by simp [hx]))⟩
  | set o c _ _ _ ihs => intro ht; exact ihs (fun x hx => ht x (by simp [hx]))
  | var t hk =>
    intro ht
    have := ht t (by simp)
    simp only [TokOk, hk] at this
    simpa [Raw.lexOkB] using this
  | own t _ _ => intro _; rfl
  | field d n _ _ _ _ ih =>
    intro ht
    simp only [Raw.lexOkB]
    exact ih (fun x hx => ht x (by simp [hx]))
  | index o c _ _ _ _ iha ihi =>
    intro ht
    simp only [Raw.lexOkB, Bool.and_eq_true]
    exact ⟨iha (fun x hx => ht x (by simp [hx])), ihi (fun x hx => ht x (by simp [hx]))⟩
  | ref _ ih => exact ih

/-- **C06 on strings, for every input**: if a text parses as an expression to `e`, then the printed form of `e` parses to `e` again -
    provided no own field or function of the syntax tree is named like one of the nine words that open an atom or a logic operand
    (the known-finding family). No hypothesis on how the text was produced; the scanner, the parser, the constructors and the
    printer are all inside the statement. -/
theorem parse_print_parse_text {s : String} {ts : List Tok} {r : Raw} {e : Expr}
    (hl : lexExpr s = .ok ts) (hp : parseExpressionToks ts = .ok r) (hb : build r = .ok e) (hg : r.goodNames = true) :
    parseExpression e.print = .ok e :=
  print_parse_roundtrip_dec r e (renders_printable (parse_sound hp) hg).1 (renders_lexOk (parse_sound hp) (lexExpr_tokOk hl)) hb

/-- the same for predicates: `parse_predicate (str p) = p` for every predicate `p` the parser returns -/
theorem parse_print_parse_text_pred {s : String} {ts : List Tok} {r : Raw} {e : Expr} {p : Pred}
    (hl : lex s = .ok ts) (hp : parsePredicateToks ts = .ok r) (hb : build r = .ok e) (hpr : predFromExpr e = .ok p)
    (hg : r.goodNames = true) : parsePredicate p.print = .ok p := by
  obtain ⟨o, mid, c, rfl, _, _, hr⟩ := parse_predicate_sound hp
  have htok := lex_tokOk hl
  exact pred_print_parse_roundtrip r e p (renders_printable hr hg).1
    (renders_lexOk hr (fun t ht => htok t (by simp [ht]))) hb hpr

/-- inversion of the entry point: an accepted text went through the scanner, the parser and the constructors -/
theorem parseExpression_inv {s : String} {e : Expr} (h : parseExpression s = .ok e) :
    ∃ ts r, lexExpr s = .ok ts ∧ parseExpressionToks ts = .ok r ∧ build r = .ok e := by
  unfold parseExpression at h
  cases hl : lexExpr s with
  | error x => rw [hl] at h; cases h
  | ok ts =>
    rw [hl] at h
    simp only at h
    cases hp : parseExpressionToks ts with
    | error x => rw [hp] at h; cases h
    | ok r => rw [hp] at h; exact ⟨ts, r, rfl, hp, h⟩

/-- **`parse ∘ print ∘ parse = parse`** on texts -/
theorem parse_print_parse_expression {s : String} {e : Expr} (h : parseExpression s = .ok e)
    (hg : ∀ ts r, lexExpr s = .ok ts → parseExpressionToks ts = .ok r → r.goodNames = true) :
    parseExpression e.print = .ok e := by
  obtain ⟨ts, r, hl, hp, hb⟩ := parseExpression_inv h
  exact parse_print_parse_text hl hp hb (hg ts r hl hp)

/-- … "and printing that result yields the same text again" -/
theorem print_stable {s : String} {e : Expr} (h : parseExpression s = .ok e)
    (hg : ∀ ts r, lexExpr s = .ok ts → parseExpressionToks ts = .ok r → r.goodNames = true) :
    ∀ e', parseExpression e.print = .ok e' → e'.print = e.print := by
  intro e' h'
  rw [parse_print_parse_expression h hg] at h'
  cases h'; rfl

/-- … "consequently two parsed ASTs that differ print differently": on parser outputs the printer is injective -/
theorem print_injective_on_parsed {s1 s2 : String} {e1 e2 : Expr} (h1 : parseExpression s1 = .ok e1) (h2 : parseExpression s2 = .ok e2)
    (hg1 : ∀ ts r, lexExpr s1 = .ok ts → parseExpressionToks ts = .ok r → r.goodNames = true)
    (hg2 : ∀ ts r, lexExpr s2 = .ok ts → parseExpressionToks ts = .ok r → r.goodNames = true)
    (hp : e1.print = e2.print) : e1 = e2 := by
  have a := parse_print_parse_expression h1 hg1
  have b := parse_print_parse_expression h2 hg2
  rw [hp, b] at a
  exact (Except.ok.inj a).symm

end Hpl
