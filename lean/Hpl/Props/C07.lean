import Hpl.Model.Parser
import Hpl.Lemmas.Except
import Hpl.Props.C03
/-!
# C07 — parsing never fails in undocumented ways (validator layer)

The `assert`s and unchecked lookups of `hpl.ast` are `Err.internal` / `Err.key` outcomes of the model. The theorems show
that construction from any untyped tree only ever fails with a documented class. Lark's own engine, recursion limits and
hidden state of a parser object are outside the model and carried by the correspondence / history stream.
-/
namespace Hpl

/-- documented failure classes of the parser entry points -/
def Err.documented : Err → Prop
  | .syntax | .sanity | .type | .value => True
  | _ => False

theorem castE_err {e : Expr} {t : DataType} {x : Err} (h : castE e t = .error x) : x = .type := by
  unfold castE at h; simp only at h
  split at h
  · cases h; rfl
  · split at h <;> cases h

theorem castList_err : ∀ {t : DataType} {vs : ExprList} {x : Err}, castList t vs = .error x → x = .type
  | _, .nil, x, h => by simp [castList] at h
  | t, .cons e es, x, h => by
      simp only [castList] at h
      rcases bind_err h with h1 | ⟨_, _, h⟩
      · exact castE_err h1
      · rcases bind_err h with h2 | ⟨_, _, h⟩
        · exact castList_err h2
        · cases h

theorem castArgs_err : ∀ {args : ExprList} {ts : List DataType} {x : Err}, castArgs args ts = .error x → x = .type
  | .nil, ts, x, h => by cases ts <;> simp [castArgs] at h
  | .cons e es, [], x, h => by simp [castArgs] at h
  | .cons e es, t :: ts, x, h => by
      simp only [castArgs] at h
      rcases bind_err h with h1 | ⟨_, _, h⟩
      · exact castE_err h1
      · rcases bind_err h with h2 | ⟨_, _, h⟩
        · exact castArgs_err h2
        · cases h

theorem quantBodyCheck_err (x : String) (t : DataType) : ∀ (l : List Expr) (used : Nat) (e : Err),
    quantBodyCheck x t l used = .error e → e = .type ∨ e = .sanity := by
  intro l
  induction l with
  | nil => intro used e h; simp [quantBodyCheck] at h
  | cons n rest ih =>
    intro used e h
    cases n with
    | quant _ _ y _ _ =>
      simp only [quantBodyCheck] at h
      split at h
      · cases h; right; rfl
      · exact ih _ _ h
    | var ty y =>
      simp only [quantBodyCheck] at h
      split at h
      · split at h
        · cases h; left; rfl
        · exact ih _ _ h
      · exact ih _ _ h
    | _ => simp only [quantBodyCheck] at h; exact ih _ _ h

theorem mkQuant_err {q : Quant} {x : String} {d b : Expr} {e : Err} (h : mkQuant q x d b = .error e) : e = .type ∨ e = .sanity := by
  unfold mkQuant at h
  rcases bind_err h with h1 | ⟨_, _, h⟩
  · left; exact castE_err h1
  · rcases bind_err h with h2 | ⟨_, _, h⟩
    · left; exact castE_err h2
    · split at h
      · cases h; right; rfl
      · rcases bind_err h with h3 | ⟨_, _, h⟩
        · exact quantBodyCheck_err _ _ _ _ _ h3
        · split at h
          · cases h; right; rfl
          · cases h

theorem mkUn_err {op : String} {a : Expr} {e : Err} (h : mkUn op a = .error e) : e = .type ∨ e = .value := by
  unfold mkUn at h
  split at h
  · cases h; right; rfl
  · rcases bind_err h with h1 | ⟨_, _, h⟩
    · left; exact castE_err h1
    · cases h

theorem mkBin_err {op : String} {a b : Expr} {e : Err} (h : mkBin op a b = .error e) : e = .type ∨ e = .value := by
  unfold mkBin at h
  split at h
  · cases h; right; rfl
  · rcases bind_err h with h1 | ⟨_, _, h⟩
    · left; exact castE_err h1
    · rcases bind_err h with h2 | ⟨_, _, h⟩
      · left; exact castE_err h2
      · split at h
        · rcases bind_err h with h3 | ⟨_, _, h⟩
          · left; exact castE_err h3
          · rcases bind_err h with h4 | ⟨_, _, h⟩
            · left; exact castE_err h4
            · cases h
        · cases h

theorem mkCall_err {f : String} {args : ExprList} {e : Err} (h : mkCall f args = .error e) : e = .type ∨ e = .value := by
  unfold mkCall at h
  split at h
  · cases h; right; rfl
  · split at h
    · cases h; left; rfl
    · rcases bind_err h with h1 | ⟨_, _, h⟩
      · left; exact castArgs_err h1
      · cases h
    · cases h

theorem mkFieldT_err {t : DataType} {m : Expr} {n : String} {e : Err} (h : mkFieldT t m n = .error e) : e = .type := by
  unfold mkFieldT at h
  split at h
  · cases h; rfl
  · rcases bind_err h with h1 | ⟨_, _, h⟩
    · exact castE_err h1
    · cases h

theorem mkIndexT_err {t : DataType} {a i : Expr} {e : Err} (h : mkIndexT t a i = .error e) : e = .type := by
  unfold mkIndexT at h
  split at h
  · cases h; rfl
  · rcases bind_err h with h1 | ⟨_, _, h⟩
    · exact castE_err h1
    · rcases bind_err h with h2 | ⟨_, _, h⟩
      · exact castE_err h2
      · cases h

mutual
/-- **C07 (validator layer)**: building an AST from any untyped tree fails only with TypeError, a sanity error or
    ValueError (unknown operator / function) — never with an internal failure -/
theorem build_err_documented : ∀ (r : Raw) (x : Err), build r = .error x → x = .type ∨ x = .sanity ∨ x = .value
  | .lit .., x, h => by simp [build] at h
  | .this, x, h => by simp [build] at h
  | .var _, x, h => by simp [build] at h
  | .set vs, x, h => by
      simp only [build] at h
      rcases bind_err h with h1 | ⟨_, _, h⟩
      · exact buildList_err_documented vs x h1
      · unfold mkSet at h
        rcases bind_err h with h2 | ⟨_, _, h⟩
        · left; exact castList_err h2
        · cases h
  | .range lo hi a b, x, h => by
      simp only [build] at h
      rcases bind_err h with h1 | ⟨_, _, h⟩
      · exact build_err_documented lo x h1
      · rcases bind_err h with h2 | ⟨_, _, h⟩
        · exact build_err_documented hi x h2
        · unfold mkRange at h
          rcases bind_err h with h3 | ⟨_, _, h⟩
          · left; exact castE_err h3
          · rcases bind_err h with h4 | ⟨_, _, h⟩
            · left; exact castE_err h4
            · cases h
  | .quant q v d b, x, h => by
      simp only [build] at h
      rcases bind_err h with h1 | ⟨_, _, h⟩
      · exact build_err_documented d x h1
      · rcases bind_err h with h2 | ⟨_, _, h⟩
        · exact build_err_documented b x h2
        · rcases mkQuant_err h with h | h
          · left; exact h
          · right; left; exact h
  | .un op a, x, h => by
      simp only [build] at h
      rcases bind_err h with h1 | ⟨_, _, h⟩
      · exact build_err_documented a x h1
      · rcases mkUn_err h with h | h
        · left; exact h
        · right; right; exact h
  | .bin op a b, x, h => by
      simp only [build] at h
      rcases bind_err h with h1 | ⟨_, _, h⟩
      · exact build_err_documented a x h1
      · rcases bind_err h with h2 | ⟨_, _, h⟩
        · exact build_err_documented b x h2
        · rcases mkBin_err h with h | h
          · left; exact h
          · right; right; exact h
  | .call f args, x, h => by
      simp only [build] at h
      rcases bind_err h with h1 | ⟨_, _, h⟩
      · exact buildList_err_documented args x h1
      · rcases mkCall_err h with h | h
        · left; exact h
        · right; right; exact h
  | .field m n, x, h => by
      simp only [build] at h
      rcases bind_err h with h1 | ⟨_, _, h⟩
      · exact build_err_documented m x h1
      · left; exact mkFieldT_err h
  | .index a i, x, h => by
      simp only [build] at h
      rcases bind_err h with h1 | ⟨_, _, h⟩
      · exact build_err_documented a x h1
      · rcases bind_err h with h2 | ⟨_, _, h⟩
        · exact build_err_documented i x h2
        · left; exact mkIndexT_err h
theorem buildList_err_documented : ∀ (rs : RawList) (x : Err), buildList rs = .error x → x = .type ∨ x = .sanity ∨ x = .value
  | .nil, x, h => by simp [buildList] at h
  | .cons r rs, x, h => by
      simp only [buildList] at h
      rcases bind_err h with h1 | ⟨_, _, h⟩
      · exact build_err_documented r x h1
      · rcases bind_err h with h2 | ⟨_, _, h⟩
        · exact buildList_err_documented rs x h2
        · cases h
end

/-- the assertion of `predicate_from_expression` (a literal that can be boolean holds a bool) cannot fail on built trees -/
theorem predFromExpr_err_documented (e : Expr) (hw : WT e) (x : Err) (h : predFromExpr e = .error x) : x = .type := by
  unfold predFromExpr at h
  split at h
  · cases h; rfl
  · rename_i hb
    split at h
    · cases h
    · -- a well-typed literal whose type meets BOOL is a boolean literal
      rename_i t k v hnb
      exfalso
      have : t = v.ty := hw
      subst this
      cases v with
      | bool b => exact hnb b rfl
      | int n => exact hb (by simp [Expr.ty, LitVal.ty]; decide)
      | flt q => exact hb (by simp [Expr.ty, LitVal.ty]; decide)
      | inf => exact hb (by simp [Expr.ty, LitVal.ty]; decide)
      | ninf => exact hb (by simp [Expr.ty, LitVal.ty]; decide)
      | nan => exact hb (by simp [Expr.ty, LitVal.ty]; decide)
      | str s => exact hb (by simp [Expr.ty, LitVal.ty]; decide)
    · unfold mkPred at h
      rcases bind_err h with h1 | ⟨_, _, h⟩
      · exact castE_err h1
      · split at h
        · cases h
        · cases h; rfl

/-- **C07**: the predicate and expression entry points of the model fail only with documented classes -/
theorem parseExpression_documented (s : String) (x : Err) (h : parseExpression s = .error x) : x.documented := by
  unfold parseExpression at h
  split at h
  · cases h; trivial
  · split at h
    · cases h; trivial
    · rcases build_err_documented _ _ h with h | h | h <;> subst h <;> trivial

theorem parsePredicate_documented (s : String) (x : Err) (h : parsePredicate s = .error x) : x.documented := by
  unfold parsePredicate at h
  split at h
  · cases h; trivial
  · split at h
    · cases h; trivial
    · rename_i r _
      rcases bind_err h with h1 | ⟨e, he, h⟩
      · rcases build_err_documented _ _ h1 with h | h | h <;> subst h <;> trivial
      · have := predFromExpr_err_documented e (build_WT r e he) x h
        subst this; trivial

end Hpl
