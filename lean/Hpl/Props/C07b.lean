import Hpl.Props.C07
import Hpl.Props.C02
import Hpl.Lemmas.QuantOK
/-!
# C07, property level — `parse_property` / `parse_specification` fail only with documented classes

The remaining internal outcomes of the model (`assert len(children) >= 2` of the disjunction callback, the `KeyError` of
`set.remove` in the quantifier's `external_references`) are shown unreachable from what the grammar produces:
a disjunction is written with at least two alternatives and an alias is a non-empty name (`RawProperty.WF`).
-/
namespace Hpl

def Doc3 (x : Err) : Prop := x = .type ∨ x = .sanity ∨ x = .value

theorem Doc3.documented {x : Err} (h : Doc3 x) : x.documented := by
  rcases h with h | h | h <;> subst h <;> trivial

theorem mkPred_err {e : Expr} {x : Err} (h : mkPred e = .error x) : x = .type := by
  unfold mkPred at h
  rcases bind_err h with h1 | ⟨_, _, h⟩
  · exact castE_err h1
  · split at h
    · cases h
    · cases h; rfl

mutual
/-- `replace` re-enters the constructors of the changed parents: it fails only as they do -/
theorem substE_err (test : Expr → Bool) (other : Expr) : ∀ (e : Expr) (x : Err), substE test other e = .error x → Doc3 x
  | .lit .., x, h => by simp [substE] at h
  | .this .., x, h => by simp [substE] at h
  | .var .., x, h => by simp [substE] at h
  | .set t vs, x, h => by
      simp only [substE] at h
      split at h
      · cases h
      · rcases bind_err h with h1 | ⟨vs', _, h⟩
        · exact substL_err test other vs x h1
        · split at h
          · cases h
          · rcases bind_err h with h2 | ⟨_, _, h⟩
            · exact Or.inl (castList_err h2)
            · cases h
  | .range t lo hi a b, x, h => by
      simp only [substE] at h
      split at h
      · cases h
      · rcases bind_err h with h1 | ⟨lo', _, h⟩
        · exact substE_err test other lo x h1
        · rcases bind_err h with h2 | ⟨hi', _, h⟩
          · exact substE_err test other hi x h2
          · split at h
            · cases h
            · rcases bind_err h with h3 | ⟨_, _, h⟩
              · exact Or.inl (castE_err h3)
              · rcases bind_err h with h4 | ⟨_, _, h⟩
                · exact Or.inl (castE_err h4)
                · cases h
  | .quant t q y d b, x, h => by
      simp only [substE] at h
      split at h
      · cases h
      · rcases bind_err h with h1 | ⟨d', _, h⟩
        · exact substE_err test other d x h1
        · rcases bind_err h with h2 | ⟨b', _, h⟩
          · exact substE_err test other b x h2
          · split at h
            · cases h
            · rcases mkQuant_err h with r | r
              · exact Or.inl r
              · exact Or.inr (Or.inl r)
  | .un t op a, x, h => by
      simp only [substE] at h
      split at h
      · cases h
      · rcases bind_err h with h1 | ⟨a', _, h⟩
        · exact substE_err test other a x h1
        · split at h
          · cases h
          · rcases mkUn_err h with r | r
            · exact Or.inl r
            · exact Or.inr (Or.inr r)
  | .bin t op a b, x, h => by
      simp only [substE] at h
      split at h
      · cases h
      · rcases bind_err h with h1 | ⟨a', _, h⟩
        · exact substE_err test other a x h1
        · rcases bind_err h with h2 | ⟨b', _, h⟩
          · exact substE_err test other b x h2
          · split at h
            · cases h
            · rcases mkBin_err h with r | r
              · exact Or.inl r
              · exact Or.inr (Or.inr r)
  | .call t f as, x, h => by
      simp only [substE] at h
      split at h
      · cases h
      · rcases bind_err h with h1 | ⟨as', _, h⟩
        · exact substL_err test other as x h1
        · split at h
          · cases h
          · rcases mkCall_err h with r | r
            · exact Or.inl r
            · exact Or.inr (Or.inr r)
  | .field t m n, x, h => by
      simp only [substE] at h
      split at h
      · cases h
      · rcases bind_err h with h1 | ⟨m', _, h⟩
        · exact substE_err test other m x h1
        · split at h
          · cases h
          · exact Or.inl (mkFieldT_err h)
  | .index t a i, x, h => by
      simp only [substE] at h
      split at h
      · cases h
      · rcases bind_err h with h1 | ⟨a', _, h⟩
        · exact substE_err test other a x h1
        · rcases bind_err h with h2 | ⟨i', _, h⟩
          · exact substE_err test other i x h2
          · split at h
            · cases h
            · exact Or.inl (mkIndexT_err h)
theorem substL_err (test : Expr → Bool) (other : Expr) : ∀ (es : ExprList) (x : Err), substL test other es = .error x → Doc3 x
  | .nil, x, h => by simp [substL] at h
  | .cons e es, x, h => by
      simp only [substL] at h
      rcases bind_err h with h1 | ⟨_, _, h⟩
      · exact substE_err test other e x h1
      · rcases bind_err h with h2 | ⟨_, _, h⟩
        · exact substL_err test other es x h2
        · cases h
end

mutual
/-- the capture-avoiding variable replacement fails only as the constructors of the changed parents do -/
theorem substV_err (nm : String) (other : Expr) : ∀ (e : Expr) (x : Err), substV nm other e = .error x → Doc3 x
  | .lit .., x, h => by simp [substV] at h
  | .this .., x, h => by simp [substV] at h
  | .var .., x, h => by simp [substV] at h
  | .set t vs, x, h => by
      simp only [substV] at h
      rcases bind_err h with h1 | ⟨vs', _, h⟩
      · exact substVL_err nm other vs x h1
      · split at h
        · cases h
        · rcases bind_err h with h2 | ⟨_, _, h⟩
          · exact Or.inl (castList_err h2)
          · cases h
  | .range t lo hi a b, x, h => by
      simp only [substV] at h
      rcases bind_err h with h1 | ⟨lo', _, h⟩
      · exact substV_err nm other lo x h1
      · rcases bind_err h with h2 | ⟨hi', _, h⟩
        · exact substV_err nm other hi x h2
        · split at h
          · cases h
          · rcases bind_err h with h3 | ⟨_, _, h⟩
            · exact Or.inl (castE_err h3)
            · rcases bind_err h with h4 | ⟨_, _, h⟩
              · exact Or.inl (castE_err h4)
              · cases h
  | .quant t q y d b, x, h => by
      simp only [substV] at h
      split at h
      · cases h
      rcases bind_err h with h1 | ⟨d', _, h⟩
      · exact substV_err nm other d x h1
      · rcases bind_err h with h2 | ⟨b', _, h⟩
        · exact substV_err nm other b x h2
        · split at h
          · cases h
          · rcases mkQuant_err h with r | r
            · exact Or.inl r
            · exact Or.inr (Or.inl r)
  | .un t op a, x, h => by
      simp only [substV] at h
      rcases bind_err h with h1 | ⟨a', _, h⟩
      · exact substV_err nm other a x h1
      · split at h
        · cases h
        · rcases mkUn_err h with r | r
          · exact Or.inl r
          · exact Or.inr (Or.inr r)
  | .bin t op a b, x, h => by
      simp only [substV] at h
      rcases bind_err h with h1 | ⟨a', _, h⟩
      · exact substV_err nm other a x h1
      · rcases bind_err h with h2 | ⟨b', _, h⟩
        · exact substV_err nm other b x h2
        · split at h
          · cases h
          · rcases mkBin_err h with r | r
            · exact Or.inl r
            · exact Or.inr (Or.inr r)
  | .call t f as, x, h => by
      simp only [substV] at h
      rcases bind_err h with h1 | ⟨as', _, h⟩
      · exact substVL_err nm other as x h1
      · split at h
        · cases h
        · rcases mkCall_err h with r | r
          · exact Or.inl r
          · exact Or.inr (Or.inr r)
  | .field t m n, x, h => by
      simp only [substV] at h
      rcases bind_err h with h1 | ⟨m', _, h⟩
      · exact substV_err nm other m x h1
      · split at h
        · cases h
        · exact Or.inl (mkFieldT_err h)
  | .index t a i, x, h => by
      simp only [substV] at h
      rcases bind_err h with h1 | ⟨a', _, h⟩
      · exact substV_err nm other a x h1
      · rcases bind_err h with h2 | ⟨i', _, h⟩
        · exact substV_err nm other i x h2
        · split at h
          · cases h
          · exact Or.inl (mkIndexT_err h)
theorem substVL_err (nm : String) (other : Expr) : ∀ (es : ExprList) (x : Err), substVL nm other es = .error x → Doc3 x
  | .nil, x, h => by simp [substVL] at h
  | .cons e es, x, h => by
      simp only [substVL] at h
      rcases bind_err h with h1 | ⟨_, _, h⟩
      · exact substV_err nm other e x h1
      · rcases bind_err h with h2 | ⟨_, _, h⟩
        · exact substVL_err nm other es x h2
        · cases h
end


theorem Pred.replaceVar_err {p : Pred} {a : String} {other : Expr} {x : Err} (h : p.replaceVar a other = .error x) : Doc3 x := by
  unfold Pred.replaceVar at h
  cases p with
  | expr e =>
    simp only at h
    rcases bind_err h with h1 | ⟨e', _, h⟩
    · exact substV_err _ _ e x h1
    · split at h
      · cases h
      · exact Or.inl (mkPred_err h)
  | vtrue => cases h
  | vfalse => cases h

theorem mkSimpleEvent_err {n : String} {a : Option String} {p : Pred} {x : Err} (h : mkSimpleEvent n a p = .error x) : Doc3 x := by
  unfold mkSimpleEvent at h
  cases a with
  | none => cases h
  | some al =>
    simp only at h
    split at h
    · rcases bind_err h with h1 | ⟨_, _, h⟩
      · exact Pred.replaceVar_err h1
      · cases h
    · cases h

/-- **C07**: the event callback fails only with a type, sanity or value error -/
theorem buildSimple_err {s : RawSimple} {x : Err} (h : buildSimple s = .error x) : Doc3 x := by
  unfold buildSimple at h
  rcases bind_err h with h1 | ⟨p, _, h⟩
  · cases hp : s.pred with
    | none => rw [hp] at h1; cases h1
    | some r =>
      rw [hp] at h1
      simp only at h1
      rcases bind_err h1 with h2 | ⟨e, he, h1⟩
      · exact build_err_documented r x h2
      · exact Or.inl (predFromExpr_err_documented e (build_WT r e he) x h1)
  · exact mkSimpleEvent_err h

theorem mapM_buildSimple_err : ∀ {alts : List RawSimple} {x : Err}, alts.mapM buildSimple = .error x → Doc3 x
  | [], x, h => by simp [List.mapM_nil, pure, Except.pure] at h
  | s :: rest, x, h => by
      rw [List.mapM_cons] at h
      rcases bind_err h with h1 | ⟨_, _, h⟩
      · exact buildSimple_err h1
      · rcases bind_err h with h2 | ⟨_, _, h⟩
        · exact mapM_buildSimple_err h2
        · cases h

theorem nestDisj_err : ∀ {evs : List Event} {x : Err}, evs ≠ [] → nestDisj evs = .error x → x = .sanity
  | [], _, hne, _ => absurd rfl hne
  | [e], x, _, h => by simp [nestDisj] at h
  | [a, b], x, _, h => by simp only [nestDisj] at h; exact mkDisj_err a b x h
  | a :: b :: c :: rest, x, _, h => by
      simp only [nestDisj] at h
      rcases bind_err h with h1 | ⟨r, _, h⟩
      · exact nestDisj_err (by simp) h1
      · exact mkDisj_err a r x h

theorem mapM_ok_length {α β : Type} {f : α → M β} : ∀ {l : List α} {r : List β}, l.mapM f = .ok r → r.length = l.length
  | [], r, h => by simp [List.mapM_nil, pure, Except.pure] at h; subst h; rfl
  | a :: l, r, h => by
      rw [List.mapM_cons] at h
      obtain ⟨b, _, h⟩ := bind_ok h
      obtain ⟨bs, hbs, h⟩ := bind_ok h
      cases h
      simp [mapM_ok_length hbs]

/-- a written event: a disjunction lists at least two alternatives -/
def RawEvent.WF : RawEvent → Prop
  | .simple _ => True
  | .disj alts => 2 ≤ alts.length

theorem buildEvent_err {ev : RawEvent} {x : Err} (hw : ev.WF) (h : buildEvent ev = .error x) : Doc3 x := by
  cases ev with
  | simple s => exact buildSimple_err h
  | disj alts =>
    simp only [buildEvent] at h
    rcases bind_err h with h1 | ⟨evs, hevs, h⟩
    · exact mapM_buildSimple_err h1
    · have hlen := mapM_ok_length hevs
      have h2 : ¬ evs.length < 2 := by rw [hlen]; exact Nat.not_lt.mpr hw
      simp only [h2, ↓reduceIte] at h
      exact Or.inr (Or.inl (nestDisj_err (by intro he; rw [he] at h2; simp at h2) h))

theorem buildOptEvent_err {ev : Option RawEvent} {x : Err} (hw : ∀ e, ev = some e → e.WF) (h : buildOptEvent ev = .error x) : Doc3 x := by
  cases ev with
  | none => cases h
  | some e =>
    simp only [buildOptEvent] at h
    rcases bind_err h with h1 | ⟨_, _, h⟩
    · exact buildEvent_err (hw e rfl) h1
    · cases h


/-! ## the events the callbacks build satisfy the invariant the sanity check relies on -/

def RawSimple.aliasOK (s : RawSimple) : Prop := ∀ a, s.alias = some a → a ≠ ""

def RawEvent.aliasesOK : RawEvent → Prop
  | .simple s => s.aliasOK
  | .disj alts => ∀ s ∈ alts, s.aliasOK

theorem mapM_buildSimple_EvOK : ∀ {alts : List RawSimple} {evs : List Event}, alts.mapM buildSimple = .ok evs →
    (∀ s ∈ alts, s.aliasOK) → ∀ e ∈ evs, EvOK e
  | [], evs, h, _ => by simp [List.mapM_nil, pure, Except.pure] at h; subst h; intro e he; cases he
  | s :: rest, evs, h, ha => by
      rw [List.mapM_cons] at h
      obtain ⟨e0, he0, h⟩ := bind_ok h
      obtain ⟨es, hes, h⟩ := bind_ok h
      cases h
      intro e he
      rcases List.mem_cons.1 he with rfl | he
      · exact buildSimple_EvOK he0 (ha s List.mem_cons_self)
      · exact mapM_buildSimple_EvOK hes (fun s' hs' => ha s' (List.mem_cons_of_mem _ hs')) e he

theorem EvOK_disj {a b : Event} (ha : EvOK a) (hb : EvOK b) : EvOK (.disj a b) := by
  refine ⟨⟨ha.1, hb.1⟩, ?_⟩
  intro x hx
  simp only [Event.aliases, List.mem_append] at hx
  rcases hx with hx | hx
  · exact ha.2 x hx
  · exact hb.2 x hx

theorem nestDisj_EvOK : ∀ {evs : List Event} {e : Event}, nestDisj evs = .ok e → (∀ x ∈ evs, EvOK x) → EvOK e
  | [], e, h, _ => by simp [nestDisj] at h
  | [a], e, h, hall => by simp only [nestDisj] at h; cases h; exact hall a (by simp)
  | [a, b], e, h, hall => by
      simp only [nestDisj] at h
      obtain ⟨_, rfl⟩ := (mkDisj_ok_iff a b e).1 h
      exact EvOK_disj (hall a (by simp)) (hall b (by simp))
  | a :: b :: c :: rest, e, h, hall => by
      simp only [nestDisj] at h
      obtain ⟨r, hr, h⟩ := bind_ok h
      obtain ⟨_, rfl⟩ := (mkDisj_ok_iff a r e).1 h
      exact EvOK_disj (hall a (by simp)) (nestDisj_EvOK hr (fun x hx => hall x (List.mem_cons_of_mem _ hx)))

theorem buildEvent_EvOK {ev : RawEvent} {e : Event} (h : buildEvent ev = .ok e) (ha : ev.aliasesOK) : EvOK e := by
  cases ev with
  | simple s => exact buildSimple_EvOK h ha
  | disj alts =>
    simp only [buildEvent] at h
    obtain ⟨evs, hevs, h⟩ := bind_ok h
    split at h
    · cases h
    · exact nestDisj_EvOK h (mapM_buildSimple_EvOK hevs ha)

theorem buildOptEvent_EvOK {ev : Option RawEvent} {e : Option Event} (h : buildOptEvent ev = .ok e)
    (ha : ∀ r, ev = some r → r.aliasesOK) : ∀ x, e = some x → EvOK x := by
  cases ev with
  | none => simp only [buildOptEvent] at h; cases h; intro x hx; cases hx
  | some r =>
    simp only [buildOptEvent] at h
    obtain ⟨e', he', h⟩ := bind_ok h
    cases h
    intro x hx; cases hx
    exact buildEvent_EvOK he' (ha r rfl)

/-- what the grammar guarantees of a property as written: disjunctions of at least two alternatives, non-empty aliases -/
def RawProperty.WF (r : RawProperty) : Prop :=
  r.behaviour.WF ∧ r.behaviour.aliasesOK ∧
  (∀ e, r.activator = some e → e.WF ∧ e.aliasesOK) ∧
  (∀ e, r.terminator = some e → e.WF ∧ e.aliasesOK) ∧
  (∀ e, r.trigger = some e → e.WF ∧ e.aliasesOK)

theorem mkScope_err {k : ScopeKind} {a t : Option Event} {x : Err} (h : mkScope k a t = .error x) : x = .value := by
  unfold mkScope at h
  split at h
  · cases h; rfl
  · split at h <;> cases h; rfl

theorem mkPattern_err {k : PatternKind} {b : Event} {t : Option Event} {mn : Rat} {mx : Option Rat} {x : Err}
    (h : mkPattern k b t mn mx = .error x) : x = .value := by
  unfold mkPattern at h
  split at h
  · cases h; rfl
  · split at h
    · cases h; rfl
    · split at h
      · split at h <;> cases h; rfl
      · cases h

theorem mkScope_ok {k : ScopeKind} {a t : Option Event} {s : Scope} (h : mkScope k a t = .ok s) : s = ⟨k, a, t⟩ := by
  unfold mkScope at h
  split at h
  · cases h
  · split at h <;> cases h; rfl

theorem mkPattern_ok {k : PatternKind} {b : Event} {t : Option Event} {mn : Rat} {mx : Option Rat} {p : Pattern}
    (h : mkPattern k b t mn mx = .ok p) : p = ⟨k, b, t, mn, mx⟩ ∧ k.hasTrigger = t.isSome := by
  unfold mkPattern at h
  split at h
  · cases h
  · rename_i hk
    have hk' : k.hasTrigger = t.isSome := by
      cases hh : k.hasTrigger <;> cases ht : t.isSome <;> simp_all
    split at h
    · cases h
    · split at h
      · split at h
        · cases h
        · cases h; exact ⟨rfl, hk'⟩
      · cases h; exact ⟨rfl, hk'⟩

/-- **C07**: building a property from what the grammar produces fails only with a documented class
    (syntax: duplicate annotation key; type / sanity / value from the constructors and the sanity check) -/
theorem buildProperty_documented (r : RawProperty) (hw : r.WF) (x : Err) (h : buildProperty r = .error x) : x.documented := by
  obtain ⟨hbw, hba, hact, hterm, htrig⟩ := hw
  unfold buildProperty at h
  rcases bind_err h with h0 | ⟨_, _, h⟩
  · unfold checkMetadata at h0; split at h0 <;> cases h0; trivial
  rcases bind_err h with h1 | ⟨act, hact', h⟩
  · exact (buildOptEvent_err (fun e he => (hact e he).1) h1).documented
  rcases bind_err h with h2 | ⟨term, hterm', h⟩
  · exact (buildOptEvent_err (fun e he => (hterm e he).1) h2).documented
  rcases bind_err h with h3 | ⟨scope, hscope, h⟩
  · rw [mkScope_err h3]; trivial
  rcases bind_err h with h4 | ⟨⟨beh, trig⟩, hbt, h⟩
  · -- the two events of the pattern, in the order they are written
    cases hk : r.patternKind <;> rw [hk] at h4 <;> simp only at h4
    all_goals
      rcases bind_err h4 with h5 | ⟨_, _, h4⟩
      · first
          | exact (buildEvent_err hbw h5).documented
          | exact (buildOptEvent_err (fun e he => (htrig e he).1) h5).documented
      · rcases bind_err h4 with h6 | ⟨_, _, h4⟩
        · first
            | exact (buildEvent_err hbw h6).documented
            | exact (buildOptEvent_err (fun e he => (htrig e he).1) h6).documented
        · cases h4
  have hbeh : EvOK beh ∧ ∀ t, trig = some t → EvOK t := by
    cases hk : r.patternKind <;> rw [hk] at hbt <;> simp only at hbt
    all_goals
      obtain ⟨u, hu, hbt⟩ := bind_ok hbt
      obtain ⟨v, hv, hbt⟩ := bind_ok hbt
      cases hbt
      first
        | exact ⟨buildEvent_EvOK hu hba, buildOptEvent_EvOK hv (fun e he => (htrig e he).2)⟩
        | exact ⟨buildEvent_EvOK hv hba, buildOptEvent_EvOK hu (fun e he => (htrig e he).2)⟩
  rcases bind_err h with h7 | ⟨pat, hpat, h⟩
  · rw [mkPattern_err h7]; trivial
  unfold mkProperty at h
  rcases bind_err h with h8 | ⟨_, _, h⟩
  · have hs := mkScope_ok hscope
    obtain ⟨hp, hkt⟩ := mkPattern_ok hpat
    subst hs; subst hp
    have hsok : ScopeOK ⟨r.scopeKind, act, term⟩ :=
      ⟨buildOptEvent_EvOK hact' (fun e he => (hact e he).2), buildOptEvent_EvOK hterm' (fun e he => (hterm e he).2)⟩
    have hpok : PatOK ⟨r.patternKind, beh, trig, 0, r.maxTime.map timeSeconds⟩ := hbeh
    have := sanityCheck_err _ _ hsok hpok hkt x h8
    rw [this]; trivial
  · cases h

theorem mapM_buildProperty_documented : ∀ (rs : List RawProperty), (∀ r ∈ rs, r.WF) → ∀ x, rs.mapM buildProperty = .error x → x.documented
  | [], _, x, h => by simp [List.mapM_nil, pure, Except.pure] at h
  | r :: rs, hw, x, h => by
      rw [List.mapM_cons] at h
      rcases bind_err h with h1 | ⟨_, _, h⟩
      · exact buildProperty_documented r (hw r List.mem_cons_self) x h1
      · rcases bind_err h with h2 | ⟨_, _, h⟩
        · exact mapM_buildProperty_documented rs (fun r' hr' => hw r' (List.mem_cons_of_mem _ hr')) x h2
        · cases h

/-- **C07**: a specification file fails only with a documented class -/
theorem buildSpec_documented (rs : List RawProperty) (hw : ∀ r ∈ rs, r.WF) (x : Err) (h : buildSpec rs = .error x) : x.documented := by
  unfold buildSpec at h
  split at h
  · cases h; trivial
  · exact mapM_buildProperty_documented rs hw x h

end Hpl
