import Hpl.Props.C07b
/-!
# C07 — what the property-level parser produces is well formed, hence `parse_property` / `parse_specification`
  fail only with documented classes (no hypothesis left)
-/
namespace Hpl

theorem bindU_ok {α β : Type} {x : PR α} {f : α → PR β} {b : β} (h : (x >>= f) = .ok b) : ∃ a, x = .ok a ∧ f a = .ok b := by
  cases x with
  | error e => simp [bind, Except.bind] at h
  | ok a => exact ⟨a, rfl, by simpa [bind, Except.bind] using h⟩

theorem isCName_ne_empty {s : String} (h : isCName s = true) : s ≠ "" := by
  intro hs; subst hs; simp [isCName] at h

/-- the alias an event is given is a `CNAME`, hence non-empty -/
theorem pEvent_aliasOK {ts : List Tok} {s : RawSimple} {r : List Tok} (h : pEvent ts = .ok (s, r)) : s.aliasOK := by
  unfold pEvent at h
  cases ts with
  | nil => cases h
  | cons n rest =>
    simp only at h
    split at h
    · -- in every successful branch the stored alias is `none` or a token text that passed `isCName`
      have key : s.alias = none ∨ ∃ x, s.alias = some x ∧ isCName x = true := by
        cases rest with
        | nil =>
          simp only at h
          cases h; exact Or.inl rfl
        | cons a r1 =>
          cases r1 with
          | nil =>
            simp only at h
            split at h
            · cases h
            · split at h
              · obtain ⟨⟨p, r'⟩, _, h⟩ := bindU_ok h
                cases h; exact Or.inl rfl
              · cases h; exact Or.inl rfl
          | cons v r2 =>
            simp only at h
            by_cases hc : (isKw a "as" && v.kind == TokKind.word && isCName v.text) = true
            · simp only [hc, ↓reduceIte] at h
              have hcn : isCName v.text = true := by simp only [Bool.and_eq_true] at hc; exact hc.2
              cases r2 with
              | nil => simp only at h; cases h; exact Or.inr ⟨_, rfl, hcn⟩
              | cons b r3 =>
                simp only at h
                split at h
                · obtain ⟨⟨p, r'⟩, _, h⟩ := bindU_ok h
                  cases h; exact Or.inr ⟨_, rfl, hcn⟩
                · cases h; exact Or.inr ⟨_, rfl, hcn⟩
            · simp only [hc, Bool.false_eq_true, ↓reduceIte] at h
              split at h
              · cases h
              · split at h
                · obtain ⟨⟨p, r'⟩, _, h⟩ := bindU_ok h
                  cases h; exact Or.inl rfl
                · cases h; exact Or.inl rfl
      intro a ha
      rcases key with k | ⟨x, k, hx⟩
      · rw [k] at ha; cases ha
      · rw [k] at ha; cases ha; exact isCName_ne_empty hx
    · cases h

theorem pDisjTail_WF : ∀ (f : Nat) (acc : List RawSimple) (ts : List Tok) (ev : RawEvent) (r : List Tok),
    pDisjTail f acc ts = .ok (ev, r) → (∀ s ∈ acc, s.aliasOK) → ev.WF ∧ ev.aliasesOK
  | 0, _, _, _, _, h, _ => by cases h
  | f+1, acc, ts, ev, r, h, hacc => by
      simp only [pDisjTail] at h
      obtain ⟨⟨e, ts1⟩, he, h⟩ := bindU_ok h
      have hea := pEvent_aliasOK he
      simp only at h
      cases ts1 with
      | nil => cases h
      | cons t rest =>
        simp only at h
        split at h
        · exact pDisjTail_WF f (e :: acc) rest ev r h (by
            intro s hs
            rcases List.mem_cons.1 hs with rfl | hs
            · exact hea
            · exact hacc s hs)
        · split at h
          · split at h
            · cases h
            · rename_i hne
              cases h
              refine ⟨?_, ?_⟩
              · simp only [RawEvent.WF, List.length_reverse, List.length_cons]
                cases acc with
                | nil => simp at hne
                | cons _ _ => simp
              · intro s hs
                simp only [List.mem_reverse, List.mem_cons] at hs
                rcases hs with rfl | hs
                · exact hea
                · exact hacc s hs
          · cases h

theorem pAnyEvent_WF {ts : List Tok} {ev : RawEvent} {r : List Tok} (h : pAnyEvent ts = .ok (ev, r)) : ev.WF ∧ ev.aliasesOK := by
  unfold pAnyEvent at h
  cases ts with
  | nil => cases h
  | cons t rest =>
    simp only at h
    split at h
    · exact pDisjTail_WF _ [] rest ev r h (by intro s hs; cases hs)
    · obtain ⟨⟨e, r'⟩, he, h⟩ := bindU_ok h
      cases h
      exact ⟨trivial, pEvent_aliasOK he⟩


def OptWF (e : Option RawEvent) : Prop := ∀ x, e = some x → x.WF ∧ x.aliasesOK

theorem optWF_none : OptWF none := by intro x hx; cases hx
theorem optWF_some {e : RawEvent} (h : e.WF ∧ e.aliasesOK) : OptWF (some e) := by intro x hx; cases hx; exact h

/-- the scope part of `pProperty` -/
theorem pProperty_WF {ts : List Tok} {p : RawProperty} {r : List Tok} (h : pProperty ts = .ok (p, r)) : p.WF := by
  unfold pProperty at h
  obtain ⟨⟨md, ts1⟩, _, h⟩ := bindU_ok h
  simp only at h
  obtain ⟨⟨sk, act, term, ts2⟩, hscope, h⟩ := bindU_ok h
  simp only at h
  -- the scope events
  have hs : OptWF act ∧ OptWF term := by
    unfold pScope at hscope
    cases ts1 with
    | nil => cases hscope
    | cons t rest =>
      simp only at hscope
      split at hscope
      · cases hscope; exact ⟨optWF_none, optWF_none⟩
      · split at hscope
        · obtain ⟨⟨a, r1⟩, ha, hscope⟩ := bindU_ok hscope
          simp only at hscope
          cases r1 with
          | nil => cases hscope; exact ⟨optWF_some (pAnyEvent_WF ha), optWF_none⟩
          | cons u r2 =>
            simp only at hscope
            split at hscope
            · obtain ⟨⟨q, r3⟩, hq, hscope⟩ := bindU_ok hscope
              cases hscope
              exact ⟨optWF_some (pAnyEvent_WF ha), optWF_some (pAnyEvent_WF hq)⟩
            · cases hscope; exact ⟨optWF_some (pAnyEvent_WF ha), optWF_none⟩
        · split at hscope
          · obtain ⟨⟨q, r1⟩, hq, hscope⟩ := bindU_ok hscope
            cases hscope
            exact ⟨optWF_none, optWF_some (pAnyEvent_WF hq)⟩
          · cases hscope
  obtain ⟨hact, hterm⟩ := hs
  -- the pattern
  cases ts2 with
  | nil => cases h
  | cons c ts3 =>
    simp only at h
    split at h
    · cases h
    · unfold pPattern at h
      cases ts3 with
      | nil => cases h
      | cons t rest =>
        simp only at h
        split at h
        · obtain ⟨⟨b, r1⟩, hb, h⟩ := bindU_ok h
          obtain ⟨⟨tb, r2⟩, _, h⟩ := bindU_ok h
          cases h
          exact ⟨(pAnyEvent_WF hb).1, (pAnyEvent_WF hb).2, hact, hterm, optWF_none⟩
        · split at h
          · obtain ⟨⟨b, r1⟩, hb, h⟩ := bindU_ok h
            obtain ⟨⟨tb, r2⟩, _, h⟩ := bindU_ok h
            cases h
            exact ⟨(pAnyEvent_WF hb).1, (pAnyEvent_WF hb).2, hact, hterm, optWF_none⟩
          · obtain ⟨⟨e1, r1⟩, he1, h⟩ := bindU_ok h
            simp only at h
            cases r1 with
            | nil => cases h
            | cons k r2 =>
              simp only at h
              split at h
              · obtain ⟨⟨e2, r3⟩, he2, h⟩ := bindU_ok h
                obtain ⟨⟨tb, r4⟩, _, h⟩ := bindU_ok h
                cases h
                exact ⟨(pAnyEvent_WF he2).1, (pAnyEvent_WF he2).2, hact, hterm, optWF_some (pAnyEvent_WF he1)⟩
              · split at h
                · obtain ⟨⟨e2, r3⟩, he2, h⟩ := bindU_ok h
                  obtain ⟨⟨tb, r4⟩, _, h⟩ := bindU_ok h
                  cases h
                  exact ⟨(pAnyEvent_WF he2).1, (pAnyEvent_WF he2).2, hact, hterm, optWF_some (pAnyEvent_WF he1)⟩
                · split at h
                  · obtain ⟨⟨e2, r3⟩, he2, h⟩ := bindU_ok h
                    obtain ⟨⟨tb, r4⟩, _, h⟩ := bindU_ok h
                    cases h
                    exact ⟨(pAnyEvent_WF he1).1, (pAnyEvent_WF he1).2, hact, hterm, optWF_some (pAnyEvent_WF he2)⟩
                  · cases h

theorem parsePropertyToks_WF {ts : List Tok} {p : RawProperty} (h : parsePropertyToks ts = .ok p) : p.WF := by
  unfold parsePropertyToks at h
  obtain ⟨⟨p', rest⟩, hp, h⟩ := bindU_ok h
  simp only at h
  split at h
  · cases h; exact pProperty_WF hp
  · cases h

theorem pFile_WF : ∀ (f : Nat) (acc : List RawProperty) (ts : List Tok) (ps : List RawProperty),
    pFile f acc ts = .ok ps → (∀ p ∈ acc, p.WF) → ∀ p ∈ ps, p.WF
  | 0, _, _, _, h, _ => by cases h
  | f+1, acc, ts, ps, h, hacc => by
      simp only [pFile] at h
      obtain ⟨⟨p, rest⟩, hp, h⟩ := bindU_ok h
      simp only at h
      have hacc' : ∀ q ∈ acc ++ [p], q.WF := by
        intro q hq
        rcases List.mem_append.1 hq with hq | hq
        · exact hacc q hq
        · simp only [List.mem_singleton] at hq; subst hq; exact pProperty_WF hp
      split at h
      · cases h; exact hacc'
      · exact pFile_WF f (acc ++ [p]) rest ps h hacc'

/-- **C07**: `parse_property` (model) fails only with a documented class — no hypothesis -/
theorem parseProperty_documented (s : String) (x : Err) (h : parseProperty s = .error x) : x.documented := by
  unfold parseProperty at h
  split at h
  · cases h; trivial
  · split at h
    · cases h; trivial
    · rename_i r hr
      exact buildProperty_documented r (parsePropertyToks_WF hr) x h

/-- **C07**: `parse_specification` (model) fails only with a documented class — no hypothesis -/
theorem parseSpecification_documented (s : String) (x : Err) (h : parseSpecification s = .error x) : x.documented := by
  unfold parseSpecification at h
  split at h
  · cases h; trivial
  · split at h
    · cases h; trivial
    · rename_i rs hrs
      exact buildSpec_documented rs (pFile_WF _ [] _ rs hrs (by intro p hp; cases hp)) x h

end Hpl
