import Hpl.Spec.Eval
/-! # C08 — `simplify` preserves meaning (model and theorems in progress) -/
namespace Hpl
theorem c08_placeholder : True := trivial
end Hpl
