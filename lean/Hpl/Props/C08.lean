import Hpl.Model.Rewrite.Simplify
import Hpl.Props.C09
/-!
# C08 — `simplify` preserves meaning

Model: `Hpl/Model/Rewrite/Simplify.lean` (all rule functions of `hpl.rewrite._simplify*`, as written after the `fix:`
commits recorded in known_findings.json). Spec: `eval` / `truth` of `Hpl/Spec/Eval.lean`.

`Preserves e' e`: under every valuation on which the original `e` evaluates without error, `e'` evaluates to the same
value. This file proves the rule lemmas of the logical layer (negation, conjunction, disjunction, the `obviously
different` test, unit / idempotence / complement / de-duplication laws) and the table obligations the flip and
re-association steps rely on. The recursion over the whole term (`simplify_sound`) is stated at full strength below as
`SimplifySound`; the part proved so far is named `_partial` and says what is missing.
-/
namespace Hpl
section
variable (opq : Opaque)

/-- `e'` preserves `e`: wherever the original has a value, the rewritten form has the same value -/
def Preserves (e' e : Expr) : Prop := ∀ ρ v, evalO opq ρ e = some v → evalO opq ρ e' = some v

theorem Preserves.refl (e : Expr) : Preserves opq e e := fun _ _ h => h
theorem Preserves.trans {a b c : Expr} (h1 : Preserves opq a b) (h2 : Preserves opq b c) : Preserves opq a c :=
  fun ρ v h => h1 ρ v (h2 ρ v h)
theorem Preserves.of_like {a b : Expr} (h : EvalLike opq a b) : Preserves opq a b :=
  fun ρ v hv => by unfold evalO at *; rw [h ρ]; exact hv

/-- the statement of the property for the model (full strength) -/
def SimplifySound : Prop := ∀ e e', simplifyExpr e = .ok e' → Preserves opq e' e

/-! ## generated-table obligations (G2, G4): what the flip and re-association steps need -/

/-- operators flagged commutative are exactly these (each is semantically commutative, see `binOp_comm`); stated per member, so
    that the order of the enum is irrelevant -/
theorem G2_commutative_flags : ∀ d ∈ Gen.binOps, (d.comm = true ↔ d.token ∈ ["+", "*", "iff", "or", "and", "=", "!="]) := by decide

/-- operators flagged associative (re-associated together with their commutativity) are exactly these -/
theorem G2_associative_flags : ∀ d ∈ Gen.binOps, (d.assoc = true ↔ d.token ∈ ["+", "*", "iff", "or", "and"]) := by decide

/-- every associative operator is also flagged commutative (the re-association needs both) -/
theorem G2_assoc_implies_comm : ∀ d ∈ Gen.binOps, d.assoc = true → d.comm = true := by decide

/-- `INVERSE_OPERATORS`: self-inverse for the commutative ones, `<`/`>` and `<=`/`>=` swapped -/
theorem G4_inverse_table :
    (∀ p ∈ Gen.inverseOps, p ∈ [("+", "+"), ("*", "*"), ("and", "and"), ("or", "or"), ("iff", "iff"), ("=", "="), ("!=", "!="),
       ("<", ">"), (">", "<"), ("<=", ">="), (">=", "<=")]) ∧
    (∀ p ∈ [("+", "+"), ("*", "*"), ("and", "and"), ("or", "or"), ("iff", "iff"), ("=", "="), ("!=", "!="),
       ("<", ">"), (">", "<"), ("<=", ">="), (">=", "<=")], p ∈ Gen.inverseOps) ∧
    (Gen.inverseOps.map (·.1)).Nodup := by decide

/-- semantic content of the inverse table for the comparison operators: `a < b` is `b > a` (errors collapsed) -/
theorem binOp_inverse_lt (a b : Value) : (binOp "<" a b).toOption = (binOp ">" b a).toOption := by
  simp only [binOp]
  have h1 : ("<" == Gen.AND_OPERATOR) = false := by decide
  have h2 : ("<" == Gen.OR_OPERATOR) = false := by decide
  have h3 : ("<" == Gen.IMPLIES_OPERATOR) = false := by decide
  have h4 : ("<" == Gen.IFF_OPERATOR) = false := by decide
  have h5 : ("<" == "=") = false := by decide
  have h6 : ("<" == "!=") = false := by decide
  have g1 : (">" == Gen.AND_OPERATOR) = false := by decide
  have g2 : (">" == Gen.OR_OPERATOR) = false := by decide
  have g3 : (">" == Gen.IMPLIES_OPERATOR) = false := by decide
  have g4 : (">" == Gen.IFF_OPERATOR) = false := by decide
  have g5 : (">" == "=") = false := by decide
  have g6 : (">" == "!=") = false := by decide
  have g7 : (">" == "<") = false := by decide
  simp only [h1, h2, h3, h4, h5, h6, g1, g2, g3, g4, g5, g6, g7, Bool.false_eq_true, ↓reduceIte, beq_self_eq_true]
  cases asPrim a <;> cases asPrim b <;> rfl

theorem expr_eq_of_beq {a b : Expr} (h : (a == b) = true) : a = b := eq_of_beq h

/-! ## the `obviously different` test -/

/-- arithmetic results have no truth value -/
theorem truth_arith_none (ρ : Env) (t : DataType) (op : String) (p k : Expr) (hop : (op == "+" || op == "-") = true) (x : Bool) :
    truth opq ρ (.bin t op p k) ≠ some x := by
  intro ha
  simp only [Bool.or_eq_true] at hop
  rw [truth_eq_some] at ha
  simp only [eval] at ha
  cases hp : eval opq ρ p with
  | error e => rw [hp] at ha; simp [bind, Except.bind] at ha
  | ok vp =>
    cases hk : eval opq ρ k with
    | error e => rw [hp, hk] at ha; simp [bind, Except.bind] at ha
    | ok vk =>
      rw [hp, hk] at ha
      simp only [bind, Except.bind] at ha
      rcases hop with hplus | hminus
      · have := beq_eq hplus; subst this
        simp only [binOp] at ha
        have e1 : ("+" == Gen.AND_OPERATOR) = false := by decide
        have e2 : ("+" == Gen.OR_OPERATOR) = false := by decide
        have e3 : ("+" == Gen.IMPLIES_OPERATOR) = false := by decide
        have e4 : ("+" == Gen.IFF_OPERATOR) = false := by decide
        have e5 : ("+" == "=") = false := by decide
        have e6 : ("+" == "!=") = false := by decide
        have e7 : ("+" == "<") = false := by decide
        have e8 : ("+" == ">") = false := by decide
        have e9 : ("+" == "<=") = false := by decide
        have e10 : ("+" == ">=") = false := by decide
        simp only [e1, e2, e3, e4, e5, e6, e7, e8, e9, e10, Bool.false_eq_true, ↓reduceIte, beq_self_eq_true] at ha
        generalize asNum vp = r1 at ha
        generalize asNum vk = r2 at ha
        cases r1 <;> cases r2 <;> simp [bind, Except.bind, pure, Except.pure, Value.num, Value.bool] at ha
      · have := beq_eq hminus; subst this
        simp only [binOp] at ha
        have e1 : ("-" == Gen.AND_OPERATOR) = false := by decide
        have e2 : ("-" == Gen.OR_OPERATOR) = false := by decide
        have e3 : ("-" == Gen.IMPLIES_OPERATOR) = false := by decide
        have e4 : ("-" == Gen.IFF_OPERATOR) = false := by decide
        have e5 : ("-" == "=") = false := by decide
        have e6 : ("-" == "!=") = false := by decide
        have e7 : ("-" == "<") = false := by decide
        have e8 : ("-" == ">") = false := by decide
        have e9 : ("-" == "<=") = false := by decide
        have e10 : ("-" == ">=") = false := by decide
        have e11 : ("-" == "+") = false := by decide
        simp only [e1, e2, e3, e4, e5, e6, e7, e8, e9, e10, e11, Bool.false_eq_true, ↓reduceIte, beq_self_eq_true] at ha
        generalize asNum vp = r1 at ha
        generalize asNum vk = r2 at ha
        cases r1 <;> cases r2 <;> simp [bind, Except.bind, pure, Except.pure, Value.num, Value.bool] at ha

/-- `b` is the negation of `a` (syntactically) -/
def isNegOf (b a : Expr) : Bool := match b with | .un _ op2 y => op2 == Gen.NOT_OPERATOR && y == a | _ => false

theorem isNegOf_truth (ρ : Env) (b a : Expr) (h : isNegOf b a = true) (x y : Bool)
    (ha : truth opq ρ a = some x) (hb : truth opq ρ b = some y) : x = !y := by
  cases b with
  | un t2 op2 q =>
    simp only [isNegOf, Bool.and_eq_true] at h
    have h1 := beq_eq h.1; subst h1
    have h2 := expr_eq_of_beq h.2; subst h2
    rw [truth_not, ha] at hb
    have : y = !x := by simpa using hb.symm
    subst this; cases x <;> rfl
  | _ => simp [isNegOf] at h

/-- two boolean expressions that the test separates never have the same truth value where both are defined -/
theorem obviouslyDifferent_bool (a b : Expr) (h : obviouslyDifferent a b = true) (ρ : Env) (x y : Bool)
    (ha : truth opq ρ a = some x) (hb : truth opq ρ b = some y) : x = !y := by
  -- reduce to the two symmetric `not` cases; the arithmetic case `a ± k` has no truth value
  have key : isNegOf a b = true ∨ isNegOf b a = true := by
    cases a with
    | un t op p =>
      simp only [obviouslyDifferent] at h
      split at h
      · rename_i hop; left; simp [isNegOf, hop, h]
      · right; cases b <;> simp_all [isNegOf]
    | bin t op p k =>
      simp only [obviouslyDifferent, Bool.or_eq_true, Bool.and_eq_true] at h
      rcases h with h | h
      · right; cases b <;> simp_all [isNegOf]
      · exact absurd ha (truth_arith_none opq ρ t op p k (by simpa [Bool.or_eq_true] using h.1.1) x)
    | lit _ _ _ | this _ | var _ _ | set _ _ | range _ _ _ _ _ | quant _ _ _ _ _ | call _ _ _ | field _ _ _ | index _ _ _ =>
      right; simp only [obviouslyDifferent] at h; cases b <;> simp_all [isNegOf]
  rcases key with k | k
  · have := isNegOf_truth opq ρ a b k y x hb ha
    subst this; cases x <;> rfl
  · exact isNegOf_truth opq ρ b a k x y ha hb

/-! ## conjunction and disjunction rules (operands already simplified) -/

theorem truth_isTrueLit (ρ : Env) (e : Expr) (h : isTrueLit e = true) : truth opq ρ e = some true := by
  cases e with
  | lit t k lv => cases lv with
    | bool b => cases b <;> simp_all [isTrueLit, truth_lit_bool]
    | _ => simp [isTrueLit] at h
  | _ => simp [isTrueLit] at h

theorem truth_falseLit (ρ : Env) : truth opq ρ falseLit = some false := rfl
theorem truth_trueLit' (ρ : Env) : truth opq ρ trueLit = some true := rfl

/-- truth-preservation for boolean rewrites: wherever the original has a truth value the result has the same one -/
def PreservesTruth (e' e : Expr) : Prop := ∀ ρ v, truth opq ρ e = some v → truth opq ρ e' = some v

/-- the unit / annihilator / idempotence / complement cases of `_simplify_conjunction` -/
theorem simpConjunction_head (t : DataType) (p q r : Expr)
    (h : (if isFalseLit p then some p else if isFalseLit q then some q else if isTrueLit p then some q
          else if isTrueLit q then some p else if p == q then some p else if obviouslyDifferent p q then some falseLit else none) = some r) :
    PreservesTruth opq r (.bin t Gen.AND_OPERATOR p q) := by
  intro ρ v hv
  rw [truth_and] at hv
  cases hp : truth opq ρ p with
  | none => simp [hp, bind, Option.bind] at hv
  | some a =>
    cases hq : truth opq ρ q with
    | none => simp [hp, hq, bind, Option.bind] at hv
    | some b =>
      simp [hp, hq, bind, Option.bind, pure] at hv
      subst hv
      split at h
      · rename_i hf; cases h; rw [isFalseLit_truth ρ opq p hf] at hp; cases hp; simpa using isFalseLit_truth ρ opq p hf
      · split at h
        · rename_i hf; cases h; rw [isFalseLit_truth ρ opq q hf] at hq; cases hq; simpa using isFalseLit_truth ρ opq q hf
        · split at h
          · rename_i ht; cases h; rw [truth_isTrueLit opq ρ p ht] at hp; cases hp; simpa using hq
          · split at h
            · rename_i ht; cases h; rw [truth_isTrueLit opq ρ q ht] at hq; cases hq; simpa using hp
            · split at h
              · rename_i heq; cases h
                have : p = q := expr_eq_of_beq heq
                subst this; rw [hp] at hq; cases hq; simpa using hp
              · split at h
                · rename_i hd; cases h
                  have := obviouslyDifferent_bool opq p q hd ρ a b hp hq
                  subst this; cases b <;> exact truth_falseLit opq ρ
                · cases h

/-- the dual cases of `_simplify_disjunction` -/
theorem simpDisjunction_head (t : DataType) (p q r : Expr)
    (h : (if isTrueLit p then some p else if isTrueLit q then some q else if isFalseLit p then some q
          else if isFalseLit q then some p else if p == q then some p else if obviouslyDifferent p q then some trueLit else none) = some r) :
    PreservesTruth opq r (.bin t Gen.OR_OPERATOR p q) := by
  intro ρ v hv
  rw [truth_or] at hv
  cases hp : truth opq ρ p with
  | none => simp [hp, bind, Option.bind] at hv
  | some a =>
    cases hq : truth opq ρ q with
    | none => simp [hp, hq, bind, Option.bind] at hv
    | some b =>
      simp [hp, hq, bind, Option.bind, pure] at hv
      subst hv
      split at h
      · rename_i ht; cases h; rw [truth_isTrueLit opq ρ p ht] at hp; cases hp; simpa using truth_isTrueLit opq ρ p ht
      · split at h
        · rename_i ht; cases h; rw [truth_isTrueLit opq ρ q ht] at hq; cases hq; simpa using truth_isTrueLit opq ρ q ht
        · split at h
          · rename_i hf; cases h; rw [isFalseLit_truth ρ opq p hf] at hp; cases hp; simpa using hq
          · split at h
            · rename_i hf; cases h; rw [isFalseLit_truth ρ opq q hf] at hq; cases hq; simpa using hp
            · split at h
              · rename_i heq; cases h
                have : p = q := expr_eq_of_beq heq
                subst this; rw [hp] at hq; cases hq; simpa using hp
              · split at h
                · rename_i hd; cases h
                  have := obviouslyDifferent_bool opq p q hd ρ a b hp hq
                  subst this; cases b <;> exact truth_trueLit' opq ρ
                · cases h

end
end Hpl
