import Hpl.Props.C08
import Hpl.Lemmas.BinOp
/-!
# C08 — soundness of the rule functions of `simplify` (value level)

`Pres e' e`: wherever the original `e` evaluates without error, `e'` evaluates to the same value (`Preserves` of
`Props/C08`, stated on `eval` directly). This file proves it for the non-recursive rule functions, given the
operands as they are (the recursion is assembled in `C08b`).
-/
namespace Hpl
section
variable (opq : Opaque)

def Pres (e' e : Expr) : Prop := ∀ ρ v, eval opq ρ e = .ok v → eval opq ρ e' = .ok v

theorem Pres.refl (e : Expr) : Pres opq e e := fun _ _ h => h
theorem Pres.trans {a b c : Expr} (h1 : Pres opq a b) (h2 : Pres opq b c) : Pres opq a c := fun ρ v h => h1 ρ v (h2 ρ v h)

theorem pres_iff_preserves (e' e : Expr) : Pres opq e' e ↔ Preserves opq e' e := by
  unfold Pres Preserves evalO
  constructor
  · intro h ρ v hv; rw [toOption_eq_some] at hv ⊢; exact h ρ v hv
  · intro h ρ v hv; have := h ρ v (toOption_eq_some.2 hv); exact toOption_eq_some.1 this

/-! ## evaluation of operator nodes, inverted -/

theorem eval_bin_ok {ρ : Env} {t : DataType} {op : String} {a b : Expr} {v : Value} :
    eval opq ρ (.bin t op a b) = .ok v ↔ ∃ x y, eval opq ρ a = .ok x ∧ eval opq ρ b = .ok y ∧ binOp op x y = .ok v := by
  simp only [eval]
  cases ha : eval opq ρ a with
  | error e => simp [bind, Except.bind]
  | ok x =>
    cases hb : eval opq ρ b with
    | error e => simp [bind, Except.bind]
    | ok y => simp [bind, Except.bind]

theorem eval_un_ok {ρ : Env} {t : DataType} {op : String} {a : Expr} {v : Value} :
    eval opq ρ (.un t op a) = .ok v ↔ ∃ x, eval opq ρ a = .ok x ∧ unOp op x = .ok v := by
  simp only [eval]
  cases ha : eval opq ρ a with
  | error e => simp [bind, Except.bind]
  | ok x => simp [bind, Except.bind]

theorem asNum_ok {v : Value} {q : Rat} : asNum v = .ok q ↔ v = Value.num q := by
  cases v with
  | prim p => cases p <;> simp [asNum, Value.num]
  | _ => simp [asNum, Value.num]

theorem asBool_ok {v : Value} {b : Bool} : asBool v = .ok b ↔ v = Value.bool b := by
  cases v with
  | prim p => cases p <;> simp [asBool, Value.bool]
  | _ => simp [asBool, Value.bool]

/-- both operands of an arithmetic operator are finite numbers when the application evaluates -/
theorem arith_ok {f : Rat → Rat → Rat} {op : String} (hop : ∀ a b, binOp op a b = (do let x ← asNum a; let y ← asNum b; pure (Value.num (f x y))))
    {x y v : Value} (h : binOp op x y = .ok v) : ∃ qx qy, x = Value.num qx ∧ y = Value.num qy ∧ v = Value.num (f qx qy) := by
  rw [hop] at h
  cases hx : asNum x with
  | error e => rw [hx] at h; simp [bind, Except.bind] at h
  | ok qx =>
    cases hy : asNum y with
    | error e => rw [hx, hy] at h; simp [bind, Except.bind] at h
    | ok qy =>
      rw [hx, hy] at h
      simp only [bind, Except.bind, pure, Except.pure, Except.ok.injEq] at h
      exact ⟨qx, qy, asNum_ok.1 hx, asNum_ok.1 hy, h.symm⟩

/-! ## literals -/

theorem litVal_some {e : Expr} {y : LitVal} (h : litVal? e = some y) : ∃ t k, e = .lit t k y := by
  cases e <;> simp [litVal?] at h
  subst h; exact ⟨_, _, rfl⟩

theorem eval_lit (ρ : Env) (t : DataType) (k : String) (y : LitVal) : eval opq ρ (.lit t k y) = litValue y := rfl

/-- a literal that evaluates to a finite number is an int or a float literal -/
theorem litValue_num {y : LitVal} {q : Rat} (h : litValue y = .ok (Value.num q)) : y = .int q.num ∧ q.den = 1 ∨ y = .flt q := by
  cases y with
  | int n => left; simp only [litValue, Except.ok.injEq, Value.num, Value.prim.injEq, Prim.num.injEq] at h; subst h; simp
  | flt r => right; simp only [litValue, Except.ok.injEq, Value.num, Value.prim.injEq, Prim.num.injEq] at h; subst h; rfl
  | bool b => simp [litValue, Value.num, Value.bool] at h
  | inf => simp [litValue, Value.num] at h
  | ninf => simp [litValue, Value.num] at h
  | nan => simp [litValue] at h
  | str s => simp [litValue, Value.num] at h

theorem toRat_of_num {y : LitVal} {q : Rat} (h : litValue y = .ok (Value.num q)) : y.toRat? = some q := by
  rcases litValue_num h with ⟨rfl, hd⟩ | rfl
  · simp only [LitVal.toRat?, Option.some.injEq]
    exact Rat.ext (by simp) (by simp [hd])
  · rfl


/-! ## constant folding agrees with the exact arithmetic of the semantics -/

theorem mkNumVal_value (b : Bool) (q : Rat) : litValue (mkNumVal b q) = .ok (Value.num q) := by
  unfold mkNumVal
  split
  · rename_i h
    simp only [Bool.and_eq_true, beq_iff_eq] at h
    simp only [litValue, Except.ok.injEq, Value.num, Value.prim.injEq, Prim.num.injEq]
    exact Rat.ext (by simp) (by simp [h.2])
  · rfl

theorem pyArith_value {f : Rat → Rat → Rat} {a b z : LitVal} {x y : Rat} (ha : a.toRat? = some x) (hb : b.toRat? = some y)
    (h : pyArith f a b = .ok z) : litValue z = .ok (Value.num (f x y)) := by
  unfold pyArith at h
  simp only [ha, hb] at h
  cases h
  exact mkNumVal_value _ _

theorem litNumber_eval {z : LitVal} {e : Expr} (h : litNumber z = .ok e) (ρ : Env) : eval opq ρ e = litValue z := by
  cases z <;> simp only [litNumber, LitVal.isNumber, Bool.not_true, Bool.not_false, Bool.and_self, Bool.and_false, Bool.false_and,
    Bool.false_eq_true, ↓reduceIte] at h
  all_goals first
    | (obtain ⟨s, _, h⟩ := bind_ok h; cases h; rfl)
    | (cases h; rfl)
    | cases h

theorem isZero_num {y : LitVal} {q : Rat} (hy : y.toRat? = some q) (h : isZero y = true) : q = 0 := by
  unfold isZero pyEq at h
  cases y <;> simp_all [LitVal.toRat?]

theorem isOne_num {y : LitVal} {q : Rat} (hy : y.toRat? = some q) (h : isOne y = true) : q = 1 := by
  unfold isOne pyEq at h
  cases y <;> simp_all [LitVal.toRat?]


/-! ## `_obvious_negatives` on numbers -/

theorem unOp_num_inv {op : String} {x : Value} {q : Rat} (hop : (op == Gen.NOT_OPERATOR || op == "-") = true)
    (h : unOp op x = .ok (Value.num q)) : ∃ qx, x = Value.num qx ∧ q = -qx := by
  simp only [Bool.or_eq_true, beq_iff_eq] at hop
  rcases hop with rfl | rfl
  · rw [show Gen.NOT_OPERATOR = "not" from rfl, unOp_not] at h
    cases hb : asBool x with
    | error e => rw [hb] at h; simp [bind, Except.bind] at h
    | ok b => rw [hb] at h; simp [bind, Except.bind, pure, Except.pure, Value.bool, Value.num] at h
  · rw [unOp_neg] at h
    cases hn : asNum x with
    | error e => rw [hn] at h; simp [bind, Except.bind] at h
    | ok qx =>
      rw [hn] at h
      simp only [bind, Except.bind, pure, Except.pure, Except.ok.injEq, Value.num, Value.prim.injEq, Prim.num.injEq] at h
      exact ⟨qx, asNum_ok.1 hn, h.symm⟩

/-- when two numeric expressions pass the test, their values are opposite -/
theorem obviousNegatives_num {a b : Expr} (h : obviousNegatives a b = true) {ρ : Env} {qa qb : Rat}
    (ha : eval opq ρ a = .ok (Value.num qa)) (hb : eval opq ρ b = .ok (Value.num qb)) : qa = -qb := by
  have right : ∀ {a : Expr} {t2 : DataType} {op2 : String} {y : Expr} {qa qb : Rat},
      (op2 == Gen.NOT_OPERATOR || op2 == "-") = true → (y == a) = true →
      eval opq ρ a = .ok (Value.num qa) → eval opq ρ (.un t2 op2 y) = .ok (Value.num qb) → qa = -qb := by
    intro a t2 op2 y qa qb hop hya ha hb
    have hy : y = a := expr_eq_of_beq hya
    subst hy
    obtain ⟨x, hx, hu⟩ := (eval_un_ok opq).1 hb
    rw [ha] at hx; cases hx
    obtain ⟨qx, hqx, hq⟩ := unOp_num_inv hop hu
    simp only [Value.num, Value.prim.injEq, Prim.num.injEq] at hqx
    subst hqx; rw [hq]; simp
  cases a with
  | un t op x =>
    simp only [obviousNegatives] at h
    split at h
    · rename_i hop
      have hx : x = b := expr_eq_of_beq h
      subst hx
      obtain ⟨xv, hxv, hu⟩ := (eval_un_ok opq).1 ha
      rw [hb] at hxv; cases hxv
      obtain ⟨qx, hqx, hq⟩ := unOp_num_inv hop hu
      simp only [Value.num, Value.prim.injEq, Prim.num.injEq] at hqx
      subst hqx; exact hq
    · cases b with
      | un t2 op2 y => simp only [Bool.and_eq_true] at h; exact right h.1 h.2 ha hb
      | _ => simp at h
  | lit _ _ _ | this _ | var _ _ | set _ _ | range _ _ _ _ _ | quant _ _ _ _ _ | bin _ _ _ _ | call _ _ _ | field _ _ _ | index _ _ _ =>
    cases b with
    | un t2 op2 y => simp only [obviousNegatives, Bool.and_eq_true] at h; exact right h.1 h.2 ha hb
    | _ => simp [obviousNegatives] at h

theorem eval_zero_lit {e : Expr} (h : litNumber (.int 0) = .ok e) (ρ : Env) : eval opq ρ e = .ok (Value.num 0) := by
  rw [litNumber_eval opq h ρ]; rfl

/-! ## `_simplify_addition` -/

theorem simpAddition_sound (t : DataType) (a b r : Expr) (h : simpAddition (.bin t "+" a b) a b = .ok r) :
    Pres opq r (.bin t "+" a b) := by
  intro ρ v hv
  obtain ⟨x, y, hx, hy, hop⟩ := (eval_bin_ok opq).1 hv
  obtain ⟨qx, qy, rfl, rfl, rfl⟩ := arith_ok binOp_add hop
  -- the shared last resort: opposite operands, or the expression itself
  have last : ∀ r, (if obviousNegatives a b = true then litNumber (.int 0) else .ok (.bin t "+" a b)) = .ok r →
      eval opq ρ r = .ok (Value.num (qx + qy)) := by
    intro r hr
    split at hr
    · rename_i hneg
      have := obviousNegatives_num opq hneg hx hy
      rw [eval_zero_lit opq hr ρ, this, Rat.neg_add_cancel]
    · cases hr; exact hv
  unfold simpAddition at h
  cases hlb : litVal? b with
  | none => rw [hlb] at h; exact last r h
  | some yv =>
    rw [hlb] at h
    simp only at h
    obtain ⟨tb, kb, rfl⟩ := litVal_some hlb
    have hyv : yv.toRat? = some qy := toRat_of_num (by rw [← eval_lit opq ρ tb kb yv]; exact hy)
    split at h
    · rename_i hz
      cases h
      have := isZero_num hyv hz
      subst this; rw [Rat.add_zero]; exact hx
    · cases hla : litVal? a with
      | none => rw [hla] at h; exact last r h
      | some xv =>
        rw [hla] at h
        simp only at h
        obtain ⟨ta, ka, rfl⟩ := litVal_some hla
        have hxv : xv.toRat? = some qx := toRat_of_num (by rw [← eval_lit opq ρ ta ka xv]; exact hx)
        split at h
        · rename_i hz
          cases h
          have := isZero_num hxv hz
          subst this; rw [Rat.zero_add]; exact hy
        · obtain ⟨z, hz, h⟩ := bind_ok h
          rw [litNumber_eval opq h ρ]
          exact pyArith_value hxv hyv hz

end
end Hpl
