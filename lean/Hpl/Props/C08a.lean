import Hpl.Props.C08
import Hpl.Lemmas.BinOp
/-!
# C08 — soundness of the rule functions of `simplify` (value level)

`Pres e' e`: wherever the original `e` evaluates without error, `e'` evaluates to the same value (`Preserves` of
`Props/C08`, stated on `eval` directly). This file proves it for the non-recursive rule functions, given the
operands as they are (the recursion is assembled in `C08b`).
-/
namespace Hpl
section
variable (opq : Opaque)

def Pres (e' e : Expr) : Prop := ∀ ρ v, eval opq ρ e = .ok v → eval opq ρ e' = .ok v

theorem Pres.refl (e : Expr) : Pres opq e e := fun _ _ h => h
theorem Pres.trans {a b c : Expr} (h1 : Pres opq a b) (h2 : Pres opq b c) : Pres opq a c := fun ρ v h => h1 ρ v (h2 ρ v h)

theorem pres_iff_preserves (e' e : Expr) : Pres opq e' e ↔ Preserves opq e' e := by
  unfold Pres Preserves evalO
  constructor
  · intro h ρ v hv; rw [toOption_eq_some] at hv ⊢; exact h ρ v hv
  · intro h ρ v hv; have := h ρ v (toOption_eq_some.2 hv); exact toOption_eq_some.1 this

/-! ## evaluation of operator nodes, inverted -/

theorem eval_bin_ok {ρ : Env} {t : DataType} {op : String} {a b : Expr} {v : Value} :
    eval opq ρ (.bin t op a b) = .ok v ↔ ∃ x y, eval opq ρ a = .ok x ∧ eval opq ρ b = .ok y ∧ binOp op x y = .ok v := by
  simp only [eval]
  cases ha : eval opq ρ a with
  | error e => simp [bind, Except.bind]
  | ok x =>
    cases hb : eval opq ρ b with
    | error e => simp [bind, Except.bind]
    | ok y => simp [bind, Except.bind]

theorem eval_un_ok {ρ : Env} {t : DataType} {op : String} {a : Expr} {v : Value} :
    eval opq ρ (.un t op a) = .ok v ↔ ∃ x, eval opq ρ a = .ok x ∧ unOp op x = .ok v := by
  simp only [eval]
  cases ha : eval opq ρ a with
  | error e => simp [bind, Except.bind]
  | ok x => simp [bind, Except.bind]

theorem asNum_ok {v : Value} {q : Rat} : asNum v = .ok q ↔ v = Value.num q := by
  cases v with
  | prim p => cases p <;> simp [asNum, Value.num]
  | _ => simp [asNum, Value.num]

theorem asBool_ok {v : Value} {b : Bool} : asBool v = .ok b ↔ v = Value.bool b := by
  cases v with
  | prim p => cases p <;> simp [asBool, Value.bool]
  | _ => simp [asBool, Value.bool]

/-- both operands of an arithmetic operator are finite numbers when the application evaluates -/
theorem arith_ok {f : Rat → Rat → Rat} {op : String} (hop : ∀ a b, binOp op a b = (do let x ← asNum a; let y ← asNum b; pure (Value.num (f x y))))
    {x y v : Value} (h : binOp op x y = .ok v) : ∃ qx qy, x = Value.num qx ∧ y = Value.num qy ∧ v = Value.num (f qx qy) := by
  rw [hop] at h
  cases hx : asNum x with
  | error e => rw [hx] at h; simp [bind, Except.bind] at h
  | ok qx =>
    cases hy : asNum y with
    | error e => rw [hx, hy] at h; simp [bind, Except.bind] at h
    | ok qy =>
      rw [hx, hy] at h
      simp only [bind, Except.bind, pure, Except.pure, Except.ok.injEq] at h
      exact ⟨qx, qy, asNum_ok.1 hx, asNum_ok.1 hy, h.symm⟩

/-! ## literals -/

theorem litVal_some {e : Expr} {y : LitVal} (h : litVal? e = some y) : ∃ t k, e = .lit t k y := by
  cases e <;> simp [litVal?] at h
  subst h; exact ⟨_, _, rfl⟩

theorem eval_lit (ρ : Env) (t : DataType) (k : String) (y : LitVal) : eval opq ρ (.lit t k y) = litValue y := rfl

/-- a literal that evaluates to a finite number is an int or a float literal -/
theorem litValue_num {y : LitVal} {q : Rat} (h : litValue y = .ok (Value.num q)) : y = .int q.num ∧ q.den = 1 ∨ y = .flt q := by
  cases y with
  | int n => left; simp only [litValue, Except.ok.injEq, Value.num, Value.prim.injEq, Prim.num.injEq] at h; subst h; simp
  | flt r => right; simp only [litValue, Except.ok.injEq, Value.num, Value.prim.injEq, Prim.num.injEq] at h; subst h; rfl
  | bool b => simp [litValue, Value.num, Value.bool] at h
  | inf => simp [litValue, Value.num] at h
  | ninf => simp [litValue, Value.num] at h
  | nan => simp [litValue] at h
  | str s => simp [litValue, Value.num] at h

theorem toRat_of_num {y : LitVal} {q : Rat} (h : litValue y = .ok (Value.num q)) : y.toRat? = some q := by
  rcases litValue_num h with ⟨rfl, hd⟩ | rfl
  · simp only [LitVal.toRat?, Option.some.injEq]
    exact Rat.ext (by simp) (by simp [hd])
  · rfl


/-! ## constant folding agrees with the exact arithmetic of the semantics -/

theorem mkNumVal_value (b : Bool) (q : Rat) : litValue (mkNumVal b q) = .ok (Value.num q) := by
  unfold mkNumVal
  split
  · rename_i h
    simp only [Bool.and_eq_true, beq_iff_eq] at h
    simp only [litValue, Except.ok.injEq, Value.num, Value.prim.injEq, Prim.num.injEq]
    exact Rat.ext (by simp) (by simp [h.2])
  · rfl

theorem pyArith_value {f : Rat → Rat → Rat} {a b z : LitVal} {x y : Rat} (ha : a.toRat? = some x) (hb : b.toRat? = some y)
    (h : pyArith f a b = .ok z) : litValue z = .ok (Value.num (f x y)) := by
  unfold pyArith at h
  simp only [ha, hb] at h
  cases h
  exact mkNumVal_value _ _

theorem litNumber_eval {z : LitVal} {e : Expr} (h : litNumber z = .ok e) (ρ : Env) : eval opq ρ e = litValue z := by
  cases z <;> simp only [litNumber, LitVal.isNumber, Bool.not_true, Bool.not_false, Bool.and_self, Bool.and_false, Bool.false_and,
    Bool.false_eq_true, ↓reduceIte] at h
  all_goals first
    | (obtain ⟨s, _, h⟩ := bind_ok h; cases h; rfl)
    | (cases h; rfl)
    | cases h

theorem isZero_num {y : LitVal} {q : Rat} (hy : y.toRat? = some q) (h : isZero y = true) : q = 0 := by
  unfold isZero pyEq at h
  cases y <;> simp_all [LitVal.toRat?]

theorem isZero_of_toRat_zero {y : LitVal} (h : y.toRat? = some 0) : isZero y = true := by
  cases y with
  | int n => simp only [LitVal.toRat?, Option.some.injEq] at h; simp [isZero, pyEq, LitVal.toRat?, h]
  | flt q => simp only [LitVal.toRat?, Option.some.injEq] at h; simp [isZero, pyEq, LitVal.toRat?, h]
  | bool b => cases b <;> simp_all [LitVal.toRat?, isZero, pyEq]
  | inf => simp [LitVal.toRat?] at h
  | ninf => simp [LitVal.toRat?] at h
  | nan => simp [LitVal.toRat?] at h
  | str s => simp [LitVal.toRat?] at h

theorem isOne_num {y : LitVal} {q : Rat} (hy : y.toRat? = some q) (h : isOne y = true) : q = 1 := by
  unfold isOne pyEq at h
  cases y <;> simp_all [LitVal.toRat?]


/-! ## `_obvious_negatives` on numbers -/

theorem unOp_num_inv {op : String} {x : Value} {q : Rat} (hop : (op == Gen.NOT_OPERATOR || op == "-") = true)
    (h : unOp op x = .ok (Value.num q)) : ∃ qx, x = Value.num qx ∧ q = -qx := by
  simp only [Bool.or_eq_true, beq_iff_eq] at hop
  rcases hop with rfl | rfl
  · rw [show Gen.NOT_OPERATOR = "not" from rfl, unOp_not] at h
    cases hb : asBool x with
    | error e => rw [hb] at h; simp [bind, Except.bind] at h
    | ok b => rw [hb] at h; simp [bind, Except.bind, pure, Except.pure, Value.bool, Value.num] at h
  · rw [unOp_neg] at h
    cases hn : asNum x with
    | error e => rw [hn] at h; simp [bind, Except.bind] at h
    | ok qx =>
      rw [hn] at h
      simp only [bind, Except.bind, pure, Except.pure, Except.ok.injEq, Value.num, Value.prim.injEq, Prim.num.injEq] at h
      exact ⟨qx, asNum_ok.1 hn, h.symm⟩

/-- when two numeric expressions pass the test, their values are opposite -/
theorem obviousNegatives_num {a b : Expr} (h : obviousNegatives a b = true) {ρ : Env} {qa qb : Rat}
    (ha : eval opq ρ a = .ok (Value.num qa)) (hb : eval opq ρ b = .ok (Value.num qb)) : qa = -qb := by
  have right : ∀ {a : Expr} {t2 : DataType} {op2 : String} {y : Expr} {qa qb : Rat},
      (op2 == Gen.NOT_OPERATOR || op2 == "-") = true → (y == a) = true →
      eval opq ρ a = .ok (Value.num qa) → eval opq ρ (.un t2 op2 y) = .ok (Value.num qb) → qa = -qb := by
    intro a t2 op2 y qa qb hop hya ha hb
    have hy : y = a := expr_eq_of_beq hya
    subst hy
    obtain ⟨x, hx, hu⟩ := (eval_un_ok opq).1 hb
    rw [ha] at hx; cases hx
    obtain ⟨qx, hqx, hq⟩ := unOp_num_inv hop hu
    simp only [Value.num, Value.prim.injEq, Prim.num.injEq] at hqx
    subst hqx; rw [hq]; simp
  cases a with
  | un t op x =>
    simp only [obviousNegatives] at h
    split at h
    · rename_i hop
      have hx : x = b := expr_eq_of_beq h
      subst hx
      obtain ⟨xv, hxv, hu⟩ := (eval_un_ok opq).1 ha
      rw [hb] at hxv; cases hxv
      obtain ⟨qx, hqx, hq⟩ := unOp_num_inv hop hu
      simp only [Value.num, Value.prim.injEq, Prim.num.injEq] at hqx
      subst hqx; exact hq
    · cases b with
      | un t2 op2 y => simp only [Bool.and_eq_true] at h; exact right h.1 h.2 ha hb
      | _ => simp at h
  | lit _ _ _ | this _ | var _ _ | set _ _ | range _ _ _ _ _ | quant _ _ _ _ _ | bin _ _ _ _ | call _ _ _ | field _ _ _ | index _ _ _ =>
    cases b with
    | un t2 op2 y => simp only [obviousNegatives, Bool.and_eq_true] at h; exact right h.1 h.2 ha hb
    | _ => simp [obviousNegatives] at h

theorem eval_zero_lit {e : Expr} (h : litNumber (.int 0) = .ok e) (ρ : Env) : eval opq ρ e = .ok (Value.num 0) := by
  rw [litNumber_eval opq h ρ]; rfl

/-! ## `_simplify_addition` -/

theorem simpAddition_sound (t : DataType) (a b r : Expr) (h : simpAddition (.bin t "+" a b) a b = .ok r) :
    Pres opq r (.bin t "+" a b) := by
  intro ρ v hv
  obtain ⟨x, y, hx, hy, hop⟩ := (eval_bin_ok opq).1 hv
  obtain ⟨qx, qy, rfl, rfl, rfl⟩ := arith_ok binOp_add hop
  -- the shared last resort: opposite operands, or the expression itself
  have last : ∀ r, (if obviousNegatives a b = true then litNumber (.int 0) else .ok (.bin t "+" a b)) = .ok r →
      eval opq ρ r = .ok (Value.num (qx + qy)) := by
    intro r hr
    split at hr
    · rename_i hneg
      have := obviousNegatives_num opq hneg hx hy
      rw [eval_zero_lit opq hr ρ, this, Rat.neg_add_cancel]
    · cases hr; exact hv
  unfold simpAddition at h
  cases hlb : litVal? b with
  | none => rw [hlb] at h; exact last r h
  | some yv =>
    rw [hlb] at h
    simp only at h
    obtain ⟨tb, kb, rfl⟩ := litVal_some hlb
    have hyv : yv.toRat? = some qy := toRat_of_num (by rw [← eval_lit opq ρ tb kb yv]; exact hy)
    split at h
    · rename_i hz
      cases h
      have := isZero_num hyv hz
      subst this; rw [Rat.add_zero]; exact hx
    · cases hla : litVal? a with
      | none => rw [hla] at h; exact last r h
      | some xv =>
        rw [hla] at h
        simp only at h
        obtain ⟨ta, ka, rfl⟩ := litVal_some hla
        have hxv : xv.toRat? = some qx := toRat_of_num (by rw [← eval_lit opq ρ ta ka xv]; exact hx)
        split at h
        · rename_i hz
          cases h
          have := isZero_num hxv hz
          subst this; rw [Rat.zero_add]; exact hy
        · obtain ⟨z, hz, h⟩ := bind_ok h
          rw [litNumber_eval opq h ρ]
          exact pyArith_value hxv hyv hz


/-! ## constructors, evaluated -/

theorem mkBin_ok_eval {op : String} {a b e : Expr} (h : mkBin op a b = .ok e) {ρ : Env} {x y v : Value}
    (hx : eval opq ρ a = .ok x) (hy : eval opq ρ b = .ok y) (hv : binOp op x y = .ok v) : eval opq ρ e = .ok v := by
  rw [mkBin_eval opq h ρ, hx, hy]; simpa [bind, Except.bind] using hv

theorem mkUn_ok_eval {op : String} {a e : Expr} (h : mkUn op a = .ok e) {ρ : Env} {x v : Value}
    (hx : eval opq ρ a = .ok x) (hv : unOp op x = .ok v) : eval opq ρ e = .ok v := by
  rw [mkUn_eval opq h ρ, hx]; simpa [bind, Except.bind] using hv

theorem binOp_add_num (x y : Rat) : binOp "+" (Value.num x) (Value.num y) = .ok (Value.num (x + y)) := by
  rw [binOp_add]; rfl
theorem binOp_sub_num (x y : Rat) : binOp "-" (Value.num x) (Value.num y) = .ok (Value.num (x - y)) := by
  rw [binOp_sub]; rfl
theorem binOp_mul_num (x y : Rat) : binOp "*" (Value.num x) (Value.num y) = .ok (Value.num (x * y)) := by
  rw [binOp_mul]; rfl
theorem unOp_neg_num (x : Rat) : unOp "-" (Value.num x) = .ok (Value.num (-x)) := by
  rw [unOp_neg]; rfl

/-! ## `_simplify_subtraction` -/

theorem simpSubtraction_sound (t : DataType) (a b r : Expr) (h : simpSubtraction (.bin t "-" a b) a b = .ok r) :
    Pres opq r (.bin t "-" a b) := by
  intro ρ v hv
  obtain ⟨x, y, hx, hy, hop⟩ := (eval_bin_ok opq).1 hv
  obtain ⟨qx, qy, rfl, rfl, rfl⟩ := arith_ok binOp_sub hop
  have rest : ∀ r, (if (a == b) = true then litNumber (.int 0)
      else match b with
        | .un _ op x => if (op == "-") = true then do
            let e ← mkAdd a x
            (match e with | .bin _ _ a' b' => simpAddition e a' b' | _ => .ok e) else .ok (.bin t "-" a b)
        | _ => .ok (.bin t "-" a b)) = .ok r → eval opq ρ r = .ok (Value.num (qx - qy)) := by
    intro r hr
    split at hr
    · rename_i heq
      have : a = b := expr_eq_of_beq heq
      subst this
      rw [hx] at hy; cases hy
      rw [eval_zero_lit opq hr ρ]; congr 2; grind
    · split at hr
      · rename_i _ tb opb xb _
        split at hr
        · rename_i hminus
          have hopb : opb = "-" := eq_of_beq hminus
          subst hopb
          obtain ⟨e, he, hr⟩ := bind_ok hr
          obtain ⟨xv, hxv, hu⟩ := (eval_un_ok opq).1 hy
          rw [unOp_neg] at hu
          cases hn : asNum xv with
          | error e' => rw [hn] at hu; simp [bind, Except.bind] at hu
          | ok qxb =>
            rw [hn] at hu
            simp only [bind, Except.bind, pure, Except.pure, Except.ok.injEq, Value.num, Value.prim.injEq, Prim.num.injEq] at hu
            have hxb : eval opq ρ xb = .ok (Value.num qxb) := by rw [hxv, asNum_ok.1 hn]
            have hsum : eval opq ρ e = .ok (Value.num (qx + qxb)) := mkBin_ok_eval opq he hx hxb (binOp_add_num qx qxb)
            have hgoal : (qx - qy) = qx + qxb := by rw [← hu]; grind
            rw [hgoal]
            obtain ⟨te, a', b', rfl⟩ := mkBin_shape he
            simp only at hr
            exact simpAddition_sound opq te a' b' r hr ρ _ hsum
        · cases hr; exact hv
      · cases hr; exact hv
  unfold simpSubtraction at h
  simp only at h
  cases hlb : litVal? b with
  | none => rw [hlb] at h; exact rest r h
  | some yv =>
    rw [hlb] at h
    simp only at h
    obtain ⟨tb, kb, rfl⟩ := litVal_some hlb
    have hyv : yv.toRat? = some qy := toRat_of_num (by rw [← eval_lit opq ρ tb kb yv]; exact hy)
    split at h
    · rename_i hz
      cases h
      have := isZero_num hyv hz
      subst this
      have : qx - 0 = qx := by grind
      rw [this]; exact hx
    · cases hla : litVal? a with
      | none => rw [hla] at h; exact rest r h
      | some xv =>
        rw [hla] at h
        simp only at h
        obtain ⟨ta, ka, rfl⟩ := litVal_some hla
        have hxv : xv.toRat? = some qx := toRat_of_num (by rw [← eval_lit opq ρ ta ka xv]; exact hx)
        obtain ⟨z, hz, h⟩ := bind_ok h
        rw [litNumber_eval opq h ρ]
        exact pyArith_value hxv hyv hz


/-! ## `_simplify_division` -/

theorem div_ok {x y v : Value} (h : binOp "/" x y = .ok v) :
    ∃ qx qy, x = Value.num qx ∧ y = Value.num qy ∧ qy ≠ 0 ∧ v = Value.num (qx / qy) := by
  rw [binOp_div] at h
  cases hx : asNum x with
  | error e => rw [hx] at h; simp [bind, Except.bind] at h
  | ok qx =>
    cases hy : asNum y with
    | error e => rw [hx, hy] at h; simp [bind, Except.bind] at h
    | ok qy =>
      rw [hx, hy] at h
      simp only [bind, Except.bind] at h
      split at h
      · cases h
      · rename_i hne
        simp only [pure, Except.pure, Except.ok.injEq] at h
        exact ⟨qx, qy, asNum_ok.1 hx, asNum_ok.1 hy, hne, h.symm⟩

theorem eval_int_lit {n : Int} {e : Expr} (h : litNumber (.int n) = .ok e) (ρ : Env) : eval opq ρ e = .ok (Value.num n) := by
  rw [litNumber_eval opq h ρ]; rfl

theorem simpDivision_sound (t : DataType) (a b r : Expr) (h : simpDivision (.bin t "/" a b) a b = .ok r) :
    Pres opq r (.bin t "/" a b) := by
  intro ρ v hv
  obtain ⟨x, y, hx, hy, hop⟩ := (eval_bin_ok opq).1 hv
  obtain ⟨qx, qy, rfl, rfl, hne, rfl⟩ := div_ok hop
  have rest : ∀ r, (if (a == b) = true then litNumber (.int 1)
      else if obviousNegatives a b = true then litNumber (.int (-1)) else .ok (.bin t "/" a b)) = .ok r →
      eval opq ρ r = .ok (Value.num (qx / qy)) := by
    intro r hr
    split at hr
    · rename_i heq
      have : a = b := expr_eq_of_beq heq
      subst this
      rw [hx] at hy
      have hq : qx = qy := by simpa [Value.num] using hy
      subst hq
      rw [eval_int_lit opq hr ρ]; congr 2; grind
    · split at hr
      · rename_i hneg
        have := obviousNegatives_num opq hneg hx hy
        rw [eval_int_lit opq hr ρ]; congr 2; subst this; grind
      · cases hr; exact hv
  unfold simpDivision at h
  simp only at h
  cases hlb : litVal? b with
  | none => rw [hlb] at h; exact rest r h
  | some yv =>
    rw [hlb] at h
    simp only at h
    obtain ⟨tb, kb, rfl⟩ := litVal_some hlb
    have hyv : yv.toRat? = some qy := toRat_of_num (by rw [← eval_lit opq ρ tb kb yv]; exact hy)
    split at h
    · cases h
    · split at h
      · rename_i hone
        cases h
        have := isOne_num hyv hone
        subst this
        have : qx / 1 = qx := by grind
        rw [this]; exact hx
      · cases hla : litVal? a with
        | none => rw [hla] at h; exact rest r h
        | some xv =>
          rw [hla] at h
          simp only at h
          obtain ⟨ta, ka, rfl⟩ := litVal_some hla
          have hxv : xv.toRat? = some qx := toRat_of_num (by rw [← eval_lit opq ρ ta ka xv]; exact hx)
          split at h
          · rename_i hz
            cases h
            have := isZero_num hxv hz
            subst this
            have : (0 : Rat) / qy = 0 := by grind
            rw [this]; exact hx
          · obtain ⟨z, hz, h⟩ := bind_ok h
            rw [litNumber_eval opq h ρ]
            unfold pyDiv at hz
            simp only [hxv, hyv, hne, ↓reduceIte] at hz
            cases hz; rfl


/-! ## `_simplify_exponentiation` -/

theorem pow_ok {x y v : Value} (h : binOp "**" x y = .ok v) :
    ∃ qx qy r, x = Value.num qx ∧ y = Value.num qy ∧ isInt qy = true ∧ ratPow qx qy.num = .ok r ∧ v = Value.num r := by
  rw [binOp_pow] at h
  cases hx : asNum x with
  | error e => rw [hx] at h; simp [bind, Except.bind] at h
  | ok qx =>
    cases hy : asNum y with
    | error e => rw [hx, hy] at h; simp [bind, Except.bind] at h
    | ok qy =>
      rw [hx, hy] at h
      simp only [bind, Except.bind] at h
      split at h
      · rename_i hi
        cases hr : ratPow qx qy.num with
        | error e => rw [hr] at h; cases h
        | ok r =>
          rw [hr] at h
          simp only [pure, Except.pure, Except.ok.injEq] at h
          exact ⟨qx, qy, r, asNum_ok.1 hx, asNum_ok.1 hy, hi, hr, h.symm⟩
      · cases h

theorem rat_one_pow : ∀ n : Nat, (1 : Rat) ^ n = 1
  | 0 => Rat.pow_zero 1
  | n + 1 => by rw [Rat.pow_succ, rat_one_pow n]; grind

theorem rat_zero_pow : ∀ n : Nat, n ≠ 0 → (0 : Rat) ^ n = 0
  | 0, h => absurd rfl h
  | n + 1, _ => by rw [Rat.pow_succ]; grind

theorem simpExponentiation_sound (t : DataType) (a b r : Expr) (h : simpExponentiation (.bin t "**" a b) a b = .ok r) :
    Pres opq r (.bin t "**" a b) := by
  intro ρ v hv
  obtain ⟨x, y, hx, hy, hop⟩ := (eval_bin_ok opq).1 hv
  obtain ⟨qx, qy, pw, rfl, rfl, hint, hpow, rfl⟩ := pow_ok hop
  unfold simpExponentiation at h
  cases hlb : litVal? b with
  | none => rw [hlb] at h; cases h; exact hv
  | some yv =>
    rw [hlb] at h
    simp only at h
    obtain ⟨tb, kb, rfl⟩ := litVal_some hlb
    have hyv : yv.toRat? = some qy := toRat_of_num (by rw [← eval_lit opq ρ tb kb yv]; exact hy)
    split at h
    · rename_i hone
      cases h
      have := isOne_num hyv hone
      subst this
      have : pw = qx := by
        have h1 : ((1 : Rat).num) = Int.ofNat 1 := rfl
        rw [h1] at hpow
        simp only [ratPow] at hpow
        have : ¬ (1 > 4096) := by decide
        simp only [this, ↓reduceIte, Except.ok.injEq, Rat.pow_one] at hpow
        exact hpow.symm
      rw [this]; exact hx
    · split at h
      · rename_i hzero
        have := isZero_num hyv hzero
        subst this
        have : pw = 1 := by
          have h1 : ((0 : Rat).num) = Int.ofNat 0 := rfl
          rw [h1] at hpow
          simp only [ratPow] at hpow
          have : ¬ (0 > 4096) := by decide
          simp only [this, ↓reduceIte, Except.ok.injEq, Rat.pow_zero] at hpow
          exact hpow.symm
        rw [this, eval_int_lit opq h ρ]; rfl
      · rename_i hnz hnone
        cases hla : litVal? a with
        | none => rw [hla] at h; cases h; exact hv
        | some xv =>
          rw [hla] at h
          simp only at h
          obtain ⟨ta, ka, rfl⟩ := litVal_some hla
          have hxv : xv.toRat? = some qx := toRat_of_num (by rw [← eval_lit opq ρ ta ka xv]; exact hx)
          -- the exponent is an integer
          have hqy : (qy.num : Rat) = qy := by
            simp only [isInt, beq_iff_eq] at hint
            exact Rat.ext (by simp) (by simp [hint])
          split at h
          · rename_i h01
            cases h
            simp only [Bool.or_eq_true] at h01
            rcases h01 with h1 | h0
            · have := isOne_num hxv h1
              subst this
              have : pw = 1 := by
                cases hn : qy.num with
                | ofNat n =>
                  rw [hn] at hpow; simp only [ratPow] at hpow
                  split at hpow
                  · cases hpow
                  · simp only [Except.ok.injEq] at hpow; rw [← hpow]; exact rat_one_pow n
                | negSucc n =>
                  rw [hn] at hpow; simp only [ratPow] at hpow
                  split at hpow
                  · cases hpow
                  · simp only [Except.ok.injEq] at hpow; rw [← hpow, rat_one_pow]; grind
              rw [this]; exact hx
            · have := isZero_num hxv h0
              subst this
              have : pw = 0 := by
                cases hn : qy.num with
                | ofNat n =>
                  rw [hn] at hpow; simp only [ratPow] at hpow
                  split at hpow
                  · cases hpow
                  · simp only [Except.ok.injEq] at hpow
                    rw [← hpow]
                    apply rat_zero_pow
                    intro hn0; subst hn0
                    -- then the exponent literal is zero, which the earlier test would have caught
                    have : qy = 0 := by rw [← hqy, hn]; rfl
                    subst this
                    exact hnone (isZero_of_toRat_zero hyv)
                | negSucc n =>
                  rw [hn] at hpow; simp only [ratPow] at hpow
                  simp at hpow
              rw [this]; exact hx
          · obtain ⟨z, hz, h⟩ := bind_ok h
            rw [litNumber_eval opq h ρ]
            unfold pyPow at hz
            rw [hxv] at hz
            cases yv with
            | int n =>
              have hq : qy = (n : Rat) := by simpa [LitVal.toRat?] using hyv.symm
              have hnum : qy.num = n := by rw [hq]; simp
              rw [hnum] at hpow
              simp only at hz
              split at hz
              · rename_i hge
                split at hz
                · cases hz
                · rename_i hle
                  cases hz
                  rw [mkNumVal_value]
                  obtain ⟨m, rfl⟩ : ∃ m : Nat, n = Int.ofNat m := ⟨n.toNat, (Int.toNat_of_nonneg hge).symm⟩
                  simp only [ratPow] at hpow
                  split at hpow
                  · cases hpow
                  · simp only [Except.ok.injEq] at hpow; rw [← hpow]; simp
              · rename_i hlt
                split at hz
                · cases hz
                · split at hz
                  · cases hz
                  · cases hz
                    obtain ⟨m, rfl⟩ : ∃ m : Nat, n = Int.negSucc m := ⟨(-n - 1).toNat, by omega⟩
                    simp only [ratPow] at hpow
                    split at hpow
                    · cases hpow
                    · simp only [Except.ok.injEq] at hpow
                      rw [← hpow]
                      have : (-Int.negSucc m).toNat = m + 1 := by omega
                      simp only [litValue, this]
            | bool _ => simp at hz; cases hz
            | flt _ => simp at hz; cases hz
            | inf => simp at hz; cases hz
            | ninf => simp at hz; cases hz
            | nan => simp at hz; cases hz
            | str _ => simp at hz; cases hz


/-! ## comparisons of literals -/

theorem prim_num_beq (a b : Rat) : (Prim.num a == Prim.num b) = (a == b) := by
  by_cases h : a = b
  · subst h; simp
  · have : Prim.num a ≠ Prim.num b := by intro hh; cases hh; exact h rfl
    rw [beq_eq_false_iff_ne.2 this, beq_eq_false_iff_ne.2 h]

theorem pyEq_sound {x y : LitVal} {px py : Prim} {r : Bool} (hx : litValue x = .ok (.prim px)) (hy : litValue y = .ok (.prim py))
    (h : Prim.eq px py = .ok r) : pyEq x y = r := by
  cases x <;> cases y <;>
    simp only [litValue, Value.bool, Value.num, Except.ok.injEq, Value.prim.injEq, reduceCtorEq] at hx hy <;>
    subst hx <;> subst hy <;>
    simp [Prim.eq, Prim.isNumeric, pyEq, LitVal.toRat?, prim_num_beq] at h ⊢ <;> first | exact h | (subst h; rfl) | skip
  rename_i b1 b2
  cases b1 <;> cases b2 <;> simp_all

theorem pyLt_sound {x y : LitVal} {px py : Prim} {r : Bool} (hx : litValue x = .ok (.prim px)) (hy : litValue y = .ok (.prim py))
    (h : Prim.lt px py = .ok r) : pyLt x y = .ok r := by
  cases x <;> cases y <;>
    simp only [litValue, Value.bool, Value.num, Except.ok.injEq, Value.prim.injEq, reduceCtorEq] at hx hy <;>
    subst hx <;> subst hy <;>
    simp [Prim.lt, pyLt, LitVal.toRat?] at h ⊢ <;> first | exact h | (subst h; rfl) | skip

theorem not_nan_of_value {x : LitVal} {v : Value} (h : litValue x = .ok v) : (x matches .nan) = false := by
  cases x <;> simp [litValue] at h ⊢

theorem asPrim_ok {v : Value} {p : Prim} : asPrim v = .ok p ↔ v = .prim p := by
  cases v <;> simp [asPrim]

/-- inversion of the six comparison operators: both operands are primitive values -/
theorem cmp_prims {op : String} (hop : op = "=" ∨ op = "!=" ∨ op = "<" ∨ op = "<=" ∨ op = ">" ∨ op = ">=") {x y v : Value}
    (h : binOp op x y = .ok v) : ∃ px py, x = .prim px ∧ y = .prim py := by
  have key : ∀ (F : Prim → Prim → EM Value), (do let a ← asPrim x; let b ← asPrim y; F a b) = .ok v → ∃ px py, x = .prim px ∧ y = .prim py := by
    intro F hF
    cases hx : asPrim x with
    | error e => rw [hx] at hF; simp [bind, Except.bind] at hF
    | ok px =>
      cases hy : asPrim y with
      | error e => rw [hx, hy] at hF; simp [bind, Except.bind] at hF
      | ok py => exact ⟨px, py, asPrim_ok.1 hx, asPrim_ok.1 hy⟩
  rcases hop with rfl | rfl | rfl | rfl | rfl | rfl
  · rw [binOp_eq] at h; exact key (fun a b => do let r ← Prim.eq a b; pure (Value.bool r)) h
  · rw [binOp_ne] at h; exact key (fun a b => do let r ← Prim.eq a b; pure (Value.bool (!r))) h
  · rw [binOp_lt] at h; exact key (fun a b => do let r ← Prim.lt a b; pure (Value.bool r)) h
  · rw [binOp_le] at h; exact key (fun a b => do let r ← Prim.lt b a; pure (Value.bool (!r))) h
  · rw [binOp_gt] at h; exact key (fun a b => do let r ← Prim.lt b a; pure (Value.bool r)) h
  · rw [binOp_ge] at h; exact key (fun a b => do let r ← Prim.lt a b; pure (Value.bool (!r))) h

theorem eval_litBool (ρ : Env) (b : Bool) : eval opq ρ (litBool b) = .ok (Value.bool b) := rfl

/-- the literal-folding branch of `_simplify_comparison` -/
def foldCmp (op : String) (x y : LitVal) : M Expr :=
  if op == "=" then .ok (litBool (pyEq x y))
  else if op == "<" then do let r ← pyLt x y; pure (litBool r)
  else if op == "<=" then do let r ← pyLt y x; pure (litBool (!r && !(x matches .nan) && !(y matches .nan)))
  else if op == ">" then do let r ← pyLt y x; pure (litBool r)
  else if op == ">=" then do let r ← pyLt x y; pure (litBool (!r && !(x matches .nan) && !(y matches .nan)))
  else .ok (litBool (!pyEq x y))

theorem simpComparison_lits (phi : Expr) (op : String) (ta tb : DataType) (ka kb : String) (x y : LitVal) :
    simpComparison phi op (.lit ta ka x) (.lit tb kb y) = foldCmp op x y := by
  simp only [simpComparison, litVal?, foldCmp]
  cases x <;> cases y <;> rfl

/-- folding a comparison of two literals gives the value the comparison has -/
theorem foldComparison_sound {op : String} (hop : op = "=" ∨ op = "!=" ∨ op = "<" ∨ op = "<=" ∨ op = ">" ∨ op = ">=")
    {x y : LitVal} {px py : Prim} {v : Value} (hx : litValue x = .ok (.prim px)) (hy : litValue y = .ok (.prim py))
    (h : binOp op (.prim px) (.prim py) = .ok v) {r : Expr}
    (hr : foldCmp op x y = .ok r) (ρ : Env) : eval opq ρ r = .ok v := by
  unfold foldCmp at hr
  rcases hop with rfl | rfl | rfl | rfl | rfl | rfl
  · simp only [beq_self_eq_true, ↓reduceIte, Except.ok.injEq] at hr
    subst hr
    rw [binOp_eq] at h
    simp only [asPrim, bind, Except.bind] at h
    cases he : Prim.eq px py with
    | error e => rw [he] at h; cases h
    | ok b => rw [he] at h; simp only [pure, Except.pure, Except.ok.injEq] at h; rw [pyEq_sound hx hy he, eval_litBool, h]
  · have e1 : ("!=" == "=") = false := by decide
    have e2 : ("!=" == "<") = false := by decide
    have e3 : ("!=" == "<=") = false := by decide
    have e4 : ("!=" == ">") = false := by decide
    have e5 : ("!=" == ">=") = false := by decide
    simp only [e1, e2, e3, e4, e5, Bool.false_eq_true, ↓reduceIte, Except.ok.injEq] at hr
    subst hr
    rw [binOp_ne] at h
    simp only [asPrim, bind, Except.bind] at h
    cases he : Prim.eq px py with
    | error e => rw [he] at h; cases h
    | ok b => rw [he] at h; simp only [pure, Except.pure, Except.ok.injEq] at h; rw [pyEq_sound hx hy he, eval_litBool, h]
  · have e1 : ("<" == "=") = false := by decide
    simp only [e1, Bool.false_eq_true, ↓reduceIte, beq_self_eq_true] at hr
    rw [binOp_lt] at h
    simp only [asPrim, bind, Except.bind] at h
    cases he : Prim.lt px py with
    | error e => rw [he] at h; cases h
    | ok b =>
      rw [he] at h; simp only [pure, Except.pure, Except.ok.injEq] at h
      rw [pyLt_sound hx hy he] at hr
      simp only [bind, Except.bind, pure, Except.pure, Except.ok.injEq] at hr
      subst hr; rw [eval_litBool, h]
  · have e1 : ("<=" == "=") = false := by decide
    have e2 : ("<=" == "<") = false := by decide
    simp only [e1, e2, Bool.false_eq_true, ↓reduceIte, beq_self_eq_true] at hr
    rw [binOp_le] at h
    simp only [asPrim, bind, Except.bind] at h
    cases he : Prim.lt py px with
    | error e => rw [he] at h; cases h
    | ok b =>
      rw [he] at h; simp only [pure, Except.pure, Except.ok.injEq] at h
      rw [pyLt_sound hy hx he] at hr
      simp only [bind, Except.bind, pure, Except.pure, Except.ok.injEq] at hr
      subst hr; rw [eval_litBool, ← h]
      split
      · simp [litValue] at hx
      · split
        · simp [litValue] at hy
        · simp
  · have e1 : (">" == "=") = false := by decide
    have e2 : (">" == "<") = false := by decide
    have e3 : (">" == "<=") = false := by decide
    simp only [e1, e2, e3, Bool.false_eq_true, ↓reduceIte, beq_self_eq_true] at hr
    rw [binOp_gt] at h
    simp only [asPrim, bind, Except.bind] at h
    cases he : Prim.lt py px with
    | error e => rw [he] at h; cases h
    | ok b =>
      rw [he] at h; simp only [pure, Except.pure, Except.ok.injEq] at h
      rw [pyLt_sound hy hx he] at hr
      simp only [bind, Except.bind, pure, Except.pure, Except.ok.injEq] at hr
      subst hr; rw [eval_litBool, h]
  · have e1 : (">=" == "=") = false := by decide
    have e2 : (">=" == "<") = false := by decide
    have e3 : (">=" == "<=") = false := by decide
    have e4 : (">=" == ">") = false := by decide
    simp only [e1, e2, e3, e4, Bool.false_eq_true, ↓reduceIte, beq_self_eq_true] at hr
    rw [binOp_ge] at h
    simp only [asPrim, bind, Except.bind] at h
    cases he : Prim.lt px py with
    | error e => rw [he] at h; cases h
    | ok b =>
      rw [he] at h; simp only [pure, Except.pure, Except.ok.injEq] at h
      rw [pyLt_sound hx hy he] at hr
      simp only [bind, Except.bind, pure, Except.pure, Except.ok.injEq] at hr
      subst hr; rw [eval_litBool, ← h]
      split
      · simp [litValue] at hx
      · split
        · simp [litValue] at hy
        · simp


/-! ## the `obviously different` test, value level -/

theorem not_values_differ {x : Value} {pa pb : Prim} {r : Bool} (hx : x = .prim pb) (hu : unOp Gen.NOT_OPERATOR x = .ok (.prim pa))
    (he : Prim.eq pa pb = .ok r ∨ Prim.eq pb pa = .ok r) : r = false := by
  subst hx
  rw [show Gen.NOT_OPERATOR = "not" from rfl, unOp_not] at hu
  cases pb with
  | bool c =>
    simp only [asBool, bind, Except.bind, pure, Except.pure, Except.ok.injEq, Value.bool, Value.prim.injEq] at hu
    subst hu
    rcases he with he | he <;> simp [Prim.eq] at he <;> subst he <;> cases c <;> rfl
  | _ => simp [asBool, bind, Except.bind] at hu

theorem obviouslyDifferent_ne {a b : Expr} (h : obviouslyDifferent a b = true) {ρ : Env} {pa pb : Prim} {r : Bool}
    (ha : eval opq ρ a = .ok (.prim pa)) (hb : eval opq ρ b = .ok (.prim pb)) (he : Prim.eq pa pb = .ok r) : r = false := by
  -- `b` is `not a`
  have right : ∀ {t2 : DataType} {op2 : String} {y : Expr}, b = .un t2 op2 y → (op2 == Gen.NOT_OPERATOR && y == a) = true → r = false := by
    intro t2 op2 y hbe hm
    subst hbe
    simp only [Bool.and_eq_true] at hm
    have h1 : op2 = Gen.NOT_OPERATOR := eq_of_beq hm.1
    have h2 : y = a := expr_eq_of_beq hm.2
    subst h1; subst h2
    obtain ⟨x, hx, hu⟩ := (eval_un_ok opq).1 hb
    rw [ha] at hx; cases hx
    exact not_values_differ rfl hu (Or.inr he)
  cases a with
  | un t op x =>
    simp only [obviouslyDifferent] at h
    split at h
    · rename_i hop
      have h1 : op = Gen.NOT_OPERATOR := eq_of_beq hop
      have h2 : x = b := expr_eq_of_beq h
      subst h1; subst h2
      obtain ⟨xv, hxv, hu⟩ := (eval_un_ok opq).1 ha
      rw [hb] at hxv; cases hxv
      exact not_values_differ rfl hu (Or.inl he)
    · cases b with
      | un t2 op2 y => exact right rfl h
      | _ => simp at h
  | bin t op x k =>
    simp only [obviouslyDifferent, Bool.or_eq_true, Bool.and_eq_true] at h
    rcases h with h | ⟨⟨hop, hxb⟩, hk⟩
    · cases b with
      | un t2 op2 y => exact right rfl (by simpa [Bool.and_eq_true] using h)
      | _ => simp at h
    · have hx : x = b := expr_eq_of_beq hxb
      subst hx
      obtain ⟨xv, kv, hxv, hkv, hbin⟩ := (eval_bin_ok opq).1 ha
      rw [hb] at hxv; cases hxv
      cases k with
      | lit tk kk lv =>
        simp only [Bool.not_eq_true'] at hk
        rcases hop with hop | hop
        · have := eq_of_beq hop; subst this
          obtain ⟨qx, qk, hqx, hqk, hv⟩ := arith_ok binOp_add hbin
          simp only [Value.num, Value.prim.injEq] at hqx hv
          subst hqx; subst hv
          have hne : qk ≠ 0 := by
            intro hz; subst hz
            have := isZero_of_toRat_zero (toRat_of_num (by rw [← eval_lit opq ρ tk kk lv]; exact hkv.trans (by rw [hqk])))
            rw [this] at hk; cases hk
          simp only [Prim.eq, Prim.isNumeric, Bool.and_self, ↓reduceIte, Except.ok.injEq, prim_num_beq] at he
          rw [← he]; simp only [beq_eq_false_iff_ne, ne_eq]; intro hh; apply hne; grind
        · have := eq_of_beq hop; subst this
          obtain ⟨qx, qk, hqx, hqk, hv⟩ := arith_ok binOp_sub hbin
          simp only [Value.num, Value.prim.injEq] at hqx hv
          subst hqx; subst hv
          have hne : qk ≠ 0 := by
            intro hz; subst hz
            have := isZero_of_toRat_zero (toRat_of_num (by rw [← eval_lit opq ρ tk kk lv]; exact hkv.trans (by rw [hqk])))
            rw [this] at hk; cases hk
          simp only [Prim.eq, Prim.isNumeric, Bool.and_self, ↓reduceIte, Except.ok.injEq, prim_num_beq] at he
          rw [← he]; simp only [beq_eq_false_iff_ne, ne_eq]; intro hh; apply hne; grind
      | _ => simp at hk
  | lit _ _ _ | this _ | var _ _ | set _ _ | range _ _ _ _ _ | quant _ _ _ _ _ | call _ _ _ | field _ _ _ | index _ _ _ =>
    cases b with
    | un t2 op2 y => exact right rfl (by simpa [obviouslyDifferent, Bool.and_eq_true] using h)
    | _ => simp [obviouslyDifferent] at h

/-! ## `_simplify_comparison` -/

theorem simpComparison_sound (t : DataType) (op : String) (hop : op = "=" ∨ op = "!=" ∨ op = "<" ∨ op = "<=" ∨ op = ">" ∨ op = ">=")
    (a b r : Expr) (h : simpComparison (.bin t op a b) op a b = .ok r) : Pres opq r (.bin t op a b) := by
  intro ρ v hv
  obtain ⟨x, y, hx, hy, hbin⟩ := (eval_bin_ok opq).1 hv
  obtain ⟨px, py, rfl, rfl⟩ := cmp_prims hop hbin
  have nonlit : ∀ r, (if obviouslyDifferent a b = true then
        (if op == "=" then .ok falseLit else if op == "!=" then .ok trueLit else .ok (.bin t op a b))
      else (.ok (.bin t op a b) : M Expr)) = .ok r → eval opq ρ r = .ok v := by
    intro r hr
    split at hr
    · rename_i hd
      split at hr
      · rename_i he
        have := eq_of_beq he; subst this
        cases hr
        rw [binOp_eq] at hbin
        simp only [asPrim, bind, Except.bind] at hbin
        cases hq : Prim.eq px py with
        | error e => rw [hq] at hbin; cases hbin
        | ok c =>
          rw [hq] at hbin
          simp only [pure, Except.pure, Except.ok.injEq] at hbin
          have := obviouslyDifferent_ne opq hd hx hy hq
          subst this; rw [← hbin]; rfl
      · split at hr
        · rename_i _ hne
          have := eq_of_beq hne; subst this
          cases hr
          rw [binOp_ne] at hbin
          simp only [asPrim, bind, Except.bind] at hbin
          cases hq : Prim.eq px py with
          | error e => rw [hq] at hbin; cases hbin
          | ok c =>
            rw [hq] at hbin
            simp only [pure, Except.pure, Except.ok.injEq] at hbin
            have := obviouslyDifferent_ne opq hd hx hy hq
            subst this; rw [← hbin]; rfl
        · cases hr; exact hv
    · cases hr; exact hv
  have h0 := h
  unfold simpComparison at h
  cases hla : litVal? a with
  | none => rw [hla] at h; exact nonlit r h
  | some xv =>
    cases hlb : litVal? b with
    | none => rw [hla, hlb] at h; exact nonlit r h
    | some yv =>
      obtain ⟨ta, ka, rfl⟩ := litVal_some hla
      obtain ⟨tb, kb, rfl⟩ := litVal_some hlb
      have h' : foldCmp op xv yv = .ok r := by rw [← simpComparison_lits (.bin t op (.lit ta ka xv) (.lit tb kb yv)) op ta tb ka kb xv yv]; exact h0
      exact foldComparison_sound opq hop (by rw [← eval_lit opq ρ ta ka xv]; exact hx) (by rw [← eval_lit opq ρ tb kb yv]; exact hy) hbin h' ρ

end
end Hpl
