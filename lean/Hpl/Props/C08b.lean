import Hpl.Props.C08a
/-!
# C08 — the de-duplication tail of `_simplify_conjunction` / `_simplify_disjunction`

`getJuncts` flattens nested applications of the operator with an explicit stack (the fuel of the model is shown
sufficient), `dedupe` drops repeated operands, `chain` rebuilds a nested application. At the level of truth values
(errors collapsed): the strict conjunction / disjunction of the operands is unchanged by each step.
-/
namespace Hpl
section
variable (opq : Opaque)

theorem anyO_append {α : Type} (xs ys : List α) (f : α → Option Bool) :
    anyO (xs ++ ys) f = (do let a ← anyO xs f; let b ← anyO ys f; pure (a || b)) := by
  induction xs with
  | nil => simp only [List.nil_append, anyO_nil]; cases anyO ys f <;> rfl
  | cons x xs ih =>
    rw [List.cons_append, anyO_cons, anyO_cons, ih]
    cases f x <;> cases anyO xs f <;> cases anyO ys f <;> simp [bind, Option.bind, pure, Bool.or_assoc]

/-- strict junction of a list of formulas under `op` (`and`: all, `or`: any) -/
def juncT (isAnd : Bool) (ρ : Env) (l : List Expr) : Option Bool :=
  if isAnd then allO l (truth opq ρ) else anyO l (truth opq ρ)

def opOf (isAnd : Bool) : String := if isAnd then Gen.AND_OPERATOR else Gen.OR_OPERATOR
def fOf (isAnd : Bool) : Bool → Bool → Bool := if isAnd then (· && ·) else (· || ·)

theorem juncT_nil (isAnd : Bool) (ρ : Env) : juncT opq isAnd ρ [] = some isAnd := by cases isAnd <;> rfl

theorem juncT_cons (isAnd : Bool) (ρ : Env) (e : Expr) (l : List Expr) :
    juncT opq isAnd ρ (e :: l) = (do let a ← truth opq ρ e; let b ← juncT opq isAnd ρ l; pure (fOf isAnd a b)) := by
  cases isAnd
  · simp only [juncT, fOf, Bool.false_eq_true, ↓reduceIte]; exact anyO_cons e l _
  · simp only [juncT, fOf, ↓reduceIte]; exact allO_cons e l _

theorem juncT_append (isAnd : Bool) (ρ : Env) (l1 l2 : List Expr) :
    juncT opq isAnd ρ (l1 ++ l2) = (do let a ← juncT opq isAnd ρ l1; let b ← juncT opq isAnd ρ l2; pure (fOf isAnd a b)) := by
  cases isAnd
  · simp only [juncT, fOf, Bool.false_eq_true, ↓reduceIte]; exact anyO_append l1 l2 _
  · simp only [juncT, fOf, ↓reduceIte]; exact allO_append l1 l2 _

theorem truth_op (isAnd : Bool) (ρ : Env) (t : DataType) (p q : Expr) :
    truth opq ρ (.bin t (opOf isAnd) p q) = (do let a ← truth opq ρ p; let b ← truth opq ρ q; pure (fOf isAnd a b)) := by
  cases isAnd
  · exact truth_or opq ρ t p q
  · exact truth_and opq ρ t p q

theorem fOf_comm (isAnd a b : Bool) : fOf isAnd a b = fOf isAnd b a := by cases isAnd <;> cases a <;> cases b <;> rfl
theorem fOf_assoc (isAnd a b c : Bool) : fOf isAnd (fOf isAnd a b) c = fOf isAnd a (fOf isAnd b c) := by
  cases isAnd <;> cases a <;> cases b <;> cases c <;> rfl
theorem fOf_idem (isAnd a : Bool) : fOf isAnd a a = a := by cases isAnd <;> cases a <;> rfl
theorem fOf_unit (isAnd a : Bool) : fOf isAnd a isAnd = a := by cases isAnd <;> cases a <;> rfl

/-! ## flattening -/

def sizeSum : List Expr → Nat
  | [] => 0
  | e :: l => e.size + sizeSum l

theorem size_pos (e : Expr) : 0 < e.size := by cases e <;> simp [Expr.size] <;> omega

/-- with enough fuel the work-list loop returns the junction of what was accumulated and what was pending -/
theorem flattenOp_sem (isAnd : Bool) (ρ : Env) : ∀ (f : Nat) (stack acc : List Expr), sizeSum stack < f →
    juncT opq isAnd ρ (flattenOp (opOf isAnd) f stack acc) =
      (do let a ← juncT opq isAnd ρ acc; let b ← juncT opq isAnd ρ stack; pure (fOf isAnd a b))
  | 0, _, _, h => by omega
  | f+1, [], acc, _ => by
      simp only [flattenOp, juncT_nil]
      cases juncT opq isAnd ρ acc <;> simp [bind, Option.bind, pure, fOf_unit]
  | f+1, e :: stack, acc, h => by
      have hpos := size_pos e
      simp only [sizeSum] at h
      have leaf : juncT opq isAnd ρ (flattenOp (opOf isAnd) f stack (acc ++ [e])) =
          (do let a ← juncT opq isAnd ρ acc; let b ← juncT opq isAnd ρ (e :: stack); pure (fOf isAnd a b)) := by
        rw [flattenOp_sem isAnd ρ f stack (acc ++ [e]) (by omega), juncT_append, juncT_cons, juncT_cons, juncT_nil]
        cases juncT opq isAnd ρ acc <;> cases truth opq ρ e <;> cases juncT opq isAnd ρ stack <;>
          simp [bind, Option.bind, pure, fOf_unit, fOf_assoc]
      cases e with
      | bin t o a b =>
        simp only [flattenOp]
        split
        · rename_i ho
          have : o = opOf isAnd := eq_of_beq ho
          subst this
          rw [flattenOp_sem isAnd ρ f (b :: a :: stack) acc (by simp only [sizeSum, Expr.size] at h ⊢; omega)]
          rw [juncT_cons, juncT_cons, juncT_cons, truth_op]
          cases juncT opq isAnd ρ acc <;> cases truth opq ρ a <;> cases truth opq ρ b <;> cases juncT opq isAnd ρ stack <;>
            simp [bind, Option.bind, pure, fOf_assoc, fOf_comm]
          rename_i x y z w
          cases isAnd <;> cases x <;> cases y <;> cases z <;> cases w <;> rfl
        · exact leaf
      | lit _ _ _ | this _ | var _ _ | set _ _ | range _ _ _ _ _ | quant _ _ _ _ _ | un _ _ _ | call _ _ _ | field _ _ _ | index _ _ _ =>
        simp only [flattenOp]; exact leaf

theorem getJuncts_sem (isAnd : Bool) (ρ : Env) (e : Expr) : juncT opq isAnd ρ (getJuncts (opOf isAnd) e) = truth opq ρ e := by
  unfold getJuncts
  rw [flattenOp_sem opq isAnd ρ _ [e] [] (by simp only [sizeSum]; omega), juncT_nil, juncT_cons, juncT_nil]
  cases truth opq ρ e <;> simp [bind, Option.bind, pure, fOf_unit]
  cases isAnd <;> rfl


/-! ## de-duplication -/

/-- under an occurrence of `a`, further occurrences of `a` do not matter -/
theorem juncT_filter (isAnd : Bool) (ρ : Env) (a : Expr) : ∀ (l : List Expr),
    (do let x ← truth opq ρ a; let y ← juncT opq isAnd ρ l; pure (fOf isAnd x y)) =
    (do let x ← truth opq ρ a; let y ← juncT opq isAnd ρ (l.filter (fun b => !b == a)); pure (fOf isAnd x y))
  | [] => rfl
  | b :: l => by
      have ih := juncT_filter isAnd ρ a l
      by_cases hb : (b == a) = true
      · have : b = a := eq_of_beq hb
        subst this
        simp only [List.filter, hb, Bool.not_true]
        rw [juncT_cons, ← ih]
        cases truth opq ρ b <;> cases juncT opq isAnd ρ l <;> simp [bind, Option.bind, pure]
        rename_i x y
        rw [← fOf_assoc, fOf_idem]
      · have hb' : (b == a) = false := by simpa using hb
        simp only [List.filter, hb', Bool.not_false]
        rw [juncT_cons, juncT_cons]
        cases hta : truth opq ρ a with
        | none => rfl
        | some x =>
          rw [hta] at ih
          cases htb : truth opq ρ b with
          | none => rfl
          | some z =>
            cases hJ : juncT opq isAnd ρ l with
            | none =>
              rw [hJ] at ih
              cases hJ' : juncT opq isAnd ρ (l.filter (fun b => !b == a)) with
              | none => rfl
              | some y' => rw [hJ'] at ih; simp [bind, Option.bind, pure] at ih
            | some y =>
              rw [hJ] at ih
              cases hJ' : juncT opq isAnd ρ (l.filter (fun b => !b == a)) with
              | none => rw [hJ'] at ih; simp [bind, Option.bind, pure] at ih
              | some y' =>
                rw [hJ'] at ih
                simp only [bind, Option.bind, pure, Option.some.injEq] at ih ⊢
                rw [← fOf_assoc, fOf_comm isAnd x z, fOf_assoc, ih, ← fOf_assoc, fOf_comm isAnd z x, fOf_assoc]

theorem juncT_eraseDups (isAnd : Bool) (ρ : Env) : ∀ (n : Nat) (l : List Expr), l.length ≤ n →
    juncT opq isAnd ρ l.eraseDups = juncT opq isAnd ρ l
  | _, [], _ => rfl
  | 0, _ :: _, h => by simp at h
  | n+1, a :: l, h => by
      rw [List.eraseDups_cons, juncT_cons, juncT_cons]
      have hlen : (l.filter (fun b => !b == a)).length ≤ n := Nat.le_trans (List.length_filter_le _ _) (by simpa using h)
      rw [juncT_eraseDups isAnd ρ n _ hlen]
      exact (juncT_filter opq isAnd ρ a l).symm

theorem dedupe_sem (isAnd : Bool) (ρ : Env) (l : List Expr) : juncT opq isAnd ρ (dedupe l) = juncT opq isAnd ρ l :=
  juncT_eraseDups opq isAnd ρ l.length l (Nat.le_refl _)

theorem dedupe_head (l : List Expr) (d : Expr) : (dedupe l).headD d = l.headD d := by
  cases l with
  | nil => rfl
  | cons a l => simp [dedupe, List.eraseDups_cons]

/-! ## re-building the chain -/

def mkOf (isAnd : Bool) : Expr → Expr → M Expr := if isAnd then mkAnd else mkOr

theorem mkOf_truth (isAnd : Bool) {a b e : Expr} (h : mkOf isAnd a b = .ok e) (ρ : Env) :
    truth opq ρ e = (do let x ← truth opq ρ a; let y ← truth opq ρ b; pure (fOf isAnd x y)) := by
  have hm : mkBin (opOf isAnd) a b = .ok e := by cases isAnd <;> exact h
  obtain ⟨t, a', b', rfl⟩ := mkBin_shape hm
  have he := mkBin_eval opq hm ρ
  have : truth opq ρ (.bin t (opOf isAnd) a' b') = truth opq ρ (.bin t (opOf isAnd) a b) := by
    unfold truth; rw [he]; simp only [eval]
  rw [this, truth_op]

theorem foldlM_chain_truth (isAnd : Bool) (ρ : Env) : ∀ (rest : List Expr) (psi r : Expr),
    rest.foldlM (fun acc c => mkOf isAnd c acc) psi = .ok r →
    truth opq ρ r = (do let x ← truth opq ρ psi; let y ← juncT opq isAnd ρ rest; pure (fOf isAnd x y))
  | [], psi, r, h => by
      simp only [List.foldlM_nil, pure, Except.pure, Except.ok.injEq] at h
      subst h
      rw [juncT_nil]
      cases truth opq ρ psi <;> simp [bind, Option.bind, pure, fOf_unit]
  | c :: rest, psi, r, h => by
      rw [List.foldlM_cons] at h
      obtain ⟨psi', hpsi, h⟩ := bind_ok h
      rw [foldlM_chain_truth isAnd ρ rest psi' r h, mkOf_truth opq isAnd hpsi ρ, juncT_cons]
      cases truth opq ρ c <;> cases truth opq ρ psi <;> cases juncT opq isAnd ρ rest <;> simp [bind, Option.bind, pure]
      rename_i x y z
      rw [fOf_comm isAnd x y, fOf_assoc]

theorem chain_truth (isAnd : Bool) (ρ : Env) {u : List Expr} {r : Expr} (h : chain (mkOf isAnd) u = .ok r) :
    truth opq ρ r = juncT opq isAnd ρ u := by
  cases u with
  | nil => simp [chain] at h
  | cons c0 u1 =>
    cases u1 with
    | nil =>
      simp only [chain, Except.ok.injEq] at h; subst h
      rw [juncT_cons, juncT_nil]
      cases truth opq ρ c0 <;> simp [bind, Option.bind, pure, fOf_unit]
    | cons c1 rest =>
      simp only [chain] at h
      obtain ⟨psi, hpsi, h⟩ := bind_ok h
      rw [foldlM_chain_truth opq isAnd ρ rest psi r h, mkOf_truth opq isAnd hpsi ρ, juncT_cons, juncT_cons]
      cases truth opq ρ c0 <;> cases truth opq ρ c1 <;> cases juncT opq isAnd ρ rest <;> simp [bind, Option.bind, pure, fOf_assoc]

/-! ## `dedupeJuncts`, and the two rule functions at the level of truth values -/

theorem dedupeJuncts_truth (isAnd : Bool) (t : DataType) (phi p q r : Expr)
    (h : dedupeJuncts (opOf isAnd) (mkOf isAnd) phi p q = .ok r) (ρ : Env) :
    truth opq ρ r = truth opq ρ (.bin t (opOf isAnd) p q) := by
  rw [truth_op]
  have hjs : juncT opq isAnd ρ (getJuncts (opOf isAnd) p ++ getJuncts (opOf isAnd) q) =
      (do let a ← truth opq ρ p; let b ← truth opq ρ q; pure (fOf isAnd a b)) := by
    rw [juncT_append, getJuncts_sem, getJuncts_sem]
  unfold dedupeJuncts at h
  simp only at h
  split at h
  · split at h
    · rename_i hone
      -- a single distinct operand: it is the head of the flattened list
      cases h
      rw [← hjs, ← dedupe_sem]
      have hl : (dedupe (getJuncts (opOf isAnd) p ++ getJuncts (opOf isAnd) q)).length = 1 := by simpa using hone
      rw [← dedupe_head]
      cases hd : dedupe (getJuncts (opOf isAnd) p ++ getJuncts (opOf isAnd) q) with
      | nil => rw [hd] at hl; simp at hl
      | cons c rest =>
        rw [hd] at hl
        have : rest = [] := by cases rest with | nil => rfl | cons _ _ => simp at hl
        subst this
        simp only [List.headD]
        rw [juncT_cons, juncT_nil]
        cases truth opq ρ c <;> simp [bind, Option.bind, pure, fOf_unit]
    · rw [chain_truth opq isAnd ρ h, dedupe_sem, hjs]
  · exact mkOf_truth opq isAnd h ρ


/-! ## the two rule functions: truth level, then value level -/

theorem simpConjunction_truth (t : DataType) (phi p q r : Expr) (h : simpConjunction phi p q = .ok r) :
    PreservesTruth opq r (.bin t Gen.AND_OPERATOR p q) := by
  unfold simpConjunction at h
  by_cases h1 : isFalseLit p = true
  · simp only [h1, ↓reduceIte, Except.ok.injEq] at h
    cases h
    exact simpConjunction_head opq t p q _ (by simp only [h1, Bool.false_eq_true, ↓reduceIte])
  by_cases h2 : isFalseLit q = true
  · simp only [h1, h2, Bool.false_eq_true, ↓reduceIte, Except.ok.injEq] at h
    cases h
    exact simpConjunction_head opq t p q _ (by simp only [h1, h2, Bool.false_eq_true, ↓reduceIte])
  by_cases h3 : isTrueLit p = true
  · simp only [h1, h2, h3, Bool.false_eq_true, ↓reduceIte, Except.ok.injEq] at h
    cases h
    exact simpConjunction_head opq t p q _ (by simp only [h1, h2, h3, Bool.false_eq_true, ↓reduceIte])
  by_cases h4 : isTrueLit q = true
  · simp only [h1, h2, h3, h4, Bool.false_eq_true, ↓reduceIte, Except.ok.injEq] at h
    cases h
    exact simpConjunction_head opq t p q _ (by simp only [h1, h2, h3, h4, Bool.false_eq_true, ↓reduceIte])
  by_cases h5 : (p == q) = true
  · simp only [h1, h2, h3, h4, h5, Bool.false_eq_true, ↓reduceIte, Except.ok.injEq] at h
    cases h
    exact simpConjunction_head opq t p q _ (by simp only [h1, h2, h3, h4, h5, Bool.false_eq_true, ↓reduceIte])
  by_cases h6 : obviouslyDifferent p q = true
  · simp only [h1, h2, h3, h4, h5, h6, Bool.false_eq_true, ↓reduceIte, Except.ok.injEq] at h
    cases h
    exact simpConjunction_head opq t p q _ (by simp only [h1, h2, h3, h4, h5, h6, Bool.false_eq_true, ↓reduceIte])
  simp only [h1, h2, h3, h4, h5, h6, Bool.false_eq_true, ↓reduceIte] at h
  intro ρ v hv
  rw [dedupeJuncts_truth opq true t phi p q r h ρ]; exact hv

theorem simpDisjunction_truth (t : DataType) (phi p q r : Expr) (h : simpDisjunction phi p q = .ok r) :
    PreservesTruth opq r (.bin t Gen.OR_OPERATOR p q) := by
  unfold simpDisjunction at h
  by_cases h1 : isTrueLit p = true
  · simp only [h1, ↓reduceIte, Except.ok.injEq] at h
    cases h
    exact simpDisjunction_head opq t p q _ (by simp only [h1, Bool.false_eq_true, ↓reduceIte])
  by_cases h2 : isTrueLit q = true
  · simp only [h1, h2, Bool.false_eq_true, ↓reduceIte, Except.ok.injEq] at h
    cases h
    exact simpDisjunction_head opq t p q _ (by simp only [h1, h2, Bool.false_eq_true, ↓reduceIte])
  by_cases h3 : isFalseLit p = true
  · simp only [h1, h2, h3, Bool.false_eq_true, ↓reduceIte, Except.ok.injEq] at h
    cases h
    exact simpDisjunction_head opq t p q _ (by simp only [h1, h2, h3, Bool.false_eq_true, ↓reduceIte])
  by_cases h4 : isFalseLit q = true
  · simp only [h1, h2, h3, h4, Bool.false_eq_true, ↓reduceIte, Except.ok.injEq] at h
    cases h
    exact simpDisjunction_head opq t p q _ (by simp only [h1, h2, h3, h4, Bool.false_eq_true, ↓reduceIte])
  by_cases h5 : (p == q) = true
  · simp only [h1, h2, h3, h4, h5, Bool.false_eq_true, ↓reduceIte, Except.ok.injEq] at h
    cases h
    exact simpDisjunction_head opq t p q _ (by simp only [h1, h2, h3, h4, h5, Bool.false_eq_true, ↓reduceIte])
  by_cases h6 : obviouslyDifferent p q = true
  · simp only [h1, h2, h3, h4, h5, h6, Bool.false_eq_true, ↓reduceIte, Except.ok.injEq] at h
    cases h
    exact simpDisjunction_head opq t p q _ (by simp only [h1, h2, h3, h4, h5, h6, Bool.false_eq_true, ↓reduceIte])
  simp only [h1, h2, h3, h4, h5, h6, Bool.false_eq_true, ↓reduceIte] at h
  intro ρ v hv
  rw [dedupeJuncts_truth opq false t phi p q r h ρ]; exact hv

/-- a boolean connective evaluates to a boolean -/
theorem boolOp_value {op : String} (hop : op = "and" ∨ op = "or" ∨ op = "implies" ∨ op = "iff") {x y v : Value}
    (h : binOp op x y = .ok v) : ∃ c, v = Value.bool c := by
  have key : ∀ (F : Bool → Bool → Bool), (do let a ← asBool x; let b ← asBool y; pure (Value.bool (F a b)) : EM Value) = .ok v → ∃ c, v = Value.bool c := by
    intro F hF
    cases hx : asBool x with
    | error e => rw [hx] at hF; simp [bind, Except.bind] at hF
    | ok a =>
      cases hy : asBool y with
      | error e => rw [hx, hy] at hF; simp [bind, Except.bind] at hF
      | ok b => rw [hx, hy] at hF; simp only [bind, Except.bind, pure, Except.pure, Except.ok.injEq] at hF; exact ⟨_, hF.symm⟩
  rcases hop with rfl | rfl | rfl | rfl
  · rw [binOp_and] at h; exact key _ h
  · rw [binOp_or] at h; exact key _ h
  · rw [binOp_implies] at h; exact key (fun a b => !a || b) h
  · rw [binOp_iff] at h; exact key (fun a b => a == b) h

/-- truth-level preservation is value-level preservation when the original is a boolean connective -/
theorem pres_of_truth {op : String} (hop : op = "and" ∨ op = "or" ∨ op = "implies" ∨ op = "iff") {t : DataType} {p q r : Expr}
    (h : PreservesTruth opq r (.bin t op p q)) : Pres opq r (.bin t op p q) := by
  intro ρ v hv
  obtain ⟨x, y, _, _, hb⟩ := (eval_bin_ok opq).1 hv
  obtain ⟨c, rfl⟩ := boolOp_value hop hb
  exact (truth_eq_some opq).1 (h ρ c ((truth_eq_some opq).2 hv))

theorem simpConjunction_sound (t : DataType) (phi p q r : Expr) (h : simpConjunction phi p q = .ok r) :
    Pres opq r (.bin t "and" p q) :=
  pres_of_truth opq (Or.inl rfl) (simpConjunction_truth opq t phi p q r h)

theorem simpDisjunction_sound (t : DataType) (phi p q r : Expr) (h : simpDisjunction phi p q = .ok r) :
    Pres opq r (.bin t "or" p q) :=
  pres_of_truth opq (Or.inr (Or.inl rfl)) (simpDisjunction_truth opq t phi p q r h)


/-! ## congruence: rebuilding an operator around preserved operands -/

theorem pres_mkBin {op : String} {t : DataType} {a b a' b' r : Expr} (ha : Pres opq a' a) (hb : Pres opq b' b)
    (h : mkBin op a' b' = .ok r) : Pres opq r (.bin t op a b) := by
  intro ρ v hv
  obtain ⟨x, y, hx, hy, hop⟩ := (eval_bin_ok opq).1 hv
  exact mkBin_ok_eval opq h (ha ρ x hx) (hb ρ y hy) hop

theorem pres_mkUn {op : String} {t : DataType} {a a' r : Expr} (ha : Pres opq a' a) (h : mkUn op a' = .ok r) :
    Pres opq r (.un t op a) := by
  intro ρ v hv
  obtain ⟨x, hx, hop⟩ := (eval_un_ok opq).1 hv
  exact mkUn_ok_eval opq h (ha ρ x hx) hop

theorem pres_bin_congr {op : String} {t t' : DataType} {a b a' b' : Expr} (ha : Pres opq a' a) (hb : Pres opq b' b) :
    Pres opq (.bin t' op a' b') (.bin t op a b) := by
  intro ρ v hv
  obtain ⟨x, y, hx, hy, hop⟩ := (eval_bin_ok opq).1 hv
  exact (eval_bin_ok opq).2 ⟨x, y, ha ρ x hx, hb ρ y hy, hop⟩

/-! ## the flip of `_pre_simplify_binop`: commutative operators and the inverse table -/

theorem prim_eq_comm (a b : Prim) : Prim.eq a b = Prim.eq b a := by
  cases a <;> cases b <;> simp [Prim.eq, Prim.isNumeric, Bool.beq_comm] <;> first | rfl | (congr 1; exact Bool.beq_comm ..) | skip
  all_goals simp [BEq.comm]


/-- the operators flagged commutative (table G2) are commutative where they are defined -/
theorem binOp_comm_ok {op : String} (hop : op = "+" ∨ op = "*" ∨ op = "iff" ∨ op = "or" ∨ op = "and" ∨ op = "=" ∨ op = "!=")
    {x y v : Value} (h : binOp op x y = .ok v) : binOp op y x = .ok v := by
  rcases hop with rfl | rfl | rfl | rfl | rfl | rfl | rfl
  · obtain ⟨qx, qy, rfl, rfl, rfl⟩ := arith_ok binOp_add h
    rw [binOp_add_num]; congr 2; grind
  · obtain ⟨qx, qy, rfl, rfl, rfl⟩ := arith_ok binOp_mul h
    rw [binOp_mul_num]; congr 2; grind
  · rw [binOp_iff] at h ⊢
    cases hx : asBool x with
    | error e => rw [hx] at h; simp [bind, Except.bind] at h
    | ok a =>
      cases hy : asBool y with
      | error e => rw [hx, hy] at h; simp [bind, Except.bind] at h
      | ok b => rw [hx, hy] at h; simp only [bind, Except.bind, pure, Except.pure, Except.ok.injEq] at h ⊢; rw [← h]; cases a <;> cases b <;> rfl
  · rw [binOp_or] at h ⊢
    cases hx : asBool x with
    | error e => rw [hx] at h; simp [bind, Except.bind] at h
    | ok a =>
      cases hy : asBool y with
      | error e => rw [hx, hy] at h; simp [bind, Except.bind] at h
      | ok b => rw [hx, hy] at h; simp only [bind, Except.bind, pure, Except.pure, Except.ok.injEq] at h ⊢; rw [← h]; cases a <;> cases b <;> rfl
  · rw [binOp_and] at h ⊢
    cases hx : asBool x with
    | error e => rw [hx] at h; simp [bind, Except.bind] at h
    | ok a =>
      cases hy : asBool y with
      | error e => rw [hx, hy] at h; simp [bind, Except.bind] at h
      | ok b => rw [hx, hy] at h; simp only [bind, Except.bind, pure, Except.pure, Except.ok.injEq] at h ⊢; rw [← h]; cases a <;> cases b <;> rfl
  · rw [binOp_eq] at h ⊢
    cases hx : asPrim x with
    | error e => rw [hx] at h; simp [bind, Except.bind] at h
    | ok a =>
      cases hy : asPrim y with
      | error e => rw [hx, hy] at h; simp [bind, Except.bind] at h
      | ok b => rw [hx, hy] at h; simp only [bind, Except.bind] at h ⊢; rw [prim_eq_comm b a]; exact h
  · rw [binOp_ne] at h ⊢
    cases hx : asPrim x with
    | error e => rw [hx] at h; simp [bind, Except.bind] at h
    | ok a =>
      cases hy : asPrim y with
      | error e => rw [hx, hy] at h; simp [bind, Except.bind] at h
      | ok b => rw [hx, hy] at h; simp only [bind, Except.bind] at h ⊢; rw [prim_eq_comm b a]; exact h

/-- the inverse table (G4) for the order comparisons: `a < b` is `b > a`, `a <= b` is `b >= a` -/
theorem binOp_inverse_ok {op inv : String} (hop : (op, inv) = ("<", ">") ∨ (op, inv) = (">", "<") ∨ (op, inv) = ("<=", ">=") ∨ (op, inv) = (">=", "<="))
    {x y v : Value} (h : binOp op x y = .ok v) : binOp inv y x = .ok v := by
  have key : ∀ (F G : Prim → Prim → EM Value), (∀ a b, F a b = G b a) →
      (do let a ← asPrim x; let b ← asPrim y; F a b) = .ok v → (do let a ← asPrim y; let b ← asPrim x; G a b) = .ok v := by
    intro F G hFG hF
    cases hx : asPrim x with
    | error e => rw [hx] at hF; simp [bind, Except.bind] at hF
    | ok a =>
      cases hy : asPrim y with
      | error e => rw [hx, hy] at hF; simp [bind, Except.bind] at hF
      | ok b => rw [hx, hy] at hF; simp only [bind, Except.bind] at hF ⊢; rw [← hFG]; exact hF
  rcases hop with hh | hh | hh | hh <;> cases hh
  · rw [binOp_lt] at h; rw [binOp_gt]; exact key _ _ (fun a b => rfl) h
  · rw [binOp_gt] at h; rw [binOp_lt]; exact key _ _ (fun a b => rfl) h
  · rw [binOp_le] at h; rw [binOp_ge]; exact key _ _ (fun a b => rfl) h
  · rw [binOp_ge] at h; rw [binOp_le]; exact key _ _ (fun a b => rfl) h

/-- swapping the operands of a commutative operator, or swapping them under the inverse comparison, preserves the value -/
theorem pres_flip_comm {op : String} (hop : op = "+" ∨ op = "*" ∨ op = "iff" ∨ op = "or" ∨ op = "and" ∨ op = "=" ∨ op = "!=")
    {t : DataType} {a b a' b' r : Expr} (ha : Pres opq a' a) (hb : Pres opq b' b) (h : mkBin op b' a' = .ok r) :
    Pres opq r (.bin t op a b) := by
  intro ρ v hv
  obtain ⟨x, y, hx, hy, hbin⟩ := (eval_bin_ok opq).1 hv
  exact mkBin_ok_eval opq h (hb ρ y hy) (ha ρ x hx) (binOp_comm_ok hop hbin)

theorem pres_flip_inverse {op inv : String} (hop : (op, inv) = ("<", ">") ∨ (op, inv) = (">", "<") ∨ (op, inv) = ("<=", ">=") ∨ (op, inv) = (">=", "<="))
    {t : DataType} {a b a' b' r : Expr} (ha : Pres opq a' a) (hb : Pres opq b' b) (h : mkBin inv b' a' = .ok r) :
    Pres opq r (.bin t op a b) := by
  intro ρ v hv
  obtain ⟨x, y, hx, hy, hbin⟩ := (eval_bin_ok opq).1 hv
  exact mkBin_ok_eval opq h (hb ρ y hy) (ha ρ x hx) (binOp_inverse_ok hop hbin)

/-! ## negation, negative numbers, implication, equivalence -/

/-- `_simplify_negation` on the simplified operand -/
theorem negationRule_sound {t : DataType} {a p r : Expr}
    (h : (if isTrueLit p then pure falseLit
      else if isFalseLit p then pure trueLit
      else match p with
        | .un _ op2 x => if op2 == Gen.NOT_OPERATOR then pure x else mkNot p
        | _ => mkNot p : M Expr) = .ok r) (hp : Pres opq p a) : Pres opq r (.un t Gen.NOT_OPERATOR a) := by
  intro ρ v hv
  obtain ⟨x, hx, hop⟩ := (eval_un_ok opq).1 hv
  rw [show Gen.NOT_OPERATOR = "not" from rfl, unOp_not] at hop
  cases hb : asBool x with
  | error e => rw [hb] at hop; simp [bind, Except.bind] at hop
  | ok c =>
    rw [hb] at hop
    simp only [bind, Except.bind, pure, Except.pure, Except.ok.injEq] at hop
    subst hop
    have hxv := asBool_ok.1 hb
    subst hxv
    have hpx := hp ρ _ hx
    have htp : truth opq ρ p = some c := (truth_eq_some opq).2 hpx
    have viaNot : ∀ r, mkNot p = .ok r → eval opq ρ r = .ok (Value.bool !c) := by
      intro r hr
      exact mkUn_ok_eval opq hr hpx (by rw [show Gen.NOT_OPERATOR = "not" from rfl, unOp_not]; rfl)
    split at h
    · rename_i ht
      cases h
      rw [truth_isTrueLit opq ρ p ht] at htp; cases htp; rfl
    · split at h
      · rename_i hf
        cases h
        rw [isFalseLit_truth ρ opq p hf] at htp; cases htp; rfl
      · cases p with
        | un t2 op2 x2 =>
          simp only at h
          split at h
          · rename_i hn
            cases h
            have : op2 = Gen.NOT_OPERATOR := eq_of_beq hn
            subst this
            obtain ⟨xv, hxv, hu⟩ := (eval_un_ok opq).1 hpx
            rw [show Gen.NOT_OPERATOR = "not" from rfl, unOp_not] at hu
            cases hb2 : asBool xv with
            | error e => rw [hb2] at hu; simp [bind, Except.bind] at hu
            | ok d =>
              rw [hb2] at hu
              simp only [bind, Except.bind, pure, Except.pure, Except.ok.injEq, Value.bool, Value.prim.injEq, Prim.bool.injEq] at hu
              rw [hxv, asBool_ok.1 hb2]
              cases d <;> cases c <;> simp_all [Value.bool]
          · exact viaNot r h
        | lit _ _ _ | this _ | var _ _ | set _ _ | range _ _ _ _ _ | quant _ _ _ _ _ | bin _ _ _ _ | call _ _ _ | field _ _ _ | index _ _ _ =>
          exact viaNot r h


/-! ## implication and equivalence: the rewrites applied before re-entering the simplifier -/

theorem truth_iff (ρ : Env) (t : DataType) (p q : Expr) :
    truth opq ρ (.bin t Gen.IFF_OPERATOR p q) = (do let a ← truth opq ρ p; let b ← truth opq ρ q; pure (a == b)) :=
  truth_boolOp opq boolOp_iff ρ t p q

/-- `a implies a` is `True`; otherwise `a implies b` is rewritten to `(not a) or b` -/
theorem impliesRule_sound {t : DataType} {a b r : Expr}
    (h : (if a == b then pure trueLit else do let na ← mkNot a; mkOr na b : M Expr) = .ok r) : Pres opq r (.bin t "implies" a b) := by
  apply pres_of_truth opq (Or.inr (Or.inr (Or.inl rfl)))
  intro ρ v hv
  rw [show ("implies" : String) = Gen.IMPLIES_OPERATOR from rfl, truth_implies] at hv
  split at h
  · rename_i heq
    cases h
    have : a = b := expr_eq_of_beq heq
    subst this
    cases ha : truth opq ρ a with
    | none => simp [ha, bind, Option.bind] at hv
    | some x => simp [ha, bind, Option.bind, pure] at hv; subst hv; cases x <;> rfl
  · obtain ⟨na, hna, h⟩ := bind_ok h
    have hor := mkOf_truth opq false h ρ
    simp only [fOf, Bool.false_eq_true, ↓reduceIte] at hor
    rw [hor]
    have hnot : truth opq ρ na = (truth opq ρ a).map (!·) := by
      have := mkUn_eval opq hna ρ
      unfold truth
      rw [this]
      cases hea : eval opq ρ a with
      | error e => simp [bind, Except.bind, Except.toOption, Option.map]
      | ok x =>
        simp only [bind, Except.bind]
        rw [show Gen.NOT_OPERATOR = "not" from rfl, unOp_not]
        cases hb : asBool x <;> simp [bind, Except.bind, pure, Except.pure, Except.toOption, Option.map, asBool, Value.bool]
    rw [hnot]
    cases ha : truth opq ρ a with
    | none => simp [ha, bind, Option.bind] at hv
    | some x =>
      cases hb : truth opq ρ b with
      | none => simp [ha, hb, bind, Option.bind] at hv
      | some y => simp [ha, hb, bind, Option.bind, pure] at hv ⊢; exact hv


/-- `_simplify_negative_number` on the simplified operand -/
theorem negNumberRule_sound {t : DataType} {a a' r : Expr}
    (h : (match numLit? a' with
      | some v => do let n ← pyNeg v; litNumber n
      | none =>
        match a' with
        | .un _ op x => if op == "-" then pure x else mkMinus a'
        | _ => mkMinus a' : M Expr) = .ok r) (hp : Pres opq a' a) : Pres opq r (.un t "-" a) := by
  intro ρ v hv
  obtain ⟨x, hx, hop⟩ := (eval_un_ok opq).1 hv
  rw [unOp_neg] at hop
  cases hn : asNum x with
  | error e => rw [hn] at hop; simp [bind, Except.bind] at hop
  | ok q =>
    rw [hn] at hop
    simp only [bind, Except.bind, pure, Except.pure, Except.ok.injEq] at hop
    subst hop
    have hxq := asNum_ok.1 hn
    subst hxq
    have hpx := hp ρ _ hx
    have viaMinus : ∀ r, mkMinus a' = .ok r → eval opq ρ r = .ok (Value.num (-q)) := fun r hr => mkUn_ok_eval opq hr hpx (unOp_neg_num q)
    cases hl : numLit? a' with
    | some lv =>
      rw [hl] at h
      simp only at h
      obtain ⟨n, hneg, h⟩ := bind_ok h
      rw [litNumber_eval opq h ρ]
      cases a' with
      | lit ta ka va =>
        simp only [numLit?] at hl
        split at hl
        · cases hl
          have hval : litValue lv = .ok (Value.num q) := by rw [← eval_lit opq ρ ta ka lv]; exact hpx
          rcases litValue_num hval with ⟨rfl, hd⟩ | rfl
          · simp only [pyNeg, Except.ok.injEq] at hneg; subst hneg
            simp only [litValue, Except.ok.injEq, Value.num, Value.prim.injEq, Prim.num.injEq]
            have : (q.num : Rat) = q := Rat.ext (by simp) (by simp [hd])
            rw [← this]; simp
          · simp only [pyNeg, Except.ok.injEq] at hneg; subst hneg; rfl
        · cases hl
      | _ => simp [numLit?] at hl
    | none =>
      rw [hl] at h
      simp only at h
      cases a' with
      | un t2 op2 x2 =>
        simp only at h
        split at h
        · rename_i hm
          cases h
          have : op2 = "-" := eq_of_beq hm
          subst this
          obtain ⟨xv, hxv, hu⟩ := (eval_un_ok opq).1 hpx
          rw [unOp_neg] at hu
          cases hn2 : asNum xv with
          | error e => rw [hn2] at hu; simp [bind, Except.bind] at hu
          | ok q2 =>
            rw [hn2] at hu
            simp only [bind, Except.bind, pure, Except.pure, Except.ok.injEq, Value.num, Value.prim.injEq, Prim.num.injEq] at hu
            rw [hxv, asNum_ok.1 hn2]; congr 2; rw [← hu]; grind
        · exact viaMinus r h
      | lit _ _ _ | this _ | var _ _ | set _ _ | range _ _ _ _ _ | quant _ _ _ _ _ | bin _ _ _ _ | call _ _ _ | field _ _ _ | index _ _ _ =>
        exact viaMinus r h

end
end Hpl
