import Hpl.Props.C08b
import Hpl.Lemmas.Dedup
/-!
# C08 — the recursion of `simplify` over the whole term

`simp_sound`: every result of the model of `hpl.rewrite._simplify` preserves the value of its input under every
valuation on which the input evaluates (`Pres`), by induction on the fuel of the mutually recursive model functions
(`simp`, `simpList`, `simpNeg`, `simpBinop`, `simpMultiplication`, `preBinop`, `simpCall`).  The folding of built-in
function calls is isolated in the hypothesis `CallFoldSound` (see there).
-/
namespace Hpl
section
variable (opq : Opaque)

/-! ## what the generated operator table says about the operators that are flipped and re-associated -/

theorem findBin_token {op : String} {d : BinDef} (h : findBin op = some d) : d ∈ Gen.binOps ∧ d.token = op := by
  unfold findBin at h
  have h2 := List.find?_some h
  exact ⟨List.mem_of_find?_eq_some h, eq_of_beq h2⟩

theorem lookup_mem {k v : String} : ∀ {l : List (String × String)}, l.lookup k = some v → (k, v) ∈ l
  | [], h => by simp [List.lookup] at h
  | (k', v') :: l, h => by
      simp only [List.lookup] at h
      split at h
      · rename_i heq; cases h; have := eq_of_beq heq; subst this; simp
      · exact List.mem_cons_of_mem _ (lookup_mem h)

theorem findBin_comm {op : String} {d : BinDef} (h : findBin op = some d) (hc : d.comm = true) :
    op = "+" ∨ op = "*" ∨ op = "iff" ∨ op = "or" ∨ op = "and" ∨ op = "=" ∨ op = "!=" := by
  obtain ⟨hm, rfl⟩ := findBin_token h
  have : ∀ d ∈ Gen.binOps, d.comm = true → d.token = "+" ∨ d.token = "*" ∨ d.token = "iff" ∨ d.token = "or" ∨ d.token = "and" ∨ d.token = "=" ∨ d.token = "!=" := by decide
  exact this d hm hc

theorem findBin_assoc {op : String} {d : BinDef} (h : findBin op = some d) (hc : d.assoc = true) :
    op = "+" ∨ op = "*" ∨ op = "iff" ∨ op = "or" ∨ op = "and" := by
  obtain ⟨hm, rfl⟩ := findBin_token h
  have : ∀ d ∈ Gen.binOps, d.assoc = true → d.token = "+" ∨ d.token = "*" ∨ d.token = "iff" ∨ d.token = "or" ∨ d.token = "and" := by decide
  exact this d hm hc

/-- a non-commutative operator with an entry in `INVERSE_OPERATORS` is one of the four order comparisons -/
theorem findBin_inverse {op inv : String} {d : BinDef} (h : findBin op = some d) (hc : d.comm = false)
    (hi : Gen.inverseOps.lookup op = some inv) :
    (op, inv) = ("<", ">") ∨ (op, inv) = (">", "<") ∨ (op, inv) = ("<=", ">=") ∨ (op, inv) = (">=", "<=") := by
  obtain ⟨hm, rfl⟩ := findBin_token h
  have : ∀ d ∈ Gen.binOps, d.comm = false → ∀ p ∈ Gen.inverseOps, p.1 = d.token →
      (d.token, p.2) = ("<", ">") ∨ (d.token, p.2) = (">", "<") ∨ (d.token, p.2) = ("<=", ">=") ∨ (d.token, p.2) = (">=", "<=") := by decide
  exact this d hm hc _ (lookup_mem hi) rfl

/-! ## associative-commutative operators: one carrier per operator -/

/-- an operator that, on the values where it is defined, is an associative and commutative operation `g` on a carrier -/
structure ACCarrier (op : String) where
  α : Type
  inj : α → Value
  g : α → α → α
  spec : ∀ x y v, binOp op x y = .ok v ↔ ∃ a b, x = inj a ∧ y = inj b ∧ v = inj (g a b)
  comm : ∀ a b, g a b = g b a
  assoc : ∀ a b c, g (g a b) c = g a (g b c)
  inj_inj : ∀ a b, inj a = inj b → a = b

theorem num_spec {f : Rat → Rat → Rat} {op : String}
    (hop : ∀ a b, binOp op a b = (do let x ← asNum a; let y ← asNum b; pure (Value.num (f x y)))) (x y v : Value) :
    binOp op x y = .ok v ↔ ∃ a b, x = Value.num a ∧ y = Value.num b ∧ v = Value.num (f a b) := by
  constructor
  · exact arith_ok hop
  · rintro ⟨a, b, rfl, rfl, rfl⟩; rw [hop]; rfl

theorem bool_spec {f : Bool → Bool → Bool} {op : String}
    (hop : ∀ a b, binOp op a b = (do let x ← asBool a; let y ← asBool b; pure (Value.bool (f x y)))) (x y v : Value) :
    binOp op x y = .ok v ↔ ∃ a b, x = Value.bool a ∧ y = Value.bool b ∧ v = Value.bool (f a b) := by
  constructor
  · intro h
    rw [hop] at h
    cases hx : asBool x with
    | error e => rw [hx] at h; simp [bind, Except.bind] at h
    | ok a =>
      cases hy : asBool y with
      | error e => rw [hx, hy] at h; simp [bind, Except.bind] at h
      | ok b =>
        rw [hx, hy] at h
        simp only [bind, Except.bind, pure, Except.pure, Except.ok.injEq] at h
        exact ⟨a, b, asBool_ok.1 hx, asBool_ok.1 hy, h.symm⟩
  · rintro ⟨a, b, rfl, rfl, rfl⟩; rw [hop]; rfl

theorem num_inj (a b : Rat) (h : Value.num a = Value.num b) : a = b := by
  simpa [Value.num] using h
theorem bool_inj (a b : Bool) (h : Value.bool a = Value.bool b) : a = b := by
  simpa [Value.bool] using h

def acAdd : ACCarrier "+" := ⟨Rat, Value.num, (· + ·), num_spec binOp_add, fun a b => by grind, fun a b c => by grind, num_inj⟩
def acMul : ACCarrier "*" := ⟨Rat, Value.num, (· * ·), num_spec binOp_mul, fun a b => by grind, fun a b c => by grind, num_inj⟩
def acAnd : ACCarrier "and" := ⟨Bool, Value.bool, (· && ·), bool_spec binOp_and, fun a b => by cases a <;> cases b <;> rfl,
  fun a b c => by cases a <;> cases b <;> cases c <;> rfl, bool_inj⟩
def acOr : ACCarrier "or" := ⟨Bool, Value.bool, (· || ·), bool_spec binOp_or, fun a b => by cases a <;> cases b <;> rfl,
  fun a b c => by cases a <;> cases b <;> cases c <;> rfl, bool_inj⟩
def acIff : ACCarrier "iff" := ⟨Bool, Value.bool, (· == ·), bool_spec binOp_iff, fun a b => by cases a <;> cases b <;> rfl,
  fun a b c => by cases a <;> cases b <;> cases c <;> rfl, bool_inj⟩

theorem acCarrier_of {op : String} (hop : op = "+" ∨ op = "*" ∨ op = "iff" ∨ op = "or" ∨ op = "and") : Nonempty (ACCarrier op) := by
  rcases hop with rfl | rfl | rfl | rfl | rfl
  · exact ⟨acAdd⟩
  · exact ⟨acMul⟩
  · exact ⟨acIff⟩
  · exact ⟨acOr⟩
  · exact ⟨acAnd⟩

/-- evaluation of an application of such an operator, in carrier terms -/
theorem ac_eval {op : String} (C : ACCarrier op) {ρ : Env} {t : DataType} {p q : Expr} {v : Value} :
    eval opq ρ (.bin t op p q) = .ok v ↔ ∃ a b, eval opq ρ p = .ok (C.inj a) ∧ eval opq ρ q = .ok (C.inj b) ∧ v = C.inj (C.g a b) := by
  rw [eval_bin_ok]
  constructor
  · rintro ⟨x, y, hx, hy, h⟩
    obtain ⟨a, b, rfl, rfl, rfl⟩ := (C.spec x y v).1 h
    exact ⟨a, b, hx, hy, rfl⟩
  · rintro ⟨a, b, hx, hy, rfl⟩
    exact ⟨_, _, hx, hy, (C.spec _ _ _).2 ⟨a, b, rfl, rfl, rfl⟩⟩

/-- the value of a term built with the smart constructor from two evaluated operands -/
theorem ac_mk {op : String} (C : ACCarrier op) {ρ : Env} {p q e : Expr} {a b : C.α} (h : mkBin op p q = .ok e)
    (hp : eval opq ρ p = .ok (C.inj a)) (hq : eval opq ρ q = .ok (C.inj b)) : eval opq ρ e = .ok (C.inj (C.g a b)) :=
  mkBin_ok_eval opq h hp hq ((C.spec _ _ _).2 ⟨a, b, rfl, rfl, rfl⟩)

/-! ## the re-association step of `_pre_simplify_binop` -/

theorem sameOp_some {op : String} {z p q : Expr} (h : sameOp op z = some (p, q)) : ∃ t, z = .bin t op p q := by
  cases z with
  | bin t o x y =>
    simp only [sameOp] at h
    split at h
    · rename_i ho; cases h; exact ⟨t, by rw [eq_of_beq ho]⟩
    · cases h
  | _ => simp [sameOp] at h

/-- regrouping the (up to four) operands of an associative-commutative operator, re-simplifying the new groups with a
    sound simplifier `sb`, preserves the value -/
theorem reassoc_sound {op : String} (C : ACCarrier op) {sb : Expr → M Expr} (hsb : ∀ e r, sb e = .ok r → Pres opq r e)
    {t : DataType} {a b r : Expr} (h : reassoc op sb a b = .ok r) : Pres opq r (.bin t op a b) := by
  intro ρ v hv
  obtain ⟨va, vb, hea, heb, rfl⟩ := (ac_eval opq C).1 hv
  haveI : Std.Associative C.g := ⟨C.assoc⟩
  haveI : Std.Commutative C.g := ⟨C.comm⟩
  unfold reassoc at h
  split at h
  · rename_i a1 a2 b1 b2 hsa hsb'
    obtain ⟨ta, rfl⟩ := sameOp_some hsa
    obtain ⟨tb, rfl⟩ := sameOp_some hsb'
    obtain ⟨p1, p2, h1, h2, e1⟩ := (ac_eval opq C).1 hea
    obtain ⟨q1, q2, h3, h4, e2⟩ := (ac_eval opq C).1 heb
    have e1' := C.inj_inj _ _ e1
    have e2' := C.inj_inj _ _ e2
    subst e1' e2'
    obtain ⟨⟨a1', a2', b1', b2', a', b'⟩, htup, h⟩ := bind_ok h
    have good : ∃ x1 x2 y1 y2, eval opq ρ a1' = .ok (C.inj x1) ∧ eval opq ρ a2' = .ok (C.inj x2) ∧
        eval opq ρ b1' = .ok (C.inj y1) ∧ eval opq ρ b2' = .ok (C.inj y2) ∧ eval opq ρ a' = .ok (C.inj (C.g x1 x2)) ∧
        eval opq ρ b' = .ok (C.inj (C.g y1 y2)) ∧ C.g (C.g x1 x2) (C.g y1 y2) = C.g (C.g p1 p2) (C.g q1 q2) := by
      split at htup
      · obtain ⟨na, hna, htup⟩ := bind_ok htup
        obtain ⟨ra, hra, htup⟩ := bind_ok htup
        obtain ⟨nb, hnb, htup⟩ := bind_ok htup
        obtain ⟨rb, hrb, htup⟩ := bind_ok htup
        simp only [pure, Except.pure, Except.ok.injEq, Prod.mk.injEq] at htup
        obtain ⟨rfl, rfl, rfl, rfl, rfl, rfl⟩ := htup
        exact ⟨p1, q1, q2, p2, h1, h3, h4, h2, hsb _ _ hra ρ _ (ac_mk opq C hna h1 h3), hsb _ _ hrb ρ _ (ac_mk opq C hnb h4 h2), by ac_rfl⟩
      · simp only [pure, Except.pure, Except.ok.injEq, Prod.mk.injEq] at htup
        obtain ⟨rfl, rfl, rfl, rfl, rfl, rfl⟩ := htup
        exact ⟨p1, p2, q1, q2, h1, h2, h3, h4, hea, heb, rfl⟩
    obtain ⟨x1, x2, y1, y2, g1, g2, g3, g4, g5, g6, geq⟩ := good
    simp only at h
    split at h
    · obtain ⟨na, hna, h⟩ := bind_ok h
      obtain ⟨ra, hra, h⟩ := bind_ok h
      obtain ⟨nb, hnb, h⟩ := bind_ok h
      obtain ⟨rb, hrb, h⟩ := bind_ok h
      rw [ac_mk opq C h (hsb _ _ hra ρ _ (ac_mk opq C hna g3 g1)) (hsb _ _ hrb ρ _ (ac_mk opq C hnb g2 g4)), ← geq]
      congr 2; ac_rfl
    · rw [ac_mk opq C h g5 g6, geq]
  · rename_i a1 a2 hsa hnb
    obtain ⟨ta, rfl⟩ := sameOp_some hsa
    obtain ⟨p1, p2, h1, h2, e1⟩ := (ac_eval opq C).1 hea
    have e1' := C.inj_inj _ _ e1
    subst e1'
    split at h
    · obtain ⟨na, hna, h⟩ := bind_ok h
      obtain ⟨ra, hra, h⟩ := bind_ok h
      rw [ac_mk opq C h (hsb _ _ hra ρ _ (ac_mk opq C hna h1 heb)) h2]
      congr 2; ac_rfl
    · rw [ac_mk opq C h hea heb]
  · rename_i b1 b2 hna hsb'
    obtain ⟨tb, rfl⟩ := sameOp_some hsb'
    obtain ⟨q1, q2, h3, h4, e2⟩ := (ac_eval opq C).1 heb
    have e2' := C.inj_inj _ _ e2
    subst e2'
    split at h
    · obtain ⟨nb, hnb, h⟩ := bind_ok h
      obtain ⟨rb, hrb, h⟩ := bind_ok h
      rw [ac_mk opq C h h3 (hsb _ _ hrb ρ _ (ac_mk opq C hnb hea h4))]
      congr 2; ac_rfl
    · rw [ac_mk opq C h hea heb]
  · rw [ac_mk opq C h hea heb]

/-! ## `_simplify_multiplication` -/

theorem mul_ok {x y v : Value} (h : binOp "*" x y = .ok v) : ∃ qx qy, x = Value.num qx ∧ y = Value.num qy ∧ v = Value.num (qx * qy) :=
  arith_ok binOp_mul h

theorem isMinusOne_num {y : LitVal} {q : Rat} (hy : y.toRat? = some q) (h : isMinusOne y = true) : q = -1 := by
  unfold isMinusOne pyEq at h
  cases y <;> simp_all [LitVal.toRat?]

theorem mkUn_shape {op : String} {a e : Expr} (h : mkUn op a = .ok e) : ∃ t a', e = .un t op a' := by
  unfold mkUn at h
  split at h
  · cases h
  · obtain ⟨a', _, h⟩ := bind_ok h; cases h; exact ⟨_, _, rfl⟩

theorem isDivision_some {e x y : Expr} (h : isDivision e = some (x, y)) : ∃ t, e = .bin t "/" x y := by
  cases e with
  | bin t o p q =>
    simp only [isDivision] at h
    split at h
    · rename_i ho; cases h; exact ⟨t, by rw [eq_of_beq ho]⟩
    · cases h
  | _ => simp [isDivision] at h

theorem simpMultiplication_sound (f : Nat) (ihN : ∀ e a r, simpNeg f e a = .ok r → ∀ t, Pres opq r (.un t "-" a))
    (t : DataType) (a b r : Expr) (h : simpMultiplication (f + 1) (.bin t "*" a b) a b = .ok r) : Pres opq r (.bin t "*" a b) := by
  intro ρ v hv
  obtain ⟨x, y, hx, hy, hop⟩ := (eval_bin_ok opq).1 hv
  obtain ⟨qx, qy, rfl, rfl, rfl⟩ := mul_ok hop
  have cancelR : ∀ x' y', isDivision b = some (x', y') → (y' == a) = true → eval opq ρ x' = .ok (Value.num (qx * qy)) := by
    intro x' y' hd heq
    obtain ⟨tb, rfl⟩ := isDivision_some hd
    have : y' = a := expr_eq_of_beq heq
    subst this
    obtain ⟨u, w, hu, hw, hdiv⟩ := (eval_bin_ok opq).1 hy
    obtain ⟨qu, qw, rfl, rfl, hne, hq⟩ := div_ok hdiv
    rw [hx] at hw
    have : qx = qw := by simpa [Value.num] using hw
    subst this
    have : qy = qu / qx := by simpa [Value.num] using hq
    subst this
    rw [hu]; congr 2; grind
  have divRules : ∀ r, (match isDivision a with
      | some (x, y) => if (y == b) = true then (.ok x : M Expr) else
          (match isDivision b with | some (x', y') => if (y' == a) = true then .ok x' else .ok (.bin t "*" a b) | none => .ok (.bin t "*" a b))
      | none => match isDivision b with | some (x', y') => if (y' == a) = true then .ok x' else .ok (.bin t "*" a b) | none => .ok (.bin t "*" a b)) = .ok r →
      eval opq ρ r = .ok (Value.num (qx * qy)) := by
    intro r hr
    have tail : ∀ r, (match isDivision b with | some (x', y') => if (y' == a) = true then (.ok x' : M Expr) else .ok (.bin t "*" a b) | none => .ok (.bin t "*" a b)) = .ok r →
        eval opq ρ r = .ok (Value.num (qx * qy)) := by
      intro r hr
      split at hr
      · rename_i x' y' hd
        split at hr
        · rename_i heq; have hr' := Except.ok.inj hr; subst hr'; exact cancelR x' y' hd heq
        · cases hr; exact hv
      · cases hr; exact hv
    split at hr
    · rename_i x' y' hd
      split at hr
      · rename_i heq
        have hr' := Except.ok.inj hr; subst hr'
        obtain ⟨ta, rfl⟩ := isDivision_some hd
        have : y' = b := expr_eq_of_beq heq
        subst this
        obtain ⟨u, w, hu, hw, hdiv⟩ := (eval_bin_ok opq).1 hx
        obtain ⟨qu, qw, rfl, rfl, hne, hq⟩ := div_ok hdiv
        rw [hy] at hw
        have : qy = qw := by simpa [Value.num] using hw
        subst this
        have : qx = qu / qy := by simpa [Value.num] using hq
        subst this
        rw [hu]; congr 2; grind
      · exact tail r hr
    · exact tail r hr
  unfold simpMultiplication at h
  simp only at h
  cases hlb : litVal? b with
  | none => rw [hlb] at h; exact divRules r h
  | some yv =>
    rw [hlb] at h
    simp only at h
    obtain ⟨tb, kb, rfl⟩ := litVal_some hlb
    have hyv : yv.toRat? = some qy := toRat_of_num (by rw [← eval_lit opq ρ tb kb yv]; exact hy)
    split at h
    · rename_i hone
      cases h
      have := isOne_num hyv hone
      subst this
      have : qx * 1 = qx := by grind
      rw [this]; exact hx
    · split at h
      · rename_i hz
        cases h
        have := isZero_num hyv hz
        subst this
        have : qx * 0 = 0 := by grind
        rw [this]; exact hy
      · cases hla : litVal? a with
        | some xv =>
          rw [hla] at h
          simp only at h
          obtain ⟨ta, ka, rfl⟩ := litVal_some hla
          have hxv : xv.toRat? = some qx := toRat_of_num (by rw [← eval_lit opq ρ ta ka xv]; exact hx)
          split at h
          · rename_i hone
            cases h
            have := isOne_num hxv hone
            subst this
            have : 1 * qy = qy := by grind
            rw [this]; exact hy
          · split at h
            · rename_i hz
              cases h
              have := isZero_num hxv hz
              subst this
              have : 0 * qy = 0 := by grind
              rw [this]; exact hx
            · obtain ⟨z, hz, h⟩ := bind_ok h
              rw [litNumber_eval opq h ρ]
              exact pyArith_value hxv hyv hz
        | none =>
          rw [hla] at h
          simp only at h
          split at h
          · rename_i hm
            have := isMinusOne_num hyv hm
            subst this
            obtain ⟨m, hm', h⟩ := bind_ok h
            obtain ⟨tm, a', rfl⟩ := mkUn_shape hm'
            simp only at h
            have hme : eval opq ρ (.un tm "-" a') = .ok (Value.num (-qx)) := mkUn_ok_eval opq hm' hx (unOp_neg_num qx)
            have := ihN _ _ _ h tm ρ _ hme
            rw [this]; congr 2; grind
          · exact divRules r h

/-! ## equivalence -/

theorem iffRule_sound {simpf : Expr → M Expr} (hS : ∀ e r, simpf e = .ok r → Pres opq r e) {t : DataType} {a b r : Expr}
    (h : (if (a == b) = true then pure trueLit
          else if obviouslyDifferent a b = true then pure falseLit
          else do
            let i1 ← mkImplies a b; let i2 ← mkImplies b a
            let c ← mkAnd i1 i2
            simpf c : M Expr) = .ok r) : Pres opq r (.bin t "iff" a b) := by
  intro ρ v hv
  obtain ⟨vx, vy, hx, hy, hb⟩ := (eval_bin_ok opq).1 hv
  obtain ⟨x, y, rfl, rfl, rfl⟩ := (bool_spec binOp_iff _ _ _).1 hb
  split at h
  · rename_i heq
    cases h
    have : a = b := expr_eq_of_beq heq
    subst this
    rw [hx] at hy
    have : x = y := bool_inj _ _ (Except.ok.inj hy)
    subst this
    cases x <;> rfl
  · split at h
    · rename_i hd
      cases h
      have := obviouslyDifferent_bool opq a b hd ρ x y ((truth_eq_some opq).2 hx) ((truth_eq_some opq).2 hy)
      subst this
      cases y <;> rfl
    · obtain ⟨i1, h1, h⟩ := bind_ok h
      obtain ⟨i2, h2, h⟩ := bind_ok h
      obtain ⟨c, hc, h⟩ := bind_ok h
      have e1 : eval opq ρ i1 = .ok (Value.bool (!x || y)) :=
        mkBin_ok_eval opq h1 hx hy ((bool_spec binOp_implies _ _ _).2 ⟨x, y, rfl, rfl, rfl⟩)
      have e2 : eval opq ρ i2 = .ok (Value.bool (!y || x)) :=
        mkBin_ok_eval opq h2 hy hx ((bool_spec binOp_implies _ _ _).2 ⟨y, x, rfl, rfl, rfl⟩)
      have ec : eval opq ρ c = .ok (Value.bool ((!x || y) && (!y || x))) :=
        mkBin_ok_eval opq hc e1 e2 ((bool_spec binOp_and _ _ _).2 ⟨_, _, rfl, rfl, rfl⟩)
      have : ((!x || y) && (!y || x)) = (x == y) := by cases x <;> cases y <;> rfl
      rw [this] at ec
      exact hS _ _ h ρ _ ec

/-! ## set literals: dropping syntactically repeated members -/

theorem ebind_ok {ε α β : Type} {x : Except ε α} {f : α → Except ε β} {b : β}
    (h : (x >>= f) = .ok b) : ∃ a, x = .ok a ∧ f a = .ok b := by
  cases x with
  | error e => simp [bind, Except.bind] at h
  | ok a => exact ⟨a, rfl, by simpa [bind, Except.bind] using h⟩

/-- the primitive a member evaluates to (junk where it does not evaluate to one) -/
def primOf (ρ : Env) (e : Expr) : Prim := match eval opq ρ e with | .ok (.prim p) => p | _ => default

theorem primOf_eq {ρ : Env} {e : Expr} {p : Prim} (h : eval opq ρ e = .ok (.prim p)) : primOf opq ρ e = p := by
  simp [primOf, h]

theorem evalPrims_inv {ρ : Env} : ∀ {l : List Expr} {xs : List Value} {ps : List Prim},
    evalList opq ρ (ExprList.ofList l) = .ok xs → xs.mapM asPrim = .ok ps →
    (∀ e ∈ l, eval opq ρ e = .ok (.prim (primOf opq ρ e))) ∧ ps = l.map (primOf opq ρ)
  | [], xs, ps, h1, h2 => by
      simp only [ExprList.ofList, evalList] at h1; cases h1
      simp only [List.mapM_nil, pure, Except.pure] at h2; cases h2
      simp
  | e :: l, xs, ps, h1, h2 => by
      simp only [ExprList.ofList, evalList] at h1
      obtain ⟨x, hx, h1⟩ := ebind_ok h1
      obtain ⟨xs', hxs, h1⟩ := ebind_ok h1
      cases h1
      simp only [List.mapM_cons] at h2
      obtain ⟨p, hp, h2⟩ := ebind_ok h2
      obtain ⟨ps', hps, h2⟩ := ebind_ok h2
      cases h2
      have hxp := (asPrim_ok).1 hp
      subst hxp
      obtain ⟨ih1, ih2⟩ := evalPrims_inv hxs hps
      refine ⟨?_, ?_⟩
      · intro e' he'
        rcases List.mem_cons.1 he' with rfl | hm
        · rw [primOf_eq opq hx]; exact hx
        · exact ih1 e' hm
      · simp only [List.map, primOf_eq opq hx, ih2]

theorem evalPrims_intro {ρ : Env} : ∀ {l : List Expr}, (∀ e ∈ l, eval opq ρ e = .ok (.prim (primOf opq ρ e))) →
    (do let xs ← evalList opq ρ (ExprList.ofList l); xs.mapM asPrim) = .ok (l.map (primOf opq ρ))
  | [], _ => rfl
  | e :: l, h => by
      have he := h e (by simp)
      have ih := evalPrims_intro (l := l) (fun e' he' => h e' (List.mem_cons_of_mem _ he'))
      cases hl : evalList opq ρ (ExprList.ofList l) with
      | error err => rw [hl] at ih; simp [bind, Except.bind] at ih
      | ok xs =>
        rw [hl] at ih
        simp only [bind, Except.bind] at ih
        simp only [ExprList.ofList, evalList, he, hl, bind, Except.bind, pure, Except.pure, List.mapM_cons, asPrim, ih, List.map]

theorem eval_set_eq {ρ : Env} {t : DataType} {vs : ExprList} :
    eval opq ρ (.set t vs) = ((do let xs ← evalList opq ρ vs; xs.mapM asPrim) >>= fun ps =>
      if sameKinds ps then pure (Value.set ps.eraseDups) else .error .type) := by
  simp only [eval, bind_assoc]

theorem sameKinds_iff (ps : List Prim) : sameKinds ps = true ↔ ∀ p ∈ ps, ∀ q ∈ ps, p.kind = q.kind := by
  cases ps with
  | nil => simp [sameKinds]
  | cons a l =>
    simp only [sameKinds, List.all_eq_true, beq_iff_eq]
    constructor
    · intro h p hp q hq
      have e1 : p.kind = a.kind := by
        rcases List.mem_cons.1 hp with rfl | hm
        · rfl
        · exact h p hm
      have e2 : q.kind = a.kind := by
        rcases List.mem_cons.1 hq with rfl | hm
        · rfl
        · exact h q hm
      rw [e1, e2]
    · intro h q hq
      exact h q (List.mem_cons_of_mem _ hq) a (List.mem_cons_self ..)

theorem sameKinds_subset {ps qs : List Prim} (h : sameKinds ps = true) (hsub : ∀ q ∈ qs, q ∈ ps) : sameKinds qs = true :=
  (sameKinds_iff qs).2 (fun p hp q hq => (sameKinds_iff ps).1 h p (hsub p hp) q (hsub q hq))

/-- the value of a set literal is unchanged when repeated members are dropped (first occurrences kept) -/
theorem eval_set_dedupe {ρ : Env} {t t' : DataType} {l : List Expr} {v : Value}
    (h : eval opq ρ (.set t (ExprList.ofList l)) = .ok v) : eval opq ρ (.set t' (ExprList.ofList (dedupe l))) = .ok v := by
  rw [eval_set_eq] at h
  obtain ⟨ps, hps, h⟩ := ebind_ok h
  obtain ⟨xs, hxs, hps⟩ := ebind_ok hps
  obtain ⟨hall, rfl⟩ := evalPrims_inv opq hxs hps
  have hsub : ∀ e ∈ dedupe l, eval opq ρ e = .ok (.prim (primOf opq ρ e)) := fun e he => hall e (mem_eraseDups he)
  rw [eval_set_eq, evalPrims_intro opq hsub]
  cases hk : sameKinds (l.map (primOf opq ρ)) with
  | false => rw [hk] at h; cases h
  | true =>
    rw [hk] at h
    simp only [if_true, pure, Except.pure, Except.ok.injEq] at h
    subst h
    have hk' : sameKinds ((dedupe l).map (primOf opq ρ)) = true :=
      sameKinds_subset hk (fun q hq => by
        obtain ⟨e, he, rfl⟩ := List.mem_map.1 hq
        exact List.mem_map.2 ⟨e, mem_eraseDups he, rfl⟩)
    simp only [dedupe] at hk'
    simp only [bind, Except.bind, pure, Except.pure, dedupe, eraseDups_map_eraseDups, hk', if_true]

theorem mkSet_eval {vs : ExprList} {e : Expr} (h : mkSet vs = .ok e) (ρ : Env) : eval opq ρ e = eval opq ρ (.set T.SET vs) := by
  unfold mkSet at h
  obtain ⟨vs', hvs, h⟩ := bind_ok h
  cases h
  simp only [eval, castList_evalList opq hvs]

/-! ## the recursion -/

/-- soundness of the folding step of one built-in function call, given a sound simplifier for its arguments -/
def CallFoldSound : Prop := ∀ (f : Nat) (t : DataType) (fn : String) (args : ExprList) (r : Expr),
  (∀ e r', simp f e = .ok r' → Pres opq r' e) →
  simpCall (f + 1) (.call t fn args) fn args = .ok r → Pres opq r (.call t fn args)

def PresL (rs es : ExprList) : Prop := ∀ ρ vs, evalList opq ρ es = .ok vs → evalList opq ρ rs = .ok vs

structure SoundAt (f : Nat) : Prop where
  sS : ∀ e r, simp f e = .ok r → Pres opq r e
  sL : ∀ es rs, simpList f es = .ok rs → PresL opq rs es
  sN : ∀ e a r, simpNeg f e a = .ok r → ∀ t, Pres opq r (.un t "-" a)
  sB : ∀ e r, simpBinop f e = .ok r → Pres opq r e
  sM : ∀ t a b r, simpMultiplication f (.bin t "*" a b) a b = .ok r → Pres opq r (.bin t "*" a b)
  sP : ∀ e r, preBinop f e = .ok r → Pres opq r e
  sC : ∀ t fn args r, simpCall f (.call t fn args) fn args = .ok r → Pres opq r (.call t fn args)

theorem soundAt_zero : SoundAt opq 0 := by
  refine ⟨?_, ?_, ?_, ?_, ?_, ?_, ?_⟩
  · intro e r h; simp [simp] at h
  · intro es rs h; simp [simpList] at h
  · intro e a r h; simp [simpNeg] at h
  · intro e r h; simp [simpBinop] at h
  · intro t a b r h; simp [simpMultiplication] at h
  · intro e r h; simp [preBinop] at h
  · intro t fn args r h; simp [simpCall] at h

theorem step_list {f : Nat} (ih : SoundAt opq f) : ∀ es rs, simpList (f + 1) es = .ok rs → PresL opq rs es := by
  intro es rs h
  cases es with
  | nil => simp only [simpList] at h; cases h; exact fun _ _ hv => hv
  | cons e es =>
    simp only [simpList] at h
    obtain ⟨e', he', h⟩ := bind_ok h
    obtain ⟨es', hes', h⟩ := bind_ok h
    cases h
    intro ρ vs hv
    simp only [evalList] at hv ⊢
    obtain ⟨x, hx, hv⟩ := ebind_ok hv
    obtain ⟨xs, hxs, hv⟩ := ebind_ok hv
    rw [ih.sS _ _ he' ρ x hx, ih.sL _ _ hes' ρ xs hxs]
    exact hv

theorem step_neg {f : Nat} (ih : SoundAt opq f) : ∀ e a r, simpNeg (f + 1) e a = .ok r → ∀ t, Pres opq r (.un t "-" a) := by
  intro e a r h t
  simp only [simpNeg] at h
  obtain ⟨a', ha', h⟩ := bind_ok h
  exact negNumberRule_sound opq h (ih.sS _ _ ha')

theorem step_pre {f : Nat} (ih : SoundAt opq f) : ∀ e r, preBinop (f + 1) e = .ok r → Pres opq r e := by
  intro e r h
  cases e with
  | bin t op x y =>
    simp only [preBinop] at h
    obtain ⟨a, ha, h⟩ := bind_ok h
    obtain ⟨b, hb, h⟩ := bind_ok h
    have pa := ih.sS _ _ ha
    have pb := ih.sS _ _ hb
    split at h
    · exact pres_mkBin opq pa pb h
    · split at h
      · exact pres_mkBin opq pa pb h
      · split at h
        · split at h
          · cases h
          · rename_i d hd
            split at h
            · rename_i hc; exact pres_flip_comm opq (findBin_comm hd hc) pa pb h
            · rename_i hc
              split at h
              · exact pres_mkBin opq pa pb h
              · rename_i inv hinv
                exact pres_flip_inverse opq (findBin_inverse hd (by simpa using hc) hinv) pa pb h
        · split at h
          · cases h
          · rename_i d hd
            split at h
            · rename_i hc
              obtain ⟨C⟩ := acCarrier_of (findBin_assoc hd hc)
              exact Pres.trans opq (reassoc_sound opq C ih.sB (t := t) h) (pres_bin_congr opq pa pb)
            · exact pres_mkBin opq pa pb h
  | _ => simp [preBinop] at h

theorem step_binop {f : Nat} (ih : SoundAt opq f) : ∀ e r, simpBinop (f + 1) e = .ok r → Pres opq r e := by
  intro e r h
  simp only [simpBinop] at h
  obtain ⟨e', he', h⟩ := bind_ok h
  refine Pres.trans opq ?_ (ih.sP _ _ he')
  cases e' with
  | bin t op a b =>
    simp only at h
    split at h
    · rename_i ho; have := eq_of_beq ho; subst this
      exact simpConjunction_sound opq t _ a b r h
    · split at h
      · rename_i ho; have := eq_of_beq ho; subst this
        exact simpDisjunction_sound opq t _ a b r h
      · split at h
        · rename_i ho; have := eq_of_beq ho; subst this
          split at h
          · rename_i heq
            exact impliesRule_sound opq (a := a) (b := b) (by simp only [heq, ↓reduceIte]; exact h)
          · rename_i hne
            obtain ⟨na, hna, h⟩ := bind_ok h
            obtain ⟨d, hd, h⟩ := bind_ok h
            refine Pres.trans opq (ih.sS _ _ h) ?_
            exact impliesRule_sound opq (a := a) (b := b) (by simp only [hne, ↓reduceIte, hna]; exact hd)
        · split at h
          · rename_i ho; have := eq_of_beq ho; subst this
            exact iffRule_sound opq ih.sS h
          · split at h
            · rename_i ho
              simp only [Bool.or_eq_true, beq_iff_eq] at ho
              have hop : op = "=" ∨ op = "!=" ∨ op = "<" ∨ op = "<=" ∨ op = ">" ∨ op = ">=" := by
                rcases ho with ((((h1 | h1) | h1) | h1) | h1) | h1 <;> simp [h1]
              exact simpComparison_sound opq t op hop a b r h
            · split at h
              · rename_i ho; have := eq_of_beq ho; subst this
                exact simpAddition_sound opq t a b r h
              · split at h
                · rename_i ho; have := eq_of_beq ho; subst this
                  exact simpSubtraction_sound opq t a b r h
                · split at h
                  · rename_i ho; have := eq_of_beq ho; subst this
                    exact ih.sM t a b r h
                  · split at h
                    · rename_i ho; have := eq_of_beq ho; subst this
                      exact simpDivision_sound opq t a b r h
                    · split at h
                      · rename_i ho; have := eq_of_beq ho; subst this
                        exact simpExponentiation_sound opq t a b r h
                      · cases h; exact Pres.refl opq _
  | _ => simp at h

theorem mkRange_eval {lo hi e : Expr} {a b : Bool} (h : mkRange lo hi a b = .ok e) (ρ : Env) :
    eval opq ρ e = eval opq ρ (.range T.RANGE lo hi a b) := by
  unfold mkRange at h
  obtain ⟨lo', hlo, h⟩ := bind_ok h
  obtain ⟨hi', hhi, h⟩ := bind_ok h
  cases h
  simp only [eval, castE_eval opq hlo, castE_eval opq hhi]

theorem step_simp {f : Nat} (ih : SoundAt opq f) : ∀ e r, simp (f + 1) e = .ok r → Pres opq r e := by
  intro e r h
  cases e with
  | un t op a =>
    simp only [simp] at h
    split at h
    · rename_i ho; have := eq_of_beq ho; subst this
      obtain ⟨p, hp, h⟩ := bind_ok h
      exact negationRule_sound opq h (ih.sS _ _ hp)
    · split at h
      · rename_i ho; have := eq_of_beq ho; subst this
        exact ih.sN _ _ _ h t
      · cases h; exact Pres.refl opq _
  | bin t op a b => simp only [simp] at h; exact ih.sB _ _ h
  | call t fn args => simp only [simp] at h; exact ih.sC _ _ _ _ h
  | set t vs =>
    simp only [simp] at h
    obtain ⟨vs', hvs, h⟩ := bind_ok h
    have hl := ih.sL _ _ hvs
    have hset : ∀ ρ v, eval opq ρ (.set t vs) = .ok v → eval opq ρ (.set T.SET vs') = .ok v := by
      intro ρ v hv
      simp only [eval] at hv ⊢
      obtain ⟨xs, hxs, hv⟩ := ebind_ok hv
      rw [hl ρ xs hxs]; exact hv
    intro ρ v hv
    have hv' := hset ρ v hv
    split at h
    · rw [mkSet_eval opq h ρ]
      rw [← ExprList.ofList_toList vs'] at hv'
      exact eval_set_dedupe opq hv'
    · rw [mkSet_eval opq h ρ]; exact hv'
  | range t lo hi a b =>
    simp only [simp] at h
    obtain ⟨lo', hlo, h⟩ := bind_ok h
    obtain ⟨hi', hhi, h⟩ := bind_ok h
    intro ρ v hv
    rw [mkRange_eval opq h ρ]
    simp only [eval] at hv ⊢
    obtain ⟨l, hl, hv⟩ := ebind_ok hv
    obtain ⟨u, hu, hv⟩ := ebind_ok hv
    rw [ih.sS _ _ hlo ρ l hl, ih.sS _ _ hhi ρ u hu]
    exact hv
  | lit _ _ _ | this _ | var _ _ | quant _ _ _ _ _ | field _ _ _ | index _ _ _ =>
    simp only [simp] at h; cases h; exact Pres.refl opq _

/-- **soundness of the recursion**: with sound folding of built-in function calls, every function of the simplifier model
    preserves the value of its input, at every fuel -/
theorem soundAt (hcall : CallFoldSound opq) : ∀ f, SoundAt opq f
  | 0 => soundAt_zero opq
  | f + 1 =>
    have ih := soundAt hcall f
    ⟨step_simp opq ih, step_list opq ih, step_neg opq ih, step_binop opq ih,
     fun t a b r h => simpMultiplication_sound opq f ih.sN t a b r h, step_pre opq ih,
     fun t fn args r h => hcall f t fn args r ih.sS h⟩

theorem pres_eq_preserves (e' e : Expr) : Pres opq e' e → Preserves opq e' e := (pres_iff_preserves opq e' e).1

/-- C08 for expressions, conditional on the folding of function calls -/
theorem simplify_sound_of_calls (hcall : CallFoldSound opq) : SimplifySound opq := by
  intro e e' h
  exact pres_eq_preserves opq _ _ ((soundAt opq hcall _).sS _ _ h)

end
end Hpl
