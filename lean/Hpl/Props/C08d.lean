import Hpl.Props.C08c
/-!
# C08 — folding of built-in function calls

Soundness of the constant folding in `_simplify_function_call` against the reference evaluator, function by function,
under an explicit assumption on the oracle for uninterpreted functions (`OracleOK`).
-/
namespace Hpl
section
variable (opq : Opaque)

def interpretedFuns : List String := ["abs", "bool", "int", "float", "len", "sum", "prod", "max", "min", "ceil", "floor"]

/-- the oracle for uninterpreted functions does not extend the interpreted ones: where `applyFun` gives no meaning to an
    application of `abs`, `len`, … (wrong number or kind of arguments, `int` / `float` / `bool` of a string, of an infinity),
    the oracle gives none either -/
def OracleClosed : Prop := ∀ fn ∈ interpretedFuns, ∀ xs v, opq fn xs ≠ .ok v

theorem applyFun_abs {xs : List Value} {v : Value} (hc : OracleClosed opq) (h : applyFun opq "abs" xs = .ok v) :
    ∃ q, xs = [Value.num q] ∧ v = Value.num (if q < 0 then -q else q) := by
  unfold applyFun at h
  split at h
  all_goals first
    | (rename_i heq; exact absurd heq (by decide))
    | (exact absurd h (hc "abs" (by decide) _ _))
    | skip
  rename_i a _
  cases hq : asNum a with
  | error e => rw [hq] at h; simp [bind, Except.bind] at h
  | ok q =>
    rw [hq] at h
    simp only [bind, Except.bind, pure, Except.pure, Except.ok.injEq] at h
    exact ⟨q, by rw [asNum_ok.1 hq], h.symm⟩

/-! ## evaluation of a call, inverted -/

theorem call_unfold {ρ : Env} {t : DataType} {fn : String} {args : ExprList} {v : Value} (hv : eval opq ρ (.call t fn args) = .ok v) :
    ∃ xs, evalList opq ρ args = .ok xs ∧ applyFun opq fn xs = .ok v := by
  simp only [eval] at hv
  obtain ⟨xs, hxs, hv⟩ := ebind_ok hv
  exact ⟨xs, hxs, hv⟩

theorem evalList_cons_inv {ρ : Env} {a0 : Expr} {rest : ExprList} {xs : List Value} (h : evalList opq ρ (.cons a0 rest) = .ok xs) :
    ∃ x0 xs', eval opq ρ a0 = .ok x0 ∧ evalList opq ρ rest = .ok xs' ∧ xs = x0 :: xs' := by
  simp only [evalList] at h
  obtain ⟨x0, h0, h⟩ := ebind_ok h
  obtain ⟨xs', h1, h⟩ := ebind_ok h
  simp only [pure, Except.pure, Except.ok.injEq] at h
  exact ⟨x0, xs', h0, h1, h.symm⟩

/-- the first argument of a call whose argument list evaluates to a one-element list -/
theorem arg0_value {ρ : Env} {args : ExprList} {x : Value} (h : evalList opq ρ args = .ok [x]) :
    ∃ a0 rest, args = .cons a0 rest ∧ eval opq ρ a0 = .ok x := by
  cases args with
  | nil => simp [evalList] at h
  | cons a0 rest =>
    obtain ⟨x0, xs', h0, _, he⟩ := evalList_cons_inv opq h
    simp only [List.cons.injEq] at he
    exact ⟨a0, rest, rfl, by rw [he.1]; exact h0⟩

/-- what the simplified first argument evaluates to -/
theorem arg0_simplified {ρ : Env} {f : Nat} {args : ExprList} {a : Expr} {x : Value}
    (ihS : ∀ e r', simp f e = .ok r' → Pres opq r' e) (hx : evalList opq ρ args = .ok [x])
    (ha : (match args with | .cons a _ => simp f a | .nil => (.error .index : M Expr)) = .ok a) : eval opq ρ a = .ok x := by
  obtain ⟨a0, rest, rfl, h0⟩ := arg0_value opq hx
  exact ihS _ _ ha ρ x h0

theorem numLit_some {e : Expr} {v : LitVal} (h : numLit? e = some v) : ∃ t k, e = .lit t k v := by
  cases e with
  | lit t k lv => simp only [numLit?] at h; split at h <;> cases h; exact ⟨t, k, rfl⟩
  | _ => simp [numLit?] at h

/-! ## inversion of the interpreted functions -/

theorem applyFun_num1 {fn : String} {g : Rat → Rat} (hfn : fn = "abs" ∨ fn = "ceil" ∨ fn = "floor")
    (hg : ∀ a, applyFun opq fn [a] = (do let q ← asNum a; pure (Value.num (g q))))
    {xs : List Value} {v : Value} (hc : OracleClosed opq) (h : applyFun opq fn xs = .ok v) :
    ∃ q, xs = [Value.num q] ∧ v = Value.num (g q) := by
  have one : ∀ a, applyFun opq fn [a] = .ok v → ∃ q, [a] = [Value.num q] ∧ v = Value.num (g q) := by
    intro a h
    rw [hg] at h
    cases hq : asNum a with
    | error e => rw [hq] at h; simp [bind, Except.bind] at h
    | ok q =>
      rw [hq] at h
      simp only [bind, Except.bind, pure, Except.pure, Except.ok.injEq] at h
      exact ⟨q, by rw [asNum_ok.1 hq], h.symm⟩
  have hmem : fn ∈ interpretedFuns := by rcases hfn with rfl | rfl | rfl <;> decide
  match xs, h with
  | [a], h => exact one a h
  | [], h =>
    have : applyFun opq fn [] = opq fn [] := by rcases hfn with rfl | rfl | rfl <;> rfl
    rw [this] at h; exact absurd h (hc fn hmem _ _)
  | a :: b :: rest, h =>
    have : applyFun opq fn (a :: b :: rest) = opq fn (a :: b :: rest) := by rcases hfn with rfl | rfl | rfl <;> rfl
    rw [this] at h; exact absurd h (hc fn hmem _ _)

/-! ## the folds, one function at a time -/

section folds
variable {ρ : Env} {f : Nat} {t : DataType} {args : ExprList} {a r : Expr} {v : Value}

/-- the number the simplified (literal) first argument of a one-argument numeric function stands for -/
theorem num_arg (hc : OracleClosed opq) {fn : String} {g : Rat → Rat} (hfn : fn = "abs" ∨ fn = "ceil" ∨ fn = "floor")
    (hg : ∀ a, applyFun opq fn [a] = (do let q ← asNum a; pure (Value.num (g q))))
    (ihS : ∀ e r', simp f e = .ok r' → Pres opq r' e) (hv : eval opq ρ (.call t fn args) = .ok v)
    (ha : (match args with | .cons a _ => simp f a | .nil => (.error .index : M Expr)) = .ok a) {lv : LitVal} (hl : numLit? a = some lv) :
    ∃ q, litValue lv = .ok (Value.num q) ∧ v = Value.num (g q) := by
  obtain ⟨xs, hxs, happ⟩ := call_unfold opq hv
  obtain ⟨q, rfl, rfl⟩ := applyFun_num1 opq hfn hg hc happ
  have hea := arg0_simplified opq ihS hxs ha
  obtain ⟨ta, ka, rfl⟩ := numLit_some hl
  exact ⟨q, by rw [← eval_lit opq ρ ta ka lv]; exact hea, rfl⟩

theorem natAbs_rat (n : Int) : ((n.natAbs : Int) : Rat) = if (n : Rat) < 0 then -(n : Rat) else (n : Rat) := by
  by_cases h : n < 0
  · have h' : (n : Rat) < 0 := by exact_mod_cast h
    simp only [h', ↓reduceIte]
    have : (n.natAbs : Int) = -n := by omega
    rw [this]; simp
  · have h' : ¬ (n : Rat) < 0 := by
      intro hc; exact h (by exact_mod_cast hc)
    simp only [h', ↓reduceIte]
    have : (n.natAbs : Int) = n := by omega
    rw [this]

theorem fold_abs (hc : OracleClosed opq) (ihS : ∀ e r', simp f e = .ok r' → Pres opq r' e)
    (hv : eval opq ρ (.call t "abs" args) = .ok v)
    (ha : (match args with | .cons a _ => simp f a | .nil => (.error .index : M Expr)) = .ok a) {lv v' : LitVal} (hl : numLit? a = some lv)
    (hv' : pyAbs lv = .ok v') (hr : litNumber v' = .ok r) : eval opq ρ r = .ok v := by
  obtain ⟨q, hq, rfl⟩ := num_arg opq hc (fn := "abs") (g := fun q => if q < 0 then -q else q) (Or.inl rfl) (fun _ => rfl) ihS hv ha hl
  rw [litNumber_eval opq hr ρ]
  rcases litValue_num hq with ⟨rfl, hd⟩ | rfl
  · simp only [pyAbs, Except.ok.injEq] at hv'; subst hv'
    have hqn : (q.num : Rat) = q := Rat.ext (by simp) (by simp [hd])
    simp only [litValue, Except.ok.injEq, Value.num, Value.prim.injEq, Prim.num.injEq]
    rw [natAbs_rat, hqn]
  · simp only [pyAbs, Except.ok.injEq] at hv'; subst hv'; rfl

theorem fold_ceil (hc : OracleClosed opq) (ihS : ∀ e r', simp f e = .ok r' → Pres opq r' e)
    (hv : eval opq ρ (.call t "ceil" args) = .ok v)
    (ha : (match args with | .cons a _ => simp f a | .nil => (.error .index : M Expr)) = .ok a) {lv : LitVal} (hl : numLit? a = some lv)
    {q : Rat} (hq : lv.toRat? = some q) (hr : litNumber (.int q.ceil) = .ok r) : eval opq ρ r = .ok v := by
  obtain ⟨q', hq', rfl⟩ := num_arg opq hc (fn := "ceil") (g := fun q => ((q.ceil : Int) : Rat)) (Or.inr (Or.inl rfl)) (fun _ => rfl) ihS hv ha hl
  have := toRat_of_num hq'
  rw [hq] at this; cases this
  rw [litNumber_eval opq hr ρ]; rfl

theorem fold_floor (hc : OracleClosed opq) (ihS : ∀ e r', simp f e = .ok r' → Pres opq r' e)
    (hv : eval opq ρ (.call t "floor" args) = .ok v)
    (ha : (match args with | .cons a _ => simp f a | .nil => (.error .index : M Expr)) = .ok a) {lv : LitVal} (hl : numLit? a = some lv)
    {q : Rat} (hq : lv.toRat? = some q) (hr : litNumber (.int q.floor) = .ok r) : eval opq ρ r = .ok v := by
  obtain ⟨q', hq', rfl⟩ := num_arg opq hc (fn := "floor") (g := fun q => ((q.floor : Int) : Rat)) (Or.inr (Or.inr rfl)) (fun _ => rfl) ihS hv ha hl
  have := toRat_of_num hq'
  rw [hq] at this; cases this
  rw [litNumber_eval opq hr ρ]; rfl

/-- `bool`, `int`, `float` on one argument: the interpreted cases; anything else is left to the (closed) oracle -/
theorem conv_arg (hc : OracleClosed opq) {fn : String} (hfn : fn = "bool" ∨ fn = "int" ∨ fn = "float")
    (ihS : ∀ e r', simp f e = .ok r' → Pres opq r' e) (hv : eval opq ρ (.call t fn args) = .ok v)
    (ha : (match args with | .cons a _ => simp f a | .nil => (.error .index : M Expr)) = .ok a) {lv : LitVal} (hl : litVal? a = some lv) :
    ∃ x, litValue lv = .ok x ∧ applyFun opq fn [x] = .ok v := by
  obtain ⟨xs, hxs, happ⟩ := call_unfold opq hv
  have hmem : fn ∈ interpretedFuns := by rcases hfn with rfl | rfl | rfl <;> decide
  match xs, hxs, happ with
  | [x], hxs, happ =>
    have hea := arg0_simplified opq ihS hxs ha
    obtain ⟨ta, ka, rfl⟩ := litVal_some hl
    exact ⟨x, by rw [← eval_lit opq ρ ta ka lv]; exact hea, happ⟩
  | [], _, happ =>
    have : applyFun opq fn [] = opq fn [] := by rcases hfn with rfl | rfl | rfl <;> rfl
    rw [this] at happ; exact absurd happ (hc fn hmem _ _)
  | x :: y :: rest, _, happ =>
    have : applyFun opq fn (x :: y :: rest) = opq fn (x :: y :: rest) := by
      rcases hfn with rfl | rfl | rfl <;> (cases x with | prim p => cases p <;> rfl | _ => rfl)
    rw [this] at happ; exact absurd happ (hc fn hmem _ _)

theorem int_ne_zero_rat (n : Int) : ((n : Rat) != 0) = (n != 0) := by
  by_cases h : n = 0
  · subst h; rfl
  · have : (n : Rat) ≠ 0 := by intro hc; exact h (by exact_mod_cast hc)
    rw [bne_iff_ne.2 this, bne_iff_ne.2 h]

theorem fold_bool (hc : OracleClosed opq) (ihS : ∀ e r', simp f e = .ok r' → Pres opq r' e)
    (hv : eval opq ρ (.call t "bool" args) = .ok v)
    (ha : (match args with | .cons a _ => simp f a | .nil => (.error .index : M Expr)) = .ok a) {lv : LitVal} (hl : litVal? a = some lv) :
    eval opq ρ (litBool (pyTruthy lv)) = .ok v := by
  obtain ⟨x, hx, happ⟩ := conv_arg opq hc (Or.inl rfl) ihS hv ha hl
  have hclosed : ∀ xs, opq "bool" xs ≠ .ok v := fun xs => hc "bool" (by decide) xs v
  rw [eval_litBool]
  cases lv with
  | bool b => simp only [litValue, Except.ok.injEq] at hx; subst hx; simp only [applyFun, Value.bool, Except.ok.injEq] at happ; rw [← happ]; rfl
  | int n =>
    simp only [litValue, Except.ok.injEq] at hx; subst hx
    simp only [applyFun, Value.num, Except.ok.injEq] at happ
    rw [← happ]; simp only [pyTruthy, Value.bool, int_ne_zero_rat]
  | flt q =>
    simp only [litValue, Except.ok.injEq] at hx; subst hx
    simp only [applyFun, Value.num, Except.ok.injEq] at happ
    rw [← happ]; rfl
  | inf => simp only [litValue, Except.ok.injEq] at hx; subst hx; simp only [applyFun, Except.ok.injEq] at happ; rw [← happ]; rfl
  | ninf => simp only [litValue, Except.ok.injEq] at hx; subst hx; simp only [applyFun, Except.ok.injEq] at happ; rw [← happ]; rfl
  | nan => simp [litValue] at hx
  | str s => simp only [litValue, Except.ok.injEq] at hx; subst hx; exact absurd happ (hclosed _)

theorem truncRat_int (n : Int) : truncRat (n : Rat) = n := by
  unfold truncRat
  split
  · exact Rat.floor_intCast n
  · exact Rat.ceil_intCast n

theorem fold_int (hc : OracleClosed opq) (ihS : ∀ e r', simp f e = .ok r' → Pres opq r' e)
    (hv : eval opq ρ (.call t "int" args) = .ok v)
    (ha : (match args with | .cons a _ => simp f a | .nil => (.error .index : M Expr)) = .ok a) {lv : LitVal} (hl : litVal? a = some lv)
    {n : Int} (hn : pyInt lv = .ok n) (hr : litNumber (.int n) = .ok r) : eval opq ρ r = .ok v := by
  obtain ⟨x, hx, happ⟩ := conv_arg opq hc (Or.inr (Or.inl rfl)) ihS hv ha hl
  have hclosed : ∀ xs, opq "int" xs ≠ .ok v := fun xs => hc "int" (by decide) xs v
  rw [litNumber_eval opq hr ρ]
  cases lv with
  | bool b =>
    simp only [litValue, Except.ok.injEq] at hx; subst hx
    simp only [applyFun, Value.bool, Except.ok.injEq] at happ
    simp only [pyInt, Except.ok.injEq] at hn; subst hn
    rw [← happ]; cases b <;> rfl
  | int m =>
    simp only [litValue, Except.ok.injEq] at hx; subst hx
    simp only [applyFun, Value.num, Except.ok.injEq] at happ
    simp only [pyInt, Except.ok.injEq] at hn; subst hn
    rw [← happ, truncRat_int]; rfl
  | flt q =>
    simp only [litValue, Except.ok.injEq] at hx; subst hx
    simp only [applyFun, Value.num, Except.ok.injEq] at happ
    simp only [pyInt, Except.ok.injEq] at hn; subst hn
    rw [← happ]; rfl
  | inf => simp [pyInt, unmodelled] at hn
  | ninf => simp [pyInt, unmodelled] at hn
  | nan => simp [litValue] at hx
  | str s => simp only [litValue, Except.ok.injEq] at hx; subst hx; exact absurd happ (hclosed _)

theorem fold_float_num (hc : OracleClosed opq) (ihS : ∀ e r', simp f e = .ok r' → Pres opq r' e)
    (hv : eval opq ρ (.call t "float" args) = .ok v)
    (ha : (match args with | .cons a _ => simp f a | .nil => (.error .index : M Expr)) = .ok a) {lv : LitVal} (hl : litVal? a = some lv)
    {q : Rat} (hq : lv.toRat? = some q) (hr : litNumber (.flt q) = .ok r) : eval opq ρ r = .ok v := by
  obtain ⟨x, hx, happ⟩ := conv_arg opq hc (Or.inr (Or.inr rfl)) ihS hv ha hl
  rw [litNumber_eval opq hr ρ]
  cases lv with
  | bool b =>
    simp only [litValue, Except.ok.injEq] at hx; subst hx
    simp only [applyFun, Value.bool, Except.ok.injEq] at happ
    simp only [LitVal.toRat?, Option.some.injEq] at hq; subst hq
    rw [← happ]; cases b <;> rfl
  | int m =>
    simp only [litValue, Except.ok.injEq] at hx; subst hx
    simp only [applyFun, Value.num, Except.ok.injEq] at happ
    simp only [LitVal.toRat?, Option.some.injEq] at hq; subst hq
    rw [← happ]; rfl
  | flt q' =>
    simp only [litValue, Except.ok.injEq] at hx; subst hx
    simp only [applyFun, Value.num, Except.ok.injEq] at happ
    simp only [LitVal.toRat?, Option.some.injEq] at hq; subst hq
    rw [← happ]; rfl
  | inf => simp [LitVal.toRat?] at hq
  | ninf => simp [LitVal.toRat?] at hq
  | nan => simp [LitVal.toRat?] at hq
  | str s => simp [LitVal.toRat?] at hq

/-- `float` of a string, an infinity or NaN literal: the reference semantics gives the original no value -/
theorem fold_float_other (hc : OracleClosed opq) (ihS : ∀ e r', simp f e = .ok r' → Pres opq r' e)
    (hv : eval opq ρ (.call t "float" args) = .ok v)
    (ha : (match args with | .cons a _ => simp f a | .nil => (.error .index : M Expr)) = .ok a) {lv : LitVal} (hl : litVal? a = some lv)
    (hq : lv.toRat? = none) : False := by
  obtain ⟨x, hx, happ⟩ := conv_arg opq hc (Or.inr (Or.inr rfl)) ihS hv ha hl
  have hclosed : ∀ xs, opq "float" xs ≠ .ok v := fun xs => hc "float" (by decide) xs v
  cases lv with
  | bool b => simp [LitVal.toRat?] at hq
  | int m => simp [LitVal.toRat?] at hq
  | flt q' => simp [LitVal.toRat?] at hq
  | inf => simp only [litValue, Except.ok.injEq] at hx; subst hx; exact absurd happ (hclosed _)
  | ninf => simp only [litValue, Except.ok.injEq] at hx; subst hx; exact absurd happ (hclosed _)
  | nan => simp [litValue] at hx
  | str s => simp only [litValue, Except.ok.injEq] at hx; subst hx; exact absurd happ (hclosed _)

end folds

/-! ## assembling `CallFoldSound` -/

def aggregateFuns : List String := ["str", "len", "sum", "prod", "max", "min", "gcd"]

/-- what is still assumed: the folding of `str` (its result depends on the int / float distinction, which the value
    domain of the reference semantics does not have) and of the aggregates over literal sets and ranges -/
def AggFoldSound : Prop := ∀ (f : Nat) (t : DataType) (fn : String) (args : ExprList) (r : Expr), fn ∈ aggregateFuns →
  (∀ e r', simp f e = .ok r' → Pres opq r' e) →
  simpCall (f + 1) (.call t fn args) fn args = .ok r → Pres opq r (.call t fn args)

theorem callFold_sound (hc : OracleClosed opq) (hagg : AggFoldSound opq) : CallFoldSound opq := by
  intro f t fn args r ihS h
  have agg : fn ∈ aggregateFuns → Pres opq r (.call t fn args) := fun hm => hagg f t fn args r hm ihS h
  intro ρ v hv
  unfold simpCall at h
  extract_lets arg0 at h
  by_cases c0 : (fn == "abs") = true
  · simp only [c0, ↓reduceIte] at h
    have hfn := eq_of_beq c0; subst hfn
    obtain ⟨a, ha, h⟩ := bind_ok h
    split at h
    · rename_i lv hl
      obtain ⟨v', hv', h⟩ := bind_ok h
      exact fold_abs opq hc ihS hv ha hl hv' h
    · cases h; exact hv
  simp only [c0, Bool.false_eq_true, ↓reduceIte] at h
  by_cases c1 : (fn == "bool") = true
  · simp only [c1, ↓reduceIte] at h
    have hfn := eq_of_beq c1; subst hfn
    obtain ⟨a, ha, h⟩ := bind_ok h
    split at h
    · rename_i lv hl
      cases h
      exact fold_bool opq hc ihS hv ha hl
    · cases h; exact hv
  simp only [c1, Bool.false_eq_true, ↓reduceIte] at h
  by_cases c2 : (fn == "int") = true
  · simp only [c2, ↓reduceIte] at h
    have hfn := eq_of_beq c2; subst hfn
    obtain ⟨a, ha, h⟩ := bind_ok h
    split at h
    · rename_i lv hl
      obtain ⟨n, hn, h⟩ := bind_ok h
      exact fold_int opq hc ihS hv ha hl hn h
    · cases h; exact hv
  simp only [c2, Bool.false_eq_true, ↓reduceIte] at h
  by_cases c3 : (fn == "float") = true
  · simp only [c3, ↓reduceIte] at h
    have hfn := eq_of_beq c3; subst hfn
    obtain ⟨a, ha, h⟩ := bind_ok h
    split at h
    · rename_i sv hl
      exact (fold_float_other opq hc ihS hv ha hl rfl).elim
    · rename_i lv _ hl
      split at h
      · rename_i q hq
        exact fold_float_num opq hc ihS hv ha hl hq h
      · rename_i hq
        exact (fold_float_other opq hc ihS hv ha hl hq).elim
    · cases h; exact hv
  simp only [c3, Bool.false_eq_true, ↓reduceIte] at h
  by_cases c4 : (fn == "str") = true
  · exact agg (by rw [eq_of_beq c4]; decide) ρ v hv
  by_cases c5 : (fn == "len") = true
  · exact agg (by rw [eq_of_beq c5]; decide) ρ v hv
  by_cases c6 : (fn == "sum") = true
  · exact agg (by rw [eq_of_beq c6]; decide) ρ v hv
  by_cases c7 : (fn == "prod") = true
  · exact agg (by rw [eq_of_beq c7]; decide) ρ v hv
  by_cases c8 : (fn == "max" || fn == "min") = true
  · have : fn = "max" ∨ fn = "min" := by simpa [Bool.or_eq_true, beq_iff_eq] using c8
    exact agg (by rcases this with h | h <;> (rw [h]; decide)) ρ v hv
  by_cases c9 : (fn == "gcd") = true
  · exact agg (by rw [eq_of_beq c9]; decide) ρ v hv
  simp only [c4, c5, c6, c7, c8, c9, Bool.false_eq_true, ↓reduceIte] at h
  by_cases c10 : (fn == "ceil") = true
  · simp only [c10, ↓reduceIte] at h
    have hfn := eq_of_beq c10; subst hfn
    obtain ⟨a, ha, h⟩ := bind_ok h
    split at h
    · rename_i lv hl
      split at h
      · rename_i q hq; exact fold_ceil opq hc ihS hv ha hl hq h
      · cases h
    · cases h; exact hv
  simp only [c10, Bool.false_eq_true, ↓reduceIte] at h
  by_cases c11 : (fn == "floor") = true
  · simp only [c11, ↓reduceIte] at h
    have hfn := eq_of_beq c11; subst hfn
    obtain ⟨a, ha, h⟩ := bind_ok h
    split at h
    · rename_i lv hl
      split at h
      · rename_i q hq; exact fold_floor opq hc ihS hv ha hl hq h
      · cases h
    · cases h; exact hv
  simp only [c11, Bool.false_eq_true, ↓reduceIte] at h
  by_cases c12 : (opaqueFuns.contains fn) = true
  · simp only [c12, ↓reduceIte] at h
    obtain ⟨a, ha, h⟩ := bind_ok h
    split at h
    · cases h
    · cases h; exact hv
  simp only [c12, Bool.false_eq_true, ↓reduceIte] at h
  by_cases c13 : (fn == "atan2" || fn == "log") = true
  · simp only [c13, ↓reduceIte] at h
    split at h
    · obtain ⟨x, hx, h⟩ := bind_ok h
      obtain ⟨y, hy, h⟩ := bind_ok h
      split at h
      · cases h
      · cases h; exact hv
    · cases h
  simp only [c13, Bool.false_eq_true, ↓reduceIte] at h
  cases h; exact hv

/-- the oracle that gives no uninterpreted function a value is closed (the hypothesis is satisfiable) -/
example : OracleClosed (fun _ _ => .error .opaque) := by
  intro fn _ xs v h; cases h

/-- **C08, expressions**: the simplifier preserves the value of every expression of any size, for every oracle of the
    uninterpreted functions that does not extend the interpreted ones, given sound folding of `str` and the aggregates -/
theorem simplify_sound (hc : OracleClosed opq) (hagg : AggFoldSound opq) : SimplifySound opq :=
  simplify_sound_of_calls opq (callFold_sound opq hc hagg)

end
end Hpl
