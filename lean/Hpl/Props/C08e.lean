import Hpl.Props.C08d
/-!
# C08 — discharging `AggFoldSound`: the folding of aggregates over literal collections preserves meaning

`len` over a set literal of literals, a range literal with literal bounds and a string literal (this file, in progress for the
other aggregates).  The reference semantics gives a set literal a value only if its members are of one kind (`sameKinds`), so the
Python equality the simplifier de-duplicates with (`pyEq`) and the structural equality of the value domain agree on the members.
-/
namespace Hpl

/-- first-occurrence de-duplication with an accumulator, as the simplifier does it -/
def accum (seen : List Prim) (ps : List Prim) : List Prim :=
  ps.foldl (fun acc p => if acc.contains p then acc else acc ++ [p]) seen

theorem filter_dd_comm (q : Prim → Bool) (l : List Prim) : (dd l).filter q = dd (l.filter q) := filter_dd q l

theorem accum_eq : ∀ (ps seen : List Prim), accum seen ps = seen ++ dd (ps.filter (fun p => !seen.contains p))
  | [], seen => by simp [accum, dd]
  | p :: ps, seen => by
      unfold accum
      simp only [List.foldl_cons]
      by_cases hc : seen.contains p = true
      · simp only [hc, if_true]
        have := accum_eq ps seen
        unfold accum at this
        rw [this]
        have hm : p ∈ seen := List.contains_iff_mem.1 hc
        simp [List.filter_cons, hm]
      · have hc' : seen.contains p = false := by simpa using hc
        simp only [hc', Bool.false_eq_true, if_false]
        have := accum_eq ps (seen ++ [p])
        unfold accum at this
        rw [this]
        simp only [List.filter_cons, hc', Bool.not_false, if_true, dd, List.append_assoc, List.cons_append, List.nil_append]
        congr 2
        rw [filter_dd_comm, List.filter_filter]
        congr 1
        apply List.filter_congr
        intro x _
        simp only [List.contains_append, List.contains_cons, List.contains_nil, Bool.or_false, Bool.not_or, Bool.and_comm]

theorem accum_nil (ps : List Prim) : accum [] ps = ps.eraseDups := by
  rw [accum_eq, eraseDups_dd]
  have : ps.filter (fun p => !([] : List Prim).contains p) = ps := by
    rw [List.filter_eq_self]; intro a _; simp
  rw [this]; simp

/-- the value of a literal, as a primitive (`nan` has no value: a dummy) -/
def litPrim : LitVal → Prim
  | .bool b => .bool b
  | .int n => .num n
  | .flt q => .num q
  | .inf => .pinf
  | .ninf => .ninf
  | .nan => .num 0
  | .str s => .str s

theorem litValue_litPrim {v : LitVal} {x : Value} (h : litValue v = .ok x) : x = .prim (litPrim v) ∧ v ≠ .nan := by
  cases v <;> simp only [litValue, Except.ok.injEq] at h <;> first | (subst h; exact ⟨rfl, by simp⟩) | cases h

/-- on values of one kind Python's `==` is the equality of the value domain -/
theorem num_beq (x y : Rat) : (Prim.num x == Prim.num y) = (x == y) := by
  by_cases h : x = y
  · subst h; rw [beq_self_eq_true, beq_self_eq_true]
  · rw [beq_eq_false_iff_ne.mpr h, beq_eq_false_iff_ne.mpr (fun hh => h (Prim.num.inj hh))]

theorem str_beq (x y : String) : (Prim.str x == Prim.str y) = (x == y) := by
  by_cases h : x = y
  · subst h; rw [beq_self_eq_true, beq_self_eq_true]
  · rw [beq_eq_false_iff_ne.mpr h, beq_eq_false_iff_ne.mpr (fun hh => h (Prim.str.inj hh))]

theorem pyEq_iff {a b : LitVal} (ha : a ≠ .nan) (hb : b ≠ .nan) (hk : (litPrim a).kind = (litPrim b).kind) :
    pyEq a b = (litPrim a == litPrim b) := by
  cases a <;> cases b
  all_goals first
    | exact absurd rfl ha
    | exact absurd rfl hb
    | (exfalso; revert hk; simp only [litPrim, Prim.kind]; decide)
    | (rename_i x y; cases x <;> cases y <;> decide)
    | (simp only [pyEq, LitVal.toRat?, litPrim, num_beq]; done)
    | (simp only [pyEq, litPrim, str_beq]; done)
    | decide
    | (simp only [pyEq, LitVal.toRat?, litPrim]; symm; exact beq_eq_false_iff_ne.mpr (by intro h; cases h))
    | (simp only [pyEq, LitVal.toRat?, litPrim]; rfl)

/-- the conditions under which the two de-duplications agree -/
def GoodLits (ls : List LitVal) : Prop := (∀ v ∈ ls, v ≠ .nan) ∧ ∀ v ∈ ls, ∀ w ∈ ls, (litPrim v).kind = (litPrim w).kind

theorem distinct_step (acc : List LitVal) (v : LitVal) (hg : GoodLits (v :: acc)) :
    acc.any (pyEq v) = (acc.map litPrim).contains (litPrim v) := by
  induction acc with
  | nil => rfl
  | cons w acc ih =>
    have hgw : GoodLits (v :: acc) := ⟨fun x hx => hg.1 x (by
        rcases List.mem_cons.1 hx with rfl | h; exact List.mem_cons_self ..; exact List.mem_cons_of_mem _ (List.mem_cons_of_mem _ h)),
      fun x hx y hy => hg.2 x (by
        rcases List.mem_cons.1 hx with rfl | h; exact List.mem_cons_self ..; exact List.mem_cons_of_mem _ (List.mem_cons_of_mem _ h)) y (by
        rcases List.mem_cons.1 hy with rfl | h; exact List.mem_cons_self ..; exact List.mem_cons_of_mem _ (List.mem_cons_of_mem _ h))⟩
    have e := pyEq_iff (hg.1 v (List.mem_cons_self ..)) (hg.1 w (by simp))
      (hg.2 v (List.mem_cons_self ..) w (by simp))
    simp only [List.any_cons, List.map_cons, List.contains_cons, ih hgw, e]

theorem distinct_map : ∀ (ls acc : List LitVal), GoodLits (acc ++ ls) →
    (ls.foldl (fun acc v => if acc.any (pyEq v) then acc else acc ++ [v]) acc).map litPrim = accum (acc.map litPrim) (ls.map litPrim)
  | [], acc, _ => by simp [accum]
  | v :: ls, acc, hg => by
      have hsub : GoodLits (v :: acc) := ⟨fun x hx => hg.1 x (by
          rcases List.mem_cons.1 hx with rfl | h <;> simp [*]),
        fun x hx y hy => hg.2 x (by rcases List.mem_cons.1 hx with rfl | h <;> simp [*]) y (by
          rcases List.mem_cons.1 hy with rfl | h <;> simp [*])⟩
      have hstep := distinct_step acc v hsub
      simp only [List.foldl_cons, List.map_cons, accum, hstep]
      by_cases hc : (acc.map litPrim).contains (litPrim v) = true
      · simp only [hc, if_true]
        have := distinct_map ls acc ⟨fun x hx => hg.1 x (by
            rcases List.mem_append.1 hx with h | h <;> simp [*]),
          fun x hx y hy => hg.2 x (by rcases List.mem_append.1 hx with h | h <;> simp [*]) y (by
            rcases List.mem_append.1 hy with h | h <;> simp [*])⟩
        simpa [accum] using this
      · have hc' : (acc.map litPrim).contains (litPrim v) = false := by simpa using hc
        simp only [hc', Bool.false_eq_true, if_false]
        have := distinct_map ls (acc ++ [v]) (by simpa [List.append_assoc] using hg)
        simpa [accum] using this

theorem distinctVals_length (ls : List LitVal) (hg : GoodLits ls) : (distinctVals ls).length = (ls.map litPrim).eraseDups.length := by
  have := distinct_map ls [] (by simpa using hg)
  simp only [List.map_nil] at this
  rw [← accum_nil, ← this]
  simp [distinctVals]

variable (opq : Opaque)

/-- the members of a set literal of literals evaluate to the primitives of their literals, none of which is `nan` -/
theorem litVals_prims {ρ : Env} : ∀ {vs : ExprList} {ls : List LitVal} {ps : List Prim}, litVals? vs = some ls →
    ((do let xs ← evalList opq ρ vs; xs.mapM asPrim) : EM (List Prim)) = .ok ps → ps = ls.map litPrim ∧ ∀ v ∈ ls, v ≠ .nan
  | .nil, ls, ps, hl, h => by
      simp only [litVals?, Option.some.injEq] at hl; subst hl
      simp only [evalList, bind, Except.bind, List.mapM_nil, pure, Except.pure, Except.ok.injEq] at h
      subst h; exact ⟨rfl, fun _ hv => by cases hv⟩
  | .cons e es, ls, ps, hl, h => by
      simp only [litVals?] at hl
      cases hv : litVal? e with
      | none => simp [hv] at hl
      | some v =>
        cases hvs : litVals? es with
        | none => simp [hv, hvs] at hl
        | some vs' =>
          simp only [hv, hvs, Option.some.injEq] at hl
          subst hl
          obtain ⟨t, k, rfl⟩ := litVal_some hv
          obtain ⟨xs, hxs, h2⟩ := ebind_ok h
          simp only [evalList] at hxs
          obtain ⟨x, hx, hxs⟩ := ebind_ok hxs
          obtain ⟨xs', hxs', hxs⟩ := ebind_ok hxs
          simp only [pure, Except.pure, Except.ok.injEq] at hxs
          subst hxs
          simp only [List.mapM_cons] at h2
          obtain ⟨p, hp, h2⟩ := ebind_ok h2
          obtain ⟨ps', hps', h2⟩ := ebind_ok h2
          simp only [pure, Except.pure, Except.ok.injEq] at h2
          subst h2
          simp only [eval] at hx
          obtain ⟨rfl, hnan⟩ := litValue_litPrim hx
          simp only [asPrim, Except.ok.injEq] at hp
          subst hp
          have ih := litVals_prims (ρ := ρ) (vs := es) (ls := vs') (ps := ps') hvs (by
            rw [hxs']; exact hps')
          exact ⟨by rw [ih.1]; rfl, fun w hw => by
            rcases List.mem_cons.1 hw with rfl | hm
            · exact hnan
            · exact ih.2 w hm⟩

theorem applyFun_len {xs : List Value} {v : Value} (hc : OracleClosed opq) (h : applyFun opq "len" xs = .ok v) :
    ∃ a es, xs = [a] ∧ elems a = .ok es ∧ v = Value.num (es.length : Nat) := by
  unfold applyFun at h
  split at h
  all_goals first
    | (rename_i heq; exact absurd heq (by decide))
    | (exact absurd h (hc "len" (by decide) _ _))
    | skip
  rename_i a _
  cases he : elems a with
  | error e => rw [he] at h; simp [bind, Except.bind] at h
  | ok es =>
    rw [he] at h
    simp only [bind, Except.bind, pure, Except.pure, Except.ok.injEq] at h
    exact ⟨a, es, rfl, he, h.symm⟩

theorem eraseDups_idem (l : List Prim) : l.eraseDups.eraseDups = l.eraseDups := by
  have := eraseDups_map_eraseDups (fun (p : Prim) => p) l
  simpa using this

/-- `len` of a set literal of literals is folded to the number of its distinct members -/
theorem fold_len_set {f : Nat} {ρ : Env} {t ts : DataType} {args : ExprList} {vs : ExprList} {ls : List LitVal} {r : Expr} {v : Value}
    (hc : OracleClosed opq) (ihS : ∀ e r', simp f e = .ok r' → Pres opq r' e)
    (hv : eval opq ρ (.call t "len" args) = .ok v)
    (ha : (match args with | .cons a _ => simp f a | .nil => (.error .index : M Expr)) = .ok (.set ts vs))
    (hl : litVals? vs = some ls) (hr : litNumber (.int (distinctVals ls).length) = .ok r) : eval opq ρ r = .ok v := by
  obtain ⟨xs, hxs, happ⟩ := call_unfold opq hv
  obtain ⟨a, es, rfl, hes, rfl⟩ := applyFun_len opq hc happ
  have hset := arg0_simplified opq ihS hxs ha
  rw [eval_set_eq] at hset
  obtain ⟨ps, hps, hset⟩ := ebind_ok hset
  cases hk : sameKinds ps with
  | false => rw [hk] at hset; cases hset
  | true =>
    rw [hk] at hset
    simp only [if_true, pure, Except.pure, Except.ok.injEq] at hset
    subst hset
    obtain ⟨rfl, hnan⟩ := litVals_prims opq hl hps
    simp only [elems, Except.ok.injEq] at hes
    subst hes
    have hgood : GoodLits ls := ⟨hnan, fun x hx y hy =>
      (sameKinds_iff _).1 hk _ (List.mem_map.2 ⟨x, hx, rfl⟩) _ (List.mem_map.2 ⟨y, hy, rfl⟩)⟩
    rw [litNumber_eval opq hr ρ]
    simp only [litValue, List.length_map, eraseDups_idem, distinctVals_length ls hgood]
    rfl

theorem truncRatI_of_isInt {q : Rat} (h : isInt q = true) : truncRatI q = q.num := by
  have hd : q.den = 1 := by simpa [isInt] using h
  have hq : q = (q.num : Rat) := Rat.ext (by simp) (by simp [hd])
  unfold truncRatI
  split
  · rw [hq]; simp [Rat.floor_intCast]
  · rw [hq]; simp [Rat.ceil_intCast]

/-- the integer Python makes of a numeric literal whose value is an integer -/
theorem pyInt_of_value {l : LitVal} {a : Rat} (hl : litValue l = .ok (Value.num a)) (hi : isInt a = true) : pyInt l = .ok a.num := by
  rcases litValue_num hl with ⟨rfl, _⟩ | rfl
  · rfl
  · simp only [pyInt, truncRatI_of_isInt hi]

/-- `len` of a range literal with literal bounds is folded to the number of integers in it -/
theorem fold_len_range {f : Nat} {ρ : Env} {t tr : DataType} {args : ExprList} {lo hi : Expr} {exLo exHi : Bool} {l h : LitVal}
    {lb ub : Int} {r : Expr} {v : Value}
    (hc : OracleClosed opq) (ihS : ∀ e r', simp f e = .ok r' → Pres opq r' e)
    (hv : eval opq ρ (.call t "len" args) = .ok v)
    (ha : (match args with | .cons a _ => simp f a | .nil => (.error .index : M Expr)) = .ok (.range tr lo hi exLo exHi))
    (hl : numLit? lo = some l) (hh : numLit? hi = some h) (hb : rangeBounds l h exLo exHi = .ok (lb, ub))
    (hr : litNumber (.int (ub - lb).toNat) = .ok r) : eval opq ρ r = .ok v := by
  obtain ⟨xs, hxs, happ⟩ := call_unfold opq hv
  obtain ⟨a, es, rfl, hes, rfl⟩ := applyFun_len opq hc happ
  have hrange := arg0_simplified opq ihS hxs ha
  obtain ⟨tl, kl, rfl⟩ := numLit_some hl
  obtain ⟨th, kh, rfl⟩ := numLit_some hh
  simp only [eval] at hrange
  obtain ⟨x1, h1, hrange⟩ := ebind_ok hrange
  obtain ⟨x2, h2, hrange⟩ := ebind_ok hrange
  obtain ⟨p1, hp1, hrange⟩ := ebind_ok hrange
  obtain ⟨p2, hp2, hrange⟩ := ebind_ok hrange
  split at hrange
  · simp only [pure, Except.pure, Except.ok.injEq] at hrange
    subst hrange
    simp only [elems] at hes
    obtain ⟨is, his, hes⟩ := ebind_ok hes
    simp only [pure, Except.pure, Except.ok.injEq] at hes
    subst hes
    have hx1 := (asPrim_ok).1 hp1
    have hx2 := (asPrim_ok).1 hp2
    subst hx1; subst hx2
    unfold rangeInts at his
    split at his
    · split at his
      · rename_i hint
        simp only [Bool.and_eq_true] at hint
        simp only [Except.ok.injEq] at his
        subst his
        have e1 := pyInt_of_value (l := l) h1 hint.1
        have e2 := pyInt_of_value (l := h) h2 hint.2
        simp only [rangeBounds, e1, e2, bind, Except.bind, pure, Except.pure, Except.ok.injEq, Prod.mk.injEq] at hb
        obtain ⟨rfl, rfl⟩ := hb
        rw [litNumber_eval opq hr ρ]
        simp only [litValue, List.length_map, List.length_range]
        have hcount : ∀ (x y : Int) (p q : Bool),
            (y + (if q then 0 else 1) - (x + (if p then 1 else 0))).toNat = (y - (if q then 1 else 0) - (x + (if p then 1 else 0)) + 1).toNat := by
          intro x y p q; cases p <;> cases q <;> simp <;> congr 1 <;> omega
        rw [hcount, Rat.intCast_natCast]
      · cases his
    · split at his <;> cases his
  · cases hrange

/-- `len` of a string literal: the reference semantics gives `len` of a string no value, so the folding has nothing to preserve -/
theorem fold_len_str {f : Nat} {ρ : Env} {t tl : DataType} {k s : String} {args : ExprList} {r : Expr} {v : Value}
    (hc : OracleClosed opq) (ihS : ∀ e r', simp f e = .ok r' → Pres opq r' e)
    (hv : eval opq ρ (.call t "len" args) = .ok v)
    (ha : (match args with | .cons a _ => simp f a | .nil => (.error .index : M Expr)) = .ok (.lit tl k (.str s))) : eval opq ρ r = .ok v := by
  obtain ⟨xs, hxs, happ⟩ := call_unfold opq hv
  obtain ⟨a, es, rfl, hes, rfl⟩ := applyFun_len opq hc happ
  have hlit := arg0_simplified opq ihS hxs ha
  simp only [eval, litValue, Except.ok.injEq] at hlit
  subst hlit
  simp [elems] at hes

/-- **the folding of `len` is sound** (one of the seven aggregates `AggFoldSound` assumed) -/
theorem len_fold_sound (hc : OracleClosed opq) (f : Nat) (t : DataType) (args : ExprList) (r : Expr)
    (ihS : ∀ e r', simp f e = .ok r' → Pres opq r' e)
    (h : simpCall (f + 1) (.call t "len" args) "len" args = .ok r) : Pres opq r (.call t "len" args) := by
  intro ρ v hv
  unfold simpCall at h
  extract_lets arg0 at h
  simp only [show ("len" == "abs") = false by decide, show ("len" == "bool") = false by decide, show ("len" == "int") = false by decide,
    show ("len" == "float") = false by decide, show ("len" == "str") = false by decide, show ("len" == "len") = true by decide,
    Bool.false_eq_true, ↓reduceIte] at h
  obtain ⟨a, ha, h⟩ := bind_ok h
  split at h
  · rename_i ts vs
    split at h
    · rename_i ls hl
      exact fold_len_set opq hc ihS hv ha hl h
    · cases h; exact hv
  · rename_i tr lo hi exLo exHi
    split at h
    · rename_i l hh hl hhh
      obtain ⟨p, hp, h⟩ := bind_ok h
      obtain ⟨lb, ub⟩ := p
      exact fold_len_range opq hc ihS hv ha hl hhh hp h
    · cases h; exact hv
  · exact fold_len_str opq hc ihS hv ha
  · cases h; exact hv

theorem distinctVals_map (ls : List LitVal) (hg : GoodLits ls) : (distinctVals ls).map litPrim = (ls.map litPrim).eraseDups := by
  have := distinct_map ls [] (by simpa using hg)
  simp only [List.map_nil] at this
  rw [← accum_nil, ← this]
  rfl

theorem distinct_fold_subset : ∀ (ls acc : List LitVal) (d : LitVal),
    d ∈ ls.foldl (fun acc v => if acc.any (pyEq v) then acc else acc ++ [v]) acc → d ∈ acc ∨ d ∈ ls
  | [], acc, d, h => .inl h
  | v :: ls, acc, d, h => by
      simp only [List.foldl_cons] at h
      rcases distinct_fold_subset ls _ d h with h1 | h1
      · split at h1
        · exact .inl h1
        · rcases List.mem_append.1 h1 with h2 | h2
          · exact .inl h2
          · exact .inr (by simp only [List.mem_singleton] at h2; simp [h2])
      · exact .inr (List.mem_cons_of_mem _ h1)

theorem distinctVals_subset {ls : List LitVal} {d : LitVal} (h : d ∈ distinctVals ls) : d ∈ ls := by
  rcases distinct_fold_subset ls [] d h with h1 | h1
  · cases h1
  · exact h1

theorem numLitVals_lit : ∀ {vs : ExprList} {ls : List LitVal}, numLitVals? vs = some ls → litVals? vs = some ls
  | .nil, ls, h => by simpa [numLitVals?, litVals?] using h
  | .cons e es, ls, h => by
      simp only [numLitVals?] at h
      cases hv : numLit? e with
      | none => simp [hv] at h
      | some v =>
        cases hvs : numLitVals? es with
        | none => simp [hv, hvs] at h
        | some vs' =>
          simp only [hv, hvs, Option.some.injEq] at h
          subst h
          obtain ⟨t, k, rfl⟩ := numLit_some hv
          simp only [litVals?, litVal?, numLitVals_lit hvs]

/-- the rational a finite numeric literal denotes -/
def ratOf (d : LitVal) : Rat := match litPrim d with | .num q => q | _ => 0

theorem toRat_mkNumVal (b : Bool) (q : Rat) : (mkNumVal b q).toRat? = some q := by
  unfold mkNumVal
  split
  · rename_i h
    simp only [Bool.and_eq_true, beq_iff_eq] at h
    simp only [LitVal.toRat?, Option.some.injEq]
    exact Rat.ext (by simp) (by simp [h.2])
  · rfl

theorem mkNumVal_notBool (b : Bool) (q : Rat) : ∀ c, mkNumVal b q ≠ .bool c := by
  intro c; unfold mkNumVal; split <;> simp

theorem foldArith (g : Rat → Rat → Rat) : ∀ (ds : List LitVal) (acc z : LitVal) (x : Rat), acc.toRat? = some x → (∀ c, acc ≠ .bool c) →
    (∀ d ∈ ds, d.toRat? = some (ratOf d)) → ds.foldlM (pyArith g) acc = .ok z →
    z.toRat? = some (ds.foldl (fun r d => g r (ratOf d)) x) ∧ ∀ c, z ≠ .bool c
  | [], acc, z, x, ha, hnb, _, h => by
      simp only [List.foldlM_nil, pure, Except.pure, Except.ok.injEq] at h
      subst h; exact ⟨ha, hnb⟩
  | d :: ds, acc, z, x, ha, _, hd, h => by
      simp only [List.foldlM_cons] at h
      obtain ⟨acc', h1, h2⟩ := bind_ok h
      have hdd := hd d (List.mem_cons_self ..)
      unfold pyArith at h1
      simp only [ha, hdd] at h1
      cases h1
      simpa using foldArith g ds _ z (g x (ratOf d)) (toRat_mkNumVal _ _) (mkNumVal_notBool _ _)
        (fun d' hd' => hd d' (List.mem_cons_of_mem _ hd')) h2

theorem litValue_of_toRat {z : LitVal} {q : Rat} (h : z.toRat? = some q) (hb : ∀ b, z ≠ .bool b) : litValue z = .ok (Value.num q) := by
  cases z with
  | int n => simp only [LitVal.toRat?, Option.some.injEq] at h; subst h; rfl
  | flt r => simp only [LitVal.toRat?, Option.some.injEq] at h; subst h; rfl
  | bool b => exact absurd rfl (hb b)
  | _ => simp [LitVal.toRat?] at h

theorem mapM_asNum_prims : ∀ (l : List Prim) (qs : List Rat), (l.map Value.prim).mapM asNum = .ok qs → l = qs.map Prim.num
  | [], qs, h => by simp only [List.map_nil, List.mapM_nil, pure, Except.pure, Except.ok.injEq] at h; subst h; rfl
  | p :: l, qs, h => by
      simp only [List.map_cons, List.mapM_cons] at h
      obtain ⟨q, hq, h⟩ := ebind_ok h
      obtain ⟨qs', hqs, h⟩ := ebind_ok h
      simp only [pure, Except.pure, Except.ok.injEq] at h
      subst h
      have hp : p = .num q := by
        cases p <;> simp only [asNum, Except.ok.injEq] at hq <;> first | (subst hq; rfl) | cases hq
      rw [hp, mapM_asNum_prims l qs' hqs]; rfl

theorem toRat_of_litPrim {d : LitVal} {q : Rat} (hn : d ≠ .nan) (h : litPrim d = .num q) : d.toRat? = some q ∧ ratOf d = q := by
  cases d <;> simp only [litPrim, Prim.num.injEq] at h <;> first
    | (subst h; exact ⟨rfl, rfl⟩)
    | exact absurd rfl hn
    | cases h

/-- folding an arithmetic aggregate (`sum`, `prod`) over the distinct members of a set literal of literals gives the aggregate of
    the numbers the semantics sees -/
theorem agg_set_core (g : Rat → Rat → Rat) (i0 : Int) {ls : List LitVal} {qs : List Rat} {z : LitVal} (hg : GoodLits ls)
    (hq : ((ls.map litPrim).eraseDups.map Value.prim).mapM asNum = .ok qs)
    (hz : (distinctVals ls).foldlM (pyArith g) (.int i0) = .ok z) : litValue z = .ok (Value.num (qs.foldl g (i0 : Rat))) := by
  have hmap := distinctVals_map ls hg
  have hdps := mapM_asNum_prims _ _ hq
  have hd : ∀ d ∈ distinctVals ls, d.toRat? = some (ratOf d) := by
    intro d hdm
    have hpm : litPrim d ∈ (ls.map litPrim).eraseDups := by rw [← hmap]; exact List.mem_map.2 ⟨d, hdm, rfl⟩
    rw [hdps] at hpm
    obtain ⟨q, _, hq'⟩ := List.mem_map.1 hpm
    obtain ⟨h1, h2⟩ := toRat_of_litPrim (hg.1 d (distinctVals_subset hdm)) hq'.symm
    rw [h2]; exact h1
  obtain ⟨hz1, hz2⟩ := foldArith g (distinctVals ls) (.int i0) z (i0 : Rat) rfl (by intro c; simp) hd hz
  have hqs : qs = (distinctVals ls).map ratOf := by
    have h1 : (distinctVals ls).map litPrim = qs.map Prim.num := by rw [hmap, hdps]
    have : ∀ (ds : List LitVal) (rs : List Rat), (∀ d ∈ ds, d ≠ .nan) → ds.map litPrim = rs.map Prim.num → rs = ds.map ratOf := by
      intro ds
      induction ds with
      | nil => intro rs _ h; cases rs with | nil => rfl | cons _ _ => simp at h
      | cons d ds ih =>
        intro rs hn h
        cases rs with
        | nil => simp at h
        | cons r rs =>
          simp only [List.map_cons, List.cons.injEq] at h
          have := toRat_of_litPrim (hn d (List.mem_cons_self ..)) h.1
          rw [List.map_cons, this.2, ih rs (fun d' hd' => hn d' (List.mem_cons_of_mem _ hd')) h.2]
    exact this _ _ (fun d hdm => hg.1 d (distinctVals_subset hdm)) h1
  rw [litValue_of_toRat hz1 hz2, hqs, List.foldl_map]

theorem applyFun_sum {xs : List Value} {v : Value} (hc : OracleClosed opq) (h : applyFun opq "sum" xs = .ok v) :
    ∃ a qs, xs = [a] ∧ numsOf a = .ok qs ∧ v = Value.num (qs.foldl (· + ·) 0) := by
  unfold applyFun at h
  split at h
  all_goals first
    | (rename_i heq; exact absurd heq (by decide))
    | (exact absurd h (hc "sum" (by decide) _ _))
    | skip
  rename_i a _
  cases he : numsOf a with
  | error e => rw [he] at h; simp [bind, Except.bind] at h
  | ok qs =>
    rw [he] at h
    simp only [bind, Except.bind, pure, Except.pure, Except.ok.injEq] at h
    exact ⟨a, qs, rfl, he, h.symm⟩

theorem applyFun_prod {xs : List Value} {v : Value} (hc : OracleClosed opq) (h : applyFun opq "prod" xs = .ok v) :
    ∃ a qs, xs = [a] ∧ numsOf a = .ok qs ∧ v = Value.num (qs.foldl (· * ·) 1) := by
  unfold applyFun at h
  split at h
  all_goals first
    | (rename_i heq; exact absurd heq (by decide))
    | (exact absurd h (hc "prod" (by decide) _ _))
    | skip
  rename_i a _
  cases he : numsOf a with
  | error e => rw [he] at h; simp [bind, Except.bind] at h
  | ok qs =>
    rw [he] at h
    simp only [bind, Except.bind, pure, Except.pure, Except.ok.injEq] at h
    exact ⟨a, qs, rfl, he, h.symm⟩

/-- what the semantics sees of a set literal of number literals: the numbers of its distinct members -/
theorem set_nums {f : Nat} {ρ : Env} {ts : DataType} {args vs : ExprList} {ls : List LitVal} {a : Value} {qs : List Rat}
    (ihS : ∀ e r', simp f e = .ok r' → Pres opq r' e) (hxs : evalList opq ρ args = .ok [a])
    (ha : (match args with | .cons a _ => simp f a | .nil => (.error .index : M Expr)) = .ok (.set ts vs))
    (hl : numLitVals? vs = some ls) (hq : numsOf a = .ok qs) :
    GoodLits ls ∧ ((ls.map litPrim).eraseDups.map Value.prim).mapM asNum = .ok qs := by
  have hset := arg0_simplified opq ihS hxs ha
  rw [eval_set_eq] at hset
  obtain ⟨ps, hps, hset⟩ := ebind_ok hset
  cases hk : sameKinds ps with
  | false => rw [hk] at hset; cases hset
  | true =>
    rw [hk] at hset
    simp only [if_true, pure, Except.pure, Except.ok.injEq] at hset
    subst hset
    obtain ⟨rfl, hnan⟩ := litVals_prims opq (numLitVals_lit hl) hps
    refine ⟨⟨hnan, fun x hx y hy =>
      (sameKinds_iff _).1 hk _ (List.mem_map.2 ⟨x, hx, rfl⟩) _ (List.mem_map.2 ⟨y, hy, rfl⟩)⟩, ?_⟩
    simp only [numsOf, elems, bind, Except.bind, eraseDups_idem] at hq
    exact hq

theorem fold_sum_set {f : Nat} {ρ : Env} {t ts : DataType} {args vs : ExprList} {ls : List LitVal} {z : LitVal} {r : Expr} {v : Value}
    (hc : OracleClosed opq) (ihS : ∀ e r', simp f e = .ok r' → Pres opq r' e)
    (hv : eval opq ρ (.call t "sum" args) = .ok v)
    (ha : (match args with | .cons a _ => simp f a | .nil => (.error .index : M Expr)) = .ok (.set ts vs))
    (hl : numLitVals? vs = some ls) (hz : sumVals (distinctVals ls) = .ok z) (hr : litNumber z = .ok r) : eval opq ρ r = .ok v := by
  obtain ⟨xs, hxs, happ⟩ := call_unfold opq hv
  obtain ⟨a, qs, rfl, hqs, rfl⟩ := applyFun_sum opq hc happ
  obtain ⟨hg, hq⟩ := set_nums opq ihS hxs ha hl hqs
  rw [litNumber_eval opq hr ρ]
  have := agg_set_core (· + ·) 0 hg hq hz
  simpa using this

theorem fold_prod_set {f : Nat} {ρ : Env} {t ts : DataType} {args vs : ExprList} {ls : List LitVal} {z : LitVal} {r : Expr} {v : Value}
    (hc : OracleClosed opq) (ihS : ∀ e r', simp f e = .ok r' → Pres opq r' e)
    (hv : eval opq ρ (.call t "prod" args) = .ok v)
    (ha : (match args with | .cons a _ => simp f a | .nil => (.error .index : M Expr)) = .ok (.set ts vs))
    (hl : numLitVals? vs = some ls) (hz : prodVals (distinctVals ls) = .ok z) (hr : litNumber z = .ok r) : eval opq ρ r = .ok v := by
  obtain ⟨xs, hxs, happ⟩ := call_unfold opq hv
  obtain ⟨a, qs, rfl, hqs, rfl⟩ := applyFun_prod opq hc happ
  obtain ⟨hg, hq⟩ := set_nums opq ihS hxs ha hl hqs
  rw [litNumber_eval opq hr ρ]
  have := agg_set_core (· * ·) 1 hg hq hz
  simpa using this

theorem mapM_asNum_ints : ∀ (is : List Int), (is.map (fun (i : Int) => Value.num (Rat.ofInt i))).mapM asNum = .ok (is.map (fun (i : Int) => (i : Rat)))
  | [] => rfl
  | i :: is => by
      simp only [List.map_cons, List.mapM_cons, bind, Except.bind, mapM_asNum_ints is, pure, Except.pure]
      rfl

/-- what the semantics sees of a range literal with literal bounds: the integers the simplifier enumerates -/
theorem range_nums {f : Nat} {ρ : Env} {tr : DataType} {args : ExprList} {lo hi : Expr} {exLo exHi : Bool} {l h : LitVal}
    {lb ub : Int} {a : Value} {qs : List Rat}
    (ihS : ∀ e r', simp f e = .ok r' → Pres opq r' e) (hxs : evalList opq ρ args = .ok [a])
    (ha : (match args with | .cons a _ => simp f a | .nil => (.error .index : M Expr)) = .ok (.range tr lo hi exLo exHi))
    (hl : numLit? lo = some l) (hh : numLit? hi = some h) (hb : rangeBounds l h exLo exHi = .ok (lb, ub))
    (hq : numsOf a = .ok qs) : qs = (intRange lb ub).map (fun (i : Int) => (i : Rat)) := by
  have hrange := arg0_simplified opq ihS hxs ha
  obtain ⟨tl, kl, rfl⟩ := numLit_some hl
  obtain ⟨th, kh, rfl⟩ := numLit_some hh
  simp only [eval] at hrange
  obtain ⟨x1, h1, hrange⟩ := ebind_ok hrange
  obtain ⟨x2, h2, hrange⟩ := ebind_ok hrange
  obtain ⟨p1, hp1, hrange⟩ := ebind_ok hrange
  obtain ⟨p2, hp2, hrange⟩ := ebind_ok hrange
  split at hrange
  · simp only [pure, Except.pure, Except.ok.injEq] at hrange
    subst hrange
    simp only [numsOf, elems] at hq
    obtain ⟨es, hes, hq⟩ := ebind_ok hq
    obtain ⟨is, his, hes⟩ := ebind_ok hes
    simp only [pure, Except.pure, Except.ok.injEq] at hes
    subst hes
    rw [mapM_asNum_ints] at hq
    simp only [Except.ok.injEq] at hq
    subst hq
    have hx1 := (asPrim_ok).1 hp1
    have hx2 := (asPrim_ok).1 hp2
    subst hx1; subst hx2
    unfold rangeInts at his
    split at his
    · split at his
      · rename_i hint
        simp only [Bool.and_eq_true] at hint
        simp only [Except.ok.injEq] at his
        subst his
        have e1 := pyInt_of_value (l := l) h1 hint.1
        have e2 := pyInt_of_value (l := h) h2 hint.2
        simp only [rangeBounds, e1, e2, bind, Except.bind, pure, Except.pure, Except.ok.injEq, Prod.mk.injEq] at hb
        obtain ⟨rfl, rfl⟩ := hb
        have hcount : ∀ (x y : Int) (p q : Bool),
            (y + (if q then 0 else 1) - (x + (if p then 1 else 0))).toNat = (y - (if q then 1 else 0) - (x + (if p then 1 else 0)) + 1).toNat := by
          intro x y p q; cases p <;> cases q <;> simp <;> congr 1 <;> omega
        simp only [intRange, hcount]
      · cases his
    · split at his <;> cases his
  · cases hrange

theorem foldl_add_cast : ∀ (is : List Int) (x : Int), (is.map (fun (i : Int) => (i : Rat))).foldl (· + ·) (x : Rat) = ((is.foldl (· + ·) x : Int) : Rat)
  | [], _ => rfl
  | i :: is, x => by
      simp only [List.map_cons, List.foldl_cons]
      rw [← foldl_add_cast is (x + i)]
      congr 1
      exact (Rat.intCast_add x i).symm

theorem foldl_mul_cast : ∀ (is : List Int) (x : Int), (is.map (fun (i : Int) => (i : Rat))).foldl (· * ·) (x : Rat) = ((is.foldl (· * ·) x : Int) : Rat)
  | [], _ => rfl
  | i :: is, x => by
      simp only [List.map_cons, List.foldl_cons]
      rw [← foldl_mul_cast is (x * i)]
      congr 1
      exact (Rat.intCast_mul x i).symm

theorem fold_sum_range {f : Nat} {ρ : Env} {t tr : DataType} {args : ExprList} {lo hi : Expr} {exLo exHi : Bool} {l h : LitVal}
    {lb ub : Int} {r : Expr} {v : Value}
    (hc : OracleClosed opq) (ihS : ∀ e r', simp f e = .ok r' → Pres opq r' e)
    (hv : eval opq ρ (.call t "sum" args) = .ok v)
    (ha : (match args with | .cons a _ => simp f a | .nil => (.error .index : M Expr)) = .ok (.range tr lo hi exLo exHi))
    (hl : numLit? lo = some l) (hh : numLit? hi = some h) (hb : rangeBounds l h exLo exHi = .ok (lb, ub))
    (hr : litNumber (.int ((intRange lb ub).foldl (· + ·) 0)) = .ok r) : eval opq ρ r = .ok v := by
  obtain ⟨xs, hxs, happ⟩ := call_unfold opq hv
  obtain ⟨a, qs, rfl, hqs, rfl⟩ := applyFun_sum opq hc happ
  have hq := range_nums opq ihS hxs ha hl hh hb hqs
  rw [litNumber_eval opq hr ρ, hq]
  have := foldl_add_cast (intRange lb ub) 0
  rw [Rat.intCast_zero] at this
  simp only [litValue, this]

theorem fold_prod_range {f : Nat} {ρ : Env} {t tr : DataType} {args : ExprList} {lo hi : Expr} {exLo exHi : Bool} {l h : LitVal}
    {lb ub : Int} {r : Expr} {v : Value}
    (hc : OracleClosed opq) (ihS : ∀ e r', simp f e = .ok r' → Pres opq r' e)
    (hv : eval opq ρ (.call t "prod" args) = .ok v)
    (ha : (match args with | .cons a _ => simp f a | .nil => (.error .index : M Expr)) = .ok (.range tr lo hi exLo exHi))
    (hl : numLit? lo = some l) (hh : numLit? hi = some h) (hb : rangeBounds l h exLo exHi = .ok (lb, ub))
    (hr : litNumber (.int ((intRange lb ub).foldl (· * ·) 1)) = .ok r) : eval opq ρ r = .ok v := by
  obtain ⟨xs, hxs, happ⟩ := call_unfold opq hv
  obtain ⟨a, qs, rfl, hqs, rfl⟩ := applyFun_prod opq hc happ
  have hq := range_nums opq ihS hxs ha hl hh hb hqs
  rw [litNumber_eval opq hr ρ, hq]
  have := foldl_mul_cast (intRange lb ub) 1
  rw [Rat.intCast_one] at this
  simp only [litValue, this]

theorem mem_dd_of_mem {x : Prim} : ∀ {l : List Prim}, x ∈ l → x ∈ dd l
  | a :: l, h => by
      simp only [dd]
      by_cases hx : x = a
      · subst hx; exact List.mem_cons_self ..
      · rcases List.mem_cons.1 h with h1 | h1
        · exact absurd h1 hx
        · exact List.mem_cons_of_mem _ (List.mem_filter.2 ⟨mem_dd_of_mem h1, by simpa using hx⟩)

theorem mem_eraseDups_of_mem {x : Prim} {l : List Prim} (h : x ∈ l) : x ∈ l.eraseDups := by
  rw [eraseDups_dd]; exact mem_dd_of_mem h

theorem foldl_mul_zero : ∀ (qs : List Rat) (x : Rat), (0 : Rat) ∈ qs → qs.foldl (· * ·) x = 0
  | q :: qs, x, h => by
      simp only [List.foldl_cons]
      rcases List.mem_cons.1 h with h1 | h1
      · rw [← h1, Rat.mul_zero]
        clear h h1
        induction qs with
        | nil => rfl
        | cons q' qs ih => simp only [List.foldl_cons, Rat.zero_mul]; exact ih
      · exact foldl_mul_zero qs _ h1

/-- `prod` of a set literal one of whose members is a zero literal is folded to 0 -/
theorem fold_prod_zero {f : Nat} {ρ : Env} {t ts : DataType} {args vs : ExprList} {r : Expr} {v : Value}
    (hc : OracleClosed opq) (ihS : ∀ e r', simp f e = .ok r' → Pres opq r' e)
    (hv : eval opq ρ (.call t "prod" args) = .ok v)
    (ha : (match args with | .cons a _ => simp f a | .nil => (.error .index : M Expr)) = .ok (.set ts vs))
    (hz : vs.toList.any (fun v => match numLit? v with | some x => isZero x | none => false) = true)
    (hr : litNumber (.int 0) = .ok r) : eval opq ρ r = .ok v := by
  obtain ⟨xs, hxs, happ⟩ := call_unfold opq hv
  obtain ⟨a, qs, rfl, hqs, rfl⟩ := applyFun_prod opq hc happ
  have hset := arg0_simplified opq ihS hxs ha
  rw [eval_set_eq] at hset
  obtain ⟨ps, hps, hset⟩ := ebind_ok hset
  cases hk : sameKinds ps with
  | false => rw [hk] at hset; cases hset
  | true =>
    rw [hk] at hset
    simp only [if_true, pure, Except.pure, Except.ok.injEq] at hset
    subst hset
    obtain ⟨ys, hys, hps⟩ := ebind_ok hps
    rw [← ExprList.ofList_toList vs] at hys
    obtain ⟨hall, rfl⟩ := evalPrims_inv opq hys hps
    simp only [numsOf, elems, bind, Except.bind, eraseDups_idem] at hqs
    have hdps := mapM_asNum_prims _ _ hqs
    -- the zero member
    obtain ⟨e, he, hze⟩ := List.any_eq_true.1 hz
    cases hn : numLit? e with
    | none => simp [hn] at hze
    | some x =>
      simp only [hn] at hze
      obtain ⟨te, ke, rfl⟩ := numLit_some hn
      have hev := hall _ he
      simp only [eval] at hev
      obtain ⟨hx, hnan⟩ := litValue_litPrim hev
      simp only [Value.prim.injEq] at hx
      have hmem : litPrim x ∈ (vs.toList.map (primOf opq ρ)).eraseDups :=
        mem_eraseDups_of_mem (List.mem_map.2 ⟨_, he, hx⟩)
      rw [hdps] at hmem
      obtain ⟨q, hq, hqx⟩ := List.mem_map.1 hmem
      obtain ⟨htr, _⟩ := toRat_of_litPrim hnan hqx.symm
      have hq0 : q = 0 := by
        simp only [isZero, pyEq] at hze
        cases x <;> simp_all [LitVal.toRat?, pyEq]
      subst hq0
      rw [litNumber_eval opq hr ρ, foldl_mul_zero qs 1 hq]
      rfl

/-- **the folding of `sum` is sound** -/
theorem sum_fold_sound (hc : OracleClosed opq) (f : Nat) (t : DataType) (args : ExprList) (r : Expr)
    (ihS : ∀ e r', simp f e = .ok r' → Pres opq r' e)
    (h : simpCall (f + 1) (.call t "sum" args) "sum" args = .ok r) : Pres opq r (.call t "sum" args) := by
  intro ρ v hv
  unfold simpCall at h
  extract_lets arg0 at h
  simp only [show ("sum" == "abs") = false by decide, show ("sum" == "bool") = false by decide, show ("sum" == "int") = false by decide,
    show ("sum" == "float") = false by decide, show ("sum" == "str") = false by decide, show ("sum" == "len") = false by decide,
    show ("sum" == "sum") = true by decide, Bool.false_eq_true, ↓reduceIte] at h
  obtain ⟨a, ha, h⟩ := bind_ok h
  split at h
  · rename_i ts vs
    split at h
    · rename_i ls hl
      obtain ⟨z, hz, h⟩ := bind_ok h
      exact fold_sum_set opq hc ihS hv ha hl hz h
    · cases h; exact hv
  · rename_i tr lo hi exLo exHi
    split at h
    · rename_i l hh hl hhh
      obtain ⟨p, hp, h⟩ := bind_ok h
      obtain ⟨lb, ub⟩ := p
      exact fold_sum_range opq hc ihS hv ha hl hhh hp h
    · cases h; exact hv
  · cases h; exact hv

/-- **the folding of `prod` is sound** -/
theorem prod_fold_sound (hc : OracleClosed opq) (f : Nat) (t : DataType) (args : ExprList) (r : Expr)
    (ihS : ∀ e r', simp f e = .ok r' → Pres opq r' e)
    (h : simpCall (f + 1) (.call t "prod" args) "prod" args = .ok r) : Pres opq r (.call t "prod" args) := by
  intro ρ v hv
  unfold simpCall at h
  extract_lets arg0 at h
  simp only [show ("prod" == "abs") = false by decide, show ("prod" == "bool") = false by decide, show ("prod" == "int") = false by decide,
    show ("prod" == "float") = false by decide, show ("prod" == "str") = false by decide, show ("prod" == "len") = false by decide,
    show ("prod" == "sum") = false by decide, show ("prod" == "prod") = true by decide, Bool.false_eq_true, ↓reduceIte] at h
  obtain ⟨a, ha, h⟩ := bind_ok h
  split at h
  · rename_i ts vs
    split at h
    · rename_i hzero
      exact fold_prod_zero opq hc ihS hv ha hzero h
    · split at h
      · rename_i ls hl
        obtain ⟨z, hz, h⟩ := bind_ok h
        exact fold_prod_set opq hc ihS hv ha hl hz h
      · cases h; exact hv
  · rename_i tr lo hi exLo exHi
    split at h
    · rename_i l hh hl hhh
      obtain ⟨p, hp, h⟩ := bind_ok h
      obtain ⟨lb, ub⟩ := p
      simp only at h
      split at h
      · simp [unmodelled] at h
      · exact fold_prod_range opq hc ihS hv ha hl hhh hp h
    · cases h; exact hv
  · cases h; exact hv

end Hpl
