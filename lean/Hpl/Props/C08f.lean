import Hpl.Props.C08e
import Hpl.Props.C13
/-!
# C08 — the folding of `max` / `min` preserves meaning

`max` / `min` of a collection or of several arguments is the extremal element of the numbers the semantics sees; the simplifier
replaces the number literals among the operands (when there are at least two) by their extremal one and keeps the other operands.
Both are characterised by "is a member and bounds every member", so the order in which the operands are visited, repeated members
and the grouping do not matter.
-/
namespace Hpl

theorem rat_le_of_lt {a b : Rat} (h : a < b) : a ≤ b := by
  rcases Rat.le_total (a := a) (b := b) with h1 | h1
  · exact h1
  · exact absurd h (Rat.not_lt.2 h1)

/-- `listMax` returns a member that bounds every member -/
theorem foldMax_spec : ∀ (l : List Rat) (a : Rat),
    (l.foldl (fun a b => if a < b then b else a) a) ∈ a :: l ∧ ∀ y ∈ a :: l, y ≤ l.foldl (fun a b => if a < b then b else a) a
  | [], a => ⟨List.mem_cons_self .., fun y hy => by simp only [List.mem_singleton] at hy; subst hy; exact Rat.le_refl⟩
  | b :: l, a => by
      simp only [List.foldl_cons]
      obtain ⟨hm, hb⟩ := foldMax_spec l (if a < b then b else a)
      have hstep : a ≤ (if a < b then b else a) ∧ b ≤ (if a < b then b else a) ∧ ((if a < b then b else a) = a ∨ (if a < b then b else a) = b) := by
        by_cases h : a < b
        · simp only [h, if_true]; exact ⟨rat_le_of_lt h, Rat.le_refl, .inr trivial⟩
        · simp only [h, if_false]; exact ⟨Rat.le_refl, Rat.not_lt.1 h, .inl trivial⟩
      refine ⟨?_, fun y hy => ?_⟩
      · rcases List.mem_cons.1 hm with h1 | h1
        · rcases hstep.2.2 with h2 | h2
          · rw [h1, h2]; exact List.mem_cons_self ..
          · rw [h1, h2]; exact List.mem_cons_of_mem _ (List.mem_cons_self ..)
        · exact List.mem_cons_of_mem _ (List.mem_cons_of_mem _ h1)
      · have hs := hb _ (List.mem_cons_self ..)
        rcases List.mem_cons.1 hy with rfl | h1
        · exact Rat.le_trans hstep.1 hs
        · rcases List.mem_cons.1 h1 with rfl | h2
          · exact Rat.le_trans hstep.2.1 hs
          · exact hb y (List.mem_cons_of_mem _ h2)

theorem foldMin_spec : ∀ (l : List Rat) (a : Rat),
    (l.foldl (fun a b => if b < a then b else a) a) ∈ a :: l ∧ ∀ y ∈ a :: l, l.foldl (fun a b => if b < a then b else a) a ≤ y
  | [], a => ⟨List.mem_cons_self .., fun y hy => by simp only [List.mem_singleton] at hy; subst hy; exact Rat.le_refl⟩
  | b :: l, a => by
      simp only [List.foldl_cons]
      obtain ⟨hm, hb⟩ := foldMin_spec l (if b < a then b else a)
      have hstep : (if b < a then b else a) ≤ a ∧ (if b < a then b else a) ≤ b ∧ ((if b < a then b else a) = a ∨ (if b < a then b else a) = b) := by
        by_cases h : b < a
        · simp only [h, if_true]; exact ⟨rat_le_of_lt h, Rat.le_refl, .inr trivial⟩
        · simp only [h, if_false]; exact ⟨Rat.le_refl, Rat.not_lt.1 h, .inl trivial⟩
      refine ⟨?_, fun y hy => ?_⟩
      · rcases List.mem_cons.1 hm with h1 | h1
        · rcases hstep.2.2 with h2 | h2
          · rw [h1, h2]; exact List.mem_cons_self ..
          · rw [h1, h2]; exact List.mem_cons_of_mem _ (List.mem_cons_self ..)
        · exact List.mem_cons_of_mem _ (List.mem_cons_of_mem _ h1)
      · have hs := hb _ (List.mem_cons_self ..)
        rcases List.mem_cons.1 hy with rfl | h1
        · exact Rat.le_trans hs hstep.1
        · rcases List.mem_cons.1 h1 with rfl | h2
          · exact Rat.le_trans hs hstep.2.1
          · exact hb y (List.mem_cons_of_mem _ h2)

/-- the extremal element, for `max` (`isMax`) or `min` -/
def extremum (isMax : Bool) (l : List Rat) : EM Rat := if isMax then listMax l else listMin l

/-- `m` is the extremum of the (non-empty) list: a member bounding every member -/
def IsExt (isMax : Bool) (m : Rat) (l : List Rat) : Prop := m ∈ l ∧ ∀ y ∈ l, (if isMax then y ≤ m else m ≤ y)

theorem extremum_spec {isMax : Bool} {l : List Rat} {m : Rat} (h : extremum isMax l = .ok m) : IsExt isMax m l := by
  cases l with
  | nil => cases isMax <;> simp [extremum, listMax, listMin] at h
  | cons a l =>
    cases isMax with
    | true =>
      simp only [extremum, if_true, listMax, Except.ok.injEq] at h
      subst h
      obtain ⟨h1, h2⟩ := foldMax_spec l a
      exact ⟨h1, fun y hy => by simpa using h2 y hy⟩
    | false =>
      simp only [extremum, Bool.false_eq_true, if_false, listMin, Except.ok.injEq] at h
      subst h
      obtain ⟨h1, h2⟩ := foldMin_spec l a
      exact ⟨h1, fun y hy => by simpa using h2 y hy⟩

theorem extremum_of_isExt {isMax : Bool} {l : List Rat} {m : Rat} (h : IsExt isMax m l) : extremum isMax l = .ok m := by
  cases l with
  | nil => exact absurd h.1 (by simp)
  | cons a l' =>
    cases hm : extremum isMax (a :: l') with
    | error e => cases isMax <;> simp [extremum, listMax, listMin] at hm
    | ok m' =>
      have h' := extremum_spec hm
      congr 1
      cases isMax with
      | true =>
        have e1 := h.2 m' h'.1
        have e2 := h'.2 m h.1
        simp only [if_true] at e1 e2
        exact Rat.le_antisymm e1 e2
      | false =>
        have e1 := h.2 m' h'.1
        have e2 := h'.2 m h.1
        simp only [Bool.false_eq_true, if_false] at e1 e2
        exact Rat.le_antisymm e2 e1

/-- two lists with the same members have the same extremum -/
theorem isExt_congr {isMax : Bool} {m : Rat} {l l' : List Rat} (h : IsExt isMax m l) (h1 : ∀ x ∈ l, x ∈ l') (h2 : ∀ x ∈ l', x ∈ l) :
    IsExt isMax m l' := ⟨h1 m h.1, fun y hy => h.2 y (h2 y hy)⟩

theorem pyLt_fin {a b : LitVal} {x y : Rat} (ha : a.toRat? = some x) (hb : b.toRat? = some y) : pyLt a b = .ok (decide (x < y)) := by
  cases a <;> cases b <;> simp only [LitVal.toRat?, Option.some.injEq, reduceCtorEq] at ha hb <;>
    (subst ha; subst hb; simp [pyLt, LitVal.toRat?])

theorem maxFold : ∀ (ls : List LitVal) (acc m : LitVal), (∀ d ∈ acc :: ls, d.toRat? = some (ratOf d)) →
    ls.foldlM (fun acc x => do let lt ← pyLt acc x; pure (if lt then x else acc)) acc = .ok m →
    m ∈ acc :: ls ∧ ratOf m = (ls.map ratOf).foldl (fun a b => if a < b then b else a) (ratOf acc)
  | [], acc, m, _, h => by
      simp only [List.foldlM_nil, pure, Except.pure, Except.ok.injEq] at h
      subst h; exact ⟨List.mem_cons_self .., rfl⟩
  | d :: ls, acc, m, hf, h => by
      simp only [List.foldlM_cons] at h
      obtain ⟨acc', h1, h2⟩ := bind_ok h
      have hlt := pyLt_fin (hf acc (List.mem_cons_self ..)) (hf d (List.mem_cons_of_mem _ (List.mem_cons_self ..)))
      rw [hlt] at h1
      simp only [bind, Except.bind, pure, Except.pure, Except.ok.injEq] at h1
      subst h1
      have hacc' : (if decide (ratOf acc < ratOf d) = true then d else acc) ∈ acc :: d :: ls := by
        split
        · exact List.mem_cons_of_mem _ (List.mem_cons_self ..)
        · exact List.mem_cons_self ..
      obtain ⟨hm, hr⟩ := maxFold ls _ m (fun x hx => by
        rcases List.mem_cons.1 hx with rfl | hx'
        · exact hf _ hacc'
        · exact hf x (List.mem_cons_of_mem _ (List.mem_cons_of_mem _ hx'))) h2
      refine ⟨?_, ?_⟩
      · rcases List.mem_cons.1 hm with rfl | hm'
        · exact hacc'
        · exact List.mem_cons_of_mem _ (List.mem_cons_of_mem _ hm')
      · rw [hr]
        simp only [List.map_cons, List.foldl_cons]
        congr 1
        by_cases hc : ratOf acc < ratOf d <;> simp [hc]

theorem minFold : ∀ (ls : List LitVal) (acc m : LitVal), (∀ d ∈ acc :: ls, d.toRat? = some (ratOf d)) →
    ls.foldlM (fun acc x => do let lt ← pyLt x acc; pure (if lt then x else acc)) acc = .ok m →
    m ∈ acc :: ls ∧ ratOf m = (ls.map ratOf).foldl (fun a b => if b < a then b else a) (ratOf acc)
  | [], acc, m, _, h => by
      simp only [List.foldlM_nil, pure, Except.pure, Except.ok.injEq] at h
      subst h; exact ⟨List.mem_cons_self .., rfl⟩
  | d :: ls, acc, m, hf, h => by
      simp only [List.foldlM_cons] at h
      obtain ⟨acc', h1, h2⟩ := bind_ok h
      have hlt := pyLt_fin (hf d (List.mem_cons_of_mem _ (List.mem_cons_self ..))) (hf acc (List.mem_cons_self ..))
      rw [hlt] at h1
      simp only [bind, Except.bind, pure, Except.pure, Except.ok.injEq] at h1
      subst h1
      have hacc' : (if decide (ratOf d < ratOf acc) = true then d else acc) ∈ acc :: d :: ls := by
        split
        · exact List.mem_cons_of_mem _ (List.mem_cons_self ..)
        · exact List.mem_cons_self ..
      obtain ⟨hm, hr⟩ := minFold ls _ m (fun x hx => by
        rcases List.mem_cons.1 hx with rfl | hx'
        · exact hf _ hacc'
        · exact hf x (List.mem_cons_of_mem _ (List.mem_cons_of_mem _ hx'))) h2
      refine ⟨?_, ?_⟩
      · rcases List.mem_cons.1 hm with rfl | hm'
        · exact hacc'
        · exact List.mem_cons_of_mem _ (List.mem_cons_of_mem _ hm')
      · rw [hr]
        simp only [List.map_cons, List.foldl_cons]
        congr 1
        by_cases hc : ratOf d < ratOf acc <;> simp [hc]

/-- the literal the simplifier picks among number literals -/
def extVal (isMax : Bool) (lits : List LitVal) : M LitVal := if isMax then maxVal lits else minVal lits

theorem extVal_spec {isMax : Bool} {lits : List LitVal} {m : LitVal} (hf : ∀ d ∈ lits, d.toRat? = some (ratOf d))
    (h : extVal isMax lits = .ok m) : m ∈ lits ∧ IsExt isMax (ratOf m) (lits.map ratOf) := by
  cases lits with
  | nil => cases isMax <;> simp [extVal, maxVal, minVal] at h
  | cons v rest =>
    cases isMax with
    | true =>
      simp only [extVal, if_true, maxVal] at h
      obtain ⟨hm, hr⟩ := maxFold rest v m hf h
      refine ⟨hm, ?_⟩
      rw [hr]
      obtain ⟨h1, h2⟩ := foldMax_spec (rest.map ratOf) (ratOf v)
      exact ⟨by simpa using h1, fun y hy => by simpa using h2 y (by simpa using hy)⟩
    | false =>
      simp only [extVal, Bool.false_eq_true, if_false, minVal] at h
      obtain ⟨hm, hr⟩ := minFold rest v m hf h
      refine ⟨hm, ?_⟩
      rw [hr]
      obtain ⟨h1, h2⟩ := foldMin_spec (rest.map ratOf) (ratOf v)
      exact ⟨by simpa using h1, fun y hy => by simpa using h2 y (by simpa using hy)⟩

variable (opq : Opaque)

theorem splitLits_parts : ∀ (values : List Expr),
    (∀ e ∈ (splitLits values).1, e ∈ values) ∧
    (∀ l ∈ (splitLits values).2, ∃ e ∈ values, numLit? e = some l) ∧
    (∀ e ∈ values, e ∈ (splitLits values).1 ∨ ∃ l ∈ (splitLits values).2, numLit? e = some l)
  | [] => ⟨fun _ h => (by cases h), fun _ h => (by cases h), fun _ h => (by cases h)⟩
  | e :: es => by
      obtain ⟨h1, h2, h3⟩ := splitLits_parts es
      cases hn : numLit? e with
      | none =>
        simp only [splitLits, hn]
        refine ⟨fun x hx => ?_, fun l hl => ?_, fun x hx => ?_⟩
        · rcases List.mem_cons.1 hx with rfl | hx'
          · exact List.mem_cons_self ..
          · exact List.mem_cons_of_mem _ (h1 x hx')
        · obtain ⟨x, hx, hxl⟩ := h2 l hl
          exact ⟨x, List.mem_cons_of_mem _ hx, hxl⟩
        · rcases List.mem_cons.1 hx with rfl | hx'
          · exact .inl (List.mem_cons_self ..)
          · rcases h3 x hx' with h | h
            · exact .inl (List.mem_cons_of_mem _ h)
            · exact .inr h
      | some v =>
        simp only [splitLits, hn]
        refine ⟨fun x hx => List.mem_cons_of_mem _ (h1 x hx), fun l hl => ?_, fun x hx => ?_⟩
        · rcases List.mem_cons.1 hl with rfl | hl'
          · exact ⟨e, List.mem_cons_self .., hn⟩
          · obtain ⟨x, hx, hxl⟩ := h2 l hl'
            exact ⟨x, List.mem_cons_of_mem _ hx, hxl⟩
        · rcases List.mem_cons.1 hx with rfl | hx'
          · exact .inr ⟨v, List.mem_cons_self .., hn⟩
          · rcases h3 x hx' with h | h
            · exact .inl h
            · obtain ⟨l, hl, hxl⟩ := h
              exact .inr ⟨l, List.mem_cons_of_mem _ hl, hxl⟩

/-- the number an expression evaluates to (junk where it does not evaluate to one) -/
def valOf (ρ : Env) (e : Expr) : Rat := match eval opq ρ e with | .ok (.prim (.num q)) => q | _ => 0

theorem valOf_eq {ρ : Env} {e : Expr} {q : Rat} (h : eval opq ρ e = .ok (Value.num q)) : valOf opq ρ e = q := by
  simp [valOf, h, Value.num]

theorem evalList_nums {ρ : Env} : ∀ (es : List Expr), (∀ e ∈ es, eval opq ρ e = .ok (Value.num (valOf opq ρ e))) →
    evalList opq ρ (ExprList.ofList es) = .ok (es.map (fun e => Value.num (valOf opq ρ e)))
  | [], _ => rfl
  | e :: es, h => by
      simp only [ExprList.ofList, evalList, h e (List.mem_cons_self ..), bind, Except.bind,
        evalList_nums es (fun x hx => h x (List.mem_cons_of_mem _ hx)), pure, Except.pure, List.map_cons]

theorem mapM_asNum_nums : ∀ (qs : List Rat), (qs.map Value.num).mapM asNum = .ok qs
  | [] => rfl
  | q :: qs => by simp only [List.map_cons, List.mapM_cons, bind, Except.bind, mapM_asNum_nums qs, pure, Except.pure]; rfl

theorem applyFun_ext_multi (isMax : Bool) (a b : Value) (rest : List Value) :
    applyFun opq (if isMax then "max" else "min") (a :: b :: rest) =
      (do let qs ← (a :: b :: rest).mapM asNum; let m ← extremum isMax qs; pure (Value.num m)) := by
  cases isMax <;> rfl

theorem litValue_fin {l : LitVal} {q : Rat} (h : litValue l = .ok (Value.num q)) : l.toRat? = some q ∧ ratOf l = q := by
  rcases litValue_num h with ⟨rfl, hd⟩ | rfl
  · have : (q.num : Rat) = q := Rat.ext (by simp) (by simp [hd])
    exact ⟨by simp only [LitVal.toRat?, this], by simp only [ratOf, litPrim, this]⟩
  · exact ⟨rfl, rfl⟩

theorem isExt_unique {isMax : Bool} {m m' : Rat} {l : List Rat} (h : IsExt isMax m l) (h' : IsExt isMax m' l) : m = m' := by
  have e1 := extremum_of_isExt h
  rw [extremum_of_isExt h'] at e1
  exact (Except.ok.inj e1).symm

/-- **the folding step of `max` / `min` on a list of operands**: whatever it returns has the value of the extremum of the operands -/
theorem foldMinMax_sound {isMax : Bool} {ρ : Env} {call : Expr} {values : List Expr} {r : Expr} {m0 : Rat} {qs : List Rat}
    (H1 : ∀ e ∈ values, ∃ q ∈ qs, eval opq ρ e = .ok (Value.num q))
    (H2 : ∀ q ∈ qs, ∃ e ∈ values, eval opq ρ e = .ok (Value.num q))
    (H3 : IsExt isMax m0 qs) (hcall : eval opq ρ call = .ok (Value.num m0))
    (h : foldMinMax call (if isMax then "max" else "min") isMax values = .ok r) : eval opq ρ r = .ok (Value.num m0) := by
  unfold foldMinMax at h
  obtain ⟨S1, S2, S3⟩ := splitLits_parts values
  generalize splitLits values = sp at h S1 S2 S3
  obtain ⟨vars, lits⟩ := sp
  simp only at h S1 S2 S3
  split at h
  · cases h; exact hcall
  · obtain ⟨m, hm, h⟩ := bind_ok h
    obtain ⟨n, hn, h⟩ := bind_ok h
    -- the literals among the operands are finite numbers
    have hlit : ∀ l ∈ lits, ∃ e ∈ values, numLit? e = some l ∧ eval opq ρ e = .ok (Value.num (ratOf l)) ∧ l.toRat? = some (ratOf l) := by
      intro l hl
      obtain ⟨e, he, hel⟩ := S2 l hl
      obtain ⟨q, _, hq⟩ := H1 e he
      obtain ⟨t, k, rfl⟩ := numLit_some hel
      have hq' := hq
      simp only [eval] at hq'
      obtain ⟨h1, h2⟩ := litValue_fin hq'
      exact ⟨_, he, hel, by rw [h2]; exact hq, by rw [h2]; exact h1⟩
    have hext : extVal isMax lits = .ok m := by cases isMax <;> simpa [extVal] using hm
    obtain ⟨hml, hmext⟩ := extVal_spec (fun d hd => (hlit d hd).choose_spec.2.2.2) hext
    have hneval : eval opq ρ n = .ok (Value.num (ratOf m)) := by
      rw [litNumber_eval opq hn ρ]
      obtain ⟨e, he, hel, hev, _⟩ := hlit m hml
      obtain ⟨t, k, rfl⟩ := numLit_some hel
      simpa [eval] using hev
    -- the extremal literal is one of the values the semantics sees
    have hm_qs : ratOf m ∈ qs := by
      obtain ⟨e, he, _, hev, _⟩ := hlit m hml
      obtain ⟨q, hq, hq'⟩ := H1 e he
      rw [hev] at hq'
      have : ratOf m = q := by simpa [Value.num] using hq'
      rw [this]; exact hq
    split at h
    · -- all operands are literals
      rename_i hvars
      cases h
      have hvn : vars = [] := by simpa using hvars
      subst hvn
      have : IsExt isMax (ratOf m) qs := by
        refine ⟨hm_qs, fun q hq => ?_⟩
        obtain ⟨e, he, hev⟩ := H2 q hq
        rcases S3 e he with hv | ⟨l, hl, hel⟩
        · cases hv
        · obtain ⟨t, k, rfl⟩ := numLit_some hel
          obtain ⟨_, _, _, hev', _⟩ := hlit l hl
          have hq_eq : q = ratOf l := by
            have h1 : eval opq ρ (.lit t k l) = .ok (Value.num (ratOf l)) := by
              obtain ⟨e', he', hel', hev'', _⟩ := hlit l hl
              obtain ⟨t', k', rfl⟩ := numLit_some hel'
              simpa [eval] using hev''
            rw [h1] at hev
            simpa [Value.num] using hev.symm
          rw [hq_eq]
          exact hmext.2 _ (List.mem_map.2 ⟨l, hl, rfl⟩)
      rw [isExt_unique H3 this]
      exact hneval
    · -- some operands remain: the call is rebuilt around them and the extremal literal
      rename_i hvars
      rw [mkCall_eval' opq h ρ T.NUMBER]
      have hvals : ∀ e ∈ vars ++ [n], eval opq ρ e = .ok (Value.num (valOf opq ρ e)) := by
        intro e he
        rcases List.mem_append.1 he with hv | hv
        · obtain ⟨q, _, hq⟩ := H1 e (S1 e hv)
          rw [valOf_eq opq hq]; exact hq
        · simp only [List.mem_singleton] at hv; subst hv
          rw [valOf_eq opq hneval]; exact hneval
      simp only [eval, evalList_nums opq _ hvals, bind, Except.bind]
      -- at least two operands
      obtain ⟨v0, vars', rfl⟩ : ∃ v0 vars', vars = v0 :: vars' := by
        cases vars with
        | nil => simp at hvars
        | cons v0 vars' => exact ⟨v0, vars', rfl⟩
      have hshape : ∃ a b rest, ((v0 :: vars') ++ [n]).map (fun e => Value.num (valOf opq ρ e)) = a :: b :: rest := by
        cases vars' with
        | nil => exact ⟨_, _, [], rfl⟩
        | cons v1 vs => exact ⟨_, _, _, rfl⟩
      obtain ⟨a, b, rest, hab⟩ := hshape
      rw [hab, applyFun_ext_multi, ← hab]
      have hmap : ((v0 :: vars') ++ [n]).map (fun e => Value.num (valOf opq ρ e)) =
          (((v0 :: vars') ++ [n]).map (valOf opq ρ)).map Value.num := by simp [List.map_map]
      rw [hmap, mapM_asNum_nums]
      have hext' : IsExt isMax m0 (((v0 :: vars') ++ [n]).map (valOf opq ρ)) := by
        have hn_val : valOf opq ρ n = ratOf m := valOf_eq opq hneval
        refine ⟨?_, fun y hy => ?_⟩
        · obtain ⟨e, he, hev⟩ := H2 m0 H3.1
          rcases S3 e he with hv | ⟨l, hl, hel⟩
          · exact List.mem_map.2 ⟨e, List.mem_append_left _ hv, valOf_eq opq hev⟩
          · -- m0 is a literal's value: then it is the extremal literal
            obtain ⟨e', he', hel', hev', _⟩ := hlit l hl
            have hq_eq : m0 = ratOf l := by
              obtain ⟨t, k, rfl⟩ := numLit_some hel
              obtain ⟨t', k', rfl⟩ := numLit_some hel'
              have h1 : eval opq ρ (.lit t k l) = .ok (Value.num (ratOf l)) := by simpa [eval] using hev'
              rw [h1] at hev
              simpa [Value.num] using hev.symm
            have hb1 := hmext.2 (ratOf l) (List.mem_map.2 ⟨l, hl, rfl⟩)
            have hb2 := H3.2 (ratOf m) hm_qs
            have : m0 = ratOf m := by
              rw [hq_eq] at hb2 ⊢
              cases isMax
              · simp only [Bool.false_eq_true, if_false] at hb1 hb2; exact Rat.le_antisymm hb2 hb1
              · simp only [if_true] at hb1 hb2; exact Rat.le_antisymm hb1 hb2
            exact List.mem_map.2 ⟨n, List.mem_append_right _ (List.mem_singleton.2 rfl), by rw [hn_val, this]⟩
        · obtain ⟨e, he, rfl⟩ := List.mem_map.1 hy
          rcases List.mem_append.1 he with hv | hv
          · obtain ⟨q, hq, hev⟩ := H1 e (S1 e hv)
            rw [valOf_eq opq hev]; exact H3.2 q hq
          · simp only [List.mem_singleton] at hv; subst hv
            rw [hn_val]; exact H3.2 _ hm_qs
      simp only [bind, Except.bind, extremum_of_isExt hext', pure, Except.pure]

theorem applyFun_ext_single {isMax : Bool} {xs : List Value} {v : Value} (hc : OracleClosed opq)
    (h : applyFun opq (if isMax then "max" else "min") xs = .ok v) (h1 : ∃ a, xs = [a]) :
    ∃ a qs m, xs = [a] ∧ numsOf a = .ok qs ∧ extremum isMax qs = .ok m ∧ v = Value.num m := by
  obtain ⟨a, rfl⟩ := h1
  have hu : applyFun opq (if isMax then "max" else "min") [a] =
      (do let qs ← numsOf a; let m ← extremum isMax qs; pure (Value.num m)) := by cases isMax <;> rfl
  rw [hu] at h
  obtain ⟨qs, hqs, h⟩ := ebind_ok h
  obtain ⟨m, hm, h⟩ := ebind_ok h
  simp only [pure, Except.pure, Except.ok.injEq] at h
  exact ⟨a, qs, m, rfl, hqs, hm, h.symm⟩

/-- operands and the numbers they evaluate to, member for member -/
theorem evalList_asNum_corr {ρ : Env} : ∀ (es : List Expr) (xs : List Value) (qs : List Rat),
    evalList opq ρ (ExprList.ofList es) = .ok xs → xs.mapM asNum = .ok qs →
    (∀ e ∈ es, ∃ q ∈ qs, eval opq ρ e = .ok (Value.num q)) ∧ (∀ q ∈ qs, ∃ e ∈ es, eval opq ρ e = .ok (Value.num q))
  | [], xs, qs, h1, h2 => by
      simp only [ExprList.ofList, evalList, Except.ok.injEq] at h1; subst h1
      simp only [List.mapM_nil, pure, Except.pure, Except.ok.injEq] at h2; subst h2
      exact ⟨fun _ h => (by cases h), fun _ h => (by cases h)⟩
  | e :: es, xs, qs, h1, h2 => by
      simp only [ExprList.ofList, evalList] at h1
      obtain ⟨x, hx, h1⟩ := ebind_ok h1
      obtain ⟨xs', hxs', h1⟩ := ebind_ok h1
      simp only [pure, Except.pure, Except.ok.injEq] at h1; subst h1
      simp only [List.mapM_cons] at h2
      obtain ⟨q, hq, h2⟩ := ebind_ok h2
      obtain ⟨qs', hqs', h2⟩ := ebind_ok h2
      simp only [pure, Except.pure, Except.ok.injEq] at h2; subst h2
      have hxq : x = Value.num q := by
        cases x with
        | prim p => cases p <;> simp only [asNum, Except.ok.injEq] at hq <;> first | (subst hq; rfl) | cases hq
        | _ => simp [asNum] at hq
      subst hxq
      obtain ⟨ih1, ih2⟩ := evalList_asNum_corr es xs' qs' hxs' hqs'
      refine ⟨fun e' he' => ?_, fun q' hq' => ?_⟩
      · rcases List.mem_cons.1 he' with rfl | hm
        · exact ⟨q, List.mem_cons_self .., hx⟩
        · obtain ⟨q'', h1, h2⟩ := ih1 e' hm
          exact ⟨q'', List.mem_cons_of_mem _ h1, h2⟩
      · rcases List.mem_cons.1 hq' with rfl | hm
        · exact ⟨e, List.mem_cons_self .., hx⟩
        · obtain ⟨e'', h1, h2⟩ := ih2 q' hm
          exact ⟨e'', List.mem_cons_of_mem _ h1, h2⟩

/-- `max` / `min` of several arguments -/
theorem fold_ext_multi {isMax : Bool} {ρ : Env} {t : DataType} {args : ExprList} {r : Expr} {v : Value}
    (hc : OracleClosed opq) (hv : eval opq ρ (.call t (if isMax then "max" else "min") args) = .ok v)
    (hargs : ∀ a0, args ≠ .cons a0 .nil)
    (h : foldMinMax (.call t (if isMax then "max" else "min") args) (if isMax then "max" else "min") isMax args.toList = .ok r) :
    eval opq ρ r = .ok v := by
  obtain ⟨xs, hxs, happ⟩ := call_unfold opq hv
  match args, hargs, hxs, h, hv with
  | .nil, _, hxs, _, _ =>
    simp only [evalList, Except.ok.injEq] at hxs; subst hxs
    have : applyFun opq (if isMax then "max" else "min") [] = opq (if isMax then "max" else "min") [] := by cases isMax <;> rfl
    rw [this] at happ
    exact absurd happ (hc _ (by cases isMax <;> decide) _ _)
  | .cons a0 .nil, hargs, _, _, _ => exact absurd rfl (hargs a0)
  | .cons a0 (.cons a1 rest), _, hxs, h, hv =>
    obtain ⟨x0, xs', h0, hxs', rfl⟩ := evalList_cons_inv opq hxs
    obtain ⟨x1, xs'', h1, hxs'', rfl⟩ := evalList_cons_inv opq hxs'
    rw [applyFun_ext_multi] at happ
    obtain ⟨qs, hqs, happ⟩ := ebind_ok happ
    obtain ⟨m, hm, happ⟩ := ebind_ok happ
    simp only [pure, Except.pure, Except.ok.injEq] at happ
    subst happ
    have hxs2 : evalList opq ρ (ExprList.ofList (ExprList.cons a0 (.cons a1 rest)).toList) = .ok (x0 :: x1 :: xs'') := by
      rw [ExprList.ofList_toList]; exact hxs
    obtain ⟨H1, H2⟩ := evalList_asNum_corr opq _ _ _ hxs2 hqs
    exact foldMinMax_sound opq H1 H2 (extremum_spec hm) hv h

/-- `max` / `min` of a set literal -/
theorem fold_ext_set {isMax : Bool} {f : Nat} {ρ : Env} {t ts : DataType} {a0 : Expr} {vs : ExprList} {r : Expr} {v : Value}
    (hc : OracleClosed opq) (ihS : ∀ e r', simp f e = .ok r' → Pres opq r' e)
    (hv : eval opq ρ (.call t (if isMax then "max" else "min") (.cons a0 .nil)) = .ok v)
    (ha : simp f a0 = .ok (.set ts vs))
    (h : foldMinMax (.call t (if isMax then "max" else "min") (.cons a0 .nil)) (if isMax then "max" else "min") isMax vs.toList = .ok r) :
    eval opq ρ r = .ok v := by
  obtain ⟨xs, hxs, happ⟩ := call_unfold opq hv
  obtain ⟨x0, xs', h0, hxs', rfl⟩ := evalList_cons_inv opq hxs
  simp only [evalList, Except.ok.injEq] at hxs'; subst hxs'
  obtain ⟨a, qs, m, hxa, hqs, hm, rfl⟩ := applyFun_ext_single opq hc happ ⟨x0, rfl⟩
  simp only [List.cons.injEq, and_true] at hxa; subst hxa
  have hset := ihS _ _ ha ρ _ h0
  rw [eval_set_eq] at hset
  obtain ⟨ps, hps, hset⟩ := ebind_ok hset
  cases hk : sameKinds ps with
  | false => rw [hk] at hset; cases hset
  | true =>
    rw [hk] at hset
    simp only [if_true, pure, Except.pure, Except.ok.injEq] at hset
    subst hset
    obtain ⟨ys, hys, hps⟩ := ebind_ok hps
    rw [← ExprList.ofList_toList vs] at hys
    obtain ⟨hall, rfl⟩ := evalPrims_inv opq hys hps
    simp only [numsOf, elems, bind, Except.bind, eraseDups_idem] at hqs
    have hdps := mapM_asNum_prims _ _ hqs
    refine foldMinMax_sound opq (fun e he => ?_) (fun q hq => ?_) (extremum_spec hm) hv h
    · have hmem : primOf opq ρ e ∈ (vs.toList.map (primOf opq ρ)).eraseDups := mem_eraseDups_of_mem (List.mem_map.2 ⟨e, he, rfl⟩)
      rw [hdps] at hmem
      obtain ⟨q, hq, hqe⟩ := List.mem_map.1 hmem
      exact ⟨q, hq, by rw [hall e he, ← hqe]; rfl⟩
    · have hmem : Prim.num q ∈ (vs.toList.map (primOf opq ρ)).eraseDups := by rw [hdps]; exact List.mem_map.2 ⟨q, hq, rfl⟩
      obtain ⟨e, he, hqe⟩ := List.mem_map.1 (mem_eraseDups hmem)
      exact ⟨e, he, by rw [hall e he, hqe]; rfl⟩

/-- `max` / `min` of a range literal with literal bounds -/
theorem fold_ext_range {isMax : Bool} {f : Nat} {ρ : Env} {t tr : DataType} {a0 lo hi : Expr} {exLo exHi : Bool} {l hh : LitVal} {li hi' : Int}
    {r : Expr} {v : Value}
    (hc : OracleClosed opq) (ihS : ∀ e r', simp f e = .ok r' → Pres opq r' e)
    (hv : eval opq ρ (.call t (if isMax then "max" else "min") (.cons a0 .nil)) = .ok v)
    (ha : simp f a0 = .ok (.range tr lo hi exLo exHi)) (hl : numLit? lo = some l) (hhi : numLit? hi = some hh)
    (hli : pyInt l = .ok li) (hhi' : pyInt hh = .ok hi')
    (hlt : li + (if exLo then 1 else 0) < hi' - (if exHi then 1 else 0))
    (hr : litNumber (.int (if isMax then hi' - (if exHi then 1 else 0) else li + (if exLo then 1 else 0))) = .ok r) : eval opq ρ r = .ok v := by
  obtain ⟨xs, hxs, happ⟩ := call_unfold opq hv
  obtain ⟨x0, xs', h0, hxs', rfl⟩ := evalList_cons_inv opq hxs
  simp only [evalList, Except.ok.injEq] at hxs'; subst hxs'
  obtain ⟨a, qs, m, hxa, hqs, hm, rfl⟩ := applyFun_ext_single opq hc happ ⟨x0, rfl⟩
  simp only [List.cons.injEq, and_true] at hxa; subst hxa
  have hrange := ihS _ _ ha ρ _ h0
  obtain ⟨tl, kl, rfl⟩ := numLit_some hl
  obtain ⟨th, kh, rfl⟩ := numLit_some hhi
  simp only [eval] at hrange
  obtain ⟨x1, h1, hrange⟩ := ebind_ok hrange
  obtain ⟨x2, h2, hrange⟩ := ebind_ok hrange
  obtain ⟨p1, hp1, hrange⟩ := ebind_ok hrange
  obtain ⟨p2, hp2, hrange⟩ := ebind_ok hrange
  split at hrange
  · simp only [pure, Except.pure, Except.ok.injEq] at hrange
    subst hrange
    simp only [numsOf, elems] at hqs
    obtain ⟨es, hes, hqs⟩ := ebind_ok hqs
    obtain ⟨is, his, hes⟩ := ebind_ok hes
    simp only [pure, Except.pure, Except.ok.injEq] at hes
    subst hes
    rw [mapM_asNum_ints] at hqs
    simp only [Except.ok.injEq] at hqs
    subst hqs
    have hx1 := (asPrim_ok).1 hp1
    have hx2 := (asPrim_ok).1 hp2
    subst hx1; subst hx2
    have key : ∀ (qa qb : Rat), p1 = .num qa → p2 = .num qb → isInt qa = true → isInt qb = true →
        is = (List.range ((qb.num - (if exHi then 1 else 0)) - (qa.num + (if exLo then 1 else 0)) + 1).toNat).map
          (fun (n : Nat) => (qa.num + (if exLo then 1 else 0)) + Int.ofNat n) →
        eval opq ρ r = .ok (Value.num m) := by
      intro qa qb hpa hpb hia hib hise
      subst hpa; subst hpb; subst hise
      have e1 := pyInt_of_value (l := l) h1 hia
      have e2 := pyInt_of_value (l := hh) h2 hib
      rw [e1] at hli; rw [e2] at hhi'
      simp only [Except.ok.injEq] at hli hhi'
      subst hli; subst hhi'
      rw [litNumber_eval opq hr ρ]
      generalize qa.num + (if exLo then 1 else 0) = lb at hlt hm ⊢
      generalize qb.num - (if exHi then 1 else 0) = ub at hlt hm ⊢
      have hmem : ∀ (i : Int), (i : Rat) ∈ ((List.range (ub - lb + 1).toNat).map (fun (n : Nat) => lb + Int.ofNat n)).map (fun (i : Int) => (i : Rat)) ↔
          lb ≤ i ∧ i ≤ ub := by
        intro i
        simp only [List.mem_map, List.mem_range]
        constructor
        · rintro ⟨j, ⟨n, hn, rfl⟩, hj⟩
          have : lb + Int.ofNat n = i := Rat.intCast_inj.1 hj
          subst this
          simp only [Int.ofNat_eq_natCast]
          constructor <;> omega
        · rintro ⟨h1, h2⟩
          exact ⟨i, ⟨(i - lb).toNat, by omega, by simp only [Int.ofNat_eq_natCast]; omega⟩, rfl⟩
      have hext : IsExt isMax ((if isMax then ub else lb : Int) : Rat)
          (((List.range (ub - lb + 1).toNat).map (fun (n : Nat) => lb + Int.ofNat n)).map (fun (i : Int) => (i : Rat))) := by
        refine ⟨?_, fun y hy => ?_⟩
        · cases isMax
          · simp only [Bool.false_eq_true, if_false]; exact (hmem lb).2 ⟨by omega, by omega⟩
          · simp only [if_true]; exact (hmem ub).2 ⟨by omega, by omega⟩
        · obtain ⟨i, hi, rfl⟩ := List.mem_map.1 hy
          have := (hmem i).1 (List.mem_map.2 ⟨i, hi, rfl⟩)
          cases isMax
          · simp only [Bool.false_eq_true, if_false]; exact Rat.intCast_le_intCast.mpr this.1
          · simp only [if_true]; exact Rat.intCast_le_intCast.mpr this.2
      have := isExt_unique (extremum_spec hm) hext
      rw [this]
      cases isMax <;> rfl
    unfold rangeInts at his
    split at his
    · rename_i qa qb
      split at his
      · rename_i hint
        simp only [Bool.and_eq_true] at hint
        simp only [Except.ok.injEq] at his
        exact key _ _ rfl rfl hint.1 hint.2 his.symm
      · cases his
    · split at his <;> cases his
  · cases hrange

/-- **the folding of `max` / `min` is sound** -/
theorem ext_fold_sound (hc : OracleClosed opq) (isMax : Bool) (f : Nat) (t : DataType) (args : ExprList) (r : Expr)
    (ihS : ∀ e r', simp f e = .ok r' → Pres opq r' e)
    (h : simpCall (f + 1) (.call t (if isMax then "max" else "min") args) (if isMax then "max" else "min") args = .ok r) :
    Pres opq r (.call t (if isMax then "max" else "min") args) := by
  intro ρ v hv
  unfold simpCall at h
  extract_lets arg0 isMax' fold at h
  have hfn : ∀ s : String, s ∈ ["abs", "bool", "int", "float", "str", "len", "sum", "prod"] →
      ((if isMax then "max" else "min") == s) = false := by
    intro s hs
    simp only [List.mem_cons, List.not_mem_nil, or_false] at hs
    rcases hs with rfl | rfl | rfl | rfl | rfl | rfl | rfl | rfl <;> cases isMax <;> decide
  have hmm : ((if isMax then "max" else "min") == "max" || (if isMax then "max" else "min") == "min") = true := by
    cases isMax <;> decide
  have hisMax : isMax' = isMax := by
    show ((if isMax then "max" else "min") == "max") = isMax
    cases isMax <;> decide
  simp only [hfn "abs" (by decide), hfn "bool" (by decide), hfn "int" (by decide), hfn "float" (by decide), hfn "str" (by decide),
    hfn "len" (by decide), hfn "sum" (by decide), hfn "prod" (by decide), hmm, Bool.false_eq_true, ↓reduceIte] at h
  split at h
  · rename_i a0
    obtain ⟨a, ha, h⟩ := bind_ok h
    split at h
    · rename_i tr lo hi exLo exHi
      split at h
      · rename_i l hh hl hhh
        obtain ⟨li, hli, h⟩ := bind_ok h
        obtain ⟨hi', hhi', h⟩ := bind_ok h
        by_cases hlt : (li + if exLo = true then 1 else 0) < hi' - if exHi = true then 1 else 0
        · rw [if_pos hlt, hisMax] at h
          exact fold_ext_range opq hc ihS hv ha hl hhh hli hhi' hlt h
        · rw [if_neg hlt] at h
          cases h; exact hv
      · cases h; exact hv
    · rename_i ts vs
      simp only [fold, hisMax] at h
      exact fold_ext_set opq hc ihS hv ha h
    · cases h; exact hv
  · rename_i hne
    simp only [fold, hisMax] at h
    exact fold_ext_multi opq hc hv (fun a0 he => hne a0 he) h

theorem max_fold_sound (hc : OracleClosed opq) (f : Nat) (t : DataType) (args : ExprList) (r : Expr)
    (ihS : ∀ e r', simp f e = .ok r' → Pres opq r' e)
    (h : simpCall (f + 1) (.call t "max" args) "max" args = .ok r) : Pres opq r (.call t "max" args) :=
  ext_fold_sound opq hc true f t args r ihS h

theorem min_fold_sound (hc : OracleClosed opq) (f : Nat) (t : DataType) (args : ExprList) (r : Expr)
    (ihS : ∀ e r', simp f e = .ok r' → Pres opq r' e)
    (h : simpCall (f + 1) (.call t "min" args) "min" args = .ok r) : Pres opq r (.call t "min" args) :=
  ext_fold_sound opq hc false f t args r ihS h

/-! ## what is left of the assumption: `str` and `gcd`, which the reference semantics does not interpret -/

/-- what is still assumed of the folding of aggregates: only `str` and `gcd`, two functions the reference semantics leaves to the
    oracle — a statement about the oracle, not about the rewriter -/
def AggFoldSoundOracle : Prop := ∀ (f : Nat) (t : DataType) (fn : String) (args : ExprList) (r : Expr),
  fn ∈ ["str", "gcd"] →
  (∀ e r', simp f e = .ok r' → Pres opq r' e) →
  simpCall (f + 1) (.call t fn args) fn args = .ok r → Pres opq r (.call t fn args)

theorem aggFold_of_oracle (hc : OracleClosed opq) (hrest : AggFoldSoundOracle opq) : AggFoldSound opq := by
  intro f t fn args r hm ihS h
  simp only [aggregateFuns, List.mem_cons, List.not_mem_nil, or_false] at hm
  rcases hm with rfl | rfl | rfl | rfl | rfl | rfl | rfl
  · exact hrest f t _ args r (by decide) ihS h
  · exact len_fold_sound opq hc f t args r ihS h
  · exact sum_fold_sound opq hc f t args r ihS h
  · exact prod_fold_sound opq hc f t args r ihS h
  · exact max_fold_sound opq hc f t args r ihS h
  · exact min_fold_sound opq hc f t args r ihS h
  · exact hrest f t _ args r (by decide) ihS h

/-- **`simplify` preserves meaning**, the folding of every aggregate the reference semantics interprets (`len`, `sum`, `prod`, `max`,
    `min`) proved; what is assumed concerns the oracle's `str` and `gcd` only -/
theorem simplify_sound_oracle (hc : OracleClosed opq) (hrest : AggFoldSoundOracle opq) : SimplifySound opq :=
  simplify_sound opq hc (aggFold_of_oracle opq hc hrest)

/-! ### `gcd`: what the oracle has to satisfy, and nothing about the rewriter left -/

/-- the oracle's `gcd` of two integers, where it has a value, is the greatest common divisor -/
def GcdOracleOk : Prop := ∀ (m n : Int) (w : Value), opq "gcd" [Value.num (m : Rat), Value.num (n : Rat)] = .ok w → w = Value.num ((Int.gcd m n : Nat) : Int)

/-- **the folding of `gcd` is sound** for every oracle whose `gcd` is the greatest common divisor -/
theorem gcd_fold_sound (hg : GcdOracleOk opq) (f : Nat) (t : DataType) (args : ExprList) (r : Expr)
    (ihS : ∀ e r', simp f e = .ok r' → Pres opq r' e)
    (h : simpCall (f + 1) (.call t "gcd" args) "gcd" args = .ok r) : Pres opq r (.call t "gcd" args) := by
  intro ρ v hv
  unfold simpCall at h
  extract_lets arg0 at h
  simp only [show ("gcd" == "abs") = false by decide, show ("gcd" == "bool") = false by decide, show ("gcd" == "int") = false by decide,
    show ("gcd" == "float") = false by decide, show ("gcd" == "str") = false by decide, show ("gcd" == "len") = false by decide,
    show ("gcd" == "sum") = false by decide, show ("gcd" == "prod") = false by decide, show ("gcd" == "max") = false by decide,
    show ("gcd" == "min") = false by decide, show ("gcd" == "gcd") = true by decide, Bool.or_self, Bool.false_eq_true, ↓reduceIte] at h
  have hap : ∀ xs, applyFun opq "gcd" xs = opq "gcd" xs := by
    intro xs
    unfold applyFun
    split <;> first | rfl | (rename_i heq; exact absurd heq (by decide))
  cases args with
  | nil => simp only at h; cases h; exact hv
  | cons a0 rest =>
    cases rest with
    | nil => simp only at h; cases h; exact hv
    | cons a1 rest2 =>
      cases rest2 with
      | cons a2 rest3 => simp only at h; cases h; exact hv
      | nil =>
        simp only at h
        obtain ⟨x, hx, h⟩ := bind_ok h
        obtain ⟨y, hy, h⟩ := bind_ok h
        cases hmx : numLit? x with
        | none => rw [hmx] at h; simp only at h; cases h; exact hv
        | some lx =>
          cases hny : numLit? y with
          | none => rw [hmx, hny] at h; simp only at h; cases h; exact hv
          | some ly =>
            rw [hmx, hny] at h
            obtain ⟨xs, hxs, happ⟩ := call_unfold opq hv
            obtain ⟨v0, xs', h0, hxs', rfl⟩ := evalList_cons_inv opq hxs
            obtain ⟨v1, xs'', h1, hxs'', rfl⟩ := evalList_cons_inv opq hxs'
            simp only [evalList, Except.ok.injEq] at hxs''; subst hxs''
            obtain ⟨tx, kx, rfl⟩ := numLit_some hmx
            obtain ⟨ty, ky, rfl⟩ := numLit_some hny
            have e0 := ihS _ _ hx ρ _ h0
            have e1 := ihS _ _ hy ρ _ h1
            rw [eval_lit] at e0 e1
            rw [hap] at happ
            cases lx with
            | int m =>
              cases ly with
              | int n =>
                simp only at h
                simp only [litValue, Except.ok.injEq] at e0 e1
                subst e0; subst e1
                have := hg m n v happ
                subst this
                rw [litNumber_eval opq h ρ]
                rfl
              | _ => simp [unmodelled] at h
            | _ => cases ly <;> simp [unmodelled] at h

/-- the one statement about the rewriter that stays assumed: the folding of `str` over a literal (Python's `str` tells `2` from `2.0`,
    which the value domain of the reference semantics does not) -/
def StrFoldSound : Prop := ∀ (f : Nat) (t : DataType) (args : ExprList) (r : Expr),
  (∀ e r', simp f e = .ok r' → Pres opq r' e) →
  simpCall (f + 1) (.call t "str" args) "str" args = .ok r → Pres opq r (.call t "str" args)

theorem aggFoldOracle_of_gcd (hg : GcdOracleOk opq) (hs : StrFoldSound opq) : AggFoldSoundOracle opq := by
  intro f t fn args r hm ihS h
  simp only [List.mem_cons, List.not_mem_nil, or_false] at hm
  rcases hm with rfl | rfl
  · exact hs f t args r ihS h
  · exact gcd_fold_sound opq hg f t args r ihS h

/-- **`simplify` preserves meaning** for every oracle that does not extend the interpreted functions and whose `gcd` is the greatest
    common divisor, assuming only the folding of `str` -/
theorem simplify_sound_gcd (hc : OracleClosed opq) (hg : GcdOracleOk opq) (hs : StrFoldSound opq) : SimplifySound opq :=
  simplify_sound_oracle opq hc (aggFoldOracle_of_gcd opq hg hs)

/-- the oracle's `str`, where it has a value on the value of a literal, is the text Python's `str` gives for that literal -/
def StrOracleOk : Prop := ∀ (lv : LitVal) (x : Value) (rest : List Value) (s : String) (w : Value),
  litValue lv = .ok x → pyStr lv = .ok s → opq "str" (x :: rest) = .ok w → w = .prim (.str s)

/-- **the folding of `str` is sound** for every oracle whose `str` agrees with Python's on literals -/
theorem str_fold_sound (hs : StrOracleOk opq) : StrFoldSound opq := by
  intro f t args r ihS h ρ v hv
  unfold simpCall at h
  extract_lets arg0 at h
  simp only [show ("str" == "abs") = false by decide, show ("str" == "bool") = false by decide, show ("str" == "int") = false by decide,
    show ("str" == "float") = false by decide, show ("str" == "str") = true by decide, Bool.false_eq_true, ↓reduceIte] at h
  obtain ⟨a, ha, h⟩ := bind_ok h
  have hap : ∀ xs, applyFun opq "str" xs = opq "str" xs := by
    intro xs
    unfold applyFun
    split <;> first | rfl | (rename_i heq; exact absurd heq (by decide))
  cases hl : litVal? a with
  | none => rw [hl] at h; simp only at h; cases h; exact hv
  | some lv =>
    rw [hl] at h
    simp only at h
    obtain ⟨s, hps, h⟩ := bind_ok h
    split at h
    · simp [unmodelled] at h
    · cases h
      obtain ⟨xs, hxs, happ⟩ := call_unfold opq hv
      rw [hap] at happ
      cases args with
      | nil => simp only [arg0] at ha; cases ha
      | cons a0 rest =>
        simp only [arg0] at ha
        obtain ⟨v0, xs', h0, _, rfl⟩ := evalList_cons_inv opq hxs
        have e0 := ihS _ _ ha ρ _ h0
        obtain ⟨ta, ka, rfl⟩ := litVal_some hl
        rw [eval_lit] at e0
        have := hs lv v0 xs' s v e0 hps happ
        subst this
        rfl

/-- **`simplify` preserves meaning — nothing assumed about the rewriter**: for every oracle that does not extend the interpreted
    functions and whose `gcd` and `str`, where they have a value, are Python's -/
theorem simplify_sound_of_oracle (hc : OracleClosed opq) (hg : GcdOracleOk opq) (hs : StrOracleOk opq) : SimplifySound opq :=
  simplify_sound_gcd opq hc hg (str_fold_sound opq hs)

/-- an oracle that gives `str` and `gcd` no value meets the assumption -/
theorem aggFoldOracle_of_silent (hs : ∀ xs v, opq "str" xs ≠ .ok v) (hg : ∀ xs v, opq "gcd" xs ≠ .ok v) : AggFoldSoundOracle opq := by
  intro f t fn args r hm _ _ ρ v hv
  simp only [List.mem_cons, List.not_mem_nil, or_false] at hm
  obtain ⟨xs, hxs, happ⟩ := call_unfold opq hv
  clear hxs hv
  rcases hm with rfl | rfl
  · have : applyFun opq "str" xs = opq "str" xs := by
      unfold applyFun
      split <;> first | rfl | (rename_i heq; exact absurd heq (by decide))
    rw [this] at happ
    exact absurd happ (hs _ _)
  · have : applyFun opq "gcd" xs = opq "gcd" xs := by
      unfold applyFun
      split <;> first | rfl | (rename_i heq; exact absurd heq (by decide))
    rw [this] at happ
    exact absurd happ (hg _ _)

/-- the oracle that interprets nothing -/
def silentOracle : Opaque := fun _ _ => .error .type

/-- **unconditionally**: with the uninterpreted functions left without a value, `simplify` preserves the meaning of every expression
    it accepts (no hypothesis left: the premises of `simplify_sound_oracle` are satisfiable) -/
theorem simplify_sound_silent : SimplifySound silentOracle :=
  simplify_sound_oracle silentOracle (fun _ _ _ _ h => by cases h)
    (aggFoldOracle_of_silent silentOracle (fun _ _ h => by cases h) (fun _ _ h => by cases h))

/-- an oracle that is not silent: `str` of a boolean or of a string -/
def sampleOracle : Opaque := fun fn xs =>
  match fn, xs with
  | "str", [.prim (.bool b)] => .ok (.prim (.str (if b then "True" else "False")))
  | "str", [.prim (.str s)] => .ok (.prim (.str s))
  | _, _ => .error .opaque

/-- the premises of `simplify_sound_of_oracle` are met by an oracle that does give `str` values -/
theorem sampleOracle_ok : OracleClosed sampleOracle ∧ GcdOracleOk sampleOracle ∧ StrOracleOk sampleOracle ∧
    sampleOracle "str" [.prim (.bool true)] = .ok (.prim (.str "True")) := by
  refine ⟨?_, ?_, ?_, rfl⟩
  · intro fn hfn xs v
    simp only [interpretedFuns, List.mem_cons, List.not_mem_nil, or_false] at hfn
    unfold sampleOracle
    rcases hfn with rfl | rfl | rfl | rfl | rfl | rfl | rfl | rfl | rfl | rfl | rfl <;>
      (split <;> first | (rename_i heq; exact absurd heq (by decide)) | (intro hh; cases hh))
  · intro m n w h
    unfold sampleOracle at h
    split at h
    · rename_i hfn _; exact absurd hfn (by decide)
    · rename_i hfn _; exact absurd hfn (by decide)
    · cases h
  · intro lv x rest s w hx hp h
    unfold sampleOracle at h
    split at h
    · rename_i b _ heq
      simp only [List.cons.injEq] at heq
      obtain ⟨rfl, rfl⟩ := heq
      cases lv <;> simp only [litValue, Value.bool, Value.num, Except.ok.injEq, Value.prim.injEq] at hx <;> try (cases hx)
      simp only [pyStr, Except.ok.injEq] at hp
      cases h; rw [← hp]
    · rename_i s' _ heq
      simp only [List.cons.injEq] at heq
      obtain ⟨rfl, rfl⟩ := heq
      cases lv <;> simp only [litValue, Value.bool, Value.num, Except.ok.injEq, Value.prim.injEq] at hx <;> try (cases hx)
      simp only [pyStr, Except.ok.injEq] at hp
      cases h; rw [← hp]
    · cases h

/-- hence, for that oracle, with no hypothesis -/
theorem simplify_sound_sample : SimplifySound sampleOracle :=
  simplify_sound_of_oracle sampleOracle sampleOracle_ok.1 sampleOracle_ok.2.1 sampleOracle_ok.2.2.1

end Hpl
