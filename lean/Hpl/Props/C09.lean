import Hpl.Model.Rewrite.Split
import Hpl.Spec.Eval
import Hpl.Spec.Shapes
/-! # C09 — `split_and` returns an equivalent list of indivisible conjuncts (theorems: see below; in progress) -/
namespace Hpl

theorem indivisible_not_conj (e : Expr) (h : indivisible e = true) : e.isConj = false := by
  cases e <;> simp_all [indivisible, Expr.isConj]

end Hpl
