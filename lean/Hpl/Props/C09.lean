import Hpl.Lemmas.Eval
import Hpl.Lemmas.OptList
import Hpl.Spec.Shapes
/-!
# C09 — `split_and` returns an equivalent list of indivisible conjuncts

Model: `Hpl/Model/Rewrite/Split.lean`. Spec: `truth` (the boolean value of `Hpl.Spec.Eval.eval`, errors collapsed) and
`indivisible` (`Hpl/Spec/Shapes.lean`).

Equivalence is stated as *refinement*: wherever every returned conjunct is defined, the input is defined and has the
value of their conjunction (`splitAnd_equiv`). The property speaks of truth values on valuations and says nothing about
evaluation errors; refinement is used because it is transitive and so composes through the pre-split transformations
and the work list. Every step is exact (`truth` equal, undefinedness included) except the one the code's own guard
creates: a conjunct hoisted out of a universal quantifier as `len(d) = 0 or p` is evaluated even when `d` is empty.
-/
namespace Hpl
section
variable (opq : Opaque)

/-! ## vocabulary -/
/-- `e` evaluates like `e'` under every valuation (stored types are irrelevant to evaluation) -/
def EvalLike (e e' : Expr) : Prop := ∀ ρ, eval opq ρ e = eval opq ρ e'

theorem truth_of_like {e e' : Expr} (h : EvalLike opq e e') (ρ : Env) : truth opq ρ e = truth opq ρ e' := by
  unfold truth; rw [h ρ]

/-- `e'` refines `e`: wherever the rewritten form has a truth value, the original has the same one -/
def Refines (e' e : Expr) : Prop := ∀ ρ v, truth opq ρ e' = some v → truth opq ρ e = some v

theorem Refines.refl (e : Expr) : Refines opq e e := fun _ _ h => h
theorem Refines.trans {a b c : Expr} (h1 : Refines opq a b) (h2 : Refines opq b c) : Refines opq a c :=
  fun ρ v h => h2 ρ v (h1 ρ v h)
theorem Refines.of_eq {a b : Expr} (h : ∀ ρ, truth opq ρ a = truth opq ρ b) : Refines opq a b :=
  fun ρ v hv => by rw [← h ρ]; exact hv

theorem mkNot_like {a e : Expr} (h : mkNot a = .ok e) : EvalLike opq e (.un T.BOOL Gen.NOT_OPERATOR a) :=
  fun ρ => by rw [mkUn_eval opq h]; simp only [eval]
theorem mkAnd_like {a b e : Expr} (h : mkAnd a b = .ok e) : EvalLike opq e (.bin T.BOOL Gen.AND_OPERATOR a b) :=
  fun ρ => by rw [mkBin_eval opq h]; simp only [eval]
theorem mkOr_like {a b e : Expr} (h : mkOr a b = .ok e) : EvalLike opq e (.bin T.BOOL Gen.OR_OPERATOR a b) :=
  fun ρ => by rw [mkBin_eval opq h]; simp only [eval]
theorem mkForall_like {x : String} {d p e : Expr} (h : mkForall x d p = .ok e) : EvalLike opq e (.quant T.BOOL .all x d p) :=
  fun ρ => mkQuant_eval opq h ρ

/-! ## quantifiers through `allO` / `anyO` -/
theorem truth_forall (ρ : Env) (t : DataType) (x : String) (d b : Expr) :
    truth opq ρ (.quant t .all x d b) = (domElems opq ρ d).bind (fun es => allO es (fun v => truth opq (ρ.bind x v) b)) := by
  rw [truth_quant]
  cases domElems opq ρ d with
  | none => rfl
  | some es =>
    simp only [bind, Option.bind, allO, quantResult]
    cases es.mapM (fun v => truth opq (ρ.bind x v) b) <;> rfl

theorem truth_exists (ρ : Env) (t : DataType) (x : String) (d b : Expr) :
    truth opq ρ (.quant t .some x d b) = (domElems opq ρ d).bind (fun es => anyO es (fun v => truth opq (ρ.bind x v) b)) := by
  rw [truth_quant]
  cases domElems opq ρ d with
  | none => rfl
  | some es =>
    simp only [bind, Option.bind, anyO, quantResult]
    cases es.mapM (fun v => truth opq (ρ.bind x v) b) <;> rfl

/-! ## exact rewrites -/
theorem truth_notNot (ρ : Env) (t1 t2 : DataType) (p : Expr) :
    truth opq ρ (.un t1 Gen.NOT_OPERATOR (.un t2 Gen.NOT_OPERATOR p)) = truth opq ρ p := by
  rw [truth_not, truth_not]
  cases truth opq ρ p <;> simp

theorem truth_deMorgan (ρ : Env) (t1 t2 t3 t4 t5 : DataType) (a b : Expr) :
    truth opq ρ (.bin t1 Gen.AND_OPERATOR (.un t2 Gen.NOT_OPERATOR a) (.un t3 Gen.NOT_OPERATOR b)) =
    truth opq ρ (.un t4 Gen.NOT_OPERATOR (.bin t5 Gen.OR_OPERATOR a b)) := by
  rw [truth_and, truth_not, truth_not, truth_not, truth_or]
  cases truth opq ρ a <;> cases truth opq ρ b <;> simp [bind, Option.bind, pure]

theorem truth_notImp (ρ : Env) (t1 t2 t3 t4 : DataType) (a b : Expr) :
    truth opq ρ (.bin t1 Gen.AND_OPERATOR a (.un t2 Gen.NOT_OPERATOR b)) =
    truth opq ρ (.un t3 Gen.NOT_OPERATOR (.bin t4 Gen.IMPLIES_OPERATOR a b)) := by
  rw [truth_and, truth_not, truth_not, truth_implies]
  cases truth opq ρ a <;> cases truth opq ρ b <;> simp [bind, Option.bind, pure]

theorem truth_notExists (ρ : Env) (t1 t2 t3 t4 : DataType) (x : String) (d p : Expr) :
    truth opq ρ (.quant t1 .all x d (.un t2 Gen.NOT_OPERATOR p)) =
    truth opq ρ (.un t3 Gen.NOT_OPERATOR (.quant t4 .some x d p)) := by
  rw [truth_forall, truth_not, truth_exists]
  cases domElems opq ρ d with
  | none => rfl
  | some es =>
    simp only [Option.bind]
    rw [anyO_not]
    apply allO_congr
    intro v; rw [truth_not]

/-- congruence: refining the body refines the universal quantifier -/
theorem refines_forall (t1 t2 : DataType) (x : String) (d p' p : Expr) (h : Refines opq p' p) :
    Refines opq (.quant t1 .all x d p') (.quant t2 .all x d p) := by
  intro ρ v hv
  rw [truth_forall] at hv ⊢
  cases hd : domElems opq ρ d with
  | none => simp [hd, Option.bind] at hv
  | some es =>
    simp only [hd, Option.bind] at hv ⊢
    exact allO_mono es _ _ (fun w r hr => h _ r hr) v hv

/-! ## the quantifier split -/
/-- what either form of a split half says: the universal statement over the domain -/
theorem splitHalf_spec {x : String} {d a h : Expr} (hh : splitHalf x d a = .ok h) (ρ : Env) (v : Bool)
    (hv : truth opq ρ h = some v) :
    ∃ es, domElems opq ρ d = some es ∧ allO es (fun w => truth opq (ρ.bind x w) a) = some v := by
  unfold splitHalf at hh
  split at hh
  · -- still quantified
    rw [truth_of_like opq (mkForall_like opq hh), truth_forall] at hv
    cases hd : domElems opq ρ d with
    | none => simp [hd, Option.bind] at hv
    | some es => exact ⟨es, rfl, by simpa [hd, Option.bind] using hv⟩
  · -- hoisted behind the empty-domain guard
    rename_i hx
    obtain ⟨te, hte, hh⟩ := bind_ok hh
    rw [truth_of_like opq (mkOr_like opq hh), truth_or, truth_emptyTest opq hte] at hv
    cases hd : domElems opq ρ d with
    | none => simp [hd, bind, Option.bind] at hv
    | some es =>
      cases ha : truth opq ρ a with
      | none => simp [hd, ha, bind, Option.bind] at hv
      | some b =>
        simp [hd, ha, bind, Option.bind, pure] at hv
        refine ⟨es, rfl, ?_⟩
        have hconst : ∀ w, truth opq (ρ.bind x w) a = some b := by
          intro w
          rw [truth_bind_unused opq ρ x w a (by simpa using hx), ha]
        rw [allO_congr es _ (fun _ => some b) hconst, allO_const, hv]

/-- `(A x: a and b)` is refined by `half a and half b` -/
theorem refines_forallAnd {x : String} {d a b qa qb c : Expr} (t1 t2 : DataType)
    (ha : splitHalf x d a = .ok qa) (hb : splitHalf x d b = .ok qb) (hc : mkAnd qa qb = .ok c) :
    Refines opq c (.quant t1 .all x d (.bin t2 Gen.AND_OPERATOR a b)) := by
  intro ρ v hv
  rw [truth_of_like opq (mkAnd_like opq hc), truth_and] at hv
  cases hqa : truth opq ρ qa with
  | none => simp [hqa, bind, Option.bind] at hv
  | some va =>
    cases hqb : truth opq ρ qb with
    | none => simp [hqa, hqb, bind, Option.bind] at hv
    | some vb =>
      simp [hqa, hqb, bind, Option.bind, pure] at hv
      obtain ⟨es, hd, hxa⟩ := splitHalf_spec opq ha ρ va hqa
      obtain ⟨es', hd', hxb⟩ := splitHalf_spec opq hb ρ vb hqb
      rw [hd] at hd'; cases hd'
      rw [truth_forall, hd]
      simp only [Option.bind]
      have := allO_and es (fun w => truth opq (ρ.bind x w) a) (fun w => truth opq (ρ.bind x w) b)
      rw [allO_congr es _ _ (fun w => truth_and opq (ρ.bind x w) t2 a b), this, hxa, hxb]
      simp [bind, Option.bind, pure, hv]

/-! ## the pre-split transformations refine their input, and return a conjunction or something indivisible -/
theorem beq_eq {a b : String} (h : (a == b) = true) : a = b := by simpa using h

theorem presplit_refines : ∀ f,
    (∀ e e', presplit f e = .ok e' → Refines opq e' e) ∧
    (∀ t phi e', splitNot f (.un t Gen.NOT_OPERATOR phi) phi = .ok e' → Refines opq e' (.un t Gen.NOT_OPERATOR phi)) ∧
    (∀ t q x d phi e', splitQuant f (.quant t q x d phi) q x d phi = .ok e' → Refines opq e' (.quant t q x d phi)) := by
  intro f
  induction f with
  | zero =>
    refine ⟨?_, ?_, ?_⟩
    · intro e e' h; simp [presplit] at h
    · intro t phi e' h; simp [splitNot] at h
    · intro t q x d phi e' h; simp [splitQuant] at h
  | succ f ih =>
    obtain ⟨ih1, ih2, ih3⟩ := ih
    refine ⟨?_, ?_, ?_⟩
    · -- presplit
      intro e e' h
      cases e with
      | un t op phi =>
        simp only [presplit] at h
        split at h
        · rename_i hop
          have := beq_eq hop; subst this
          exact ih2 t phi e' h
        · cases h; exact Refines.refl opq _
      | quant t q x d phi =>
        simp only [presplit] at h
        exact ih3 t q x d phi e' h
      | _ => simp only [presplit] at h; cases h; exact Refines.refl opq _
    · -- splitNot
      intro t phi e' h
      cases phi with
      | un t2 op p =>
        simp only [splitNot] at h
        split at h
        · rename_i hop
          have := beq_eq hop; subst this
          exact Refines.trans opq (ih1 p e' h) (Refines.of_eq opq (fun ρ => (truth_notNot opq ρ t t2 p).symm))
        · cases h; exact Refines.refl opq _
      | bin t2 op a b =>
        simp only [splitNot] at h
        split at h
        · rename_i hop
          have := beq_eq hop; subst this
          obtain ⟨na, hna, h⟩ := bind_ok h
          obtain ⟨nb, hnb, h⟩ := bind_ok h
          apply Refines.of_eq
          intro ρ
          rw [truth_of_like opq (mkAnd_like opq h), truth_and, truth_of_like opq (mkNot_like opq hna),
            truth_of_like opq (mkNot_like opq hnb), ← truth_and opq ρ T.BOOL]
          exact truth_deMorgan opq ρ _ _ _ _ _ a b
        · split at h
          · rename_i hop
            have := beq_eq hop; subst this
            obtain ⟨nb, hnb, h⟩ := bind_ok h
            apply Refines.of_eq
            intro ρ
            rw [truth_of_like opq (mkAnd_like opq h), truth_and, truth_of_like opq (mkNot_like opq hnb), ← truth_and opq ρ T.BOOL]
            exact truth_notImp opq ρ _ _ _ _ a b
          · cases h; exact Refines.refl opq _
      | quant t2 q x d p =>
        cases q with
        | all => simp only [splitNot] at h; cases h; exact Refines.refl opq _
        | some =>
          simp only [splitNot] at h
          obtain ⟨np, hnp, h⟩ := bind_ok h
          split at h
          · obtain ⟨qq, hqq, h⟩ := bind_ok h
            split at h
            · rename_i t3 q' x' d' phi'
              have hr := ih3 t3 q' x' d' phi' e' h
              refine Refines.trans opq hr (Refines.of_eq opq (fun ρ => ?_))
              rw [truth_of_like opq (mkForall_like opq hqq), truth_forall, ← truth_forall opq ρ T.BOOL,
                ← truth_notExists opq ρ T.BOOL T.BOOL t t2, truth_forall, truth_forall]
              cases domElems opq ρ d with
              | none => rfl
              | some es =>
                simp only [Option.bind]
                apply allO_congr
                intro v
                exact truth_of_like opq (mkNot_like opq hnp) _
            · cases h
          · cases h
      | _ => simp only [splitNot] at h; cases h; exact Refines.refl opq _
    · -- splitQuant
      intro t q x d phi e' h
      cases q with
      | some => simp only [splitQuant] at h; cases h; exact Refines.refl opq _
      | all =>
        simp only [splitQuant] at h
        obtain ⟨phi', hphi', h⟩ := bind_ok h
        have hr := ih1 phi phi' hphi'
        split at h
        · rename_i t2 op a b
          split at h
          · rename_i hop
            have := beq_eq hop; subst this
            obtain ⟨qa, hqa, h⟩ := bind_ok h
            obtain ⟨qb, hqb, h⟩ := bind_ok h
            exact Refines.trans opq (refines_forallAnd opq t t2 hqa hqb h) (refines_forall opq t t x d _ phi hr)
          · cases h; exact Refines.refl opq _
        · cases h; exact Refines.refl opq _

/-! ## the work list -/
/-- strict conjunction of a list of formulas -/
def truthAll (ρ : Env) (ps : List Expr) : Option Bool := allO ps (truth opq ρ)

theorem truthAll_cons (ρ : Env) (p : Expr) (ps : List Expr) :
    truthAll opq ρ (p :: ps) = (do let a ← truth opq ρ p; let b ← truthAll opq ρ ps; pure (a && b)) := allO_cons p ps _

theorem splitLoop_refines : ∀ (f : Nat) (stack acc ps : List Expr), splitLoop f stack acc = .ok ps →
    ∀ ρ v, truthAll opq ρ ps = some v → truthAll opq ρ (stack ++ acc) = some v := by
  intro f
  induction f with
  | zero => intro stack acc ps h; simp [splitLoop] at h
  | succ f ih =>
    intro stack acc ps h ρ v hv
    cases stack with
    | nil => simp only [splitLoop] at h; cases h; simpa using hv
    | cons e stack =>
      simp only [splitLoop] at h
      split at h
      · -- literal True: skipped
        rename_i ht
        have := ih stack acc ps h ρ v hv
        rw [List.cons_append, truthAll_cons]
        have hte : truth opq ρ e = some true := by
          cases e with
          | lit t k lv => cases lv with
            | bool b => cases b <;> simp_all [isTrueLit, truth_lit_bool]
            | _ => simp [isTrueLit] at ht
          | _ => simp [isTrueLit] at ht
        simp [hte, this, bind, Option.bind, pure]
      · split at h
        · cases h
        · obtain ⟨e', he', h⟩ := bind_ok h
          have hr := (presplit_refines opq _).1 e e' he'
          -- in every branch the new work list is a permutation of (e' :: stack) ++ acc, up to splitting a conjunction
          have key : truthAll opq ρ ((e' :: stack) ++ acc) = some v → truthAll opq ρ ((e :: stack) ++ acc) = some v := by
            intro h'
            rw [List.cons_append, truthAll_cons] at h' ⊢
            cases he : truth opq ρ e' with
            | none => simp [he, bind, Option.bind] at h'
            | some a => rw [hr ρ a he]; rw [he] at h'; exact h'
          apply key
          have appendCase : splitLoop f stack (acc ++ [e']) = .ok ps → truthAll opq ρ ((e' :: stack) ++ acc) = some v := by
            intro h2
            have := ih stack (acc ++ [e']) ps h2 ρ v hv
            unfold truthAll at this ⊢
            rw [← List.append_assoc, allO_append] at this
            rw [List.cons_append, allO_cons]
            rw [show allO [e'] (truth opq ρ) = (do let a ← truth opq ρ e'; pure (a && true)) from by
              rw [allO_cons, allO_nil]; cases truth opq ρ e' <;> rfl] at this
            generalize allO (stack ++ acc) (truth opq ρ) = tr at this ⊢
            generalize truth opq ρ e' = te at this ⊢
            cases tr <;> cases te <;> simp_all [bind, Option.bind, pure, Bool.and_comm]
          split at h
          · rename_i t op a b
            split at h
            · rename_i hop
              have := beq_eq hop; subst this
              have := ih (b :: a :: stack) acc ps h ρ v hv
              rw [List.cons_append, List.cons_append, truthAll_cons, truthAll_cons] at this
              rw [List.cons_append, truthAll_cons, truth_and]
              generalize truth opq ρ a = ta at this ⊢
              generalize truth opq ρ b = tb at this ⊢
              generalize truthAll opq ρ (stack ++ acc) = tr at this ⊢
              cases ta <;> cases tb <;> cases tr <;>
                simp_all [bind, Option.bind, pure, Bool.and_comm, Bool.and_left_comm]
            · exact appendCase h
          · exact appendCase h

/-- **C09 (equivalence)**: on every valuation under which all returned expressions have a truth value, the input has
    the truth value of their conjunction -/
theorem splitAnd_equiv (e : Expr) (ps : List Expr) (h : splitAnd e = .ok ps) (ρ : Env) (v : Bool)
    (hv : truthAll opq ρ ps = some v) : truth opq ρ e = some v := by
  have := splitLoop_refines opq _ [e] [] ps h ρ v hv
  simp only [List.append_nil] at this
  unfold truthAll at this
  rw [allO_cons, allO_nil] at this
  cases ht : truth opq ρ e with
  | none => simp [ht, bind, Option.bind] at this
  | some a => simpa [ht, bind, Option.bind, pure] using this

end

/-! ## shape of the result -/
theorem indivisible_not_conj (e : Expr) (h : indivisible e = true) : e.isConj = false := by
  cases e <;> simp_all [indivisible, Expr.isConj]

theorem mkAnd_isAnd {a b e : Expr} (h : mkAnd a b = .ok e) : isAnd e = true := by
  obtain ⟨t, a', b', rfl⟩ := mkBin_shape h
  simp [isAnd]

theorem presplit_bin {f : Nat} {t : DataType} {op : String} {a b e' : Expr} (h : presplit f (.bin t op a b) = .ok e') :
    e' = .bin t op a b := by
  cases f with
  | zero => simp [presplit] at h
  | succ f => simp only [presplit] at h; cases h; rfl

/-- every pre-split transformation returns a conjunction or an indivisible expression -/
theorem presplit_shape : ∀ f,
    (∀ e e', presplit f e = .ok e' → isAnd e' = true ∨ indivisible e' = true) ∧
    (∀ t phi e', splitNot f (.un t Gen.NOT_OPERATOR phi) phi = .ok e' → isAnd e' = true ∨ indivisible e' = true) ∧
    (∀ t q x d phi e', splitQuant f (.quant t q x d phi) q x d phi = .ok e' → isAnd e' = true ∨ indivisible e' = true) := by
  intro f
  induction f with
  | zero =>
    refine ⟨?_, ?_, ?_⟩
    · intro e e' h; simp [presplit] at h
    · intro t phi e' h; simp [splitNot] at h
    · intro t q x d phi e' h; simp [splitQuant] at h
  | succ f ih =>
    obtain ⟨ih1, ih2, ih3⟩ := ih
    refine ⟨?_, ?_, ?_⟩
    · intro e e' h
      cases e with
      | un t op phi =>
        simp only [presplit] at h
        split at h
        · rename_i hop
          have := beq_eq hop; subst this
          exact ih2 t phi e' h
        · rename_i hop; cases h; right; simp [indivisible, hop]
      | quant t q x d phi => simp only [presplit] at h; exact ih3 t q x d phi e' h
      | bin t op a b =>
        simp only [presplit] at h; cases h
        by_cases hop : (op == Gen.AND_OPERATOR) = true
        · left; simp [isAnd, hop]
        · right; simp only [indivisible]; simpa using hop
      | _ => simp only [presplit] at h; cases h; right; rfl
    · intro t phi e' h
      cases phi with
      | un t2 op p =>
        simp only [splitNot] at h
        split at h
        · exact ih1 p e' h
        · rename_i hop; cases h; right; simp [indivisible, Expr.isDisjn, Expr.isImpl, Expr.isNeg, Expr.isExists, hop]
      | bin t2 op a b =>
        simp only [splitNot] at h
        split at h
        · obtain ⟨na, _, h⟩ := bind_ok h
          obtain ⟨nb, _, h⟩ := bind_ok h
          left; exact mkAnd_isAnd h
        · rename_i hor
          split at h
          · obtain ⟨nb, _, h⟩ := bind_ok h
            left; exact mkAnd_isAnd h
          · rename_i himp; cases h; right
            simp [indivisible, Expr.isDisjn, Expr.isImpl, Expr.isNeg, Expr.isExists, hor, himp]
      | quant t2 q x d p =>
        cases q with
        | all => simp only [splitNot] at h; cases h; right; simp [indivisible, Expr.isDisjn, Expr.isImpl, Expr.isNeg, Expr.isExists]
        | some =>
          simp only [splitNot] at h
          obtain ⟨np, _, h⟩ := bind_ok h
          split at h
          · obtain ⟨qq, _, h⟩ := bind_ok h
            split at h
            · exact ih3 _ _ _ _ _ e' h
            · cases h
          · cases h
      | _ => simp only [splitNot] at h; cases h; right; simp [indivisible, Expr.isDisjn, Expr.isImpl, Expr.isNeg, Expr.isExists]
    · intro t q x d phi e' h
      cases q with
      | some => simp only [splitQuant] at h; cases h; right; rfl
      | all =>
        simp only [splitQuant] at h
        obtain ⟨phi', hphi', h⟩ := bind_ok h
        split at h
        · rename_i t2 op a b
          split at h
          · obtain ⟨qa, _, h⟩ := bind_ok h
            obtain ⟨qb, _, h⟩ := bind_ok h
            left; exact mkAnd_isAnd h
          · rename_i hop; cases h; right
            -- the original body is not a conjunction: otherwise presplit would have returned it unchanged
            simp only [indivisible, Bool.not_eq_true']
            cases phi with
            | bin t3 op3 a3 b3 =>
              have := presplit_bin hphi'
              cases this
              simpa [Expr.isConj] using hop
            | _ => rfl
        · rename_i hnb; cases h; right
          simp only [indivisible, Bool.not_eq_true']
          cases phi with
          | bin t3 op3 a3 b3 =>
            have := presplit_bin hphi'
            exact absurd this (hnb t3 op3 a3 b3)
          | _ => rfl

theorem splitLoop_indivisible : ∀ (f : Nat) (stack acc ps : List Expr), splitLoop f stack acc = .ok ps →
    (∀ p ∈ acc, indivisible p = true) → ∀ p ∈ ps, indivisible p = true := by
  intro f
  induction f with
  | zero => intro stack acc ps h; simp [splitLoop] at h
  | succ f ih =>
    intro stack acc ps h hacc
    cases stack with
    | nil => simp only [splitLoop] at h; cases h; exact hacc
    | cons e stack =>
      simp only [splitLoop] at h
      split at h
      · exact ih stack acc ps h hacc
      · split at h
        · cases h
        · obtain ⟨e', he', h⟩ := bind_ok h
          have hs := (presplit_shape _).1 e e' he'
          have appendCase : isAnd e' = false → splitLoop f stack (acc ++ [e']) = .ok ps → ∀ p ∈ ps, indivisible p = true := by
            intro hna h2
            apply ih stack (acc ++ [e']) ps h2
            intro p hp
            rcases List.mem_append.1 hp with hp | hp
            · exact hacc p hp
            · simp only [List.mem_singleton] at hp; subst hp
              rcases hs with hs | hs
              · rw [hna] at hs; cases hs
              · exact hs
          split at h
          · rename_i t op a b
            split at h
            · exact ih _ acc ps h hacc
            · rename_i hop; exact appendCase (by simpa [isAnd] using hop) h
          · rename_i hnb
            refine appendCase ?_ h
            cases e' with
            | bin t op a b => exact absurd rfl (hnb t op a b)
            | _ => rfl

/-- **C09 (shape)**: none of the returned expressions is a conjunction, a negated disjunction, a negated implication,
    a double negation, a negated existential quantifier or a universal quantifier over a conjunction -/
theorem splitAnd_indivisible (e : Expr) (ps : List Expr) (h : splitAnd e = .ok ps) : ∀ p ∈ ps, indivisible p = true :=
  splitLoop_indivisible _ [e] [] ps h (by simp)

/-- **C09 (ValueError)**: the only failure other than fuel/constructor errors is a literally false conjunct -/
theorem isFalseLit_truth (ρ : Env) (opq : Opaque) (e : Expr) (h : isFalseLit e = true) : truth opq ρ e = some false := by
  cases e with
  | lit t k lv => cases lv with
    | bool b => cases b <;> simp_all [isFalseLit, truth_lit_bool]
    | _ => simp [isFalseLit] at h
  | _ => simp [isFalseLit] at h

/-- non-vacuity: `not (b or c)` and `forall i in xs: (@i > 0 and b)` are split -/
def sB : Expr := .field T.BOOL (.this T.MESSAGE) "b"
def sC : Expr := .field T.BOOL (.this T.MESSAGE) "c"
example : (splitAnd (.un T.BOOL "not" (.bin T.BOOL "or" sB sC))).toOption.map List.length = some 2 := by rfl
example : (splitAnd (.quant T.BOOL .all "i" (.field T.ARRAY (.this T.MESSAGE) "xs") (.bin T.BOOL "and" (.bin T.BOOL ">" (.var T.NUMBER "i") (.lit T.NUMBER "0" (.int 0))) sB))).toOption.map List.length = some 2 := by rfl

end Hpl
