import Hpl.Props.C09
import Hpl.Props.C07
/-!
# C09 — `split_and` raises ValueError only for a literally false conjunct

`Conj e x`: `x` is a conjunct of `e` as the work list sees it — `e` itself, or an operand of a conjunction that the pre-split transform
makes of a conjunct. `splitAnd_value_only_false`: if `split_and` fails with the ValueError class, a conjunct that is the literal
`False` was met; no constructor call inside the transform can produce that class (`presplit_err`: they fail with type / sanity
errors or the model's internal ones only). With `isFalseLit_truth` the input is then not satisfiable.
-/
namespace Hpl

theorem bind_err' {α β : Type} {x : M α} {f : α → M β} {e : Err} (h : (do let a ← x; f a) = .error e) :
    x = .error e ∨ ∃ a, x = .ok a ∧ f a = .error e := bind_err h

theorem mkNot_err {a : Expr} {x : Err} (h : mkNot a = .error x) : x = .type := by
  unfold mkNot mkUn at h
  cases hd : findUn Gen.NOT_OPERATOR with
  | none => exact absurd hd (by decide)
  | some d =>
    simp only [hd] at h
    rcases bind_err' h with h1 | ⟨_, _, h2⟩
    · exact castE_err h1
    · cases h2

theorem mkBin_known_err {op : String} {a b : Expr} {x : Err} (hk : (findBin op).isSome = true) (h : mkBin op a b = .error x) : x = .type := by
  rcases mkBin_err h with h1 | h1
  · exact h1
  · exfalso
    subst h1
    unfold mkBin at h
    split at h
    · rename_i hn; rw [hn] at hk; cases hk
    · rcases bind_err' h with h1 | ⟨_, _, h⟩
      · have := castE_err h1; cases this
      · rcases bind_err' h with h1 | ⟨_, _, h⟩
        · have := castE_err h1; cases this
        · split at h
          · rcases bind_err' h with h1 | ⟨_, _, h⟩
            · have := castE_err h1; cases this
            · rcases bind_err' h with h1 | ⟨_, _, h⟩
              · have := castE_err h1; cases this
              · cases h
          · cases h

theorem mkAnd_err {a b : Expr} {x : Err} (h : mkAnd a b = .error x) : x = .type := mkBin_known_err (by decide) h
theorem mkOr_err {a b : Expr} {x : Err} (h : mkOr a b = .error x) : x = .type := mkBin_known_err (by decide) h

theorem mkForall_err {v : String} {d p : Expr} {x : Err} (h : mkForall v d p = .error x) : x = .type ∨ x = .sanity := mkQuant_err h

theorem emptyTest_err {d : Expr} {x : Err} (h : emptyTest d = .error x) : x = .type := by
  unfold emptyTest at h
  rcases bind_err' h with h1 | ⟨_, _, h⟩
  · rcases mkCall_err h1 with h2 | h2
    · exact h2
    · exfalso; subst h2
      unfold mkCall at h1
      cases hd : findFun "len" with
      | none => exact absurd hd (by decide)
      | some dd =>
        simp only [hd] at h1
        split at h1
        · cases h1
        · rcases bind_err' h1 with h3 | ⟨_, _, h3⟩
          · have := castArgs_err h3; cases this
          · cases h3
        · cases h1
  · exact mkBin_known_err (by decide) h

theorem splitHalf_err {v : String} {d a : Expr} {x : Err} (h : splitHalf v d a = .error x) : x = .type ∨ x = .sanity := by
  unfold splitHalf at h
  split at h
  · exact mkForall_err h
  · rcases bind_err' h with h1 | ⟨_, _, h⟩
    · exact Or.inl (emptyTest_err h1)
    · exact Or.inl (mkOr_err h)

/-- the error classes of the pre-split transform: never the ValueError class -/
def NotValue (x : Err) : Prop := x ≠ .value

theorem presplit_err : ∀ f,
    (∀ e x, presplit f e = .error x → NotValue x) ∧
    (∀ neg phi x, splitNot f neg phi = .error x → NotValue x) ∧
    (∀ qn q v d phi x, splitQuant f qn q v d phi = .error x → NotValue x) := by
  intro f
  induction f with
  | zero =>
    refine ⟨?_, ?_, ?_⟩
    · intro e x h; simp only [presplit] at h; cases h; exact fun hh => by cases hh
    · intro neg phi x h; simp only [splitNot] at h; cases h; exact fun hh => by cases hh
    · intro qn q v d phi x h; simp only [splitQuant] at h; cases h; exact fun hh => by cases hh
  | succ f ih =>
    obtain ⟨ihP, ihN, ihQ⟩ := ih
    refine ⟨?_, ?_, ?_⟩
    · intro e x h
      cases e with
      | un t op a =>
        simp only [presplit] at h
        split at h
        · exact ihN _ _ _ h
        · cases h
      | quant t q v d b => simp only [presplit] at h; exact ihQ _ _ _ _ _ _ h
      | lit _ _ _ | this _ | var _ _ | set _ _ | range _ _ _ _ _ | bin _ _ _ _ | call _ _ _ | field _ _ _ | index _ _ _ =>
        simp only [presplit] at h; cases h
    · intro neg phi x h
      cases phi with
      | un t op p =>
        simp only [splitNot] at h
        split at h
        · exact ihP _ _ h
        · cases h
      | bin t op a b =>
        simp only [splitNot] at h
        split at h
        · rcases bind_err' h with h1 | ⟨_, _, h⟩
          · rw [mkNot_err h1]; exact fun hh => by cases hh
          · rcases bind_err' h with h1 | ⟨_, _, h⟩
            · rw [mkNot_err h1]; exact fun hh => by cases hh
            · rw [mkAnd_err h]; exact fun hh => by cases hh
        · split at h
          · rcases bind_err' h with h1 | ⟨_, _, h⟩
            · rw [mkNot_err h1]; exact fun hh => by cases hh
            · rw [mkAnd_err h]; exact fun hh => by cases hh
          · cases h
      | quant t q v d p =>
        cases q with
        | all => simp only [splitNot] at h; cases h
        | some =>
          simp only [splitNot] at h
          rcases bind_err' h with h1 | ⟨np, _, h⟩
          · rw [mkNot_err h1]; exact fun hh => by cases hh
          · split at h
            · rcases bind_err' h with h1 | ⟨qq, _, h⟩
              · rcases mkForall_err h1 with rfl | rfl <;> exact fun hh => by cases hh
              · split at h
                · exact ihQ _ _ _ _ _ _ h
                · cases h; exact fun hh => by cases hh
            · cases h; exact fun hh => by cases hh
      | lit _ _ _ | this _ | var _ _ | set _ _ | range _ _ _ _ _ | call _ _ _ | field _ _ _ | index _ _ _ =>
        simp only [splitNot] at h; cases h
    · intro qn q v d phi x h
      cases q with
      | some => simp only [splitQuant] at h; cases h
      | all =>
        simp only [splitQuant] at h
        rcases bind_err' h with h1 | ⟨phi', _, h⟩
        · exact ihP _ _ h1
        · split at h
          · split at h
            · rcases bind_err' h with h1 | ⟨_, _, h⟩
              · rcases splitHalf_err h1 with rfl | rfl <;> exact fun hh => by cases hh
              · rcases bind_err' h with h1 | ⟨_, _, h⟩
                · rcases splitHalf_err h1 with rfl | rfl <;> exact fun hh => by cases hh
                · rw [mkAnd_err h]; exact fun hh => by cases hh
            · cases h
          · cases h

end Hpl

namespace Hpl

/-- conjuncts as the work list of `split_and` sees them -/
inductive Conj (e : Expr) : Expr → Prop
  | root : Conj e e
  | left {y a b : Expr} {t : DataType} : Conj e y → presplit (splitFuel y) y = .ok (.bin t Gen.AND_OPERATOR a b) → Conj e a
  | right {y a b : Expr} {t : DataType} : Conj e y → presplit (splitFuel y) y = .ok (.bin t Gen.AND_OPERATOR a b) → Conj e b

theorem splitLoop_value (e0 : Expr) : ∀ (f : Nat) (stack acc : List Expr), (∀ x ∈ stack, Conj e0 x) →
    splitLoop f stack acc = .error .value → ∃ x, Conj e0 x ∧ isFalseLit x = true := by
  intro f
  induction f with
  | zero => intro stack acc _ h; simp [splitLoop] at h
  | succ f ih =>
    intro stack acc hs h
    cases stack with
    | nil => simp [splitLoop] at h
    | cons e stack =>
      have he : Conj e0 e := hs e (by simp)
      have hst : ∀ x ∈ stack, Conj e0 x := fun x hx => hs x (by simp [hx])
      simp only [splitLoop] at h
      split at h
      · exact ih stack acc hst h
      · split at h
        · rename_i hf; exact ⟨e, he, hf⟩
        · rcases bind_err' h with h1 | ⟨e', he', h⟩
          · exact absurd rfl ((presplit_err _).1 e _ h1)
          · split at h
            · rename_i t op a b
              split at h
              · rename_i hop
                have := beq_eq hop; subst this
                refine ih (b :: a :: stack) acc ?_ h
                intro x hx
                simp only [List.mem_cons] at hx
                rcases hx with rfl | rfl | hx
                · exact .right he he'
                · exact .left he he'
                · exact hst x hx
              · exact ih stack _ hst h
            · exact ih stack _ hst h

/-- **C09 (ValueError)**: `split_and` fails with the ValueError class only when one of the conjuncts it reaches is the literal `False` -/
theorem splitAnd_value_only_false (e : Expr) (h : splitAnd e = .error .value) : ∃ x, Conj e x ∧ isFalseLit x = true :=
  splitLoop_value e _ [e] [] (by intro x hx; simp only [List.mem_singleton] at hx; subst hx; exact .root) h

/-- ... and conversely the literal `False` as the whole input is reported that way -/
example : splitAnd falseLit = .error .value := by rfl

end Hpl
