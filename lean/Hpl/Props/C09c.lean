import Hpl.Props.C09b
import Hpl.Props.C13d
/-!
# C09 — the fuel of the `split_and` model suffices (the Python recursion and work list terminate within these bounds)

Part 1: the pre-split transform (`presplit` / `splitNot` / `splitQuant`) never runs out of `splitFuel e = 3·|e| + 3`: each chain of calls
descends into strictly smaller formulas, and a negated existential is rebuilt once (one extra node) before being split.
-/
namespace Hpl

def fuelErr : Err := .internal "fuel"

theorem bind_ne_fuel {α β : Type} {X : M α} {K : α → M β} (hX : ∀ x, X = .error x → x ≠ fuelErr)
    (hK : ∀ a, X = .ok a → K a ≠ .error fuelErr) : (X >>= K) ≠ .error fuelErr := by
  cases h : X with
  | error x => simp only [bind, Except.bind]; intro hh; cases hh; exact hX _ h rfl
  | ok a => simp only [bind, Except.bind]; exact hK a h

@[simp] theorem size_withTy (t : DataType) (e : Expr) : (e.withTy t).size = e.size := by
  cases e <;> simp [Expr.withTy, Expr.size]

theorem castE_size {e e' : Expr} {t : DataType} (h : castE e t = .ok e') : e'.size = e.size := by
  obtain ⟨_, _, rfl⟩ := castE_ok h; simp

theorem mkNot_size {a e : Expr} (h : mkNot a = .ok e) : e.size = a.size + 1 := by
  unfold mkNot mkUn at h
  split at h
  · cases h
  · obtain ⟨a', ha', h⟩ := bind_ok h
    cases h
    simp [Expr.size, castE_size ha']; omega

theorem type_ne_fuel : Err.type ≠ fuelErr := by intro h; cases h
theorem sanity_ne_fuel : Err.sanity ≠ fuelErr := by intro h; cases h

theorem mkNot_nofuel {a : Expr} : ∀ x, mkNot a = .error x → x ≠ fuelErr := fun x h => by rw [mkNot_err h]; exact type_ne_fuel
theorem mkAnd_nofuel {a b : Expr} : ∀ x, mkAnd a b = .error x → x ≠ fuelErr := fun x h => by rw [mkAnd_err h]; exact type_ne_fuel
theorem mkForall_nofuel {v : String} {d p : Expr} : ∀ x, mkForall v d p = .error x → x ≠ fuelErr := fun x h => by
  rcases mkForall_err h with rfl | rfl
  · exact type_ne_fuel
  · exact sanity_ne_fuel
theorem splitHalf_nofuel {v : String} {d a : Expr} : ∀ x, splitHalf v d a = .error x → x ≠ fuelErr := fun x h => by
  rcases splitHalf_err h with rfl | rfl
  · exact type_ne_fuel
  · exact sanity_ne_fuel

theorem ok_ne_fuel {α : Type} {a : α} : (Except.ok a : M α) ≠ .error fuelErr := by intro h; cases h

theorem presplit_fuel : ∀ f,
    (∀ e, 3 * e.size + 1 ≤ f → presplit f e ≠ .error fuelErr) ∧
    (∀ neg phi, 3 * phi.size + 3 ≤ f → splitNot f neg phi ≠ .error fuelErr) ∧
    (∀ qn q v d phi, 3 * phi.size + 2 ≤ f → splitQuant f qn q v d phi ≠ .error fuelErr) := by
  intro f
  induction f with
  | zero =>
    refine ⟨?_, ?_, ?_⟩
    · intro e h; have := Expr.size_pos e; omega
    · intro neg phi h; omega
    · intro qn q v d phi h; omega
  | succ f ih =>
    obtain ⟨ihP, ihN, ihQ⟩ := ih
    refine ⟨?_, ?_, ?_⟩
    · intro e hf
      cases e with
      | un t op a =>
        simp only [presplit]
        simp only [Expr.size] at hf
        split
        · exact ihN _ _ (by omega)
        · exact ok_ne_fuel
      | quant t q v d b =>
        simp only [presplit]
        simp only [Expr.size] at hf
        have := Expr.size_pos d
        exact ihQ _ _ _ _ _ (by omega)
      | lit _ _ _ | this _ | var _ _ | set _ _ | range _ _ _ _ _ | bin _ _ _ _ | call _ _ _ | field _ _ _ | index _ _ _ =>
        simp only [presplit]; exact ok_ne_fuel
    · intro neg phi hf
      cases phi with
      | un t op p =>
        simp only [splitNot]
        simp only [Expr.size] at hf
        split
        · exact ihP _ (by omega)
        · exact ok_ne_fuel
      | bin t op a b =>
        simp only [splitNot]
        split
        · exact bind_ne_fuel mkNot_nofuel (fun _ _ => bind_ne_fuel mkNot_nofuel (fun _ _ => by
            intro hh; exact mkAnd_nofuel _ hh rfl))
        · split
          · exact bind_ne_fuel mkNot_nofuel (fun _ _ => by intro hh; exact mkAnd_nofuel _ hh rfl)
          · exact ok_ne_fuel
      | quant t q v d p =>
        simp only [Expr.size] at hf
        cases q with
        | all => simp only [splitNot]; exact ok_ne_fuel
        | some =>
          simp only [splitNot]
          refine bind_ne_fuel mkNot_nofuel (fun np hnp => ?_)
          split
          · refine bind_ne_fuel mkForall_nofuel (fun qq hqq => ?_)
            obtain ⟨d2, b2, rfl, _, hb2, _⟩ := mkQuant_idem hqq
            simp only
            have h1 := castE_size hb2
            have h2 := mkNot_size hnp
            have := Expr.size_pos d
            exact ihQ _ _ _ _ _ (by omega)
          · intro hh; exact absurd (Except.error.inj hh) (by decide)
      | lit _ _ _ | this _ | var _ _ | set _ _ | range _ _ _ _ _ | call _ _ _ | field _ _ _ | index _ _ _ =>
        simp only [splitNot]; exact ok_ne_fuel
    · intro qn q v d phi hf
      cases q with
      | some => simp only [splitQuant]; exact ok_ne_fuel
      | all =>
        simp only [splitQuant]
        refine bind_ne_fuel (fun x hx => ?_) (fun phi' _ => ?_)
        · intro hh; subst hh; exact (ihP phi (by omega)) hx
        · split
          · split
            · exact bind_ne_fuel splitHalf_nofuel (fun _ _ => bind_ne_fuel splitHalf_nofuel (fun _ _ => by
                intro hh; exact mkAnd_nofuel _ hh rfl))
            · exact ok_ne_fuel
          · exact ok_ne_fuel

/-- the fuel `split_and` gives the transform suffices -/
theorem presplit_splitFuel (e : Expr) : presplit (splitFuel e) e ≠ .error fuelErr :=
  (presplit_fuel _).1 e (by unfold splitFuel; omega)

end Hpl

/-!
Part 2: the work list. `Lp e` = the number of conjuncts `e` is finally split into (`Ln e` the same for `not e`); the transform
never increases it, a conjunction splits it between its operands, and so a stack whose entries need `Σ (2·Lp − 1)` iterations never
exhausts `4·|e| + 4`.
-/
namespace Hpl

mutual
def Lp : Expr → Nat
  | .bin _ op a b => if op == Gen.AND_OPERATOR then Lp a + Lp b else 1
  | .un _ op p => if op == Gen.NOT_OPERATOR then Ln p else 1
  | .quant _ q _ _ p => (match q with | .all => Lp p | .some => 1)
  | .lit .. | .this .. | .var .. | .set .. | .range .. | .call .. | .field .. | .index .. => 1
def Ln : Expr → Nat
  | .bin _ op p q => if op == Gen.OR_OPERATOR then Ln p + Ln q else if op == Gen.IMPLIES_OPERATOR then Lp p + Ln q else 1
  | .un _ op p => if op == Gen.NOT_OPERATOR then Lp p else 1
  | .quant _ q _ _ p => (match q with | .some => Ln p | .all => 1)
  | .lit .. | .this .. | .var .. | .set .. | .range .. | .call .. | .field .. | .index .. => 1
end

mutual
theorem Lp_pos : ∀ e : Expr, 1 ≤ Lp e
  | .bin _ op a b => by
      simp only [Lp]; split
      · have := Lp_pos a; omega
      · exact Nat.le_refl _
  | .un _ op p => by
      simp only [Lp]; split
      · exact Ln_pos p
      · exact Nat.le_refl _
  | .quant _ q _ _ p => by
      cases q
      · simp only [Lp]; exact Lp_pos p
      · simp only [Lp]; exact Nat.le_refl _
  | .lit .. | .this .. | .var .. | .set .. | .range .. | .call .. | .field .. | .index .. => by simp [Lp]
theorem Ln_pos : ∀ e : Expr, 1 ≤ Ln e
  | .bin _ op p q => by
      simp only [Ln]; split
      · have := Ln_pos p; omega
      · split
        · have := Ln_pos q; omega
        · exact Nat.le_refl _
  | .un _ op p => by
      simp only [Ln]; split
      · exact Lp_pos p
      · exact Nat.le_refl _
  | .quant _ q _ _ p => by
      cases q
      · simp only [Ln]; exact Nat.le_refl _
      · simp only [Ln]; exact Ln_pos p
  | .lit .. | .this .. | .var .. | .set .. | .range .. | .call .. | .field .. | .index .. => by simp [Ln]
end

mutual
theorem Lp_le_size : ∀ e : Expr, Lp e ≤ e.size
  | .bin _ op a b => by
      simp only [Lp, Expr.size]; split
      · have := Lp_le_size a; have := Lp_le_size b; omega
      · omega
  | .un _ op p => by
      simp only [Lp, Expr.size]; split
      · have := Ln_le_size p; omega
      · omega
  | .quant _ q _ _ p => by
      cases q
      · simp only [Lp, Expr.size]; have := Lp_le_size p; omega
      · simp only [Lp, Expr.size]; omega
  | .lit .. | .this .. | .var .. => by simp [Lp, Expr.size]
  | .set .. | .range .. | .call .. | .field .. | .index .. => by simp only [Lp, Expr.size]; omega
theorem Ln_le_size : ∀ e : Expr, Ln e ≤ e.size
  | .bin _ op p q => by
      simp only [Ln, Expr.size]; split
      · have := Ln_le_size p; have := Ln_le_size q; omega
      · split
        · have := Lp_le_size p; have := Ln_le_size q; omega
        · omega
  | .un _ op p => by
      simp only [Ln, Expr.size]; split
      · have := Lp_le_size p; omega
      · omega
  | .quant _ q _ _ p => by
      cases q
      · simp only [Ln, Expr.size]; omega
      · simp only [Ln, Expr.size]; have := Ln_le_size p; omega
  | .lit .. | .this .. | .var .. => by simp [Ln, Expr.size]
  | .set .. | .range .. | .call .. | .field .. | .index .. => by simp only [Ln, Expr.size]; omega
end

@[simp] theorem Lp_withTy (t : DataType) (e : Expr) : Lp (e.withTy t) = Lp e := by cases e <;> simp [Expr.withTy, Lp]
@[simp] theorem Ln_withTy (t : DataType) (e : Expr) : Ln (e.withTy t) = Ln e := by cases e <;> simp [Expr.withTy, Ln]

theorem castE_Lp {e e' : Expr} {t : DataType} (h : castE e t = .ok e') : Lp e' = Lp e := by obtain ⟨_, _, rfl⟩ := castE_ok h; simp
theorem castE_Ln {e e' : Expr} {t : DataType} (h : castE e t = .ok e') : Ln e' = Ln e := by obtain ⟨_, _, rfl⟩ := castE_ok h; simp

theorem mkNot_Lp {a e : Expr} (h : mkNot a = .ok e) : Lp e = Ln a := by
  unfold mkNot mkUn at h
  split at h
  · cases h
  · obtain ⟨a', ha', h⟩ := bind_ok h
    cases h
    simp [Lp, castE_Ln ha']

theorem mkBin_shapeL {op : String} {a b e : Expr} (h : mkBin op a b = .ok e) :
    ∃ t a2 b2, e = .bin t op a2 b2 ∧ Lp a2 = Lp a ∧ Lp b2 = Lp b := by
  unfold mkBin at h
  split at h
  · cases h
  · obtain ⟨a1, ha1, h⟩ := bind_ok h
    obtain ⟨b1, hb1, h⟩ := bind_ok h
    split at h
    · obtain ⟨a2, ha2, h⟩ := bind_ok h
      obtain ⟨b2, hb2, h⟩ := bind_ok h
      cases h
      exact ⟨_, a2, b2, rfl, by rw [castE_Lp ha2, castE_Lp ha1], by rw [castE_Lp hb2, castE_Lp hb1]⟩
    · cases h
      exact ⟨_, a1, b1, rfl, castE_Lp ha1, castE_Lp hb1⟩

theorem mkAnd_Lp {a b e : Expr} (h : mkAnd a b = .ok e) : Lp e = Lp a + Lp b := by
  obtain ⟨t, a2, b2, rfl, h1, h2⟩ := mkBin_shapeL h
  simp [Lp, h1, h2]

theorem mkOr_Lp {a b e : Expr} (h : mkOr a b = .ok e) : Lp e = 1 := by
  obtain ⟨t, a2, b2, rfl, _, _⟩ := mkBin_shapeL h
  have : (Gen.OR_OPERATOR == Gen.AND_OPERATOR) = false := by decide
  simp [Lp, this]

theorem mkForall_Lp {v : String} {d p e : Expr} (h : mkForall v d p = .ok e) : Lp e = Lp p := by
  obtain ⟨d2, b2, rfl, _, hb2, _⟩ := mkQuant_idem h
  simp [Lp, castE_Lp hb2]

theorem splitHalf_Lp {v : String} {d a e : Expr} (h : splitHalf v d a = .ok e) : Lp e ≤ Lp a := by
  unfold splitHalf at h
  split at h
  · rw [mkForall_Lp h]; exact Nat.le_refl _
  · obtain ⟨t, _, h⟩ := bind_ok h
    rw [mkOr_Lp h]; exact Lp_pos a

theorem presplit_L : ∀ f,
    (∀ e E, presplit f e = .ok E → Lp E ≤ Lp e) ∧
    (∀ neg phi E B, splitNot f neg phi = .ok E → Lp neg ≤ B → Ln phi ≤ B → Lp E ≤ B) ∧
    (∀ qn q v d phi E B, splitQuant f qn q v d phi = .ok E → Lp qn ≤ B → (q = .all → Lp phi ≤ B) → Lp E ≤ B) := by
  intro f
  induction f with
  | zero =>
    refine ⟨?_, ?_, ?_⟩
    · intro e E h; simp [presplit] at h
    · intro neg phi E B h; simp [splitNot] at h
    · intro qn q v d phi E B h; simp [splitQuant] at h
  | succ f ih =>
    obtain ⟨ihP, ihN, ihQ⟩ := ih
    refine ⟨?_, ?_, ?_⟩
    · intro e E h
      cases e with
      | un t op a =>
        simp only [presplit] at h
        split at h
        · rename_i hop
          exact ihN _ _ _ _ h (Nat.le_refl _) (by simp [Lp, hop])
        · cases h; exact Nat.le_refl _
      | quant t q v d b =>
        simp only [presplit] at h
        exact ihQ _ _ _ _ _ _ _ h (Nat.le_refl _) (by intro hq; subst hq; simp [Lp])
      | lit _ _ _ | this _ | var _ _ | set _ _ | range _ _ _ _ _ | bin _ _ _ _ | call _ _ _ | field _ _ _ | index _ _ _ =>
        simp only [presplit] at h; cases h; exact Nat.le_refl _
    · intro neg phi E B h hneg hphi
      cases phi with
      | un t op p =>
        simp only [splitNot] at h
        split at h
        · rename_i hop
          have := ihP _ _ h
          simp only [Ln, hop, if_true] at hphi
          omega
        · cases h; exact hneg
      | bin t op a b =>
        simp only [splitNot] at h
        split at h
        · rename_i hop
          obtain ⟨na, hna, h⟩ := bind_ok h
          obtain ⟨nb, hnb, h⟩ := bind_ok h
          rw [mkAnd_Lp h, mkNot_Lp hna, mkNot_Lp hnb]
          simpa [Ln, hop] using hphi
        · rename_i hop
          split at h
          · rename_i hop2
            obtain ⟨nb, hnb, h⟩ := bind_ok h
            rw [mkAnd_Lp h, mkNot_Lp hnb]
            simpa [Ln, hop, hop2] using hphi
          · cases h; exact hneg
      | quant t q v d p =>
        cases q with
        | all => simp only [splitNot] at h; cases h; exact hneg
        | some =>
          simp only [splitNot] at h
          obtain ⟨np, hnp, h⟩ := bind_ok h
          split at h
          · obtain ⟨qq, hqq, h⟩ := bind_ok h
            obtain ⟨d2, b2, rfl, _, hb2, _⟩ := mkQuant_idem hqq
            simp only at h
            have e1 : Lp b2 = Ln p := by rw [castE_Lp hb2, mkNot_Lp hnp]
            simp only [Ln] at hphi
            exact ihQ _ _ _ _ _ _ _ h (by simp [Lp, e1]; exact hphi) (fun _ => by rw [e1]; exact hphi)
          · cases h
      | lit _ _ _ | this _ | var _ _ | set _ _ | range _ _ _ _ _ | call _ _ _ | field _ _ _ | index _ _ _ =>
        simp only [splitNot] at h; cases h; exact hneg
    · intro qn q v d phi E B h hqn hphi
      cases q with
      | some => simp only [splitQuant] at h; cases h; exact hqn
      | all =>
        simp only [splitQuant] at h
        obtain ⟨phi', hphi', h⟩ := bind_ok h
        have hle := ihP _ _ hphi'
        have hB := hphi rfl
        split at h
        · rename_i t op a b
          split at h
          · rename_i hop
            obtain ⟨qa, hqa, h⟩ := bind_ok h
            obtain ⟨qb, hqb, h⟩ := bind_ok h
            rw [mkAnd_Lp h]
            have h1 := splitHalf_Lp hqa
            have h2 := splitHalf_Lp hqb
            have : Lp (Expr.bin t op a b) = Lp a + Lp b := by simp [Lp, hop]
            omega
          · cases h; exact hqn
        · cases h; exact hqn

end Hpl

namespace Hpl

/-- iterations the work list still needs for its entries -/
def need : List Expr → Nat
  | [] => 0
  | e :: es => (2 * Lp e - 1) + need es

theorem need_cons (e : Expr) (es : List Expr) : need (e :: es) = (2 * Lp e - 1) + need es := rfl

theorem splitLoop_fuel : ∀ (f : Nat) (stack acc : List Expr), need stack + 1 ≤ f → splitLoop f stack acc ≠ .error fuelErr := by
  intro f
  induction f with
  | zero => intro stack acc h; omega
  | succ f ih =>
    intro stack acc hf
    cases stack with
    | nil => simp only [splitLoop]; exact ok_ne_fuel
    | cons e stack =>
      have hpos := Lp_pos e
      rw [need_cons] at hf
      simp only [splitLoop]
      split
      · exact ih stack acc (by omega)
      · split
        · intro hh; exact absurd (Except.error.inj hh) (by decide)
        · refine bind_ne_fuel (fun x hx => ?_) (fun e' he' => ?_)
          · intro hh; subst hh; exact presplit_splitFuel e hx
          · have hle := (presplit_L _).1 e e' he'
            split
            · rename_i t op a b
              split
              · rename_i hop
                have hab : Lp (Expr.bin t op a b) = Lp a + Lp b := by simp [Lp, hop]
                have ha := Lp_pos a; have hb := Lp_pos b
                refine ih (b :: a :: stack) acc ?_
                rw [need_cons, need_cons]
                omega
              · exact ih stack _ (by omega)
            · exact ih stack _ (by omega)

/-- **C09 (termination)**: the model of `split_and` never runs out of the fuel it gives itself, for any input -/
theorem splitAnd_fuel_ok (e : Expr) : splitAnd e ≠ .error fuelErr := by
  unfold splitAnd
  refine splitLoop_fuel _ [e] [] ?_
  have := Lp_le_size e
  simp only [need]
  omega

end Hpl
