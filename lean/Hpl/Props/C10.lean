import Hpl.Props.C09
import Hpl.Lemmas.Refs
/-!
# C10 — `refactor_reference` isolates the alias-dependent part without changing meaning

Model: `Hpl/Model/Rewrite/Refactor.lean`. Spec: `truth` (errors collapsed), `containsRef`.
As for C09, equivalence is stated as refinement: wherever both returned parts have a truth value, the input has the
value of their conjunction (`refactor_equiv`).
-/
namespace Hpl
section
variable (opq : Opaque)

/-- the pair `(f1, f2)` conjoins to `e`: wherever both parts are defined, `e` is defined with the value `f1 and f2` -/
def Conjoins (f1 f2 e : Expr) : Prop :=
  ∀ ρ b1 b2, truth opq ρ f1 = some b1 → truth opq ρ f2 = some b2 → truth opq ρ e = some (b1 && b2)

theorem truth_trueLit (ρ : Env) : truth opq ρ trueLit = some true := rfl

theorem conjoins_true_left (e : Expr) : Conjoins opq trueLit e e := by
  intro ρ b1 b2 h1 h2
  rw [truth_trueLit] at h1; cases h1; simpa using h2

theorem conjoins_true_right (e : Expr) : Conjoins opq e trueLit e := by
  intro ρ b1 b2 h1 h2
  rw [truth_trueLit] at h2; cases h2; simpa using h1

theorem Conjoins.of_truth_eq {f1 f2 e e' : Expr} (h : Conjoins opq f1 f2 e) (he : ∀ ρ, truth opq ρ e = truth opq ρ e') :
    Conjoins opq f1 f2 e' := fun ρ b1 b2 h1 h2 => by rw [← he ρ]; exact h ρ b1 b2 h1 h2

/-- `_split_ref_operator` on a conjunction -/
theorem refAnd_conjoins {alias : String} {op a b f1 f2 : Expr} {t : DataType} (hop : op = .bin t Gen.AND_OPERATOR a b)
    (h : refAnd alias op a b = .ok (f1, f2)) : Conjoins opq f1 f2 op := by
  unfold refAnd at h
  simp only at h
  split at h
  · cases h
    intro ρ b1 b2 h1 h2
    rw [hop, truth_and, h1, h2]; simp [bind, Option.bind, pure, Bool.and_comm]
  · split at h
    · cases h
      intro ρ b1 b2 h1 h2
      rw [hop, truth_and, h1, h2]; rfl
    · split at h
      · cases h; exact conjoins_true_left opq _
      · cases h

/-- the two halves of a split universal quantifier conjoin to it (in either order) -/
theorem halves_conjoin {x : String} {d a b qa qb : Expr} (t1 t2 : DataType)
    (ha : splitHalf x d a = .ok qa) (hb : splitHalf x d b = .ok qb) :
    Conjoins opq qa qb (.quant t1 .all x d (.bin t2 Gen.AND_OPERATOR a b)) := by
  intro ρ va vb hqa hqb
  obtain ⟨es, hd, hxa⟩ := splitHalf_spec opq ha ρ va hqa
  obtain ⟨es', hd', hxb⟩ := splitHalf_spec opq hb ρ vb hqb
  rw [hd] at hd'; cases hd'
  rw [truth_forall, hd]
  simp only [Option.bind]
  have := allO_and es (fun w => truth opq (ρ.bind x w) a) (fun w => truth opq (ρ.bind x w) b)
  rw [allO_congr es _ _ (fun w => truth_and opq (ρ.bind x w) t2 a b), this, hxa, hxb]
  rfl

theorem Conjoins.swap {f1 f2 e : Expr} (h : Conjoins opq f1 f2 e) : Conjoins opq f2 f1 e :=
  fun ρ b1 b2 h1 h2 => by rw [Bool.and_comm]; exact h ρ b2 b1 h2 h1

theorem refQuantAnd_conjoins {alias x : String} {quant d a b f1 f2 : Expr} (t1 t2 : DataType)
    (hq : ∀ ρ, truth opq ρ quant = truth opq ρ (.quant t1 .all x d (.bin t2 Gen.AND_OPERATOR a b)))
    (h : refQuantAnd alias x quant d a b = .ok (f1, f2)) : Conjoins opq f1 f2 quant := by
  unfold refQuantAnd at h
  simp only at h
  split at h
  · obtain ⟨qa, hqa, h⟩ := bind_ok h
    obtain ⟨qb, hqb, h⟩ := bind_ok h
    cases h
    exact (Conjoins.of_truth_eq opq (halves_conjoin opq t1 t2 hqa hqb) (fun ρ => (hq ρ).symm)).swap
  · split at h
    · obtain ⟨qa, hqa, h⟩ := bind_ok h
      obtain ⟨qb, hqb, h⟩ := bind_ok h
      cases h
      exact Conjoins.of_truth_eq opq (halves_conjoin opq t1 t2 hqa hqb) (fun ρ => (hq ρ).symm)
    · split at h
      · cases h; exact conjoins_true_left opq _
      · cases h

/-- two bodies with equal truth values under every valuation give universal quantifiers with equal truth values -/
theorem truth_forall_congr (ρ : Env) (t1 t2 : DataType) (x : String) (d p p' : Expr)
    (h : ∀ ρ', truth opq ρ' p = truth opq ρ' p') :
    truth opq ρ (.quant t1 .all x d p) = truth opq ρ (.quant t2 .all x d p') := by
  rw [truth_forall, truth_forall]
  cases domElems opq ρ d with
  | none => rfl
  | some es => simp only [Option.bind]; exact allO_congr es _ _ (fun v => h _)

/-- `_split_ref_quantifier` -/
theorem refQuant_all_and {alias x : String} {t t2 : DataType} {d a b f1 f2 : Expr}
    (h : refQuantAnd alias x (.quant t .all x d (.bin t2 Gen.AND_OPERATOR a b)) d a b = .ok (f1, f2)) :
    Conjoins opq f1 f2 (.quant t .all x d (.bin t2 Gen.AND_OPERATOR a b)) :=
  refQuantAnd_conjoins opq t t2 (fun _ => rfl) h

theorem refQuant_conjoins {alias : String} {quant f1 f2 : Expr} (h : refQuant alias quant = .ok (f1, f2)) :
    Conjoins opq f1 f2 quant := by
  cases quant with
  | quant t q x d body =>
    simp only [refQuant] at h
    split at h
    · cases h; exact conjoins_true_left opq _
    · split at h
      · cases h
      · cases q with
        | some => simp only at h; cases h; exact conjoins_true_left opq _
        | all =>
          simp only at h
          cases body with
          | un t2 op inner =>
            cases inner with
            | bin t3 op2 a b =>
              simp only at h
              split at h
              · rename_i hops
                simp only [Bool.and_eq_true] at hops
                have h1 := beq_eq hops.1; have h2 := beq_eq hops.2; subst h1; subst h2
                obtain ⟨na, hna, h⟩ := bind_ok h
                obtain ⟨nb, hnb, h⟩ := bind_ok h
                obtain ⟨e, he, h⟩ := bind_ok h
                obtain ⟨te, a', b', rfl⟩ := mkBin_shape he
                simp only at h
                have hbody : ∀ ρ', truth opq ρ' (.un t2 Gen.NOT_OPERATOR (.bin t3 Gen.OR_OPERATOR a b)) =
                    truth opq ρ' (.bin te Gen.AND_OPERATOR a' b') := by
                  intro ρ'
                  have e1 := truth_of_like opq (mkAnd_like opq he) ρ'
                  rw [truth_and opq ρ' T.BOOL, truth_of_like opq (mkNot_like opq hna), truth_of_like opq (mkNot_like opq hnb),
                    ← truth_and opq ρ' T.BOOL, truth_deMorgan opq ρ' _ _ _ t2 t3 a b] at e1
                  exact e1.symm
                exact refQuantAnd_conjoins opq t te (fun ρ => truth_forall_congr opq ρ t t x d _ _ hbody) h
              · cases h; exact conjoins_true_left opq _
            | _ => simp only at h; cases h; exact conjoins_true_left opq _
          | bin t2 op a b =>
            simp only at h
            split at h
            · rename_i hop
              have := beq_eq hop; subst this
              exact refQuant_all_and opq h
            · cases h; exact conjoins_true_left opq _
          | _ => simp only at h; cases h; exact conjoins_true_left opq _
  | _ => simp [refQuant] at h

theorem refExpr_conjoins (alias : String) : ∀ f,
    (∀ e f1 f2, refExpr alias f e = .ok (f1, f2) → Conjoins opq f1 f2 e) ∧
    (∀ t a f1 f2, refNeg alias f (.un t Gen.NOT_OPERATOR a) a = .ok (f1, f2) → Conjoins opq f1 f2 (.un t Gen.NOT_OPERATOR a)) := by
  intro f
  induction f with
  | zero => exact ⟨fun e f1 f2 h => by simp [refExpr] at h, fun t a f1 f2 h => by simp [refNeg] at h⟩
  | succ f ih =>
    obtain ⟨ih1, ih2⟩ := ih
    refine ⟨?_, ?_⟩
    · intro e f1 f2 h
      simp only [refExpr] at h
      split at h
      · cases h; exact conjoins_true_right opq _
      · split at h
        · cases h; exact conjoins_true_left opq _
        · split at h
          · cases h; exact conjoins_true_left opq _
          · cases e with
            | quant t q x d b => simp only at h; exact refQuant_conjoins opq h
            | un t op a =>
              simp only at h
              split at h
              · rename_i hop
                have := beq_eq hop; subst this
                exact ih2 t a f1 f2 h
              · cases h
            | bin t op a b =>
              simp only at h
              split at h
              · rename_i hop
                have := beq_eq hop; subst this
                exact refAnd_conjoins opq rfl h
              · cases h; exact conjoins_true_left opq _
            | _ => simp only at h; cases h
    · intro t a f1 f2 h
      simp only [refNeg] at h
      split at h
      · cases h
      · split at h
        · cases h; exact conjoins_true_left opq _
        · cases a with
          | quant t2 q x d p =>
            cases q with
            | all => simp only at h; cases h; exact conjoins_true_left opq _
            | some =>
              -- negated existential: (~E x: p) == (A x: ~p)
              simp only at h
              obtain ⟨np, hnp, h⟩ := bind_ok h
              split at h
              · obtain ⟨q, hq, h⟩ := bind_ok h
                refine Conjoins.of_truth_eq opq (refQuant_conjoins opq h) (fun ρ => ?_)
                rw [truth_of_like opq (mkForall_like opq hq), ← truth_notExists opq ρ T.BOOL T.BOOL t t2]
                exact truth_forall_congr opq ρ _ _ x d _ _ (fun ρ' => truth_of_like opq (mkNot_like opq hnp) ρ')
              · cases h
          | un t2 op p =>
            simp only at h
            split at h
            · rename_i hop
              have := beq_eq hop; subst this
              exact Conjoins.of_truth_eq opq (ih1 p f1 f2 h) (fun ρ => (truth_notNot opq ρ t t2 p).symm)
            · cases h; exact conjoins_true_left opq _
          | bin t2 op p q =>
            simp only at h
            split at h
            · rename_i hop
              have := beq_eq hop; subst this
              obtain ⟨nb, hnb, h⟩ := bind_ok h
              obtain ⟨c, hc, h⟩ := bind_ok h
              obtain ⟨tc, a', b', rfl⟩ := mkBin_shape hc
              simp only at h
              refine Conjoins.of_truth_eq opq (refAnd_conjoins opq rfl h) (fun ρ => ?_)
              rw [truth_of_like opq (mkAnd_like opq hc), truth_and, truth_of_like opq (mkNot_like opq hnb), ← truth_and opq ρ T.BOOL]
              exact truth_notImp opq ρ _ _ t t2 p q
            · split at h
              · rename_i hop
                have := beq_eq hop; subst this
                obtain ⟨na, hna, h⟩ := bind_ok h
                obtain ⟨nb, hnb, h⟩ := bind_ok h
                obtain ⟨c, hc, h⟩ := bind_ok h
                obtain ⟨tc, a', b', rfl⟩ := mkBin_shape hc
                simp only at h
                refine Conjoins.of_truth_eq opq (refAnd_conjoins opq rfl h) (fun ρ => ?_)
                rw [truth_of_like opq (mkAnd_like opq hc), truth_and, truth_of_like opq (mkNot_like opq hna),
                  truth_of_like opq (mkNot_like opq hnb), ← truth_and opq ρ T.BOOL]
                exact truth_deMorgan opq ρ _ _ _ t t2 p q
              · cases h; exact conjoins_true_left opq _
          | _ => simp only at h; cases h

/-- **C10 (equivalence)**: wherever both returned expressions have a truth value, the input has the value `f1 and f2` -/
theorem refactor_equiv (e f1 f2 : Expr) (alias : String) (h : refactorExpr e alias = .ok (f1, f2))
    (ρ : Env) (b1 b2 : Bool) (h1 : truth opq ρ f1 = some b1) (h2 : truth opq ρ f2 = some b2) :
    truth opq ρ e = some (b1 && b2) :=
  (refExpr_conjoins opq alias _).1 e f1 f2 h ρ b1 b2 h1 h2

end

/-! ## the first component never mentions the alias -/
theorem trueLit_noRef (a : String) : trueLit.containsRef a = false := rfl

theorem refAnd_noRef {alias : String} {op a b f1 f2 : Expr} (h : refAnd alias op a b = .ok (f1, f2)) :
    f1.containsRef alias = false := by
  unfold refAnd at h
  simp only at h
  split at h
  · rename_i hc; cases h; simp only [Bool.and_eq_true, Bool.not_eq_true'] at hc; exact hc.2
  · split at h
    · rename_i hc; cases h; simp only [Bool.and_eq_true, Bool.not_eq_true'] at hc; exact hc.2
    · split at h
      · cases h; rfl
      · cases h

theorem refQuantAnd_noRef {alias x : String} {quant d a b f1 f2 : Expr} (hd : d.containsRef alias = false)
    (h : refQuantAnd alias x quant d a b = .ok (f1, f2)) : f1.containsRef alias = false := by
  unfold refQuantAnd at h
  simp only at h
  split at h
  · rename_i hc
    obtain ⟨qa, hqa, h⟩ := bind_ok h
    obtain ⟨qb, hqb, h⟩ := bind_ok h
    cases h
    simp only [Bool.and_eq_true, Bool.not_eq_true'] at hc
    rw [splitHalf_containsRef hqb, hd, hc.2]; rfl
  · split at h
    · rename_i hc
      obtain ⟨qa, hqa, h⟩ := bind_ok h
      obtain ⟨qb, hqb, h⟩ := bind_ok h
      cases h
      simp only [Bool.and_eq_true, Bool.not_eq_true'] at hc
      rw [splitHalf_containsRef hqa, hd, hc.2]; rfl
    · split at h
      · cases h; rfl
      · cases h

theorem refQuant_noRef {alias : String} {quant f1 f2 : Expr} (h : refQuant alias quant = .ok (f1, f2)) :
    f1.containsRef alias = false := by
  cases quant with
  | quant t q x d body =>
    simp only [refQuant] at h
    split at h
    · cases h; rfl
    · rename_i hd
      simp only [Bool.not_eq_true] at hd
      split at h
      · cases h
      · cases q with
        | some => simp only at h; cases h; rfl
        | all =>
          simp only at h
          cases body with
          | un t2 op inner =>
            cases inner with
            | bin t3 op2 a b =>
              simp only at h
              split at h
              · obtain ⟨na, hna, h⟩ := bind_ok h
                obtain ⟨nb, hnb, h⟩ := bind_ok h
                obtain ⟨e, he, h⟩ := bind_ok h
                obtain ⟨te, a', b', rfl⟩ := mkBin_shape he
                simp only at h
                exact refQuantAnd_noRef hd h
              · cases h; rfl
            | _ => simp only at h; cases h; rfl
          | bin t2 op a b =>
            simp only at h
            split at h
            · exact refQuantAnd_noRef hd h
            · cases h; rfl
          | _ => simp only at h; cases h; rfl
  | _ => simp [refQuant] at h

theorem refExpr_noRef (alias : String) : ∀ f,
    (∀ e f1 f2, refExpr alias f e = .ok (f1, f2) → f1.containsRef alias = false) ∧
    (∀ neg a f1 f2, refNeg alias f neg a = .ok (f1, f2) → f1.containsRef alias = false) := by
  intro f
  induction f with
  | zero => exact ⟨fun e f1 f2 h => by simp [refExpr] at h, fun neg a f1 f2 h => by simp [refNeg] at h⟩
  | succ f ih =>
    obtain ⟨ih1, ih2⟩ := ih
    refine ⟨?_, ?_⟩
    · intro e f1 f2 h
      simp only [refExpr] at h
      split at h
      · rename_i hc; cases h; simpa using hc
      · split at h
        · cases h; rfl
        · split at h
          · cases h; rfl
          · cases e with
            | quant t q x d b => simp only at h; exact refQuant_noRef h
            | un t op a =>
              simp only at h
              split at h
              · exact ih2 _ a f1 f2 h
              · cases h
            | bin t op a b =>
              simp only at h
              split at h
              · exact refAnd_noRef h
              · cases h; rfl
            | _ => simp only at h; cases h
    · intro neg a f1 f2 h
      simp only [refNeg] at h
      split at h
      · cases h
      · split at h
        · cases h; rfl
        · cases a with
          | quant t2 q x d p =>
            cases q with
            | all => simp only at h; cases h; rfl
            | some =>
              simp only at h
              obtain ⟨np, hnp, h⟩ := bind_ok h
              split at h
              · obtain ⟨q, hq, h⟩ := bind_ok h
                exact refQuant_noRef h
              · cases h
          | un t2 op p =>
            simp only at h
            split at h
            · exact ih1 p f1 f2 h
            · cases h; rfl
          | bin t2 op p q =>
            simp only at h
            split at h
            · obtain ⟨nb, hnb, h⟩ := bind_ok h
              obtain ⟨c, hc, h⟩ := bind_ok h
              obtain ⟨tc, a', b', rfl⟩ := mkBin_shape hc
              simp only at h
              exact refAnd_noRef h
            · split at h
              · obtain ⟨na, hna, h⟩ := bind_ok h
                obtain ⟨nb, hnb, h⟩ := bind_ok h
                obtain ⟨c, hc, h⟩ := bind_ok h
                obtain ⟨tc, a', b', rfl⟩ := mkBin_shape hc
                simp only at h
                exact refAnd_noRef h
              · cases h; rfl
          | _ => simp only at h; cases h

/-- **C10 (isolation)**: the first returned expression contains no reference to the alias -/
theorem refactor_noRef (e f1 f2 : Expr) (alias : String) (h : refactorExpr e alias = .ok (f1, f2)) :
    f1.containsRef alias = false :=
  (refExpr_noRef alias _).1 e f1 f2 h

/-- **C10 (unchanged)**: when the expression does not mention the alias the result is the expression itself paired with True -/
theorem refactor_unchanged (e : Expr) (alias : String) (h : e.containsRef alias = false) :
    refactorExpr e alias = .ok (e, trueLit) := by
  unfold refactorExpr
  simp [refExpr, h]

/-- non-vacuity: `forall i in xs: (@i > 0 and @A.b)` with alias A splits into `len(xs) = 0 or @A.b` and the quantifier -/
def exC10 : Expr :=
  .quant T.BOOL .all "i" (.field T.ARRAY (.this T.MESSAGE) "xs")
    (.bin T.BOOL "and" (.bin T.BOOL ">" (.var T.NUMBER "i") (.lit T.NUMBER "0" (.int 0))) (.field T.BOOL (.var T.MESSAGE "A") "b"))
example : ∃ f1 f2, refactorExpr exC10 "A" = .ok (f1, f2) ∧ f1.containsRef "A" = false ∧ f2.containsRef "A" = true := by
  refine ⟨_, _, by rfl, by rfl, by rfl⟩

end Hpl
