import Hpl.Model.Rewrite.Refactor
import Hpl.Spec.Eval
/-! # C10 — `refactor_reference` isolates the alias-dependent part (theorems: in progress) -/
namespace Hpl

/-- **C10**: when the expression does not mention the alias the result is the expression itself paired with True -/
theorem refactor_unchanged (e : Expr) (alias : String) (h : e.containsRef alias = false) :
    refactorExpr e alias = .ok (e, trueLit) := by
  unfold refactorExpr
  simp [refExpr, h]

end Hpl
