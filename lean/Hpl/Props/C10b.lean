import Hpl.Props.C09c
import Hpl.Model.Rewrite.Refactor
/-!
# C10 — the fuel of the `refactor_reference` model suffices: each recursive call is on a strictly smaller formula
-/
namespace Hpl

theorem internal_ne_fuel {s : String} (h : s ≠ "fuel") : Err.internal s ≠ fuelErr := by
  intro hh; unfold fuelErr at hh; cases hh; exact h rfl

theorem refQuantAnd_nofuel {alias x : String} {quant d a b : Expr} : refQuantAnd alias x quant d a b ≠ .error fuelErr := by
  unfold refQuantAnd
  simp only
  split
  · exact bind_ne_fuel splitHalf_nofuel (fun _ _ => bind_ne_fuel splitHalf_nofuel (fun _ _ => ok_ne_fuel))
  · split
    · exact bind_ne_fuel splitHalf_nofuel (fun _ _ => bind_ne_fuel splitHalf_nofuel (fun _ _ => ok_ne_fuel))
    · split
      · exact ok_ne_fuel
      · intro hh; exact internal_ne_fuel (by decide) (Except.error.inj hh)

theorem refAnd_nofuel {alias : String} {op a b : Expr} : refAnd alias op a b ≠ .error fuelErr := by
  unfold refAnd
  simp only
  split
  · exact ok_ne_fuel
  · split
    · exact ok_ne_fuel
    · split
      · exact ok_ne_fuel
      · intro hh; exact internal_ne_fuel (by decide) (Except.error.inj hh)

theorem refQuant_nofuel {alias : String} {quant : Expr} : refQuant alias quant ≠ .error fuelErr := by
  unfold refQuant
  split
  · split
    · exact ok_ne_fuel
    · split
      · intro hh; exact internal_ne_fuel (by decide) (Except.error.inj hh)
      · split
        · split
          · split
            · refine bind_ne_fuel mkNot_nofuel (fun _ _ => bind_ne_fuel mkNot_nofuel (fun _ _ => bind_ne_fuel mkAnd_nofuel (fun e _ => ?_)))
              split
              · exact refQuantAnd_nofuel
              · intro hh; exact internal_ne_fuel (by decide) (Except.error.inj hh)
            · exact ok_ne_fuel
          · split
            · exact refQuantAnd_nofuel
            · exact ok_ne_fuel
          · exact ok_ne_fuel
        · exact ok_ne_fuel
  · intro hh; exact internal_ne_fuel (by decide) (Except.error.inj hh)

theorem refactor_fuel (alias : String) : ∀ f,
    (∀ e, e.size + 1 ≤ f → refExpr alias f e ≠ .error fuelErr) ∧
    (∀ neg e, e.size + 1 ≤ f → refNeg alias f neg e ≠ .error fuelErr) := by
  intro f
  induction f with
  | zero => exact ⟨fun e h => by omega, fun neg e h => by omega⟩
  | succ f ih =>
    obtain ⟨ihE, ihN⟩ := ih
    refine ⟨?_, ?_⟩
    · intro e hf
      simp only [refExpr]
      split
      · exact ok_ne_fuel
      · split
        · exact ok_ne_fuel
        · split
          · exact ok_ne_fuel
          · split
            · exact refQuant_nofuel
            · rename_i t op a
              split
              · simp only [Expr.size] at hf
                exact ihN _ _ (by omega)
              · intro hh; exact internal_ne_fuel (by decide) (Except.error.inj hh)
            · split
              · exact refAnd_nofuel
              · exact ok_ne_fuel
            · intro hh; exact type_ne_fuel (Except.error.inj hh)
    · intro neg e hf
      simp only [refNeg]
      split
      · intro hh; exact internal_ne_fuel (by decide) (Except.error.inj hh)
      · split
        · exact ok_ne_fuel
        · split
          · refine bind_ne_fuel mkNot_nofuel (fun np _ => ?_)
            split
            · exact bind_ne_fuel mkForall_nofuel (fun _ _ => refQuant_nofuel)
            · intro hh; exact internal_ne_fuel (by decide) (Except.error.inj hh)
          · exact ok_ne_fuel
          · rename_i t op a
            split
            · simp only [Expr.size] at hf
              exact ihE _ (by omega)
            · exact ok_ne_fuel
          · split
            · refine bind_ne_fuel mkNot_nofuel (fun _ _ => bind_ne_fuel mkAnd_nofuel (fun c _ => ?_))
              split
              · exact refAnd_nofuel
              · intro hh; exact internal_ne_fuel (by decide) (Except.error.inj hh)
            · split
              · refine bind_ne_fuel mkNot_nofuel (fun _ _ => bind_ne_fuel mkNot_nofuel (fun _ _ => bind_ne_fuel mkAnd_nofuel (fun c _ => ?_)))
                split
                · exact refAnd_nofuel
                · intro hh; exact internal_ne_fuel (by decide) (Except.error.inj hh)
              · exact ok_ne_fuel
          · intro hh; exact type_ne_fuel (Except.error.inj hh)

/-- **C10 (termination)**: the model of `refactor_reference` never runs out of the fuel it gives itself -/
theorem refactorExpr_fuel_ok (e : Expr) (alias : String) : refactorExpr e alias ≠ .error fuelErr :=
  (refactor_fuel alias _).1 e (Nat.le_refl _)

end Hpl
