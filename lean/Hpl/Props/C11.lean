import Hpl.Model.Canon
import Hpl.Spec.Canonical
import Hpl.Lemmas.Except
/-!
# C11 — `canonical_form` is an exact, order-stable decomposition

Model: `Hpl/Model/Canon.lean`. Spec: `canonicalSpec` (the product of the activator's alternatives with the split event's
alternatives, activator-major, source order, every other field copied).

Known finding (see known_findings.json, C11-split-unbinds-alias): `property.but(...)` re-runs the sanity check on every
copy, so `canonical_form` *raises* when a later event references an alias that only one alternative of a split
disjunction binds. The theorems therefore speak about the successful case (`canonical p = .ok qs`) and characterise the
failing case (`canonical_error_is_sanity_of_copy`).
-/
namespace Hpl

/-! ## generated-table obligations (G5) -/
/-- the model's pattern predicates are the ones of `PatternType` (extracted from the code), member for member -/
theorem G5_pattern_table :
    (∀ r ∈ Gen.patternTypes, (r.name, r.isSafety, r.isLiveness, r.hasTrigger) ∈ PatternKind.all.map (fun k => (k.pyName, k.isSafety, k.isLiveness, k.hasTrigger))) ∧
    (∀ k ∈ PatternKind.all, k.pyName ∈ Gen.patternTypes.map (·.name)) ∧ (Gen.patternTypes.map (·.name)).Nodup := by decide

/-- every pattern type is exactly one of safety / liveness -/
theorem G5_safety_xor_liveness : ∀ r ∈ Gen.patternTypes, r.isSafety = !r.isLiveness := by decide

/-- the kind tests used by the split: safety = absence/requirement/prevention; response is the only split liveness pattern -/
theorem G5_kind_tests : ∀ r ∈ Gen.patternTypes,
    (r.isAbsence, r.isExistence, r.isRequirement, r.isResponse, r.isPrevention) =
    (r.name == "ABSENCE", r.name == "EXISTENCE", r.name == "REQUIREMENT", r.name == "RESPONSE", r.name == "PREVENTION") := by decide

theorem G5_scope_table :
    (∀ r ∈ Gen.scopeTypes, (r.name, r.isAfter, r.isUntil, r.hasActivator, r.hasTerminator) ∈
      ScopeKind.all.map (fun k => (k.pyName, k.hasActivator, k.hasTerminator, k.hasActivator, k.hasTerminator))) ∧
    (∀ k ∈ ScopeKind.all, k.pyName ∈ Gen.scopeTypes.map (·.name)) ∧ (Gen.scopeTypes.map (·.name)).Nodup := by decide

/-! ## facts about alternatives -/
theorem simpleEvents_simple : ∀ (e a : Event), a ∈ e.simpleEvents → a.isDisj = false
  | .simple .., a, h => by simp [Event.simpleEvents] at h; subst h; rfl
  | .disj x y, a, h => by
      simp [Event.simpleEvents] at h; rcases h with h | h
      · exact simpleEvents_simple x a h
      · exact simpleEvents_simple y a h

theorem simpleEvents_of_simple (e : Event) (h : e.isDisj = false) : e.simpleEvents = [e] := by
  cases e <;> simp_all [Event.simpleEvents, Event.isDisj]

theorem simpleEvents_ne_nil : ∀ e : Event, e.simpleEvents ≠ []
  | .simple .. => by simp [Event.simpleEvents]
  | .disj a b => by simp [Event.simpleEvents, simpleEvents_ne_nil a]

theorem simpleEvents_disj_length (a b : Event) : 2 ≤ (Event.disj a b).simpleEvents.length := by
  have ha := List.length_pos_iff.2 (simpleEvents_ne_nil a)
  have hb := List.length_pos_iff.2 (simpleEvents_ne_nil b)
  simp [Event.simpleEvents]; omega

theorem canonicalScopes_eq_spec (s : Scope) : canonicalScopes s = scopeAlts s := rfl

theorem canonicalPatterns_eq_spec (p : Pattern) (htrig : p.kind.hasTrigger = p.trigger.isSome) :
    canonicalPatterns p = patternAlts p := by
  obtain ⟨k, b, tg, mn, mx⟩ := p
  cases k <;> cases tg <;> simp_all [canonicalPatterns, patternAlts, splitEvent, withSplit, PatternKind.isSafety, PatternKind.hasTrigger]

theorem canonicalScopes_simple (s : Scope) (h : ∀ a, s.activator = some a → a.isDisj = false) :
    canonicalScopes s = [s] := by
  obtain ⟨k, a, t⟩ := s
  cases k <;> cases a <;> simp [canonicalScopes]
  all_goals (rename_i a; simp [simpleEvents_of_simple a (h a rfl)])

theorem canonicalPatterns_simple (p : Pattern) (h : ∀ e, splitEvent p = some e → e.isDisj = false) :
    canonicalPatterns p = [p] := by
  obtain ⟨k, b, tg, mn, mx⟩ := p
  cases k <;> cases tg <;> simp_all [canonicalPatterns, splitEvent, PatternKind.isSafety, simpleEvents_of_simple]

/-! ## C11 -/

/-- **C11**: nothing to split ⇒ the property itself -/
theorem canonical_self (p : Property)
    (ha : ∀ a, p.scope.activator = some a → a.isDisj = false)
    (hs : ∀ e, splitEvent p.pattern = some e → e.isDisj = false) : canonical p = .ok [p] := by
  simp [canonical, canonicalScopes_simple p.scope ha, canonicalPatterns_simple p.pattern hs]

theorem mapM_ok_map {α β : Type} (f : α → M β) (g : α → β) :
    ∀ (l : List α) (r : List β), l.mapM f = .ok r → (∀ a ∈ l, ∀ b, f a = .ok b → b = g a) → r = l.map g
  | [], r, h, _ => by simp [List.mapM_nil, pure, Except.pure] at h; simp [h]
  | a :: l, r, h, hg => by
      rw [List.mapM_cons] at h
      cases hfa : f a with
      | error e => simp [hfa, bind, Except.bind] at h
      | ok b =>
        cases hl : l.mapM f with
        | error e => simp [hfa, hl, bind, Except.bind] at h
        | ok bs =>
          simp [hfa, hl, bind, Except.bind, pure, Except.pure] at h
          subst h
          have := mapM_ok_map f g l bs hl (fun x hx => hg x (List.mem_cons_of_mem _ hx))
          simp [this, hg a (List.mem_cons_self) b hfa]

theorem butProp_ok {p : Property} {s : Scope} {q : Pattern} {r : Property} (h : butProp p s q = .ok r) :
    r = { p with scope := s, pattern := q } ∧ sanityCheck s q = .ok () := by
  unfold butProp at h
  obtain ⟨u, hu, h⟩ := bind_ok h
  cases h; cases u; exact ⟨rfl, hu⟩

/-- **C11**: a successful `canonical_form` returns exactly the product (activator-major, source order), every copy
    differing from the input only in the two split positions — scope kind, terminator, pattern kind, the other event,
    time bounds and metadata are the input's -/
theorem canonical_eq_spec (p : Property) (qs : List Property) (htrig : p.pattern.kind.hasTrigger = p.pattern.trigger.isSome)
    (h : canonical p = .ok qs) : qs = canonicalSpec p := by
  unfold canonical at h
  simp only at h
  split at h
  · rename_i hlen
    cases h
    -- both lists are singletons, and the singleton alternatives are the input's own fields
    obtain ⟨h1, h2⟩ := hlen
    unfold canonicalSpec
    rw [← canonicalScopes_eq_spec, ← canonicalPatterns_eq_spec _ htrig]
    have hs : canonicalScopes p.scope = [p.scope] := by
      obtain ⟨⟨k, a, t⟩, pat, md⟩ := p
      cases k <;> cases a <;> simp only [canonicalScopes] at h1 ⊢
      all_goals
        rename_i a
        cases a with
        | simple n al pr => simp [Event.simpleEvents]
        | disj x y => have := simpleEvents_disj_length x y; simp at h1; omega
    have hp : canonicalPatterns p.pattern = [p.pattern] := by
      obtain ⟨sc, ⟨k, b, tg, mn, mx⟩, md⟩ := p
      cases k <;> cases tg <;> simp only [canonicalPatterns, PatternKind.isSafety, ↓reduceIte, Bool.false_eq_true] at h2 ⊢
      all_goals first
        | rfl
        | (cases b with
           | simple n al pr => simp [Event.simpleEvents]
           | disj x y => have := simpleEvents_disj_length x y; simp at h2; omega)
        | (rename_i t
           cases t with
           | simple n al pr => simp [Event.simpleEvents]
           | disj x y => have := simpleEvents_disj_length x y; simp at h2; omega)
    rw [hs, hp]; simp
  · have := mapM_ok_map (fun (sq : Scope × Pattern) => butProp p sq.1 sq.2)
      (fun (sq : Scope × Pattern) => ({ p with scope := sq.1, pattern := sq.2 } : Property)) _ qs h
      (by intro sq _ b hb; exact (butProp_ok hb).1)
    rw [this, canonicalSpec, ← canonicalScopes_eq_spec, ← canonicalPatterns_eq_spec _ htrig]
    simp [List.map_flatMap, List.map_map, Function.comp_def]

/-- every copy in the spec keeps scope kind, terminator, pattern kind, time bounds and metadata -/
theorem canonicalSpec_fields (p q : Property) (h : q ∈ canonicalSpec p) :
    q.scope.kind = p.scope.kind ∧ q.scope.terminator = p.scope.terminator ∧ q.pattern.kind = p.pattern.kind ∧
    q.pattern.minTime = p.pattern.minTime ∧ q.pattern.maxTime = p.pattern.maxTime ∧ q.metadata = p.metadata := by
  unfold canonicalSpec at h
  obtain ⟨s, hs, h⟩ := List.mem_flatMap.1 h
  obtain ⟨pt, hpt, rfl⟩ := List.mem_map.1 h
  have h1 : s.kind = p.scope.kind ∧ s.terminator = p.scope.terminator := by
    obtain ⟨⟨k, a, t⟩, pat, md⟩ := p
    cases k <;> cases a <;> simp [scopeAlts] at hs
    all_goals first
      | (subst hs; exact ⟨rfl, rfl⟩)
      | (obtain ⟨e, _, rfl⟩ := hs; exact ⟨rfl, rfl⟩)
  have h2 : pt.kind = p.pattern.kind ∧ pt.minTime = p.pattern.minTime ∧ pt.maxTime = p.pattern.maxTime := by
    obtain ⟨sc, ⟨k, b, tg, mn, mx⟩, md⟩ := p
    cases k <;> cases tg <;> simp [patternAlts, splitEvent, withSplit, PatternKind.isSafety] at hpt
    all_goals first
      | (subst hpt; exact ⟨rfl, rfl, rfl⟩)
      | (obtain ⟨e, _, rfl⟩ := hpt; exact ⟨rfl, rfl, rfl⟩)
  exact ⟨h1.1, h1.2, h2.1, h2.2.1, h2.2.2, rfl⟩

/-- **C11**: existence behaviours, response behaviours, requirement/prevention triggers are never split -/
theorem canonicalSpec_unsplit (p q : Property) (h : q ∈ canonicalSpec p) :
    (p.pattern.kind.isSafety = true → q.pattern.trigger = p.pattern.trigger) ∧
    (p.pattern.kind.isSafety = false → q.pattern.behaviour = p.pattern.behaviour) ∧
    (p.pattern.kind = .existence → q.pattern = p.pattern) := by
  unfold canonicalSpec at h
  obtain ⟨s, _, h⟩ := List.mem_flatMap.1 h
  obtain ⟨pt, hpt, rfl⟩ := List.mem_map.1 h
  obtain ⟨sc, ⟨k, b, tg, mn, mx⟩, md⟩ := p
  cases k <;> cases tg <;> simp [patternAlts, splitEvent, withSplit, PatternKind.isSafety] at hpt ⊢
  all_goals first
    | (subst hpt; simp)
    | (obtain ⟨e, _, rfl⟩ := hpt; simp)

/-- the split positions of every output are simple events -/
theorem canonicalSpec_simple (p q : Property) (hsc : p.scope.kind.hasActivator = p.scope.activator.isSome)
    (h : q ∈ canonicalSpec p) :
    (∀ a, q.scope.activator = some a → a.isDisj = false) ∧ (∀ e, splitEvent q.pattern = some e → e.isDisj = false) := by
  unfold canonicalSpec at h
  obtain ⟨s, hs, h⟩ := List.mem_flatMap.1 h
  obtain ⟨pt, hpt, rfl⟩ := List.mem_map.1 h
  constructor
  · intro a ha
    simp only at ha
    obtain ⟨⟨k, act, t⟩, pat, md⟩ := p
    cases k <;> cases act <;> simp [ScopeKind.hasActivator] at hsc <;> simp [scopeAlts] at hs
    all_goals first
      | (subst hs; simp at ha)
      | (obtain ⟨e, he, rfl⟩ := hs; simp at ha; subst ha; exact simpleEvents_simple _ _ he)
  · intro e he
    simp only at he
    obtain ⟨sc, ⟨k, b, tg, mn, mx⟩, md⟩ := p
    cases k <;> cases tg <;> simp [patternAlts, splitEvent, withSplit, PatternKind.isSafety] at hpt
    all_goals first
      | (subst hpt; simp [splitEvent, PatternKind.isSafety] at he)
      | (obtain ⟨e', he', rfl⟩ := hpt
         simp [splitEvent, PatternKind.isSafety] at he
         subst he; exact simpleEvents_simple _ _ he')

/-- **C11**: applying `canonical_form` to any output returns just that output -/
theorem canonical_idempotent (p : Property) (qs : List Property)
    (hsc : p.scope.kind.hasActivator = p.scope.activator.isSome)
    (htrig : p.pattern.kind.hasTrigger = p.pattern.trigger.isSome)
    (h : canonical p = .ok qs) : ∀ q ∈ qs, canonical q = .ok [q] := by
  intro q hq
  rw [canonical_eq_spec p qs htrig h] at hq
  obtain ⟨h1, h2⟩ := canonicalSpec_simple p q hsc hq
  exact canonical_self q h1 h2

/-- the failing case: some copy of the product is rejected by the sanity check of `but()` -/
theorem canonical_error_is_sanity_of_copy (p : Property) (e : Err) (h : canonical p = .error e) :
    ∃ s ∈ canonicalScopes p.scope, ∃ q ∈ canonicalPatterns p.pattern, sanityCheck s q = .error e := by
  unfold canonical at h
  simp only at h
  split at h
  · cases h
  · have key : ∀ (l : List (Scope × Pattern)), l.mapM (fun sq => butProp p sq.1 sq.2) = .error e →
        ∃ sq ∈ l, sanityCheck sq.1 sq.2 = .error e := by
      intro l
      induction l with
      | nil => intro h; simp [List.mapM_nil, pure, Except.pure] at h
      | cons x xs ih =>
        intro h
        rw [List.mapM_cons] at h
        rcases bind_err h with h1 | ⟨b, hb, h⟩
        · unfold butProp at h1
          rcases bind_err h1 with h2 | ⟨_, _, h3⟩
          · exact ⟨x, List.mem_cons_self, h2⟩
          · cases h3
        · rcases bind_err h with h2 | ⟨_, _, h3⟩
          · obtain ⟨sq, hsq, hs⟩ := ih h2
            exact ⟨sq, List.mem_cons_of_mem _ hsq, hs⟩
          · cases h3
    obtain ⟨sq, hsq, hs⟩ := key _ h
    obtain ⟨s, hs1, hsq⟩ := List.mem_flatMap.1 hsq
    obtain ⟨q, hq1, rfl⟩ := List.mem_map.1 hsq
    exact ⟨s, hs1, q, hq1, hs⟩

/-! ## non-vacuity -/
def evS (n : String) : Event := .simple n none .vtrue
def exC11 : Property := ⟨⟨.after, some (.disj (evS "a") (evS "b")), none⟩, ⟨.absence, .disj (evS "c") (.disj (evS "d") (evS "e")), none, 0, some 2⟩, [("id", "p1")]⟩
example : (canonical exC11).toOption.map List.length = some 6 := by rfl
example : (canonical exC11).toOption = some (canonicalSpec exC11) := by rfl

end Hpl
