import Hpl.Spec.Trace
import Hpl.Props.C11
/-!
# C12 — splitting a pattern over event alternatives preserves trace semantics

Spec: `Hpl/Spec/Trace.lean` (`sat`, two readings of re-activation). Model: `canonical` (tied to the code by C11's stream).
The theorem holds for **all** finite timed traces (no length bound) and for every interpretation `holds` of predicates.
-/
namespace Hpl

section
variable (holds : Pred → TEnv → Msg → Bool)

theorem matchAll_simpleEvents (σ : TEnv) (m : Msg) (e : Event) :
    e.matchAll holds σ m = e.simpleEvents.flatMap (Event.matchAll holds σ m) := by
  induction e with
  | simple t a p => simp [Event.simpleEvents]
  | disj a b iha ihb => simp [Event.simpleEvents, Event.matchAll, iha, ihb, List.flatMap_append]

theorem matchAll_eq_nil_iff (σ : TEnv) (m : Msg) (e : Event) :
    e.matchAll holds σ m = [] ↔ ∀ a ∈ e.simpleEvents, a.matchAll holds σ m = [] := by
  rw [matchAll_simpleEvents]; simp [List.flatMap_eq_nil_iff]

theorem mem_matchAll_iff (σ σ' : TEnv) (m : Msg) (e : Event) :
    σ' ∈ e.matchAll holds σ m ↔ ∃ a ∈ e.simpleEvents, σ' ∈ a.matchAll holds σ m := by
  rw [matchAll_simpleEvents]; simp [List.mem_flatMap]

/-- splitting the split event of a pattern: the pattern holds on a segment iff every alternative's copy does -/
theorem satPattern_alts (σ : TEnv) (t0 : Rat) (seg : List Msg) (p : Pattern) :
    satPattern holds σ t0 seg p ↔ ∀ q ∈ patternAlts p, satPattern holds σ t0 seg q := by
  obtain ⟨kind, b, tg, mn, T⟩ := p
  cases kind <;> cases tg <;>
    simp only [patternAlts, splitEvent, withSplit, PatternKind.isSafety, satPattern, List.mem_map, List.mem_singleton,
      forall_exists_index, and_imp, forall_apply_eq_imp_iff₂, forall_eq, if_true, if_false,
      Bool.false_eq_true, implies_true]
  -- absence (both trigger cases)
  · constructor
    · intro h a ha m hm hw; exact (matchAll_eq_nil_iff holds σ m b).1 (h m hm hw) a ha
    · intro h m hm hw; exact (matchAll_eq_nil_iff holds σ m b).2 (fun a ha => h a ha m hm hw)
  · constructor
    · intro h a ha m hm hw; exact (matchAll_eq_nil_iff holds σ m b).1 (h m hm hw) a ha
    · intro h m hm hw; exact (matchAll_eq_nil_iff holds σ m b).2 (fun a ha => h a ha m hm hw)
  -- requirement: behaviour split
  · constructor
    · intro h a ha pre m post hs σ' hσ
      exact h pre m post hs σ' ((mem_matchAll_iff holds σ σ' m b).2 ⟨a, ha, hσ⟩)
    · intro h pre m post hs σ' hσ
      obtain ⟨a, ha, hσa⟩ := (mem_matchAll_iff holds σ σ' m b).1 hσ
      exact h a ha pre m post hs σ' hσa
  -- response: trigger split
  · rename_i tg
    constructor
    · intro h a ha pre m post hs σ' hσ
      exact h pre m post hs σ' ((mem_matchAll_iff holds σ σ' m tg).2 ⟨a, ha, hσ⟩)
    · intro h pre m post hs σ' hσ
      obtain ⟨a, ha, hσa⟩ := (mem_matchAll_iff holds σ σ' m tg).1 hσ
      exact h a ha pre m post hs σ' hσa
  -- prevention: behaviour split
  · constructor
    · intro h a ha pre m post hs σ' hσ m' hm' hw
      exact (matchAll_eq_nil_iff holds σ' m' b).1 (h pre m post hs σ' hσ m' hm' hw) a ha
    · intro h pre m post hs σ' hσ m' hm' hw
      exact (matchAll_eq_nil_iff holds σ' m' b).2 (fun a ha => h a ha pre m post hs σ' hσ m' hm' hw)

theorem scopeAlts_simple (s : Scope) (h : ∀ a, s.activator = some a → a.isDisj = false) : scopeAlts s = [s] := by
  rw [← canonicalScopes_eq_spec]; exact canonicalScopes_simple s h

/-- the decomposition of the statement preserves meaning, for every trace and both re-activation readings -/
theorem canonicalSpec_sat_iff (re : Bool) (tr : List Msg) (p : Property)
    (h : ∀ a, p.scope.activator = some a → a.isDisj = false) :
    sat holds re tr p ↔ ∀ q ∈ canonicalSpec p, sat holds re tr q := by
  simp only [canonicalSpec, scopeAlts_simple p.scope h, List.flatMap_cons, List.flatMap_nil,
    List.append_nil, List.mem_map, forall_exists_index, and_imp, forall_apply_eq_imp_iff₂, sat]
  constructor
  · intro hs q hq seg hseg
    exact (satPattern_alts holds seg.1 seg.2.1 seg.2.2 p.pattern).1 (hs seg hseg) q hq
  · intro hs seg hseg
    exact (satPattern_alts holds seg.1 seg.2.1 seg.2.2 p.pattern).2 (fun q hq => hs q hq seg hseg)

/-- **C12**: for every property whose activator is not a disjunction, a finite timed trace satisfies the property iff
    it satisfies every property of its canonical form -/
theorem canonical_sat_iff (re : Bool) (tr : List Msg) (p : Property) (qs : List Property)
    (hact : ∀ a, p.scope.activator = some a → a.isDisj = false)
    (htrig : p.pattern.kind.hasTrigger = p.pattern.trigger.isSome)
    (hc : canonical p = .ok qs) :
    sat holds re tr p ↔ ∀ q ∈ qs, sat holds re tr q := by
  rw [canonical_eq_spec p qs htrig hc]
  exact canonicalSpec_sat_iff holds re tr p hact

end

/-! ## the hypothesis and the choice of split position are necessary (each with a concrete trace) -/

def holdsAll : Pred → TEnv → Msg → Bool := fun _ _ _ => true
def evN (n : String) : Event := .simple n none .vtrue
def globalScope : Scope := ⟨.global, none, none⟩

/-- splitting the behaviour of `some (a or b)` would change the meaning: the trace [b] satisfies the disjunction, not `some a` -/
theorem existence_not_splittable :
    sat holdsAll false [⟨0, "b", 0⟩] ⟨globalScope, ⟨.existence, .disj (evN "a") (evN "b"), none, 0, none⟩, []⟩ ∧
    ¬ sat holdsAll false [⟨0, "b", 0⟩] ⟨globalScope, ⟨.existence, evN "a", none, 0, none⟩, []⟩ := by
  simp [sat, segments, satPattern, globalScope, evN, Event.matchAll, within, holdsAll]

/-- splitting the behaviour of `t causes (a or b)` would change the meaning -/
theorem response_behaviour_not_splittable :
    sat holdsAll false [⟨0, "t", 0⟩, ⟨1, "b", 0⟩] ⟨globalScope, ⟨.response, .disj (evN "a") (evN "b"), some (evN "t"), 0, none⟩, []⟩ ∧
    ¬ sat holdsAll false [⟨0, "t", 0⟩, ⟨1, "b", 0⟩] ⟨globalScope, ⟨.response, evN "a", some (evN "t"), 0, none⟩, []⟩ := by
  constructor
  · simp only [sat, segments, globalScope, List.mem_singleton, forall_eq, satPattern]
    intro pre m post hs σ' hσ
    rcases pre with _ | ⟨x, pre⟩
    · simp at hs; obtain ⟨rfl, rfl⟩ := hs
      exact ⟨⟨1, "b", 0⟩, by simp, trivial, by simp [evN, Event.matchAll, holdsAll]⟩
    · rcases pre with _ | ⟨y, pre⟩
      · simp at hs; obtain ⟨_, rfl, _⟩ := hs
        simp [evN, Event.matchAll, holdsAll] at hσ
      · simp at hs
  · simp only [sat, segments, globalScope, List.mem_singleton, forall_eq, satPattern]
    intro h
    obtain ⟨m', hm', _, hne⟩ := h [] ⟨0, "t", 0⟩ [⟨1, "b", 0⟩] rfl [] (by simp [evN, Event.matchAll, holdsAll])
    simp at hm'; subst hm'
    simp [evN, Event.matchAll, holdsAll] at hne

/-- non-vacuity of the theorem's hypotheses: a response property with a disjunctive trigger and a simple activator -/
def exC12 : Property := ⟨⟨.after, some (evN "s"), none⟩, ⟨.response, evN "r", some (.disj (evN "a") (evN "b")), 0, some 5⟩, []⟩
example : canonical exC12 = .ok (canonicalSpec exC12) ∧ (canonicalSpec exC12).length = 2 ∧
    (∀ a, exC12.scope.activator = some a → a.isDisj = false) := by
  refine ⟨by rfl, by rfl, ?_⟩
  intro a ha; simp [exC12] at ha; subst ha; rfl

end Hpl
