import Hpl.Model.Rewrite.Refactor
import Hpl.Spec.Eval
/-! # C13 — predicate combinators and reference substitutions are semantically exact (theorems: in progress) -/
namespace Hpl

/-- **C13**: the vacuous truth is the identity of `join`, the contradiction its annihilator -/
theorem join_identity_annihilator (p : Pred) :
    Pred.join .vtrue p = .ok p ∧ Pred.join .vfalse p = .ok .vfalse ∧
    (∀ e, p = .expr e → Pred.join p .vtrue = .ok p ∧ Pred.join p .vfalse = .ok .vfalse) := by
  refine ⟨rfl, rfl, ?_⟩
  rintro e rfl; exact ⟨rfl, rfl⟩

theorem negate_vacuous : Pred.negate .vtrue = .ok .vfalse ∧ Pred.negate .vfalse = .ok .vtrue := ⟨rfl, rfl⟩

end Hpl
