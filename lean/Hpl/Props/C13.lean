import Hpl.Props.C09
import Hpl.Lemmas.Refs
/-!
# C13 — predicate combinators and reference substitutions are semantically exact

Model: `Pred.negate`, `Pred.join`, `substE` (`replace`/`reshape`), `replaceThisWithVar*`, `replaceVarWithThis*`,
`mkSimpleEvent` (`Hpl/Model/Build.lean`, `Hpl/Model/Rewrite/Refactor.lean`). Spec: `eval` / `truth`.
-/
namespace Hpl
section
variable (opq : Opaque)

/-- truth value of a predicate (errors collapsed) -/
def predTruth (ρ : Env) : Pred → Option Bool
  | .expr e => truth opq ρ e
  | .vtrue => some true
  | .vfalse => some false

theorem predTruth_eq (ρ : Env) (p : Pred) : predTruth opq ρ p = (evalPred opq ρ p).toOption := by
  cases p <;> rfl

theorem mkPred_truth {e : Expr} {p : Pred} (h : mkPred e = .ok p) (ρ : Env) : predTruth opq ρ p = truth opq ρ e := by
  unfold mkPred at h
  obtain ⟨e', he', h⟩ := bind_ok h
  split at h
  · cases h
    simp only [predTruth, truth, castE_eval opq he']
  · cases h

/-- **C13**: `negate()` denotes logical negation -/
theorem negate_sem (p q : Pred) (h : p.negate = .ok q) (ρ : Env) :
    predTruth opq ρ q = (predTruth opq ρ p).map (!·) := by
  cases p with
  | vtrue => simp only [Pred.negate] at h; cases h; rfl
  | vfalse => simp only [Pred.negate] at h; cases h; rfl
  | expr e =>
    have general : ∀ n, mkNot e = .ok n → mkPred n = .ok q → predTruth opq ρ q = (predTruth opq ρ (.expr e)).map (!·) := by
      intro n hn hq
      rw [mkPred_truth opq hq, truth_of_like opq (mkNot_like opq hn), truth_not]; rfl
    cases e with
    | un t op a =>
      simp only [Pred.negate] at h
      split at h
      · rename_i hop
        have := beq_eq hop; subst this
        rw [mkPred_truth opq h]
        simp only [predTruth, truth_not]
        cases truth opq ρ a <;> simp
      · obtain ⟨n, hn, h⟩ := bind_ok h
        exact general n hn h
    | lit _ _ _ | this _ | var _ _ | set _ _ | range _ _ _ _ _ | quant _ _ _ _ _ | bin _ _ _ _ | call _ _ _
    | field _ _ _ | index _ _ _ =>
      simp only [Pred.negate] at h
      obtain ⟨n, hn, h⟩ := bind_ok h
      exact general n hn h

/-- **C13**: `join()` denotes conjunction wherever both operands are defined; the vacuous truth is its identity and the
    contradiction its annihilator -/
theorem join_sem (p q r : Pred) (h : p.join q = .ok r) (ρ : Env) (a b : Bool)
    (ha : predTruth opq ρ p = some a) (hb : predTruth opq ρ q = some b) : predTruth opq ρ r = some (a && b) := by
  cases p with
  | vtrue => simp only [Pred.join] at h; cases h; cases ha; simpa using hb
  | vfalse => simp only [Pred.join] at h; cases h; cases ha; rfl
  | expr e =>
    cases q with
    | vtrue => simp only [Pred.join] at h; cases h; cases hb; simpa using ha
    | vfalse => simp only [Pred.join] at h; cases h; cases hb; simp [predTruth]
    | expr e' =>
      simp only [Pred.join] at h
      obtain ⟨c, hc, h⟩ := bind_ok h
      rw [mkPred_truth opq h, truth_of_like opq (mkAnd_like opq hc), truth_and]
      simp only [predTruth] at ha hb
      rw [ha, hb]; rfl

theorem join_identity_annihilator (p : Pred) :
    Pred.join .vtrue p = .ok p ∧ Pred.join .vfalse p = .ok .vfalse ∧
    (∀ e, p = .expr e → Pred.join p .vtrue = .ok p ∧ Pred.join p .vfalse = .ok .vfalse) := by
  refine ⟨rfl, rfl, ?_⟩
  rintro e rfl; exact ⟨rfl, rfl⟩

theorem negate_vacuous : Pred.negate .vtrue = .ok .vfalse ∧ Pred.negate .vfalse = .ok .vtrue := ⟨rfl, rfl⟩


/-! ## substitutions -/
/-- no quantifier of the tree binds `x` (the alias is "not captured by a quantifier") -/
def NoBind (x : String) (e : Expr) : Prop := ∀ v ∈ e.preorder, bindsName x v = false
def NoBindL (x : String) (es : ExprList) : Prop := ∀ v ∈ es.preorder, bindsName x v = false

mutual
/-- where no quantifier binds the name, the capture-avoiding replacement of `@x` is the plain `replace` -/
theorem substV_eq_substE (x : String) (other : Expr) : ∀ (e : Expr), NoBind x e → substV x other e = substE (isVarNamed x) other e
  | .lit .., _ => by simp [substV, substE, isVarNamed]
  | .this .., _ => by simp [substV, substE, isVarNamed]
  | .var .., _ => by simp [substV, substE, isVarNamed]
  | .set t vs, hn => by
      simp only [substV, substE, isVarNamed, Bool.false_eq_true, ↓reduceIte]
      rw [substVL_eq_substL x other vs (fun v hv => hn v (by simp [Expr.preorder, hv]))]
  | .range t lo hi a b, hn => by
      simp only [substV, substE, isVarNamed, Bool.false_eq_true, ↓reduceIte]
      rw [substV_eq_substE x other lo (fun v hv => hn v (by simp [Expr.preorder, hv])),
          substV_eq_substE x other hi (fun v hv => hn v (by simp [Expr.preorder, hv]))]
  | .quant t q y d b, hn => by
      have hy : (y == x) = false := by
        have := hn (.quant t q y d b) (by simp [Expr.preorder])
        simp only [bindsName] at this
        cases hc : y == x with
        | false => rfl
        | true => have := eq_of_beq hc; subst this; simp at *
      simp only [substV, substE, isVarNamed, Bool.false_eq_true, ↓reduceIte, hy]
      rw [substV_eq_substE x other d (fun v hv => hn v (by simp [Expr.preorder, hv])),
          substV_eq_substE x other b (fun v hv => hn v (by simp [Expr.preorder, hv]))]
  | .un t op a, hn => by
      simp only [substV, substE, isVarNamed, Bool.false_eq_true, ↓reduceIte]
      rw [substV_eq_substE x other a (fun v hv => hn v (by simp [Expr.preorder, hv]))]
  | .bin t op a b, hn => by
      simp only [substV, substE, isVarNamed, Bool.false_eq_true, ↓reduceIte]
      rw [substV_eq_substE x other a (fun v hv => hn v (by simp [Expr.preorder, hv])),
          substV_eq_substE x other b (fun v hv => hn v (by simp [Expr.preorder, hv]))]
  | .call t f as, hn => by
      simp only [substV, substE, isVarNamed, Bool.false_eq_true, ↓reduceIte]
      rw [substVL_eq_substL x other as (fun v hv => hn v (by simp [Expr.preorder, hv]))]
  | .field t m n, hn => by
      simp only [substV, substE, isVarNamed, Bool.false_eq_true, ↓reduceIte]
      rw [substV_eq_substE x other m (fun v hv => hn v (by simp [Expr.preorder, hv]))]
  | .index t a i, hn => by
      simp only [substV, substE, isVarNamed, Bool.false_eq_true, ↓reduceIte]
      rw [substV_eq_substE x other a (fun v hv => hn v (by simp [Expr.preorder, hv])),
          substV_eq_substE x other i (fun v hv => hn v (by simp [Expr.preorder, hv]))]
theorem substVL_eq_substL (x : String) (other : Expr) : ∀ (es : ExprList), NoBindL x es → substVL x other es = substL (isVarNamed x) other es
  | .nil, _ => rfl
  | .cons e es, hn => by
      simp only [substVL, substL]
      rw [substV_eq_substE x other e (fun v hv => hn v (by simp [ExprList.preorder, hv])),
          substVL_eq_substL x other es (fun v hv => hn v (by simp [ExprList.preorder, hv]))]
end

theorem mkUn_eval' {op : String} {a e : Expr} (h : mkUn op a = .ok e) (ρ : Env) (t : DataType) :
    eval opq ρ e = eval opq ρ (.un t op a) := by rw [mkUn_eval opq h]; simp only [eval]
theorem mkBin_eval' {op : String} {a b e : Expr} (h : mkBin op a b = .ok e) (ρ : Env) (t : DataType) :
    eval opq ρ e = eval opq ρ (.bin t op a b) := by rw [mkBin_eval opq h]; simp only [eval]
theorem mkCall_eval' {f : String} {args : ExprList} {e : Expr} (h : mkCall f args = .ok e) (ρ : Env) (t : DataType) :
    eval opq ρ e = eval opq ρ (.call t f args) := by rw [mkCall_eval opq h]; simp only [eval]
theorem mkFieldT_eval {t : DataType} {m e : Expr} {n : String} (h : mkFieldT t m n = .ok e) (ρ : Env) :
    eval opq ρ e = eval opq ρ (.field t m n) := by
  unfold mkFieldT at h
  split at h
  · cases h
  · obtain ⟨m', hm', h⟩ := bind_ok h
    cases h; simp only [eval, castE_eval opq hm']
theorem mkIndexT_eval {t : DataType} {a i e : Expr} (h : mkIndexT t a i = .ok e) (ρ : Env) :
    eval opq ρ e = eval opq ρ (.index t a i) := by
  unfold mkIndexT at h
  split at h
  · cases h
  · obtain ⟨a', ha', h⟩ := bind_ok h
    obtain ⟨i', hi', h⟩ := bind_ok h
    cases h; simp only [eval, castE_eval opq ha', castE_eval opq hi']

section
variable (test : Expr → Bool) (other : Expr) (x : String) (Inv : Env → Prop)
  (hbind : ∀ ρ y v, Inv ρ → y ≠ x → Inv (ρ.bind y v))
  (hrep : ∀ ρ n, Inv ρ → test n = true → eval opq ρ other = eval opq ρ n)
include hbind hrep

mutual
/-- replacing every node satisfying `test` by `other` preserves the value under every valuation satisfying the invariant
    that makes `other` evaluate like the replaced nodes -/
theorem substE_sem : ∀ (e e' : Expr), substE test other e = .ok e' → NoBind x e → ∀ ρ, Inv ρ → eval opq ρ e' = eval opq ρ e
  | .lit t k v, e', h, _, ρ, hi => by
      simp only [substE] at h; cases h
      split
      · rename_i ht; exact hrep ρ _ hi ht
      · rfl
  | .this t, e', h, _, ρ, hi => by
      simp only [substE] at h; cases h
      split
      · rename_i ht; exact hrep ρ _ hi ht
      · rfl
  | .var t y, e', h, _, ρ, hi => by
      simp only [substE] at h; cases h
      split
      · rename_i ht; exact hrep ρ _ hi ht
      · rfl
  | .set t vs, e', h, hn, ρ, hi => by
      simp only [substE] at h
      split at h
      · rename_i ht; cases h; exact hrep ρ _ hi ht
      · obtain ⟨vs', hvs', h⟩ := bind_ok h
        have ih := substL_sem vs vs' hvs' (fun v hv => hn v (by simp [Expr.preorder, hv])) ρ hi
        split at h
        · cases h; rfl
        · obtain ⟨vs'', hvs'', h⟩ := bind_ok h
          cases h
          simp only [eval, castList_evalList opq hvs'', ih]
  | .range t lo hi a b, e', h, hn, ρ, hinv => by
      simp only [substE] at h
      split at h
      · rename_i ht; cases h; exact hrep ρ _ hinv ht
      · obtain ⟨lo', hlo', h⟩ := bind_ok h
        obtain ⟨hi', hhi', h⟩ := bind_ok h
        have ih1 := substE_sem lo lo' hlo' (fun v hv => hn v (by simp [Expr.preorder, hv])) ρ hinv
        have ih2 := substE_sem hi hi' hhi' (fun v hv => hn v (by simp [Expr.preorder, hv])) ρ hinv
        split at h
        · cases h; rfl
        · obtain ⟨lo'', hlo'', h⟩ := bind_ok h
          obtain ⟨hi'', hhi'', h⟩ := bind_ok h
          cases h
          simp only [eval, castE_eval opq hlo'', castE_eval opq hhi'', ih1, ih2]
  | .quant t q y d b, e', h, hn, ρ, hinv => by
      simp only [substE] at h
      split at h
      · rename_i ht; cases h; exact hrep ρ _ hinv ht
      · obtain ⟨d', hd', h⟩ := bind_ok h
        obtain ⟨b', hb', h⟩ := bind_ok h
        have hy : y ≠ x := by
          have := hn (.quant t q y d b) (by simp [Expr.preorder])
          intro hc; subst hc; simp [bindsName] at this
        have ih1 := substE_sem d d' hd' (fun v hv => hn v (by simp [Expr.preorder, hv])) ρ hinv
        have ih2 : ∀ w, eval opq (ρ.bind y w) b' = eval opq (ρ.bind y w) b := fun w =>
          substE_sem b b' hb' (fun v hv => hn v (by simp [Expr.preorder, hv])) (ρ.bind y w) (hbind ρ y w hinv hy)
        split at h
        · cases h; rfl
        · rw [mkQuant_eval opq h]
          simp only [eval, ih1, ih2]
  | .un t op a, e', h, hn, ρ, hinv => by
      simp only [substE] at h
      split at h
      · rename_i ht; cases h; exact hrep ρ _ hinv ht
      · obtain ⟨a', ha', h⟩ := bind_ok h
        have ih := substE_sem a a' ha' (fun v hv => hn v (by simp [Expr.preorder, hv])) ρ hinv
        split at h
        · cases h; rfl
        · rw [mkUn_eval' opq h ρ t]; simp only [eval, ih]
  | .bin t op a b, e', h, hn, ρ, hinv => by
      simp only [substE] at h
      split at h
      · rename_i ht; cases h; exact hrep ρ _ hinv ht
      · obtain ⟨a', ha', h⟩ := bind_ok h
        obtain ⟨b', hb', h⟩ := bind_ok h
        have ih1 := substE_sem a a' ha' (fun v hv => hn v (by simp [Expr.preorder, hv])) ρ hinv
        have ih2 := substE_sem b b' hb' (fun v hv => hn v (by simp [Expr.preorder, hv])) ρ hinv
        split at h
        · cases h; rfl
        · rw [mkBin_eval' opq h ρ t]; simp only [eval, ih1, ih2]
  | .call t f as, e', h, hn, ρ, hinv => by
      simp only [substE] at h
      split at h
      · rename_i ht; cases h; exact hrep ρ _ hinv ht
      · obtain ⟨as', has', h⟩ := bind_ok h
        have ih := substL_sem as as' has' (fun v hv => hn v (by simp [Expr.preorder, hv])) ρ hinv
        split at h
        · cases h; rfl
        · rw [mkCall_eval' opq h ρ t]; simp only [eval, ih]
  | .field t m n, e', h, hn, ρ, hinv => by
      simp only [substE] at h
      split at h
      · rename_i ht; cases h; exact hrep ρ _ hinv ht
      · obtain ⟨m', hm', h⟩ := bind_ok h
        have ih := substE_sem m m' hm' (fun v hv => hn v (by simp [Expr.preorder, hv])) ρ hinv
        split at h
        · cases h; rfl
        · rw [mkFieldT_eval opq h ρ]; simp only [eval, ih]
  | .index t a i, e', h, hn, ρ, hinv => by
      simp only [substE] at h
      split at h
      · rename_i ht; cases h; exact hrep ρ _ hinv ht
      · obtain ⟨a', ha', h⟩ := bind_ok h
        obtain ⟨i', hi', h⟩ := bind_ok h
        have ih1 := substE_sem a a' ha' (fun v hv => hn v (by simp [Expr.preorder, hv])) ρ hinv
        have ih2 := substE_sem i i' hi' (fun v hv => hn v (by simp [Expr.preorder, hv])) ρ hinv
        split at h
        · cases h; rfl
        · rw [mkIndexT_eval opq h ρ]; simp only [eval, ih1, ih2]
theorem substL_sem : ∀ (es es' : ExprList), substL test other es = .ok es' → NoBindL x es → ∀ ρ, Inv ρ →
    evalList opq ρ es' = evalList opq ρ es
  | .nil, es', h, _, ρ, _ => by simp only [substL] at h; cases h; rfl
  | .cons e es, es', h, hn, ρ, hinv => by
      simp only [substL] at h
      obtain ⟨e', he', h⟩ := bind_ok h
      obtain ⟨es'', hes', h⟩ := bind_ok h
      cases h
      simp only [evalList, substE_sem e e' he' (fun v hv => hn v (by simp [ExprList.preorder, hv])) ρ hinv,
        substL_sem es es'' hes' (fun v hv => hn v (by simp [ExprList.preorder, hv])) ρ hinv]
end
end

/-- the valuations in which the variable `x` is bound to the current message -/
def BoundToThis (x : String) (ρ : Env) : Prop := ∃ v, ρ.vars.lookup x = some v ∧ eval opq ρ (.var 0 x) = .ok ρ.this

theorem boundToThis_bind (x : String) (ρ : Env) (y : String) (v : Value) (h : BoundToThis opq x ρ) (hy : y ≠ x) :
    BoundToThis opq x (ρ.bind y v) := by
  obtain ⟨w, hw, he⟩ := h
  simp only [eval, lookupVar] at he
  rw [hw] at he
  refine ⟨w, ?_, ?_⟩
  · rw [lookup_bind]; simp [Ne.symm hy, hw]
  · simp only [eval, lookupVar]; rw [lookup_bind]; simp only [beq_iff_eq, Ne.symm hy, ↓reduceIte, hw]
    simpa [Env.bind] using he

/-- **C13**: replacing the current-message reference by a variable and evaluating with that variable bound to the message
    gives the original value (for a variable not captured by a quantifier) -/
theorem replaceThisWithVar_sem (e e' : Expr) (x : String) (h : replaceThisWithVarE e x = .ok e') (hn : NoBind x e)
    (ρ : Env) (hρ : BoundToThis opq x ρ) : eval opq ρ e' = eval opq ρ e := by
  unfold replaceThisWithVarE Expr.replaceSelf at h
  refine substE_sem opq isThis _ x (BoundToThis opq x) (fun ρ y v hi hy => boundToThis_bind opq x ρ y v hi hy) ?_ e e' h hn ρ hρ
  intro ρ' n hi ht
  cases n with
  | this t =>
    obtain ⟨w, hw, he⟩ := hi
    simp only [eval] at he ⊢
    exact he
  | _ => simp [isThis] at ht

/-- **C13**: symmetrically, replacing a variable by the current message -/
theorem replaceVarWithThis_sem (e e' : Expr) (x : String) (h : replaceVarWithThisE e x = .ok e') (hn : NoBind x e)
    (ρ : Env) (hρ : BoundToThis opq x ρ) : eval opq ρ e' = eval opq ρ e := by
  unfold replaceVarWithThisE Expr.replaceVar at h
  rw [substV_eq_substE x _ e hn] at h
  refine substE_sem opq (isVarNamed x) _ x (BoundToThis opq x) (fun ρ y v hi hy => boundToThis_bind opq x ρ y v hi hy) ?_ e e' h hn ρ hρ
  intro ρ' n hi ht
  cases n with
  | var t y =>
    have : x = y := by simpa [isVarNamed] using ht
    subst this
    obtain ⟨w, hw, he⟩ := hi
    simp only [eval] at he ⊢
    exact he.symm
  | _ => simp [isVarNamed] at ht


end

/-! ## the own alias of an event is rewritten away -/
theorem castList_containsRef : ∀ {t : DataType} {vs vs' : ExprList}, castList t vs = .ok vs' → ∀ a, vs'.containsRef a = vs.containsRef a
  | _, .nil, vs', h, a => by simp only [castList] at h; cases h; rfl
  | t, .cons e es, vs', h, a => by
      simp only [castList] at h
      obtain ⟨e', he', h⟩ := bind_ok h
      obtain ⟨es', hes', h⟩ := bind_ok h
      cases h
      simp only [ExprList.containsRef, castE_containsRef he', castList_containsRef hes']

theorem mkFieldT_containsRef {t : DataType} {m e : Expr} {n : String} (h : mkFieldT t m n = .ok e) (a : String) :
    e.containsRef a = m.containsRef a := by
  unfold mkFieldT at h
  split at h
  · cases h
  · obtain ⟨m', hm', h⟩ := bind_ok h
    cases h; simp only [Expr.containsRef, castE_containsRef hm']

theorem mkIndexT_containsRef {t : DataType} {x i e : Expr} (h : mkIndexT t x i = .ok e) (a : String) :
    e.containsRef a = (x.containsRef a || i.containsRef a) := by
  unfold mkIndexT at h
  split at h
  · cases h
  · obtain ⟨x', hx', h⟩ := bind_ok h
    obtain ⟨i', hi', h⟩ := bind_ok h
    cases h; simp only [Expr.containsRef, castE_containsRef hx', castE_containsRef hi']

mutual
/-- after replacing every `@a` by something that does not mention `a`, `a` no longer occurs -/
theorem substE_removes (a : String) (other : Expr) (ho : other.containsRef a = false) :
    ∀ (e e' : Expr), substE (isVarNamed a) other e = .ok e' → e'.containsRef a = false
  | .lit .., e', h => by simp only [substE, isVarNamed] at h; cases h; rfl
  | .this .., e', h => by simp only [substE, isVarNamed] at h; cases h; rfl
  | .var t y, e', h => by
      simp only [substE] at h; cases h
      split
      · exact ho
      · rename_i hne; simpa [Expr.containsRef, isVarNamed] using hne
  | .set t vs, e', h => by
      simp only [substE, isVarNamed] at h
      obtain ⟨vs', hvs', h⟩ := bind_ok h
      have ih := substL_removes a other ho vs vs' hvs'
      split at h
      · rename_i heq; cases h; simp only [Expr.containsRef]; rw [← heq]; exact ih
      · obtain ⟨vs'', hvs'', h⟩ := bind_ok h
        cases h; simp only [Expr.containsRef, castList_containsRef hvs'', ih]
  | .range t lo hi x y, e', h => by
      simp only [substE, isVarNamed] at h
      obtain ⟨lo', hlo', h⟩ := bind_ok h
      obtain ⟨hi', hhi', h⟩ := bind_ok h
      have ih1 := substE_removes a other ho lo lo' hlo'
      have ih2 := substE_removes a other ho hi hi' hhi'
      split at h
      · rename_i heq; cases h; simp only [Expr.containsRef]; rw [← heq.1, ← heq.2, ih1, ih2]; rfl
      · obtain ⟨lo'', hlo'', h⟩ := bind_ok h
        obtain ⟨hi'', hhi'', h⟩ := bind_ok h
        cases h; simp only [Expr.containsRef, castE_containsRef hlo'', castE_containsRef hhi'', ih1, ih2]; rfl
  | .quant t q y d b, e', h => by
      simp only [substE, isVarNamed] at h
      obtain ⟨d', hd', h⟩ := bind_ok h
      obtain ⟨b', hb', h⟩ := bind_ok h
      have ih1 := substE_removes a other ho d d' hd'
      have ih2 := substE_removes a other ho b b' hb'
      split at h
      · rename_i heq; cases h; simp only [Expr.containsRef]; rw [← heq.1, ← heq.2, ih1, ih2]; rfl
      · rw [mkQuant_containsRef h, ih1, ih2]; rfl
  | .un t op x, e', h => by
      simp only [substE, isVarNamed] at h
      obtain ⟨x', hx', h⟩ := bind_ok h
      have ih := substE_removes a other ho x x' hx'
      split at h
      · rename_i heq; cases h; simp only [Expr.containsRef]; rw [← heq]; exact ih
      · rw [mkUn_containsRef h, ih]
  | .bin t op x y, e', h => by
      simp only [substE, isVarNamed] at h
      obtain ⟨x', hx', h⟩ := bind_ok h
      obtain ⟨y', hy', h⟩ := bind_ok h
      have ih1 := substE_removes a other ho x x' hx'
      have ih2 := substE_removes a other ho y y' hy'
      split at h
      · rename_i heq; cases h; simp only [Expr.containsRef]; rw [← heq.1, ← heq.2, ih1, ih2]; rfl
      · rw [mkBin_containsRef h, ih1, ih2]; rfl
  | .call t f as, e', h => by
      simp only [substE, isVarNamed] at h
      obtain ⟨as', has', h⟩ := bind_ok h
      have ih := substL_removes a other ho as as' has'
      split at h
      · rename_i heq; cases h; simp only [Expr.containsRef]; rw [← heq]; exact ih
      · rw [mkCall_containsRef h, ih]
  | .field t m n, e', h => by
      simp only [substE, isVarNamed] at h
      obtain ⟨m', hm', h⟩ := bind_ok h
      have ih := substE_removes a other ho m m' hm'
      split at h
      · rename_i heq; cases h; simp only [Expr.containsRef]; rw [← heq]; exact ih
      · rw [mkFieldT_containsRef h, ih]
  | .index t x i, e', h => by
      simp only [substE, isVarNamed] at h
      obtain ⟨x', hx', h⟩ := bind_ok h
      obtain ⟨i', hi', h⟩ := bind_ok h
      have ih1 := substE_removes a other ho x x' hx'
      have ih2 := substE_removes a other ho i i' hi'
      split at h
      · rename_i heq; cases h; simp only [Expr.containsRef]; rw [← heq.1, ← heq.2, ih1, ih2]; rfl
      · rw [mkIndexT_containsRef h, ih1, ih2]; rfl
theorem substL_removes (a : String) (other : Expr) (ho : other.containsRef a = false) :
    ∀ (es es' : ExprList), substL (isVarNamed a) other es = .ok es' → es'.containsRef a = false
  | .nil, es', h => by simp only [substL] at h; cases h; rfl
  | .cons e es, es', h => by
      simp only [substL] at h
      obtain ⟨e', he', h⟩ := bind_ok h
      obtain ⟨es'', hes', h⟩ := bind_ok h
      cases h
      simp only [ExprList.containsRef, substE_removes a other ho e e' he', substL_removes a other ho es es'' hes']; rfl
end

theorem mkPred_containsRef {e : Expr} {p : Pred} (h : mkPred e = .ok p) (a : String) : p.containsRef a = e.containsRef a := by
  unfold mkPred at h
  obtain ⟨e', he', h⟩ := bind_ok h
  split at h
  · cases h; simp only [Pred.containsRef, castE_containsRef he']
  · cases h

/-- **C13**: an event `t as A {f}` stores `f` with `@A` rewritten to the message itself: the stored predicate never
    mentions `A` (where no quantifier of `f` binds the name `A`: such occurrences are bound variables and stay), and `A` is not among
    the event's external references -/
theorem event_alias_normalised (n a : String) (p : Pred) (ev : Event) (ha : a ≠ "")
    (hn : ∀ e, p = .expr e → NoBind a e) (h : mkSimpleEvent n (some a) p = .ok ev) :
    ∃ p', ev = .simple n (some a) p' ∧ p'.containsRef a = false ∧ a ∉ ev.freeRefs := by
  unfold mkSimpleEvent at h
  simp only [ha, ne_eq, not_false_eq_true, ↓reduceIte] at h
  obtain ⟨p', hp', h⟩ := bind_ok h
  cases h
  refine ⟨p', rfl, ?_, by simp [Event.freeRefs]⟩
  cases p with
  | vtrue => simp only [Pred.replaceVar] at hp'; cases hp'; rfl
  | vfalse => simp only [Pred.replaceVar] at hp'; cases hp'; rfl
  | expr e =>
    simp only [Pred.replaceVar, Expr.replaceVar] at hp'
    obtain ⟨e', he', hp'⟩ := bind_ok hp'
    rw [substV_eq_substE a _ e (hn e rfl)] at he'
    have hrem := substE_removes a (.this T.MESSAGE) rfl e e' he'
    split at hp'
    · rename_i heq; cases hp'; simp only [Pred.containsRef]; rw [← heq]; exact hrem
    · rw [mkPred_containsRef hp']; exact hrem

section
variable (opq : Opaque)
/-- ... and it means the same as writing the fields directly: under every valuation binding `A` to the current message the
    stored predicate has the truth value of the written one -/
theorem event_alias_sem (n a : String) (e : Expr) (ev : Event) (ha : a ≠ "") (hn : NoBind a e)
    (h : mkSimpleEvent n (some a) (.expr e) = .ok ev) (ρ : Env) (hρ : BoundToThis opq a ρ) :
    ∃ p', ev = .simple n (some a) p' ∧ predTruth opq ρ p' = truth opq ρ e := by
  unfold mkSimpleEvent at h
  simp only [ha, ne_eq, not_false_eq_true, ↓reduceIte] at h
  obtain ⟨p', hp', h⟩ := bind_ok h
  cases h
  refine ⟨p', rfl, ?_⟩
  simp only [Pred.replaceVar] at hp'
  obtain ⟨e', he', hp'⟩ := bind_ok hp'
  have hs := replaceVarWithThis_sem opq e e' a he' hn ρ hρ
  split at hp'
  · cases hp'; rfl
  · rw [mkPred_truth opq hp']; unfold truth; rw [hs]
end

-- non-vacuity: `t as A {@A.x > x}` is stored as `{x > x}`
example : mkSimpleEvent "t" (some "A") (.expr (.bin T.BOOL ">" (.field T.NUMBER (.var T.MESSAGE "A") "x") (.field T.NUMBER (.this T.MESSAGE) "x"))) =
    .ok (.simple "t" (some "A") (.expr (.bin T.BOOL ">" (.field T.NUMBER (.this T.MESSAGE) "x") (.field T.NUMBER (.this T.MESSAGE) "x")))) := by rfl

end Hpl
