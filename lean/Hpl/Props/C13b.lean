import Hpl.Props.C13
import Hpl.Props.C16
import Hpl.Props.C04
/-!
# C13 — replacing the current message by a variable and back gives the original tree

`Ren A e e1`: `e1` is `e` with every `this` leaf replaced by a variable `@A` (at any type set), everything else identical.
`subst_back`: substituting `@A` by the current message in such an `e1` returns exactly `e`, provided `e` is well typed,
its quantifiers are hygienic and `A` does not occur in it ("the alias is not otherwise used").
-/
namespace Hpl

mutual
def Ren (A : String) : Expr → Expr → Prop
  | .this _, e1 => ∃ ty, e1 = .var ty A
  | e@(.lit ..), e1 => e1 = e
  | e@(.var ..), e1 => e1 = e
  | .set t vs, e1 => ∃ vs1, e1 = .set t vs1 ∧ RenL A vs vs1
  | .range t lo hi a b, e1 => ∃ lo1 hi1, e1 = .range t lo1 hi1 a b ∧ Ren A lo lo1 ∧ Ren A hi hi1
  | .quant t q x d b, e1 => ∃ d1 b1, e1 = .quant t q x d1 b1 ∧ Ren A d d1 ∧ Ren A b b1
  | .un t op a, e1 => ∃ a1, e1 = .un t op a1 ∧ Ren A a a1
  | .bin t op a b, e1 => ∃ a1 b1, e1 = .bin t op a1 b1 ∧ Ren A a a1 ∧ Ren A b b1
  | .call t f as, e1 => ∃ as1, e1 = .call t f as1 ∧ RenL A as as1
  | .field t m n, e1 => ∃ m1, e1 = .field t m1 n ∧ Ren A m m1
  | .index t a i, e1 => ∃ a1 i1, e1 = .index t a1 i1 ∧ Ren A a a1 ∧ Ren A i i1
def RenL (A : String) : ExprList → ExprList → Prop
  | .nil, es1 => es1 = .nil
  | .cons e es, es1 => ∃ e1 es1', es1 = .cons e1 es1' ∧ Ren A e e1 ∧ RenL A es es1'
end

mutual
/-- `A` is not used in the tree: no variable occurrence and no quantifier carries that name -/
def NoName (A : String) : Expr → Prop
  | .lit .. | .this _ => True
  | .var _ x => x ≠ A
  | .set _ vs => NoNameL A vs
  | .range _ lo hi _ _ => NoName A lo ∧ NoName A hi
  | .quant _ _ x d b => x ≠ A ∧ NoName A d ∧ NoName A b
  | .un _ _ a => NoName A a
  | .bin _ _ a b => NoName A a ∧ NoName A b
  | .call _ _ as => NoNameL A as
  | .field _ m _ => NoName A m
  | .index _ a i => NoName A a ∧ NoName A i
def NoNameL (A : String) : ExprList → Prop
  | .nil => True
  | .cons e es => NoName A e ∧ NoNameL A es
end

mutual
/-- every quantifier of the tree passes the constructor's own checks when re-entered with its own parts -/
def Rebuildable : Expr → Prop
  | .lit .. | .this _ | .var .. => True
  | .set _ vs => RebuildableL vs
  | .range _ lo hi _ _ => Rebuildable lo ∧ Rebuildable hi
  | .quant t q x d b => mkQuant q x d b = .ok (.quant t q x d b) ∧ Rebuildable d ∧ Rebuildable b
  | .un _ _ a => Rebuildable a
  | .bin _ _ a b => Rebuildable a ∧ Rebuildable b
  | .call t f as => mkCall f as = .ok (.call t f as) ∧ RebuildableL as
  | .field _ m _ => Rebuildable m
  | .index _ a i => Rebuildable a ∧ Rebuildable i
def RebuildableL : ExprList → Prop
  | .nil => True
  | .cons e es => Rebuildable e ∧ RebuildableL es
end

theorem WTSet_members : ∀ (vs : ExprList), WTSet vs → ∀ e ∈ vs.toList, sub e.ty T.PRIMITIVE ∧ e.ty ≠ 0
  | .nil, _, e, he => by simp [ExprList.toList] at he
  | .cons v vs, h, e, he => by
      simp only [WTSet] at h
      simp only [ExprList.toList, List.mem_cons] at he
      rcases he with rfl | he
      · exact ⟨h.2.1, WT_ne _ h.1⟩
      · exact WTSet_members vs h.2.2 e he

theorem WTSet_WT : ∀ (vs : ExprList), WTSet vs → WTList vs
  | .nil, _ => trivial
  | .cons v vs, h => by simp only [WTSet] at h; exact ⟨h.1, WTSet_WT vs h.2.2⟩

mutual
/-- **C13**: substituting the variable back by the current message restores the original tree -/
theorem subst_back (A : String) : ∀ (e e1 : Expr), Ren A e e1 → WT e → Rebuildable e → NoName A e →
    substE (isVarNamed A) (.this T.MESSAGE) e1 = .ok e
  | .this t, e1, hr, hw, _, _ => by
      simp only [Ren] at hr; obtain ⟨ty, rfl⟩ := hr
      have : t = T.MESSAGE := hw
      subst this
      simp [substE, isVarNamed]
  | .lit t k v, e1, hr, _, _, _ => by simp only [Ren] at hr; subst hr; simp [substE, isVarNamed]
  | .var t x, e1, hr, _, _, hn => by
      simp only [Ren] at hr; subst hr
      simp only [NoName] at hn
      have : (A == x) = false := by simp [beq_eq_false_iff_ne]; exact fun h => hn h.symm
      simp [substE, isVarNamed, this]
  | .set t vs, e1, hr, hw, hb, hn => by
      simp only [Ren] at hr; obtain ⟨vs1, rfl, hrl⟩ := hr
      simp only [NoName] at hn
      simp only [Rebuildable] at hb
      have ih := substL_back A vs vs1 hrl (WTSet_WT vs hw.2) hb hn
      simp only [substE, isVarNamed, Bool.false_eq_true, ↓reduceIte, ih, bind, Except.bind]
      split
      · rename_i heq; subst heq; rfl
      · rw [castList_stable T.PRIMITIVE vs (WTSet_members vs hw.2)]; rfl
  | .range t lo hi a b, e1, hr, hw, hb, hn => by
      simp only [Ren] at hr; obtain ⟨lo1, hi1, rfl, h1, h2⟩ := hr
      simp only [NoName] at hn
      simp only [Rebuildable] at hb
      obtain ⟨rfl, hwl, hwh, hsl, hsh⟩ := hw
      have ih1 := subst_back A lo lo1 h1 hwl hb.1 hn.1
      have ih2 := subst_back A hi hi1 h2 hwh hb.2 hn.2
      simp only [substE, isVarNamed, Bool.false_eq_true, ↓reduceIte, ih1, ih2, bind, Except.bind]
      split
      · rename_i heq; obtain ⟨rfl, rfl⟩ := heq; rfl
      · rw [castE_stable hsl (WT_ne lo hwl), castE_stable hsh (WT_ne hi hwh)]; rfl
  | .quant t q x d b, e1, hr, hw, hb, hn => by
      simp only [Ren] at hr; obtain ⟨d1, b1, rfl, h1, h2⟩ := hr
      simp only [NoName] at hn
      simp only [Rebuildable] at hb
      have ih1 := subst_back A d d1 h1 hw.2.1 hb.2.1 hn.2.1
      have ih2 := subst_back A b b1 h2 hw.2.2.1 hb.2.2 hn.2.2
      simp only [substE, isVarNamed, Bool.false_eq_true, ↓reduceIte, ih1, ih2, bind, Except.bind]
      split
      · rename_i heq; obtain ⟨rfl, rfl⟩ := heq; rfl
      · exact hb.1
  | .un t op a, e1, hr, hw, hb, hn => by
      simp only [Ren] at hr; obtain ⟨a1, rfl, h1⟩ := hr
      simp only [NoName] at hn
      simp only [Rebuildable] at hb
      have hwa : WT a := by obtain ⟨d, _, _, hwa, _⟩ := hw; exact hwa
      have ih1 := subst_back A a a1 h1 hwa hb hn
      simp only [substE, isVarNamed, Bool.false_eq_true, ↓reduceIte, ih1, bind, Except.bind]
      split
      · rename_i heq; subst heq; rfl
      · exact rebuild_stable_un t op a hw
  | .bin t op a b, e1, hr, hw, hb, hn => by
      simp only [Ren] at hr; obtain ⟨a1, b1, rfl, h1, h2⟩ := hr
      simp only [NoName] at hn
      simp only [Rebuildable] at hb
      have hwab : WT a ∧ WT b := by obtain ⟨d, _, _, hwa, hwb, _⟩ := hw; exact ⟨hwa, hwb⟩
      have ih1 := subst_back A a a1 h1 hwab.1 hb.1 hn.1
      have ih2 := subst_back A b b1 h2 hwab.2 hb.2 hn.2
      simp only [substE, isVarNamed, Bool.false_eq_true, ↓reduceIte, ih1, ih2, bind, Except.bind]
      split
      · rename_i heq; obtain ⟨rfl, rfl⟩ := heq; rfl
      · exact rebuild_stable_bin t op a b hw
  | .call t f as, e1, hr, hw, hb, hn => by
      simp only [Ren] at hr; obtain ⟨as1, rfl, hrl⟩ := hr
      simp only [NoName] at hn
      simp only [Rebuildable] at hb
      have hwl : WTList as := by obtain ⟨d, _, _, hwl, _⟩ := hw; exact hwl
      have ih := substL_back A as as1 hrl hwl hb.2 hn
      simp only [substE, isVarNamed, Bool.false_eq_true, ↓reduceIte, ih, bind, Except.bind]
      split
      · rename_i heq; subst heq; rfl
      · exact hb.1
  | .field t m n, e1, hr, hw, hb, hn => by
      simp only [Ren] at hr; obtain ⟨m1, rfl, h1⟩ := hr
      simp only [NoName] at hn
      simp only [Rebuildable] at hb
      have ih1 := subst_back A m m1 h1 hw.2.2.1 hb hn
      simp only [substE, isVarNamed, Bool.false_eq_true, ↓reduceIte, ih1, bind, Except.bind]
      split
      · rename_i heq; subst heq; rfl
      · exact rebuild_stable_field t m n hw
  | .index t a i, e1, hr, hw, hb, hn => by
      simp only [Ren] at hr; obtain ⟨a1, i1, rfl, h1, h2⟩ := hr
      simp only [NoName] at hn
      simp only [Rebuildable] at hb
      have ih1 := subst_back A a a1 h1 hw.2.2.1 hb.1 hn.1
      have ih2 := subst_back A i i1 h2 hw.2.2.2.1 hb.2 hn.2
      simp only [substE, isVarNamed, Bool.false_eq_true, ↓reduceIte, ih1, ih2, bind, Except.bind]
      split
      · rename_i heq; obtain ⟨rfl, rfl⟩ := heq; rfl
      · exact rebuild_stable_index t a i hw
theorem substL_back (A : String) : ∀ (es es1 : ExprList), RenL A es es1 → WTList es → RebuildableL es → NoNameL A es →
    substL (isVarNamed A) (.this T.MESSAGE) es1 = .ok es
  | .nil, es1, hr, _, _, _ => by simp only [RenL] at hr; subst hr; rfl
  | .cons e es, es1, hr, hw, hb, hn => by
      simp only [RenL] at hr; obtain ⟨e1, es1', rfl, h1, h2⟩ := hr
      simp only [WTList] at hw
      simp only [RebuildableL] at hb
      simp only [NoNameL] at hn
      simp [substL, subst_back A e e1 h1 hw.1 hb.1 hn.1, substL_back A es es1' h2 hw.2 hb.2 hn.2, bind, Except.bind, pure, Except.pure]
end

end Hpl

namespace Hpl

mutual
/-- a renaming of a tree that does not use the name `A` has no quantifier binding `A` -/
theorem ren_noBind (A : String) : ∀ (e e1 : Expr), Ren A e e1 → NoName A e → NoBind A e1
  | .this _, e1, hr, _ => by
      simp only [Ren] at hr; obtain ⟨ty, rfl⟩ := hr
      intro v hv; simp only [Expr.preorder, List.mem_singleton] at hv; subst hv; rfl
  | .lit .., e1, hr, _ => by
      simp only [Ren] at hr; subst hr
      intro v hv; simp only [Expr.preorder, List.mem_singleton] at hv; subst hv; rfl
  | .var .., e1, hr, _ => by
      simp only [Ren] at hr; subst hr
      intro v hv; simp only [Expr.preorder, List.mem_singleton] at hv; subst hv; rfl
  | .set t vs, e1, hr, hn => by
      simp only [Ren] at hr; obtain ⟨vs1, rfl, hl⟩ := hr
      simp only [NoName] at hn
      intro v hv; simp only [Expr.preorder, List.mem_cons] at hv
      rcases hv with rfl | hv
      · rfl
      · exact renL_noBind A vs vs1 hl hn v hv
  | .range t lo hi a b, e1, hr, hn => by
      simp only [Ren] at hr; obtain ⟨l1, h1, rfl, hl, hh⟩ := hr
      simp only [NoName] at hn
      intro v hv; simp only [Expr.preorder, List.mem_cons, List.mem_append] at hv
      rcases hv with rfl | hv | hv
      · rfl
      · exact ren_noBind A lo l1 hl hn.1 v hv
      · exact ren_noBind A hi h1 hh hn.2 v hv
  | .quant t q x d b, e1, hr, hn => by
      simp only [Ren] at hr; obtain ⟨d1, b1, rfl, hd, hb⟩ := hr
      simp only [NoName] at hn
      intro v hv; simp only [Expr.preorder, List.mem_cons, List.mem_append] at hv
      rcases hv with rfl | hv | hv
      · simp only [bindsName]; simp [beq_eq_false_iff_ne]; exact fun h => hn.1 h.symm
      · exact ren_noBind A d d1 hd hn.2.1 v hv
      · exact ren_noBind A b b1 hb hn.2.2 v hv
  | .un t op a, e1, hr, hn => by
      simp only [Ren] at hr; obtain ⟨a1, rfl, ha⟩ := hr
      simp only [NoName] at hn
      intro v hv; simp only [Expr.preorder, List.mem_cons] at hv
      rcases hv with rfl | hv
      · rfl
      · exact ren_noBind A a a1 ha hn v hv
  | .bin t op a b, e1, hr, hn => by
      simp only [Ren] at hr; obtain ⟨a1, b1, rfl, ha, hb⟩ := hr
      simp only [NoName] at hn
      intro v hv; simp only [Expr.preorder, List.mem_cons, List.mem_append] at hv
      rcases hv with rfl | hv | hv
      · rfl
      · exact ren_noBind A a a1 ha hn.1 v hv
      · exact ren_noBind A b b1 hb hn.2 v hv
  | .call t f as, e1, hr, hn => by
      simp only [Ren] at hr; obtain ⟨as1, rfl, hl⟩ := hr
      simp only [NoName] at hn
      intro v hv; simp only [Expr.preorder, List.mem_cons] at hv
      rcases hv with rfl | hv
      · rfl
      · exact renL_noBind A as as1 hl hn v hv
  | .field t m n, e1, hr, hn => by
      simp only [Ren] at hr; obtain ⟨m1, rfl, hm⟩ := hr
      simp only [NoName] at hn
      intro v hv; simp only [Expr.preorder, List.mem_cons] at hv
      rcases hv with rfl | hv
      · rfl
      · exact ren_noBind A m m1 hm hn v hv
  | .index t a i, e1, hr, hn => by
      simp only [Ren] at hr; obtain ⟨a1, i1, rfl, ha, hi⟩ := hr
      simp only [NoName] at hn
      intro v hv; simp only [Expr.preorder, List.mem_cons, List.mem_append] at hv
      rcases hv with rfl | hv | hv
      · rfl
      · exact ren_noBind A a a1 ha hn.1 v hv
      · exact ren_noBind A i i1 hi hn.2 v hv
theorem renL_noBind (A : String) : ∀ (es es1 : ExprList), RenL A es es1 → NoNameL A es → NoBindL A es1
  | .nil, es1, hr, _ => by simp only [RenL] at hr; subst hr; intro v hv; simp [ExprList.preorder] at hv
  | .cons e es, es1, hr, hn => by
      simp only [RenL] at hr; obtain ⟨e1, es1', rfl, he, hes⟩ := hr
      simp only [NoNameL] at hn
      intro v hv; simp only [ExprList.preorder, List.mem_append] at hv
      rcases hv with hv | hv
      · exact ren_noBind A e e1 he hn.1 v hv
      · exact renL_noBind A es es1' hes hn.2 v hv
end

/-- **C13**: `replace_var_with_this(·, A)` undoes a renaming of the current message to `@A` (`Ren`), for a well-typed tree
    in which `A` is not otherwise used. (That `replace_this_with_var(e, A)` produces such a renaming is checked by the
    stream on every generated tree; it is not proved here.) -/
theorem replaceVarWithThis_undoes (A : String) (e e1 : Expr) (hr : Ren A e e1) (hw : WT e) (hb : Rebuildable e) (hn : NoName A e) :
    replaceVarWithThisE e1 A = .ok e := by
  unfold replaceVarWithThisE Expr.replaceVar
  rw [substV_eq_substE A _ e1 (ren_noBind A e e1 hr hn)]
  exact subst_back A e e1 hr hw hb hn

-- non-vacuity: `x > 0` (x a field of the current message) renamed to `@A.x > 0`
example : replaceVarWithThisE (.bin T.BOOL ">" (.field T.NUMBER (.var T.MESSAGE "A") "x") (.lit T.NUMBER "0" (.int 0))) "A"
    = .ok (.bin T.BOOL ">" (.field T.NUMBER (.this T.MESSAGE) "x") (.lit T.NUMBER "0" (.int 0))) := by rfl

end Hpl
