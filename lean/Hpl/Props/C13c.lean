import Hpl.Props.C13b
/-!
# C13 — `replace_this_with_var` produces a renaming, and `replace_var_with_this` undoes it

`RenM A e e1`: `e1` is `e` with every `this` leaf replaced by `@A` at a type set that still contains MESSAGE (what the constructors
leave of the fresh variable's ITEM), everything else identical. `subst_fwd`: on a well-typed tree whose quantifiers and calls pass
their constructors, which does not use the name `A`, and in which the current message occurs only as the message of a field access
(all the grammar can write), `replace_this_with_var(·, A)` succeeds and returns such a renaming; with `subst_back` (C13b) the two
replacements undo each other.
-/
namespace Hpl

mutual
def RenM (A : String) : Expr → Expr → Prop
  | .this _, e1 => ∃ ty, e1 = .var ty A ∧ sub T.MESSAGE ty
  | e@(.lit ..), e1 => e1 = e
  | e@(.var ..), e1 => e1 = e
  | .set t vs, e1 => ∃ vs1, e1 = .set t vs1 ∧ RenML A vs vs1
  | .range t lo hi a b, e1 => ∃ lo1 hi1, e1 = .range t lo1 hi1 a b ∧ RenM A lo lo1 ∧ RenM A hi hi1
  | .quant t q x d b, e1 => ∃ d1 b1, e1 = .quant t q x d1 b1 ∧ RenM A d d1 ∧ RenM A b b1
  | .un t op a, e1 => ∃ a1, e1 = .un t op a1 ∧ RenM A a a1
  | .bin t op a b, e1 => ∃ a1 b1, e1 = .bin t op a1 b1 ∧ RenM A a a1 ∧ RenM A b b1
  | .call t f as, e1 => ∃ as1, e1 = .call t f as1 ∧ RenML A as as1
  | .field t m n, e1 => ∃ m1, e1 = .field t m1 n ∧ RenM A m m1
  | .index t a i, e1 => ∃ a1 i1, e1 = .index t a1 i1 ∧ RenM A a a1 ∧ RenM A i i1
def RenML (A : String) : ExprList → ExprList → Prop
  | .nil, es1 => es1 = .nil
  | .cons e es, es1 => ∃ e1 es1', es1 = .cons e1 es1' ∧ RenM A e e1 ∧ RenML A es es1'
end

mutual
theorem RenM.ren (A : String) : ∀ (e e1 : Expr), RenM A e e1 → Ren A e e1
  | .this _, e1, h => by simp only [RenM] at h; obtain ⟨ty, rfl, _⟩ := h; simp [Ren]
  | .lit .., e1, h => by simp only [RenM] at h; simp only [Ren]; exact h
  | .var .., e1, h => by simp only [RenM] at h; simp only [Ren]; exact h
  | .set t vs, e1, h => by simp only [RenM] at h; obtain ⟨vs1, rfl, hl⟩ := h; simp only [Ren]; exact ⟨vs1, rfl, RenML.ren A vs vs1 hl⟩
  | .range t lo hi a b, e1, h => by
      simp only [RenM] at h; obtain ⟨l1, h1, rfl, hl, hh⟩ := h; simp only [Ren]; exact ⟨l1, h1, rfl, RenM.ren A lo l1 hl, RenM.ren A hi h1 hh⟩
  | .quant t q x d b, e1, h => by
      simp only [RenM] at h; obtain ⟨d1, b1, rfl, hd, hb⟩ := h; simp only [Ren]; exact ⟨d1, b1, rfl, RenM.ren A d d1 hd, RenM.ren A b b1 hb⟩
  | .un t op a, e1, h => by simp only [RenM] at h; obtain ⟨a1, rfl, ha⟩ := h; simp only [Ren]; exact ⟨a1, rfl, RenM.ren A a a1 ha⟩
  | .bin t op a b, e1, h => by
      simp only [RenM] at h; obtain ⟨a1, b1, rfl, ha, hb⟩ := h; simp only [Ren]; exact ⟨a1, b1, rfl, RenM.ren A a a1 ha, RenM.ren A b b1 hb⟩
  | .call t f as, e1, h => by simp only [RenM] at h; obtain ⟨as1, rfl, hl⟩ := h; simp only [Ren]; exact ⟨as1, rfl, RenML.ren A as as1 hl⟩
  | .field t m n, e1, h => by simp only [RenM] at h; obtain ⟨m1, rfl, hm⟩ := h; simp only [Ren]; exact ⟨m1, rfl, RenM.ren A m m1 hm⟩
  | .index t a i, e1, h => by
      simp only [RenM] at h; obtain ⟨a1, i1, rfl, ha, hi⟩ := h; simp only [Ren]; exact ⟨a1, i1, rfl, RenM.ren A a a1 ha, RenM.ren A i i1 hi⟩
theorem RenML.ren (A : String) : ∀ (es es1 : ExprList), RenML A es es1 → RenL A es es1
  | .nil, es1, h => by simp only [RenML] at h; simp only [RenL]; exact h
  | .cons e es, es1, h => by
      simp only [RenML] at h; obtain ⟨e1, es1', rfl, he, hes⟩ := h
      simp only [RenL]; exact ⟨e1, es1', rfl, RenM.ren A e e1 he, RenML.ren A es es1' hes⟩
end

def Expr.isThisB : Expr → Bool | .this _ => true | _ => false

mutual
/-- the current message occurs only as the message of a field access -/
def NoBareThis : Expr → Prop
  | .this _ => False
  | .lit .. | .var .. => True
  | .set _ vs => NoBareThisL vs
  | .range _ lo hi _ _ => NoBareThis lo ∧ NoBareThis hi
  | .quant _ _ _ d b => NoBareThis d ∧ NoBareThis b
  | .un _ _ a => NoBareThis a
  | .bin _ _ a b => NoBareThis a ∧ NoBareThis b
  | .call _ _ as => NoBareThisL as
  | .field _ m _ => m.isThisB = true ∨ NoBareThis m
  | .index _ a i => NoBareThis a ∧ NoBareThis i
def NoBareThisL : ExprList → Prop
  | .nil => True
  | .cons e es => NoBareThis e ∧ NoBareThisL es
end

theorem renM_ty {A : String} {e e1 : Expr} (h : RenM A e e1) (hn : e.isThisB = false) : e1.ty = e.ty := by
  cases e with
  | this t => simp [Expr.isThisB] at hn
  | lit t k v => simp only [RenM] at h; subst h; rfl
  | var t x => simp only [RenM] at h; subst h; rfl
  | set t vs => simp only [RenM] at h; obtain ⟨_, rfl, _⟩ := h; rfl
  | range t lo hi a b => simp only [RenM] at h; obtain ⟨_, _, rfl, _⟩ := h; rfl
  | quant t q x d b => simp only [RenM] at h; obtain ⟨_, _, rfl, _⟩ := h; rfl
  | un t op a => simp only [RenM] at h; obtain ⟨_, rfl, _⟩ := h; rfl
  | bin t op a b => simp only [RenM] at h; obtain ⟨_, _, rfl, _⟩ := h; rfl
  | call t f as => simp only [RenM] at h; obtain ⟨_, rfl, _⟩ := h; rfl
  | field t m n => simp only [RenM] at h; obtain ⟨_, rfl, _⟩ := h; rfl
  | index t a i => simp only [RenM] at h; obtain ⟨_, _, rfl, _⟩ := h; rfl

theorem noBare_notThis {e : Expr} (h : NoBareThis e) : e.isThisB = false := by
  cases e <;> simp_all [NoBareThis, Expr.isThisB]

end Hpl

namespace Hpl

inductive All2 {α β : Type} (R : α → β → Prop) : List α → List β → Prop
  | nil : All2 R [] []
  | cons {a b l m} : R a b → All2 R l m → All2 R (a :: l) (b :: m)

theorem forall₂_append {α β : Type} {R : α → β → Prop} : ∀ {l1 : List α} {m1 : List β} {l2 : List α} {m2 : List β},
    All2 R l1 m1 → All2 R l2 m2 → All2 R (l1 ++ l2) (m1 ++ m2)
  | _, _, _, _, .nil, h2 => h2
  | _, _, _, _, .cons h t, h2 => .cons h (forall₂_append t h2)

mutual
theorem renM_preorder (A : String) : ∀ (e e1 : Expr), RenM A e e1 → All2 (RenM A) e.preorder e1.preorder
  | .this t, e1, h => by
      have h' := h
      simp only [RenM] at h; obtain ⟨ty, rfl, _⟩ := h
      simp only [Expr.preorder]; exact .cons h' .nil
  | .lit t k v, e1, h => by
      have h' := h
      simp only [RenM] at h; subst h
      simp only [Expr.preorder]; exact .cons h' .nil
  | .var t x, e1, h => by
      have h' := h
      simp only [RenM] at h; subst h
      simp only [Expr.preorder]; exact .cons h' .nil
  | .set t vs, e1, h => by
      have h' := h
      simp only [RenM] at h; obtain ⟨vs1, rfl, hl⟩ := h
      simp only [Expr.preorder]; exact .cons h' (renML_preorder A vs vs1 hl)
  | .range t lo hi a b, e1, h => by
      have h' := h
      simp only [RenM] at h; obtain ⟨l1, h1, rfl, hl, hh⟩ := h
      simp only [Expr.preorder]; exact .cons h' (forall₂_append (renM_preorder A lo l1 hl) (renM_preorder A hi h1 hh))
  | .quant t q x d b, e1, h => by
      have h' := h
      simp only [RenM] at h; obtain ⟨d1, b1, rfl, hd, hb⟩ := h
      simp only [Expr.preorder]; exact .cons h' (forall₂_append (renM_preorder A d d1 hd) (renM_preorder A b b1 hb))
  | .un t op a, e1, h => by
      have h' := h
      simp only [RenM] at h; obtain ⟨a1, rfl, ha⟩ := h
      simp only [Expr.preorder]; exact .cons h' (renM_preorder A a a1 ha)
  | .bin t op a b, e1, h => by
      have h' := h
      simp only [RenM] at h; obtain ⟨a1, b1, rfl, ha, hb⟩ := h
      simp only [Expr.preorder]; exact .cons h' (forall₂_append (renM_preorder A a a1 ha) (renM_preorder A b b1 hb))
  | .call t f as, e1, h => by
      have h' := h
      simp only [RenM] at h; obtain ⟨as1, rfl, hl⟩ := h
      simp only [Expr.preorder]; exact .cons h' (renML_preorder A as as1 hl)
  | .field t m n, e1, h => by
      have h' := h
      simp only [RenM] at h; obtain ⟨m1, rfl, hm⟩ := h
      simp only [Expr.preorder]; exact .cons h' (renM_preorder A m m1 hm)
  | .index t a i, e1, h => by
      have h' := h
      simp only [RenM] at h; obtain ⟨a1, i1, rfl, ha, hi⟩ := h
      simp only [Expr.preorder]; exact .cons h' (forall₂_append (renM_preorder A a a1 ha) (renM_preorder A i i1 hi))
theorem renML_preorder (A : String) : ∀ (es es1 : ExprList), RenML A es es1 → All2 (RenM A) es.preorder es1.preorder
  | .nil, es1, h => by simp only [RenML] at h; subst h; simp only [ExprList.preorder]; exact .nil
  | .cons e es, es1, h => by
      simp only [RenML] at h; obtain ⟨e1, es1', rfl, he, hes⟩ := h
      simp only [ExprList.preorder]; exact forall₂_append (renM_preorder A e e1 he) (renML_preorder A es es1' hes)
end

/-- the body check of a quantifier over `x ≠ A` does not see the renaming -/
theorem quantBodyCheck_ren {A x : String} (hx : x ≠ A) (t : DataType) : ∀ {l l1 : List Expr}, All2 (RenM A) l l1 → ∀ n,
    quantBodyCheck x t l1 n = quantBodyCheck x t l n
  | _, _, .nil, n => rfl
  | e :: l, e1 :: l1, .cons h hl, n => by
      have ih := fun m => quantBodyCheck_ren hx t hl m
      cases e with
      | this ty =>
        simp only [RenM] at h; obtain ⟨ty', rfl, _⟩ := h
        have : (A == x) = false := by simp [beq_eq_false_iff_ne]; exact fun h => hx h.symm
        simp [quantBodyCheck, this, ih]
      | lit ty k v => simp only [RenM] at h; subst h; simp [quantBodyCheck, ih]
      | var ty y => simp only [RenM] at h; subst h; simp only [quantBodyCheck]; split <;> (try split) <;> simp [ih]
      | set ty vs => simp only [RenM] at h; obtain ⟨_, rfl, _⟩ := h; simp [quantBodyCheck, ih]
      | range ty lo hi a b => simp only [RenM] at h; obtain ⟨_, _, rfl, _⟩ := h; simp [quantBodyCheck, ih]
      | quant ty q y d b => simp only [RenM] at h; obtain ⟨_, _, rfl, _⟩ := h; simp only [quantBodyCheck]; split <;> simp [ih]
      | un ty op a => simp only [RenM] at h; obtain ⟨_, rfl, _⟩ := h; simp [quantBodyCheck, ih]
      | bin ty op a b => simp only [RenM] at h; obtain ⟨_, _, rfl, _⟩ := h; simp [quantBodyCheck, ih]
      | call ty f as => simp only [RenM] at h; obtain ⟨_, rfl, _⟩ := h; simp [quantBodyCheck, ih]
      | field ty m nm => simp only [RenM] at h; obtain ⟨_, rfl, _⟩ := h; simp [quantBodyCheck, ih]
      | index ty a i => simp only [RenM] at h; obtain ⟨_, _, rfl, _⟩ := h; simp [quantBodyCheck, ih]

theorem any_varNamed_ren {A x : String} (hx : x ≠ A) : ∀ {l l1 : List Expr}, All2 (RenM A) l l1 →
    l1.any (isVarNamed x) = l.any (isVarNamed x)
  | _, _, .nil => rfl
  | e :: l, e1 :: l1, .cons h hl => by
      have ih := any_varNamed_ren hx hl
      have : isVarNamed x e1 = isVarNamed x e := by
        cases e with
        | this ty =>
          simp only [RenM] at h; obtain ⟨ty', rfl, _⟩ := h
          simp [isVarNamed, hx]
        | lit ty k v => simp only [RenM] at h; subst h; rfl
        | var ty y => simp only [RenM] at h; subst h; rfl
        | set ty vs => simp only [RenM] at h; obtain ⟨_, rfl, _⟩ := h; rfl
        | range ty lo hi a b => simp only [RenM] at h; obtain ⟨_, _, rfl, _⟩ := h; rfl
        | quant ty q y d b => simp only [RenM] at h; obtain ⟨_, _, rfl, _⟩ := h; rfl
        | un ty op a => simp only [RenM] at h; obtain ⟨_, rfl, _⟩ := h; rfl
        | bin ty op a b => simp only [RenM] at h; obtain ⟨_, _, rfl, _⟩ := h; rfl
        | call ty f as => simp only [RenM] at h; obtain ⟨_, rfl, _⟩ := h; rfl
        | field ty m nm => simp only [RenM] at h; obtain ⟨_, rfl, _⟩ := h; rfl
        | index ty a i => simp only [RenM] at h; obtain ⟨_, _, rfl, _⟩ := h; rfl
      simp [List.any_cons, this, ih]

theorem renML_tys {A : String} : ∀ (es es1 : ExprList), RenML A es es1 → NoBareThisL es → es1.tys = es.tys ∧ es1.length = es.length
  | .nil, es1, h, _ => by simp only [RenML] at h; subst h; exact ⟨rfl, rfl⟩
  | .cons e es, es1, h, hn => by
      simp only [RenML] at h; obtain ⟨e1, es1', rfl, he, hes⟩ := h
      simp only [NoBareThisL] at hn
      have := renML_tys es es1' hes hn.2
      simp [ExprList.tys, ExprList.length, renM_ty he (noBare_notThis hn.1), this.1, this.2]

theorem domainElemType_ren {A : String} {d d1 : Expr} (h : RenM A d d1) (hn : NoBareThis d) : domainElemType d1 = domainElemType d := by
  cases d with
  | this t => simp [NoBareThis] at hn
  | lit t k v => simp only [RenM] at h; subst h; rfl
  | var t x => simp only [RenM] at h; subst h; rfl
  | set t vs =>
    simp only [RenM] at h; obtain ⟨vs1, rfl, hl⟩ := h
    simp only [NoBareThis] at hn
    simp only [domainElemType, (renML_tys vs vs1 hl hn).1]
  | range t lo hi a b => simp only [RenM] at h; obtain ⟨_, _, rfl, _⟩ := h; rfl
  | quant t q x d b => simp only [RenM] at h; obtain ⟨_, _, rfl, _⟩ := h; rfl
  | un t op a => simp only [RenM] at h; obtain ⟨_, rfl, _⟩ := h; rfl
  | bin t op a b => simp only [RenM] at h; obtain ⟨_, _, rfl, _⟩ := h; rfl
  | call t f as => simp only [RenM] at h; obtain ⟨_, rfl, _⟩ := h; rfl
  | field t m n => simp only [RenM] at h; obtain ⟨_, rfl, _⟩ := h; rfl
  | index t a i => simp only [RenM] at h; obtain ⟨_, _, rfl, _⟩ := h; rfl

end Hpl

namespace Hpl

theorem castE_congr {a a1 : Expr} {t : DataType} (hty : a1.ty = a.ty) (h : castE a t = .ok a) : castE a1 t = .ok a1 := by
  unfold castE at h ⊢
  simp only at h ⊢
  split at h
  · cases h
  · rename_i hne
    have hr : a.ty &&& t = a.ty := by
      split at h
      · assumption
      · have := congrArg Expr.ty (Except.ok.inj h); simpa using this
    rw [hty, if_neg hne, if_pos hr]

theorem tys_nil {es : ExprList} (h : es.tys = []) : es = .nil := by cases es <;> simp_all [ExprList.tys]

theorem castArgs_congr : ∀ (args as1 : ExprList) (ps : List DataType), as1.tys = args.tys → castArgs args ps = .ok args → castArgs as1 ps = .ok as1
  | .nil, as1, ps, ht, _ => by
      have := tys_nil (by simpa [ExprList.tys] using ht); subst this
      cases ps <;> rfl
  | .cons a args, as1, [], _, h => by simp [castArgs] at h
  | .cons a args, as1, p :: ps, ht, h => by
      cases as1 with
      | nil => simp [ExprList.tys] at ht
      | cons a1 as1' =>
        simp only [ExprList.tys, List.cons.injEq] at ht
        simp only [castArgs, bind, Except.bind, pure, Except.pure] at h ⊢
        split at h
        · cases h
        · rename_i a' ha
          split at h
          · cases h
          · rename_i as' has
            have := Except.ok.inj h
            simp only [ExprList.cons.injEq] at this
            obtain ⟨h1, h2⟩ := this
            rw [h1] at ha; rw [h2] at has
            rw [castE_congr ht.1 ha, castArgs_congr args as1' ps ht.2 has]

theorem mkCall_congr {f : String} {as as1 : ExprList} {t : DataType} (htys : as1.tys = as.tys) (hlen : as1.length = as.length)
    (h : mkCall f as = .ok (.call t f as)) : mkCall f as1 = .ok (.call t f as1) := by
  unfold mkCall at h ⊢
  rw [htys, hlen]
  split at h
  · cases h
  · rename_i d hd
    generalize List.filter (fun x => x.accepts as.tys) d.overloads = L at h ⊢
    match L, h with
    | [], h => cases h
    | [s], h =>
        simp only [bind, Except.bind, pure, Except.pure] at h ⊢
        split at h
        · cases h
        · rename_i as' has
          have := Except.ok.inj h
          simp only [Expr.call.injEq] at this
          obtain ⟨ht, _, has'⟩ := this
          rw [has'] at has
          rw [castArgs_congr _ as1 _ htys has, ht]
    | _ :: _ :: _, h =>
        have := Except.ok.inj h
        simp only [Expr.call.injEq] at this
        rw [this.1]

theorem mkQuant_congr {q : Quant} {x : String} {d b d1 b1 : Expr} {t : DataType}
    (hd : castE d T.COMPOUND = .ok d) (hb : castE b T.BOOL = .ok b) (hd1 : castE d1 T.COMPOUND = .ok d1) (hb1 : castE b1 T.BOOL = .ok b1)
    (hany : d1.preorder.any (isVarNamed x) = d.preorder.any (isVarNamed x))
    (hq : quantBodyCheck x (domainElemType d1) b1.preorder 0 = quantBodyCheck x (domainElemType d) b.preorder 0)
    (h : mkQuant q x d b = .ok (.quant t q x d b)) : mkQuant q x d1 b1 = .ok (.quant t q x d1 b1) := by
  unfold mkQuant at h ⊢
  simp only [hd, hb, hd1, hb1, bind, Except.bind, hany, hq] at h ⊢
  generalize d.preorder.any (isVarNamed x) = c at h ⊢
  generalize quantBodyCheck x (domainElemType d) b.preorder 0 = r at h ⊢
  cases c with
  | true => simp at h
  | false =>
    cases r with
    | error _ => simp at h
    | ok u =>
      by_cases hu : u = 0
      · simp [hu] at h
      · simp only [Bool.false_eq_true, if_false, hu, pure, Except.pure] at h ⊢
        have := Except.ok.inj h
        simp only [Expr.quant.injEq] at this
        rw [this.1]

end Hpl

namespace Hpl

theorem renML_members {A : String} (P : DataType → Prop) : ∀ (es es1 : ExprList), RenML A es es1 → NoBareThisL es →
    (∀ e ∈ es.toList, P e.ty) → ∀ e1 ∈ es1.toList, P e1.ty
  | .nil, es1, h, _, _ => by simp only [RenML] at h; subst h; simp [ExprList.toList]
  | .cons e es, es1, h, hn, hp => by
      simp only [RenML] at h; obtain ⟨e1, es1', rfl, he, hes⟩ := h
      simp only [NoBareThisL] at hn
      intro x hx
      simp only [ExprList.toList, List.mem_cons] at hx
      rcases hx with rfl | hx
      · rw [renM_ty he (noBare_notThis hn.1)]; exact hp e (by simp [ExprList.toList])
      · exact renML_members P es es1' hes hn.2 (fun y hy => hp y (by simp [ExprList.toList, hy])) x hx

theorem isThis_false_of {e : Expr} (h : e.isThisB = false) : isThis e = false := by cases e <;> simp_all [Expr.isThisB, isThis]

theorem cast_item_message (A : String) : castE (.var T.ITEM A) T.MESSAGE = .ok (.var T.MESSAGE A) := by
  have h1 : (T.ITEM &&& T.MESSAGE) = T.MESSAGE := by decide
  have h2 : ¬ (T.MESSAGE = 0) := by decide
  have h3 : ¬ (T.MESSAGE = T.ITEM) := by decide
  unfold castE
  simp only [Expr.ty, Expr.withTy, h1, h2, h3, if_false]

/-- a field access on anything but the bare current message, given the renaming of its message -/
theorem fieldCase (A : String) (t : DataType) (m : Expr) (n : String) (hw : WT (.field t m n)) (hm : m.isThisB = false)
    (ih : ∃ m1, substE isThis (.var T.ITEM A) m = .ok m1 ∧ RenM A m m1) :
    ∃ e1, substE isThis (.var T.ITEM A) (.field t m n) = .ok e1 ∧ RenM A (.field t m n) e1 := by
  obtain ⟨m1, hs1, hr1⟩ := ih
  obtain ⟨hne, hsub, hwm, hsm⟩ := hw
  have e1 := renM_ty hr1 hm
  have hacc : T.ACCESS &&& t ≠ 0 := by
    intro hz; apply hne; unfold sub at hsub; rw [← hsub, Nat.and_comm]; exact hz
  simp only [substE, isThis, Bool.false_eq_true, ↓reduceIte, hs1, bind, Except.bind]
  split
  · rename_i heq; subst heq; exact ⟨_, rfl, by simp only [RenM]; exact ⟨_, rfl, hr1⟩⟩
  · rw [mkField_stable hacc (by rw [e1]; exact hsm) (by rw [e1]; exact WT_ne m hwm)]
    exact ⟨_, rfl, by simp only [RenM]; exact ⟨_, rfl, hr1⟩⟩

mutual
/-- **C13, forward**: `replace_this_with_var(e, A)` succeeds and returns `e` with the current message renamed to `@A` -/
theorem subst_fwd (A : String) : ∀ (e : Expr), WT e → Rebuildable e → NoName A e → NoBareThis e →
    ∃ e1, substE isThis (.var T.ITEM A) e = .ok e1 ∧ RenM A e e1
  | .this t, _, _, _, hb => by simp [NoBareThis] at hb
  | .lit t k v, _, _, _, _ => ⟨.lit t k v, by simp [substE, isThis], by simp [RenM]⟩
  | .var t x, _, _, _, _ => ⟨.var t x, by simp [substE, isThis], by simp [RenM]⟩
  | .set t vs, hw, hb, hn, ht => by
      simp only [NoName] at hn; simp only [Rebuildable] at hb; simp only [NoBareThis] at ht
      obtain ⟨vs1, hs, hr⟩ := substL_fwd A vs (WTSet_WT vs hw.2) hb hn ht
      simp only [substE, isThis, Bool.false_eq_true, ↓reduceIte, hs, bind, Except.bind]
      split
      · rename_i heq; subst heq; exact ⟨_, rfl, by simp only [RenM]; exact ⟨vs1, rfl, hr⟩⟩
      · have hm := renML_members (fun ty => sub ty T.PRIMITIVE ∧ ty ≠ 0) vs vs1 hr ht (WTSet_members vs hw.2)
        rw [castList_stable T.PRIMITIVE vs1 hm]
        exact ⟨_, rfl, by simp only [RenM]; exact ⟨vs1, rfl, hr⟩⟩
  | .range t lo hi a b, hw, hb, hn, ht => by
      simp only [NoName] at hn; simp only [Rebuildable] at hb; simp only [NoBareThis] at ht
      obtain ⟨rfl, hwl, hwh, hsl, hsh⟩ := hw
      obtain ⟨l1, hs1, hr1⟩ := subst_fwd A lo hwl hb.1 hn.1 ht.1
      obtain ⟨h1, hs2, hr2⟩ := subst_fwd A hi hwh hb.2 hn.2 ht.2
      have e1 := renM_ty hr1 (noBare_notThis ht.1)
      have e2 := renM_ty hr2 (noBare_notThis ht.2)
      simp only [substE, isThis, Bool.false_eq_true, ↓reduceIte, hs1, hs2, bind, Except.bind]
      split
      · rename_i heq; obtain ⟨rfl, rfl⟩ := heq; exact ⟨_, rfl, by simp only [RenM]; exact ⟨_, _, rfl, hr1, hr2⟩⟩
      · rw [castE_stable (by rw [e1]; exact hsl) (by rw [e1]; exact WT_ne lo hwl), castE_stable (by rw [e2]; exact hsh) (by rw [e2]; exact WT_ne hi hwh)]
        exact ⟨_, rfl, by simp only [RenM]; exact ⟨_, _, rfl, hr1, hr2⟩⟩
  | .quant t q x d b, hw, hb, hn, ht => by
      simp only [NoName] at hn; simp only [Rebuildable] at hb; simp only [NoBareThis] at ht
      obtain ⟨d1, hs1, hr1⟩ := subst_fwd A d hw.2.1 hb.2.1 hn.2.1 ht.1
      obtain ⟨b1, hs2, hr2⟩ := subst_fwd A b hw.2.2.1 hb.2.2 hn.2.2 ht.2
      have e1 := renM_ty hr1 (noBare_notThis ht.1)
      have e2 := renM_ty hr2 (noBare_notThis ht.2)
      simp only [substE, isThis, Bool.false_eq_true, ↓reduceIte, hs1, hs2, bind, Except.bind]
      split
      · rename_i heq; obtain ⟨rfl, rfl⟩ := heq; exact ⟨_, rfl, by simp only [RenM]; exact ⟨_, _, rfl, hr1, hr2⟩⟩
      · have hd := castE_stable hw.2.2.2.1 (WT_ne d hw.2.1)
        have hbb := castE_stable hw.2.2.2.2.1 (WT_ne b hw.2.2.1)
        have hd1 : castE d1 T.COMPOUND = .ok d1 := castE_stable (by rw [e1]; exact hw.2.2.2.1) (by rw [e1]; exact WT_ne d hw.2.1)
        have hb1 : castE b1 T.BOOL = .ok b1 := castE_stable (by rw [e2]; exact hw.2.2.2.2.1) (by rw [e2]; exact WT_ne b hw.2.2.1)
        have hany := any_varNamed_ren hn.1 (renM_preorder A d d1 hr1)
        have hq := quantBodyCheck_ren hn.1 (domainElemType d1) (renM_preorder A b b1 hr2) 0
        rw [domainElemType_ren hr1 ht.1] at hq
        rw [mkQuant_congr hd hbb hd1 hb1 hany (by rw [domainElemType_ren hr1 ht.1]; exact hq) hb.1]
        exact ⟨_, rfl, by simp only [RenM]; exact ⟨_, _, rfl, hr1, hr2⟩⟩
  | .un t op a, hw, hb, hn, ht => by
      simp only [NoName] at hn; simp only [Rebuildable] at hb; simp only [NoBareThis] at ht
      obtain ⟨dd, hd, rfl, hwa, hsa⟩ := hw
      obtain ⟨a1, hs1, hr1⟩ := subst_fwd A a hwa hb hn ht
      have e1 := renM_ty hr1 (noBare_notThis ht)
      simp only [substE, isThis, Bool.false_eq_true, ↓reduceIte, hs1, bind, Except.bind]
      split
      · rename_i heq; subst heq; exact ⟨_, rfl, by simp only [RenM]; exact ⟨_, rfl, hr1⟩⟩
      · rw [mkUn_stable hd (by rw [e1]; exact hsa) (by rw [e1]; exact WT_ne a hwa)]
        exact ⟨_, rfl, by simp only [RenM]; exact ⟨_, rfl, hr1⟩⟩
  | .bin t op a b, hw, hb, hn, ht => by
      simp only [NoName] at hn; simp only [Rebuildable] at hb; simp only [NoBareThis] at ht
      obtain ⟨dd, hd, rfl, hwa, hwb, hsa, hsb, heq⟩ := hw
      obtain ⟨a1, hs1, hr1⟩ := subst_fwd A a hwa hb.1 hn.1 ht.1
      obtain ⟨b1, hs2, hr2⟩ := subst_fwd A b hwb hb.2 hn.2 ht.2
      have e1 := renM_ty hr1 (noBare_notThis ht.1)
      have e2 := renM_ty hr2 (noBare_notThis ht.2)
      simp only [substE, isThis, Bool.false_eq_true, ↓reduceIte, hs1, hs2, bind, Except.bind]
      split
      · rename_i heq'; obtain ⟨rfl, rfl⟩ := heq'; exact ⟨_, rfl, by simp only [RenM]; exact ⟨_, _, rfl, hr1, hr2⟩⟩
      · rw [mkBin_stable hd (by rw [e1]; exact hsa) (by rw [e2]; exact hsb) (by rw [e1, e2]; exact heq) (by rw [e1]; exact WT_ne a hwa)
          (by rw [e2]; exact WT_ne b hwb)]
        exact ⟨_, rfl, by simp only [RenM]; exact ⟨_, _, rfl, hr1, hr2⟩⟩
  | .call t f as, hw, hb, hn, ht => by
      simp only [NoName] at hn; simp only [Rebuildable] at hb; simp only [NoBareThis] at ht
      have hwl : WTList as := by obtain ⟨d, _, _, hwl, _⟩ := hw; exact hwl
      obtain ⟨as1, hs, hr⟩ := substL_fwd A as hwl hb.2 hn ht
      simp only [substE, isThis, Bool.false_eq_true, ↓reduceIte, hs, bind, Except.bind]
      split
      · rename_i heq; subst heq; exact ⟨_, rfl, by simp only [RenM]; exact ⟨_, rfl, hr⟩⟩
      · have := renML_tys as as1 hr ht
        rw [mkCall_congr this.1 this.2 hb.1]
        exact ⟨_, rfl, by simp only [RenM]; exact ⟨_, rfl, hr⟩⟩
  | .field t (.this t') n, hw, _, _, _ => by
      have hacc : T.ACCESS &&& t ≠ 0 := by
        intro hz; apply hw.1
        have := hw.2.1; unfold sub at this; rw [← this, Nat.and_comm]; exact hz
      refine ⟨.field t (.var T.MESSAGE A) n, ?_, by simp only [RenM]; exact ⟨_, rfl, _, rfl, sub_refl _⟩⟩
      simp only [substE, isThis, Bool.false_eq_true, ↓reduceIte, bind, Except.bind, pure, Except.pure]
      have hc := cast_item_message A
      simp [mkFieldT, hacc, hc, bind, Except.bind, pure, Except.pure]
  | .field t (.lit a b c) n, hw, hb, hn, ht => fieldCase A t _ n hw (by simp [Expr.isThisB]) (subst_fwd A _ hw.2.2.1 hb hn (by simpa [NoBareThis, Expr.isThisB] using ht))
  | .field t (.var a b) n, hw, hb, hn, ht => fieldCase A t _ n hw (by simp [Expr.isThisB]) (subst_fwd A _ hw.2.2.1 hb hn (by simpa [NoBareThis, Expr.isThisB] using ht))
  | .field t (.set a b) n, hw, hb, hn, ht => fieldCase A t _ n hw (by simp [Expr.isThisB]) (subst_fwd A _ hw.2.2.1 hb hn (by simpa [NoBareThis, Expr.isThisB] using ht))
  | .field t (.range a b c d e) n, hw, hb, hn, ht => fieldCase A t _ n hw (by simp [Expr.isThisB]) (subst_fwd A _ hw.2.2.1 hb hn (by simpa [NoBareThis, Expr.isThisB] using ht))
  | .field t (.quant a b c d e) n, hw, hb, hn, ht => fieldCase A t _ n hw (by simp [Expr.isThisB]) (subst_fwd A _ hw.2.2.1 hb hn (by simpa [NoBareThis, Expr.isThisB] using ht))
  | .field t (.un a b c) n, hw, hb, hn, ht => fieldCase A t _ n hw (by simp [Expr.isThisB]) (subst_fwd A _ hw.2.2.1 hb hn (by simpa [NoBareThis, Expr.isThisB] using ht))
  | .field t (.bin a b c d) n, hw, hb, hn, ht => fieldCase A t _ n hw (by simp [Expr.isThisB]) (subst_fwd A _ hw.2.2.1 hb hn (by simpa [NoBareThis, Expr.isThisB] using ht))
  | .field t (.call a b c) n, hw, hb, hn, ht => fieldCase A t _ n hw (by simp [Expr.isThisB]) (subst_fwd A _ hw.2.2.1 hb hn (by simpa [NoBareThis, Expr.isThisB] using ht))
  | .field t (.field a b c) n, hw, hb, hn, ht => fieldCase A t _ n hw (by simp [Expr.isThisB]) (subst_fwd A _ hw.2.2.1 hb hn (by simpa [NoBareThis, Expr.isThisB] using ht))
  | .field t (.index a b c) n, hw, hb, hn, ht => fieldCase A t _ n hw (by simp [Expr.isThisB]) (subst_fwd A _ hw.2.2.1 hb hn (by simpa [NoBareThis, Expr.isThisB] using ht))
  | .index t a i, hw, hb, hn, ht => by
      simp only [NoName] at hn; simp only [Rebuildable] at hb; simp only [NoBareThis] at ht
      obtain ⟨hne, hsub, hwa, hwi, hsa, hsi⟩ := hw
      obtain ⟨a1, hs1, hr1⟩ := subst_fwd A a hwa hb.1 hn.1 ht.1
      obtain ⟨i1, hs2, hr2⟩ := subst_fwd A i hwi hb.2 hn.2 ht.2
      have e1 := renM_ty hr1 (noBare_notThis ht.1)
      have e2 := renM_ty hr2 (noBare_notThis ht.2)
      have hacc : T.ACCESS &&& t ≠ 0 := by
        intro hz; apply hne; unfold sub at hsub; rw [← hsub, Nat.and_comm]; exact hz
      simp only [substE, isThis, Bool.false_eq_true, ↓reduceIte, hs1, hs2, bind, Except.bind]
      split
      · rename_i heq; obtain ⟨rfl, rfl⟩ := heq; exact ⟨_, rfl, by simp only [RenM]; exact ⟨_, _, rfl, hr1, hr2⟩⟩
      · rw [mkIndex_stable hacc (by rw [e1]; exact hsa) (by rw [e2]; exact hsi) (by rw [e1]; exact WT_ne a hwa) (by rw [e2]; exact WT_ne i hwi)]
        exact ⟨_, rfl, by simp only [RenM]; exact ⟨_, _, rfl, hr1, hr2⟩⟩
theorem substL_fwd (A : String) : ∀ (es : ExprList), WTList es → RebuildableL es → NoNameL A es → NoBareThisL es →
    ∃ es1, substL isThis (.var T.ITEM A) es = .ok es1 ∧ RenML A es es1
  | .nil, _, _, _, _ => ⟨.nil, rfl, by simp [RenML]⟩
  | .cons e es, hw, hb, hn, ht => by
      simp only [WTList] at hw; simp only [RebuildableL] at hb; simp only [NoNameL] at hn; simp only [NoBareThisL] at ht
      obtain ⟨e1, hs1, hr1⟩ := subst_fwd A e hw.1 hb.1 hn.1 ht.1
      obtain ⟨es1, hs2, hr2⟩ := substL_fwd A es hw.2 hb.2 hn.2 ht.2
      exact ⟨.cons e1 es1, by simp [substL, hs1, hs2, bind, Except.bind, pure, Except.pure], by simp only [RenML]; exact ⟨_, _, rfl, hr1, hr2⟩⟩
end

end Hpl

namespace Hpl

/-- **C13**: `replace_this_with_var(e, A)` is total on such trees and returns the renaming of `this` to `@A` -/
theorem replaceThisWithVar_ren (A : String) (e : Expr) (hw : WT e) (hb : Rebuildable e) (hn : NoName A e) (ht : NoBareThis e) :
    ∃ e1, replaceThisWithVarE e A = .ok e1 ∧ Ren A e e1 := by
  obtain ⟨e1, hs, hr⟩ := subst_fwd A e hw hb hn ht
  exact ⟨e1, by unfold replaceThisWithVarE Expr.replaceSelf; exact hs, RenM.ren A e e1 hr⟩

/-- **C13: the two replacements undo each other when the alias is not otherwise used**: for a well-typed tree whose quantifiers and
    calls pass their constructors, that does not use the name `A`, and where the current message occurs only under field accesses,
    `replace_var_with_this(replace_this_with_var(e, A), A) = e`, both calls succeeding -/
theorem replace_roundtrip (A : String) (e : Expr) (hw : WT e) (hb : Rebuildable e) (hn : NoName A e) (ht : NoBareThis e) :
    ∃ e1, replaceThisWithVarE e A = .ok e1 ∧ replaceVarWithThisE e1 A = .ok e := by
  obtain ⟨e1, hs, hr⟩ := replaceThisWithVar_ren A e hw hb hn ht
  exact ⟨e1, hs, replaceVarWithThis_undoes A e e1 hr hw hb hn⟩

-- non-vacuity: `x > 0` with `x` an own field
example : ∃ e1, replaceThisWithVarE (.bin T.BOOL ">" (.field T.NUMBER (.this T.MESSAGE) "x") (.lit T.NUMBER "0" (.int 0))) "A" = .ok e1 ∧
    replaceVarWithThisE e1 "A" = .ok (.bin T.BOOL ">" (.field T.NUMBER (.this T.MESSAGE) "x") (.lit T.NUMBER "0" (.int 0))) := by
  apply replace_roundtrip
  · refine ⟨⟨">", T.NUMBER, T.NUMBER, T.BOOL, true, false, false⟩, by decide, rfl, ?_, ?_, by decide, by decide, by decide⟩
    · exact ⟨by decide, by decide, rfl, by decide⟩
    · rfl
  · simp [Rebuildable]
  · simp [NoName]
  · simp [NoBareThis, Expr.isThisB]

end Hpl
