import Hpl.Props.C13c
import Hpl.Props.C06f
/-!
# C13 / C16 — every tree the constructors build re-enters its constructors unchanged (`build_rebuildable`)

`Rebuildable` (hypothesis of `subst_back`, `subst_fwd`) is a theorem about parser output: a function call whose arguments are inside
one overload is returned unchanged by `mkCall` (`rebuild_stable_call`), a quantifier node accepted once is accepted again with the
same parts (`mkQuant_idem`), and narrowing never touches a quantifier or call node (their types are single base types).
-/
namespace Hpl

theorem zip_prefix_mem {α β : Type} {x : α × β} : ∀ {a : List α} {p r : List β}, x ∈ List.zip a p → x ∈ List.zip a (p ++ r)
  | [], _, _, h => by simp at h
  | _ :: _, [], _, h => by simp at h
  | a :: as, p :: ps, r, h => by
      simp only [List.zip_cons_cons, List.mem_cons, List.cons_append] at h ⊢
      rcases h with h | h
      · exact Or.inl h
      · exact Or.inr (zip_prefix_mem h)

theorem zip_replicate_mem {α β : Type} (v : β) : ∀ (a : List α) (x : α), x ∈ a → (x, v) ∈ List.zip a (List.replicate a.length v)
  | [], _, h => by simp at h
  | y :: ys, x, h => by
      simp only [List.length_cons, List.replicate_succ, List.zip_cons_cons, List.mem_cons] at h ⊢
      rcases h with rfl | h
      · exact Or.inl rfl
      · exact Or.inr (zip_replicate_mem v ys x h)

theorem zip_tail_mem {α β : Type} (v : β) : ∀ (ps : List β) (tys : List α) (x : α), x ∈ tys.drop ps.length →
    (x, v) ∈ List.zip tys (ps ++ List.replicate (tys.length - ps.length) v)
  | [], tys, x, h => by simpa using zip_replicate_mem v tys x (by simpa using h)
  | p :: ps, [], x, h => by simp at h
  | p :: ps, t :: ts, x, h => by
      simp only [List.length_cons, List.drop_succ_cons] at h
      have := zip_tail_mem v ps ts x h
      simp only [List.length_cons, List.cons_append, List.zip_cons_cons, List.mem_cons, Nat.add_sub_add_right]
      exact Or.inr this

/-- arguments that are non-empty and inside an overload's parameters are accepted by it -/
theorem accepts_of_inside {s : Sig} {tys : List DataType} (har : ArityOk s tys.length) (hin : ArgsInside tys s)
    (hne : ∀ a ∈ tys, a ≠ 0) : s.accepts tys = true := by
  have pair : ∀ p ∈ List.zip tys (s.paramsFor tys.length), (p.1 &&& p.2 != 0) = true := by
    intro p hp
    have hs := hin p hp
    unfold sub at hs
    rw [hs]
    simpa using hne p.1 (List.of_mem_zip hp).1
  unfold Sig.accepts
  simp only
  have h1 : ¬ (s.params.length > tys.length) := by have := har.1; omega
  have h2 : (decide (s.params.length < tys.length) && s.variadic.isNone) = false := by
    rcases har.2 with h | h
    · simp; intro hh; omega
    · cases hv : s.variadic with
      | none => rw [hv] at h; cases h
      | some v => simp
  simp only [h1, h2, if_false, Bool.false_eq_true, Bool.and_eq_true, List.all_eq_true]
  refine ⟨fun p hp => pair p (by unfold Sig.paramsFor; exact zip_prefix_mem hp), ?_⟩
  cases hv : s.variadic with
  | none => rfl
  | some v =>
    simp only [List.all_eq_true]
    intro a ha
    have := zip_tail_mem v s.params tys a ha
    have hm : (a, v) ∈ List.zip tys (s.paramsFor tys.length) := by
      unfold Sig.paramsFor; rw [hv]; simpa using this
    exact pair (a, v) hm

theorem WTList_ne : ∀ (es : ExprList), WTList es → ∀ a ∈ es.tys, a ≠ 0
  | .nil, _, a, h => by simp [ExprList.tys] at h
  | .cons e es, hw, a, h => by
      simp only [WTList] at hw
      simp only [ExprList.tys, List.mem_cons] at h
      rcases h with rfl | h
      · exact WT_ne e hw.1
      · exact WTList_ne es hw.2 a h

/-- **C16**: a well-typed call node re-enters its constructor unchanged -/
theorem rebuild_stable_call (t : DataType) (f : String) (args : ExprList) (h : WT (.call t f args)) :
    mkCall f args = .ok (.call t f args) := by
  obtain ⟨d, hd, rfl, hwl, s, hs, har, hin⟩ := h
  have hne := WTList_ne args hwl
  have hacc := accepts_of_inside har hin hne
  have hmem : s ∈ d.overloads.filter (·.accepts args.tys) := List.mem_filter.2 ⟨hs, hacc⟩
  have huniq := unique_overload hd args.tys
  unfold mkCall
  simp only [hd]
  generalize d.overloads.filter (·.accepts args.tys) = L at hmem huniq ⊢
  match L, hmem, huniq with
  | [], hm, _ => simp at hm
  | [s'], hm, _ =>
    simp only [List.mem_singleton] at hm; subst hm
    have hst : castArgs args (s.paramsFor args.length) = .ok args := by
      apply castArgs_stable
      · intro p hp
        exact ⟨hin p (by rw [ExprList.tys_length]; exact hp), hne p.1 (List.of_mem_zip hp).1⟩
      · rw [ExprList.tys_length, paramsFor_length s _ (by have := har.1; rw [ExprList.tys_length] at this; exact this)]
        exact Nat.le_refl _
    simp [hst, bind, Except.bind, pure, Except.pure]
  | _ :: _ :: _, _, hu => simp at hu

end Hpl

namespace Hpl

/-- a quantifier node the constructor returned is accepted again with exactly its parts -/
theorem mkQuant_idem {q : Quant} {x : String} {d0 b0 e : Expr} (h : mkQuant q x d0 b0 = .ok e) :
    ∃ d b, e = .quant T.BOOL q x d b ∧ castE d0 T.COMPOUND = .ok d ∧ castE b0 T.BOOL = .ok b ∧ mkQuant q x d b = .ok (.quant T.BOOL q x d b) := by
  unfold mkQuant at h
  obtain ⟨d, hd, h⟩ := bind_ok h
  obtain ⟨b, hb, h⟩ := bind_ok h
  have sd := castE_stable (castE_sub hd).1 (castE_ok hd).2.1
  have sb := castE_stable (castE_sub hb).1 (castE_ok hb).2.1
  refine ⟨d, b, ?_, hd, hb, ?_⟩
  · split at h
    · cases h
    · obtain ⟨u, _, h⟩ := bind_ok h
      split at h
      · cases h
      · simpa [pure, Except.pure] using (Except.ok.inj h).symm
  · unfold mkQuant
    simp only [sd, sb, bind, Except.bind]
    split at h
    · cases h
    · rename_i hn
      simp only [hn]
      obtain ⟨u, hu, h⟩ := bind_ok h
      simp only [hu]
      split at h
      · cases h
      · rename_i hu0; simp [hu0, pure, Except.pure]

theorem castE_rebuildable {e e' : Expr} {t : DataType} (h : castE e t = .ok e') (hw : WT e) (hb : Rebuildable e) : Rebuildable e' := by
  obtain ⟨hty, hne, rfl⟩ := castE_ok h
  have key : ∀ (a : DataType), Atomic a → a &&& t ≠ 0 → a &&& t = a := by
    intro a ha hne; rcases ha.2 t with h0 | h1
    · exact absurd h0 hne
    · exact h1
  simp only [Expr.ty_withTy] at hne
  cases e with
  | quant ty q x d b =>
    have : Atomic ty := by rw [show ty = T.BOOL from hw.1]; exact G1_atoms.1
    simp only [Expr.ty] at hne ⊢
    simp only [Expr.withTy, Expr.ty]
    rw [key ty this hne]; exact hb
  | call ty f args =>
    obtain ⟨d, hd, rfl, rest⟩ := hw
    simp only [Expr.ty] at hne ⊢
    simp only [Expr.withTy, Expr.ty]
    rw [key _ (fun_res_atomic hd) hne]; exact hb
  | lit _ _ _ | this _ | var _ _ => simp [Expr.withTy, Rebuildable]
  | set _ _ | range _ _ _ _ _ | un _ _ _ | bin _ _ _ _ | field _ _ _ | index _ _ _ => simpa [Expr.withTy, Rebuildable] using hb

theorem castList_rebuildable (t : DataType) : ∀ {vs vs' : ExprList}, castList t vs = .ok vs' → WTList vs → RebuildableL vs → RebuildableL vs'
  | .nil, vs', h, _, _ => by simp only [castList] at h; cases h; trivial
  | .cons e es, vs', h, hw, hb => by
      simp only [castList] at h
      obtain ⟨e', he', h⟩ := bind_ok h
      obtain ⟨es', hes', h⟩ := bind_ok h
      cases h
      simp only [WTList] at hw; simp only [RebuildableL] at hb ⊢
      exact ⟨castE_rebuildable he' hw.1 hb.1, castList_rebuildable t hes' hw.2 hb.2⟩

theorem castArgs_rebuildable : ∀ {args : ExprList} {ts : List DataType} {args' : ExprList}, castArgs args ts = .ok args' → WTList args →
    RebuildableL args → RebuildableL args'
  | .nil, ts, args', h, _, _ => by cases ts <;> (simp only [castArgs] at h; cases h; trivial)
  | .cons e es, [], args', h, _, _ => by simp only [castArgs] at h; cases h; trivial
  | .cons e es, t :: ts, args', h, hw, hb => by
      simp only [castArgs] at h
      obtain ⟨e', he', h⟩ := bind_ok h
      obtain ⟨es', hes', h⟩ := bind_ok h
      cases h
      simp only [WTList] at hw; simp only [RebuildableL] at hb ⊢
      exact ⟨castE_rebuildable he' hw.1 hb.1, castArgs_rebuildable hes' hw.2 hb.2⟩

mutual
/-- **every tree `build` returns is rebuildable**: its quantifier and call nodes re-enter their constructors unchanged -/
theorem build_rebuildable : ∀ (r : Raw) (e : Expr), build r = .ok e → Rebuildable e
  | .lit tok v, e, h => by simp only [build] at h; cases h; trivial
  | .this, e, h => by simp only [build] at h; cases h; trivial
  | .var x, e, h => by simp only [build] at h; cases h; trivial
  | .set vs, e, h => by
      simp only [build] at h
      obtain ⟨es, hes, h⟩ := bind_ok h
      unfold mkSet at h
      obtain ⟨vs', hvs', h⟩ := bind_ok h
      cases h
      simp only [Rebuildable]
      exact castList_rebuildable _ hvs' (buildList_WT vs es hes) (buildList_rebuildable vs es hes)
  | .range lo hi a b, e, h => by
      simp only [build] at h
      obtain ⟨lo', hlo, h⟩ := bind_ok h
      obtain ⟨hi', hhi, h⟩ := bind_ok h
      unfold mkRange at h
      obtain ⟨l2, hl2, h⟩ := bind_ok h
      obtain ⟨h2, hh2, h⟩ := bind_ok h
      cases h
      simp only [Rebuildable]
      exact ⟨castE_rebuildable hl2 (build_WT lo lo' hlo) (build_rebuildable lo lo' hlo),
             castE_rebuildable hh2 (build_WT hi hi' hhi) (build_rebuildable hi hi' hhi)⟩
  | .quant q x d b, e, h => by
      simp only [build] at h
      obtain ⟨d', hd, h⟩ := bind_ok h
      obtain ⟨b', hb, h⟩ := bind_ok h
      obtain ⟨d2, b2, rfl, hd2, hb2, hidem⟩ := mkQuant_idem h
      simp only [Rebuildable]
      exact ⟨hidem, castE_rebuildable hd2 (build_WT d d' hd) (build_rebuildable d d' hd),
             castE_rebuildable hb2 (build_WT b b' hb) (build_rebuildable b b' hb)⟩
  | .un op a, e, h => by
      simp only [build] at h
      obtain ⟨a', ha, h⟩ := bind_ok h
      unfold mkUn at h
      split at h
      · cases h
      · obtain ⟨a2, ha2, h⟩ := bind_ok h
        cases h
        simp only [Rebuildable]
        exact castE_rebuildable ha2 (build_WT a a' ha) (build_rebuildable a a' ha)
  | .bin op a b, e, h => by
      simp only [build] at h
      obtain ⟨a', ha, h⟩ := bind_ok h
      obtain ⟨b', hb, h⟩ := bind_ok h
      have wa := build_WT a a' ha; have wb := build_WT b b' hb
      have ra := build_rebuildable a a' ha; have rb := build_rebuildable b b' hb
      unfold mkBin at h
      split at h
      · cases h
      · obtain ⟨a1, ha1, h⟩ := bind_ok h
        obtain ⟨b1, hb1, h⟩ := bind_ok h
        have wa1 := castE_WT ha1 wa; have wb1 := castE_WT hb1 wb
        have ra1 := castE_rebuildable ha1 wa ra; have rb1 := castE_rebuildable hb1 wb rb
        split at h
        · obtain ⟨a2, ha2, h⟩ := bind_ok h
          obtain ⟨b2, hb2, h⟩ := bind_ok h
          cases h
          simp only [Rebuildable]
          exact ⟨castE_rebuildable ha2 wa1 ra1, castE_rebuildable hb2 wb1 rb1⟩
        · cases h
          simp only [Rebuildable]
          exact ⟨ra1, rb1⟩
  | .call f args, e, h => by
      simp only [build] at h
      obtain ⟨as', has, h⟩ := bind_ok h
      have hw := mkCall_WT h (buildList_WT args as' has)
      have hr := buildList_rebuildable args as' has
      have hwl := buildList_WT args as' has
      unfold mkCall at h
      split at h
      · cases h
      · split at h
        · cases h
        · obtain ⟨a2, ha2, h⟩ := bind_ok h
          cases h
          simp only [Rebuildable]
          exact ⟨rebuild_stable_call _ _ _ hw, castArgs_rebuildable ha2 hwl hr⟩
        · cases h
          simp only [Rebuildable]
          exact ⟨rebuild_stable_call _ _ _ hw, hr⟩
  | .field m n, e, h => by
      simp only [build] at h
      obtain ⟨m', hm, h⟩ := bind_ok h
      unfold mkField mkFieldT at h
      split at h
      · cases h
      · obtain ⟨m2, hm2, h⟩ := bind_ok h
        cases h
        simp only [Rebuildable]
        exact castE_rebuildable hm2 (build_WT m m' hm) (build_rebuildable m m' hm)
  | .index a i, e, h => by
      simp only [build] at h
      obtain ⟨a', ha, h⟩ := bind_ok h
      obtain ⟨i', hi, h⟩ := bind_ok h
      unfold mkIndex mkIndexT at h
      split at h
      · cases h
      · obtain ⟨a2, ha2, h⟩ := bind_ok h
        obtain ⟨i2, hi2, h⟩ := bind_ok h
        cases h
        simp only [Rebuildable]
        exact ⟨castE_rebuildable ha2 (build_WT a a' ha) (build_rebuildable a a' ha),
               castE_rebuildable hi2 (build_WT i i' hi) (build_rebuildable i i' hi)⟩
theorem buildList_rebuildable : ∀ (rs : RawList) (es : ExprList), buildList rs = .ok es → RebuildableL es
  | .nil, es, h => by simp only [buildList] at h; cases h; trivial
  | .cons r rs, es, h => by
      simp only [buildList] at h
      obtain ⟨e', he, h⟩ := bind_ok h
      obtain ⟨es', hes, h⟩ := bind_ok h
      cases h
      simp only [RebuildableL]
      exact ⟨build_rebuildable r e' he, buildList_rebuildable rs es' hes⟩
end

end Hpl

namespace Hpl

mutual
/-- on syntax trees: the current message occurs only as the message of a field access -/
def Raw.noBare : Raw → Bool
  | .this => false
  | .lit .. | .var .. => true
  | .set vs => RawList.noBareL vs
  | .range lo hi _ _ => lo.noBare && hi.noBare
  | .quant _ _ d b => d.noBare && b.noBare
  | .un _ a => a.noBare
  | .bin _ a b => a.noBare && b.noBare
  | .call _ as => RawList.noBareL as
  | .field m _ => (match m with | .this => true | _ => m.noBare)
  | .index a i => a.noBare && i.noBare
def RawList.noBareL : RawList → Bool
  | .nil => true
  | .cons e es => e.noBare && RawList.noBareL es
end

mutual
theorem noBare_erase : ∀ (e : Expr), e.erase.noBare = true → NoBareThis e
  | .this _, h => by simp [Expr.erase, Raw.noBare] at h
  | .lit .., _ => trivial
  | .var .., _ => trivial
  | .set _ vs, h => by simp only [Expr.erase, Raw.noBare] at h; simp only [NoBareThis]; exact noBareL_erase vs h
  | .range _ lo hi _ _, h => by
      simp only [Expr.erase, Raw.noBare, Bool.and_eq_true] at h; simp only [NoBareThis]; exact ⟨noBare_erase lo h.1, noBare_erase hi h.2⟩
  | .quant _ _ _ d b, h => by
      simp only [Expr.erase, Raw.noBare, Bool.and_eq_true] at h; simp only [NoBareThis]; exact ⟨noBare_erase d h.1, noBare_erase b h.2⟩
  | .un _ _ a, h => by simp only [Expr.erase, Raw.noBare] at h; simp only [NoBareThis]; exact noBare_erase a h
  | .bin _ _ a b, h => by
      simp only [Expr.erase, Raw.noBare, Bool.and_eq_true] at h; simp only [NoBareThis]; exact ⟨noBare_erase a h.1, noBare_erase b h.2⟩
  | .call _ _ as, h => by simp only [Expr.erase, Raw.noBare] at h; simp only [NoBareThis]; exact noBareL_erase as h
  | .field _ m _, h => by
      simp only [NoBareThis]
      cases m with
      | this t => left; rfl
      | lit a b c => right; trivial
      | var a b => right; trivial
      | set a b => right; simp only [Expr.erase, Raw.noBare] at h; exact noBare_erase (.set a b) (by simpa [Expr.erase, Raw.noBare] using h)
      | range a b c d e => right; exact noBare_erase (.range a b c d e) (by simpa [Expr.erase, Raw.noBare] using h)
      | quant a b c d e => right; exact noBare_erase (.quant a b c d e) (by simpa [Expr.erase, Raw.noBare] using h)
      | un a b c => right; exact noBare_erase (.un a b c) (by simpa [Expr.erase, Raw.noBare] using h)
      | bin a b c d => right; exact noBare_erase (.bin a b c d) (by simpa [Expr.erase, Raw.noBare] using h)
      | call a b c => right; exact noBare_erase (.call a b c) (by simpa [Expr.erase, Raw.noBare] using h)
      | field a b c => right; exact noBare_erase (.field a b c) (by simpa [Expr.erase, Raw.noBare] using h)
      | index a b c => right; exact noBare_erase (.index a b c) (by simpa [Expr.erase, Raw.noBare] using h)
  | .index _ a i, h => by
      simp only [Expr.erase, Raw.noBare, Bool.and_eq_true] at h; simp only [NoBareThis]; exact ⟨noBare_erase a h.1, noBare_erase i h.2⟩
theorem noBareL_erase : ∀ (es : ExprList), RawList.noBareL (ExprList.eraseL es) = true → NoBareThisL es
  | .nil, _ => trivial
  | .cons e es, h => by
      simp only [ExprList.eraseL, RawList.noBareL, Bool.and_eq_true] at h
      simp only [NoBareThisL]; exact ⟨noBare_erase e h.1, noBareL_erase es h.2⟩
end

mutual
/-- what the expression parser can produce never has a bare current message -/
theorem printable_noBare : ∀ (r : Raw), r.printable = true → r.noBare = true
  | .this, h => by simp [Raw.printable] at h
  | .lit .., _ => rfl
  | .var .., _ => rfl
  | .set vs, h => by simp only [Raw.printable, Bool.and_eq_true] at h; simp only [Raw.noBare]; exact printableL_noBare vs h.2
  | .range lo hi _ _, h => by
      simp only [Raw.printable, Bool.and_eq_true] at h; simp only [Raw.noBare, Bool.and_eq_true]; exact ⟨printable_noBare lo h.1, printable_noBare hi h.2⟩
  | .quant _ x d b, h => by
      simp only [Raw.printable, Bool.and_eq_true] at h; simp only [Raw.noBare, Bool.and_eq_true]
      exact ⟨printable_noBare d h.1.1.2, printable_noBare b h.2⟩
  | .un _ a, h => by simp only [Raw.printable, Bool.and_eq_true] at h; simp only [Raw.noBare]; exact printable_noBare a h.2
  | .bin _ a b, h => by
      simp only [Raw.printable, Bool.and_eq_true] at h; simp only [Raw.noBare, Bool.and_eq_true]; exact ⟨printable_noBare a h.1.2, printable_noBare b h.2⟩
  | .call f (.cons a .nil), h => by
      simp only [Raw.printable, Bool.and_eq_true] at h; simp only [Raw.noBare, RawList.noBareL, Bool.and_true]; exact printable_noBare a h.2
  | .call f .nil, h => by simp [Raw.printable] at h
  | .call f (.cons _ (.cons _ _)), h => by simp [Raw.printable] at h
  | .field .this n, _ => rfl
  | .field (.var y) n, _ => rfl
  | .field (.field m' n') n, h => by
      have hm : (Raw.field m' n').isRef = true := by simp only [Raw.printable, Bool.and_eq_true] at h; exact h.1.2
      simp only [Raw.noBare]; exact printable_noBare (.field m' n') (printable_field hm h).2
  | .field (.index a' i') n, h => by
      have hm : (Raw.index a' i').isRef = true := by simp only [Raw.printable, Bool.and_eq_true] at h; exact h.1.2
      simp only [Raw.noBare]; exact printable_noBare (.index a' i') (printable_field hm h).2
  | .field (.lit ..) n, h | .field (.set ..) n, h | .field (.range ..) n, h | .field (.quant ..) n, h | .field (.un ..) n, h
  | .field (.bin ..) n, h | .field (.call ..) n, h => by simp [Raw.printable, Raw.isRef] at h
  | .index a i, h => by
      obtain ⟨_, hpa, hpi⟩ := printable_index h
      simp only [Raw.noBare, Bool.and_eq_true]; exact ⟨printable_noBare a hpa, printable_noBare i hpi⟩
theorem printableL_noBare : ∀ (rs : RawList), RawList.printable rs = true → RawList.noBareL rs = true
  | .nil, _ => rfl
  | .cons e es, h => by
      simp only [RawList.printable, Bool.and_eq_true] at h
      simp only [RawList.noBareL, Bool.and_eq_true]; exact ⟨printable_noBare e h.1, printableL_noBare es h.2⟩
end

/-- **C13 for parser output**: for every tree `e` the constructors build from a printable syntax tree (every tree the expression
    parser returns is of this form, `rtcheck`) and every alias name `A` not used in `e`, `replace_this_with_var(e, A)` succeeds and
    `replace_var_with_this` of the result is `e` again -/
theorem replace_roundtrip_parsed (A : String) (r : Raw) (e : Expr) (hp : r.printable = true) (hb : build r = .ok e) (hn : NoName A e) :
    ∃ e1, replaceThisWithVarE e A = .ok e1 ∧ replaceVarWithThisE e1 A = .ok e :=
  replace_roundtrip A e (build_WT r e hb) (build_rebuildable r e hb) hn
    (noBare_erase e (by rw [build_erase r e hb]; exact printable_noBare r hp))

end Hpl
