import Hpl.Props.C13d
/-!
# C13 — an event whose predicate does not mention its own alias stores the predicate as written

`substV_noop`: replacing a variable that does not occur changes nothing and succeeds. Hence `event_alias_noop`: for an event `t as A {f}`
whose `f` has no `@A`, the stored predicate is `f` itself — the print / parse round trip of such events is that of their predicates
(`pred_print_parse_roundtrip`, C06h); the three recorded C06 findings live exactly where `f` reaches the own message through `@A`.
-/
namespace Hpl

mutual
theorem substV_noop (a : String) (other : Expr) : ∀ (e : Expr), e.containsRef a = false → substV a other e = .ok e
  | .lit .., _ => by simp [substV]
  | .this .., _ => by simp [substV]
  | .var t x, h => by
      simp only [Expr.containsRef] at h
      simp [substV, h]
  | .set t vs, h => by
      simp only [Expr.containsRef] at h
      simp [substV, substVL_noop a other vs h, bind, Except.bind, pure, Except.pure]
  | .range t lo hi x y, h => by
      simp only [Expr.containsRef, Bool.or_eq_false_iff] at h
      simp [substV, substV_noop a other lo h.1, substV_noop a other hi h.2, bind, Except.bind, pure, Except.pure]
  | .quant t q x d b, h => by
      simp only [Expr.containsRef, Bool.or_eq_false_iff] at h
      simp only [substV]
      split
      · rfl
      · simp [substV_noop a other d h.1, substV_noop a other b h.2, bind, Except.bind, pure, Except.pure]
  | .un t op x, h => by
      simp only [Expr.containsRef] at h
      simp [substV, substV_noop a other x h, bind, Except.bind, pure, Except.pure]
  | .bin t op x y, h => by
      simp only [Expr.containsRef, Bool.or_eq_false_iff] at h
      simp [substV, substV_noop a other x h.1, substV_noop a other y h.2, bind, Except.bind, pure, Except.pure]
  | .call t f as, h => by
      simp only [Expr.containsRef] at h
      simp [substV, substVL_noop a other as h, bind, Except.bind, pure, Except.pure]
  | .field t m n, h => by
      simp only [Expr.containsRef] at h
      simp [substV, substV_noop a other m h, bind, Except.bind, pure, Except.pure]
  | .index t x i, h => by
      simp only [Expr.containsRef, Bool.or_eq_false_iff] at h
      simp [substV, substV_noop a other x h.1, substV_noop a other i h.2, bind, Except.bind, pure, Except.pure]
theorem substVL_noop (a : String) (other : Expr) : ∀ (es : ExprList), es.containsRef a = false → substVL a other es = .ok es
  | .nil, _ => rfl
  | .cons e es, h => by
      simp only [ExprList.containsRef, Bool.or_eq_false_iff] at h
      simp [substVL, substV_noop a other e h.1, substVL_noop a other es h.2, bind, Except.bind, pure, Except.pure]
end

/-- **C13**: an event whose predicate does not mention the event's own alias stores exactly the predicate it was given -/
theorem event_alias_noop (n a : String) (p : Pred) (h : p.containsRef a = false) : mkSimpleEvent n (some a) p = .ok (.simple n (some a) p) := by
  unfold mkSimpleEvent
  simp only
  split
  · cases p with
    | expr e =>
      simp only [Pred.containsRef] at h
      simp [Pred.replaceVar, Expr.replaceVar, substV_noop a _ e h, bind, Except.bind, pure, Except.pure]
    | vtrue => rfl
    | vfalse => rfl
  · rfl

end Hpl
