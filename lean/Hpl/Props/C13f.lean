import Hpl.Props.C14b
/-! C13 / C14: `negate` is total on predicates made of well-typed boolean conditions. -/
namespace Hpl

theorem refsOk_un (t : DataType) (op : String) (a : Expr) : refsOk (.un t op a) = refsOk a := by
  simp only [refsOk, Expr.refOccs]

/-- **`HplPredicate.negate` never fails** on a predicate whose condition is well-typed (what `mkPred` of a parser output is) -/
theorem negate_total (p : Pred) (hp : WTPred p) : ∃ p', p.negate = .ok p' := by
  cases p with
  | vtrue => exact ⟨_, rfl⟩
  | vfalse => exact ⟨_, rfl⟩
  | expr e =>
    obtain ⟨hw, hty, hrefs⟩ := hp
    have viaNot : ∃ p', (do let n ← mkNot e; mkPred n) = .ok p' := by
      rw [mkNot_ok hty]
      simp only [bind, Except.bind]
      unfold mkPred
      have hc : castE (.un T.BOOL Gen.NOT_OPERATOR e) T.BOOL = .ok (.un T.BOOL Gen.NOT_OPERATOR e) :=
        castE_stable (by simp only [Expr.ty]; decide) (by simp only [Expr.ty]; decide)
      simp only [hc, bind, Except.bind, refsOk_un, hrefs, if_true]
      exact ⟨_, rfl⟩
    cases e with
    | un t op a =>
      simp only [Pred.negate]
      split
      · rename_i hop
        have hop' : op = "not" := by simpa [Gen.NOT_OPERATOR] using hop
        obtain ⟨hta, _⟩ := WT_not_operand hw hop'
        unfold mkPred
        have hc : castE a T.BOOL = .ok a := castE_stable (by rw [hta]; decide) (by rw [hta]; decide)
        rw [refsOk_un] at hrefs
        simp only [hc, bind, Except.bind, hrefs, if_true]
        exact ⟨_, rfl⟩
      · exact viaNot
    | lit _ _ _ | this _ | var _ _ | set _ _ | range _ _ _ _ _ | quant _ _ _ _ _ | bin _ _ _ _ | call _ _ _ | field _ _ _ | index _ _ _ =>
      simp only [Pred.negate]; exact viaNot

/-- ... in particular on every predicate the parser builds; and the negation is again such a predicate (C03: `negate_WT` where
    stated), so `negate` can be iterated -/
theorem negate_total_parsed (r : Raw) (p : Pred) (h : (build r >>= predFromExpr) = .ok p) : ∃ p', p.negate = .ok p' :=
  negate_total p (parse_predicate_WT r p h)

end Hpl
