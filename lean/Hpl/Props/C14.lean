import Hpl.Model.Rewrite.Simplify
import Hpl.Model.Rewrite.Refactor
import Hpl.Model.Canon
import Hpl.Props.C11
/-! # C14 — rewriting functions are total on valid inputs (result-kind theorems; totality is tied by correspondence) -/
namespace Hpl

/-- predicate in, predicate out: the vacuous predicates are fixed points and a simplified condition becomes vacuous exactly
    when it is the literal True / False -/
theorem simplifyPred_vacuous (p : Pred) (h : p = .vtrue ∨ p = .vfalse) : simplifyPred p = .ok p := by
  rcases h with rfl | rfl <;> rfl

theorem simplifyPred_kind (e : Expr) (q : Pred) (h : simplifyPred (.expr e) = .ok q) :
    ∃ e', simp (simpFuel e) e = .ok e' ∧
      ((isTrueLit e' = true ∧ q = .vtrue) ∨ (isTrueLit e' = false ∧ isFalseLit e' = true ∧ q = .vfalse) ∨
       (isTrueLit e' = false ∧ isFalseLit e' = false ∧ mkPred e' = .ok q)) := by
  simp only [simplifyPred] at h
  cases hs : simp (simpFuel e) e with
  | error x => rw [hs] at h; simp [bind, Except.bind] at h
  | ok e' =>
    rw [hs] at h
    simp only [bind, Except.bind] at h
    refine ⟨e', rfl, ?_⟩
    split at h
    · rename_i ht; cases h; left; exact ⟨ht, rfl⟩
    · rename_i ht
      split at h
      · rename_i hf; cases h; right; left; exact ⟨by simpa using ht, hf, rfl⟩
      · rename_i hf; right; right; exact ⟨by simpa using ht, by simpa using hf, h⟩

/-- `refactor_reference` on a vacuous predicate: the predicate itself paired with the vacuous truth -/
theorem refactorPred_vacuous (p : Pred) (a : String) (h : p = .vtrue ∨ p = .vfalse) : refactorPred p a = .ok (p, .vtrue) := by
  rcases h with rfl | rfl <;> rfl

theorem mapM_length {α β : Type} (f : α → M β) : ∀ (l : List α) (r : List β), l.mapM f = .ok r → r.length = l.length
  | [], r, h => by simp [List.mapM_nil, pure, Except.pure] at h; simp [h]
  | a :: l, r, h => by
      rw [List.mapM_cons] at h
      obtain ⟨b, _, h⟩ := bind_ok h
      obtain ⟨bs, hbs, h⟩ := bind_ok h
      cases h
      simp [mapM_length f l bs hbs]

theorem canonicalScopes_ne_nil (s : Scope) : canonicalScopes s ≠ [] := by
  obtain ⟨k, a, t⟩ := s
  cases k <;> cases a <;> simp [canonicalScopes, simpleEvents_ne_nil]

theorem canonicalPatterns_ne_nil (p : Pattern) : canonicalPatterns p ≠ [] := by
  obtain ⟨k, b, tg, mn, mx⟩ := p
  cases k <;> cases tg <;> simp [canonicalPatterns, PatternKind.isSafety, simpleEvents_ne_nil]

/-- property in, non-empty list out -/
theorem canonical_nonempty (p : Property) (qs : List Property) (h : canonical p = .ok qs) : qs ≠ [] := by
  unfold canonical at h
  simp only at h
  split at h
  · cases h; simp
  · have hl := mapM_length _ _ _ h
    intro hq; subst hq
    simp only [List.length_nil] at hl
    have := List.length_eq_zero_iff.1 hl.symm
    rw [List.flatMap_eq_nil_iff] at this
    obtain ⟨s, hs⟩ := List.exists_mem_of_ne_nil _ (canonicalScopes_ne_nil p.scope)
    have h2 := this s hs
    rw [List.map_eq_nil_iff] at h2
    exact canonicalPatterns_ne_nil p.pattern h2

end Hpl
