import Hpl.Props.C13d
import Hpl.Props.C15
import Hpl.Props.C10b
import Hpl.Props.C03c
/-! C14, totality proper for `refactor_reference`: on a well-typed tree whose quantifier and call nodes pass their constructors
    (`Rebuildable`: what `build` returns, `build_rebuildable`), no constructor call inside the rewrite fails.

    The heart is the quantifier constructor: what `HplQuantifier` checks of a condition (`quantBodyCheck`) is a statement about
    each node of the condition separately (`QNodeOk`) plus "the variable occurs", so it passes from a condition to each of its
    conjuncts that still mention the variable. -/
namespace Hpl

/-- what a successful quantifier constructor has established of its (already narrowed) children -/
theorem mkQuant_facts {q : Quant} {x : String} {d b e : Expr} (hd : sub d.ty T.COMPOUND) (hb : sub b.ty T.BOOL)
    (hnd : d.ty ≠ 0) (hnb : b.ty ≠ 0) (h : mkQuant q x d b = .ok e) :
    d.preorder.any (isVarNamed x) = false ∧ ∃ u, quantBodyCheck x (domainElemType d) b.preorder 0 = .ok u ∧ u ≠ 0 := by
  unfold mkQuant at h
  simp only [castE_stable hd hnd, castE_stable hb hnb, bind, Except.bind] at h
  split at h
  · cases h
  · rename_i hdv
    split at h
    · cases h
    · rename_i u hu
      split at h
      · cases h
      · rename_i hu0
        exact ⟨by simpa using hdv, u, hu, hu0⟩

/-- **the quantifier constructor accepts every part of an accepted condition that still mentions the variable**: if
    `HplQuantifier(q, x, d, body)` was accepted, then so is `Forall(x, d, a)` for every boolean `a` that mentions `x` and whose nodes
    are nodes of `body`, or new nodes that are neither variables nor quantifiers -/
theorem mkForall_part {q : Quant} {x : String} {d body a e : Expr} (hd : sub d.ty T.COMPOUND) (hb : sub body.ty T.BOOL)
    (hnd : d.ty ≠ 0) (hnb : body.ty ≠ 0) (h : mkQuant q x d body = .ok e)
    (ha : sub a.ty T.BOOL) (hna : a.ty ≠ 0)
    (hnodes : ∀ n ∈ a.preorder, n ∈ body.preorder ∨ (bindsName x n = false ∧ isVarNamed x n = false))
    (hx : a.containsRef x = true) : mkForall x d a = .ok (.quant T.BOOL .all x d a) := by
  obtain ⟨hdv, u, hu, _⟩ := mkQuant_facts hd hb hnd hnb h
  have hbind := (quantBodyCheck_no_rebind x _ _ _ _ hu).1
  have hvars := quantBodyCheck_ok x _ _ _ _ hu
  have hA1 : ∀ n ∈ a.preorder, bindsName x n = false := by
    intro n hn
    rcases hnodes n hn with hm | ⟨h1, _⟩
    · exact hbind n hm
    · exact h1
  have hA2 : ∀ ty, Expr.var ty x ∈ a.preorder → ty &&& domainElemType d ≠ 0 := by
    intro ty hn
    rcases hnodes _ hn with hm | ⟨_, h2⟩
    · exact hvars _ hm (by simp [isVarNamed])
    · simp [isVarNamed] at h2
  obtain ⟨k', hk, _, hlt⟩ := quantBodyCheck_complete x (domainElemType d) a.preorder 0 hA1 hA2
  have hex : ∃ ty, Expr.var ty x ∈ a.preorder := by
    rw [Expr.containsRef_iff, List.any_eq_true] at hx
    obtain ⟨n, hn, hp⟩ := hx
    cases n with
    | var ty y =>
        simp only [isVarNamed, beq_iff_eq] at hp
        subst hp
        exact ⟨ty, hn⟩
    | _ => simp [isVarNamed] at hp
  have hpos := hlt hex
  unfold mkForall mkQuant
  simp only [castE_stable hd hnd, castE_stable ha hna, bind, Except.bind, hdv, Bool.false_eq_true, if_false, hk]
  have : k' ≠ 0 := by omega
  simp [this, pure, Except.pure]

/-- inside an atomic type and not empty is equal to it -/
theorem bool_of_sub {t : Nat} (hs : sub t T.BOOL) (hne : t ≠ 0) : t = T.BOOL := by
  have hs' : t &&& T.BOOL = t := hs
  rcases G1_atoms.1.2 t with h0 | h1
  · exact absurd (by rw [← hs', Nat.and_comm]; exact h0) hne
  · calc t = t &&& T.BOOL := hs'.symm
      _ = T.BOOL &&& t := Nat.and_comm _ _
      _ = T.BOOL := h1

/-- the table entry of `len` (stated with the generated constants, so that neither the numbering of the types nor the order of
    the function table matters) -/
theorem len_table : (findFun "len").map (·.overloads) = some [⟨[T.COMPOUND], T.NUMBER, none⟩] := by decide

/-- `len(d)` is accepted, unchanged, for every domain a quantifier can hold -/
theorem lenCall_ok {d : Expr} (hd : sub d.ty T.COMPOUND) (hnd : d.ty ≠ 0) :
    mkCall "len" (.cons d .nil) = .ok (.call T.NUMBER "len" (.cons d .nil)) := by
  have htab := len_table
  cases hf : findFun "len" with
  | none => rw [hf] at htab; cases htab
  | some fd =>
    rw [hf] at htab
    simp only [Option.map_some, Option.some.injEq] at htab
    have hd' : d.ty &&& T.COMPOUND = d.ty := hd
    have hacc : (⟨[T.COMPOUND], T.NUMBER, none⟩ : Sig).accepts (ExprList.cons d .nil).tys = true := by
      simp [ExprList.tys, Sig.accepts, hd', hnd]
    have hres : fd.result = T.NUMBER := by
      unfold FunDef.result; rw [htab]; decide
    unfold mkCall
    simp only [hf, htab, List.filter, hacc, hres]
    have hpar : (⟨[T.COMPOUND], T.NUMBER, none⟩ : Sig).paramsFor (ExprList.cons d .nil).length = [T.COMPOUND] := by
      simp [Sig.paramsFor, ExprList.length]
    rw [hpar]
    simp [castArgs, castE_stable hd hnd, bind, Except.bind, pure, Except.pure]

/-- `empty_test(d)` is accepted for every domain a quantifier can hold, and is `len(d) = 0` around `d` itself -/
theorem emptyTest_eq {d : Expr} (hd : sub d.ty T.COMPOUND) (hnd : d.ty ≠ 0) :
    emptyTest d = .ok (.bin T.BOOL "=" (.call T.NUMBER "len" (.cons d .nil)) (.lit T.NUMBER "0" (.int 0))) := by
  unfold emptyTest
  simp only [lenCall_ok hd hnd, bind, Except.bind]
  have hb : findBin "=" = some ⟨"=", T.PRIMITIVE, T.PRIMITIVE, T.BOOL, true, true, false⟩ := by decide
  exact mkBin_stable hb (by simp only [Expr.ty]; decide) (by simp only [Expr.ty]; decide) (fun _ => rfl) (by simp only [Expr.ty]; decide) (by simp only [Expr.ty]; decide)

theorem emptyTest_ok {d : Expr} (hd : sub d.ty T.COMPOUND) (hnd : d.ty ≠ 0) : ∃ e, emptyTest d = .ok e ∧ e.ty = T.BOOL :=
  ⟨_, emptyTest_eq hd hnd, rfl⟩

/-- an accepted quantifier `q x in d: body` (children already inside COMPOUND / BOOL) -/
structure QCtx (q : Quant) (x : String) (d body : Expr) : Prop where
  hd : sub d.ty T.COMPOUND
  hb : sub body.ty T.BOOL
  hnd : d.ty ≠ 0
  hnb : body.ty ≠ 0
  acc : ∃ e, mkQuant q x d body = .ok e

/-- `a` is a boolean formula made of nodes of `body` and of new nodes that are neither variables nor quantifiers -/
structure PartOf (x : String) (body a : Expr) : Prop where
  ty : a.ty = T.BOOL
  nodes : ∀ n ∈ a.preorder, n ∈ body.preorder ∨ (bindsName x n = false ∧ isVarNamed x n = false)

theorem PartOf.refl_ {x : String} {body : Expr} (h : body.ty = T.BOOL) : PartOf x body body := ⟨h, fun _ hn => Or.inl hn⟩

theorem splitHalf_ok {q : Quant} {x : String} {d body a : Expr} (c : QCtx q x d body) (pa : PartOf x body a) :
    ∃ e, splitHalf x d a = .ok e ∧ e.ty = T.BOOL := by
  unfold splitHalf
  have hsa : sub a.ty T.BOOL := by rw [pa.ty]; decide
  have hna : a.ty ≠ 0 := by rw [pa.ty]; decide
  obtain ⟨e0, he0⟩ := c.acc
  split
  · rename_i hx
    exact ⟨_, mkForall_part c.hd c.hb c.hnd c.hnb he0 hsa hna pa.nodes hx, rfl⟩
  · obtain ⟨t, ht, hty⟩ := emptyTest_ok c.hd c.hnd
    simp only [ht, bind, Except.bind]
    have hb : findBin Gen.OR_OPERATOR = some ⟨"or", T.BOOL, T.BOOL, T.BOOL, true, true, true⟩ := by decide
    refine ⟨_, mkBin_stable hb (by rw [hty]; decide) (by rw [pa.ty]; decide) (fun _ => by rw [hty, pa.ty]) (by rw [hty]; decide) hna, rfl⟩

theorem refQuantAnd_ok {alias : String} {q : Quant} {x : String} {quant d body a b : Expr} (c : QCtx q x d body)
    (pa : PartOf x body a) (pb : PartOf x body b) (href : (a.containsRef alias || b.containsRef alias) = true) :
    ∃ r, refQuantAnd alias x quant d a b = .ok r := by
  obtain ⟨ea, hea, _⟩ := splitHalf_ok c pa
  obtain ⟨eb, heb, _⟩ := splitHalf_ok c pb
  unfold refQuantAnd
  simp only [hea, heb, bind, Except.bind, pure, Except.pure]
  cases ha : a.containsRef alias <;> cases hb : b.containsRef alias <;> simp_all

/-- the operands of a well-typed conjunction / disjunction are exactly boolean -/
theorem WT_logic_operands {t : DataType} {op : String} {a b : Expr} (h : WT (.bin t op a b))
    (hop : op = "and" ∨ op = "or" ∨ op = "implies") : a.ty = T.BOOL ∧ b.ty = T.BOOL ∧ t = T.BOOL := by
  obtain ⟨d, hd, ht, ha, hb, hsa, hsb, _⟩ := h
  have hp : d.p1 = T.BOOL ∧ d.p2 = T.BOOL ∧ d.res = T.BOOL := by
    rcases hop with rfl | rfl | rfl
    · have : findBin "and" = some ⟨"and", T.BOOL, T.BOOL, T.BOOL, true, true, true⟩ := by decide
      rw [this] at hd; cases hd; exact ⟨rfl, rfl, rfl⟩
    · have : findBin "or" = some ⟨"or", T.BOOL, T.BOOL, T.BOOL, true, true, true⟩ := by decide
      rw [this] at hd; cases hd; exact ⟨rfl, rfl, rfl⟩
    · have : findBin "implies" = some ⟨"implies", T.BOOL, T.BOOL, T.BOOL, true, false, false⟩ := by decide
      rw [this] at hd; cases hd; exact ⟨rfl, rfl, rfl⟩
  rw [hp.1] at hsa; rw [hp.2.1] at hsb
  exact ⟨bool_of_sub hsa (WT_ne _ ha), bool_of_sub hsb (WT_ne _ hb), by rw [ht, hp.2.2]⟩

theorem WT_not_operand {t : DataType} {op : String} {a : Expr} (h : WT (.un t op a)) (hop : op = "not") : a.ty = T.BOOL ∧ t = T.BOOL := by
  obtain ⟨d, hd, ht, ha, hs⟩ := h
  subst hop
  have : findUn "not" = some ⟨"not", T.BOOL, T.BOOL⟩ := by decide
  rw [this] at hd; cases hd
  exact ⟨bool_of_sub hs (WT_ne _ ha), ht⟩

/-- `Not(a)` on an exactly boolean operand -/
theorem mkNot_ok {a : Expr} (h : a.ty = T.BOOL) : mkNot a = .ok (.un T.BOOL Gen.NOT_OPERATOR a) := by
  obtain ⟨d, hd, hm⟩ := mkNot_stable a h
  have : findUn Gen.NOT_OPERATOR = some ⟨"not", T.BOOL, T.BOOL⟩ := by decide
  rw [this] at hd; cases hd
  exact hm

theorem mkAnd_ok {a b : Expr} (ha : a.ty = T.BOOL) (hb : b.ty = T.BOOL) : mkAnd a b = .ok (.bin T.BOOL Gen.AND_OPERATOR a b) := by
  obtain ⟨d, hd, hm⟩ := mkAnd_stable a b ha hb
  have : findBin Gen.AND_OPERATOR = some ⟨"and", T.BOOL, T.BOOL, T.BOOL, true, true, true⟩ := by decide
  rw [this] at hd; cases hd
  exact hm

/-- the negation of a part is a part -/
theorem PartOf.not_ {x : String} {body a : Expr} (pa : PartOf x body a) : PartOf x body (.un T.BOOL Gen.NOT_OPERATOR a) := by
  refine ⟨rfl, ?_⟩
  intro n hn
  simp only [Expr.preorder, List.mem_cons] at hn
  rcases hn with rfl | hn
  · exact Or.inr ⟨rfl, rfl⟩
  · exact pa.nodes n hn

theorem QCtx.of_WT {t : DataType} {q : Quant} {x : String} {d body : Expr} (hw : WT (.quant t q x d body))
    (hr : mkQuant q x d body = .ok (.quant t q x d body)) : QCtx q x d body :=
  ⟨hw.2.2.2.1, hw.2.2.2.2.1, WT_ne _ hw.2.1, WT_ne _ hw.2.2.1, _, hr⟩

/-- **`_split_ref_quantifier` never fails** on an accepted, well-typed quantifier that mentions the alias -/
theorem refQuant_ok {alias : String} {t : DataType} {q : Quant} {x : String} {d body : Expr} (hw : WT (.quant t q x d body))
    (hr : mkQuant q x d body = .ok (.quant t q x d body)) (href : (Expr.quant t q x d body).containsRef alias = true) :
    ∃ r, refQuant alias (.quant t q x d body) = .ok r := by
  have c := QCtx.of_WT hw hr
  have hwb : WT body := hw.2.2.1
  simp only [Expr.containsRef, Bool.or_eq_true] at href
  unfold refQuant
  simp only
  split
  · exact ⟨_, rfl⟩
  · rename_i hdr
    have hbr : body.containsRef alias = true := by
      rcases href with h | h
      · exact absurd h hdr
      · exact h
    simp only [hbr, Bool.not_true, Bool.false_eq_true, if_false]
    cases q with
    | some => exact ⟨_, rfl⟩
    | all =>
      simp only
      split
      · rename_i t1 op t2 op2 a b
        split
        · rename_i hops
          simp only [Bool.and_eq_true, beq_iff_eq] at hops
          obtain ⟨hop1, hop2⟩ := hops
          have hor := WT_un_inv hwb
          obtain ⟨hta, htb, _⟩ := WT_logic_operands hor (Or.inr (Or.inl hop2))
          have pa : PartOf x (.un t1 op (.bin t2 op2 a b)) a :=
            ⟨hta, fun n hn => Or.inl (by simp only [Expr.preorder, List.mem_cons, List.mem_append]; exact Or.inr (Or.inr (Or.inl hn)))⟩
          have pb : PartOf x (.un t1 op (.bin t2 op2 a b)) b :=
            ⟨htb, fun n hn => Or.inl (by simp only [Expr.preorder, List.mem_cons, List.mem_append]; exact Or.inr (Or.inr (Or.inr hn)))⟩
          simp only [mkNot_ok hta, mkNot_ok htb, bind, Except.bind, mkAnd_ok (a := .un T.BOOL Gen.NOT_OPERATOR a) (b := .un T.BOOL Gen.NOT_OPERATOR b) rfl rfl]
          refine refQuantAnd_ok c pa.not_ pb.not_ ?_
          simpa [Expr.containsRef] using hbr
        · exact ⟨_, rfl⟩
      · rename_i t1 op a b
        split
        · rename_i hop
          have hop' : op = "and" := by simpa [Gen.AND_OPERATOR] using hop
          obtain ⟨hta, htb, _⟩ := WT_logic_operands hwb (Or.inl hop')
          have pa : PartOf x (.bin t1 op a b) a :=
            ⟨hta, fun n hn => Or.inl (by simp only [Expr.preorder, List.mem_cons, List.mem_append]; exact Or.inr (Or.inl hn))⟩
          have pb : PartOf x (.bin t1 op a b) b :=
            ⟨htb, fun n hn => Or.inl (by simp only [Expr.preorder, List.mem_cons, List.mem_append]; exact Or.inr (Or.inr hn))⟩
          refine refQuantAnd_ok c pa pb ?_
          simpa [Expr.containsRef] using hbr
        · exact ⟨_, rfl⟩
      · exact ⟨_, rfl⟩

theorem findUn_token {op : String} {d : UnDef} (h : findUn op = some d) : d ∈ Gen.unOps ∧ d.token = op := by
  unfold findUn at h
  have h2 := List.find?_some h
  exact ⟨List.mem_of_find?_eq_some h, eq_of_beq h2⟩

/-- in the operator table only `not` can yield a boolean -/
theorem unOps_bool_is_not : ∀ d ∈ Gen.unOps, d.res &&& T.BOOL ≠ 0 → d.token = "not" := by decide

/-- a well-typed unary node that can be boolean is a negation -/
theorem WT_un_bool {t : DataType} {op : String} {a : Expr} (h : WT (.un t op a)) (hb : t &&& T.BOOL ≠ 0) : op = "not" := by
  obtain ⟨d, hd, ht, _, _⟩ := h
  obtain ⟨hm, htok⟩ := findUn_token hd
  rw [← htok]
  exact unOps_bool_is_not d hm (by rw [← ht]; exact hb)

theorem refAnd_ok {alias : String} {op a b : Expr} (h : (a.containsRef alias || b.containsRef alias) = true) :
    ∃ r, refAnd alias op a b = .ok r := by
  unfold refAnd
  cases ha : a.containsRef alias <;> cases hb : b.containsRef alias <;> simp_all

/-- the only failure left is running out of fuel (which `refactorExpr_fuel_ok` excludes) -/
def OkOrFuel {α : Type} (r : M α) : Prop := ∀ err, r = .error err → err = fuelErr

theorem OkOrFuel.of_ok {α : Type} {r : M α} (h : ∃ v, r = .ok v) : OkOrFuel r := by
  obtain ⟨v, rfl⟩ := h; intro err he; cases he

/-- an accepted quantifier's condition mentions its variable -/
theorem quant_uses_var {t : DataType} {q : Quant} {x : String} {d body : Expr} (hw : WT (.quant t q x d body))
    (hr : mkQuant q x d body = .ok (.quant t q x d body)) : body.containsRef x = true := by
  have c := QCtx.of_WT hw hr
  obtain ⟨_, u, hu, hu0⟩ := mkQuant_facts c.hd c.hb c.hnd c.hnb hr
  have hcount := (quantBodyCheck_no_rebind x _ _ _ _ hu).2
  rw [Expr.containsRef_iff, List.any_eq_true]
  have hne : (body.preorder.filter (isVarNamed x)) ≠ [] := by
    intro hnil; rw [hnil] at hcount; simp at hcount; exact hu0 hcount
  obtain ⟨n, hn⟩ := List.exists_mem_of_ne_nil _ hne
  exact ⟨n, (List.mem_filter.1 hn).1, (List.mem_filter.1 hn).2⟩

theorem refactor_total (alias : String) : ∀ f,
    (∀ e, WT e → Rebuildable e → OkOrFuel (refExpr alias f e)) ∧
    (∀ neg e, WT e → Rebuildable e → e.ty = T.BOOL → e.containsRef alias = true → OkOrFuel (refNeg alias f neg e)) := by
  intro f
  induction f with
  | zero =>
    refine ⟨fun e _ _ err h => ?_, fun neg e _ _ _ _ err h => ?_⟩
    · simp only [refExpr] at h; cases h; rfl
    · simp only [refNeg] at h; cases h; rfl
  | succ f ih =>
    obtain ⟨ihE, ihN⟩ := ih
    refine ⟨?_, ?_⟩
    · intro e hw hrb
      simp only [refExpr]
      split
      · exact .of_ok ⟨_, rfl⟩
      · rename_i href
        have href' : e.containsRef alias = true := by simpa using href
        split
        · exact .of_ok ⟨_, rfl⟩
        · rename_i hbool
          split
          · exact .of_ok ⟨_, rfl⟩
          · rename_i hkind
            split
            · rename_i t q x d body
              simp only [Rebuildable] at hrb
              exact .of_ok (refQuant_ok hw hrb.1 href')
            · rename_i t op a
              have hop := WT_un_bool hw (by simpa [Expr.ty] using hbool)
              subst hop
              simp only [show ("not" == Gen.NOT_OPERATOR) = true by decide, if_true]
              obtain ⟨hta, _⟩ := WT_not_operand hw rfl
              simp only [Rebuildable] at hrb
              exact ihN _ _ (WT_un_inv hw) hrb hta (by simpa [Expr.containsRef] using href')
            · rename_i t op a b
              split
              · exact .of_ok (refAnd_ok (by simpa [Expr.containsRef] using href'))
              · exact .of_ok ⟨_, rfl⟩
            · rename_i hq hu hb
              cases e with
              | quant t q x d b => exact absurd rfl (hq t q x d b)
              | un t op a => exact absurd rfl (hu t op a)
              | bin t op a b => exact absurd rfl (hb t op a b)
              | lit _ _ _ | this _ | var _ _ | set _ _ | range _ _ _ _ _ | call _ _ _ | field _ _ _ | index _ _ _ =>
                simp [Expr.isValueKind, Expr.isAccessor, Expr.isCall] at hkind
    · intro neg e hw hrb hty href
      simp only [refNeg]
      split
      · rename_i hass
        simp [hty, href] at hass
        exact absurd hass (by decide)
      · rename_i hass
        split
        · exact .of_ok ⟨_, rfl⟩
        · rename_i hkind
          split
          · rename_i t x d p
            simp only [Rebuildable] at hrb
            have c := QCtx.of_WT hw hrb.1
            have htp : p.ty = T.BOOL := bool_of_sub c.hb c.hnb
            have hpx := quant_uses_var hw hrb.1
            simp only [mkNot_ok htp, bind, Except.bind]
            have hnpx : (Expr.un T.BOOL Gen.NOT_OPERATOR p).containsRef x = true := by simpa [Expr.containsRef] using hpx
            simp only [hnpx, if_true]
            have hpart : PartOf x p (.un T.BOOL Gen.NOT_OPERATOR p) := (PartOf.refl_ htp).not_
            have hfa := mkForall_part c.hd c.hb c.hnd c.hnb hrb.1 (by simp only [Expr.ty]; decide) (by simp only [Expr.ty]; decide) hpart.nodes hnpx
            simp only [hfa]
            have hwq : WT (.quant T.BOOL .all x d (.un T.BOOL Gen.NOT_OPERATOR p)) :=
              mkForall_WT hfa (WT_quant_inv hw).1 (mkNot_WT (mkNot_ok htp) (WT_quant_inv hw).2)
            refine .of_ok (refQuant_ok hwq hfa ?_)
            simpa [Expr.containsRef] using href
          · exact .of_ok ⟨_, rfl⟩
          · rename_i t op a
            split
            · rename_i hop
              have hop' : op = "not" := by simpa [Gen.NOT_OPERATOR] using hop
              simp only [Rebuildable] at hrb
              exact ihE _ (WT_un_inv hw) hrb
            · exact .of_ok ⟨_, rfl⟩
          · rename_i t op a b
            simp only [Rebuildable] at hrb
            split
            · rename_i hop
              have hop' : op = "implies" := by simpa [Gen.IMPLIES_OPERATOR] using hop
              obtain ⟨hta, htb, _⟩ := WT_logic_operands hw (Or.inr (Or.inr hop'))
              simp only [mkNot_ok htb, bind, Except.bind, mkAnd_ok (a := a) (b := .un T.BOOL Gen.NOT_OPERATOR b) hta rfl]
              exact .of_ok (refAnd_ok (by simpa [Expr.containsRef] using href))
            · split
              · rename_i hop
                have hop' : op = "or" := by simpa [Gen.OR_OPERATOR] using hop
                obtain ⟨hta, htb, _⟩ := WT_logic_operands hw (Or.inr (Or.inl hop'))
                simp only [mkNot_ok hta, mkNot_ok htb, bind, Except.bind,
                  mkAnd_ok (a := .un T.BOOL Gen.NOT_OPERATOR a) (b := .un T.BOOL Gen.NOT_OPERATOR b) rfl rfl]
                exact .of_ok (refAnd_ok (by simpa [Expr.containsRef] using href))
              · exact .of_ok ⟨_, rfl⟩
          · rename_i hqs hqa hu hb
            cases e with
            | quant t q x d b => cases q with
              | some => exact absurd rfl (hqs t x d b)
              | all => exact absurd rfl (hqa t x d b)
            | un t op a => exact absurd rfl (hu t op a)
            | bin t op a b => exact absurd rfl (hb t op a b)
            | lit _ _ _ | this _ | var _ _ | set _ _ | range _ _ _ _ _ | call _ _ _ | field _ _ _ | index _ _ _ =>
              simp [Expr.isValueKind, Expr.isAccessor, Expr.isCall] at hkind

/-- **C14, `refactor_reference` is total (expressions)**: on a well-typed tree whose quantifier and call nodes pass their
    constructors, for every alias, the rewrite returns a pair — no constructor call inside it fails, no assertion fires, the fuel
    suffices -/
theorem refactorExpr_total (e : Expr) (alias : String) (hw : WT e) (hrb : Rebuildable e) : ∃ r, refactorExpr e alias = .ok r := by
  cases h : refactorExpr e alias with
  | ok r => exact ⟨r, rfl⟩
  | error err =>
    have := (refactor_total alias _).1 e hw hrb err h
    subst this
    exact absurd h (refactorExpr_fuel_ok e alias)

/-- ... in particular on everything the parser builds -/
theorem refactorExpr_total_parsed (r : Raw) (e : Expr) (alias : String) (h : build r = .ok e) : ∃ p, refactorExpr e alias = .ok p :=
  refactorExpr_total e alias (build_WT r e h) (build_rebuildable r e h)

/-- the hypotheses are met and the interesting branch is taken: `forall i in xs: (@i > @A.x and b)` splits for alias `A` -/
example : ∃ e p, build (.quant .all "i" (.field .this "xs") (.bin "and" (.bin ">" (.var "i") (.field (.var "A") "x")) (.field .this "b"))) = .ok e ∧
    refactorExpr e "A" = .ok p ∧ p.1 ≠ trueLit := by
  refine ⟨_, _, by rfl, by rfl, by decide⟩

end Hpl
