import Hpl.Props.C14b
/-! C14 / C09, totality proper for `split_and`: on a well-typed tree whose quantifier and call nodes pass their constructors, the
    pre-split transform never fails (no constructor call inside it, no assertion), and returns a tree of the same kind.

    The transform re-enters itself on what it has just rebuilt (`forall x in d: phi` splits the *transformed* `phi`), so the
    invariant relates a result to its input node by node: every node of the result is a node of the input or a fresh node that is
    not a variable and binds only names the input binds (`From`). -/
namespace Hpl

/-- a node the transform creates: not a variable, binding (if a quantifier) a name some quantifier of `e` binds -/
def Fresh (e n : Expr) : Prop :=
  (∀ y, isVarNamed y n = false) ∧ (∀ y, bindsName y n = true → ∃ m ∈ e.preorder, bindsName y m = true)

def From (e e' : Expr) : Prop := ∀ n ∈ e'.preorder, n ∈ e.preorder ∨ Fresh e n

theorem From.refl_ (e : Expr) : From e e := fun _ hn => Or.inl hn

theorem Fresh.mono {e E n : Expr} (hsub : ∀ m ∈ e.preorder, m ∈ E.preorder ∨ Fresh E m) (h : Fresh e n) : Fresh E n := by
  refine ⟨h.1, fun y hy => ?_⟩
  obtain ⟨m, hm, hb⟩ := h.2 y hy
  rcases hsub m hm with hm' | hf
  · exact ⟨m, hm', hb⟩
  · exact hf.2 y hb

theorem From.trans_ {e e' e'' : Expr} (h1 : From e e') (h2 : From e' e'') : From e e'' := by
  intro n hn
  rcases h2 n hn with hm | hf
  · exact h1 n hm
  · exact Or.inr (hf.mono h1)

/-- nodes of a sub-tree are nodes of the tree: stated as `From` -/
theorem From.of_sub {E e e' : Expr} (hsub : ∀ m ∈ e.preorder, m ∈ E.preorder) (h : From e e') : From E e' := by
  intro n hn
  rcases h n hn with hm | hf
  · exact Or.inl (hsub n hm)
  · exact Or.inr (hf.mono (fun m hm => Or.inl (hsub m hm)))

theorem fresh_un (e : Expr) (t : DataType) (op : String) (a : Expr) : Fresh e (.un t op a) := ⟨fun _ => rfl, fun _ h => by simp [bindsName] at h⟩
theorem fresh_bin (e : Expr) (t : DataType) (op : String) (a b : Expr) : Fresh e (.bin t op a b) := ⟨fun _ => rfl, fun _ h => by simp [bindsName] at h⟩
theorem fresh_call (e : Expr) (t : DataType) (f : String) (as : ExprList) : Fresh e (.call t f as) := ⟨fun _ => rfl, fun _ h => by simp [bindsName] at h⟩
theorem fresh_lit (e : Expr) (t : DataType) (tok : String) (v : LitVal) : Fresh e (.lit t tok v) := ⟨fun _ => rfl, fun _ h => by simp [bindsName] at h⟩

/-- in an accepted quantifier no node of the condition binds the variable again -/
theorem quant_no_rebind {t : DataType} {q : Quant} {x : String} {d body : Expr} (hw : WT (.quant t q x d body))
    (hr : mkQuant q x d body = .ok (.quant t q x d body)) : ∀ n ∈ body.preorder, bindsName x n = false := by
  have c := QCtx.of_WT hw hr
  obtain ⟨_, u, hu, _⟩ := mkQuant_facts c.hd c.hb c.hnd c.hnb hr
  exact (quantBodyCheck_no_rebind x _ _ _ _ hu).1

/-- a boolean sub-formula of something that came `From` the condition of an accepted quantifier is a `PartOf` it -/
theorem partOf_of_from {t : DataType} {q : Quant} {x : String} {d body phi a : Expr} (hw : WT (.quant t q x d body))
    (hr : mkQuant q x d body = .ok (.quant t q x d body)) (hf : From body phi) (hsub : ∀ n ∈ a.preorder, n ∈ phi.preorder)
    (hty : a.ty = T.BOOL) : PartOf x body a := by
  refine ⟨hty, fun n hn => ?_⟩
  rcases hf n (hsub n hn) with hm | hfr
  · exact Or.inl hm
  · refine Or.inr ⟨?_, hfr.1 x⟩
    cases hb : bindsName x n with
    | false => rfl
    | true =>
      obtain ⟨m, hm, hbm⟩ := hfr.2 x hb
      rw [quant_no_rebind hw hr m hm] at hbm
      cases hbm

/-- what `splitHalf` returns -/
theorem splitHalf_total {q : Quant} {x : String} {d body a : Expr} (c : QCtx q x d body) (pa : PartOf x body a)
    (hrd : Rebuildable d) (hra : Rebuildable a) :
    ∃ e, splitHalf x d a = .ok e ∧ e.ty = T.BOOL ∧ Rebuildable e ∧
      ∀ n ∈ e.preorder, n ∈ d.preorder ∨ n ∈ a.preorder ∨ ((∀ y, isVarNamed y n = false) ∧ ∀ y, bindsName y n = true → y = x) := by
  have hsa : sub a.ty T.BOOL := by rw [pa.ty]; decide
  have hna : a.ty ≠ 0 := by rw [pa.ty]; decide
  obtain ⟨e0, he0⟩ := c.acc
  unfold splitHalf
  split
  · rename_i hx
    have hfa := mkForall_part c.hd c.hb c.hnd c.hnb he0 hsa hna pa.nodes hx
    refine ⟨_, hfa, rfl, ?_, ?_⟩
    · simp only [Rebuildable]
      exact ⟨hfa, hrd, hra⟩
    · intro n hn
      simp only [Expr.preorder, List.mem_cons, List.mem_append] at hn
      rcases hn with rfl | hn | hn
      · exact Or.inr (Or.inr ⟨fun _ => rfl, fun y hy => by simpa [bindsName] using hy⟩)
      · exact Or.inl hn
      · exact Or.inr (Or.inl hn)
  · simp only [emptyTest_eq c.hd c.hnd, bind, Except.bind]
    have hb : findBin Gen.OR_OPERATOR = some ⟨"or", T.BOOL, T.BOOL, T.BOOL, true, true, true⟩ := by decide
    refine ⟨_, mkBin_stable hb (by simp only [Expr.ty]; decide) (by rw [pa.ty]; decide) (fun _ => by rw [pa.ty]; rfl) (by simp only [Expr.ty]; decide) hna, rfl, ?_, ?_⟩
    · simp only [Rebuildable, RebuildableL]
      exact ⟨⟨⟨lenCall_ok c.hd c.hnd, hrd, trivial⟩, trivial⟩, hra⟩
    · intro n hn
      simp only [Expr.preorder, ExprList.preorder, List.mem_cons, List.mem_append, List.append_nil, List.not_mem_nil, or_false] at hn
      rcases hn with rfl | (rfl | (rfl | hn) | rfl) | hn
      · exact Or.inr (Or.inr ⟨fun _ => rfl, fun y hy => by simp [bindsName] at hy⟩)
      · exact Or.inr (Or.inr ⟨fun _ => rfl, fun y hy => by simp [bindsName] at hy⟩)
      · exact Or.inr (Or.inr ⟨fun _ => rfl, fun y hy => by simp [bindsName] at hy⟩)
      · exact Or.inl hn
      · exact Or.inr (Or.inr ⟨fun _ => rfl, fun y hy => by simp [bindsName] at hy⟩)
      · exact Or.inr (Or.inl hn)

/-- what is shown of one call of the transform on the node `e`: it can only run out of fuel, and a result is rebuildable and
    made of nodes of `e` and fresh nodes -/
structure SplitOut (e : Expr) (res : M Expr) : Prop where
  okf : OkOrFuel res
  out : ∀ r, res = .ok r → Rebuildable r ∧ From e r

theorem SplitOut.of_ok {e r : Expr} {res : M Expr} (h : res = .ok r) (hr : Rebuildable r) (hf : From e r) : SplitOut e res := by
  subst h
  exact ⟨fun err he => (by cases he), fun r' hr' => (by cases hr'; exact ⟨hr, hf⟩)⟩

theorem SplitOut.lift {E e : Expr} {res : M Expr} (h : SplitOut e res) (hf : From E e) : SplitOut E res :=
  ⟨h.okf, fun r hr => ⟨(h.out r hr).1, hf.trans_ (h.out r hr).2⟩⟩

structure SplitTotal (f : Nat) : Prop where
  pre : ∀ e, WT e → Rebuildable e → SplitOut e (presplit f e)
  nt : ∀ t op phi, WT (.un t op phi) → Rebuildable (.un t op phi) → SplitOut (.un t op phi) (splitNot f (.un t op phi) phi)
  qt : ∀ t q x d phi, WT (.quant t q x d phi) → Rebuildable (.quant t q x d phi) →
    SplitOut (.quant t q x d phi) (splitQuant f (.quant t q x d phi) q x d phi)

theorem fuel_out {e : Expr} {res : M Expr} (h : res = .error (.internal "fuel")) : SplitOut e res := by
  subst h
  exact ⟨fun err he => (by cases he; rfl), fun r hr => (by cases hr)⟩

theorem splitTotal : ∀ f, SplitTotal f
  | 0 => ⟨fun e _ _ => fuel_out (by simp [presplit]), fun _ _ _ _ _ => fuel_out (by simp [splitNot]),
          fun _ _ _ _ _ _ _ => fuel_out (by simp [splitQuant])⟩
  | f + 1 => by
    have ih := splitTotal f
    refine ⟨?_, ?_, ?_⟩
    · intro e hw hrb
      cases e with
      | un t op phi =>
        simp only [presplit]
        split
        · exact ih.nt t op phi hw hrb
        · exact .of_ok rfl hrb (From.refl_ _)
      | quant t q x d phi =>
        simp only [presplit]
        exact ih.qt t q x d phi hw hrb
      | lit _ _ _ | this _ | var _ _ | set _ _ | range _ _ _ _ _ | bin _ _ _ _ | call _ _ _ | field _ _ _ | index _ _ _ =>
        simp only [presplit]; exact .of_ok rfl hrb (From.refl_ _)
    · intro t op phi hw hrb
      have hwp := WT_un_inv hw
      simp only [Rebuildable] at hrb
      cases phi with
      | un t2 op2 p =>
        simp only [splitNot]
        split
        · simp only [Rebuildable] at hrb
          refine (ih.pre p (WT_un_inv hwp) hrb).lift ?_
          intro n hn
          exact Or.inl (by simp only [Expr.preorder, List.mem_cons]; exact Or.inr (Or.inr hn))
        · exact .of_ok rfl (by simpa only [Rebuildable] using hrb) (From.refl_ _)
      | bin t2 op2 a b =>
        simp only [Rebuildable] at hrb
        simp only [splitNot]
        split
        · rename_i hop
          have hop' : op2 = "or" := by simpa [Gen.OR_OPERATOR] using hop
          obtain ⟨hta, htb, _⟩ := WT_logic_operands hwp (Or.inr (Or.inl hop'))
          simp only [mkNot_ok hta, mkNot_ok htb, bind, Except.bind]
          refine .of_ok (mkAnd_ok (a := .un T.BOOL Gen.NOT_OPERATOR a) (b := .un T.BOOL Gen.NOT_OPERATOR b) rfl rfl) ?_ ?_
          · simp only [Rebuildable]; exact hrb
          · intro n hn
            simp only [Expr.preorder, List.mem_cons, List.mem_append] at hn ⊢
            rcases hn with rfl | (rfl | hn) | (rfl | hn)
            · exact Or.inr (fresh_bin _ _ _ _ _)
            · exact Or.inr (fresh_un _ _ _ _)
            · exact Or.inl (Or.inr (Or.inr (Or.inl hn)))
            · exact Or.inr (fresh_un _ _ _ _)
            · exact Or.inl (Or.inr (Or.inr (Or.inr hn)))
        · split
          · rename_i hop
            have hop' : op2 = "implies" := by simpa [Gen.IMPLIES_OPERATOR] using hop
            obtain ⟨hta, htb, _⟩ := WT_logic_operands hwp (Or.inr (Or.inr hop'))
            simp only [mkNot_ok htb, bind, Except.bind]
            refine .of_ok (mkAnd_ok (a := a) (b := .un T.BOOL Gen.NOT_OPERATOR b) hta rfl) ?_ ?_
            · simp only [Rebuildable]; exact hrb
            · intro n hn
              simp only [Expr.preorder, List.mem_cons, List.mem_append] at hn ⊢
              rcases hn with rfl | hn | (rfl | hn)
              · exact Or.inr (fresh_bin _ _ _ _ _)
              · exact Or.inl (Or.inr (Or.inr (Or.inl hn)))
              · exact Or.inr (fresh_un _ _ _ _)
              · exact Or.inl (Or.inr (Or.inr (Or.inr hn)))
          · exact .of_ok rfl (by simpa only [Rebuildable] using hrb) (From.refl_ _)
      | quant t2 q2 x d p =>
        cases q2 with
        | all => simp only [splitNot]; exact .of_ok rfl (by simpa only [Rebuildable] using hrb) (From.refl_ _)
        | some =>
          simp only [Rebuildable] at hrb
          have c := QCtx.of_WT hwp hrb.1
          have htp : p.ty = T.BOOL := bool_of_sub c.hb c.hnb
          have hpx := quant_uses_var hwp hrb.1
          have hnpx : (Expr.un T.BOOL Gen.NOT_OPERATOR p).containsRef x = true := by simpa [Expr.containsRef] using hpx
          have hpart : PartOf x p (.un T.BOOL Gen.NOT_OPERATOR p) := (PartOf.refl_ htp).not_
          have hfa := mkForall_part c.hd c.hb c.hnd c.hnb hrb.1 (by simp only [Expr.ty]; decide) (by simp only [Expr.ty]; decide) hpart.nodes hnpx
          have hwQ : WT (.quant T.BOOL .all x d (.un T.BOOL Gen.NOT_OPERATOR p)) :=
            mkForall_WT hfa (WT_quant_inv hwp).1 (mkNot_WT (mkNot_ok htp) (WT_quant_inv hwp).2)
          have hrQ : Rebuildable (.quant T.BOOL .all x d (.un T.BOOL Gen.NOT_OPERATOR p)) := by
            simp only [Rebuildable]; exact ⟨hfa, hrb.2.1, hrb.2.2⟩
          simp only [splitNot, mkNot_ok htp, bind, Except.bind, hnpx, if_true, hfa]
          refine (ih.qt _ _ _ _ _ hwQ hrQ).lift ?_
          intro n hn
          simp only [Expr.preorder, List.mem_cons, List.mem_append] at hn ⊢
          rcases hn with rfl | hn | (rfl | hn)
          · refine Or.inr ⟨fun _ => rfl, fun y hy => ⟨.quant t2 .some x d p, ?_, by simpa [bindsName] using hy⟩⟩
            simp [Expr.preorder]
          · exact Or.inl (Or.inr (Or.inr (Or.inl hn)))
          · exact Or.inr (fresh_un _ _ _ _)
          · exact Or.inl (Or.inr (Or.inr (Or.inr hn)))
      | lit _ _ _ | this _ | var _ _ | set _ _ | range _ _ _ _ _ | call _ _ _ | field _ _ _ | index _ _ _ =>
        simp only [splitNot]; exact .of_ok rfl (by simpa only [Rebuildable] using hrb) (From.refl_ _)
    · intro t q x d phi hw hrb
      cases q with
      | some => simp only [splitQuant]; exact .of_ok rfl hrb (From.refl_ _)
      | all =>
        have hrb' := hrb
        simp only [Rebuildable] at hrb'
        have hwphi := (WT_quant_inv hw).2
        have hp := ih.pre phi hwphi hrb'.2.2
        have c := QCtx.of_WT hw hrb'.1
        simp only [splitQuant]
        cases hres : presplit f phi with
        | error err =>
          have := hp.okf err hres
          subst this
          exact fuel_out rfl
        | ok phi' =>
          obtain ⟨hrphi', hfrom⟩ := hp.out phi' hres
          have hwphi' := (splitTyped f).pre _ _ hres hwphi
          simp only [bind, Except.bind]
          split
          · rename_i t1 op a b
            split
            · rename_i hop
              have hop' : op = "and" := by simpa [Gen.AND_OPERATOR] using hop
              obtain ⟨hta, htb, _⟩ := WT_logic_operands hwphi' (Or.inl hop')
              simp only [Rebuildable] at hrphi'
              have pa : PartOf x phi a := partOf_of_from hw hrb'.1 hfrom
                (fun n hn => by simp only [Expr.preorder, List.mem_cons, List.mem_append]; exact Or.inr (Or.inl hn)) hta
              have pb : PartOf x phi b := partOf_of_from hw hrb'.1 hfrom
                (fun n hn => by simp only [Expr.preorder, List.mem_cons, List.mem_append]; exact Or.inr (Or.inr hn)) htb
              obtain ⟨qa, hqa, htqa, hrqa, hnqa⟩ := splitHalf_total c pa hrb'.2.1 hrphi'.1
              obtain ⟨qb, hqb, htqb, hrqb, hnqb⟩ := splitHalf_total c pb hrb'.2.1 hrphi'.2
              simp only [hqa, hqb]
              refine .of_ok (mkAnd_ok htqa htqb) (by simp only [Rebuildable]; exact ⟨hrqa, hrqb⟩) ?_
              have key : ∀ (sub : Expr), (∀ n ∈ sub.preorder, n ∈ (Expr.bin t1 op a b).preorder) → ∀ (qq : Expr),
                  (∀ n ∈ qq.preorder, n ∈ d.preorder ∨ n ∈ sub.preorder ∨ ((∀ y, isVarNamed y n = false) ∧ ∀ y, bindsName y n = true → y = x)) →
                  ∀ n ∈ qq.preorder, n ∈ (Expr.quant t .all x d phi).preorder ∨ Fresh (.quant t .all x d phi) n := by
                intro sub hsub qq hqq n hn
                rcases hqq n hn with h | h | h
                · exact Or.inl (by simp only [Expr.preorder, List.mem_cons, List.mem_append]; exact Or.inr (Or.inl h))
                · rcases hfrom n (hsub n h) with h' | h'
                  · exact Or.inl (by simp only [Expr.preorder, List.mem_cons, List.mem_append]; exact Or.inr (Or.inr h'))
                  · exact Or.inr (h'.mono (fun m hm => Or.inl (by simp only [Expr.preorder, List.mem_cons, List.mem_append]; exact Or.inr (Or.inr hm))))
                · refine Or.inr ⟨h.1, fun y hy => ⟨.quant t .all x d phi, by simp [Expr.preorder], ?_⟩⟩
                  have := h.2 y hy
                  subst this
                  simp [bindsName]
              intro n hn
              simp only [Expr.preorder, List.mem_cons, List.mem_append] at hn
              rcases hn with rfl | hn | hn
              · exact Or.inr (fresh_bin _ _ _ _ _)
              · exact key a (fun m hm => by simp only [Expr.preorder, List.mem_cons, List.mem_append]; exact Or.inr (Or.inl hm)) qa hnqa n hn
              · exact key b (fun m hm => by simp only [Expr.preorder, List.mem_cons, List.mem_append]; exact Or.inr (Or.inr hm)) qb hnqb n hn
            · exact .of_ok rfl hrb (From.refl_ _)
          · exact .of_ok rfl hrb (From.refl_ _)

/-- **the pre-split transform is total**: with the fuel `split_and` gives it, on a well-typed rebuildable tree, it returns a
    well-typed rebuildable tree -/
theorem presplit_total (e : Expr) (hw : WT e) (hrb : Rebuildable e) :
    ∃ r, presplit (splitFuel e) e = .ok r ∧ WT r ∧ Rebuildable r := by
  have h := (splitTotal (splitFuel e)).pre e hw hrb
  cases hres : presplit (splitFuel e) e with
  | error err =>
    have := h.okf err hres
    subst this
    exact absurd hres (presplit_splitFuel e)
  | ok r => exact ⟨r, rfl, (splitTyped _).pre _ _ hres hw, (h.out r hres).1⟩

/-- the work list: the only failures are running out of fuel and the ValueError raised for a conjunct that is literally `False` -/
theorem splitLoop_total : ∀ (f : Nat) (stack acc : List Expr), (∀ e ∈ stack, WT e ∧ Rebuildable e) →
    ∀ err, splitLoop f stack acc = .error err → err = fuelErr ∨ err = .value
  | 0, _, _, _, err, h => by simp only [splitLoop] at h; cases h; exact Or.inl rfl
  | f + 1, [], acc, _, err, h => by simp only [splitLoop] at h; cases h
  | f + 1, e :: stack, acc, hs, err, h => by
      have he := hs e (by simp)
      have hst : ∀ x ∈ stack, WT x ∧ Rebuildable x := fun x hx => hs x (List.mem_cons_of_mem _ hx)
      simp only [splitLoop] at h
      split at h
      · exact splitLoop_total f stack acc hst err h
      · split at h
        · cases h; exact Or.inr rfl
        · obtain ⟨e', he', hwe', hre'⟩ := presplit_total e he.1 he.2
          simp only [he', bind, Except.bind] at h
          split at h
          · rename_i t op a b
            split at h
            · refine splitLoop_total f _ acc ?_ err h
              have wab := WT_bin_inv hwe'
              simp only [Rebuildable] at hre'
              intro x hx
              simp only [List.mem_cons] at hx
              rcases hx with rfl | rfl | hx
              · exact ⟨wab.2, hre'.2⟩
              · exact ⟨wab.1, hre'.1⟩
              · exact hst x hx
            · exact splitLoop_total f stack _ hst err h
          · exact splitLoop_total f stack _ hst err h

/-- **C14 / C09, `split_and` is total (expressions)**: on a well-typed tree whose quantifier and call nodes pass their constructors,
    `split_and` returns a list of conjuncts, or reports unsatisfiability (the ValueError class, raised exactly for a conjunct that is
    the literal `False`: `splitAnd_value_only_false`); no constructor call inside it fails, no assertion fires, the fuel suffices -/
theorem splitAnd_total (e : Expr) (hw : WT e) (hrb : Rebuildable e) : (∃ l, splitAnd e = .ok l) ∨ splitAnd e = .error .value := by
  cases h : splitAnd e with
  | ok l => exact Or.inl ⟨l, rfl⟩
  | error err =>
    have := splitLoop_total _ [e] [] (by intro x hx; simp only [List.mem_singleton] at hx; subst hx; exact ⟨hw, hrb⟩) err h
    rcases this with rfl | rfl
    · exact absurd h (splitAnd_fuel_ok e)
    · exact Or.inr rfl

/-- ... in particular on everything the parser builds -/
theorem splitAnd_total_parsed (r : Raw) (e : Expr) (h : build r = .ok e) : (∃ l, splitAnd e = .ok l) ∨ splitAnd e = .error .value :=
  splitAnd_total e (build_WT r e h) (build_rebuildable r e h)

/-- the conjuncts `split_and` returns are again well-typed trees whose quantifier and call nodes pass their constructors … -/
theorem splitLoop_good : ∀ (f : Nat) (stack acc : List Expr) (l : List Expr), splitLoop f stack acc = .ok l →
    (∀ e ∈ stack, WT e ∧ Rebuildable e) → (∀ e ∈ acc, WT e ∧ Rebuildable e) → ∀ e ∈ l, WT e ∧ Rebuildable e
  | 0, _, _, l, h, _, _ => by simp [splitLoop] at h
  | f + 1, [], acc, l, h, _, ha => by simp only [splitLoop, Except.ok.injEq] at h; subst h; exact ha
  | f + 1, e :: stack, acc, l, h, hs, ha => by
      have he := hs e (by simp)
      have hst : ∀ x ∈ stack, WT x ∧ Rebuildable x := fun x hx => hs x (List.mem_cons_of_mem _ hx)
      simp only [splitLoop] at h
      split at h
      · exact splitLoop_good f stack acc l h hst ha
      · split at h
        · cases h
        · obtain ⟨e', he', hwe', hre'⟩ := presplit_total e he.1 he.2
          simp only [he', bind, Except.bind] at h
          have hacc : ∀ x ∈ acc ++ [e'], WT x ∧ Rebuildable x := by
            intro x hx
            rcases List.mem_append.1 hx with hx | hx
            · exact ha x hx
            · simp only [List.mem_singleton] at hx; subst hx; exact ⟨hwe', hre'⟩
          split at h
          · rename_i t op a b
            split at h
            · refine splitLoop_good f _ acc l h ?_ ha
              have wab := WT_bin_inv hwe'
              simp only [Rebuildable] at hre'
              intro x hx
              simp only [List.mem_cons] at hx
              rcases hx with rfl | rfl | hx
              · exact ⟨wab.2, hre'.2⟩
              · exact ⟨wab.1, hre'.1⟩
              · exact hst x hx
            · exact splitLoop_good f stack _ l h hst hacc
          · exact splitLoop_good f stack _ l h hst hacc

theorem splitAnd_good (e : Expr) (ps : List Expr) (h : splitAnd e = .ok ps) (hw : WT e) (hrb : Rebuildable e) :
    ∀ p ∈ ps, WT p ∧ Rebuildable p :=
  splitLoop_good _ [e] [] ps h (by intro x hx; simp only [List.mem_singleton] at hx; subst hx; exact ⟨hw, hrb⟩) (by simp)

/-- … so the rewriting functions compose: every conjunct of `split_and` of a parser output can be handed to `refactor_reference`
    (for any alias) and to `split_and` again, and neither fails -/
theorem refactor_after_split (r : Raw) (e : Expr) (ps : List Expr) (alias : String) (h : build r = .ok e) (hs : splitAnd e = .ok ps) :
    ∀ p ∈ ps, (∃ pr, refactorExpr p alias = .ok pr) ∧ ((∃ l, splitAnd p = .ok l) ∨ splitAnd p = .error .value) := by
  intro p hp
  obtain ⟨hw, hrb⟩ := splitAnd_good e ps hs (build_WT r e h) (build_rebuildable r e h) p hp
  exact ⟨refactorExpr_total p alias hw hrb, splitAnd_total p hw hrb⟩

/-- **`split_and` on predicates**: for the predicate made of any tree the parser builds -/
theorem splitAndPred_total_parsed (r : Raw) (e : Expr) (p : Pred) (h : build r = .ok e) (hp : mkPred e = .ok p) :
    (∃ l, splitAndPred p = .ok l) ∨ splitAndPred p = .error .value := by
  unfold mkPred at hp
  obtain ⟨e', he', hp⟩ := bind_ok hp
  split at hp
  · cases hp
    have hw := build_WT r e h
    exact splitAnd_total e' (castE_WT he' hw) (castE_rebuildable he' hw (build_rebuildable r e h))
  · cases hp

/-- the hypotheses are met and the transform does work: `not (exists i in xs: (@i > 0 or b))` becomes two conjuncts -/
example : ∃ e l, build (.un "not" (.quant .some "i" (.field .this "xs") (.bin "or" (.bin ">" (.var "i") (.lit "0" (.int 0))) (.field .this "b")))) = .ok e ∧
    splitAnd e = .ok l ∧ l.length = 2 := by
  refine ⟨_, _, by rfl, by rfl, by rfl⟩

/-! ## the halves `refactor_reference` returns are rebuildable too -/

theorem trueLit_rebuildable : Rebuildable trueLit := by simp [trueLit, Rebuildable]

theorem refAnd_rebuildable {alias : String} {op a b : Expr} {r : Expr × Expr} (h : refAnd alias op a b = .ok r)
    (ho : Rebuildable op) (ha : Rebuildable a) (hb : Rebuildable b) : Rebuildable r.1 ∧ Rebuildable r.2 := by
  unfold refAnd at h
  simp only at h
  split at h
  · cases h; exact ⟨hb, ha⟩
  · split at h
    · cases h; exact ⟨ha, hb⟩
    · split at h
      · cases h; exact ⟨trueLit_rebuildable, ho⟩
      · cases h

theorem refQuantAnd_rebuildable {alias : String} {q : Quant} {x : String} {quant d body a b : Expr} {r : Expr × Expr}
    (c : QCtx q x d body) (pa : PartOf x body a) (pb : PartOf x body b) (hrq : Rebuildable quant) (hrd : Rebuildable d)
    (hra : Rebuildable a) (hrb : Rebuildable b) (h : refQuantAnd alias x quant d a b = .ok r) : Rebuildable r.1 ∧ Rebuildable r.2 := by
  obtain ⟨ea, hea, _, hrea, _⟩ := splitHalf_total c pa hrd hra
  obtain ⟨eb, heb, _, hreb, _⟩ := splitHalf_total c pb hrd hrb
  unfold refQuantAnd at h
  simp only [hea, heb, bind, Except.bind, pure, Except.pure] at h
  split at h
  · cases h; exact ⟨hreb, hrea⟩
  · split at h
    · cases h; exact ⟨hrea, hreb⟩
    · split at h
      · cases h; exact ⟨trueLit_rebuildable, hrq⟩
      · cases h

theorem refQuant_rebuildable {alias : String} {t : DataType} {q : Quant} {x : String} {d body : Expr} {r : Expr × Expr}
    (hw : WT (.quant t q x d body)) (hrb : Rebuildable (.quant t q x d body))
    (h : refQuant alias (.quant t q x d body) = .ok r) : Rebuildable r.1 ∧ Rebuildable r.2 := by
  have hrb' := hrb
  simp only [Rebuildable] at hrb'
  have c := QCtx.of_WT hw hrb'.1
  have hwb : WT body := hw.2.2.1
  have self : Rebuildable (trueLit, Expr.quant t q x d body).1 ∧ Rebuildable (trueLit, Expr.quant t q x d body).2 :=
    ⟨trueLit_rebuildable, hrb⟩
  unfold refQuant at h
  simp only at h
  split at h
  · cases h; exact self
  · rename_i hdr
    split at h
    · cases h
    · rename_i hbr
      cases q with
      | some => simp only at h; cases h; exact self
        | all =>
          simp only at h
          split at h
          · rename_i t1 op t2 op2 a b
            split at h
            · rename_i hops
              simp only [Bool.and_eq_true, beq_iff_eq] at hops
              obtain ⟨hop1, hop2⟩ := hops
              have hor := WT_un_inv hwb
              obtain ⟨hta, htb, _⟩ := WT_logic_operands hor (Or.inr (Or.inl hop2))
              have hrab : Rebuildable a ∧ Rebuildable b := by simpa only [Rebuildable] using hrb'.2.2
              have pa : PartOf x (.un t1 op (.bin t2 op2 a b)) a :=
                ⟨hta, fun n hn => Or.inl (by simp only [Expr.preorder, List.mem_cons, List.mem_append]; exact Or.inr (Or.inr (Or.inl hn)))⟩
              have pb : PartOf x (.un t1 op (.bin t2 op2 a b)) b :=
                ⟨htb, fun n hn => Or.inl (by simp only [Expr.preorder, List.mem_cons, List.mem_append]; exact Or.inr (Or.inr (Or.inr hn)))⟩
              simp only [mkNot_ok hta, mkNot_ok htb, bind, Except.bind,
                mkAnd_ok (a := .un T.BOOL Gen.NOT_OPERATOR a) (b := .un T.BOOL Gen.NOT_OPERATOR b) rfl rfl] at h
              exact refQuantAnd_rebuildable c pa.not_ pb.not_ hrb hrb'.2.1 (by simpa only [Rebuildable] using hrab.1)
                (by simpa only [Rebuildable] using hrab.2) h
            · cases h; exact self
          · rename_i t1 op a b
            split at h
            · rename_i hop
              have hop' : op = "and" := by simpa [Gen.AND_OPERATOR] using hop
              obtain ⟨hta, htb, _⟩ := WT_logic_operands hwb (Or.inl hop')
              have hrab : Rebuildable a ∧ Rebuildable b := by simpa only [Rebuildable] using hrb'.2.2
              have pa : PartOf x (.bin t1 op a b) a :=
                ⟨hta, fun n hn => Or.inl (by simp only [Expr.preorder, List.mem_cons, List.mem_append]; exact Or.inr (Or.inl hn))⟩
              have pb : PartOf x (.bin t1 op a b) b :=
                ⟨htb, fun n hn => Or.inl (by simp only [Expr.preorder, List.mem_cons, List.mem_append]; exact Or.inr (Or.inr hn))⟩
              exact refQuantAnd_rebuildable c pa pb hrb hrb'.2.1 hrab.1 hrab.2 h
            · cases h; exact self
          · cases h; exact self

theorem refactor_rebuildable (alias : String) : ∀ f,
    (∀ e r, WT e → Rebuildable e → refExpr alias f e = .ok r → Rebuildable r.1 ∧ Rebuildable r.2) ∧
    (∀ neg e r, WT e → Rebuildable e → Rebuildable neg → refNeg alias f neg e = .ok r → Rebuildable r.1 ∧ Rebuildable r.2) := by
  intro f
  induction f with
  | zero =>
    refine ⟨fun e r _ _ h => ?_, fun neg e r _ _ _ h => ?_⟩
    · simp only [refExpr] at h; cases h
    · simp only [refNeg] at h; cases h
  | succ f ih =>
    obtain ⟨ihE, ihN⟩ := ih
    refine ⟨?_, ?_⟩
    · intro e r hw hrb h
      simp only [refExpr] at h
      split at h
      · cases h; exact ⟨hrb, trueLit_rebuildable⟩
      · rename_i href
        split at h
        · cases h; exact ⟨trueLit_rebuildable, hrb⟩
        · rename_i hbool
          split at h
          · cases h; exact ⟨trueLit_rebuildable, hrb⟩
          · rename_i hkind
            split at h
            · rename_i t q x d body
              exact refQuant_rebuildable hw hrb h
            · rename_i t op a
              split at h
              · have hrb' := hrb
                simp only [Rebuildable] at hrb'
                exact ihN _ _ _ (WT_un_inv hw) hrb' hrb h
              · cases h
            · rename_i t op a b
              split at h
              · have hrb' := hrb
                simp only [Rebuildable] at hrb'
                exact refAnd_rebuildable h hrb hrb'.1 hrb'.2
              · cases h; exact ⟨trueLit_rebuildable, hrb⟩
            · cases h
    · intro neg e r hw hrb hrn h
      simp only [refNeg] at h
      split at h
      · cases h
      · rename_i hass
        split at h
        · cases h; exact ⟨trueLit_rebuildable, hrn⟩
        · rename_i hkind
          split at h
          · rename_i t x d p
            have hrb' := hrb
            simp only [Rebuildable] at hrb'
            have c := QCtx.of_WT hw hrb'.1
            have htp : p.ty = T.BOOL := bool_of_sub c.hb c.hnb
            have hpx := quant_uses_var hw hrb'.1
            have hnpx : (Expr.un T.BOOL Gen.NOT_OPERATOR p).containsRef x = true := by simpa [Expr.containsRef] using hpx
            have hpart : PartOf x p (.un T.BOOL Gen.NOT_OPERATOR p) := (PartOf.refl_ htp).not_
            have hfa := mkForall_part c.hd c.hb c.hnd c.hnb hrb'.1 (by simp only [Expr.ty]; decide) (by simp only [Expr.ty]; decide) hpart.nodes hnpx
            have hwQ : WT (.quant T.BOOL .all x d (.un T.BOOL Gen.NOT_OPERATOR p)) :=
              mkForall_WT hfa (WT_quant_inv hw).1 (mkNot_WT (mkNot_ok htp) (WT_quant_inv hw).2)
            have hrQ : Rebuildable (.quant T.BOOL .all x d (.un T.BOOL Gen.NOT_OPERATOR p)) := by
              simp only [Rebuildable]; exact ⟨hfa, hrb'.2.1, hrb'.2.2⟩
            simp only [mkNot_ok htp, bind, Except.bind, hnpx, if_true, hfa] at h
            exact refQuant_rebuildable hwQ hrQ h
          · cases h; exact ⟨trueLit_rebuildable, hrn⟩
          · rename_i t op a
            split at h
            · have hrb' := hrb
              simp only [Rebuildable] at hrb'
              exact ihE _ _ (WT_un_inv hw) hrb' h
            · cases h; exact ⟨trueLit_rebuildable, hrn⟩
          · rename_i t op a b
            have hrb' := hrb
            simp only [Rebuildable] at hrb'
            split at h
            · rename_i hop
              have hop' : op = "implies" := by simpa [Gen.IMPLIES_OPERATOR] using hop
              obtain ⟨hta, htb, _⟩ := WT_logic_operands hw (Or.inr (Or.inr hop'))
              simp only [mkNot_ok htb, bind, Except.bind, mkAnd_ok (a := a) (b := .un T.BOOL Gen.NOT_OPERATOR b) hta rfl] at h
              exact refAnd_rebuildable h (by simp only [Rebuildable]; exact hrb') hrb'.1 (by simp only [Rebuildable]; exact hrb'.2)
            · split at h
              · rename_i hop
                have hop' : op = "or" := by simpa [Gen.OR_OPERATOR] using hop
                obtain ⟨hta, htb, _⟩ := WT_logic_operands hw (Or.inr (Or.inl hop'))
                simp only [mkNot_ok hta, mkNot_ok htb, bind, Except.bind,
                  mkAnd_ok (a := .un T.BOOL Gen.NOT_OPERATOR a) (b := .un T.BOOL Gen.NOT_OPERATOR b) rfl rfl] at h
                exact refAnd_rebuildable h (by simp only [Rebuildable]; exact hrb') (by simp only [Rebuildable]; exact hrb'.1)
                  (by simp only [Rebuildable]; exact hrb'.2)
              · cases h; exact ⟨trueLit_rebuildable, hrn⟩
          · cases h

/-- both halves `refactor_reference` returns are again well-typed and rebuildable: its results can be rewritten further -/
theorem refactorExpr_good (e : Expr) (alias : String) (r : Expr × Expr) (h : refactorExpr e alias = .ok r) (hw : WT e) (hrb : Rebuildable e) :
    (WT r.1 ∧ Rebuildable r.1) ∧ (WT r.2 ∧ Rebuildable r.2) := by
  have h1 := refactorExpr_WT e alias r h hw
  have h2 := (refactor_rebuildable alias _).1 e r hw hrb h
  exact ⟨⟨h1.1, h2.1⟩, ⟨h1.2, h2.2⟩⟩

end Hpl
