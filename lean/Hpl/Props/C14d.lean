import Hpl.Props.C02
import Hpl.Props.C11
import Hpl.Props.C14
/-! C14 / C11, when `canonical_form` is total: the only way it fails is the sanity check of a copy (`canonical_error_is_sanity_of_copy`),
    and a copy fails it only by losing an alias that a later event references (the known finding `C11-split-unbinds-alias`).  Proved
    here: on an accepted property whose split positions bind no alias, every copy passes the check, so `canonical_form` returns
    its (non-empty) list. -/
namespace Hpl

theorem simpleEvents_sub : ∀ (E e : Event), e ∈ E.simpleEvents →
    (∀ r ∈ e.freeRefs, r ∈ E.freeRefs) ∧ (∀ a ∈ e.aliases, a ∈ E.aliases) ∧ (E.quantOK → e.quantOK)
  | .simple n a p, e, h => by
      simp only [Event.simpleEvents, List.mem_singleton] at h
      subst h
      exact ⟨fun _ h => h, fun _ h => h, fun h => h⟩
  | .disj x y, e, h => by
      simp only [Event.simpleEvents, List.mem_append] at h
      rcases h with h | h
      · obtain ⟨h1, h2, h3⟩ := simpleEvents_sub x e h
        exact ⟨fun r hr => by simp only [Event.freeRefs, List.mem_append]; exact Or.inl (h1 r hr),
               fun a ha => by simp only [Event.aliases, List.mem_append]; exact Or.inl (h2 a ha), fun hq => h3 hq.1⟩
      · obtain ⟨h1, h2, h3⟩ := simpleEvents_sub y e h
        exact ⟨fun r hr => by simp only [Event.freeRefs, List.mem_append]; exact Or.inr (h1 r hr),
               fun a ha => by simp only [Event.aliases, List.mem_append]; exact Or.inr (h2 a ha), fun hq => h3 hq.2⟩

theorem Bound.of_alternative {E e : Event} {avail : List String} (hb : Bound E avail) (h : e ∈ E.simpleEvents) : Bound e avail :=
  ⟨fun r hr => hb.1 r ((simpleEvents_sub E e h).1 r hr), fun a ha => hb.2 a ((simpleEvents_sub E e h).2.1 a ha)⟩

theorem EvOK.of_alternative {E e : Event} (hb : EvOK E) (h : e ∈ E.simpleEvents) : EvOK e :=
  ⟨(simpleEvents_sub E e h).2.2 hb.1, fun a ha => hb.2 a ((simpleEvents_sub E e h).2.1 a ha)⟩

theorem aliases_nil_of_alternative {E e : Event} (hn : E.aliases = []) (h : e ∈ E.simpleEvents) : e.aliases = [] := by
  cases he : e.aliases with
  | nil => rfl
  | cons a as =>
    have := (simpleEvents_sub E e h).2.1 a (by rw [he]; simp)
    rw [hn] at this; cases this

/-- the event positions `canonical_form` splits bind no alias -/
def SplitsBindNothing (p : Property) : Prop :=
  (∀ a, p.scope.activator = some a → (p.scope.kind = .after ∨ p.scope.kind = .afterUntil) → a.aliases = []) ∧
  (∀ e, splitEvent p.pattern = some e → e.aliases = [])

theorem canonicalScopes_ok {s s' : Scope} (hs : ScopeOK s)
    (hna : ∀ a, s.activator = some a → (s.kind = .after ∨ s.kind = .afterUntil) → a.aliases = [])
    (hfree : ∀ a, s.activator = some a → ∀ r ∈ a.freeRefs, False) (hs' : s' ∈ canonicalScopes s) :
    ScopeOK s' ∧ actAliases s' = actAliases s ∧ s'.terminator = s.terminator ∧ (∀ a, s'.activator = some a → ∀ r ∈ a.freeRefs, False) := by
  have self : ScopeOK s ∧ actAliases s = actAliases s ∧ s.terminator = s.terminator ∧ (∀ a, s.activator = some a → ∀ r ∈ a.freeRefs, False) :=
    ⟨hs, rfl, rfl, hfree⟩
  have split : ∀ a, s.activator = some a → (s.kind = .after ∨ s.kind = .afterUntil) → ∀ e ∈ a.simpleEvents,
      ScopeOK { s with activator := some e } ∧ actAliases { s with activator := some e } = actAliases s ∧
      ({ s with activator := some e } : Scope).terminator = s.terminator ∧
      (∀ a', ({ s with activator := some e } : Scope).activator = some a' → ∀ r ∈ a'.freeRefs, False) := by
    intro a ha hk e he
    refine ⟨⟨?_, hs.2⟩, ?_, rfl, ?_⟩
    · intro a' ha'; cases ha'; exact (hs.1 a ha).of_alternative he
    · simp only [actAliases, ha, aliases_nil_of_alternative (hna a ha hk) he, hna a ha hk]
    · intro a' ha' r hr; cases ha'
      exact hfree a ha r ((simpleEvents_sub a e he).1 r hr)
  unfold canonicalScopes at hs'
  split at hs'
  · rename_i a hk ha
    obtain ⟨e, he, rfl⟩ := List.mem_map.1 hs'
    exact split a ha (Or.inl hk) e he
  · rename_i a hk ha
    obtain ⟨e, he, rfl⟩ := List.mem_map.1 hs'
    exact split a ha (Or.inr hk) e he
  · simp only [List.mem_singleton] at hs'; subst hs'; exact self

theorem canonicalPatterns_ok {q q' : Pattern} (hq : PatOK q) (hna : ∀ e, splitEvent q = some e → e.aliases = [])
    (hq' : q' ∈ canonicalPatterns q) : PatOK q' ∧ ∀ avail, PatternScoped q avail → PatternScoped q' avail := by
  unfold canonicalPatterns at hq'
  unfold splitEvent at hna
  cases hk : q.kind <;> simp only [hk, PatternKind.isSafety, if_true, Bool.false_eq_true, if_false] at hq' hna
  · -- absence
    obtain ⟨e, he, rfl⟩ := List.mem_map.1 hq'
    refine ⟨⟨hq.1.of_alternative he, hq.2⟩, fun avail h => ?_⟩
    unfold PatternScoped at h ⊢
    simp only [hk] at h ⊢
    exact h.of_alternative he
  · -- existence
    simp only [List.mem_singleton] at hq'; subst hq'; exact ⟨hq, fun _ h => h⟩
  · -- requirement
    obtain ⟨e, he, rfl⟩ := List.mem_map.1 hq'
    have hnb := hna _ rfl
    refine ⟨⟨hq.1.of_alternative he, hq.2⟩, fun avail h => ?_⟩
    unfold PatternScoped at h ⊢
    cases ht : q.trigger with
    | none => simp only [hk, ht] at h
    | some t =>
      simp only [hk, ht] at h ⊢
      refine ⟨h.1.of_alternative he, ?_⟩
      rw [aliases_nil_of_alternative hnb he]; rw [hnb] at h; exact h.2
  · -- response
    cases ht : q.trigger with
    | none => simp only [ht, List.mem_singleton] at hq'; subst hq'; exact ⟨hq, fun _ h => h⟩
    | some t =>
      simp only [ht] at hq' hna
      obtain ⟨e, he, rfl⟩ := List.mem_map.1 hq'
      have hnb := hna _ rfl
      refine ⟨⟨hq.1, ?_⟩, fun avail h => ?_⟩
      · intro t' ht'; cases ht'; exact (hq.2 t ht).of_alternative he
      · unfold PatternScoped at h ⊢
        simp only [hk, ht] at h ⊢
        refine ⟨h.1.of_alternative he, ?_⟩
        rw [aliases_nil_of_alternative hnb he]; rw [hnb] at h; exact h.2
  · -- prevention
    obtain ⟨e, he, rfl⟩ := List.mem_map.1 hq'
    refine ⟨⟨hq.1.of_alternative he, hq.2⟩, fun avail h => ?_⟩
    unfold PatternScoped at h ⊢
    cases ht : q.trigger with
    | none => simp only [hk, ht] at h
    | some t =>
      simp only [hk, ht] at h ⊢
      exact ⟨h.1, h.2.of_alternative he⟩

/-- **C14 / C11, `canonical_form` is total where no split position binds an alias**: on an accepted property (`WellScoped`, what
    `HplProperty` checks) whose split positions — the activator of an `after` scope, the behaviour of a safety pattern, the trigger
    of a response — bind no alias, every copy passes `but()`'s sanity check and `canonical_form` returns a non-empty list.  (With
    an alias in a split position the copies for the other alternatives lose it: the known finding.) -/
theorem canonical_total (p : Property) (hs : ScopeOK p.scope) (hq : PatOK p.pattern) (hw : WellScoped p.scope p.pattern)
    (hna : SplitsBindNothing p) : ∃ qs, canonical p = .ok qs ∧ qs ≠ [] := by
  cases h : canonical p with
  | ok qs => exact ⟨qs, rfl, canonical_nonempty p qs h⟩
  | error e =>
    obtain ⟨s', hs', q', hq', herr⟩ := canonical_error_is_sanity_of_copy p e h
    obtain ⟨hso, hal, hterm, hfree⟩ := canonicalScopes_ok hs hna.1 hw.1 hs'
    obtain ⟨hqo, hps⟩ := canonicalPatterns_ok hq hna.2 hq'
    have hws : WellScoped s' q' := by
      refine ⟨hfree, ?_, ?_⟩
      · rw [hal]; exact hps _ hw.2.1
      · intro t ht; rw [hal]; rw [hterm] at ht; exact hw.2.2 t ht
    rw [(sanityCheck_ok_iff s' q' hso hqo).2 hws] at herr
    cases herr

/-! ## exactly when `canonical_form` fails -/

theorem canonicalScopes_scopeOK {s s' : Scope} (hs : ScopeOK s) (hs' : s' ∈ canonicalScopes s) : ScopeOK s' := by
  unfold canonicalScopes at hs'
  split at hs'
  · rename_i a hk ha
    obtain ⟨e, he, rfl⟩ := List.mem_map.1 hs'
    exact ⟨fun a' ha' => by cases ha'; exact (hs.1 a ha).of_alternative he, hs.2⟩
  · rename_i a hk ha
    obtain ⟨e, he, rfl⟩ := List.mem_map.1 hs'
    exact ⟨fun a' ha' => by cases ha'; exact (hs.1 a ha).of_alternative he, hs.2⟩
  · simp only [List.mem_singleton] at hs'; subst hs'; exact hs

theorem canonicalPatterns_patOK {q q' : Pattern} (hq : PatOK q) (hq' : q' ∈ canonicalPatterns q) : PatOK q' := by
  unfold canonicalPatterns at hq'
  split at hq'
  · obtain ⟨e, he, rfl⟩ := List.mem_map.1 hq'
    exact ⟨hq.1.of_alternative he, hq.2⟩
  · split at hq'
    · rename_i t hk ht
      obtain ⟨e, he, rfl⟩ := List.mem_map.1 hq'
      exact ⟨hq.1, fun t' ht' => by cases ht'; exact (hq.2 t ht).of_alternative he⟩
    · simp only [List.mem_singleton] at hq'; subst hq'; exact hq

theorem mapM_ok_all {α β : Type} (f : α → M β) : ∀ (l : List α) (r : List β), l.mapM f = .ok r → ∀ a ∈ l, ∃ b, f a = .ok b
  | [], _, _, a, ha => by cases ha
  | x :: l, r, h, a, ha => by
      rw [List.mapM_cons] at h
      obtain ⟨b, hb, h⟩ := bind_ok h
      obtain ⟨bs, hbs, _⟩ := bind_ok h
      rcases List.mem_cons.1 ha with rfl | ha
      · exact ⟨b, hb⟩
      · exact mapM_ok_all f l bs hbs a ha

/-- **exactly when `canonical_form` succeeds**: on a property whose events pass their constructors, either nothing is split (the
    property is returned as it is), or every copy — one alternative in each split position — is well-scoped by itself.  So the
    failure recorded as known finding `C11-split-unbinds-alias` (a copy that lost the alias a later event references, or …) is the
    *only* failure there is, and `WellScoped` of the copies is its exact description -/
theorem canonical_ok_iff (p : Property) (hs : ScopeOK p.scope) (hq : PatOK p.pattern) :
    (∃ qs, canonical p = .ok qs) ↔
      ((canonicalScopes p.scope).length = 1 ∧ (canonicalPatterns p.pattern).length = 1) ∨
      ∀ s' ∈ canonicalScopes p.scope, ∀ q' ∈ canonicalPatterns p.pattern, WellScoped s' q' := by
  constructor
  · rintro ⟨qs, h⟩
    by_cases hone : (canonicalScopes p.scope).length = 1 ∧ (canonicalPatterns p.pattern).length = 1
    · exact Or.inl hone
    · refine Or.inr (fun s' hs' q' hq' => ?_)
      unfold canonical at h
      simp only [hone, if_false] at h
      obtain ⟨b, hb⟩ := mapM_ok_all _ _ _ h (s', q') (List.mem_flatMap.2 ⟨s', hs', List.mem_map.2 ⟨q', hq', rfl⟩⟩)
      unfold butProp at hb
      obtain ⟨u, hu, _⟩ := bind_ok hb
      cases u
      exact (sanityCheck_ok_iff s' q' (canonicalScopes_scopeOK hs hs') (canonicalPatterns_patOK hq hq')).1 hu
  · rintro (hone | hall)
    · exact ⟨[p], by unfold canonical; simp only [hone, and_self, if_true]⟩
    · cases h : canonical p with
      | ok qs => exact ⟨qs, rfl⟩
      | error e =>
        obtain ⟨s', hs', q', hq', herr⟩ := canonical_error_is_sanity_of_copy p e h
        rw [(sanityCheck_ok_iff s' q' (canonicalScopes_scopeOK hs hs') (canonicalPatterns_patOK hq hq')).2 (hall s' hs' q' hq')] at herr
        cases herr

/-! ## the general form: aliases in split positions are fine as long as no other event references them -/

theorem Bound.mono_avail {ev : Event} {avail avail' : List String} (hb : Bound ev avail) (hsub : ∀ a ∈ avail', a ∈ avail)
    (hrefs : ∀ r ∈ ev.freeRefs, r ∈ avail → r ∈ avail') : Bound ev avail' :=
  ⟨fun r hr => hrefs r hr (hb.1 r hr), fun a ha hin => hb.2 a ha (hsub a hin)⟩

/-- the aliases bound in the positions `canonical_form` splits -/
def splitAliases (p : Property) : List String :=
  (match p.scope.kind, p.scope.activator with
    | .after, some a | .afterUntil, some a => a.aliases
    | _, _ => []) ++
  (match splitEvent p.pattern with | some e => e.aliases | none => [])

/-- no event references an alias bound in a split position (the situation of the known finding, negated) -/
def NoRefToSplitAlias (p : Property) : Prop :=
  (∀ r ∈ p.pattern.behaviour.freeRefs, r ∉ splitAliases p) ∧
  (∀ t, p.pattern.trigger = some t → ∀ r ∈ t.freeRefs, r ∉ splitAliases p) ∧
  (∀ q, p.scope.terminator = some q → ∀ r ∈ q.freeRefs, r ∉ splitAliases p)

theorem PatternScoped.shrink {q : Pattern} {avail avail' : List String} (h : PatternScoped q avail)
    (hsub : ∀ a ∈ avail', a ∈ avail)
    (hb : ∀ r ∈ q.behaviour.freeRefs, r ∈ avail → r ∈ avail')
    (ht : ∀ t, q.trigger = some t → ∀ r ∈ t.freeRefs, r ∈ avail → r ∈ avail') : PatternScoped q avail' := by
  unfold PatternScoped at h ⊢
  cases hk : q.kind <;> cases htg : q.trigger <;> simp only [hk, htg] at h ⊢
  all_goals first
    | exact h.mono_avail hsub hb
    | skip
  · -- requirement
    rename_i t
    refine ⟨h.1.mono_avail hsub hb, h.2.mono_avail ?_ ?_⟩
    · intro a ha; rcases List.mem_append.1 ha with h1 | h1
      · exact List.mem_append.2 (Or.inl h1)
      · exact List.mem_append.2 (Or.inr (hsub a h1))
    · intro r hr hin; rcases List.mem_append.1 hin with h1 | h1
      · exact List.mem_append.2 (Or.inl h1)
      · exact List.mem_append.2 (Or.inr (ht t htg r hr h1))
  · -- response
    rename_i t
    refine ⟨h.1.mono_avail hsub (ht t htg), h.2.mono_avail ?_ ?_⟩
    · intro a ha; rcases List.mem_append.1 ha with h1 | h1
      · exact List.mem_append.2 (Or.inl h1)
      · exact List.mem_append.2 (Or.inr (hsub a h1))
    · intro r hr hin; rcases List.mem_append.1 hin with h1 | h1
      · exact List.mem_append.2 (Or.inl h1)
      · exact List.mem_append.2 (Or.inr (hb r hr h1))
  · -- prevention
    rename_i t
    refine ⟨h.1.mono_avail hsub (ht t htg), h.2.mono_avail ?_ ?_⟩
    · intro a ha; rcases List.mem_append.1 ha with h1 | h1
      · exact List.mem_append.2 (Or.inl h1)
      · exact List.mem_append.2 (Or.inr (hsub a h1))
    · intro r hr hin; rcases List.mem_append.1 hin with h1 | h1
      · exact List.mem_append.2 (Or.inl h1)
      · exact List.mem_append.2 (Or.inr (hb r hr h1))

theorem canonicalScopes_cases {s s' : Scope} (hs' : s' ∈ canonicalScopes s) :
    s' = s ∨ ∃ a e, s.activator = some a ∧ (s.kind = .after ∨ s.kind = .afterUntil) ∧ e ∈ a.simpleEvents ∧ s' = { s with activator := some e } := by
  unfold canonicalScopes at hs'
  split at hs'
  · rename_i a hk ha
    obtain ⟨e, he, rfl⟩ := List.mem_map.1 hs'
    exact Or.inr ⟨a, e, ha, Or.inl hk, he, rfl⟩
  · rename_i a hk ha
    obtain ⟨e, he, rfl⟩ := List.mem_map.1 hs'
    exact Or.inr ⟨a, e, ha, Or.inr hk, he, rfl⟩
  · simp only [List.mem_singleton] at hs'; exact Or.inl hs'

theorem canonicalPatterns_scoped {q q' : Pattern} (hq' : q' ∈ canonicalPatterns q)
    (hb : ∀ r ∈ q.behaviour.freeRefs, ∀ e, splitEvent q = some e → r ∉ e.aliases)
    (ht : ∀ t, q.trigger = some t → ∀ r ∈ t.freeRefs, ∀ e, splitEvent q = some e → r ∉ e.aliases) :
    (∀ avail, PatternScoped q avail → PatternScoped q' avail) ∧
    (∀ r ∈ q'.behaviour.freeRefs, r ∈ q.behaviour.freeRefs) ∧
    (∀ t', q'.trigger = some t' → ∃ t, q.trigger = some t ∧ ∀ r ∈ t'.freeRefs, r ∈ t.freeRefs) := by
  have keep : ∀ {ev : Event} {X Y avail : List String}, Bound ev (X ++ avail) → (∀ a ∈ Y, a ∈ X) → (∀ r ∈ ev.freeRefs, r ∉ X) →
      Bound ev (Y ++ avail) := by
    intro ev X Y avail h hsub hno
    refine h.mono_avail ?_ ?_
    · intro a ha; rcases List.mem_append.1 ha with h1 | h1
      · exact List.mem_append.2 (Or.inl (hsub a h1))
      · exact List.mem_append.2 (Or.inr h1)
    · intro r hr hin; rcases List.mem_append.1 hin with h1 | h1
      · exact absurd h1 (hno r hr)
      · exact List.mem_append.2 (Or.inr h1)
  unfold canonicalPatterns at hq'
  unfold splitEvent at hb ht
  cases hk : q.kind <;> simp only [hk, PatternKind.isSafety, if_true, Bool.false_eq_true, if_false] at hq' hb ht
  · -- absence
    obtain ⟨e, he, rfl⟩ := List.mem_map.1 hq'
    refine ⟨fun avail h => ?_, fun r hr => (simpleEvents_sub _ e he).1 r hr, fun t' ht' => ⟨t', ht', fun _ h => h⟩⟩
    unfold PatternScoped at h ⊢
    simp only [hk] at h ⊢
    exact h.of_alternative he
  · -- existence
    simp only [List.mem_singleton] at hq'; subst hq'
    exact ⟨fun _ h => h, fun _ h => h, fun t' ht' => ⟨t', ht', fun _ h => h⟩⟩
  · -- requirement
    obtain ⟨e, he, rfl⟩ := List.mem_map.1 hq'
    refine ⟨fun avail h => ?_, fun r hr => (simpleEvents_sub _ e he).1 r hr, fun t' ht' => ⟨t', ht', fun _ h => h⟩⟩
    unfold PatternScoped at h ⊢
    cases htg : q.trigger with
    | none => simp only [hk, htg] at h
    | some t =>
      simp only [hk, htg] at h ⊢
      exact ⟨h.1.of_alternative he, keep h.2 (simpleEvents_sub _ e he).2.1 (fun r hr => ht t htg r hr _ rfl)⟩
  · -- response
    cases htg : q.trigger with
    | none =>
      simp only [htg, List.mem_singleton] at hq'; subst hq'
      exact ⟨fun _ h => h, fun _ h => h, fun t' ht' => by rw [htg] at ht'; cases ht'⟩
    | some t =>
      simp only [htg] at hq' hb
      obtain ⟨e, he, rfl⟩ := List.mem_map.1 hq'
      refine ⟨fun avail h => ?_, fun _ h => h, fun t' ht' => ⟨t, rfl, ?_⟩⟩
      · unfold PatternScoped at h ⊢
        simp only [hk, htg] at h ⊢
        exact ⟨h.1.of_alternative he, keep h.2 (simpleEvents_sub _ e he).2.1 (fun r hr => hb r hr _ rfl)⟩
      · cases ht'; exact fun r hr => (simpleEvents_sub _ e he).1 r hr
  · -- prevention
    obtain ⟨e, he, rfl⟩ := List.mem_map.1 hq'
    refine ⟨fun avail h => ?_, fun r hr => (simpleEvents_sub _ e he).1 r hr, fun t' ht' => ⟨t', ht', fun _ h => h⟩⟩
    unfold PatternScoped at h ⊢
    cases htg : q.trigger with
    | none => simp only [hk, htg] at h
    | some t =>
      simp only [hk, htg] at h ⊢
      exact ⟨h.1, h.2.of_alternative he⟩

/-- **`canonical_form` is total unless an event references an alias bound in a split position**: on an accepted property in which
    no event references an alias bound by the activator of an `after` scope, by the behaviour of a safety pattern or by the trigger
    of a response, every copy is well-scoped, so `canonical_form` returns its non-empty list — the known finding
    `C11-split-unbinds-alias` (a later event references an alias that only one alternative binds) is the only obstacle -/
theorem canonical_total_noRef (p : Property) (hs : ScopeOK p.scope) (hq : PatOK p.pattern) (hw : WellScoped p.scope p.pattern)
    (hno : NoRefToSplitAlias p) : ∃ qs, canonical p = .ok qs ∧ qs ≠ [] := by
  have hex : ∃ qs, canonical p = .ok qs := by
    refine (canonical_ok_iff p hs hq).2 (Or.inr (fun s' hs' q' hq' => ?_))
    have hSP : ∀ r, r ∉ splitAliases p → ∀ e, splitEvent p.pattern = some e → r ∉ e.aliases := by
      intro r hr e he hin
      apply hr
      unfold splitAliases
      rw [he]
      exact List.mem_append.2 (Or.inr hin)
    obtain ⟨hscoped, hbsub, htsub⟩ := canonicalPatterns_scoped hq'
      (fun r hr e he => hSP r (hno.1 r hr) e he) (fun t ht r hr e he => hSP r (hno.2.1 t ht r hr) e he)
    have hp1 := hscoped _ hw.2.1
    rcases canonicalScopes_cases hs' with rfl | ⟨a, e, ha, hk, he, rfl⟩
    · exact ⟨hw.1, hp1, hw.2.2⟩
    · have hSA : ∀ r, r ∉ splitAliases p → r ∉ a.aliases := by
        intro r hr hin
        apply hr
        unfold splitAliases
        refine List.mem_append.2 (Or.inl ?_)
        rcases hk with hk | hk <;> simp only [hk, ha] <;> exact hin
      have hact : actAliases p.scope = a.aliases := by simp only [actAliases, ha]
      have hact' : actAliases ({ p.scope with activator := some e } : Scope) = e.aliases := by simp only [actAliases]
      refine ⟨?_, ?_, ?_⟩
      · intro a' ha' r hr; cases ha'
        exact hw.1 a ha r ((simpleEvents_sub a e he).1 r hr)
      · rw [hact']
        rw [hact] at hp1
        refine hp1.shrink (fun x hx => (simpleEvents_sub a e he).2.1 x hx) ?_ ?_
        · intro r hr hin; exact absurd hin (hSA r (hno.1 r (hbsub r hr)))
        · intro t' ht' r hr hin
          obtain ⟨t, ht, hsub⟩ := htsub t' ht'
          exact absurd hin (hSA r (hno.2.1 t ht r (hsub r hr)))
      · intro qt hqt
        rw [hact']
        have := hw.2.2 qt hqt
        rw [hact] at this
        exact this.mono_avail (fun x hx => (simpleEvents_sub a e he).2.1 x hx)
          (fun r hr hin => absurd hin (hSA r (hno.2.2 qt hqt r hr)))
  obtain ⟨qs, h⟩ := hex
  exact ⟨qs, h, canonical_nonempty p qs h⟩

/-- the hypotheses are met by a property that is really split (2 scopes × 3 patterns) -/
example : ScopeOK exC11.scope ∧ PatOK exC11.pattern ∧ WellScoped exC11.scope exC11.pattern ∧ SplitsBindNothing exC11 ∧
    ∃ qs, canonical exC11 = .ok qs ∧ qs.length = 6 := by
  refine ⟨?_, ?_, ?_, ?_, _, rfl, rfl⟩
  · simp [ScopeOK, EvOK, exC11, evS, Event.quantOK, Pred.quantOK, Event.aliases]
  · simp [PatOK, EvOK, exC11, evS, Event.quantOK, Pred.quantOK, Event.aliases]
  · exact (wellScopedB_iff _ _).1 (by decide)
  · simp [SplitsBindNothing, splitEvent, exC11, evS, Event.aliases, PatternKind.isSafety]

/-- an alias bound in a split position and referenced nowhere: `after (a as A or b): no c` is split in two -/
def exC14d : Property :=
  ⟨⟨.after, some (.disj (.simple "a" (some "A") .vtrue) (evS "b")), none⟩, ⟨.absence, evS "c", none, 0, none⟩, []⟩

example : ScopeOK exC14d.scope ∧ PatOK exC14d.pattern ∧ WellScoped exC14d.scope exC14d.pattern ∧ NoRefToSplitAlias exC14d ∧
    ¬ SplitsBindNothing exC14d ∧ ∃ qs, canonical exC14d = .ok qs ∧ qs.length = 2 := by
  refine ⟨?_, ?_, ?_, ?_, ?_, _, rfl, rfl⟩
  · simp [ScopeOK, EvOK, exC14d, evS, Event.quantOK, Pred.quantOK, Event.aliases]
  · simp [PatOK, EvOK, exC14d, evS, Event.quantOK, Pred.quantOK, Event.aliases]
  · exact (wellScopedB_iff _ _).1 (by decide)
  · simp [NoRefToSplitAlias, exC14d, evS, Event.freeRefs, Pred.freeVars]
  · intro h
    have := h.1 _ rfl (Or.inl rfl)
    simp [Event.aliases, evS] at this

end Hpl
