import Hpl.Props.C14c
import Hpl.Props.C09
import Hpl.Props.C10
import Hpl.Props.C03c
import Hpl.Props.C12
import Hpl.Props.C14d
/-! C09 / C10 / C14 together, on everything the parser builds: the rewrite *returns*, what it returns is of the documented kind, and
    it means what the input means.  (Each part is proved elsewhere; this file states them as one theorem per function, with no
    hypothesis besides `build r = ok e`.) -/
namespace Hpl

section
variable (opq : Opaque)

/-- **`refactor_reference` on parser output**: for every alias it returns a pair of well-typed expressions; the first does not
    mention the alias; and on every valuation on which both halves have a truth value the input has their conjunction -/
theorem refactor_parsed (r : Raw) (e : Expr) (alias : String) (h : build r = .ok e) :
    ∃ f1 f2, refactorExpr e alias = .ok (f1, f2) ∧ WT f1 ∧ WT f2 ∧ f1.containsRef alias = false ∧
      ∀ (ρ : Env) (b1 b2 : Bool), truth opq ρ f1 = some b1 → truth opq ρ f2 = some b2 → truth opq ρ e = some (b1 && b2) := by
  obtain ⟨⟨f1, f2⟩, hp⟩ := refactorExpr_total_parsed r e alias h
  have hw := refactorExpr_WT e alias (f1, f2) hp (build_WT r e h)
  exact ⟨f1, f2, hp, hw.1, hw.2, refactor_noRef e f1 f2 alias hp, fun ρ b1 b2 h1 h2 => refactor_equiv opq e f1 f2 alias hp ρ b1 b2 h1 h2⟩

/-- **`split_and` on parser output**: it returns a list of well-typed conjuncts, none of which it could split further, whose joint
    truth value (wherever all of them have one) is the input's — or it reports unsatisfiability (the ValueError class) -/
theorem splitAnd_parsed (r : Raw) (e : Expr) (h : build r = .ok e) :
    (∃ ps, splitAnd e = .ok ps ∧ (∀ p ∈ ps, WT p) ∧ (∀ p ∈ ps, indivisible p = true) ∧
      ∀ (ρ : Env) (v : Bool), truthAll opq ρ ps = some v → truth opq ρ e = some v) ∨
    splitAnd e = .error .value := by
  rcases splitAnd_total_parsed r e h with ⟨ps, hps⟩ | herr
  · exact Or.inl ⟨ps, hps, splitAnd_WT e ps hps (build_WT r e h), splitAnd_indivisible e ps hps,
      fun ρ v hv => splitAnd_equiv opq e ps hps ρ v hv⟩
  · exact Or.inr herr

end

section
variable (holds : Pred → TEnv → Msg → Bool)

/-- **`canonical_form`, C11 / C12 / C14 together**: for an accepted property whose activator is not a disjunction and in which no
    event references an alias bound in a split position, the canonical form *exists*, is not empty, and a finite timed trace
    satisfies the property iff it satisfies every property of it (both readings of scope re-activation) -/
theorem canonical_exists_and_means (p : Property) (hs : ScopeOK p.scope) (hq : PatOK p.pattern)
    (hw : WellScoped p.scope p.pattern) (hno : NoRefToSplitAlias p)
    (hact : ∀ a, p.scope.activator = some a → a.isDisj = false)
    (htrig : p.pattern.kind.hasTrigger = p.pattern.trigger.isSome) :
    ∃ qs, canonical p = .ok qs ∧ qs ≠ [] ∧ ∀ (re : Bool) (tr : List Msg), sat holds re tr p ↔ ∀ q ∈ qs, sat holds re tr q := by
  obtain ⟨qs, hc, hne⟩ := canonical_total_noRef p hs hq hw hno
  exact ⟨qs, hc, hne, fun re tr => canonical_sat_iff holds re tr p qs hact htrig hc⟩

end
end Hpl
