import Hpl.Model.Query
/-!
# C15 — reference queries report exactly the references that occur

Model: `Hpl/Model/Query.lean` (`children`, `iterate`, `externalRefs`, `containsRef`, `containsSelf`, `containsDef`,
event-level delegations, `aliases`, `someFieldRefs`), written per class as the Python overrides are.
Spec: `preorder`, `freeVars` (plain structural recursions), and predicates over the pre-order listing.
-/
namespace Hpl

/-! ## `children()` / `iterate()` -/

theorem ExprList.preorder_eq : ∀ es : ExprList, es.preorder = es.toList.flatMap Expr.preorder
  | .nil => by simp [ExprList.preorder, ExprList.toList]
  | .cons e es => by simp [ExprList.preorder, ExprList.toList, ExprList.preorder_eq es]

/-- pre-order = the node followed by the pre-orders of its `children()` (ties the spec to the children protocol) -/
theorem Expr.preorder_children (e : Expr) : e.preorder = e :: e.children.flatMap Expr.preorder := by
  cases e <;> simp [Expr.preorder, Expr.children, ExprList.preorder_eq]

def sizes (l : List Expr) : Nat := (l.map Expr.size).sum

theorem ExprList.size_eq : ∀ es : ExprList, es.size = sizes es.toList
  | .nil => by simp [ExprList.size, ExprList.toList, sizes]
  | .cons e es => by simp [ExprList.size, ExprList.toList, sizes, ExprList.size_eq es]

theorem size_children (e : Expr) : e.size = 1 + sizes e.children := by
  cases e <;> simp [Expr.size, Expr.children, sizes, ExprList.size_eq] <;> omega

theorem iterLoop_spec : ∀ (fuel : Nat) (stack acc : List Expr), sizes stack < fuel →
    iterLoop fuel stack acc = acc.reverse ++ stack.flatMap Expr.preorder := by
  intro fuel
  induction fuel with
  | zero => intro stack acc h; omega
  | succ fuel ih =>
    intro stack acc h
    cases stack with
    | nil => simp [iterLoop]
    | cons obj stack =>
      have hs : sizes (obj.children ++ stack) < fuel := by
        have := size_children obj
        simp only [sizes, List.map_cons, List.sum_cons, List.map_append, List.sum_append] at h ⊢
        simp only [sizes] at this
        omega
      rw [iterLoop, ih _ _ hs]
      simp [Expr.preorder_children obj, List.flatMap_append]

/-- **C15**: `iterate()` visits every node exactly once, parents before children, left to right -/
theorem iterate_eq_preorder (e : Expr) : e.iterate = e.preorder := by
  unfold Expr.iterate
  rw [iterLoop_spec]
  · simp
  · simp [sizes]

theorem size_le_sizes : ∀ (l : List Expr) (c : Expr), c ∈ l → c.size ≤ sizes l := by
  intro l c hc
  induction l with
  | nil => cases hc
  | cons x xs ih =>
    simp only [sizes, List.map_cons, List.sum_cons]
    rcases List.mem_cons.1 hc with rfl | h
    · omega
    · have := ih h; simp only [sizes] at this; omega

/-- the number of visited nodes is the number of nodes -/
theorem preorder_length : ∀ e : Expr, e.preorder.length = e.size := by
  intro e
  have key : ∀ n (e : Expr), e.size ≤ n → e.preorder.length = e.size := by
    intro n
    induction n with
    | zero => intro e h; have := Expr.size_pos e; omega
    | succ n ih =>
      intro e h
      have hl : ∀ l : List Expr, sizes l ≤ n → (l.flatMap Expr.preorder).length = sizes l := by
        intro l
        induction l with
        | nil => intro _; simp [sizes]
        | cons x xs ihl =>
          intro hx
          simp only [sizes, List.map_cons, List.sum_cons] at hx
          have h1 := ih x (by omega)
          have h2 := ihl (by simp only [sizes]; omega)
          simp [List.flatMap_cons, h1, h2, sizes]
      rw [Expr.preorder_children, size_children]
      have := size_children e
      simp [hl e.children (by omega)]
      omega
  exact key e.size e (Nat.le_refl _)

/-! ## quantifier invariant established by the constructor (`mkQuant`): the variable is used below it -/
mutual
def Expr.quantOK : Expr → Prop
  | .lit .. | .this .. | .var .. => True
  | .set _ vs => vs.quantOK
  | .range _ lo hi _ _ => lo.quantOK ∧ hi.quantOK
  | .quant _ _ x d b => x ∈ d.freeVars ++ b.freeVars ∧ d.quantOK ∧ b.quantOK
  | .un _ _ a => a.quantOK
  | .bin _ _ a b => a.quantOK ∧ b.quantOK
  | .call _ _ as => as.quantOK
  | .field _ m _ => m.quantOK
  | .index _ a i => a.quantOK ∧ i.quantOK
def ExprList.quantOK : ExprList → Prop
  | .nil => True
  | .cons e es => e.quantOK ∧ es.quantOK
end

/-! ## reference queries -/
mutual
/-- **C15**: `external_references()` returns exactly the free `@` variables (and never hits the `set.remove` KeyError)
    on every tree satisfying the constructor invariant -/
theorem Expr.externalRefs_eq : ∀ e : Expr, e.quantOK → e.externalRefs = .ok e.freeVars
  | .lit .., _ | .this .., _ | .var .., _ => by simp [Expr.externalRefs, Expr.freeVars]
  | .set _ vs, h => by simpa [Expr.externalRefs, Expr.freeVars] using ExprList.externalRefs_eq vs h
  | .range _ lo hi _ _, h => by
      simp [Expr.externalRefs, Expr.freeVars, Expr.externalRefs_eq lo h.1, Expr.externalRefs_eq hi h.2, bind, Except.bind, pure, Except.pure]
  | .quant _ _ x d b, h => by
      simp [Expr.externalRefs, Expr.freeVars, Expr.externalRefs_eq d h.2.1, Expr.externalRefs_eq b h.2.2, bind, Except.bind, pure, Except.pure]
      intro hx
      have := h.1
      simp only [List.mem_append] at this
      rcases this with h1 | h1
      · exact absurd h1 hx
      · exact h1
  | .un _ _ a, h => by simpa [Expr.externalRefs, Expr.freeVars] using Expr.externalRefs_eq a h
  | .bin _ _ a b, h => by
      simp [Expr.externalRefs, Expr.freeVars, Expr.externalRefs_eq a h.1, Expr.externalRefs_eq b h.2, bind, Except.bind, pure, Except.pure]
  | .call _ _ as, h => by simpa [Expr.externalRefs, Expr.freeVars] using ExprList.externalRefs_eq as h
  | .field _ m _, h => by simpa [Expr.externalRefs, Expr.freeVars] using Expr.externalRefs_eq m h
  | .index _ a i, h => by
      simp [Expr.externalRefs, Expr.freeVars, Expr.externalRefs_eq a h.1, Expr.externalRefs_eq i h.2, bind, Except.bind, pure, Except.pure]
theorem ExprList.externalRefs_eq : ∀ es : ExprList, es.quantOK → es.externalRefs = .ok es.freeVars
  | .nil, _ => by simp [ExprList.externalRefs, ExprList.freeVars]
  | .cons e es, h => by
      simp [ExprList.externalRefs, ExprList.freeVars, Expr.externalRefs_eq e h.1, ExprList.externalRefs_eq es h.2, bind, Except.bind, pure, Except.pure]
end

mutual
/-- **C15**: `contains_reference(a)` iff some node of the tree is the variable `@a` -/
theorem Expr.containsRef_iff (a : String) : ∀ e : Expr, e.containsRef a = e.preorder.any (isVarNamed a)
  | .lit .. | .this .. | .var .. => by simp [Expr.containsRef, Expr.preorder, isVarNamed]
  | .set _ vs => by simp [Expr.containsRef, Expr.preorder, isVarNamed, ExprList.containsRef_iff a vs]
  | .range _ lo hi _ _ => by
      simp [Expr.containsRef, Expr.preorder, isVarNamed, Expr.containsRef_iff a lo, Expr.containsRef_iff a hi, List.any_append]
  | .quant _ _ _ d b => by
      simp [Expr.containsRef, Expr.preorder, isVarNamed, Expr.containsRef_iff a d, Expr.containsRef_iff a b, List.any_append]
  | .un _ _ e => by simp [Expr.containsRef, Expr.preorder, isVarNamed, Expr.containsRef_iff a e]
  | .bin _ _ l r => by
      simp [Expr.containsRef, Expr.preorder, isVarNamed, Expr.containsRef_iff a l, Expr.containsRef_iff a r, List.any_append]
  | .call _ _ as => by simp [Expr.containsRef, Expr.preorder, isVarNamed, ExprList.containsRef_iff a as]
  | .field _ m _ => by simp [Expr.containsRef, Expr.preorder, isVarNamed, Expr.containsRef_iff a m]
  | .index _ l i => by
      simp [Expr.containsRef, Expr.preorder, isVarNamed, Expr.containsRef_iff a l, Expr.containsRef_iff a i, List.any_append]
theorem ExprList.containsRef_iff (a : String) : ∀ es : ExprList, es.containsRef a = es.preorder.any (isVarNamed a)
  | .nil => by simp [ExprList.containsRef, ExprList.preorder]
  | .cons e es => by
      simp [ExprList.containsRef, ExprList.preorder, Expr.containsRef_iff a e, ExprList.containsRef_iff a es, List.any_append]
end

mutual
/-- **C15**: `contains_self_reference()` iff the current message is referenced somewhere -/
theorem Expr.containsSelf_iff : ∀ e : Expr, e.containsSelf = e.preorder.any isThis
  | .lit .. | .this .. | .var .. => by simp [Expr.containsSelf, Expr.preorder, isThis]
  | .set _ vs => by simp [Expr.containsSelf, Expr.preorder, isThis, ExprList.containsSelf_iff vs]
  | .range _ lo hi _ _ => by
      simp [Expr.containsSelf, Expr.preorder, isThis, Expr.containsSelf_iff lo, Expr.containsSelf_iff hi, List.any_append]
  | .quant _ _ _ d b => by
      simp [Expr.containsSelf, Expr.preorder, isThis, Expr.containsSelf_iff d, Expr.containsSelf_iff b, List.any_append]
  | .un _ _ e => by simp [Expr.containsSelf, Expr.preorder, isThis, Expr.containsSelf_iff e]
  | .bin _ _ l r => by
      simp [Expr.containsSelf, Expr.preorder, isThis, Expr.containsSelf_iff l, Expr.containsSelf_iff r, List.any_append]
  | .call _ _ as => by simp [Expr.containsSelf, Expr.preorder, isThis, ExprList.containsSelf_iff as]
  | .field _ m _ => by simp [Expr.containsSelf, Expr.preorder, isThis, Expr.containsSelf_iff m]
  | .index _ l i => by
      simp [Expr.containsSelf, Expr.preorder, isThis, Expr.containsSelf_iff l, Expr.containsSelf_iff i, List.any_append]
theorem ExprList.containsSelf_iff : ∀ es : ExprList, es.containsSelf = es.preorder.any isThis
  | .nil => by simp [ExprList.containsSelf, ExprList.preorder]
  | .cons e es => by
      simp [ExprList.containsSelf, ExprList.preorder, Expr.containsSelf_iff e, ExprList.containsSelf_iff es, List.any_append]
end

mutual
/-- **C15**: `contains_definition(a)` iff some quantifier of the tree binds `a` -/
theorem Expr.containsDef_iff (a : String) : ∀ e : Expr, e.containsDef a = e.preorder.any (bindsName a)
  | .lit .. | .this .. | .var .. => by simp [Expr.containsDef, Expr.preorder, bindsName]
  | .set _ vs => by simp [Expr.containsDef, Expr.preorder, bindsName, ExprList.containsDef_iff a vs]
  | .range _ lo hi _ _ => by
      simp [Expr.containsDef, Expr.preorder, bindsName, Expr.containsDef_iff a lo, Expr.containsDef_iff a hi, List.any_append]
  | .quant _ _ x d b => by
      simp [Expr.containsDef, Expr.preorder, bindsName, Expr.containsDef_iff a d, Expr.containsDef_iff a b, List.any_append, Bool.or_assoc]
  | .un _ _ e => by simp [Expr.containsDef, Expr.preorder, bindsName, Expr.containsDef_iff a e]
  | .bin _ _ l r => by
      simp [Expr.containsDef, Expr.preorder, bindsName, Expr.containsDef_iff a l, Expr.containsDef_iff a r, List.any_append]
  | .call _ _ as => by simp [Expr.containsDef, Expr.preorder, bindsName, ExprList.containsDef_iff a as]
  | .field _ m _ => by simp [Expr.containsDef, Expr.preorder, bindsName, Expr.containsDef_iff a m]
  | .index _ l i => by
      simp [Expr.containsDef, Expr.preorder, bindsName, Expr.containsDef_iff a l, Expr.containsDef_iff a i, List.any_append]
theorem ExprList.containsDef_iff (a : String) : ∀ es : ExprList, es.containsDef a = es.preorder.any (bindsName a)
  | .nil => by simp [ExprList.containsDef, ExprList.preorder]
  | .cons e es => by
      simp [ExprList.containsDef, ExprList.preorder, Expr.containsDef_iff a e, ExprList.containsDef_iff a es, List.any_append]
end

/-! ## predicates and events -/

def Pred.quantOK : Pred → Prop
  | .expr e => e.quantOK
  | _ => True

def Event.quantOK : Event → Prop
  | .simple _ _ p => p.quantOK
  | .disj a b => a.quantOK ∧ b.quantOK

theorem Pred.externalRefs_eq (p : Pred) (h : p.quantOK) : p.externalRefs = .ok p.freeVars := by
  cases p with
  | expr e => exact Expr.externalRefs_eq e h
  | vtrue => rfl
  | vfalse => rfl

/-- **C15**: an event's `external_references()` = free variables of its alternatives, each without its own alias
    (stated for non-empty aliases, which is all the grammar can produce: `CNAME`) -/
theorem Event.externalRefs_eq : ∀ e : Event, e.quantOK → (∀ a ∈ e.aliases, a ≠ "") → e.externalRefs = .ok e.freeRefs
  | .simple n a p, h, ha => by
      cases a with
      | none => simp [Event.externalRefs, Event.freeRefs, Pred.externalRefs_eq p h, bind, Except.bind, pure, Except.pure]
      | some a =>
        have : a ≠ "" := ha a (by simp [Event.aliases])
        simp [Event.externalRefs, Event.freeRefs, Pred.externalRefs_eq p h, this, bind, Except.bind, pure, Except.pure]
  | .disj a b, h, ha => by
      have ha1 : ∀ x ∈ a.aliases, x ≠ "" := fun x hx => ha x (by simp [Event.aliases, hx])
      have ha2 : ∀ x ∈ b.aliases, x ≠ "" := fun x hx => ha x (by simp [Event.aliases, hx])
      simp [Event.externalRefs, Event.freeRefs, Event.externalRefs_eq a h.1 ha1, Event.externalRefs_eq b h.2 ha2, bind, Except.bind, pure, Except.pure]

/-- **C15**: an event never lists its own alias among its external references -/
theorem Event.alias_not_external (n a : String) (p : Pred) : a ∉ (Event.simple n (some a) p).freeRefs := by
  simp [Event.freeRefs]

/-- **C15**: `aliases()` lists the aliases of the alternatives in source order -/
theorem Event.aliases_eq (e : Event) :
    e.aliases = e.simpleEvents.flatMap (fun s => match s with | .simple _ (some a) _ => [a] | _ => []) := by
  induction e with
  | simple n a p => cases a <;> simp [Event.aliases, Event.simpleEvents]
  | disj a b iha ihb => simp [Event.aliases, Event.simpleEvents, iha, ihb, List.flatMap_append]

/-- **C15**: the own-field check passes iff the first occurrence of some reference (in pre-order) is a field of the
    current message -/
theorem someFieldRefs_iff (e : Expr) :
    e.someFieldRefs = true ↔ ∃ k ∈ e.refKeys, ∃ r rest, e.refGroup k = r :: rest ∧ isOwnField r = true := by
  unfold Expr.someFieldRefs
  simp only [List.any_eq_true]
  constructor
  · rintro ⟨k, hk, h⟩
    refine ⟨k, hk, ?_⟩
    split at h
    · rename_i r rest heq; exact ⟨r, rest, heq, h⟩
    · cases h
  · rintro ⟨k, hk, r, rest, heq, h⟩
    exact ⟨k, hk, by rw [heq]; exact h⟩

/-- an own-field access references the current message, so a passing check implies a self reference -/
theorem someFieldRefs_containsSelf (e : Expr) (h : e.someFieldRefs = true) : e.containsSelf = true := by
  obtain ⟨k, _, r, rest, heq, hr⟩ := (someFieldRefs_iff e).1 h
  have hmem : r ∈ e.preorder := by
    have : r ∈ e.refGroup k := by rw [heq]; simp
    unfold Expr.refGroup at this
    exact (List.mem_filter.1 (List.mem_filter.1 this).1).1
  rw [Expr.containsSelf_iff]
  -- r = field _ (this _) _ is in the pre-order, and the pre-order is closed under children
  have closed : ∀ (e x : Expr), x ∈ e.preorder → ∀ y ∈ x.preorder, y ∈ e.preorder := by
    intro e
    have key : ∀ n (e : Expr), e.size ≤ n → ∀ x ∈ e.preorder, ∀ y ∈ x.preorder, y ∈ e.preorder := by
      intro n
      induction n with
      | zero => intro e h; have := Expr.size_pos e; omega
      | succ n ih =>
        intro e hn x hx y hy
        rw [Expr.preorder_children] at hx
        rcases List.mem_cons.1 hx with rfl | hx
        · exact hy
        · obtain ⟨c, hc, hxc⟩ := List.mem_flatMap.1 hx
          have hcs : c.size ≤ n := by
            have := size_children e
            have hle : c.size ≤ sizes e.children := size_le_sizes _ _ hc
            omega
          have := ih c hcs x hxc y hy
          rw [Expr.preorder_children]
          exact List.mem_cons_of_mem _ (List.mem_flatMap.2 ⟨c, hc, this⟩)
    exact key e.size e (Nat.le_refl _)
  cases r with
  | field t m n =>
    cases m with
    | this t' =>
      have : Expr.this t' ∈ e.preorder := closed e _ hmem _ (by simp [Expr.preorder])
      exact List.any_eq_true.2 ⟨_, this, rfl⟩
    | _ => simp [isOwnField] at hr
  | _ => simp [isOwnField] at hr

/-! ## non-vacuity: `forall i in @A.xs: (@i > @B.y[@C.z])` -/
def sampleC15 : Expr :=
  .quant Gen.BOOL .all "i" (.field Gen.ARRAY (.var Gen.MESSAGE "A") "xs")
    (.bin Gen.BOOL ">" (.var Gen.NUMBER "i") (.index Gen.NUMBER (.field Gen.ARRAY (.var Gen.MESSAGE "B") "y") (.field Gen.NUMBER (.var Gen.MESSAGE "C") "z")))
example : sampleC15.quantOK := by simp [sampleC15, Expr.quantOK, Expr.freeVars]
example : sampleC15.externalRefs = .ok ["A", "B", "C"] := by rfl
example : sampleC15.containsRef "i" = true ∧ sampleC15.containsDef "i" = true ∧ sampleC15.containsSelf = false := by decide
example : sampleC15.iterate.length = 10 := by decide

end Hpl
