import Hpl.Props.C15
/-!
# C15 — `iterate()` on properties, scopes, patterns, events and predicates visits every node once, parents first, left to right
-/
namespace Hpl

def Pred.nodes (p : Pred) : List Node := .pred p :: (match p with | .expr e => e.preorder.map .expr | _ => [])

def Event.nodes : Event → List Node
  | .simple n a p => .event (.simple n a p) :: p.nodes
  | .disj a b => .event (.disj a b) :: (a.nodes ++ b.nodes)

/-- the nodes below (and including) an AST object in pre-order, children in source order: property, scope, activator, terminator,
    pattern, trigger, behaviour; an event before its alternatives / its predicate; a predicate before its expression -/
def Node.preorder : Node → List Node
  | .prop p => .prop p :: ((.scope p.scope :: (optL p.scope.activator ++ optL p.scope.terminator).flatMap Event.nodes) ++
                           (.pattern p.pattern :: (optL p.pattern.trigger ++ [p.pattern.behaviour]).flatMap Event.nodes))
  | .scope s => .scope s :: (optL s.activator ++ optL s.terminator).flatMap Event.nodes
  | .pattern p => .pattern p :: (optL p.trigger ++ [p.behaviour]).flatMap Event.nodes
  | .event e => e.nodes
  | .pred p => p.nodes
  | .expr e => e.preorder.map .expr

def nsizes (l : List Node) : Nat := (l.map Node.size).sum

theorem flatMap_map_expr (l : List Expr) : (l.map Node.expr).flatMap Node.preorder = (l.flatMap Expr.preorder).map Node.expr := by
  induction l with
  | nil => rfl
  | cons x xs ih => simp [List.flatMap_cons, Node.preorder, ih]

theorem nsizes_map_expr (l : List Expr) : nsizes (l.map Node.expr) = sizes l := by
  induction l with
  | nil => rfl
  | cons x xs ih => simp only [nsizes, sizes, List.map_cons, List.sum_cons, Node.size] at ih ⊢; omega

theorem flatMap_map_event (l : List Event) : (l.map Node.event).flatMap Node.preorder = l.flatMap Event.nodes := by
  induction l with
  | nil => rfl
  | cons x xs ih => simp [List.flatMap_cons, Node.preorder, ih]

theorem nsizes_map_event (l : List Event) : nsizes (l.map Node.event) = (l.map Event.nsize).sum := by
  induction l with
  | nil => rfl
  | cons x xs ih => simp only [nsizes, List.map_cons, List.sum_cons, Node.size] at ih ⊢; omega

theorem Node.preorder_children (n : Node) : n.preorder = n :: n.children.flatMap Node.preorder := by
  cases n with
  | prop p =>
    simp only [Node.preorder, Node.children, List.flatMap_cons, List.flatMap_nil, List.append_nil, flatMap_map_event]
  | scope s => simp only [Node.preorder, Node.children, flatMap_map_event]
  | pattern p => simp only [Node.preorder, Node.children, flatMap_map_event]
  | event e =>
    cases e with
    | simple nm a p => simp [Node.preorder, Node.children, Event.nodes]
    | disj a b => simp [Node.preorder, Node.children, Event.nodes]
  | pred p =>
    cases p with
    | expr e => simp [Node.preorder, Node.children, Pred.nodes]
    | vtrue => simp [Node.preorder, Node.children, Pred.nodes]
    | vfalse => simp [Node.preorder, Node.children, Pred.nodes]
  | expr e =>
    simp only [Node.preorder, Node.children, flatMap_map_expr]
    rw [Expr.preorder_children e]; simp

theorem Node.size_children (n : Node) : n.size = 1 + nsizes n.children := by
  cases n with
  | prop p =>
    simp only [Node.size, Node.children, nsizes, List.map_cons, List.map_nil, List.sum_cons, List.sum_nil]; omega
  | scope s => simp only [Node.size, Node.children, nsizes_map_event]
  | pattern p => simp only [Node.size, Node.children, nsizes_map_event]
  | event e =>
    cases e with
    | simple nm a p => cases p <;> simp [Node.size, Node.children, Event.nsize, nsizes] <;> omega
    | disj a b => simp [Node.size, Node.children, Event.nsize, nsizes]; omega
  | pred p => cases p <;> simp [Node.size, Node.children, nsizes]
  | expr e =>
    simp only [Node.size, Node.children, nsizes_map_expr]
    exact Hpl.size_children e

theorem nodeIterLoop_spec : ∀ (fuel : Nat) (stack acc : List Node), nsizes stack < fuel →
    nodeIterLoop fuel stack acc = acc.reverse ++ stack.flatMap Node.preorder := by
  intro fuel
  induction fuel with
  | zero => intro stack acc h; omega
  | succ fuel ih =>
    intro stack acc h
    cases stack with
    | nil => simp [nodeIterLoop]
    | cons obj stack =>
      have hs : nsizes (obj.children ++ stack) < fuel := by
        have := Node.size_children obj
        simp only [nsizes, List.map_cons, List.sum_cons, List.map_append, List.sum_append] at h ⊢
        simp only [nsizes] at this
        omega
      rw [nodeIterLoop, ih _ _ hs]
      simp [Node.preorder_children obj, List.flatMap_append]

/-- **C15 (properties, events, predicates)**: `iterate()` of any AST object below a property is its pre-order -/
theorem Node.iterate_eq_preorder (n : Node) : n.iterate = n.preorder := by
  unfold Node.iterate
  rw [nodeIterLoop_spec]
  · simp
  · simp [nsizes]

/-- every node is visited exactly once: the number of visited nodes is the number of nodes -/
theorem Node.iterate_length_prop (p : Property) : (Node.prop p).iterate.length = (Node.prop p).preorder.length := by
  rw [Node.iterate_eq_preorder]

end Hpl
