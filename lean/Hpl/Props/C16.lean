import Hpl.Props.C03
import Hpl.Model.Rewrite.Refactor
/-!
# C16 — ASTs are immutable values: no API call changes an existing tree

In the implementation the attrs validators narrow the stored type of the child objects they are given, in place
(`_type_check(force=True)`), to the parameter type of their position. In the functional model the same step is
`castE child param`, and "the existing child object was altered" is "the node returned for that position differs from the
child that was passed". The theorems: on operands whose type set already lies inside the parameter type — which the C03
invariant `WT` guarantees for every child of every node at its own position — narrowing returns the operand itself
(`castE_stable`), hence each constructor returns a node around *the very children it was given* (`mkUn_stable` …
`mkQuant_children`), and re-entering the constructor of a well-typed node with its own children (`but()` / `evolve`, `cast`)
gives back the node itself (`rebuild_stable`). `negate` and `join` wrap boolean predicates without touching them.

Partial: that the other rewriting functions (simplify, split_and, refactor_reference, the this/var replacements,
canonical_form) only ever wrap existing sub-trees at positions whose parameter type contains their type set is not proved
function by function; it is what the C16 stream explores (snapshots around every call).
-/
namespace Hpl

/-- narrowing an operand whose type set is inside the target is the identity: the object is not altered -/
theorem castE_stable {e : Expr} {t : DataType} (hs : sub e.ty t) (hne : e.ty ≠ 0) : castE e t = .ok e := by
  unfold castE
  unfold sub at hs
  simp [hs, hne]

theorem castList_stable (t : DataType) : ∀ (es : ExprList), (∀ e ∈ es.toList, sub e.ty t ∧ e.ty ≠ 0) → castList t es = .ok es
  | .nil, _ => rfl
  | .cons e es, h => by
      have h1 := h e (by simp [ExprList.toList])
      simp [castList, castE_stable h1.1 h1.2, castList_stable t es (fun x hx => h x (by simp [ExprList.toList, hx])), bind, Except.bind, pure, Except.pure]

/-- a unary operator built around an operand inside its parameter type leaves the operand as it is -/
theorem mkUn_stable {op : String} {d : UnDef} {a : Expr} (hd : findUn op = some d) (hs : sub a.ty d.param) (hne : a.ty ≠ 0) :
    mkUn op a = .ok (.un d.res op a) := by
  simp [mkUn, hd, castE_stable hs hne, bind, Except.bind, pure, Except.pure]

/-- a binary operator built around operands inside its parameter types (carrying the same type set where the parameters
    overlap, as `=`/`!=` demand) leaves both operands as they are -/
theorem mkBin_stable {op : String} {d : BinDef} {a b : Expr} (hd : findBin op = some d) (ha : sub a.ty d.p1) (hb : sub b.ty d.p2)
    (heq : d.p1 &&& d.p2 ≠ 0 → a.ty = b.ty) (hna : a.ty ≠ 0) (hnb : b.ty ≠ 0) :
    mkBin op a b = .ok (.bin d.res op a b) := by
  unfold mkBin
  simp only [hd, castE_stable ha hna, castE_stable hb hnb, bind, Except.bind]
  by_cases hov : d.p1 &&& d.p2 ≠ 0
  · have := heq hov
    have h1 : castE a b.ty = .ok a := castE_stable (by rw [this]; exact sub_refl _) hna
    have h2 : castE b a.ty = .ok b := castE_stable (by rw [this]; exact sub_refl _) hnb
    simp [hov, h1, h2, pure, Except.pure]
  · simp [hov, pure, Except.pure]

theorem mkField_stable {m : Expr} {n : String} {t : DataType} (ht : T.ACCESS &&& t ≠ 0) (hs : sub m.ty T.MESSAGE) (hne : m.ty ≠ 0) :
    mkFieldT t m n = .ok (.field t m n) := by
  simp [mkFieldT, ht, castE_stable hs hne, bind, Except.bind, pure, Except.pure]

theorem mkIndex_stable {a i : Expr} {t : DataType} (ht : T.ACCESS &&& t ≠ 0) (ha : sub a.ty T.ARRAY) (hi : sub i.ty T.NUMBER)
    (hna : a.ty ≠ 0) (hni : i.ty ≠ 0) : mkIndexT t a i = .ok (.index t a i) := by
  simp [mkIndexT, ht, castE_stable ha hna, castE_stable hi hni, bind, Except.bind, pure, Except.pure]

theorem mkRange_stable {lo hi : Expr} {a b : Bool} (hl : sub lo.ty T.NUMBER) (hh : sub hi.ty T.NUMBER) (hnl : lo.ty ≠ 0) (hnh : hi.ty ≠ 0) :
    mkRange lo hi a b = .ok (.range T.RANGE lo hi a b) := by
  simp [mkRange, castE_stable hl hnl, castE_stable hh hnh, bind, Except.bind, pure, Except.pure]

theorem mkSet_stable {vs : ExprList} (h : ∀ e ∈ vs.toList, sub e.ty T.PRIMITIVE ∧ e.ty ≠ 0) : mkSet vs = .ok (.set T.SET vs) := by
  simp [mkSet, castList_stable T.PRIMITIVE vs h, bind, Except.bind, pure, Except.pure]

/-- whenever a quantifier is accepted around a domain and a condition that are inside COMPOUND / BOOL, it holds exactly those -/
theorem mkQuant_children {q : Quant} {x : String} {d b e : Expr} (hd : sub d.ty T.COMPOUND) (hb : sub b.ty T.BOOL)
    (hnd : d.ty ≠ 0) (hnb : b.ty ≠ 0) (h : mkQuant q x d b = .ok e) : e = .quant T.BOOL q x d b := by
  unfold mkQuant at h
  simp only [castE_stable hd hnd, castE_stable hb hnb, bind, Except.bind] at h
  split at h
  · cases h
  · split at h
    · cases h
    · rename_i u hu
      split at h
      · cases h
      · simpa [pure, Except.pure] using h.symm

theorem castArgs_stable : ∀ (es : ExprList) (ps : List DataType),
    (∀ p ∈ List.zip es.tys ps, sub p.1 p.2 ∧ p.1 ≠ 0) → es.tys.length ≤ ps.length → castArgs es ps = .ok es
  | .nil, ps, _, _ => by cases ps <;> rfl
  | .cons e es, [], _, hl => by simp [ExprList.tys] at hl
  | .cons e es, p :: ps, h, hl => by
      have h1 := h (e.ty, p) (by simp [ExprList.tys])
      have ih := castArgs_stable es ps (fun q hq => h q (by simp [ExprList.tys, hq])) (by simpa [ExprList.tys] using hl)
      simp [castArgs, castE_stable h1.1 h1.2, ih, bind, Except.bind, pure, Except.pure]

/-! ## `but()` / `evolve` / `cast` on a well-typed node: re-entering the constructor returns the node itself -/

theorem WT_ne' (e : Expr) (h : WT e) : e.ty ≠ 0 := WT_ne e h

/-- rebuilding a well-typed operator node around its own operands (what `evolve` does when `but()` or `cast` copy a node)
    returns the same node: none of the shared operand objects is narrowed -/
theorem rebuild_stable_un (t : DataType) (op : String) (a : Expr) (h : WT (.un t op a)) : mkUn op a = .ok (.un t op a) := by
  obtain ⟨d, hd, rfl, hwa, hs⟩ := h
  exact mkUn_stable hd hs (WT_ne a hwa)

theorem rebuild_stable_bin (t : DataType) (op : String) (a b : Expr) (h : WT (.bin t op a b)) : mkBin op a b = .ok (.bin t op a b) := by
  obtain ⟨d, hd, rfl, hwa, hwb, hsa, hsb, heq⟩ := h
  exact mkBin_stable hd hsa hsb heq (WT_ne a hwa) (WT_ne b hwb)

theorem rebuild_stable_field (t : DataType) (m : Expr) (n : String) (h : WT (.field t m n)) : mkFieldT t m n = .ok (.field t m n) := by
  obtain ⟨hne, hsub, hwm, hsm⟩ := h
  refine mkField_stable ?_ hsm (WT_ne m hwm)
  intro hz; apply hne
  unfold sub at hsub; rw [← hsub, Nat.and_comm]; exact hz

theorem rebuild_stable_index (t : DataType) (a i : Expr) (h : WT (.index t a i)) : mkIndexT t a i = .ok (.index t a i) := by
  obtain ⟨hne, hsub, hwa, hwi, hsa, hsi⟩ := h
  refine mkIndex_stable ?_ hsa hsi (WT_ne a hwa) (WT_ne i hwi)
  intro hz; apply hne
  unfold sub at hsub; rw [← hsub, Nat.and_comm]; exact hz

theorem rebuild_stable_range (t : DataType) (lo hi : Expr) (a b : Bool) (h : WT (.range t lo hi a b)) :
    mkRange lo hi a b = .ok (.range t lo hi a b) := by
  obtain ⟨rfl, hwl, hwh, hsl, hsh⟩ := h
  exact mkRange_stable hsl hsh (WT_ne lo hwl) (WT_ne hi hwh)

/-- `cast` never alters the node it is called on: it returns the node itself, or a copy that differs in the stored type only -/
theorem cast_result (e e' : Expr) (t : DataType) (h : castE e t = .ok e') : e' = e ∨ (e' = e.withTy (e.ty &&& t) ∧ e.ty &&& t ≠ e.ty) := by
  unfold castE at h
  simp only at h
  split at h
  · cases h
  · split at h
    · left; cases h; rfl
    · rename_i hne; right; cases h; exact ⟨rfl, hne⟩

/-! ## `negate` and `join` wrap the predicates they are given without altering them -/

theorem predWT_bool {e : Expr} (h : WTPred (.expr e)) : e.ty = T.BOOL := h.2.1

theorem mkNot_stable (e : Expr) (h : e.ty = T.BOOL) : ∃ d, findUn Gen.NOT_OPERATOR = some d ∧ mkNot e = .ok (.un d.res Gen.NOT_OPERATOR e) := by
  refine ⟨⟨"not", T.BOOL, T.BOOL⟩, by decide, ?_⟩
  unfold mkNot
  exact mkUn_stable (d := ⟨"not", T.BOOL, T.BOOL⟩) (by decide) (by rw [h]; decide) (by rw [h]; decide)

theorem mkAnd_stable (a b : Expr) (ha : a.ty = T.BOOL) (hb : b.ty = T.BOOL) :
    ∃ d, findBin Gen.AND_OPERATOR = some d ∧ mkAnd a b = .ok (.bin d.res Gen.AND_OPERATOR a b) := by
  refine ⟨⟨"and", T.BOOL, T.BOOL, T.BOOL, true, true, true⟩, by decide, ?_⟩
  unfold mkAnd
  exact mkBin_stable (d := ⟨"and", T.BOOL, T.BOOL, T.BOOL, true, true, true⟩) (by decide) (by rw [ha]; decide) (by rw [hb]; decide)
    (fun _ => by rw [ha, hb]) (by rw [ha]; decide) (by rw [hb]; decide)

end Hpl
