import Hpl.Spec.Schema
import Hpl.Lemmas.Except
/-!
# C17 — schema checking of references is exact

`checkRefs` (model of `HplExpression.type_check_references` + `HplDataAccess.type_check_references`) succeeds iff every
accessor node of the tree — wherever it stands — resolves in the schema of its root, its inferred type set meets the
declared type, and literal indices into fixed-length arrays are in bounds (`RefsOK`).
-/
namespace Hpl

theorem nextField_ok_iff (t t' : TyTok) (n : String) : nextField t n = .ok t' ↔ tokFieldOf t n = some t' := by
  unfold nextField tokFieldOf
  cases t with
  | msg _ fs cs =>
    simp only
    cases h1 : fs.find n with
    | some a => simp
    | none =>
      cases h2 : cs.find n with
      | some b => simp
      | none => simp
  | prim _ _ => simp
  | arr _ _ _ => simp

/-- bounds condition of one index step -/
def StepInBounds (t : TyTok) (i : Expr) : Prop :=
  match t, i with
  | .arr _ _ len, .lit _ _ v => containsIndex len v = .ok true
  | _, _ => True

theorem nextIndex_ok_iff (t t' : TyTok) (i : Expr) : nextIndex t i = .ok t' ↔ tokElemOf t = some t' ∧ StepInBounds t i := by
  unfold nextIndex tokElemOf StepInBounds
  cases t with
  | arr n sub len =>
    cases i with
    | lit ty tok v =>
      simp only
      cases hc : containsIndex len v with
      | error x => simp [bind, Except.bind]
      | ok b => cases b <;> simp [bind, Except.bind] <;> exact eq_comm
    | _ => simp <;> exact eq_comm
  | prim _ _ => simp
  | msg _ _ _ => simp

theorem compatTy_ok_iff (ty : DataType) (t : TyTok) : compatTy ty t = .ok () ↔ ty &&& t.ty ≠ 0 := by
  unfold compatTy; split <;> simp_all

theorem inBounds_index (this : TyTok) (vars : VarTypes) (ty : DataType) (a i : Expr) (t : TyTok)
    (h : denote this vars a = some t) : InBounds this vars (.index ty a i) ↔ StepInBounds t i := by
  cases i with
  | lit ty' tok v =>
    simp only [InBounds, StepInBounds, h]
    cases t with
    | arr n sub len => simp
    | prim _ _ => simp
    | msg _ _ _ => simp
  | _ => cases t <;> simp [InBounds, StepInBounds]

variable (this : TyTok) (vars : VarTypes)

theorem mem_refsOK_append {l1 l2 : List Expr} :
    (∀ a ∈ l1 ++ l2, isAccessor a = true → RefOK this vars a) ↔
    (∀ a ∈ l1, isAccessor a = true → RefOK this vars a) ∧ (∀ a ∈ l2, isAccessor a = true → RefOK this vars a) := by
  simp only [List.mem_append]
  constructor
  · intro h; exact ⟨fun a ha => h a (Or.inl ha), fun a ha => h a (Or.inr ha)⟩
  · rintro ⟨h1, h2⟩ a (ha | ha)
    · exact h1 a ha
    · exact h2 a ha

theorem refsOK_cons (e : Expr) (l : List Expr) (h : isAccessor e = false) :
    (∀ a ∈ e :: l, isAccessor a = true → RefOK this vars a) ↔ (∀ a ∈ l, isAccessor a = true → RefOK this vars a) := by
  simp only [List.mem_cons, forall_eq_or_imp, h, Bool.false_eq_true, false_imp_iff, true_and]

mutual
/-- resolution of an accessor chain = pure navigation + validity of every accessor node below it -/
theorem resolveAcc_ok_iff (hb : BaseMsgs this vars) : ∀ (e : Expr) (t : TyTok),
    resolveAcc this vars e = .ok t ↔ denote this vars e = some t ∧ RefsOK this vars e
  | .this ty, t => by
      simp only [resolveAcc, hb.1, ↓reduceIte, denote, RefsOK, Expr.preorder]
      constructor
      · intro h; cases h; exact ⟨rfl, by intro a ha; simp at ha; subst ha; simp [isAccessor]⟩
      · intro h; cases h.1; rfl
  | .var ty x, t => by
      simp only [resolveAcc, denote, RefsOK, Expr.preorder]
      cases hl : lookupTok x vars with
      | none => simp
      | some t0 =>
        simp only [hb.2 x t0 hl, ↓reduceIte]
        constructor
        · intro h; cases h; exact ⟨rfl, by intro a ha; simp at ha; subst ha; simp [isAccessor]⟩
        · intro h; cases h.1; rfl
  | .field ty m name, t => by
      simp only [resolveAcc, denote, RefsOK, Expr.preorder, List.mem_cons, forall_eq_or_imp]
      constructor
      · intro h
        obtain ⟨t0, h0, h⟩ := bind_ok h
        obtain ⟨t1, h1, h⟩ := bind_ok h
        obtain ⟨_, h2, h⟩ := bind_ok h
        have ht : t1 = t := by cases h; rfl
        subst ht
        obtain ⟨hd, hr⟩ := (resolveAcc_ok_iff hb m t0).1 h0
        have hf := (nextField_ok_iff t0 t1 name).1 h1
        have hc := (compatTy_ok_iff ty t1).1 h2
        refine ⟨by simp [hd, hf], ?_, hr⟩
        intro _
        exact ⟨⟨t1, by simp [denote, hd, hf], hc⟩, trivial⟩
      · rintro ⟨hd, hself, hr⟩
        obtain ⟨⟨t1, hd1, hc⟩, _⟩ := hself rfl
        simp only [denote] at hd1
        cases hm : denote this vars m with
        | none => simp [hm] at hd
        | some t0 =>
          simp only [hm, Option.bind_some] at hd hd1
          have h0 := (resolveAcc_ok_iff hb m t0).2 ⟨hm, hr⟩
          rw [hd] at hd1; cases hd1
          simp only [h0, bind, Except.bind, (nextField_ok_iff t0 t name).2 hd, (compatTy_ok_iff ty t).2 hc]
          rfl
  | .index ty a i, t => by
      simp only [resolveAcc, denote, RefsOK, Expr.preorder, List.mem_cons, forall_eq_or_imp]
      rw [mem_refsOK_append]
      constructor
      · intro h
        obtain ⟨t0, h0, h⟩ := bind_ok h
        obtain ⟨t1, h1, h⟩ := bind_ok h
        obtain ⟨_, h2, h⟩ := bind_ok h
        obtain ⟨_, h3, h⟩ := bind_ok h
        have ht : t1 = t := by cases h; rfl
        subst ht
        obtain ⟨hd, hr⟩ := (resolveAcc_ok_iff hb a t0).1 h0
        obtain ⟨he, hbnd⟩ := (nextIndex_ok_iff t0 t1 i).1 h1
        have hc := (compatTy_ok_iff ty t1).1 h2
        have hi := (checkRefs_ok_iff hb i).1 h3
        refine ⟨by simp [hd, he], ?_, hr, hi⟩
        intro _
        exact ⟨⟨t1, by simp [denote, hd, he], hc⟩, (inBounds_index this vars ty a i t0 hd).2 hbnd⟩
      · rintro ⟨hd, hself, hr, hi⟩
        obtain ⟨⟨t1, hd1, hc⟩, hbnd⟩ := hself rfl
        simp only [denote] at hd1
        cases hm : denote this vars a with
        | none => simp [hm] at hd
        | some t0 =>
          simp only [hm, Option.bind_some] at hd hd1
          have h0 := (resolveAcc_ok_iff hb a t0).2 ⟨hm, hr⟩
          rw [hd] at hd1; cases hd1
          have hb' := (inBounds_index this vars ty a i t0 hm).1 hbnd
          have h3 := (checkRefs_ok_iff hb i).2 hi
          simp only [h0, bind, Except.bind, (nextIndex_ok_iff t0 t i).2 ⟨hd, hb'⟩, (compatTy_ok_iff ty t).2 hc, h3]
          rfl
  | .lit .., t => by simp [resolveAcc, denote]
  | .set .., t => by simp [resolveAcc, denote]
  | .range .., t => by simp [resolveAcc, denote]
  | .quant .., t => by simp [resolveAcc, denote]
  | .un .., t => by simp [resolveAcc, denote]
  | .bin .., t => by simp [resolveAcc, denote]
  | .call .., t => by simp [resolveAcc, denote]
/-- **C17**: the expression-level check succeeds iff every field path at every position is valid in the schema -/
theorem checkRefs_ok_iff (hb : BaseMsgs this vars) : ∀ (e : Expr), checkRefs this vars e = .ok () ↔ RefsOK this vars e
  | .lit .. => by simp [checkRefs, RefsOK, Expr.preorder, isAccessor]
  | .this _ => by simp [checkRefs, RefsOK, Expr.preorder, isAccessor]
  | .var .. => by simp [checkRefs, RefsOK, Expr.preorder, isAccessor]
  | .set ty vs => by
      simp only [checkRefs, RefsOK, Expr.preorder]
      rw [refsOK_cons this vars _ _ rfl]
      simpa [RefsOKL] using checkRefsL_ok_iff hb vs
  | .range ty lo hi _ _ => by
      simp only [checkRefs, RefsOK, Expr.preorder]
      rw [refsOK_cons this vars _ _ rfl]
      rw [mem_refsOK_append]
      have h1 := checkRefs_ok_iff hb lo
      have h2 := checkRefs_ok_iff hb hi
      simp only [RefsOK] at h1 h2
      rw [← h1, ← h2]
      cases checkRefs this vars lo <;> simp [bind, Except.bind]
  | .quant ty _ _ d b => by
      simp only [checkRefs, RefsOK, Expr.preorder]
      rw [refsOK_cons this vars _ _ rfl]
      rw [mem_refsOK_append]
      have h1 := checkRefs_ok_iff hb d
      have h2 := checkRefs_ok_iff hb b
      simp only [RefsOK] at h1 h2
      rw [← h1, ← h2]
      cases checkRefs this vars d <;> simp [bind, Except.bind]
  | .un ty _ a => by
      simp only [checkRefs, RefsOK, Expr.preorder]
      rw [refsOK_cons this vars _ _ rfl]
      simpa [RefsOK] using checkRefs_ok_iff hb a
  | .bin ty _ a b => by
      simp only [checkRefs, RefsOK, Expr.preorder]
      rw [refsOK_cons this vars _ _ rfl]
      rw [mem_refsOK_append]
      have h1 := checkRefs_ok_iff hb a
      have h2 := checkRefs_ok_iff hb b
      simp only [RefsOK] at h1 h2
      rw [← h1, ← h2]
      cases checkRefs this vars a <;> simp [bind, Except.bind]
  | .call ty _ args => by
      simp only [checkRefs, RefsOK, Expr.preorder]
      rw [refsOK_cons this vars _ _ rfl]
      simpa [RefsOKL] using checkRefsL_ok_iff hb args
  | .field ty m name => by
      simp only [checkRefs]
      constructor
      · intro h
        obtain ⟨t, ht, _⟩ := bind_ok h
        exact ((resolveAcc_ok_iff hb (.field ty m name) t).1 ht).2
      · intro h
        obtain ⟨⟨t, hd, _⟩, _⟩ := h (.field ty m name) (by simp [Expr.preorder]) rfl
        have := (resolveAcc_ok_iff hb (.field ty m name) t).2 ⟨hd, h⟩
        simp [this, bind, Except.bind]
  | .index ty a i => by
      simp only [checkRefs]
      constructor
      · intro h
        obtain ⟨t, ht, _⟩ := bind_ok h
        exact ((resolveAcc_ok_iff hb (.index ty a i) t).1 ht).2
      · intro h
        obtain ⟨⟨t, hd, _⟩, _⟩ := h (.index ty a i) (by simp [Expr.preorder]) rfl
        have := (resolveAcc_ok_iff hb (.index ty a i) t).2 ⟨hd, h⟩
        simp [this, bind, Except.bind]
theorem checkRefsL_ok_iff (hb : BaseMsgs this vars) : ∀ (es : ExprList), checkRefsL this vars es = .ok () ↔ RefsOKL this vars es
  | .nil => by simp [checkRefsL, RefsOKL, ExprList.preorder]
  | .cons e es => by
      simp only [checkRefsL, RefsOKL, ExprList.preorder]
      rw [mem_refsOK_append]
      have h1 := checkRefs_ok_iff hb e
      have h2 := checkRefsL_ok_iff hb es
      simp only [RefsOK, RefsOKL] at h1 h2
      rw [← h1, ← h2]
      cases checkRefs this vars e <;> simp [bind, Except.bind]
end

end Hpl

namespace Hpl

/-! ## predicate, event and property level -/

theorem refsCheckPred_ok_iff (this : TyTok) (vars : VarTypes) (hb : BaseMsgs this vars) (p : Pred) :
    refsCheckPred this vars p = .ok () ↔ PredRefsOK this vars p := by
  cases p with
  | expr e => exact checkRefs_ok_iff this vars hb e
  | vtrue => simp [refsCheckPred, PredRefsOK]
  | vfalse => simp [refsCheckPred, PredRefsOK]

/-- every declared channel and alias token is a message token -/
def AllMsgs (m : VarTypes) : Prop := ∀ x t, lookupTok x m = some t → t.isMsg = true

/-- a simple event is valid: its channel is declared and its predicate's references are valid against the channel's
    message type (own fields) and the alias map (`@A.…`) -/
def EventRefsOK (msgTypes aliases : VarTypes) (ev : Event) : Prop :=
  ∀ np ∈ ev.simplePreds, ∃ this, lookupTok np.1 msgTypes = some this ∧ PredRefsOK this aliases np.2

theorem refsCheckEvent_ok_iff (msgTypes aliases : VarTypes) (hm : AllMsgs msgTypes) (ha : AllMsgs aliases) :
    ∀ ev : Event, refsCheckEvent msgTypes aliases ev = .ok () ↔ EventRefsOK msgTypes aliases ev
  | .simple n a p => by
      simp only [refsCheckEvent, EventRefsOK, Event.simplePreds, List.mem_singleton, forall_eq]
      cases hl : lookupTok n msgTypes with
      | none => simp
      | some this =>
        simp only [Option.some.injEq, exists_eq_left']
        exact refsCheckPred_ok_iff this aliases ⟨hm n this hl, ha⟩ p
  | .disj a b => by
      simp only [refsCheckEvent, EventRefsOK, Event.simplePreds, List.mem_append]
      have h1 := refsCheckEvent_ok_iff msgTypes aliases hm ha a
      have h2 := refsCheckEvent_ok_iff msgTypes aliases hm ha b
      simp only [EventRefsOK] at h1 h2
      constructor
      · intro h
        obtain ⟨_, ha', hb'⟩ := bind_ok h
        rintro np (hnp | hnp)
        · exact h1.1 ha' np hnp
        · exact h2.1 hb' np hnp
      · intro h
        have ea := h1.2 (fun np hnp => h np (Or.inl hnp))
        have eb := h2.2 (fun np hnp => h np (Or.inr hnp))
        simp [ea, eb, bind, Except.bind]

theorem refsCheckEvents_ok_iff (msgTypes aliases : VarTypes) (hm : AllMsgs msgTypes) (ha : AllMsgs aliases) :
    ∀ evs : List Event, refsCheckEvents msgTypes aliases evs = .ok () ↔ ∀ ev ∈ evs, EventRefsOK msgTypes aliases ev
  | [] => by simp [refsCheckEvents]
  | ev :: evs => by
      simp only [refsCheckEvents, List.mem_cons, forall_eq_or_imp]
      rw [← refsCheckEvent_ok_iff msgTypes aliases hm ha ev, ← refsCheckEvents_ok_iff msgTypes aliases hm ha evs]
      cases refsCheckEvent msgTypes aliases ev <;> simp [bind, Except.bind]

/-- what `aliasMap` returns: every alias of a listed event, bound to its channel's token (the last definition wins) -/
theorem aliasMap_allMsgs (msgTypes : VarTypes) (hm : AllMsgs msgTypes) :
    ∀ (l : List (String × Option String)) (acc out : VarTypes), AllMsgs acc → aliasMap msgTypes l acc = .ok out → AllMsgs out
  | [], acc, out, hacc, h => by simp only [aliasMap] at h; cases h; exact hacc
  | (_, none) :: rest, acc, out, hacc, h => by
      simp only [aliasMap] at h; exact aliasMap_allMsgs msgTypes hm rest acc out hacc h
  | (n, some a) :: rest, acc, out, hacc, h => by
      simp only [aliasMap] at h
      cases hl : lookupTok n msgTypes with
      | none => simp [hl] at h
      | some t =>
        simp only [hl] at h
        refine aliasMap_allMsgs msgTypes hm rest ((a, t) :: acc) out ?_ h
        intro x t' hx
        simp only [lookupTok] at hx
        split at hx
        · cases hx; exact hm n t hl
        · exact hacc x t' hx

/-- **C17**, property level: the check succeeds iff every aliased event's channel is declared and every simple event
    of the property (activator, behaviour, trigger, terminator; every alternative of a disjunction) is valid -/
theorem refsCheckProperty_ok_iff (msgTypes : VarTypes) (hm : AllMsgs msgTypes) (p : Property) :
    refsCheckProperty msgTypes p = .ok () ↔
      ∃ aliases, aliasMap msgTypes (p.events.flatMap Event.simples) [] = .ok aliases ∧
        ∀ ev ∈ p.events, EventRefsOK msgTypes aliases ev := by
  unfold refsCheckProperty
  constructor
  · intro h
    obtain ⟨al, h1, h2⟩ := bind_ok h
    have hal := aliasMap_allMsgs msgTypes hm _ [] al (by intro x t hx; simp [lookupTok] at hx) h1
    exact ⟨al, h1, (refsCheckEvents_ok_iff msgTypes al hm hal p.events).1 h2⟩
  · rintro ⟨al, h1, h2⟩
    have hal := aliasMap_allMsgs msgTypes hm _ [] al (by intro x t hx; simp [lookupTok] at hx) h1
    simp only [h1, bind, Except.bind]
    exact (refsCheckEvents_ok_iff msgTypes al hm hal p.events).2 h2

/-! ## the error raised identifies the kind of defect -/

theorem containsIndex_err (len : Int) (v : LitVal) (x : Err) (h : containsIndex len v = .error x) : x = .type := by
  cases v <;> simp only [containsIndex] at h <;> try cases h
  split at h <;> cases h; rfl

theorem nextIndex_err (t : TyTok) (i : Expr) (x : Err) (h : nextIndex t i = .error x) : x = .type ∨ x = .index := by
  unfold nextIndex at h
  cases t with
  | arr n sub len =>
    cases i with
    | lit ty tok v =>
      simp only at h
      cases hc : containsIndex len v with
      | error y =>
        simp only [hc, bind, Except.bind] at h
        have : y = x := by cases h; rfl
        subst this; exact Or.inl (containsIndex_err len v y hc)
      | ok b => cases b <;> simp [hc, bind, Except.bind] at h <;> exact Or.inr h.symm
    | _ => simp at h
  | prim _ _ => simp at h; exact Or.inl h.symm
  | msg _ _ _ => simp at h; exact Or.inl h.symm

theorem nextField_err (t : TyTok) (n : String) (x : Err) (h : nextField t n = .error x) : x = .type := by
  unfold nextField at h
  cases t with
  | msg _ fs cs =>
    simp only at h
    cases h1 : fs.find n with
    | some a => simp [h1] at h
    | none =>
      cases h2 : cs.find n with
      | some b => simp [h1, h2] at h
      | none => simp [h1, h2] at h; exact h.symm
  | prim _ _ => simp at h; exact h.symm
  | arr _ _ _ => simp at h; exact h.symm

/-- the documented failures: a type error (unknown field, field/array confusion, type mismatch), an index error
    (literal index out of range), a sanity error (no token for the root variable); anything else is an internal
    assertion about the shape of the tree or of the schema -/
def RefErr (x : Err) : Prop := x = .type ∨ x = .index ∨ x = .sanity ∨ ∃ s, x = .internal s

mutual
theorem resolveAcc_err (this : TyTok) (vars : VarTypes) : ∀ (e : Expr) (x : Err), resolveAcc this vars e = .error x → RefErr x
  | .this _, x, h => by simp only [resolveAcc] at h; split at h <;> cases h; exact Or.inr (Or.inr (Or.inr ⟨_, rfl⟩))
  | .var _ v, x, h => by
      simp only [resolveAcc] at h
      split at h
      · cases h; exact Or.inr (Or.inr (Or.inl rfl))
      · split at h <;> cases h; exact Or.inr (Or.inr (Or.inr ⟨_, rfl⟩))
  | .field ty m name, x, h => by
      simp only [resolveAcc] at h
      rcases bind_err h with h0 | ⟨t0, h0, h⟩
      · exact resolveAcc_err this vars m x h0
      · rcases bind_err h with h1 | ⟨t1, h1, h⟩
        · exact Or.inl (nextField_err t0 name x h1)
        · rcases bind_err h with h2 | ⟨_, _, h⟩
          · unfold compatTy at h2; split at h2 <;> cases h2; exact Or.inl rfl
          · cases h
  | .index ty a i, x, h => by
      simp only [resolveAcc] at h
      rcases bind_err h with h0 | ⟨t0, h0, h⟩
      · exact resolveAcc_err this vars a x h0
      · rcases bind_err h with h1 | ⟨t1, h1, h⟩
        · rcases nextIndex_err t0 i x h1 with r | r
          · exact Or.inl r
          · exact Or.inr (Or.inl r)
        · rcases bind_err h with h2 | ⟨_, _, h⟩
          · unfold compatTy at h2; split at h2 <;> cases h2; exact Or.inl rfl
          · rcases bind_err h with h3 | ⟨_, _, h⟩
            · exact checkRefs_err this vars i x h3
            · cases h
  | .lit .., x, h => by simp only [resolveAcc] at h; cases h; exact Or.inr (Or.inr (Or.inr ⟨_, rfl⟩))
  | .set .., x, h => by simp only [resolveAcc] at h; cases h; exact Or.inr (Or.inr (Or.inr ⟨_, rfl⟩))
  | .range .., x, h => by simp only [resolveAcc] at h; cases h; exact Or.inr (Or.inr (Or.inr ⟨_, rfl⟩))
  | .quant .., x, h => by simp only [resolveAcc] at h; cases h; exact Or.inr (Or.inr (Or.inr ⟨_, rfl⟩))
  | .un .., x, h => by simp only [resolveAcc] at h; cases h; exact Or.inr (Or.inr (Or.inr ⟨_, rfl⟩))
  | .bin .., x, h => by simp only [resolveAcc] at h; cases h; exact Or.inr (Or.inr (Or.inr ⟨_, rfl⟩))
  | .call .., x, h => by simp only [resolveAcc] at h; cases h; exact Or.inr (Or.inr (Or.inr ⟨_, rfl⟩))
theorem checkRefs_err (this : TyTok) (vars : VarTypes) : ∀ (e : Expr) (x : Err), checkRefs this vars e = .error x → RefErr x
  | .lit .., x, h => by simp [checkRefs] at h
  | .this _, x, h => by simp [checkRefs] at h
  | .var .., x, h => by simp [checkRefs] at h
  | .set _ vs, x, h => by simp only [checkRefs] at h; exact checkRefsL_err this vars vs x h
  | .range _ lo hi _ _, x, h => by
      simp only [checkRefs] at h
      rcases bind_err h with h0 | ⟨_, _, h⟩
      · exact checkRefs_err this vars lo x h0
      · exact checkRefs_err this vars hi x h
  | .quant _ _ _ d b, x, h => by
      simp only [checkRefs] at h
      rcases bind_err h with h0 | ⟨_, _, h⟩
      · exact checkRefs_err this vars d x h0
      · exact checkRefs_err this vars b x h
  | .un _ _ a, x, h => by simp only [checkRefs] at h; exact checkRefs_err this vars a x h
  | .bin _ _ a b, x, h => by
      simp only [checkRefs] at h
      rcases bind_err h with h0 | ⟨_, _, h⟩
      · exact checkRefs_err this vars a x h0
      · exact checkRefs_err this vars b x h
  | .call _ _ args, x, h => by simp only [checkRefs] at h; exact checkRefsL_err this vars args x h
  | .field ty m name, x, h => by
      simp only [checkRefs] at h
      rcases bind_err h with h0 | ⟨_, _, h⟩
      · exact resolveAcc_err this vars _ x h0
      · cases h
  | .index ty a i, x, h => by
      simp only [checkRefs] at h
      rcases bind_err h with h0 | ⟨_, _, h⟩
      · exact resolveAcc_err this vars _ x h0
      · cases h
theorem checkRefsL_err (this : TyTok) (vars : VarTypes) : ∀ (es : ExprList) (x : Err), checkRefsL this vars es = .error x → RefErr x
  | .nil, x, h => by simp [checkRefsL] at h
  | .cons e es, x, h => by
      simp only [checkRefsL] at h
      rcases bind_err h with h0 | ⟨_, _, h⟩
      · exact checkRefs_err this vars e x h0
      · exact checkRefsL_err this vars es x h
end

/-! ## navigation helpers agree with the declared field tree -/

theorem containsName_iff (t : TyTok) (n : String) : containsName t n = (tokFieldOf t n).isSome := by
  cases t with
  | msg _ fs cs => simp only [containsName, tokFieldOf]; cases fs.find n <;> simp
  | prim _ _ => rfl
  | arr _ _ _ => rfl

theorem getTypeOf_ok_iff (name : String) (fs cs : FieldList) (n : String) (t' : TyTok) :
    getTypeOf (.msg name fs cs) n = .ok t' ↔ tokFieldOf (.msg name fs cs) n = some t' := by
  simp only [getTypeOf, tokFieldOf]
  cases h1 : fs.find n with
  | some a => simp
  | none => cases h2 : cs.find n <;> simp

/-! ## token constructors reject ill-formed declarations -/

theorem mkRanged_ok_iff (ty : DataType) (lo hi : Rat) :
    mkRanged ty lo hi = .ok () ↔ ty ∈ [T.BOOL, T.NUMBER, T.STRING, T.ARRAY, T.SET, T.MESSAGE] ∧ lo ≤ hi := by
  unfold mkRanged
  split
  · simp_all
  · split
    · rename_i h1 h2; simp only [reduceCtorEq, false_iff, not_and, Rat.not_le]; exact fun _ => h2
    · rename_i h1 h2; simp only [true_iff]; exact ⟨Classical.not_not.mp h1, Rat.not_lt.mp h2⟩

theorem mkArray_ok_iff (len : Int) : mkArray len = .ok () ↔ -1 ≤ len := by
  unfold mkArray; split <;> simp <;> omega

end Hpl

namespace Hpl

/-! ## `leaf_fields()` lists exactly the paths of the declared tree that end in a non-message field -/

theorem find_mem_names : ∀ (fs : FieldList) (n : String) (t : TyTok), fs.find n = some t → n ∈ fs.names
  | .nil, _, _, h => by simp [FieldList.find] at h
  | .cons m t0 rest, n, t, h => by
      simp only [FieldList.find] at h
      simp only [FieldList.names, List.mem_cons]
      split at h
      · rename_i hm; exact Or.inl (eq_of_beq hm).symm
      · exact Or.inr (find_mem_names rest n t h)

theorem walk_msg_nonempty (name : String) (fs cs : FieldList) : ∀ (path : List String), path ≠ [] →
    walk (.msg name fs cs) path = walkL fs path
  | [], h => absurd rfl h
  | n :: rest, _ => by simp [walk, walkL]

theorem walk_nonmsg (t : TyTok) (h : t.isMsg = false) : ∀ (path : List String), path ≠ [] → walk t path = none
  | [], hp => absurd rfl hp
  | n :: rest, _ => by cases t <;> simp_all [walk, TyTok.isMsg]

theorem joinDots_cons (n : String) : ∀ (path : List String), path ≠ [] → joinDots (n :: path) = n ++ "." ++ joinDots path
  | [], h => absurd rfl h
  | _ :: _, _ => rfl

/-- a leaf of the declared tree: a non-empty path of field names from the message type to a non-message token -/
def IsLeaf (fs : FieldList) (p : String) (t : TyTok) : Prop :=
  ∃ path, path ≠ [] ∧ p = joinDots path ∧ walkL fs path = some t ∧ t.isMsg = false

theorem isLeaf_rest (n : String) (t0 : TyTok) (rest : FieldList) (hnot : n ∉ rest.names) (p : String) (t : TyTok)
    (h : IsLeaf rest p t) : IsLeaf (.cons n t0 rest) p t := by
  obtain ⟨path, hne, hp, hw, hleaf⟩ := h
  refine ⟨path, hne, hp, ?_, hleaf⟩
  cases path with
  | nil => exact absurd rfl hne
  | cons m rest' =>
    simp only [walkL] at hw ⊢
    cases hf : rest.find m with
    | none => simp [hf] at hw
    | some tm =>
      have hmn : (n == m) = false := by
        cases hb : n == m with
        | false => rfl
        | true => exact absurd ((eq_of_beq hb) ▸ find_mem_names rest m tm hf) hnot
      simp only [FieldList.find, hmn, Bool.false_eq_true, ↓reduceIte, hf] at hw ⊢
      exact hw

theorem isLeaf_nonmsg (n : String) (t0 : TyTok) (h0 : t0.isMsg = false) (rest : FieldList) (hnot : n ∉ rest.names)
    (p : String) (t : TyTok) (ihr : (p, t) ∈ leafFieldsL rest ↔ IsLeaf rest p t) :
    ((p = n ∧ t = t0) ∨ (p, t) ∈ leafFieldsL rest) ↔ IsLeaf (.cons n t0 rest) p t := by
  constructor
  · rintro (⟨hp, ht⟩ | hrest)
    · subst hp; subst ht
      exact ⟨[p], by simp, rfl, by simp [walkL, FieldList.find, walk], h0⟩
    · exact isLeaf_rest n t0 rest hnot p t (ihr.1 hrest)
  · rintro ⟨path, hne, hp, hw, hleaf⟩
    cases path with
    | nil => exact absurd rfl hne
    | cons m rest' =>
      simp only [walkL, FieldList.find] at hw
      by_cases hmn : (n == m) = true
      · left
        simp only [hmn, ↓reduceIte, Option.bind_some] at hw
        have hnm : n = m := eq_of_beq hmn
        subst hnm
        by_cases hr : rest' = []
        · subst hr
          simp only [walk, Option.some.injEq] at hw
          exact ⟨by simp [hp, joinDots], hw.symm⟩
        · rw [walk_nonmsg t0 h0 rest' hr] at hw; cases hw
      · right
        simp only [hmn, Bool.false_eq_true, ↓reduceIte] at hw
        exact ihr.2 ⟨m :: rest', hne, hp, by simpa [walkL] using hw, hleaf⟩

/-- **C17**: `leaf_fields()` lists exactly the leaves of the declared field tree (dotted paths), given unique keys -/
theorem mem_leafFieldsL_iff : ∀ (fs : FieldList), fs.WF → ∀ (p : String) (t : TyTok), (p, t) ∈ leafFieldsL fs ↔ IsLeaf fs p t
  | .nil, _, p, t => by
      simp only [leafFieldsL, List.not_mem_nil, false_iff]
      rintro ⟨path, hne, _, hw, _⟩
      cases path with
      | nil => exact hne rfl
      | cons n rest => simp [walkL, FieldList.find] at hw
  | .cons n (.msg name fs0 cs0) rest, hwf, p, t => by
      obtain ⟨hnot, hwf0, hwfr⟩ := hwf
      have ihr := mem_leafFieldsL_iff rest hwfr p t
      simp only [leafFieldsL, List.mem_append, List.mem_map]
      constructor
      · rintro (⟨⟨p', t'⟩, hmem, heq⟩ | hrest)
        · simp only [Prod.mk.injEq] at heq
          obtain ⟨hp, ht⟩ := heq
          subst ht
          obtain ⟨path', hne, hp', hw, hleaf⟩ := (mem_leafFieldsL_iff fs0 hwf0.1 p' t').1 hmem
          refine ⟨n :: path', by simp, ?_, ?_, hleaf⟩
          · rw [joinDots_cons n path' hne, ← hp', ← hp]
          · simp only [walkL, FieldList.find, beq_self_eq_true, ↓reduceIte, Option.bind_some]
            rw [walk_msg_nonempty name fs0 cs0 path' hne]; exact hw
        · exact isLeaf_rest n _ rest hnot p t (ihr.1 hrest)
      · rintro ⟨path, hne, hp, hw, hleaf⟩
        cases path with
        | nil => exact absurd rfl hne
        | cons m rest' =>
          simp only [walkL, FieldList.find] at hw
          by_cases hmn : (n == m) = true
          · left
            simp only [hmn, ↓reduceIte, Option.bind_some] at hw
            have hnm : n = m := eq_of_beq hmn
            subst hnm
            by_cases hr : rest' = []
            · subst hr
              simp only [walk, Option.some.injEq] at hw
              subst hw
              simp [TyTok.isMsg] at hleaf
            · rw [walk_msg_nonempty name fs0 cs0 rest' hr] at hw
              refine ⟨(joinDots rest', t), (mem_leafFieldsL_iff fs0 hwf0.1 _ t).2 ⟨rest', hr, rfl, hw, hleaf⟩, ?_⟩
              simp [hp, joinDots_cons n rest' hr]
          · right
            simp only [hmn, Bool.false_eq_true, ↓reduceIte] at hw
            exact ihr.2 ⟨m :: rest', hne, hp, by simpa [walkL] using hw, hleaf⟩
  | .cons n (.prim a b) rest, hwf, p, t => by
      obtain ⟨hnot, _, hwfr⟩ := hwf
      have ihr := mem_leafFieldsL_iff rest hwfr p t
      simp only [leafFieldsL, List.mem_cons, Prod.mk.injEq]
      exact isLeaf_nonmsg n (.prim a b) rfl rest hnot p t ihr
  | .cons n (.arr a b c) rest, hwf, p, t => by
      obtain ⟨hnot, _, hwfr⟩ := hwf
      have ihr := mem_leafFieldsL_iff rest hwfr p t
      simp only [leafFieldsL, List.mem_cons, Prod.mk.injEq]
      exact isLeaf_nonmsg n (.arr a b c) rfl rest hnot p t ihr

theorem mem_leafFields_iff (name : String) (fs cs : FieldList) (h : (TyTok.msg name fs cs).WF) (p : String) (t : TyTok) :
    (p, t) ∈ leafFields (.msg name fs cs) ↔ IsLeaf fs p t := by
  simp only [leafFields]; exact mem_leafFieldsL_iff fs h.1 p t

-- non-vacuity: T { x: num, m: M { b: bool, n: N { c: bool } } }
example : leafFields (.msg "T" (.cons "x" (.prim "int32" 2) (.cons "m" (.msg "M" (.cons "b" (.prim "bool" 1)
    (.cons "n" (.msg "N" (.cons "c" (.prim "bool" 1) .nil) .nil) .nil)) .nil) .nil)) .nil)
    = [("x", .prim "int32" 2), ("m.b", .prim "bool" 1), ("m.n.c", .prim "bool" 1)] := by
  simp [leafFields, leafFieldsL]

end Hpl

namespace Hpl

/-! ## predefined integer tokens (table G6, regenerated from `hpl.types` on every run) -/

/-- two's-complement bounds of a `bits`-wide integer -/
def intBounds (signed : Bool) (bits : Nat) : Int × Int :=
  if signed then (-(2 ^ (bits - 1) : Int), 2 ^ (bits - 1) - 1) else (0, 2 ^ bits - 1)

/-- **C17**: the predefined integer type tokens are NUMBER tokens carrying exactly the two's-complement bounds of their width -/
theorem G6_int_tokens :
    (Gen.rangedTypes.filter (·.isInt)).map (fun r => (r.name, r.ty, (r.lo, r.hi))) =
      [("uint8", T.NUMBER, intBounds false 8), ("uint16", T.NUMBER, intBounds false 16), ("uint32", T.NUMBER, intBounds false 32),
       ("uint64", T.NUMBER, intBounds false 64), ("int8", T.NUMBER, intBounds true 8), ("int16", T.NUMBER, intBounds true 16),
       ("int32", T.NUMBER, intBounds true 32), ("int64", T.NUMBER, intBounds true 64)] := by decide

/-- every predefined ranged token is well formed (`min <= max`), so its own validator accepts it -/
theorem G6_well_formed : ∀ r ∈ Gen.rangedTypes, r.lo ≤ r.hi ∧ r.ty = T.NUMBER := by decide

end Hpl
