import Hpl.Model.Parser
/-! # C18 — a specification file is exactly its sequence of annotated properties (model; theorems in progress) -/
namespace Hpl

/-- an empty file is rejected with a syntax error -/
theorem empty_file_rejected : parseSpecification "" = .error .syntax := by rfl

/-- a repeated annotation key is a syntax error, whatever follows -/
theorem duplicate_key_rejected (r : RawProperty) (h : (r.metadata.map Prod.fst).Nodup = false ∨ ¬ (r.metadata.map Prod.fst).Nodup) :
    buildProperty r = .error .syntax := by
  have hn : ¬ (r.metadata.map Prod.fst).Nodup := by
    rcases h with h | h
    · intro hc; simp [hc] at h
    · exact h
  unfold buildProperty checkMetadata
  simp [hn, bind, Except.bind]

/-- a file is built member by member: its result is the list of the members' results, or the first member error -/
theorem buildSpec_members (rs : List RawProperty) (h : rs ≠ []) : buildSpec rs = rs.mapM buildProperty := by
  unfold buildSpec
  cases rs with
  | nil => exact absurd rfl h
  | cons r rs => simp

end Hpl
