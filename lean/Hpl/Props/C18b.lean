import Hpl.Props.C01d
/-!
# C01 / C18 — the property and file parsers read tokens only through their keys

`parsePropertyToks_sim`, `parseFileToks_sim`: token sequences that agree on `tokKey` give the same property trees (or are both
rejected): white space between tokens never influences the result at property and file level either.
-/
namespace Hpl

theorem key_isWordS {t' t : Tok} (hk : tokKey t' = tokKey t) (s : String) : isWordS t' s = isWordS t s := by
  simp only [isWordS, key_kind hk, key_text hk]

/-- the part of an event after its name and alias -/
def pEventBody (name : String) (al : Option String) (ts : List Tok) : PR (RawSimple × List Tok) :=
  match ts with
  | b :: _ => if isSym b "{" then do let (p, r) ← pPredicate ts; pure (⟨name, al, some p⟩, r) else .ok (⟨name, al, none⟩, ts)
  | [] => .ok (⟨name, al, none⟩, ts)

/-- `pEvent`, written as a decision tree -/
def pEvent' (ts : List Tok) : PR (RawSimple × List Tok) :=
  match ts with
  | n :: rest =>
    if n.kind == .word && isChannelName n.text then
      match rest with
      | a :: rest1 =>
        if isKw a "as" then
          (match rest1 with
           | v :: r => if v.kind == .word && isCName v.text then pEventBody n.text (some v.text) r else perr
           | [] => perr)
        else pEventBody n.text none rest
      | [] => pEventBody n.text none rest
    else perr
  | [] => perr

theorem pEvent_eq (ts : List Tok) : pEvent ts = pEvent' ts := by
  unfold pEvent pEvent'
  cases ts with
  | nil => rfl
  | cons n rest =>
    simp only
    split
    · cases rest with
      | nil => simp [pEventBody]
      | cons a rest1 =>
        cases rest1 with
        | nil =>
          by_cases ha : isKw a "as" = true
          · simp [ha]
          · simp [ha, pEventBody]
        | cons v r =>
          by_cases ha : isKw a "as" = true
          · by_cases hv : (v.kind == .word && isCName v.text) = true
            · simp only [Bool.and_eq_true] at hv
              simp [ha, hv.1, hv.2, pEventBody]
              all_goals (cases r <;> rfl)
            · have hv' : (isKw a "as" && v.kind == TokKind.word && isCName v.text) = false := by
                simp only [Bool.and_assoc, ha, Bool.true_and]; simpa using hv
              simp [ha, hv, hv']
          · have hv' : (isKw a "as" && v.kind == TokKind.word && isCName v.text) = false := by simp [ha]
            simp [ha, hv', pEventBody]
    · rfl

theorem pEventBody_sim (name : String) (al : Option String) {x' x : List Tok} (hx : KEq x' x) :
    RRel (pEventBody name al x') (pEventBody name al x) := by
  unfold pEventBody
  cases x' with
  | nil => have := hx.nil_left; subst this; exact RRel.ok (KEq.refl _)
  | cons b' y' =>
    obtain ⟨b, y, rfl, hkb, hy⟩ := hx.cons_inv
    simp only [key_isSym hkb]
    split
    · exact RRel.bind (pPredicate_sim (KEq.cons hkb hy)) (fun p rs rs' hrs => RRel.ok hrs)
    · exact RRel.ok (KEq.cons hkb hy)

theorem pEvent_sim {ts' ts : List Tok} (h : KEq ts' ts) : RRel (pEvent ts') (pEvent ts) := by
  rw [pEvent_eq, pEvent_eq]
  unfold pEvent'
  cases ts' with
  | nil => have := h.nil_left; subst this; exact RRel.err
  | cons n' r' =>
    obtain ⟨n, r, rfl, hkn, hr⟩ := h.cons_inv
    simp only [key_kind hkn, key_text hkn]
    split
    · cases r' with
      | nil => have := hr.nil_left; subst this; exact pEventBody_sim _ _ (KEq.refl _)
      | cons a' r2' =>
        obtain ⟨a, r2, rfl, hka, hr2⟩ := hr.cons_inv
        simp only [key_isKw hka]
        split
        · cases r2' with
          | nil => have := hr2.nil_left; subst this; exact RRel.err
          | cons v' r3' =>
            obtain ⟨v, r3, rfl, hkv, hr3⟩ := hr2.cons_inv
            simp only [key_kind hkv, key_text hkv]
            split
            · exact pEventBody_sim _ _ hr3
            · exact RRel.err
        · exact pEventBody_sim _ _ (KEq.cons hka hr2)
    · exact RRel.err

end Hpl

namespace Hpl

theorem pDisjTail_sim : ∀ (f : Nat) (acc : List RawSimple) {ts' ts : List Tok}, KEq ts' ts → RRel (pDisjTail f acc ts') (pDisjTail f acc ts)
  | 0, _, _, _, _ => by simp [pDisjTail, RRel, perr]
  | f + 1, acc, ts', ts, h => by
      simp only [pDisjTail]
      refine RRel.bind (pEvent_sim h) (fun e rs rs' hrs => ?_)
      cases rs with
      | nil => have := hrs.nil_left; subst this; exact RRel.err
      | cons t' r' =>
        obtain ⟨t, r, rfl, hk, hr⟩ := hrs.cons_inv
        simp only [key_isKw hk, key_isSym hk]
        split
        · exact pDisjTail_sim f _ hr
        · split
          · split
            · exact RRel.err
            · exact RRel.ok hr
          · exact RRel.err

theorem pAnyEvent_sim {ts' ts : List Tok} (h : KEq ts' ts) : RRel (pAnyEvent ts') (pAnyEvent ts) := by
  unfold pAnyEvent
  cases ts' with
  | nil => have := h.nil_left; subst this; exact RRel.err
  | cons t' r' =>
    obtain ⟨t, r, rfl, hk, hr⟩ := h.cons_inv
    simp only [key_isSym hk]
    split
    · simp only [List.length_cons, hr.length]; exact pDisjTail_sim _ _ hr
    · exact RRel.bind (pEvent_sim (KEq.cons hk hr)) (fun e rs rs' hrs => RRel.ok hrs)

theorem pTimeBound_sim {ts' ts : List Tok} (h : KEq ts' ts) : RRel (pTimeBound ts') (pTimeBound ts) := by
  unfold pTimeBound
  cases ts' with
  | nil => have := h.nil_left; subst this; exact RRel.ok (KEq.refl _)
  | cons w' r' =>
    obtain ⟨w, r, rfl, hk, hr⟩ := h.cons_inv
    simp only [key_isKw hk]
    split
    · cases r' with
      | nil => have := hr.nil_left; subst this; exact RRel.err
      | cons n' r2' =>
        obtain ⟨n, r2, rfl, hkn, hr2⟩ := hr.cons_inv
        cases r2' with
        | nil => have := hr2.nil_left; subst this; exact RRel.err
        | cons u' r3' =>
          obtain ⟨u, r3, rfl, hku, hr3⟩ := hr2.cons_inv
          simp only [key_kind hkn, key_text hkn, key_isWordS hku]
          split
          · cases decimalValue n.text with
            | none => exact RRel.err
            | some v =>
              simp only
              split
              · exact RRel.ok hr3
              · split
                · exact RRel.ok hr3
                · exact RRel.err
          · exact RRel.err
    · exact RRel.ok (KEq.cons hk hr)

theorem pMetadata_sim : ∀ (f : Nat) (acc : List (String × String)) {ts' ts : List Tok}, KEq ts' ts →
    RRel (pMetadata f acc ts') (pMetadata f acc ts)
  | 0, _, _, _, _ => by simp [pMetadata, RRel, perr]
  | f + 1, acc, ts', ts, h => by
      match ts', h with
      | [], h => have := h.nil_left; subst this; simp only [pMetadata]; exact RRel.ok (KEq.refl _)
      | [h1'], h =>
        obtain ⟨h1, r, rfl, hk1, hr⟩ := h.cons_inv
        have := hr.nil_left; subst this
        simp only [pMetadata, key_isSym hk1]
        split
        · exact RRel.err
        · exact RRel.ok (KEq.cons hk1 (KEq.refl _))
      | [h1', k'], h =>
        obtain ⟨h1, r, rfl, hk1, hr⟩ := h.cons_inv
        obtain ⟨k, r2, rfl, hk2, hr2⟩ := hr.cons_inv
        have := hr2.nil_left; subst this
        simp only [pMetadata, key_isSym hk1]
        split
        · exact RRel.err
        · exact RRel.ok (KEq.cons hk1 (KEq.cons hk2 (KEq.refl _)))
      | [h1', k', c'], h =>
        obtain ⟨h1, r, rfl, hk1, hr⟩ := h.cons_inv
        obtain ⟨k, r2, rfl, hk2, hr2⟩ := hr.cons_inv
        obtain ⟨c, r3, rfl, hk3, hr3⟩ := hr2.cons_inv
        have := hr3.nil_left; subst this
        simp only [pMetadata, key_isSym hk1]
        split
        · exact RRel.err
        · exact RRel.ok (KEq.cons hk1 (KEq.cons hk2 (KEq.cons hk3 (KEq.refl _))))
      | h1' :: k' :: c' :: v' :: rest', h =>
        obtain ⟨h1, r, rfl, hk1, hr⟩ := h.cons_inv
        obtain ⟨k, r2, rfl, hk2, hr2⟩ := hr.cons_inv
        obtain ⟨c, r3, rfl, hk3, hr3⟩ := hr2.cons_inv
        obtain ⟨v, r4, rfl, hk4, hr4⟩ := hr3.cons_inv
        simp only [pMetadata, key_isSym hk1, key_isSym hk3, key_isWordS hk2, key_kind hk4, key_text hk4]
        split
        · split
          · split
            · exact pMetadata_sim f _ hr4
            · split
              · exact pMetadata_sim f _ hr4
              · split
                · exact pMetadata_sim f _ hr4
                · exact RRel.err
          · exact RRel.err
        · exact RRel.ok (KEq.cons hk1 (KEq.cons hk2 (KEq.cons hk3 (KEq.cons hk4 hr4))))

end Hpl

namespace Hpl

def SRel (x y : PR (ScopeKind × Option RawEvent × Option RawEvent × List Tok)) : Prop :=
  match x, y with
  | .ok (k, a, t, rs), .ok (k', a', t', rs') => k = k' ∧ a = a' ∧ t = t' ∧ KEq rs rs'
  | .error _, .error _ => True
  | _, _ => False

theorem RRel.elim {α : Type} {x y : PR (α × List Tok)} (h : RRel x y) :
    (∃ r rs rs', x = .ok (r, rs) ∧ y = .ok (r, rs') ∧ KEq rs rs') ∨ ((∃ e, x = .error e) ∧ (∃ e, y = .error e)) := by
  cases x with
  | error e => cases y with
    | error e' => exact Or.inr ⟨⟨e, rfl⟩, ⟨e', rfl⟩⟩
    | ok b => exact absurd h (by simp [RRel])
  | ok a => cases y with
    | error e' => exact absurd h (by simp [RRel])
    | ok b =>
      obtain ⟨r, rs⟩ := a; obtain ⟨r', rs'⟩ := b
      obtain ⟨rfl, hrs⟩ := h
      exact Or.inl ⟨r, rs, rs', rfl, rfl, hrs⟩

theorem pScope_sim {ts' ts : List Tok} (h : KEq ts' ts) : SRel (pScope ts') (pScope ts) := by
  unfold pScope
  cases ts' with
  | nil => have := h.nil_left; subst this; trivial
  | cons t' r' =>
    obtain ⟨t, r, rfl, hk, hr⟩ := h.cons_inv
    simp only [key_isKw hk]
    split
    · exact ⟨rfl, rfl, rfl, hr⟩
    · split
      · rcases (pAnyEvent_sim hr).elim with ⟨a, rs, rs', h1, h2, hrs⟩ | ⟨⟨e1, h1⟩, ⟨e2, h2⟩⟩
        · rw [h1, h2]
          simp only [bind, Except.bind]
          cases rs with
          | nil => have := hrs.nil_left; subst this; exact ⟨rfl, rfl, rfl, KEq.refl _⟩
          | cons u' r2' =>
            obtain ⟨u, r2, rfl, hku, hr2⟩ := hrs.cons_inv
            simp only [key_isKw hku]
            split
            · rcases (pAnyEvent_sim hr2).elim with ⟨q, qs, qs', h3, h4, hqs⟩ | ⟨⟨e3, h3⟩, ⟨e4, h4⟩⟩
              · rw [h3, h4]; exact ⟨rfl, rfl, rfl, hqs⟩
              · rw [h3, h4]; trivial
            · exact ⟨rfl, rfl, rfl, KEq.cons hku hr2⟩
        · rw [h1, h2]; trivial
      · split
        · rcases (pAnyEvent_sim hr).elim with ⟨q, qs, qs', h3, h4, hqs⟩ | ⟨⟨e3, h3⟩, ⟨e4, h4⟩⟩
          · rw [h3, h4]; exact ⟨rfl, rfl, rfl, hqs⟩
          · rw [h3, h4]; trivial
        · trivial

theorem pPattern_sim (sk : ScopeKind) (act term : Option RawEvent) (md : List (String × String)) {ts' ts : List Tok} (h : KEq ts' ts) :
    RRel (pPattern sk act term md ts') (pPattern sk act term md ts) := by
  unfold pPattern
  cases ts' with
  | nil => have := h.nil_left; subst this; exact RRel.err
  | cons t' r' =>
    obtain ⟨t, r, rfl, hk, hr⟩ := h.cons_inv
    simp only [key_isKw hk]
    split
    · exact RRel.bind (pAnyEvent_sim hr) (fun b rs rs' hrs => RRel.bind (pTimeBound_sim hrs) (fun tb qs qs' hqs => RRel.ok hqs))
    · split
      · exact RRel.bind (pAnyEvent_sim hr) (fun b rs rs' hrs => RRel.bind (pTimeBound_sim hrs) (fun tb qs qs' hqs => RRel.ok hqs))
      · refine RRel.bind (pAnyEvent_sim (KEq.cons hk hr)) (fun e1 rs rs' hrs => ?_)
        cases rs with
        | nil => have := hrs.nil_left; subst this; exact RRel.err
        | cons k' r2' =>
          obtain ⟨k, r2, rfl, hkk, hr2⟩ := hrs.cons_inv
          simp only [key_isKw hkk]
          split
          · exact RRel.bind (pAnyEvent_sim hr2) (fun e2 qs qs' hqs => RRel.bind (pTimeBound_sim hqs) (fun tb us us' hus => RRel.ok hus))
          · split
            · exact RRel.bind (pAnyEvent_sim hr2) (fun e2 qs qs' hqs => RRel.bind (pTimeBound_sim hqs) (fun tb us us' hus => RRel.ok hus))
            · split
              · exact RRel.bind (pAnyEvent_sim hr2) (fun e2 qs qs' hqs => RRel.bind (pTimeBound_sim hqs) (fun tb us us' hus => RRel.ok hus))
              · exact RRel.err

theorem pProperty_sim {ts' ts : List Tok} (h : KEq ts' ts) : RRel (pProperty ts') (pProperty ts) := by
  unfold pProperty
  rw [h.length]
  refine RRel.bind (pMetadata_sim _ [] h) (fun md rs rs' hrs => ?_)
  have hs := pScope_sim hrs
  cases h1 : pScope rs with
  | error e =>
    cases h2 : pScope rs' with
    | error e' => simp only [h1, h2, bind, Except.bind]; trivial
    | ok b => rw [h1, h2] at hs; exact absurd hs (by simp [SRel])
  | ok a =>
    cases h2 : pScope rs' with
    | error e' => rw [h1, h2] at hs; exact absurd hs (by simp [SRel])
    | ok b =>
      rw [h1, h2] at hs
      obtain ⟨k, a1, t1, qs⟩ := a; obtain ⟨k', a1', t1', qs'⟩ := b
      obtain ⟨rfl, rfl, rfl, hqs⟩ := hs
      simp only [h1, h2, bind, Except.bind]
      cases qs with
      | nil => have := hqs.nil_left; subst this; exact RRel.err
      | cons c' r2' =>
        obtain ⟨c, r2, rfl, hkc, hr2⟩ := hqs.cons_inv
        simp only [key_isSym hkc]
        split
        · exact RRel.err
        · exact pPattern_sim _ _ _ _ hr2

/-- **C01 / C18 (layout independence, property level)** -/
theorem parsePropertyToks_sim {ts' ts : List Tok} (h : KEq ts' ts) : parsePropertyToks ts' = parsePropertyToks ts := by
  unfold parsePropertyToks
  rcases (pProperty_sim h).elim with ⟨p, rs, rs', h1, h2, hrs⟩ | ⟨⟨e1, h1⟩, ⟨e2, h2⟩⟩
  · rw [h1, h2]; simp only [bind, Except.bind, hrs.isEmpty]
  · rw [h1, h2]

theorem pFile_sim : ∀ (f : Nat) (acc : List RawProperty) {ts' ts : List Tok}, KEq ts' ts → pFile f acc ts' = pFile f acc ts
  | 0, _, _, _, _ => rfl
  | f + 1, acc, ts', ts, h => by
      simp only [pFile]
      rcases (pProperty_sim h).elim with ⟨p, rs, rs', h1, h2, hrs⟩ | ⟨⟨e1, h1⟩, ⟨e2, h2⟩⟩
      · rw [h1, h2]; simp only [bind, Except.bind, hrs.isEmpty]
        split
        · rfl
        · exact pFile_sim f _ hrs
      · rw [h1, h2]

/-- **C18 (layout independence, file level)** -/
theorem parseFileToks_sim {ts' ts : List Tok} (h : KEq ts' ts) : parseFileToks ts' = parseFileToks ts := by
  unfold parseFileToks; rw [h.length]; exact pFile_sim _ [] h

theorem parsePredicateToks_sim {ts' ts : List Tok} (h : KEq ts' ts) : parsePredicateToks ts' = parsePredicateToks ts := by
  unfold parsePredicateToks
  rcases (pPredicate_sim h).elim with ⟨p, rs, rs', h1, h2, hrs⟩ | ⟨⟨e1, h1⟩, ⟨e2, h2⟩⟩
  · rw [h1, h2]; simp only [bind, Except.bind, hrs.isEmpty]
  · rw [h1, h2]

end Hpl
