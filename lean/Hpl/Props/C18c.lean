import Hpl.Props.C18b
import Hpl.Props.C18
/-!
# C18 — the parser is local: what follows a phrase does not change how the phrase is read

`ExtAt f`: if a function of the expression parser, with fuel `f`, reads a phrase from `ts` and leaves a non-empty remainder, then with
any larger fuel and any further tokens appended it reads the same phrase and leaves the remainder extended by those tokens.
-/
namespace Hpl

/-- a parser function that reads the same phrase when more fuel is given and more input follows a non-empty remainder -/
def Ext {α : Type} (p : Nat → List Tok → PR (α × List Tok)) (f : Nat) : Prop :=
  ∀ ts r rest more f', p f ts = .ok (r, rest) → rest ≠ [] → f ≤ f' → p f' (ts ++ more) = .ok (r, rest ++ more)

theorem bind_ok_pair {α β : Type} {x : PR (α × List Tok)} {k : α × List Tok → PR β} {b : β} (h : (x >>= k) = .ok b) :
    ∃ a rs, x = .ok (a, rs) ∧ k (a, rs) = .ok b := by
  cases x with
  | error e => simp [bind, Except.bind] at h
  | ok v => obtain ⟨a, rs⟩ := v; exact ⟨a, rs, rfl, by simpa [bind, Except.bind] using h⟩

structure ExtAt (f : Nat) : Prop where
  cond : Ext pCondition f
  condLoop : ∀ a, Ext (fun n ts => pCondLoop n a ts) f
  disj : Ext pDisjunction f
  disjLoop : ∀ a, Ext (fun n ts => pDisjLoop n a ts) f
  conj : Ext pConjunction f
  conjLoop : ∀ a, Ext (fun n ts => pConjLoop n a ts) f
  logic : Ext pLogic f
  atomicCond : Ext pAtomicCondition f
  expr : Ext pExpr f
  exprLoop : ∀ a, Ext (fun n ts => pExprLoop n a ts) f
  term : Ext pTerm f
  termLoop : ∀ a, Ext (fun n ts => pTermLoop n a ts) f
  factor : Ext pFactor f
  factorLoop : ∀ a, Ext (fun n ts => pFactorLoop n a ts) f
  exponent : Ext pExponent f
  atomicValue : Ext pAtomicValue f
  setTail : ∀ acc, Ext (fun n ts => pSetTail n acc ts) f
  rangeBody : ∀ ex, Ext (fun n ts => pRangeBody n ex ts) f
  refTail : ∀ r, Ext (fun n ts => pRefTail n r ts) f

/-- first level: a sub-phrase then a loop -/
theorem ext_first {f : Nat} (p : Nat → List Tok → PR (Raw × List Tok)) (sub : Nat → List Tok → PR (Raw × List Tok))
    (loop : Nat → Raw → List Tok → PR (Raw × List Tok))
    (hdef : ∀ n ts, p (n + 1) ts = (do let (a, ts1) ← sub n ts; loop n a ts1))
    (hloopnil : ∀ n a r rest, loop n a [] = .ok (r, rest) → rest = [])
    (ihSub : Ext sub f) (ihLoop : ∀ a, Ext (fun n ts => loop n a ts) f) : Ext p (f + 1) := by
  intro ts r rest more f' h hne hf
  obtain ⟨f'', rfl⟩ : ∃ k, f' = k + 1 := ⟨f' - 1, by omega⟩
  rw [hdef] at h ⊢
  obtain ⟨a, ts1, h1, h2⟩ := bind_ok_pair h
  have hts1 : ts1 ≠ [] := by intro hh; subst hh; exact hne (hloopnil _ _ _ _ h2)
  rw [ihSub ts a ts1 more f'' h1 hts1 (by omega)]
  simp only [bind, Except.bind]
  exact ihLoop a ts1 r rest more f'' h2 hne (by omega)

/-- a left-recursive loop -/
theorem ext_loop {f : Nat} (loop : Nat → Raw → List Tok → PR (Raw × List Tok)) (sub : Nat → List Tok → PR (Raw × List Tok))
    (test : Tok → Bool) (mk : Tok → Raw → Raw → Raw)
    (hdef : ∀ n a ts, loop (n + 1) a ts = (match ts with
      | t :: rest => if test t then (do let (b, ts') ← sub n rest; loop n (mk t a b) ts') else .ok (a, ts)
      | [] => .ok (a, ts)))
    (hloopnil : ∀ n a r rest, loop n a [] = .ok (r, rest) → rest = [])
    (ihSub : Ext sub f) (ihLoop : ∀ a, Ext (fun n ts => loop n a ts) f) : ∀ a, Ext (fun n ts => loop n a ts) (f + 1) := by
  intro a ts r rest more f' h hne hf
  obtain ⟨f'', rfl⟩ : ∃ k, f' = k + 1 := ⟨f' - 1, by omega⟩
  simp only [hdef] at h ⊢
  cases ts with
  | nil => simp only [Except.ok.injEq, Prod.mk.injEq] at h; exact absurd h.2.symm hne
  | cons t r0 =>
    simp only [List.cons_append] at h ⊢
    split at h
    · rename_i ht
      simp only [ht, if_true]
      obtain ⟨b, ts', h1, h2⟩ := bind_ok_pair h
      have hts' : ts' ≠ [] := by intro hh; subst hh; exact hne (hloopnil _ _ _ _ h2)
      rw [ihSub r0 b ts' more f'' h1 hts' (by omega)]
      simp only [bind, Except.bind]
      exact ihLoop _ ts' r rest more f'' h2 hne (by omega)
    · rename_i ht
      simp only [ht]
      simp only [Except.ok.injEq, Prod.mk.injEq] at h
      obtain ⟨rfl, rfl⟩ := h
      simp

end Hpl

namespace Hpl

theorem condLoop_nil (n : Nat) (a r : Raw) (rest : List Tok) (h : pCondLoop n a [] = .ok (r, rest)) : rest = [] := by
  cases n with
  | zero => simp [pCondLoop, perr] at h
  | succ n => simp [pCondLoop] at h; exact h.2
theorem disjLoop_nil (n : Nat) (a r : Raw) (rest : List Tok) (h : pDisjLoop n a [] = .ok (r, rest)) : rest = [] := by
  cases n with
  | zero => simp [pDisjLoop, perr] at h
  | succ n => simp [pDisjLoop] at h; exact h.2
theorem conjLoop_nil (n : Nat) (a r : Raw) (rest : List Tok) (h : pConjLoop n a [] = .ok (r, rest)) : rest = [] := by
  cases n with
  | zero => simp [pConjLoop, perr] at h
  | succ n => simp [pConjLoop] at h; exact h.2
theorem exprLoop_nil (n : Nat) (a r : Raw) (rest : List Tok) (h : pExprLoop n a [] = .ok (r, rest)) : rest = [] := by
  cases n with
  | zero => simp [pExprLoop, perr] at h
  | succ n => simp [pExprLoop] at h; exact h.2
theorem termLoop_nil (n : Nat) (a r : Raw) (rest : List Tok) (h : pTermLoop n a [] = .ok (r, rest)) : rest = [] := by
  cases n with
  | zero => simp [pTermLoop, perr] at h
  | succ n => simp [pTermLoop] at h; exact h.2
theorem factorLoop_nil (n : Nat) (a r : Raw) (rest : List Tok) (h : pFactorLoop n a [] = .ok (r, rest)) : rest = [] := by
  cases n with
  | zero => simp [pFactorLoop, perr] at h
  | succ n => simp [pFactorLoop] at h; exact h.2

theorem ext_zero {α : Type} (p : Nat → List Tok → PR (α × List Tok)) (h0 : ∀ ts, p 0 ts = perr) : Ext p 0 := by
  intro ts r rest more f' h; rw [h0] at h; cases h

theorem extAt_zero : ExtAt 0 where
  cond := ext_zero _ (fun _ => rfl)
  condLoop := fun _ => ext_zero _ (fun _ => rfl)
  disj := ext_zero _ (fun _ => rfl)
  disjLoop := fun _ => ext_zero _ (fun _ => rfl)
  conj := ext_zero _ (fun _ => rfl)
  conjLoop := fun _ => ext_zero _ (fun _ => rfl)
  logic := ext_zero _ (fun _ => rfl)
  atomicCond := ext_zero _ (fun _ => rfl)
  expr := ext_zero _ (fun _ => rfl)
  exprLoop := fun _ => ext_zero _ (fun _ => rfl)
  term := ext_zero _ (fun _ => rfl)
  termLoop := fun _ => ext_zero _ (fun _ => rfl)
  factor := ext_zero _ (fun _ => rfl)
  factorLoop := fun _ => ext_zero _ (fun _ => rfl)
  exponent := ext_zero _ (fun _ => rfl)
  atomicValue := ext_zero _ (fun _ => rfl)
  setTail := fun _ => ext_zero _ (fun _ => rfl)
  rangeBody := fun _ => ext_zero _ (fun _ => rfl)
  refTail := fun _ => ext_zero _ (fun _ => rfl)

end Hpl

namespace Hpl

theorem ok_pair_inj {α : Type} {a b : α} {x y : List Tok} (h : (Except.ok (a, x) : PR (α × List Tok)) = .ok (b, y)) : a = b ∧ x = y := by
  simp only [Except.ok.injEq, Prod.mk.injEq] at h; exact h

theorem pure_pair_inj {α : Type} {a b : α} {x y : List Tok} (h : (pure (a, x) : PR (α × List Tok)) = .ok (b, y)) : a = b ∧ x = y := by
  simp only [pure, Except.pure, Except.ok.injEq, Prod.mk.injEq] at h; exact h

theorem extAt_succ (f : Nat) (ih : ExtAt f) : ExtAt (f + 1) where
  cond := ext_first pCondition pDisjunction pCondLoop (fun _ _ => rfl) condLoop_nil ih.disj ih.condLoop
  condLoop := ext_loop pCondLoop pDisjunction (fun t => isKw t "implies" || isKw t "iff") (fun t a b => .bin t.text a b)
    (fun n a ts => by cases ts <;> rfl) condLoop_nil ih.disj ih.condLoop
  disj := ext_first pDisjunction pConjunction pDisjLoop (fun _ _ => rfl) disjLoop_nil ih.conj ih.disjLoop
  disjLoop := ext_loop pDisjLoop pConjunction (fun t => isKw t "or") (fun _ a b => .bin "or" a b)
    (fun n a ts => by cases ts <;> rfl) disjLoop_nil ih.conj ih.disjLoop
  conj := ext_first pConjunction pLogic pConjLoop (fun _ _ => rfl) conjLoop_nil ih.logic ih.conjLoop
  conjLoop := ext_loop pConjLoop pLogic (fun t => isKw t "and") (fun _ a b => .bin "and" a b)
    (fun n a ts => by cases ts <;> rfl) conjLoop_nil ih.logic ih.conjLoop
  logic := by
    intro ts r rest more f' h hne hf
    obtain ⟨f'', rfl⟩ : ∃ k, f' = k + 1 := ⟨f' - 1, by omega⟩
    simp only [pLogic] at h ⊢
    cases ts with
    | nil => cases h
    | cons t r0 =>
      simp only [List.cons_append] at h ⊢
      split at h
      · rename_i ht
        simp only [ht, if_true]
        obtain ⟨a, ts', h1, h2⟩ := bind_ok_pair h
        obtain ⟨rfl, rfl⟩ := pure_pair_inj h2
        rw [ih.logic r0 a ts' more f'' h1 hne (by omega)]
        rfl
      · rename_i ht
        simp only [ht]
        split at h
        · rename_i hq
          simp only [hq, if_true]
          match r0, h with
          | v :: kin :: rest2, h =>
            simp only [List.cons_append] at h ⊢
            split at h
            · rename_i hv
              simp only [hv, if_true]
              obtain ⟨d, ts2, h1, h2⟩ := bind_ok_pair h
              match ts2, h2 with
              | c :: rest3, h2 =>
                simp only at h2
                split at h2
                · rename_i hc
                  obtain ⟨b, ts3, h3, h4⟩ := bind_ok_pair h2
                  obtain ⟨rfl, rfl⟩ := pure_pair_inj h4
                  rw [ih.atomicValue rest2 d (c :: rest3) more f'' h1 (by simp) (by omega)]
                  simp only [bind, Except.bind, List.cons_append, hc, if_true]
                  rw [ih.logic rest3 b ts3 more f'' h3 hne (by omega)]
                  rfl
                · cases h2
              | [], h2 => cases h2
            · cases h
          | [], h => cases h
          | [_], h => cases h
        · rename_i hq
          simp only [hq]
          exact ih.atomicCond (t :: r0) r rest more f'' h hne (by omega)
  atomicCond := by
    intro ts r rest more f' h hne hf
    obtain ⟨f'', rfl⟩ : ∃ k, f' = k + 1 := ⟨f' - 1, by omega⟩
    simp only [pAtomicCondition] at h ⊢
    obtain ⟨a, ts1, h1, h2⟩ := bind_ok_pair h
    match ts1, h1, h2 with
    | [], _, h2 => obtain ⟨_, rfl⟩ := pure_pair_inj h2; exact absurd rfl hne
    | t :: r1, h1, h2 =>
      rw [ih.expr ts a (t :: r1) more f'' h1 (by simp) (by omega)]
      simp only [bind, Except.bind, List.cons_append] at h2 ⊢
      split at h2
      · rename_i hc
        simp only [hc, if_true]
        obtain ⟨b, ts', h3, h4⟩ := bind_ok_pair h2
        obtain ⟨rfl, rfl⟩ := pure_pair_inj h4
        rw [ih.expr r1 b ts' more f'' h3 hne (by omega)]
        rfl
      · rename_i hc
        simp only [hc]
        split at h2
        · rename_i hi
          simp only [hi, if_true]
          obtain ⟨b, ts', h3, h4⟩ := bind_ok_pair h2
          obtain ⟨rfl, rfl⟩ := pure_pair_inj h4
          rw [ih.expr r1 b ts' more f'' h3 hne (by omega)]
          rfl
        · rename_i hi
          simp only [hi]
          obtain ⟨rfl, rfl⟩ := pure_pair_inj h2
          rfl
  expr := ext_first pExpr pTerm pExprLoop (fun _ _ => rfl) exprLoop_nil ih.term ih.exprLoop
  exprLoop := ext_loop pExprLoop pTerm (fun t => isSym t "+" || isSym t "-") (fun t a b => .bin t.text a b)
    (fun n a ts => by cases ts <;> rfl) exprLoop_nil ih.term ih.exprLoop
  term := ext_first pTerm pFactor pTermLoop (fun _ _ => rfl) termLoop_nil ih.factor ih.termLoop
  termLoop := ext_loop pTermLoop pFactor (fun t => isSym t "*" || isSym t "/") (fun t a b => .bin t.text a b)
    (fun n a ts => by cases ts <;> rfl) termLoop_nil ih.factor ih.termLoop
  factor := ext_first pFactor pExponent pFactorLoop (fun _ _ => rfl) factorLoop_nil ih.exponent ih.factorLoop
  factorLoop := ext_loop pFactorLoop pExponent (fun t => isSym t "**") (fun _ a b => .bin "**" a b)
    (fun n a ts => by cases ts <;> rfl) factorLoop_nil ih.exponent ih.factorLoop
  exponent := by
    intro ts r rest more f' h hne hf
    obtain ⟨f'', rfl⟩ : ∃ k, f' = k + 1 := ⟨f' - 1, by omega⟩
    simp only [pExponent] at h ⊢
    cases ts with
    | nil => cases h
    | cons t r0 =>
      simp only [List.cons_append] at h ⊢
      split at h
      · rename_i ht
        simp only [ht, if_true]
        obtain ⟨a, ts', h1, h2⟩ := bind_ok_pair h
        obtain ⟨rfl, rfl⟩ := pure_pair_inj h2
        rw [ih.exponent r0 a ts' more f'' h1 hne (by omega)]
        rfl
      · rename_i ht
        simp only [ht]
        split at h
        · rename_i hp
          simp only [hp, if_true]
          obtain ⟨a, ts', h1, h2⟩ := bind_ok_pair h
          match ts', h1, h2 with
          | [], _, h2 => cases h2
          | c :: rest2, h1, h2 =>
            simp only at h2
            split at h2
            · rename_i hc
              obtain ⟨rfl, rfl⟩ := pure_pair_inj h2
              rw [ih.cond r0 a (c :: rest2) more f'' h1 (by simp) (by omega)]
              simp [bind, Except.bind, hc, pure, Except.pure]
            · cases h2
        · rename_i hp
          simp only [hp]
          exact ih.atomicValue (t :: r0) r rest more f'' h hne (by omega)
  atomicValue := by
    intro ts r rest more f' h hne hf
    obtain ⟨f'', rfl⟩ : ∃ k, f' = k + 1 := ⟨f' - 1, by omega⟩
    simp only [pAtomicValue] at h ⊢
    cases ts with
    | nil => cases h
    | cons t r0 =>
      simp only [List.cons_append] at h ⊢
      cases hk : t.kind with
      | str =>
        simp only [hk] at h ⊢
        obtain ⟨rfl, rfl⟩ := ok_pair_inj h; rfl
      | num =>
        simp only [hk] at h ⊢
        cases hd : decimalValue t.text with
        | none => simp only [hd] at h; cases h
        | some v =>
          simp only [hd] at h ⊢
          obtain ⟨rfl, rfl⟩ := ok_pair_inj h; rfl
      | var =>
        simp only [hk] at h ⊢
        exact ih.refTail _ r0 r rest more f'' h hne (by omega)
      | word =>
        simp only [hk] at h ⊢
        split at h
        · cases h
        · rename_i hc
          simp only [hc]
          split at h
          · rename_i h1
            simp only [h1, if_true]
            obtain ⟨rfl, rfl⟩ := ok_pair_inj h; rfl
          · rename_i h1
            simp only [h1]
            split at h
            · rename_i h2
              simp only [h2, if_true]
              obtain ⟨rfl, rfl⟩ := ok_pair_inj h; rfl
            · rename_i h2
              simp only [h2]
              split at h
              · rename_i h3
                simp only [h3, if_true]
                cases hn : numberConstant t.text with
                | none => simp only [hn] at h; cases h
                | some v =>
                  simp only [hn] at h ⊢
                  obtain ⟨rfl, rfl⟩ := ok_pair_inj h; rfl
              · rename_i h3
                simp only [h3]
                match r0, h with
                | [], h => obtain ⟨_, rfl⟩ := ok_pair_inj h; exact absurd rfl hne
                | o :: rest2, h =>
                  simp only [List.cons_append] at h ⊢
                  split at h
                  · rename_i ho
                    simp only [ho, if_true]
                    obtain ⟨a, ts', h4, h5⟩ := bind_ok_pair h
                    match ts', h4, h5 with
                    | [], _, h5 => cases h5
                    | c :: rest3, h4, h5 =>
                      simp only at h5
                      split at h5
                      · rename_i hcl
                        obtain ⟨rfl, rfl⟩ := pure_pair_inj h5
                        rw [ih.expr rest2 a (c :: rest3) more f'' h4 (by simp) (by omega)]
                        simp [bind, Except.bind, hcl, pure, Except.pure]
                      · cases h5
                  · rename_i ho
                    simp only [ho]
                    exact ih.refTail _ (o :: rest2) r rest more f'' h hne (by omega)
      | sym =>
        simp only [hk] at h ⊢
        split at h
        · rename_i h1
          simp only [h1, if_true]
          obtain ⟨a, ts', h4, h5⟩ := bind_ok_pair h
          have hts' : ts' ≠ [] := by
            intro hh; subst hh
            cases f with
            | zero => simp [pSetTail, perr] at h5
            | succ n => simp [pSetTail, perr] at h5
          rw [ih.expr r0 a ts' more f'' h4 hts' (by omega)]
          simp only [bind, Except.bind]
          exact ih.setTail _ ts' r rest more f'' h5 hne (by omega)
        · rename_i h1
          simp only [h1]
          split at h
          · rename_i h2
            simp only [h2, if_true]
            exact ih.rangeBody _ r0 r rest more f'' h hne (by omega)
          · rename_i h2
            simp only [h2]
            split at h
            · rename_i h3
              simp only [h3, if_true]
              exact ih.rangeBody _ r0 r rest more f'' h hne (by omega)
            · cases h
  setTail := by
    intro acc ts r rest more f' h hne hf
    obtain ⟨f'', rfl⟩ : ∃ k, f' = k + 1 := ⟨f' - 1, by omega⟩
    simp only [pSetTail] at h ⊢
    cases ts with
    | nil => cases h
    | cons t r0 =>
      simp only [List.cons_append] at h ⊢
      split at h
      · rename_i ht
        simp only [ht, if_true]
        obtain ⟨rfl, rfl⟩ := ok_pair_inj h
        rfl
      · rename_i ht
        simp only [ht]
        split at h
        · rename_i hc
          simp only [hc, if_true]
          obtain ⟨a, ts', h1, h2⟩ := bind_ok_pair h
          have hts' : ts' ≠ [] := by
            intro hh; subst hh
            cases f with
            | zero => simp [pSetTail, perr] at h2
            | succ n => simp [pSetTail, perr] at h2
          rw [ih.expr r0 a ts' more f'' h1 hts' (by omega)]
          simp only [bind, Except.bind]
          exact ih.setTail _ ts' r rest more f'' h2 hne (by omega)
        · cases h
  rangeBody := by
    intro ex ts r rest more f' h hne hf
    obtain ⟨f'', rfl⟩ : ∃ k, f' = k + 1 := ⟨f' - 1, by omega⟩
    simp only [pRangeBody] at h ⊢
    obtain ⟨lo, ts1, h1, h2⟩ := bind_ok_pair h
    match ts1, h1, h2 with
    | [], _, h2 => cases h2
    | t :: r1, h1, h2 =>
      rw [ih.expr ts lo (t :: r1) more f'' h1 (by simp) (by omega)]
      simp only [bind, Except.bind, List.cons_append] at h2 ⊢
      split at h2
      · rename_i ht
        simp only [ht, if_true]
        obtain ⟨hi, ts2, h3, h4⟩ := bind_ok_pair h2
        match ts2, h3, h4 with
        | [], _, h4 => cases h4
        | c :: r2, h3, h4 =>
          rw [ih.expr r1 hi (c :: r2) more f'' h3 (by simp) (by omega)]
          simp only [bind, Except.bind, List.cons_append] at h4 ⊢
          split at h4
          · rename_i hc
            simp only [hc, if_true]
            obtain ⟨rfl, rfl⟩ := pure_pair_inj h4
            rfl
          · rename_i hc
            simp only [hc]
            split at h4
            · rename_i hc2
              simp only [hc2, if_true]
              obtain ⟨rfl, rfl⟩ := pure_pair_inj h4
              rfl
            · cases h4
      · cases h2
  refTail := by
    intro x ts r rest more f' h hne hf
    obtain ⟨f'', rfl⟩ : ∃ k, f' = k + 1 := ⟨f' - 1, by omega⟩
    simp only [pRefTail] at h ⊢
    cases ts with
    | nil => obtain ⟨_, rfl⟩ := ok_pair_inj h; exact absurd rfl hne
    | cons t r0 =>
      simp only [List.cons_append] at h ⊢
      split at h
      · rename_i ht
        simp only [ht, if_true]
        match r0, h with
        | [], h => cases h
        | n :: r2, h =>
          simp only [List.cons_append] at h ⊢
          split at h
          · rename_i hn
            simp only [hn, if_true]
            exact ih.refTail _ r2 r rest more f'' h hne (by omega)
          · cases h
      · rename_i ht
        simp only [ht]
        split at h
        · rename_i hb
          simp only [hb, if_true]
          obtain ⟨i, ts', h1, h2⟩ := bind_ok_pair h
          match ts', h1, h2 with
          | [], _, h2 => cases h2
          | c :: r2, h1, h2 =>
            rw [ih.expr r0 i (c :: r2) more f'' h1 (by simp) (by omega)]
            simp only [bind, Except.bind, List.cons_append] at h2 ⊢
            split at h2
            · rename_i hc
              simp only [hc, if_true]
              exact ih.refTail _ r2 r rest more f'' h2 hne (by omega)
            · cases h2
        · rename_i hb
          simp only [hb]
          obtain ⟨rfl, rfl⟩ := ok_pair_inj h
          rfl

end Hpl

namespace Hpl

/-- **locality of the expression parser**, for every fuel -/
theorem parse_ext : ∀ f, ExtAt f
  | 0 => extAt_zero
  | f + 1 => extAt_succ f (parse_ext f)

/-- what may follow a property: not `as`, `{` or `within` (the three tokens an event or pattern would still take) -/
def stopsProp (more : List Tok) : Prop := match more with | t :: _ => isKw t "as" = false ∧ isSym t "{" = false ∧ isKw t "within" = false | [] => True

/-- what may follow an event that used up its text: anything but an alias or a predicate -/
def stopsEv (more : List Tok) : Prop := match more with | t :: _ => isKw t "as" = false ∧ isSym t "{" = false | [] => True

theorem stopsProp_ev {more : List Tok} (h : stopsProp more) : stopsEv more := by
  cases more with
  | nil => trivial
  | cons t _ => exact ⟨h.1, h.2.1⟩

/-- a parser step that reads the same phrase when more input follows; an empty remainder asks the following input not to continue it -/
def ExtPF {α : Type} (F : List Tok → Prop) (p : List Tok → PR (α × List Tok)) : Prop :=
  ∀ ts r rest more, p ts = .ok (r, rest) → (rest = [] → F more) → p (ts ++ more) = .ok (r, rest ++ more)

abbrev ExtP {α : Type} (p : List Tok → PR (α × List Tok)) : Prop := ExtPF stopsProp p

theorem ExtPF.mono {α : Type} {F F' : List Tok → Prop} {p : List Tok → PR (α × List Tok)} (hF : ∀ m, F' m → F m) (h : ExtPF F p) : ExtPF F' p :=
  fun ts r rest more hp hs => h ts r rest more hp (fun hr => hF _ (hs hr))

theorem parseFuel_le (ts more : List Tok) : parseFuel ts ≤ parseFuel (ts ++ more) := by
  simp only [parseFuel, List.length_append]; omega

theorem pPredicate_ext (ts : List Tok) (r : Raw) (rest more : List Tok) (h : pPredicate ts = .ok (r, rest)) :
    pPredicate (ts ++ more) = .ok (r, rest ++ more) := by
  unfold pPredicate at h ⊢
  cases ts with
  | nil => cases h
  | cons t r0 =>
    simp only [List.cons_append] at h ⊢
    split at h
    · rename_i ht
      simp only [ht, if_true]
      obtain ⟨a, ts', h1, h2⟩ := bind_ok_pair h
      match ts', h1, h2 with
      | [], _, h2 => cases h2
      | c :: r2, h1, h2 =>
        simp only at h2
        split at h2
        · rename_i hc
          obtain ⟨rfl, rfl⟩ := pure_pair_inj h2
          have := (parse_ext _).cond r0 a _ more (parseFuel (t :: (r0 ++ more))) h1 (by simp) (by
            have := parseFuel_le (t :: r0) more; simpa using this)
          rw [this]
          simp [bind, Except.bind, hc, pure, Except.pure]
        · cases h2
    · cases h

theorem pEventBody_extE (name : String) (al : Option String) : ExtPF stopsEv (pEventBody name al) := by
  intro ts r rest more h hs
  unfold pEventBody at h ⊢
  cases ts with
  | nil =>
    obtain ⟨rfl, rfl⟩ := ok_pair_inj h
    simp only [List.nil_append]
    cases more with
    | nil => rfl
    | cons m ms =>
      have := hs rfl
      simp only [stopsEv] at this
      simp [this.2]
  | cons b y =>
    simp only [List.cons_append] at h ⊢
    split at h
    · rename_i hb
      simp only [hb, if_true]
      obtain ⟨p, r', h1, h2⟩ := bind_ok_pair h
      obtain ⟨rfl, rfl⟩ := pure_pair_inj h2
      have := pPredicate_ext (b :: y) p r' more h1
      simp only [List.cons_append] at this
      rw [this]; rfl
    · rename_i hb
      simp only [hb]
      obtain ⟨rfl, rfl⟩ := ok_pair_inj h
      rfl

theorem pEventBody_ext (name : String) (al : Option String) : ExtP (pEventBody name al) := (pEventBody_extE name al).mono (fun _ => stopsProp_ev)

theorem pEvent_extE : ExtPF stopsEv pEvent := by
  intro ts r rest more h hs
  rw [pEvent_eq] at h ⊢
  unfold pEvent' at h ⊢
  cases ts with
  | nil => cases h
  | cons n r0 =>
    simp only [List.cons_append] at h ⊢
    split at h
    · rename_i hn
      simp only [hn, if_true]
      cases r0 with
      | nil =>
        simp only [List.nil_append] at h ⊢
        have hb := pEventBody_extE n.text none [] r rest more h hs
        simp only [List.nil_append] at hb
        cases more with
        | nil => simpa using h
        | cons m ms =>
          have hrest : rest = [] := by
            unfold pEventBody at h; obtain ⟨_, rfl⟩ := ok_pair_inj h; rfl
          have := hs hrest
          simp only [stopsEv] at this
          simp only [this.1]
          exact hb
      | cons a r1 =>
        simp only [List.cons_append] at h ⊢
        split at h
        · rename_i ha
          simp only [ha, if_true]
          cases r1 with
          | nil => cases h
          | cons v r2 =>
            simp only [List.cons_append] at h ⊢
            split at h
            · rename_i hv
              simp only [hv, if_true]
              exact pEventBody_extE _ _ r2 r rest more h hs
            · cases h
        · rename_i ha
          simp only [ha]
          have := pEventBody_extE n.text none (a :: r1) r rest more h hs
          simpa using this
    · cases h

theorem pEvent_ext : ExtP pEvent := pEvent_extE.mono (fun _ => stopsProp_ev)

end Hpl

namespace Hpl

theorem pDisjTail_ext : ∀ (f : Nat) (acc : List RawSimple) (ts : List Tok) (r : RawEvent) (rest more : List Tok) (f' : Nat),
    pDisjTail f acc ts = .ok (r, rest) → f ≤ f' → pDisjTail f' acc (ts ++ more) = .ok (r, rest ++ more)
  | 0, _, _, _, _, _, _, h, _ => by simp [pDisjTail, perr] at h
  | f + 1, acc, ts, r, rest, more, f', h, hf => by
      obtain ⟨f'', rfl⟩ : ∃ k, f' = k + 1 := ⟨f' - 1, by omega⟩
      simp only [pDisjTail] at h ⊢
      obtain ⟨e, ts1, h1, h2⟩ := bind_ok_pair h
      match ts1, h1, h2 with
      | [], _, h2 => cases h2
      | t :: r1, h1, h2 =>
        rw [pEvent_ext ts e (t :: r1) more h1 (fun hh => by cases hh)]
        simp only [bind, Except.bind, List.cons_append] at h2 ⊢
        split at h2
        · rename_i ht
          simp only [ht, if_true]
          exact pDisjTail_ext f _ r1 r rest more f'' h2 (by omega)
        · rename_i ht
          simp only [ht]
          split at h2
          · rename_i hc
            simp only [hc, if_true]
            split at h2
            · cases h2
            · rename_i he
              simp only [he]
              obtain ⟨rfl, rfl⟩ := pure_pair_inj h2
              rfl
          · cases h2

theorem pAnyEvent_extE : ExtPF stopsEv pAnyEvent := by
  intro ts r rest more h hs
  unfold pAnyEvent at h ⊢
  cases ts with
  | nil => cases h
  | cons t r0 =>
    simp only [List.cons_append] at h ⊢
    split at h
    · rename_i ht
      simp only [ht, if_true]
      exact pDisjTail_ext _ [] r0 r rest more _ h (by simp only [List.length_cons, List.length_append]; omega)
    · rename_i ht
      simp only [ht]
      obtain ⟨e, r', h1, h2⟩ := bind_ok_pair h
      obtain ⟨rfl, rfl⟩ := pure_pair_inj h2
      have := pEvent_extE (t :: r0) e r' more h1 hs
      simp only [List.cons_append] at this
      rw [this]; rfl

theorem pAnyEvent_ext : ExtP pAnyEvent := pAnyEvent_extE.mono (fun _ => stopsProp_ev)

theorem pTimeBound_ext : ExtP pTimeBound := by
  intro ts r rest more h hs
  unfold pTimeBound at h ⊢
  cases ts with
  | nil =>
    obtain ⟨rfl, rfl⟩ := ok_pair_inj h
    simp only [List.nil_append]
    cases more with
    | nil => rfl
    | cons m ms =>
      have := hs rfl
      simp only [stopsProp] at this
      simp [this.2.2]
  | cons w r0 =>
    simp only [List.cons_append] at h ⊢
    split at h
    · rename_i hw
      simp only [hw, if_true]
      match r0, h with
      | [], h => cases h
      | [_], h => cases h
      | n :: u :: r2, h =>
        simp only [List.cons_append] at h ⊢
        split at h
        · rename_i hn
          simp only [hn, if_true]
          cases hd : decimalValue n.text with
          | none => simp only [hd] at h; cases h
          | some v =>
            simp only [hd] at h ⊢
            split at h
            · rename_i hu
              simp only [hu, if_true]
              obtain ⟨rfl, rfl⟩ := ok_pair_inj h; rfl
            · rename_i hu
              simp only [hu]
              split at h
              · rename_i hu2
                simp only [hu2, if_true]
                obtain ⟨rfl, rfl⟩ := ok_pair_inj h; rfl
              · cases h
        · cases h
    · rename_i hw
      simp only [hw]
      obtain ⟨rfl, rfl⟩ := ok_pair_inj h
      rfl

end Hpl

namespace Hpl

theorem pMetadata_nohash (f : Nat) (acc : List (String × String)) (h : Tok) (tl : List Tok) (hh : isSym h "#" = false) :
    pMetadata (f + 1) acc (h :: tl) = .ok (acc, h :: tl) := by
  match tl with
  | [] => simp only [pMetadata, hh]; rfl
  | [_] => simp only [pMetadata, hh]; rfl
  | [_, _] => simp only [pMetadata, hh]; rfl
  | _ :: _ :: _ :: _ => simp only [pMetadata, hh]; rfl

theorem pMetadata_ext : ∀ (f : Nat) (acc : List (String × String)) (ts : List Tok) (r : List (String × String)) (rest more : List Tok) (f' : Nat),
    pMetadata f acc ts = .ok (r, rest) → rest ≠ [] → f ≤ f' → pMetadata f' acc (ts ++ more) = .ok (r, rest ++ more)
  | 0, _, _, _, _, _, _, h, _, _ => by simp [pMetadata, perr] at h
  | f + 1, acc, ts, r, rest, more, f', h, hne, hf => by
      obtain ⟨f'', rfl⟩ : ∃ k, f' = k + 1 := ⟨f' - 1, by omega⟩
      match ts, h with
      | [], h =>
        simp only [pMetadata] at h
        obtain ⟨rfl, rfl⟩ := ok_pair_inj h
        exact absurd rfl hne
      | hd :: tl, h =>
        cases hh : isSym hd "#" with
        | false =>
          rw [pMetadata_nohash _ _ _ _ hh] at h
          obtain ⟨rfl, rfl⟩ := ok_pair_inj h
          simp only [List.cons_append]
          exact pMetadata_nohash _ _ _ _ hh
        | true =>
          match tl, h with
          | [], h => simp [pMetadata, hh, perr] at h
          | [_], h => simp [pMetadata, hh, perr] at h
          | [_, _], h => simp [pMetadata, hh, perr] at h
          | k :: c :: v :: r0, h =>
            simp only [pMetadata, hh, if_true, List.cons_append] at h ⊢
            split at h
            · rename_i hc
              simp only [hc, if_true]
              split at h
              · rename_i h1
                simp only [h1, if_true]
                exact pMetadata_ext f _ r0 r rest more f'' h hne (by omega)
              · rename_i h1
                simp only [h1]
                split at h
                · rename_i h2
                  simp only [h2, if_true]
                  exact pMetadata_ext f _ r0 r rest more f'' h hne (by omega)
                · rename_i h2
                  simp only [h2]
                  split at h
                  · rename_i h3
                    simp only [h3, if_true]
                    exact pMetadata_ext f _ r0 r rest more f'' h hne (by omega)
                  · cases h
            · cases h

end Hpl

namespace Hpl

theorem pScope_ext (ts : List Tok) (sk : ScopeKind) (a q : Option RawEvent) (rest more : List Tok)
    (h : pScope ts = .ok (sk, a, q, rest)) (hne : rest ≠ []) :
    pScope (ts ++ more) = .ok (sk, a, q, rest ++ more) := by
  unfold pScope at h ⊢
  cases ts with
  | nil => cases h
  | cons t r0 =>
    simp only [List.cons_append] at h ⊢
    split at h
    · rename_i h1
      simp only [h1, if_true]
      simp only [pure, Except.pure, Except.ok.injEq, Prod.mk.injEq] at h ⊢
      obtain ⟨rfl, rfl, rfl, rfl⟩ := h
      exact ⟨rfl, rfl, rfl, rfl⟩
    · rename_i h1
      simp only [h1]
      split at h
      · rename_i h2
        simp only [h2, if_true]
        obtain ⟨e, r1, ha, hk⟩ := bind_ok_pair h
        match r1, ha, hk with
        | [], ha, hk =>
          simp only [pure, Except.pure, Except.ok.injEq, Prod.mk.injEq] at hk
          exact absurd hk.2.2.2.symm hne
        | u :: r2, ha, hk =>
          rw [pAnyEvent_ext r0 e (u :: r2) more ha (fun hh => by cases hh)]
          simp only [bind, Except.bind, List.cons_append] at hk ⊢
          split at hk
          · rename_i hu
            simp only [hu, if_true]
            obtain ⟨e2, r3, hb, hk2⟩ := bind_ok_pair hk
            simp only [pure, Except.pure, Except.ok.injEq, Prod.mk.injEq] at hk2
            obtain ⟨rfl, rfl, rfl, rfl⟩ := hk2
            rw [pAnyEvent_ext r2 e2 _ more hb (fun hh => absurd hh hne)]; rfl
          · rename_i hu
            simp only [hu]
            simp only [pure, Except.pure, Except.ok.injEq, Prod.mk.injEq] at hk
            obtain ⟨rfl, rfl, rfl, rfl⟩ := hk
            rfl
      · rename_i h2
        simp only [h2]
        split at h
        · rename_i h3
          simp only [h3, if_true]
          obtain ⟨e, r1, ha, hk⟩ := bind_ok_pair h
          simp only [pure, Except.pure, Except.ok.injEq, Prod.mk.injEq] at hk
          obtain ⟨rfl, rfl, rfl, rfl⟩ := hk
          rw [pAnyEvent_ext r0 e _ more ha (fun hh => absurd hh hne)]
          rfl
        · cases h

end Hpl

namespace Hpl

/-- the common tail of every pattern: an event, then the optional time bound -/
def pEvTb (mk : RawEvent → Option (Rat × TimeUnit) → RawProperty) (ts : List Tok) : PR (RawProperty × List Tok) := do
  let (b, r) ← pAnyEvent ts
  let (tb, r) ← pTimeBound r
  pure (mk b tb, r)

theorem stopsProp_within {more : List Tok} (hs : stopsProp more) : pTimeBound more = .ok (none, more) := by
  cases more with
  | nil => rfl
  | cons m ms =>
    simp only [stopsProp] at hs
    simp only [pTimeBound, hs.2.2]
    rfl

theorem pEvTb_ext (mk : RawEvent → Option (Rat × TimeUnit) → RawProperty) : ExtP (pEvTb mk) := by
  intro ts p rest more h hs
  unfold pEvTb at h ⊢
  obtain ⟨b, r, h1, h2⟩ := bind_ok_pair h
  obtain ⟨tb, r', h3, h4⟩ := bind_ok_pair h2
  obtain ⟨rfl, rfl⟩ := pure_pair_inj h4
  cases r with
  | nil =>
    -- the event used up the text: so did the time bound
    have h3' : pTimeBound [] = .ok (tb, r') := h3
    simp only [pTimeBound] at h3'
    obtain ⟨rfl, rfl⟩ := ok_pair_inj h3'
    have hs' := hs rfl
    rw [pAnyEvent_ext ts b [] more h1 (fun _ => hs')]
    simp only [bind, Except.bind, List.nil_append]
    rw [stopsProp_within hs']
    rfl
  | cons c r0 =>
    rw [pAnyEvent_ext ts b (c :: r0) more h1 (fun hh => by cases hh)]
    simp only [bind, Except.bind]
    rw [pTimeBound_ext (c :: r0) tb r' more h3 hs]
    rfl

theorem pPattern_ext (sk : ScopeKind) (act term : Option RawEvent) (md : List (String × String)) : ExtP (pPattern sk act term md) := by
  intro ts p rest more h hs
  unfold pPattern at h ⊢
  cases ts with
  | nil => cases h
  | cons t r0 =>
    simp only [List.cons_append] at h ⊢
    split at h
    · rename_i h1
      simp only [h1, if_true]
      exact pEvTb_ext (fun b tb => ⟨sk, act, term, .existence, b, none, tb, md⟩) r0 p rest more h hs
    · rename_i h1
      simp only [h1]
      split at h
      · rename_i h2
        simp only [h2, if_true]
        exact pEvTb_ext (fun b tb => ⟨sk, act, term, .absence, b, none, tb, md⟩) r0 p rest more h hs
      · rename_i h2
        simp only [h2]
        obtain ⟨e1, r, ha, hk⟩ := bind_ok_pair h
        match r, ha, hk with
        | [], _, hk => cases hk
        | k :: r2, ha, hk =>
          have := pAnyEvent_ext (t :: r0) e1 (k :: r2) more ha (fun hh => by cases hh)
          simp only [List.cons_append] at this
          rw [this]
          simp only [bind, Except.bind] at hk ⊢
          split at hk
          · rename_i hc
            simp only [hc, if_true]
            exact pEvTb_ext (fun e2 tb => ⟨sk, act, term, .response, e2, some e1, tb, md⟩) r2 p rest more hk hs
          · rename_i hc
            simp only [hc]
            split at hk
            · rename_i hc2
              simp only [hc2, if_true]
              exact pEvTb_ext (fun e2 tb => ⟨sk, act, term, .prevention, e2, some e1, tb, md⟩) r2 p rest more hk hs
            · rename_i hc2
              simp only [hc2]
              split at hk
              · rename_i hc3
                simp only [hc3, if_true]
                exact pEvTb_ext (fun e2 tb => ⟨sk, act, term, .requirement, e1, some e2, tb, md⟩) r2 p rest more hk hs
              · cases hk

end Hpl

namespace Hpl

theorem pProperty_ext : ExtP pProperty := by
  intro ts p rest more h hs
  unfold pProperty at h ⊢
  obtain ⟨md, r1, h1, h2⟩ := bind_ok_pair h
  -- pScope's 4-tuple
  dsimp only at h2
  cases hsc : pScope r1 with
  | error e => rw [hsc] at h2; cases h2
  | ok v =>
    obtain ⟨sk, act, term, r2⟩ := v
    rw [hsc] at h2
    simp only [bind, Except.bind] at h2
    match r2, hsc, h2 with
    | [], _, h2 => cases h2
    | c :: r3, hsc, h2 =>
      have hr1 : r1 ≠ [] := by
        intro hh; subst hh; cases hsc
      rw [pMetadata_ext _ [] ts md r1 more _ h1 hr1 (by simp only [List.length_append]; omega)]
      dsimp only [bind, Except.bind]
      rw [pScope_ext r1 sk act term (c :: r3) more hsc (fun hh => by cases hh)]
      dsimp only [List.cons_append]
      cases hc : isSym c ":" with
      | false => simp only [hc, Bool.not_false, if_true] at h2; cases h2
      | true =>
        simp only [hc, Bool.not_true, Bool.false_eq_true, if_false] at h2 ⊢
        exact pPattern_ext sk act term md r3 p rest more h2 hs

/-- a text that parses as a property starts with `#`, `globally`, `after` or `until`: never with a token that could continue
    the property before it -/
theorem property_starts (ts : List Tok) (p : RawProperty) (rest : List Tok) (h : pProperty ts = .ok (p, rest)) :
    ts ≠ [] ∧ stopsProp ts := by
  unfold pProperty at h
  obtain ⟨md, r1, h1, h2⟩ := bind_ok_pair h
  cases ts with
  | nil =>
    simp only [pMetadata] at h1
    obtain ⟨rfl, rfl⟩ := ok_pair_inj h1
    cases h2
  | cons t tl =>
    refine ⟨fun hh => (by cases hh), ?_⟩
    simp only [stopsProp]
    cases hh : isSym t "#" with
    | true =>
      simp only [isSym, Bool.and_eq_true, beq_iff_eq] at hh
      simp only [isKw, isSym, hh.1, hh.2]
      generalize t.afterWord = b
      cases b <;> decide
    | false =>
      rw [pMetadata_nohash _ _ _ _ hh] at h1
      obtain ⟨rfl, rfl⟩ := ok_pair_inj h1
      dsimp only at h2
      cases hsc : pScope (t :: tl) with
      | error e => rw [hsc] at h2; cases h2
      | ok v =>
        have hk : isKw t "globally" = true ∨ isKw t "after" = true ∨ isKw t "until" = true := by
          unfold pScope at hsc
          simp only at hsc
          split at hsc
          · rename_i h1; exact .inl h1
          · split at hsc
            · rename_i h2; exact .inr (.inl h2)
            · split at hsc
              · rename_i h3; exact .inr (.inr h3)
              · cases hsc
        have hw : t.kind = .word ∧ (t.text = "globally" ∨ t.text = "after" ∨ t.text = "until") := by
          simp only [isKw, Bool.and_eq_true, beq_iff_eq] at hk
          rcases hk with h | h | h
          · exact ⟨h.1.1, .inl h.1.2⟩
          · exact ⟨h.1.1, .inr (.inl h.1.2)⟩
          · exact ⟨h.1.1, .inr (.inr h.1.2)⟩
        obtain ⟨hkind, htext⟩ := hw
        simp only [isKw, isSym, hkind]
        generalize t.afterWord = b
        rcases htext with h | h | h <;> simp only [h] <;> cases b <;> decide

end Hpl

namespace Hpl

theorem parsePropertyToks_ok {ts : List Tok} {p : RawProperty} (h : parsePropertyToks ts = .ok p) : pProperty ts = .ok (p, []) := by
  unfold parsePropertyToks at h
  cases hp : pProperty ts with
  | error e => rw [hp] at h; cases h
  | ok v =>
    obtain ⟨q, rest⟩ := v
    rw [hp] at h
    simp only [bind, Except.bind] at h
    cases rest with
    | nil => simp only [List.isEmpty_nil, if_true, pure, Except.pure, Except.ok.injEq] at h; rw [h]
    | cons _ _ => simp [List.isEmpty] at h

/-- the texts of the properties of a file, one after the other -/
def fileToks (chunks : List (List Tok × RawProperty)) : List Tok := chunks.flatMap (·.1)

theorem fileToks_starts : ∀ (chunks : List (List Tok × RawProperty)),
    (∀ c ∈ chunks, parsePropertyToks c.1 = .ok c.2) → stopsProp (fileToks chunks) ∧ (chunks ≠ [] → fileToks chunks ≠ [])
  | [], _ => ⟨trivial, fun h => absurd rfl h⟩
  | c :: cs, h => by
      have hc := property_starts c.1 c.2 [] (parsePropertyToks_ok (h c (List.mem_cons_self ..)))
      obtain ⟨t, tl, ht⟩ : ∃ t tl, c.1 = t :: tl := by
        cases hh : c.1 with
        | nil => exact absurd hh hc.1
        | cons t tl => exact ⟨t, tl, rfl⟩
      have hs := hc.2
      simp only [fileToks, List.flatMap_cons, ht, List.cons_append, stopsProp] at hs ⊢
      exact ⟨hs, fun _ hh => by cases hh⟩

theorem pFile_concat : ∀ (chunks : List (List Tok × RawProperty)) (acc : List RawProperty) (f : Nat),
    (∀ c ∈ chunks, parsePropertyToks c.1 = .ok c.2) → chunks ≠ [] → chunks.length ≤ f →
    pFile f acc (fileToks chunks) = .ok (acc ++ chunks.map (·.2))
  | [], _, _, _, hne, _ => absurd rfl hne
  | _ :: _, _, 0, _, _, hf => by simp at hf
  | c :: cs, acc, f + 1, h, _, hf => by
      have hc := parsePropertyToks_ok (h c (List.mem_cons_self ..))
      have hcs : ∀ c' ∈ cs, parsePropertyToks c'.1 = .ok c'.2 := fun c' hm => h c' (List.mem_cons_of_mem _ hm)
      have hst := fileToks_starts cs hcs
      have hp : pProperty (fileToks (c :: cs)) = .ok (c.2, fileToks cs) := by
        have := pProperty_ext c.1 c.2 [] (fileToks cs) hc (fun _ => hst.1)
        simpa only [fileToks, List.flatMap_cons, List.nil_append] using this
      simp only [pFile, hp, bind, Except.bind]
      cases cs with
      | nil => simp [fileToks, pure, Except.pure]
      | cons c' cs' =>
        have hne : fileToks (c' :: cs') ≠ [] := hst.2 (fun hh => by cases hh)
        have he : (fileToks (c' :: cs')).isEmpty = false := by
          cases hh : fileToks (c' :: cs') with
          | nil => exact absurd hh hne
          | cons _ _ => rfl
        simp only [he, Bool.false_eq_true, if_false]
        rw [pFile_concat (c' :: cs') (acc ++ [c.2]) f hcs (fun hh => by cases hh) (by simp only [List.length_cons] at hf ⊢; omega)]
        simp only [List.map_cons, List.append_assoc, List.cons_append, List.nil_append]

theorem fileToks_length : ∀ (chunks : List (List Tok × RawProperty)),
    (∀ c ∈ chunks, parsePropertyToks c.1 = .ok c.2) → chunks.length ≤ (fileToks chunks).length
  | [], _ => Nat.le_refl _
  | c :: cs, h => by
      have hc := property_starts c.1 c.2 [] (parsePropertyToks_ok (h c (List.mem_cons_self ..)))
      have ih := fileToks_length cs (fun c' hm => h c' (List.mem_cons_of_mem _ hm))
      have : 1 ≤ c.1.length := by
        cases hh : c.1 with
        | nil => exact absurd hh hc.1
        | cons _ _ => simp
      simp only [fileToks, List.flatMap_cons, List.length_append, List.length_cons] at ih ⊢
      omega

/-- **C18, general statement at the token level.**  For any k ≥ 1 token texts each of which parses as a property on its own,
    the parser applied to their concatenation yields exactly the k individual results, in order: no property takes
    anything from its neighbours, whatever the properties are (annotations, scopes, patterns, disjunctions, time bounds). -/
theorem parseFileToks_concat (chunks : List (List Tok × RawProperty))
    (h : ∀ c ∈ chunks, parsePropertyToks c.1 = .ok c.2) (hne : chunks ≠ []) :
    parseFileToks (fileToks chunks) = .ok (chunks.map (·.2)) := by
  unfold parseFileToks
  have := pFile_concat chunks [] ((fileToks chunks).length + 1) h hne (by have := fileToks_length chunks h; omega)
  simpa only [List.nil_append] using this

end Hpl

namespace Hpl

/-- **C18 at the entry points.**  If the tokens of a file text are, up to what the parser reads of a token (kind, text, keyword
    position), the tokens of k ≥ 1 texts each parsing as a property on its own, then the file parses to exactly the k
    properties built from those k results, in order, and fails exactly when building one of them fails (first error). -/
theorem parseSpecification_concat (s : String) (ts : List Tok) (chunks : List (List Tok × RawProperty))
    (hl : lex s = .ok ts) (hk : KEq ts (fileToks chunks))
    (h : ∀ c ∈ chunks, parsePropertyToks c.1 = .ok c.2) (hne : chunks ≠ []) :
    parseSpecification s = (chunks.map (·.2)).mapM buildProperty := by
  unfold parseSpecification
  rw [hl]
  simp only
  rw [parseFileToks_sim hk, parseFileToks_concat chunks h hne]
  simp only
  exact buildSpec_members _ (by cases chunks with | nil => exact absurd rfl hne | cons _ _ => simp)

/-- …and each of those members is what `parse_property` gives on its own text -/
theorem parseProperty_of_toks (s : String) (ts : List Tok) (c : List Tok × RawProperty)
    (hl : lex s = .ok ts) (hk : KEq ts c.1) (h : parsePropertyToks c.1 = .ok c.2) :
    parseProperty s = buildProperty c.2 := by
  unfold parseProperty
  rw [hl]
  simp only
  rw [parsePropertyToks_sim hk, h]

end Hpl
