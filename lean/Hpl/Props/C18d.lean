import Hpl.Props.C18c
import Hpl.Props.C01e
/-!
# C18 — the converse: a file that parses is a sequence of texts that parse on their own

`Trunc p`: what a property-level parser function consumed, given to it alone, is read to the same result with nothing left.
(For predicates this goes through the grammar: `parse_sound` gives the derivation of the consumed tokens, `parse_predicate_complete`
reads it back with the fuel of the shorter text.)  With the extension lemmas of `Props/C18c` the phrases can be re-assembled, so
`pProperty ts = ok (p, rest)` implies `parsePropertyToks pre = ok p` for the consumed prefix, and
**`parseFileToks_iff`**: a token text parses as a file to `rs` iff it is the concatenation of texts parsing to the members of `rs`.
-/
namespace Hpl

def Trunc {α : Type} (p : List Tok → PR (α × List Tok)) : Prop :=
  ∀ ts r rest, p ts = .ok (r, rest) → ∃ pre, ts = pre ++ rest ∧ p pre = .ok (r, [])

theorem parsePredicateToks_ok {ts : List Tok} {r : Raw} (h : parsePredicateToks ts = .ok r) : pPredicate ts = .ok (r, []) := by
  unfold parsePredicateToks at h
  cases hp : pPredicate ts with
  | error e => rw [hp] at h; cases h
  | ok v =>
    obtain ⟨q, rest⟩ := v
    rw [hp] at h
    simp only [bind, Except.bind] at h
    cases rest with
    | nil => simp only [List.isEmpty_nil, if_true, pure, Except.pure, Except.ok.injEq] at h; rw [h]
    | cons _ _ => simp [List.isEmpty] at h

theorem pPredicate_trunc : Trunc pPredicate := by
  intro ts r rest h
  unfold pPredicate at h
  cases ts with
  | nil => cases h
  | cons t r0 =>
    simp only at h
    split at h
    · rename_i ho
      obtain ⟨a, ts', h1, h2⟩ := bind_ok_pair h
      obtain ⟨pre, rfl, hr⟩ := (parse_snd _).cond r0 a ts' h1
      match ts', h2 with
      | [], h2 => cases h2
      | c :: rest2, h2 =>
        simp only at h2
        split at h2
        · rename_i hc
          obtain ⟨rfl, rfl⟩ := pure_pair_inj h2
          exact ⟨t :: (pre ++ [c]), by simp, parsePredicateToks_ok (parse_predicate_complete hr t c ho hc)⟩
        · cases h2
    · cases h

theorem pEventBody_trunc (name : String) (al : Option String) : Trunc (pEventBody name al) := by
  intro ts r rest h
  unfold pEventBody at h
  cases ts with
  | nil =>
    obtain ⟨rfl, rfl⟩ := ok_pair_inj h
    exact ⟨[], rfl, rfl⟩
  | cons b y =>
    simp only at h
    split at h
    · rename_i hb
      obtain ⟨p, r', h1, h2⟩ := bind_ok_pair h
      obtain ⟨rfl, rfl⟩ := pure_pair_inj h2
      obtain ⟨pre, hpre, hp⟩ := pPredicate_trunc (b :: y) p r' h1
      cases pre with
      | nil => simp [pPredicate, perr] at hp
      | cons b' y' =>
        simp only [List.cons_append, List.cons.injEq] at hpre
        obtain ⟨rfl, rfl⟩ := hpre
        refine ⟨b :: y', rfl, ?_⟩
        simp only [pEventBody, hb, if_true, hp, bind, Except.bind, pure, Except.pure]
    · obtain ⟨rfl, rfl⟩ := ok_pair_inj h
      exact ⟨[], rfl, rfl⟩

theorem pEvent_trunc : Trunc pEvent := by
  intro ts r rest h
  rw [pEvent_eq] at h
  unfold pEvent' at h
  cases ts with
  | nil => cases h
  | cons n r0 =>
    simp only at h
    split at h
    · rename_i hn
      cases r0 with
      | nil =>
        have h' := h
        unfold pEventBody at h'
        obtain ⟨rfl, rfl⟩ := ok_pair_inj h'
        exact ⟨[n], rfl, by rw [pEvent_eq]; simp only [pEvent', hn, if_true]; exact h⟩
      | cons a r1 =>
        simp only at h
        split at h
        · rename_i ha
          cases r1 with
          | nil => cases h
          | cons v r2 =>
            simp only at h
            split at h
            · rename_i hv
              obtain ⟨pre, rfl, hp⟩ := pEventBody_trunc n.text (some v.text) r2 r rest h
              exact ⟨n :: a :: v :: pre, rfl, by rw [pEvent_eq]; simp only [pEvent', hn, ha, hv, if_true]; exact hp⟩
            · cases h
        · rename_i ha
          obtain ⟨pre, hpre, hp⟩ := pEventBody_trunc n.text none (a :: r1) r rest h
          refine ⟨n :: pre, by rw [hpre]; rfl, ?_⟩
          rw [pEvent_eq]
          cases pre with
          | nil => simp only [pEvent', hn, if_true]; exact hp
          | cons a' y' =>
            simp only [List.cons_append, List.cons.injEq] at hpre
            obtain ⟨rfl, _⟩ := hpre
            simp only [pEvent', hn, if_true, ha]
            exact hp
    · cases h

theorem stopsEv_kw {t : Tok} {w : String} (h : isKw t w = true) (hw : w ≠ "as") (rest : List Tok) : stopsEv (t :: rest) :=
  ⟨isKw_other h hw, isSym_of_kw h⟩

theorem stopsEv_sym {t : Tok} {w : String} (h : isSym t w = true) (hw : w ≠ "{") (rest : List Tok) : stopsEv (t :: rest) :=
  ⟨isKw_of_sym h, isSym_other h hw⟩

theorem pEvent_ne {e : RawSimple} {rest : List Tok} (h : pEvent [] = .ok (e, rest)) : False := by
  simp [pEvent, perr] at h

theorem pDisjTail_trunc : ∀ (f : Nat) (acc : List RawSimple) (ts : List Tok) (r : RawEvent) (rest : List Tok),
    pDisjTail f acc ts = .ok (r, rest) →
    ∃ pre, ts = pre ++ rest ∧ ∀ f', pre.length ≤ f' → pDisjTail f' acc pre = .ok (r, [])
  | 0, _, _, _, _, h => by simp [pDisjTail, perr] at h
  | f + 1, acc, ts, r, rest, h => by
      simp only [pDisjTail] at h
      obtain ⟨e, ts1, h1, h2⟩ := bind_ok_pair h
      obtain ⟨pe, rfl, hpe⟩ := pEvent_trunc ts e ts1 h1
      have hpe1 : 1 ≤ pe.length := by
        cases pe with
        | nil => exact absurd hpe (fun hh => pEvent_ne hh)
        | cons _ _ => simp
      match ts1, h2 with
      | [], h2 => cases h2
      | t :: rest1, h2 =>
        simp only at h2
        split at h2
        · rename_i hor
          obtain ⟨pre1, rfl, hpre1⟩ := pDisjTail_trunc f (e :: acc) rest1 r rest h2
          refine ⟨pe ++ t :: pre1, by simp, fun f' hf' => ?_⟩
          obtain ⟨f'', rfl⟩ : ∃ k, f' = k + 1 := ⟨f' - 1, by simp only [List.length_append, List.length_cons] at hf'; omega⟩
          have hev := pEvent_extE pe e [] (t :: pre1) hpe (fun _ => stopsEv_kw hor (by decide) _)
          simp only [List.nil_append] at hev
          simp only [pDisjTail, hev, bind, Except.bind, hor, if_true]
          exact hpre1 f'' (by simp only [List.length_append, List.length_cons] at hf'; omega)
        · rename_i hor
          split at h2
          · rename_i hcl
            split at h2
            · cases h2
            · rename_i hemp
              obtain ⟨rfl, rfl⟩ := pure_pair_inj h2
              refine ⟨pe ++ [t], by simp, fun f' hf' => ?_⟩
              obtain ⟨f'', rfl⟩ : ∃ k, f' = k + 1 := ⟨f' - 1, by simp only [List.length_append, List.length_cons] at hf'; omega⟩
              have hev := pEvent_extE pe e [] [t] hpe (fun _ => stopsEv_sym hcl (by decide) _)
              simp only [List.nil_append] at hev
              simp only [pDisjTail, hev, bind, Except.bind, hor, hcl, if_true, hemp]
              rfl
          · cases h2

theorem pAnyEvent_trunc : Trunc pAnyEvent := by
  intro ts r rest h
  unfold pAnyEvent at h
  cases ts with
  | nil => cases h
  | cons t r0 =>
    simp only at h
    split at h
    · rename_i hp
      obtain ⟨pre, rfl, hpre⟩ := pDisjTail_trunc _ [] r0 r rest h
      refine ⟨t :: pre, rfl, ?_⟩
      simp only [pAnyEvent, hp, if_true]
      exact hpre _ (by simp only [List.length_cons]; omega)
    · rename_i hp
      obtain ⟨e, r', h1, h2⟩ := bind_ok_pair h
      obtain ⟨rfl, rfl⟩ := pure_pair_inj h2
      obtain ⟨pre, hpre, hpe⟩ := pEvent_trunc (t :: r0) e r' h1
      cases pre with
      | nil => exact absurd hpe (fun hh => pEvent_ne hh)
      | cons t' y =>
        simp only [List.cons_append, List.cons.injEq] at hpre
        obtain ⟨rfl, rfl⟩ := hpre
        refine ⟨t :: y, rfl, ?_⟩
        simp only [pAnyEvent, hp, hpe, bind, Except.bind]
        rfl

theorem pTimeBound_trunc : Trunc pTimeBound := by
  intro ts r rest h
  unfold pTimeBound at h
  cases ts with
  | nil => obtain ⟨rfl, rfl⟩ := ok_pair_inj h; exact ⟨[], rfl, rfl⟩
  | cons w r0 =>
    simp only at h
    split at h
    · rename_i hw
      match r0, h with
      | [], h => cases h
      | [_], h => cases h
      | n :: u :: r2, h =>
        simp only at h
        split at h
        · rename_i hn
          cases hd : decimalValue n.text with
          | none => simp only [hd] at h; cases h
          | some v =>
            simp only [hd] at h
            split at h
            · rename_i hu
              obtain ⟨rfl, rfl⟩ := ok_pair_inj h
              exact ⟨[w, n, u], rfl, by simp only [pTimeBound, hw, if_true, hn, hd, hu]⟩
            · rename_i hu
              split at h
              · rename_i hu2
                obtain ⟨rfl, rfl⟩ := ok_pair_inj h
                exact ⟨[w, n, u], rfl, by simp only [pTimeBound, hw, if_true, hn, hd, hu, hu2]; rfl⟩
              · cases h
        · cases h
    · obtain ⟨rfl, rfl⟩ := ok_pair_inj h
      exact ⟨[], rfl, rfl⟩

/-- a time bound that uses up its text is empty or starts with `within` -/
theorem timeBound_stopsEv {pt : List Tok} {tb : Option (Rat × TimeUnit)} (h : pTimeBound pt = .ok (tb, [])) : stopsEv pt := by
  cases pt with
  | nil => trivial
  | cons w r0 =>
    by_cases hw : isKw w "within" = true
    · exact stopsEv_kw hw (by decide) _
    · unfold pTimeBound at h
      simp only [hw] at h
      obtain ⟨_, hh⟩ := ok_pair_inj h
      cases hh

theorem pEvTb_trunc (mk : RawEvent → Option (Rat × TimeUnit) → RawProperty) : Trunc (pEvTb mk) := by
  intro ts p rest h
  unfold pEvTb at h
  obtain ⟨b, r, h1, h2⟩ := bind_ok_pair h
  obtain ⟨tb, r', h3, h4⟩ := bind_ok_pair h2
  obtain ⟨rfl, rfl⟩ := pure_pair_inj h4
  obtain ⟨pb, rfl, hpb⟩ := pAnyEvent_trunc ts b r h1
  obtain ⟨pt, rfl, hpt⟩ := pTimeBound_trunc r tb r' h3
  refine ⟨pb ++ pt, by simp, ?_⟩
  have := pAnyEvent_extE pb b [] pt hpb (fun _ => timeBound_stopsEv hpt)
  simp only [List.nil_append] at this
  simp only [pEvTb, this, bind, Except.bind, hpt]
  rfl

theorem pAnyEvent_ne {e : RawEvent} {rest : List Tok} (h : pAnyEvent [] = .ok (e, rest)) : False := by
  simp [pAnyEvent, perr] at h

theorem pPattern_trunc (sk : ScopeKind) (act term : Option RawEvent) (md : List (String × String)) : Trunc (pPattern sk act term md) := by
  intro ts p rest h
  unfold pPattern at h
  cases ts with
  | nil => cases h
  | cons t r0 =>
    simp only at h
    split at h
    · rename_i h1
      obtain ⟨pre, rfl, hpre⟩ := pEvTb_trunc (fun b tb => ⟨sk, act, term, .existence, b, none, tb, md⟩) r0 p rest h
      exact ⟨t :: pre, rfl, by simp only [pPattern, h1, if_true]; exact hpre⟩
    · rename_i h1
      split at h
      · rename_i h2
        obtain ⟨pre, rfl, hpre⟩ := pEvTb_trunc (fun b tb => ⟨sk, act, term, .absence, b, none, tb, md⟩) r0 p rest h
        exact ⟨t :: pre, rfl, by simp only [pPattern, h1, h2, if_true]; exact hpre⟩
      · rename_i h2
        obtain ⟨e1, r, ha, hk⟩ := bind_ok_pair h
        obtain ⟨p1, hp1, hpa⟩ := pAnyEvent_trunc (t :: r0) e1 r ha
        cases p1 with
        | nil => exact absurd hpa (fun hh => pAnyEvent_ne hh)
        | cons t' y =>
          simp only [List.cons_append, List.cons.injEq] at hp1
          obtain ⟨rfl, rfl⟩ := hp1
          match r, hk with
          | [], hk => cases hk
          | k :: r2, hk =>
            simp only at hk
            have fin : ∀ (w : String) (mk : RawEvent → Option (Rat × TimeUnit) → RawProperty), isKw k w = true → w ≠ "as" →
                pEvTb mk r2 = .ok (p, rest) →
                (∀ pre2, pPattern sk act term md (t :: (y ++ k :: pre2)) = pEvTb mk pre2) →
                ∃ pre, t :: (y ++ k :: r2) = pre ++ rest ∧ pPattern sk act term md pre = .ok (p, []) := by
              intro w mk hw hne hev hpat
              obtain ⟨pre2, rfl, hpre2⟩ := pEvTb_trunc mk r2 p rest hev
              exact ⟨t :: (y ++ k :: pre2), by simp, by rw [hpat]; exact hpre2⟩
            split at hk
            · rename_i hc
              refine fin "causes" (fun e2 tb => ⟨sk, act, term, .response, e2, some e1, tb, md⟩) hc (by decide) hk (fun pre2 => ?_)
              have := pAnyEvent_extE (t :: y) e1 [] (k :: pre2) hpa (fun _ => stopsEv_kw hc (by decide) _)
              simp only [List.nil_append, List.cons_append] at this
              simp only [pPattern, h1, h2, this, bind, Except.bind, hc, if_true]
              rfl
            · rename_i hc
              split at hk
              · rename_i hc2
                refine fin "forbids" (fun e2 tb => ⟨sk, act, term, .prevention, e2, some e1, tb, md⟩) hc2 (by decide) hk (fun pre2 => ?_)
                have := pAnyEvent_extE (t :: y) e1 [] (k :: pre2) hpa (fun _ => stopsEv_kw hc2 (by decide) _)
                simp only [List.nil_append, List.cons_append] at this
                simp only [pPattern, h1, h2, this, bind, Except.bind, hc, hc2, if_true]
                rfl
              · rename_i hc2
                split at hk
                · rename_i hc3
                  refine fin "requires" (fun e2 tb => ⟨sk, act, term, .requirement, e1, some e2, tb, md⟩) hc3 (by decide) hk (fun pre2 => ?_)
                  have := pAnyEvent_extE (t :: y) e1 [] (k :: pre2) hpa (fun _ => stopsEv_kw hc3 (by decide) _)
                  simp only [List.nil_append, List.cons_append] at this
                  simp only [pPattern, h1, h2, this, bind, Except.bind, hc, hc2, hc3, if_true]
                  rfl
                · cases hk

/-- the scope: what it consumed, followed by the colon, is read to the same scope -/
theorem pScope_trunc (ts : List Tok) (sk : ScopeKind) (a q : Option RawEvent) (rest : List Tok)
    (h : pScope ts = .ok (sk, a, q, rest)) :
    ∃ pre, ts = pre ++ rest ∧ pre ≠ [] ∧ (∀ t tl, pre = t :: tl → isSym t "#" = false) ∧
      ∀ c more, isSym c ":" = true → pScope (pre ++ c :: more) = .ok (sk, a, q, c :: more) := by
  unfold pScope at h
  cases ts with
  | nil => cases h
  | cons t r0 =>
    simp only at h
    split at h
    · rename_i h1
      simp only [pure, Except.pure, Except.ok.injEq, Prod.mk.injEq] at h
      obtain ⟨rfl, rfl, rfl, rfl⟩ := h
      refine ⟨[t], rfl, by simp, fun t' _ he => by cases he; exact isSym_of_kw h1, fun c more _ => ?_⟩
      simp only [pScope, List.cons_append, List.nil_append, h1, if_true]
      rfl
    · rename_i h1
      split at h
      · rename_i h2
        obtain ⟨e, r1, ha, hk⟩ := bind_ok_pair h
        obtain ⟨pa, rfl, hpa⟩ := pAnyEvent_trunc r0 e r1 ha
        have single : ∀ (rest' : List Tok), r1 = rest' → (∀ u r2, r1 = u :: r2 → isKw u "until" = false) →
            (sk, a, q, rest) = (ScopeKind.after, some e, (none : Option RawEvent), r1) →
            ∃ pre, t :: (pa ++ r1) = pre ++ rest ∧ pre ≠ [] ∧ (∀ t' tl, pre = t' :: tl → isSym t' "#" = false) ∧
              ∀ c more, isSym c ":" = true → pScope (pre ++ c :: more) = .ok (sk, a, q, c :: more) := by
          intro _ _ _ heq
          simp only [Prod.mk.injEq] at heq
          obtain ⟨rfl, rfl, rfl, rfl⟩ := heq
          refine ⟨t :: pa, rfl, by simp, fun t' _ he => by cases he; exact isSym_of_kw h2, fun c more hc => ?_⟩
          have := pAnyEvent_extE pa e [] (c :: more) hpa (fun _ => stopsEv_sym hc (by decide) _)
          simp only [List.nil_append] at this
          simp only [pScope, List.cons_append, h1, h2, if_true, this, bind, Except.bind, isKw_of_sym hc]
          rfl
        match r1, hk, single with
        | [], hk, single =>
          simp only [pure, Except.pure, Except.ok.injEq] at hk
          exact single [] rfl (fun _ _ he => by cases he) hk.symm
        | u :: r2, hk, single =>
          simp only at hk
          split at hk
          · rename_i hu
            obtain ⟨e2, r3, hb, hk2⟩ := bind_ok_pair hk
            simp only [pure, Except.pure, Except.ok.injEq, Prod.mk.injEq] at hk2
            obtain ⟨rfl, rfl, rfl, rfl⟩ := hk2
            obtain ⟨pq, rfl, hpq⟩ := pAnyEvent_trunc r2 e2 _ hb
            refine ⟨t :: (pa ++ u :: pq), by simp, by simp, fun t' _ he => by cases he; exact isSym_of_kw h2, fun c more hc => ?_⟩
            have e1' := pAnyEvent_extE pa e [] (u :: (pq ++ c :: more)) hpa (fun _ => stopsEv_kw hu (by decide) _)
            have e2' := pAnyEvent_extE pq e2 [] (c :: more) hpq (fun _ => stopsEv_sym hc (by decide) _)
            simp only [List.nil_append] at e1' e2'
            simp only [pScope, List.cons_append, List.append_assoc, h1, h2, if_true, e1', bind, Except.bind, hu, e2']
            rfl
          · rename_i hu
            simp only [pure, Except.pure, Except.ok.injEq] at hk
            exact single _ rfl (fun u' r2' he => by cases he; simpa using hu) hk.symm
      · rename_i h2
        split at h
        · rename_i h3
          obtain ⟨e, r1, ha, hk⟩ := bind_ok_pair h
          simp only [pure, Except.pure, Except.ok.injEq, Prod.mk.injEq] at hk
          obtain ⟨rfl, rfl, rfl, rfl⟩ := hk
          obtain ⟨pa, rfl, hpa⟩ := pAnyEvent_trunc r0 e _ ha
          refine ⟨t :: pa, rfl, by simp, fun t' _ he => by cases he; exact isSym_of_kw h3, fun c more hc => ?_⟩
          have := pAnyEvent_extE pa e [] (c :: more) hpa (fun _ => stopsEv_sym hc (by decide) _)
          simp only [List.nil_append] at this
          simp only [pScope, List.cons_append, h1, h2, h3, if_true, this, bind, Except.bind]
          rfl
        · cases h

theorem pMetadata_stop (f : Nat) (acc : List (String × String)) (more : List Tok)
    (hm : ∀ t tl, more = t :: tl → isSym t "#" = false) : pMetadata (f + 1) acc more = .ok (acc, more) := by
  cases more with
  | nil => simp [pMetadata]
  | cons t tl => exact pMetadata_nohash _ _ _ _ (hm t tl rfl)

theorem pMetadata_loc : ∀ (f : Nat) (acc : List (String × String)) (ts : List Tok) (r : List (String × String)) (rest : List Tok),
    pMetadata f acc ts = .ok (r, rest) →
    ∃ pre, ts = pre ++ rest ∧ ∀ f' more, pre.length < f' → (∀ t tl, more = t :: tl → isSym t "#" = false) →
      pMetadata f' acc (pre ++ more) = .ok (r, more)
  | 0, _, _, _, _, h => by simp [pMetadata, perr] at h
  | f + 1, acc, ts, r, rest, h => by
      have stop : (r, rest) = (acc, ts) → ∃ pre, ts = pre ++ rest ∧ ∀ f' more, pre.length < f' →
          (∀ t tl, more = t :: tl → isSym t "#" = false) → pMetadata f' acc (pre ++ more) = .ok (r, more) := by
        intro he
        simp only [Prod.mk.injEq] at he
        obtain ⟨rfl, rfl⟩ := he
        refine ⟨[], rfl, fun f' more hf' hm => ?_⟩
        obtain ⟨f'', rfl⟩ : ∃ k, f' = k + 1 := ⟨f' - 1, by omega⟩
        exact pMetadata_stop f'' _ more hm
      match ts, h, stop with
      | [], h, stop =>
        simp only [pMetadata] at h
        exact stop (Except.ok.inj h).symm
      | hd :: tl, h, stop =>
        cases hh : isSym hd "#" with
        | false =>
          rw [pMetadata_nohash _ _ _ _ hh] at h
          exact stop (Except.ok.inj h).symm
        | true =>
          match tl, h with
          | [], h => simp [pMetadata, hh, perr] at h
          | [_], h => simp [pMetadata, hh, perr] at h
          | [_, _], h => simp [pMetadata, hh, perr] at h
          | k :: c :: v :: r0, h =>
            simp only [pMetadata, hh, if_true] at h
            have step : ∀ (acc' : List (String × String)), pMetadata f acc' r0 = .ok (r, rest) →
                (∀ f'' more, pMetadata (f'' + 1) acc (hd :: k :: c :: v :: (more)) = pMetadata f'' acc' more) →
                ∃ pre, hd :: k :: c :: v :: r0 = pre ++ rest ∧ ∀ f' more, pre.length < f' →
                  (∀ t tl, more = t :: tl → isSym t "#" = false) → pMetadata f' acc (pre ++ more) = .ok (r, more) := by
              intro acc' h' hstep
              obtain ⟨pre0, rfl, hp0⟩ := pMetadata_loc f acc' r0 r rest h'
              refine ⟨hd :: k :: c :: v :: pre0, by simp, fun f' more hf' hm => ?_⟩
              obtain ⟨f'', rfl⟩ : ∃ n, f' = n + 1 := ⟨f' - 1, by omega⟩
              simp only [List.cons_append]
              rw [hstep]
              exact hp0 f'' more (by simp only [List.length_cons] at hf'; omega) hm
            split at h
            · rename_i hc
              split at h
              · rename_i h1
                exact step _ h (fun f'' more => by simp only [pMetadata, hh, hc, h1, if_true])
              · rename_i h1
                split at h
                · rename_i h2
                  exact step _ h (fun f'' more => by simp only [pMetadata, hh, hc, h1, h2, if_true]; rfl)
                · rename_i h2
                  split at h
                  · rename_i h3
                    exact step _ h (fun f'' more => by simp only [pMetadata, hh, hc, h1, h2, h3, if_true]; rfl)
                  · cases h
            · cases h

/-- **truncation of a property**: the tokens a property consumed parse, on their own, to that property -/
theorem pProperty_trunc : Trunc pProperty := by
  intro ts p rest h
  unfold pProperty at h
  obtain ⟨md, r1, h1, h2⟩ := bind_ok_pair h
  dsimp only at h2
  cases hsc : pScope r1 with
  | error e => rw [hsc] at h2; cases h2
  | ok v =>
    obtain ⟨sk, act, term, r2⟩ := v
    rw [hsc] at h2
    simp only [bind, Except.bind] at h2
    match r2, hsc, h2 with
    | [], _, h2 => cases h2
    | c :: r3, hsc, h2 =>
      cases hc : isSym c ":" with
      | false => simp only [hc, Bool.not_false, if_true] at h2; cases h2
      | true =>
        simp only [hc, Bool.not_true, Bool.false_eq_true, if_false] at h2
        obtain ⟨pm, rfl, hpm⟩ := pMetadata_loc _ [] ts md r1 h1
        obtain ⟨ps, rfl, hne, hhash, hps⟩ := pScope_trunc r1 sk act term (c :: r3) hsc
        obtain ⟨pp, rfl, hpp⟩ := pPattern_trunc sk act term md r3 p rest h2
        refine ⟨pm ++ (ps ++ c :: pp), by simp, ?_⟩
        have hfollow : ∀ t tl, ps ++ c :: pp = t :: tl → isSym t "#" = false := by
          intro t tl he
          cases ps with
          | nil => exact absurd rfl hne
          | cons t0 tl0 =>
            simp only [List.cons_append, List.cons.injEq] at he
            exact he.1 ▸ hhash t0 tl0 rfl
        simp only [pProperty]
        rw [hpm _ (ps ++ c :: pp) (by simp only [List.length_append]; omega) hfollow]
        dsimp only [bind, Except.bind]
        rw [hps c pp hc]
        dsimp only
        simp only [hc, Bool.not_true, Bool.false_eq_true, if_false]
        exact hpp

theorem parsePropertyToks_of {ts : List Tok} {p : RawProperty} (h : pProperty ts = .ok (p, [])) : parsePropertyToks ts = .ok p := by
  simp [parsePropertyToks, h, bind, Except.bind, pure, Except.pure]

/-- the file loop splits its input into texts that parse on their own -/
theorem pFile_split : ∀ (f : Nat) (acc : List RawProperty) (ts : List Tok) (rs : List RawProperty), pFile f acc ts = .ok rs →
    ∃ chunks : List (List Tok × RawProperty), chunks ≠ [] ∧ ts = fileToks chunks ∧ rs = acc ++ chunks.map (·.2) ∧
      ∀ c ∈ chunks, parsePropertyToks c.1 = .ok c.2
  | 0, _, _, _, h => by simp [pFile] at h
  | f + 1, acc, ts, rs, h => by
      simp only [pFile] at h
      cases hp : pProperty ts with
      | error e => rw [hp] at h; cases h
      | ok v =>
        obtain ⟨p, rest⟩ := v
        rw [hp] at h
        simp only [bind, Except.bind] at h
        obtain ⟨pre, rfl, hpre⟩ := pProperty_trunc ts p rest hp
        cases rest with
        | nil =>
          simp only [List.isEmpty_nil, if_true, pure, Except.pure, Except.ok.injEq] at h
          exact ⟨[(pre, p)], by simp, by simp [fileToks], by simp [h], fun c hc => by
            simp only [List.mem_singleton] at hc; subst hc; exact parsePropertyToks_of hpre⟩
        | cons t tl =>
          simp only [List.isEmpty_cons, Bool.false_eq_true, if_false] at h
          obtain ⟨chunks, hne, hts, hrs, hall⟩ := pFile_split f (acc ++ [p]) (t :: tl) rs h
          refine ⟨(pre, p) :: chunks, by simp, ?_, ?_, ?_⟩
          · simp only [fileToks, List.flatMap_cons] at hts ⊢; rw [hts]
          · simp only [List.map_cons, hrs, List.append_assoc, List.cons_append, List.nil_append]
          · intro c hc
            simp only [List.mem_cons] at hc
            rcases hc with rfl | hc
            · exact parsePropertyToks_of hpre
            · exact hall c hc

/-- **C18, exact**: a token text parses as a file to `rs` if and only if it is the concatenation of k ≥ 1 texts, each parsing as a
    property on its own, and `rs` are their results in order.  In particular a text that is *not* such a concatenation - one of whose
    properties is malformed, however the text is cut - is rejected as a whole. -/
theorem parseFileToks_iff (ts : List Tok) (rs : List RawProperty) :
    parseFileToks ts = .ok rs ↔
    ∃ chunks : List (List Tok × RawProperty), chunks ≠ [] ∧ ts = fileToks chunks ∧ rs = chunks.map (·.2) ∧
      ∀ c ∈ chunks, parsePropertyToks c.1 = .ok c.2 := by
  constructor
  · intro h
    obtain ⟨chunks, hne, hts, hrs, hall⟩ := pFile_split _ [] ts rs h
    exact ⟨chunks, hne, hts, by simpa using hrs, hall⟩
  · rintro ⟨chunks, hne, rfl, rfl, hall⟩
    exact parseFileToks_concat chunks hall hne

end Hpl
