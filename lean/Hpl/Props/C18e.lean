import Hpl.Props.C06n
import Hpl.Props.C06j
import Hpl.Props.C18d
/-!
# C18 / C01 — the scanner is local: what follows a white-space character does not change how the text before it is scanned

`scan_append`: if a text is scanned successfully, then followed by anything that begins with a white-space character it is scanned to
the same tokens, after which the scanner continues on the rest (brace depth carried over, no token glued to the previous one).
-/
namespace Hpl

/-- the rest of the input is empty or begins with a white-space character -/
def WsStart (rest : List Char) : Prop := ∀ x, rest.head? = some x → isWs x = true

theorem ws_cases {x : Char} (h : isWs x = true) : x = ' ' ∨ x = '\t' ∨ x = '\x0c' ∨ x = '\r' ∨ x = '\n' := by
  simp only [isWs, Bool.or_eq_true, beq_iff_eq] at h
  rcases h with (((h | h) | h) | h) | h <;> simp [h]

theorem WsStart.notId {rest : List Char} (h : WsStart rest) : ∀ x, rest.head? = some x → isIdChar x = false := by
  intro x hx; rcases ws_cases (h x hx) with rfl | rfl | rfl | rfl | rfl <;> decide

theorem WsStart.notDigit {rest : List Char} (h : WsStart rest) : ∀ x, rest.head? = some x → isDigitA x = false := by
  intro x hx; rcases ws_cases (h x hx) with rfl | rfl | rfl | rfl | rfl <;> decide

theorem WsStart.numStop {rest : List Char} (h : WsStart rest) : NumStop rest := by
  intro x hx; rcases ws_cases (h x hx) with rfl | rfl | rfl | rfl | rfl <;> decide

theorem WsStart.nameEnd {rest : List Char} (h : WsStart rest) : NameEnd rest := by
  intro x hx; rcases ws_cases (h x hx) with rfl | rfl | rfl | rfl | rfl <;> decide

theorem WsStart.notAlpha {rest : List Char} (h : WsStart rest) : ∀ x, rest.head? = some x → isAlphaA x = false := by
  intro x hx; rcases ws_cases (h x hx) with rfl | rfl | rfl | rfl | rfl <;> decide

/-- channel-name continuation is local -/
theorem chanSegments_gen : ∀ (f : Nat) (cs a b : List Char), chanSegments f cs = (a, b) → cs.length < f →
    ∀ (rest : List Char), WsStart rest → ∀ f', f ≤ f' → chanSegments f' (cs ++ rest) = (a, b ++ rest)
  | 0, cs, _, _, _, hl, _, _, _, _ => by omega
  | f + 1, cs, a, b, h, hl, rest, hr, f', hf => by
      obtain ⟨f'', rfl⟩ : ∃ n, f' = n + 1 := ⟨f' - 1, by omega⟩
      have stop : (a, b) = ([], cs) → cs.head? ≠ some '/' ∨ (∃ c tl, cs = '/' :: c :: tl ∧ isAlphaA c = false) ∨ cs = ['/'] →
          chanSegments (f'' + 1) (cs ++ rest) = (a, b ++ rest) := by
        intro he hc
        have ha : a = [] := (Prod.mk.inj he).1
        have hb : b = cs := (Prod.mk.inj he).2
        rw [ha, hb]
        rcases hc with hc | ⟨c, tl, rfl, hc⟩ | rfl
        · cases cs with
          | nil => exact chanSegments_stop _ _ hr.nameEnd.notSlash
          | cons x xs => exact chanSegments_stop _ _ (by simpa using hc)
        · simp [chanSegments, hc]
        · cases rest with
          | nil => rfl
          | cons w r2 => simp [chanSegments, hr.notAlpha w rfl]
      match cs, h, hl, stop with
      | [], h, _, stop => exact stop (by simpa [chanSegments] using h.symm) (.inl (by simp))
      | [x], h, _, stop =>
        by_cases hx : x = '/'
        · subst hx; exact stop (by simpa [chanSegments] using h.symm) (.inr (.inr rfl))
        · have : chanSegments (f + 1) [x] = ([], [x]) := chanSegments_stop _ _ (by simpa using hx)
          rw [this] at h
          exact stop h.symm (.inl (by simpa using hx))
      | x :: c :: cs', h, hl, stop =>
        by_cases hx : x = '/'
        · subst hx
          by_cases hc : isAlphaA c = true
          · rw [chanSegments_succ_slash _ _ _ hc] at h
            cases hseg : takeWhileC isIdChar cs' with
            | mk seg r =>
              rw [hseg] at h
              cases hmore : chanSegments f r with
              | mk more r' =>
                rw [hmore] at h
                simp only [Prod.mk.injEq] at h
                obtain ⟨rfl, rfl⟩ := h
                have hsplit := takeWhileC_split _ _ _ _ hseg
                have hrl : r.length < f := by
                  have : cs'.length = seg.length + r.length := by rw [hsplit]; simp
                  simp only [List.length_cons] at hl; omega
                have ih := chanSegments_gen f r more r' hmore hrl rest hr f'' (by omega)
                simp only [List.cons_append]
                rw [chanSegments_succ_slash _ _ _ hc, takeWhileC_local isIdChar cs' rest hr.notId, hseg]
                simp only
                rw [ih]
                simp
          · have hc' : isAlphaA c = false := by simpa using hc
            have : chanSegments (f + 1) ('/' :: c :: cs') = ([], '/' :: c :: cs') := by simp [chanSegments, hc']
            rw [this] at h
            exact stop h.symm (.inr (.inl ⟨c, cs', rfl, hc'⟩))
        · have : chanSegments (f + 1) (x :: c :: cs') = ([], x :: c :: cs') := chanSegments_stop _ _ (by simpa using hx)
          rw [this] at h
          exact stop h.symm (.inl (by simpa using hx))

/-- the two-character punctuation tokens -/
def twoSym (c : Char) (rest : List Char) : Option (List Char) :=
  match c, rest with
  | '*', '*' :: _ => some ['*', '*']
  | '<', '=' :: _ => some ['<', '=']
  | '>', '=' :: _ => some ['>', '=']
  | '!', '=' :: _ => some ['!', '=']
  | '!', '[' :: _ => some ['!', '[']
  | ']', '!' :: _ => some [']', '!']
  | _, _ => none

/-- the first character after `@` starts an identifier -/
def idNext (rest : List Char) : Bool := match rest with | d :: _ => isIdStart d | [] => false
def alphaNext (rest : List Char) : Bool := match rest with | d :: _ => isAlphaA d | [] => false

/-- one step of the scanner, with the look-ahead tests named -/
theorem scan_succ' (f : Nat) (c : Char) (rest : List Char) (depth : Nat) (glued afterWord : Bool) (acc : List Tok) :
    scan (f + 1) (c :: rest) depth glued afterWord acc = (
      if isWs c then scan f rest depth false false acc
      else
        let mk (k : TokKind) (t : List Char) : Tok := ⟨k, String.ofList t, glued, afterWord⟩
        if c == '@' then
          (if idNext rest then scan f (takeWhileC isIdChar rest).2 depth true true (mk .var (takeWhileC isIdChar rest).1 :: acc)
           else .error .unexpectedChar)
        else if c == '"' then
          match scanString rest ['"'] with
          | some (s, r) => scan f r depth true false (mk .str s :: acc)
          | none => .error .unexpectedChar
        else if numGuard c rest then
          match scanNumber (c :: rest) with
          | some (n, r) => scan f r depth true (n.getLast? != some '.') (mk .num n :: acc)
          | none => .error .unexpectedChar
        else if isIdStart c then
          (if depth == 0 && isAlphaA c then
            scan f (chanSegments ((takeWhileC isIdChar (c :: rest)).2.length + 1) (takeWhileC isIdChar (c :: rest)).2).2 depth true true
              (mk .word ((takeWhileC isIdChar (c :: rest)).1 ++ (chanSegments ((takeWhileC isIdChar (c :: rest)).2.length + 1) (takeWhileC isIdChar (c :: rest)).2).1) :: acc)
          else scan f (takeWhileC isIdChar (c :: rest)).2 depth true true (mk .word (takeWhileC isIdChar (c :: rest)).1 :: acc))
        else if depth == 0 && (c == '/' || c == '~') then
          (if alphaNext rest then
            scan f (chanSegments ((takeWhileC isIdChar rest).2.length + 1) (takeWhileC isIdChar rest).2).2 depth true true
              (mk .word (c :: (takeWhileC isIdChar rest).1 ++ (chanSegments ((takeWhileC isIdChar rest).2.length + 1) (takeWhileC isIdChar rest).2).1) :: acc)
           else .error .unexpectedChar)
        else
          match twoSym c rest with
          | some t => scan f (rest.drop 1) depth true false (mk .sym t :: acc)
          | none =>
            if c == '{' then scan f rest (depth + 1) true false (mk .sym [c] :: acc)
            else if c == '}' then scan f rest (depth - 1) true false (mk .sym [c] :: acc)
            else if "()[],:.#=!<>+-*/".toList.contains c then scan f rest depth true false (mk .sym [c] :: acc)
            else .error .unexpectedChar) := by
  rw [scan_succ]
  cases rest <;> rfl

theorem WsStart.notIdStart {rest : List Char} (h : WsStart rest) : ∀ x, rest.head? = some x → isIdStart x = false := by
  intro x hx; rcases ws_cases (h x hx) with rfl | rfl | rfl | rfl | rfl <;> decide

theorem idNext_local (rest0 : List Char) {rest : List Char} (hr : WsStart rest) : idNext (rest0 ++ rest) = idNext rest0 := by
  cases rest0 with
  | cons _ _ => rfl
  | nil =>
    cases rest with
    | nil => rfl
    | cons w _ => simp [idNext, hr.notIdStart w rfl]

theorem alphaNext_local (rest0 : List Char) {rest : List Char} (hr : WsStart rest) : alphaNext (rest0 ++ rest) = alphaNext rest0 := by
  cases rest0 with
  | cons _ _ => rfl
  | nil =>
    cases rest with
    | nil => rfl
    | cons w _ => simp [alphaNext, hr.notAlpha w rfl]

theorem numGuard_local (c : Char) (rest0 : List Char) {rest : List Char} (hr : WsStart rest) :
    numGuard c (rest0 ++ rest) = numGuard c rest0 := by
  cases rest0 with
  | cons _ _ => rfl
  | nil =>
    cases rest with
    | nil => rfl
    | cons w _ => simp [numGuard, hr.notDigit w rfl]

theorem twoSym_nil (c : Char) : twoSym c [] = none := by
  unfold twoSym; split <;> simp_all

theorem twoSym_cons (c x : Char) (xs ys : List Char) : twoSym c (x :: xs) = twoSym c (x :: ys) := by
  unfold twoSym
  split <;> rename_i h1 <;> (try (simp only [List.cons.injEq] at h1; obtain ⟨rfl, _⟩ := h1)) <;> try rfl
  all_goals (split <;> simp_all)

theorem twoSym_local (c : Char) (rest0 : List Char) {rest : List Char} (hr : WsStart rest) :
    twoSym c (rest0 ++ rest) = twoSym c rest0 := by
  cases rest0 with
  | cons x xs => exact twoSym_cons c x _ _
  | nil =>
    rw [twoSym_nil]
    cases rest with
    | nil => exact twoSym_nil c
    | cons w r2 =>
      have hw := hr w rfl
      unfold twoSym
      split <;> first | rfl | (rename_i h1; simp only [List.nil_append, List.cons.injEq] at h1; obtain ⟨rfl, _⟩ := h1; exact absurd hw (by decide))

theorem takeWhileC_local_cons (p : Char → Bool) (c : Char) (w : List Char) {rest : List Char} (h : ∀ x, rest.head? = some x → p x = false) :
    takeWhileC p (c :: (w ++ rest)) = ((takeWhileC p (c :: w)).1, (takeWhileC p (c :: w)).2 ++ rest) :=
  takeWhileC_local p (c :: w) rest h

theorem chanSegments_local' (r : List Char) {rest : List Char} (hr : WsStart rest) :
    chanSegments ((r ++ rest).length + 1) (r ++ rest) = ((chanSegments (r.length + 1) r).1, (chanSegments (r.length + 1) r).2 ++ rest) :=
  chanSegments_gen (r.length + 1) r _ _ rfl (by omega) rest hr _ (by simp only [List.length_append]; omega)

theorem scanNumber_local_cons (c : Char) (w : List Char) {rest : List Char} (hr : WsStart rest) :
    scanNumber (c :: (w ++ rest)) = (scanNumber (c :: w)).map (fun p => (p.1, p.2 ++ rest)) :=
  scanNumber_local (c :: w) rest hr.numStop

/-- how a token changes the brace depth -/
def tokStep (d : Nat) (t : Tok) : Nat := if isSym t "{" then d + 1 else if isSym t "}" then d - 1 else d
def tokDepth (ts : List Tok) (d : Nat) : Nat := ts.foldl tokStep d

theorem tokDepth_append (a b : List Tok) (d : Nat) : tokDepth (a ++ b) d = tokDepth b (tokDepth a d) := by
  simp [tokDepth, List.foldl_append]

theorem tokStep_nonsym {t : Tok} (h : (t.kind == .sym) = false) (d : Nat) : tokStep d t = d := by
  simp [tokStep, isSym, h]

theorem single_eq (c s : Char) : (String.ofList [c] == String.ofList [s]) = (c == s) := by
  by_cases h : c = s
  · subst h; simp
  · have hne : String.ofList [c] ≠ String.ofList [s] := fun he => h (by
      have := congrArg String.toList he
      simpa using this)
    rw [beq_eq_false_iff_ne.mpr hne, beq_eq_false_iff_ne.mpr h]

theorem tokStep_single (c : Char) (g aw : Bool) (d : Nat) :
    tokStep d ⟨.sym, String.ofList [c], g, aw⟩ = if c == '{' then d + 1 else if c == '}' then d - 1 else d := by
  have e1 : (String.ofList [c] == "{") = (c == '{') := single_eq c '{'
  have e2 : (String.ofList [c] == "}") = (c == '}') := single_eq c '}'
  simp only [tokStep, isSym, e1, e2, beq_self_eq_true, Bool.true_and]

theorem twoSym_vals {c : Char} {r t : List Char} (h : twoSym c r = some t) :
    t = ['*', '*'] ∨ t = ['<', '='] ∨ t = ['>', '='] ∨ t = ['!', '='] ∨ t = ['!', '['] ∨ t = [']', '!'] := by
  unfold twoSym at h
  split at h <;> simp_all

theorem two_not_brace {c : Char} {r t : List Char} (h : twoSym c r = some t) :
    (String.ofList t == "{") = false ∧ (String.ofList t == "}") = false := by
  rcases twoSym_vals h with rfl | rfl | rfl | rfl | rfl | rfl <;> decide

theorem tokStep_two {c : Char} {r t : List Char} (h : twoSym c r = some t) (g aw : Bool) (d : Nat) :
    tokStep d ⟨.sym, String.ofList t, g, aw⟩ = d := by
  obtain ⟨h1, h2⟩ := two_not_brace h
  simp [tokStep, isSym, h1, h2]

theorem takeWhileC_len (p : Char → Bool) (cs : List Char) : (takeWhileC p cs).2.length ≤ cs.length := by
  have := takeWhileC_split p cs _ _ rfl
  have h2 := congrArg List.length this
  simp only [List.length_append] at h2
  omega

theorem takeWhileC_len_cons (p : Char → Bool) (c : Char) (cs : List Char) (hc : p c = true) :
    (takeWhileC p (c :: cs)).2.length ≤ cs.length := by
  simp only [takeWhileC, hc, if_true]
  exact takeWhileC_len p cs

theorem chanSegments_len : ∀ (f : Nat) (cs : List Char), (chanSegments f cs).2.length ≤ cs.length
  | 0, cs => by simp [chanSegments]
  | f + 1, cs => by
      match cs with
      | [] => simp [chanSegments]
      | [x] => simp [chanSegments]
      | x :: c :: cs' =>
        by_cases hx : x = '/'
        · subst hx
          by_cases hc : isAlphaA c = true
          · rw [chanSegments_succ_slash _ _ _ hc]
            have h1 := chanSegments_len f (takeWhileC isIdChar cs').2
            have h2 := takeWhileC_len isIdChar cs'
            simp only [List.length_cons]
            omega
          · simp [chanSegments, hc]
        · rw [chanSegments_stop _ _ (by simpa using hx)]
          simp

theorem scanString_len (rest0 s r : List Char) (h : scanString rest0 ['"'] = some (s, r)) : r.length ≤ rest0.length := by
  obtain ⟨body, hb, _, _⟩ := scanString_self _ _ _ _ h
  rw [hb]; simp

theorem scanNumber_len (c : Char) (rest0 n r : List Char) (h : scanNumber (c :: rest0) = some (n, r)) : r.length ≤ rest0.length := by
  obtain ⟨hcs, hself⟩ := scanNumber_self _ _ _ h
  cases n with
  | nil => exact absurd hself (by decide)
  | cons x xs =>
    simp only [List.cons_append, List.cons.injEq] at hcs
    rw [hcs.2]; simp

/-- **the scanner is local**: a text that is scanned successfully is scanned to the same tokens when anything beginning with a
    white-space character follows it; the scanner then continues on what follows with the brace depth it reached -/
theorem scan_append : ∀ (f : Nat) (cs : List Char) (d : Nat) (g aw : Bool) (acc ts : List Tok),
    scan f cs d g aw acc = .ok ts → ∀ rest, WsStart rest →
    ∃ (k d' : Nat) (g' aw' : Bool) (new : List Tok), k ≤ cs.length ∧ ts = acc.reverse ++ new ∧ d' = tokDepth new d ∧
      ∀ f2, scan (f2 + k) (cs ++ rest) d g aw acc = scan f2 rest d' g' aw' ts.reverse
  | 0, cs, d, g, aw, acc, ts, h, _, _ => by
      have : scan 0 cs d g aw acc = .error .unexpectedChar := rfl
      rw [this] at h; cases h
  | f + 1, cs, d, g, aw, acc, ts, h, rest, hr => by
      cases cs with
      | nil =>
        rw [scan_succ] at h
        simp only [Except.ok.injEq] at h
        subst h
        exact ⟨0, d, g, aw, [], Nat.le_refl _, by simp, rfl, fun f2 => by simp⟩
      | cons c rest0 =>
        have fin : ∀ (toks : List Tok) (cs' : List Char) (d1 : Nat) (g1 aw1 : Bool), scan f cs' d1 g1 aw1 (toks ++ acc) = .ok ts →
            d1 = tokDepth toks.reverse d → cs'.length ≤ rest0.length →
            (∀ n, scan (n + 1) (c :: (rest0 ++ rest)) d g aw acc = scan n (cs' ++ rest) d1 g1 aw1 (toks ++ acc)) →
            ∃ (k d' : Nat) (g' aw' : Bool) (new : List Tok), k ≤ (c :: rest0).length ∧ ts = acc.reverse ++ new ∧ d' = tokDepth new d ∧
              ∀ f2, scan (f2 + k) ((c :: rest0) ++ rest) d g aw acc = scan f2 rest d' g' aw' ts.reverse := by
          intro toks cs' d1 g1 aw1 h' hd hlen heq
          obtain ⟨k, d', g', aw', new', hkl, hts, hd', hk⟩ := scan_append f cs' d1 g1 aw1 (toks ++ acc) ts h' rest hr
          refine ⟨k + 1, d', g', aw', toks.reverse ++ new', by simp only [List.length_cons]; omega, by simp [hts],
            by rw [tokDepth_append, ← hd]; exact hd', fun f2 => ?_⟩
          rw [show f2 + (k + 1) = (f2 + k) + 1 from rfl, List.cons_append, heq, hk]
        have nons : ∀ (k : TokKind) (txt : String), (k == .sym) = false → d = tokDepth [(⟨k, txt, g, aw⟩ : Tok)].reverse d :=
          fun k txt hk => (tokStep_nonsym (t := ⟨k, txt, g, aw⟩) hk d).symm
        have key : ∀ n, scan (n + 1) (c :: (rest0 ++ rest)) d g aw acc = _ := fun n => scan_succ' n c (rest0 ++ rest) d g aw acc
        rw [scan_succ'] at h
        simp only [idNext_local rest0 hr, alphaNext_local rest0 hr, numGuard_local c rest0 hr, twoSym_local c rest0 hr,
          takeWhileC_local isIdChar rest0 rest hr.notId, takeWhileC_local_cons isIdChar c rest0 hr.notId,
          chanSegments_local' _ hr, scanNumber_local_cons c rest0 hr] at key
        by_cases hws : isWs c = true
        · simp only [hws, if_true] at h key
          exact fin [] _ _ _ _ h rfl (Nat.le_refl _) key
        · simp only [hws, Bool.false_eq_true, if_false] at h key
          by_cases hat : (c == '@') = true
          · simp only [hat, if_true] at h key
            by_cases hid : idNext rest0 = true
            · simp only [hid, if_true] at h key
              exact fin [_] _ _ _ _ h (nons .var _ rfl) (takeWhileC_len _ _) key
            · simp only [hid, Bool.false_eq_true, if_false] at h; cases h
          · simp only [hat, Bool.false_eq_true, if_false] at h key
            by_cases hq : (c == '"') = true
            · simp only [hq, if_true] at h key
              cases hs : scanString rest0 ['"'] with
              | none => rw [hs] at h; cases h
              | some p =>
                obtain ⟨s, r⟩ := p
                rw [hs] at h
                simp only [scanString_local rest0 _ s r rest hs] at key
                exact fin [⟨.str, String.ofList s, g, aw⟩] _ _ _ _ h (nons .str _ rfl) (scanString_len _ _ _ hs) key
            · simp only [hq, Bool.false_eq_true, if_false] at h key
              by_cases hg : numGuard c rest0 = true
              · simp only [hg, if_true] at h key
                cases hn : scanNumber (c :: rest0) with
                | none => rw [hn] at h; cases h
                | some p =>
                  obtain ⟨nn, r⟩ := p
                  rw [hn] at h
                  simp only [hn, Option.map_some] at key
                  exact fin [⟨.num, String.ofList nn, g, aw⟩] _ _ _ _ h (nons .num _ rfl) (scanNumber_len _ _ _ _ hn) key
              · simp only [hg, Bool.false_eq_true, if_false] at h key
                by_cases hstart : isIdStart c = true
                · simp only [hstart, if_true] at h key
                  by_cases hch : (d == 0 && isAlphaA c) = true
                  · simp only [hch, if_true] at h key
                    exact fin [_] _ _ _ _ h (nons .word _ rfl)
                      (Nat.le_trans (chanSegments_len _ _) (takeWhileC_len_cons _ _ _ (idStart_idChar c hstart))) key
                  · simp only [hch, Bool.false_eq_true, if_false] at h key
                    exact fin [_] _ _ _ _ h (nons .word _ rfl) (takeWhileC_len_cons _ _ _ (idStart_idChar c hstart)) key
                · simp only [hstart, Bool.false_eq_true, if_false] at h key
                  by_cases hlead : (d == 0 && (c == '/' || c == '~')) = true
                  · simp only [hlead, if_true] at h key
                    by_cases han : alphaNext rest0 = true
                    · simp only [han, if_true] at h key
                      exact fin [_] _ _ _ _ h (nons .word _ rfl) (Nat.le_trans (chanSegments_len _ _) (takeWhileC_len _ _)) key
                    · simp only [han, Bool.false_eq_true, if_false] at h; cases h
                  · simp only [hlead, Bool.false_eq_true, if_false] at h key
                    cases htwo : twoSym c rest0 with
                    | some t =>
                      rw [htwo] at h
                      simp only [htwo] at key
                      have hdrop : (rest0 ++ rest).drop 1 = rest0.drop 1 ++ rest := by
                        cases rest0 with
                        | nil => rw [twoSym_nil] at htwo; cases htwo
                        | cons _ _ => rfl
                      simp only [hdrop] at key
                      exact fin [⟨.sym, String.ofList t, g, aw⟩] _ _ _ _ h (tokStep_two htwo g aw d).symm (by simp) key
                    | none =>
                      rw [htwo] at h
                      simp only [htwo] at key
                      by_cases ho : (c == '{') = true
                      · simp only [ho, if_true] at h key
                        exact fin [⟨.sym, String.ofList [c], g, aw⟩] _ _ _ _ h (by
                          show d + 1 = tokStep d _; rw [tokStep_single]; simp only [ho, if_true]) (Nat.le_refl _) key
                      · simp only [ho, Bool.false_eq_true, if_false] at h key
                        by_cases hcl : (c == '}') = true
                        · simp only [hcl, if_true] at h key
                          exact fin [⟨.sym, String.ofList [c], g, aw⟩] _ _ _ _ h (by
                            show d - 1 = tokStep d _; rw [tokStep_single]; simp only [ho, hcl, Bool.false_eq_true, if_false, if_true]) (Nat.le_refl _) key
                        · simp only [hcl, Bool.false_eq_true, if_false] at h key
                          by_cases hp : ("()[],:.#=!<>+-*/".toList.contains c) = true
                          · simp only [hp, if_true] at h key
                            exact fin [⟨.sym, String.ofList [c], g, aw⟩] _ _ _ _ h (by
                              show d = tokStep d _; rw [tokStep_single]; simp only [ho, hcl, Bool.false_eq_true, if_false]) (Nat.le_refl _) key
                          · simp only [hp, Bool.false_eq_true, if_false] at h; cases h

/-- more fuel and older tokens below do not change a successful scan -/
theorem scan_more : ∀ (f : Nat) (cs : List Char) (d : Nat) (g aw : Bool) (acc ts : List Tok),
    scan f cs d g aw acc = .ok ts → ∀ (f' : Nat) (acc' : List Tok), f ≤ f' → scan f' cs d g aw (acc ++ acc') = .ok (acc'.reverse ++ ts)
  | 0, cs, d, g, aw, acc, ts, h, _, _, _ => by
      have : scan 0 cs d g aw acc = .error .unexpectedChar := rfl
      rw [this] at h; cases h
  | f + 1, cs, d, g, aw, acc, ts, h, f', acc', hf => by
      obtain ⟨f'', rfl⟩ : ∃ n, f' = n + 1 := ⟨f' - 1, by omega⟩
      cases cs with
      | nil =>
        rw [scan_succ] at h ⊢
        simp only [Except.ok.injEq] at h
        subst h
        simp
      | cons c rest0 =>
        have ih : ∀ (cs' : List Char) (d1 : Nat) (g1 aw1 : Bool) (acc1 : List Tok), scan f cs' d1 g1 aw1 acc1 = .ok ts →
            scan f'' cs' d1 g1 aw1 (acc1 ++ acc') = .ok (acc'.reverse ++ ts) :=
          fun cs' d1 g1 aw1 acc1 h' => scan_more f cs' d1 g1 aw1 acc1 ts h' f'' acc' (by omega)
        rw [scan_succ'] at h ⊢
        by_cases hws : isWs c = true
        · simp only [hws, if_true] at h ⊢; exact ih _ _ _ _ _ h
        · simp only [hws, Bool.false_eq_true, if_false] at h ⊢
          by_cases hat : (c == '@') = true
          · simp only [hat, if_true] at h ⊢
            by_cases hid : idNext rest0 = true
            · simp only [hid, if_true] at h ⊢; exact ih _ _ _ _ _ h
            · simp only [hid, Bool.false_eq_true, if_false] at h; cases h
          · simp only [hat, Bool.false_eq_true, if_false] at h ⊢
            by_cases hq : (c == '"') = true
            · simp only [hq, if_true] at h ⊢
              cases hs : scanString rest0 ['"'] with
              | none => rw [hs] at h; cases h
              | some p => obtain ⟨s, r⟩ := p; rw [hs] at h; exact ih _ _ _ _ _ h
            · simp only [hq, Bool.false_eq_true, if_false] at h ⊢
              by_cases hg : numGuard c rest0 = true
              · simp only [hg, if_true] at h ⊢
                cases hn : scanNumber (c :: rest0) with
                | none => rw [hn] at h; cases h
                | some p => obtain ⟨nn, r⟩ := p; rw [hn] at h; exact ih _ _ _ _ _ h
              · simp only [hg, Bool.false_eq_true, if_false] at h ⊢
                by_cases hstart : isIdStart c = true
                · simp only [hstart, if_true] at h ⊢
                  by_cases hch : (d == 0 && isAlphaA c) = true
                  · simp only [hch, if_true] at h ⊢; exact ih _ _ _ _ _ h
                  · simp only [hch, Bool.false_eq_true, if_false] at h ⊢; exact ih _ _ _ _ _ h
                · simp only [hstart, Bool.false_eq_true, if_false] at h ⊢
                  by_cases hlead : (d == 0 && (c == '/' || c == '~')) = true
                  · simp only [hlead, if_true] at h ⊢
                    by_cases han : alphaNext rest0 = true
                    · simp only [han, if_true] at h ⊢; exact ih _ _ _ _ _ h
                    · simp only [han, Bool.false_eq_true, if_false] at h; cases h
                  · simp only [hlead, Bool.false_eq_true, if_false] at h ⊢
                    cases htwo : twoSym c rest0 with
                    | some t => rw [htwo] at h; exact ih _ _ _ _ _ h
                    | none =>
                      rw [htwo] at h
                      simp only at h ⊢
                      by_cases ho : (c == '{') = true
                      · simp only [ho, if_true] at h ⊢; exact ih _ _ _ _ _ h
                      · simp only [ho, Bool.false_eq_true, if_false] at h ⊢
                        by_cases hcl : (c == '}') = true
                        · simp only [hcl, if_true] at h ⊢; exact ih _ _ _ _ _ h
                        · simp only [hcl, Bool.false_eq_true, if_false] at h ⊢
                          by_cases hp : ("()[],:.#=!<>+-*/".toList.contains c) = true
                          · simp only [hp, if_true] at h ⊢; exact ih _ _ _ _ _ h
                          · simp only [hp, Bool.false_eq_true, if_false] at h; cases h

/-- **texts separated by a white-space character are scanned one after the other**: the tokens of the first, then the tokens of
    the second scanned from the brace depth the first leaves -/
theorem scan_concat (s1 s2 : List Char) (w : Char) (hw : isWs w = true) (d : Nat) (ts1 ts2 : List Tok)
    (h1 : scan (s1.length + 1) s1 d false false [] = .ok ts1)
    (h2 : scan (s2.length + 1) s2 (tokDepth ts1 d) false false [] = .ok ts2) :
    scan ((s1 ++ w :: s2).length + 1) (s1 ++ w :: s2) d false false [] = .ok (ts1 ++ ts2) := by
  obtain ⟨k, d', g', aw', new, hk, hts, hd', hscan⟩ := scan_append _ _ _ _ _ _ _ h1 (w :: s2)
    (fun x hx => by simp only [List.head?_cons, Option.some.injEq] at hx; exact hx ▸ hw)
  simp only [List.reverse_nil, List.nil_append] at hts
  subst hts
  have hfuel : (s1 ++ w :: s2).length + 1 = (s2.length + 1 + 1) + k + (s1.length - k) := by
    simp only [List.length_append, List.length_cons]; omega
  -- first with exactly the fuel `scan_append` speaks about, then with the fuel of the whole text
  have hmain : scan ((s2.length + 1 + 1) + k) (s1 ++ w :: s2) d false false [] = .ok (ts1 ++ ts2) := by
    rw [hscan, scan_succ']
    simp only [hw, if_true]
    have := scan_more _ _ _ _ _ _ _ h2 (s2.length + 1) ts1.reverse (Nat.le_refl _)
    simpa [hd'] using this
  have := scan_more _ _ _ _ _ _ _ hmain ((s1 ++ w :: s2).length + 1) [] (by omega)
  simpa using this

/-- leading white space is skipped -/
theorem scan_skip_ws : ∀ (W : List Char), W.all isWs = true → ∀ (f : Nat) (cs : List Char) (d : Nat) (acc : List Tok),
    scan (f + W.length) (W ++ cs) d false false acc = scan f cs d false false acc
  | [], _, f, cs, d, acc => rfl
  | w :: W, hW, f, cs, d, acc => by
      simp only [List.all_cons, Bool.and_eq_true] at hW
      rw [show f + (w :: W).length = (f + W.length) + 1 by simp only [List.length_cons]; omega, List.cons_append, scan_succ']
      simp only [hW.1, if_true]
      exact scan_skip_ws W hW.2 f cs d acc

/-- **the amount and kind of white space between two texts does not matter**: any non-empty run of white-space characters between
    them gives the tokens of the first followed by the tokens of the second -/
theorem scan_ws_irrelevant (s1 s2 W : List Char) (hne : W ≠ []) (hW : W.all isWs = true) (d : Nat) (ts1 ts2 : List Tok)
    (h1 : scan (s1.length + 1) s1 d false false [] = .ok ts1)
    (h2 : scan (s2.length + 1) s2 (tokDepth ts1 d) false false [] = .ok ts2) :
    scan ((s1 ++ W ++ s2).length + 1) (s1 ++ W ++ s2) d false false [] = .ok (ts1 ++ ts2) := by
  cases W with
  | nil => exact absurd rfl hne
  | cons w W' =>
    simp only [List.all_cons, Bool.and_eq_true] at hW
    have h2' : scan ((W' ++ s2).length + 1) (W' ++ s2) (tokDepth ts1 d) false false [] = .ok ts2 := by
      rw [show (W' ++ s2).length + 1 = (s2.length + 1) + W'.length by simp only [List.length_append]; omega,
        scan_skip_ws W' hW.2]
      exact h2
    have := scan_concat s1 (W' ++ s2) w hW.1 d ts1 ts2 h1 h2'
    simpa [List.append_assoc] using this

/-- … so two layouts of the same two texts are scanned alike -/
theorem layout_irrelevant (s1 s2 W W' : List Char) (hne : W ≠ []) (hne' : W' ≠ []) (hW : W.all isWs = true) (hW' : W'.all isWs = true)
    (d : Nat) (ts1 ts2 : List Tok) (h1 : scan (s1.length + 1) s1 d false false [] = .ok ts1)
    (h2 : scan (s2.length + 1) s2 (tokDepth ts1 d) false false [] = .ok ts2) :
    scan ((s1 ++ W ++ s2).length + 1) (s1 ++ W ++ s2) d false false [] =
    scan ((s1 ++ W' ++ s2).length + 1) (s1 ++ W' ++ s2) d false false [] := by
  rw [scan_ws_irrelevant s1 s2 W hne hW d ts1 ts2 h1 h2, scan_ws_irrelevant s1 s2 W' hne' hW' d ts1 ts2 h1 h2]

/-- the texts of a file, one per line -/
def joinLines : List (List Char) → List Char
  | [] => []
  | [a] => a
  | a :: b :: rest => a ++ '\n' :: joinLines (b :: rest)

/-- **scanner, file level**: texts each of which is scanned on its own at depth 0 and closes the braces it opens are scanned, one
    per line, to the concatenation of their token sequences -/
theorem scan_lines : ∀ (parts : List (List Char × List Tok)), parts ≠ [] →
    (∀ p ∈ parts, scan (p.1.length + 1) p.1 0 false false [] = .ok p.2 ∧ tokDepth p.2 0 = 0) →
    scan ((joinLines (parts.map (·.1))).length + 1) (joinLines (parts.map (·.1))) 0 false false [] = .ok (parts.flatMap (·.2))
  | [], h, _ => absurd rfl h
  | [p], _, hp => by
      simpa [joinLines] using (hp p (List.mem_singleton.mpr rfl)).1
  | p :: q :: rest, _, hp => by
      have h1 := hp p (List.mem_cons_self ..)
      have ih := scan_lines (q :: rest) (by simp) (fun x hx => hp x (List.mem_cons_of_mem _ hx))
      have := scan_concat p.1 (joinLines ((q :: rest).map (·.1))) '\n' (by decide) 0 p.2 _ h1.1 (by rw [h1.2]; exact ih)
      simpa [joinLines] using this

theorem lex_eq (s : String) : lex s = scan (s.toList.length + 1) s.toList 0 false false [] := rfl

/-- **C18 on texts**: property texts that are scanned and parsed on their own, and close the braces they open, written one per
    line, make a file that parses to exactly their properties, in order (and fails exactly with the first member whose
    construction fails); each member is what `parse_property` returns for its own text. -/
theorem parseSpecification_lines (parts : List (String × List Tok × RawProperty)) (hne : parts ≠ [])
    (h : ∀ p ∈ parts, lex p.1 = .ok p.2.1 ∧ tokDepth p.2.1 0 = 0 ∧ parsePropertyToks p.2.1 = .ok p.2.2) :
    parseSpecification (String.ofList (joinLines (parts.map (·.1.toList)))) = (parts.map (·.2.2)).mapM buildProperty ∧
    ∀ p ∈ parts, parseProperty p.1 = buildProperty p.2.2 := by
  constructor
  · let sp : List (List Char × List Tok) := parts.map (fun p => (p.1.toList, p.2.1))
    have hsp : ∀ q ∈ sp, scan (q.1.length + 1) q.1 0 false false [] = .ok q.2 ∧ tokDepth q.2 0 = 0 := by
      intro q hq
      simp only [sp, List.mem_map] at hq
      obtain ⟨p, hp, rfl⟩ := hq
      exact ⟨by rw [← lex_eq]; exact (h p hp).1, (h p hp).2.1⟩
    have hscan := scan_lines sp (by simpa [sp] using hne) hsp
    have hmap : sp.map (·.1) = parts.map (·.1.toList) := by simp [sp]
    rw [hmap] at hscan
    let chunks : List (List Tok × RawProperty) := parts.map (fun p => (p.2.1, p.2.2))
    have hflat : sp.flatMap (·.2) = fileToks chunks := by
      simp only [sp, chunks, fileToks, List.flatMap_map]
    have hl : lex (String.ofList (joinLines (parts.map (·.1.toList)))) = .ok (fileToks chunks) := by
      rw [lex_eq, String.toList_ofList, hscan, hflat]
    have := parseSpecification_concat _ _ chunks hl rfl (by
      intro c hc
      simp only [chunks, List.mem_map] at hc
      obtain ⟨p, hp, rfl⟩ := hc
      exact (h p hp).2.2) (by simpa [chunks] using hne)
    have hmap2 : chunks.map (·.2) = parts.map (·.2.2) := by simp [chunks, List.map_map, Function.comp_def]
    rw [hmap2] at this
    exact this
  · intro p hp
    exact parseProperty_of_toks p.1 p.2.1 (p.2.1, p.2.2) (h p hp).1 rfl (h p hp).2.2

end Hpl
