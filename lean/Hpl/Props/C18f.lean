import Hpl.Props.C18e
/-!
# C18 — a text that parses closes the braces it opens

`Balanced ts`: scanning past `ts` leaves the brace depth where it was.  Everything the grammar derives is balanced
(`renders_balanced`), hence every predicate, and so is what each property-level parser function consumes.  This discharges the
side condition of `parseSpecification_lines`: **`parseSpecification_of_texts`**.
-/
namespace Hpl

def Balanced (ts : List Tok) : Prop := ∀ d, tokDepth ts d = d

theorem Balanced.nil : Balanced [] := fun _ => rfl

theorem Balanced.append {a b : List Tok} (ha : Balanced a) (hb : Balanced b) : Balanced (a ++ b) := by
  intro d; rw [tokDepth_append, ha, hb]

/-- a token that is not a brace -/
def NotBrace (t : Tok) : Prop := isSym t "{" = false ∧ isSym t "}" = false

theorem Balanced.single {t : Tok} (h : NotBrace t) : Balanced [t] := by
  intro d; simp [tokDepth, tokStep, h.1, h.2]

theorem Balanced.cons {t : Tok} {ts : List Tok} (h : NotBrace t) (hts : Balanced ts) : Balanced (t :: ts) :=
  (Balanced.single h).append hts

theorem Balanced.snoc {t : Tok} {ts : List Tok} (hts : Balanced ts) (h : NotBrace t) : Balanced (ts ++ [t]) :=
  hts.append (Balanced.single h)

theorem Balanced.braces {o c : Tok} {mid : List Tok} (ho : isSym o "{" = true) (hc : isSym c "}" = true) (hm : Balanced mid) :
    Balanced (o :: (mid ++ [c])) := by
  intro d
  have hco : isSym c "{" = false := isSym_other hc (by decide)
  simp only [tokDepth, List.foldl_cons, List.foldl_append, List.foldl_nil, tokStep, ho, if_true]
  have := hm (d + 1)
  simp only [tokDepth] at this
  rw [this]
  simp [hco, hc]

theorem notBrace_kw {t : Tok} {w : String} (h : isKw t w = true) : NotBrace t := ⟨isSym_of_kw h, isSym_of_kw h⟩

theorem notBrace_sym {t : Tok} {w : String} (h : isSym t w = true) (h1 : w ≠ "{") (h2 : w ≠ "}") : NotBrace t :=
  ⟨isSym_other h h1, isSym_other h h2⟩

theorem notBrace_kind {t : Tok} (h : t.kind ≠ .sym) : NotBrace t := ⟨notSym_of_kind h _, notSym_of_kind h _⟩

theorem notBrace_opTest {k : Nat} {t : Tok} (h : opTest k t = true) : NotBrace t := by
  unfold opTest at h
  split at h
  · simp only [Bool.or_eq_true] at h; rcases h with h | h <;> exact notBrace_kw h
  · exact notBrace_kw h
  · exact notBrace_kw h
  · simp only [Bool.or_eq_true] at h; rcases h with h | h <;> exact notBrace_sym h (by decide) (by decide)
  · simp only [Bool.or_eq_true] at h; rcases h with h | h <;> exact notBrace_sym h (by decide) (by decide)
  · exact notBrace_sym h (by decide) (by decide)
  · cases h

theorem notBrace_relTest {t : Tok} (h : relTest t = true) : NotBrace t := by
  simp only [relTest, Bool.or_eq_true, Bool.and_eq_true] at h
  rcases h with h | h
  · have hm := h.2
    have hk : t.kind = .sym := by simpa using h.1
    simp only [relOps, List.contains_cons, List.contains_nil, Bool.or_false, Bool.or_eq_true, beq_iff_eq] at hm
    constructor <;> (simp only [isSym, hk, beq_self_eq_true, Bool.true_and]; rcases hm with hm | hm | hm | hm | hm | hm <;> (rw [hm]; decide))
  · exact notBrace_kw h

/-- **whatever the grammar derives closes the braces it opens** -/
theorem renders_balanced {k : Nat} {e : Raw} {ts : List Tok} (h : Renders k e ts) : Balanced ts := by
  induction h with
  | up _ _ _ ih => exact ih
  | binL t _ ht _ _ iha ihb => exact iha.append (Balanced.cons (notBrace_opTest ht) ihb)
  | rel t ht _ _ iha ihb => exact iha.append (Balanced.cons (notBrace_relTest ht) ihb)
  | not t ht _ iha => exact Balanced.cons (notBrace_kw ht) iha
  | quant t v kin c ht hvk _ hkin hc _ _ ihd ihb =>
    have htk : NotBrace t := by
      simp only [Bool.or_eq_true] at ht
      rcases ht with h | h <;> exact notBrace_kw h
    exact Balanced.cons htk (Balanced.cons (notBrace_kind (by rw [hvk]; decide)) (Balanced.cons (notBrace_kw hkin)
      (ihd.append (Balanced.cons (notBrace_sym hc (by decide) (by decide)) ihb))))
  | neg t ht _ iha => exact Balanced.cons (notBrace_sym ht (by decide) (by decide)) iha
  | paren o c ho hc _ ih =>
    exact Balanced.cons (notBrace_sym ho (by decide) (by decide)) (ih.snoc (notBrace_sym hc (by decide) (by decide)))
  | str t hk => exact Balanced.single (notBrace_kind (by rw [hk]; decide))
  | num t v hk _ => exact Balanced.single (notBrace_kind (by rw [hk]; decide))
  | true_ t hk _ => exact Balanced.single (notBrace_kind (by rw [hk]; decide))
  | false_ t hk _ => exact Balanced.single (notBrace_kind (by rw [hk]; decide))
  | const t v hk _ _ => exact Balanced.single (notBrace_kind (by rw [hk]; decide))
  | call f o c hk _ ho hc _ iha =>
    exact Balanced.cons (notBrace_kind (by rw [hk]; decide)) (Balanced.cons (notBrace_sym ho (by decide) (by decide))
      (iha.snoc (notBrace_sym hc (by decide) (by decide))))
  | range o kto c ho hto hc _ _ ihl ihh =>
    have hob : NotBrace o := by
      simp only [Bool.or_eq_true] at ho
      rcases ho with h | h <;> exact notBrace_sym h (by decide) (by decide)
    have hcb : NotBrace c := by
      simp only [Bool.or_eq_true] at hc
      rcases hc with h | h <;> exact notBrace_sym h (by decide) (by decide)
    exact Balanced.cons hob (ihl.append (Balanced.cons (notBrace_kw hto) (ihh.snoc hcb)))
  | setOne _ ih => exact ih
  | setMore c hc _ _ ihs ihe => exact ihs.append (Balanced.cons (notBrace_sym hc (by decide) (by decide)) ihe)
  | set o c ho hc _ ihs => exact Balanced.braces ho hc ihs
  | var t hk => exact Balanced.single (notBrace_kind (by rw [hk]; decide))
  | own t hk _ => exact Balanced.single (notBrace_kind (by rw [hk]; decide))
  | field d n hd hk _ _ ih =>
    exact ih.append (Balanced.cons (notBrace_sym hd (by decide) (by decide)) (Balanced.single (notBrace_kind (by rw [hk]; decide))))
  | index o c ho hc _ _ iha ihi =>
    exact iha.append (Balanced.cons (notBrace_sym ho (by decide) (by decide)) (ihi.snoc (notBrace_sym hc (by decide) (by decide))))
  | ref _ ih => exact ih

/-- what a property-level parser function consumed closes the braces it opens -/
def BalP {α : Type} (p : List Tok → PR (α × List Tok)) : Prop :=
  ∀ ts r rest, p ts = .ok (r, rest) → ∃ pre, ts = pre ++ rest ∧ Balanced pre

theorem pPredicate_bal : BalP pPredicate := by
  intro ts r rest h
  obtain ⟨pre, hpre, hp⟩ := pPredicate_trunc ts r rest h
  refine ⟨pre, hpre, ?_⟩
  have : parsePredicateToks pre = .ok r := by simp [parsePredicateToks, hp, bind, Except.bind, pure, Except.pure]
  obtain ⟨o, mid, c, rfl, ho, hc, hr⟩ := parse_predicate_sound this
  exact Balanced.braces ho hc (renders_balanced hr)

theorem pEventBody_bal (name : String) (al : Option String) : BalP (pEventBody name al) := by
  intro ts r rest h
  unfold pEventBody at h
  cases ts with
  | nil => obtain ⟨rfl, rfl⟩ := ok_pair_inj h; exact ⟨[], rfl, Balanced.nil⟩
  | cons b y =>
    simp only at h
    split at h
    · obtain ⟨p, r', h1, h2⟩ := bind_ok_pair h
      obtain ⟨rfl, rfl⟩ := pure_pair_inj h2
      exact pPredicate_bal _ _ _ h1
    · obtain ⟨rfl, rfl⟩ := ok_pair_inj h
      exact ⟨[], rfl, Balanced.nil⟩

theorem pEvent_bal : BalP pEvent := by
  intro ts r rest h
  rw [pEvent_eq] at h
  unfold pEvent' at h
  cases ts with
  | nil => cases h
  | cons n r0 =>
    simp only at h
    split at h
    · rename_i hn
      have hnb : NotBrace n := notBrace_kind (by
        simp only [Bool.and_eq_true, beq_iff_eq] at hn; rw [hn.1]; decide)
      cases r0 with
      | nil =>
        obtain ⟨pre, hpre, hb⟩ := pEventBody_bal _ _ _ _ _ h
        exact ⟨n :: pre, by rw [hpre]; rfl, Balanced.cons hnb hb⟩
      | cons a r1 =>
        simp only at h
        split at h
        · rename_i ha
          cases r1 with
          | nil => cases h
          | cons v r2 =>
            simp only at h
            split at h
            · rename_i hv
              obtain ⟨pre, hpre, hb⟩ := pEventBody_bal _ _ _ _ _ h
              have hvb : NotBrace v := notBrace_kind (by
                simp only [Bool.and_eq_true, beq_iff_eq] at hv; rw [hv.1]; decide)
              exact ⟨n :: a :: v :: pre, by rw [hpre]; rfl, Balanced.cons hnb (Balanced.cons (notBrace_kw ha) (Balanced.cons hvb hb))⟩
            · cases h
        · obtain ⟨pre, hpre, hb⟩ := pEventBody_bal _ _ _ _ _ h
          exact ⟨n :: pre, by rw [hpre]; rfl, Balanced.cons hnb hb⟩
    · cases h

theorem pDisjTail_bal : ∀ (f : Nat) (acc : List RawSimple) (ts : List Tok) (r : RawEvent) (rest : List Tok),
    pDisjTail f acc ts = .ok (r, rest) → ∃ pre, ts = pre ++ rest ∧ Balanced pre
  | 0, _, _, _, _, h => by simp [pDisjTail, perr] at h
  | f + 1, acc, ts, r, rest, h => by
      simp only [pDisjTail] at h
      obtain ⟨e, ts1, h1, h2⟩ := bind_ok_pair h
      obtain ⟨pe, rfl, hpe⟩ := pEvent_bal ts e ts1 h1
      match ts1, h2 with
      | [], h2 => cases h2
      | t :: rest1, h2 =>
        simp only at h2
        split at h2
        · rename_i hor
          obtain ⟨pre1, rfl, hb1⟩ := pDisjTail_bal f (e :: acc) rest1 r rest h2
          exact ⟨pe ++ t :: pre1, by simp, hpe.append (Balanced.cons (notBrace_kw hor) hb1)⟩
        · split at h2
          · rename_i hcl
            split at h2
            · cases h2
            · obtain ⟨rfl, rfl⟩ := pure_pair_inj h2
              exact ⟨pe ++ [t], by simp, hpe.snoc (notBrace_sym hcl (by decide) (by decide))⟩
          · cases h2

theorem pAnyEvent_bal : BalP pAnyEvent := by
  intro ts r rest h
  unfold pAnyEvent at h
  cases ts with
  | nil => cases h
  | cons t r0 =>
    simp only at h
    split at h
    · rename_i hp
      obtain ⟨pre, rfl, hb⟩ := pDisjTail_bal _ _ _ _ _ h
      exact ⟨t :: pre, rfl, Balanced.cons (notBrace_sym hp (by decide) (by decide)) hb⟩
    · obtain ⟨e, r', h1, h2⟩ := bind_ok_pair h
      obtain ⟨rfl, rfl⟩ := pure_pair_inj h2
      exact pEvent_bal _ _ _ h1

theorem pTimeBound_bal : BalP pTimeBound := by
  intro ts r rest h
  unfold pTimeBound at h
  cases ts with
  | nil => obtain ⟨rfl, rfl⟩ := ok_pair_inj h; exact ⟨[], rfl, Balanced.nil⟩
  | cons w r0 =>
    simp only at h
    split at h
    · rename_i hw
      match r0, h with
      | [], h => cases h
      | [_], h => cases h
      | n :: u :: r2, h =>
        simp only at h
        split at h
        · rename_i hn
          have hnb : NotBrace n := notBrace_kind (by simp only [beq_iff_eq] at hn; rw [hn]; decide)
          cases hd : decimalValue n.text with
          | none => simp only [hd] at h; cases h
          | some v =>
            simp only [hd] at h
            have fin : ∀ (s : String), isWordS u s = true → rest = r2 →
                ∃ pre, w :: n :: u :: r2 = pre ++ rest ∧ Balanced pre := by
              intro s hu hr
              have hub : NotBrace u := notBrace_kind (by
                simp only [isWordS, Bool.and_eq_true, beq_iff_eq] at hu; rw [hu.1]; decide)
              exact ⟨[w, n, u], by rw [hr]; rfl, Balanced.cons (notBrace_kw hw) (Balanced.cons hnb (Balanced.single hub))⟩
            split at h
            · rename_i hu
              obtain ⟨_, rfl⟩ := ok_pair_inj h
              exact fin "ms" hu rfl
            · split at h
              · rename_i hu2
                obtain ⟨_, rfl⟩ := ok_pair_inj h
                exact fin "s" hu2 rfl
              · cases h
        · cases h
    · obtain ⟨rfl, rfl⟩ := ok_pair_inj h
      exact ⟨[], rfl, Balanced.nil⟩

theorem pEvTb_bal (mk : RawEvent → Option (Rat × TimeUnit) → RawProperty) : BalP (pEvTb mk) := by
  intro ts p rest h
  unfold pEvTb at h
  obtain ⟨b, r, h1, h2⟩ := bind_ok_pair h
  obtain ⟨tb, r', h3, h4⟩ := bind_ok_pair h2
  obtain ⟨rfl, rfl⟩ := pure_pair_inj h4
  obtain ⟨pb, rfl, hb⟩ := pAnyEvent_bal ts b r h1
  obtain ⟨pt, rfl, ht⟩ := pTimeBound_bal r tb r' h3
  exact ⟨pb ++ pt, by simp, hb.append ht⟩

theorem pPattern_bal (sk : ScopeKind) (act term : Option RawEvent) (md : List (String × String)) : BalP (pPattern sk act term md) := by
  intro ts p rest h
  unfold pPattern at h
  cases ts with
  | nil => cases h
  | cons t r0 =>
    simp only at h
    split at h
    · rename_i h1
      obtain ⟨pre, rfl, hb⟩ := pEvTb_bal (fun b tb => ⟨sk, act, term, .existence, b, none, tb, md⟩) r0 p rest h
      exact ⟨t :: pre, rfl, Balanced.cons (notBrace_kw h1) hb⟩
    · split at h
      · rename_i h2
        obtain ⟨pre, rfl, hb⟩ := pEvTb_bal (fun b tb => ⟨sk, act, term, .absence, b, none, tb, md⟩) r0 p rest h
        exact ⟨t :: pre, rfl, Balanced.cons (notBrace_kw h2) hb⟩
      · obtain ⟨e1, r, ha, hk⟩ := bind_ok_pair h
        obtain ⟨p1, hp1, hb1⟩ := pAnyEvent_bal _ _ _ ha
        match r, hp1, hk with
        | [], _, hk => cases hk
        | k :: r2, hp1, hk =>
          simp only at hk
          have fin : ∀ (w : String) (mk : RawEvent → Option (Rat × TimeUnit) → RawProperty), isKw k w = true →
              pEvTb mk r2 = .ok (p, rest) → ∃ pre, t :: r0 = pre ++ rest ∧ Balanced pre := by
            intro w mk hw hev
            obtain ⟨pre2, rfl, hb2⟩ := pEvTb_bal mk _ _ _ hev
            exact ⟨p1 ++ k :: pre2, by rw [hp1]; simp, hb1.append (Balanced.cons (notBrace_kw hw) hb2)⟩
          split at hk
          · rename_i hc; exact fin "causes" (fun e2 tb => ⟨sk, act, term, .response, e2, some e1, tb, md⟩) hc hk
          · split at hk
            · rename_i hc; exact fin "forbids" (fun e2 tb => ⟨sk, act, term, .prevention, e2, some e1, tb, md⟩) hc hk
            · split at hk
              · rename_i hc; exact fin "requires" (fun e2 tb => ⟨sk, act, term, .requirement, e1, some e2, tb, md⟩) hc hk
              · cases hk

theorem pScope_bal (ts : List Tok) (sk : ScopeKind) (a q : Option RawEvent) (rest : List Tok)
    (h : pScope ts = .ok (sk, a, q, rest)) : ∃ pre, ts = pre ++ rest ∧ Balanced pre := by
  unfold pScope at h
  cases ts with
  | nil => cases h
  | cons t r0 =>
    simp only at h
    split at h
    · rename_i h1
      simp only [pure, Except.pure, Except.ok.injEq, Prod.mk.injEq] at h
      obtain ⟨_, _, _, rfl⟩ := h
      exact ⟨[t], rfl, Balanced.single (notBrace_kw h1)⟩
    · split at h
      · rename_i h2
        obtain ⟨e, r1, ha, hk⟩ := bind_ok_pair h
        obtain ⟨pa, rfl, hba⟩ := pAnyEvent_bal _ _ _ ha
        match r1, hk with
        | [], hk =>
          simp only [pure, Except.pure, Except.ok.injEq, Prod.mk.injEq] at hk
          obtain ⟨_, _, _, rfl⟩ := hk
          exact ⟨t :: pa, by simp, Balanced.cons (notBrace_kw h2) hba⟩
        | u :: r2, hk =>
          simp only at hk
          split at hk
          · rename_i hu
            obtain ⟨e2, r3, hb, hk2⟩ := bind_ok_pair hk
            simp only [pure, Except.pure, Except.ok.injEq, Prod.mk.injEq] at hk2
            obtain ⟨_, _, _, rfl⟩ := hk2
            obtain ⟨pq, rfl, hbq⟩ := pAnyEvent_bal _ _ _ hb
            exact ⟨t :: (pa ++ u :: pq), by simp, Balanced.cons (notBrace_kw h2) (hba.append (Balanced.cons (notBrace_kw hu) hbq))⟩
          · simp only [pure, Except.pure, Except.ok.injEq, Prod.mk.injEq] at hk
            obtain ⟨_, _, _, rfl⟩ := hk
            exact ⟨t :: pa, by simp, Balanced.cons (notBrace_kw h2) hba⟩
      · split at h
        · rename_i h3
          obtain ⟨e, r1, ha, hk⟩ := bind_ok_pair h
          simp only [pure, Except.pure, Except.ok.injEq, Prod.mk.injEq] at hk
          obtain ⟨_, _, _, rfl⟩ := hk
          obtain ⟨pa, rfl, hba⟩ := pAnyEvent_bal _ _ _ ha
          exact ⟨t :: pa, rfl, Balanced.cons (notBrace_kw h3) hba⟩
        · cases h

theorem pMetadata_bal : ∀ (f : Nat) (acc : List (String × String)) (ts : List Tok) (r : List (String × String)) (rest : List Tok),
    pMetadata f acc ts = .ok (r, rest) → ∃ pre, ts = pre ++ rest ∧ Balanced pre
  | 0, _, _, _, _, h => by simp [pMetadata, perr] at h
  | f + 1, acc, ts, r, rest, h => by
      match ts, h with
      | [], h =>
        simp only [pMetadata] at h
        obtain ⟨_, rfl⟩ := ok_pair_inj h
        exact ⟨[], rfl, Balanced.nil⟩
      | hd :: tl, h =>
        cases hh : isSym hd "#" with
        | false =>
          rw [pMetadata_nohash _ _ _ _ hh] at h
          obtain ⟨_, rfl⟩ := ok_pair_inj h
          exact ⟨[], rfl, Balanced.nil⟩
        | true =>
          match tl, h with
          | [], h => simp [pMetadata, hh, perr] at h
          | [_], h => simp [pMetadata, hh, perr] at h
          | [_, _], h => simp [pMetadata, hh, perr] at h
          | k :: c :: v :: r0, h =>
            simp only [pMetadata, hh, if_true] at h
            split at h
            · rename_i hc
              have step : ∀ (acc' : List (String × String)), isWordS k "id" = true ∨ isWordS k "title" = true ∨ isWordS k "description" = true →
                  (v.kind = .word ∨ v.kind = .str) → pMetadata f acc' r0 = .ok (r, rest) →
                  ∃ pre, hd :: k :: c :: v :: r0 = pre ++ rest ∧ Balanced pre := by
                intro acc' hk hv h'
                obtain ⟨pre0, rfl, hb0⟩ := pMetadata_bal f acc' r0 r rest h'
                have hkb : NotBrace k := notBrace_kind (by
                  rcases hk with hk | hk | hk <;> (simp only [isWordS, Bool.and_eq_true, beq_iff_eq] at hk; rw [hk.1]; decide))
                have hvb : NotBrace v := notBrace_kind (by rcases hv with hv | hv <;> (rw [hv]; decide))
                exact ⟨hd :: k :: c :: v :: pre0, by simp,
                  Balanced.cons (notBrace_sym hh (by decide) (by decide)) (Balanced.cons hkb
                    (Balanced.cons (notBrace_sym hc (by decide) (by decide)) (Balanced.cons hvb hb0)))⟩
              split at h
              · rename_i h1
                simp only [Bool.and_eq_true, beq_iff_eq] at h1
                exact step _ (.inl h1.1.1) (.inl h1.1.2) h
              · split at h
                · rename_i h2
                  simp only [Bool.and_eq_true, beq_iff_eq] at h2
                  exact step _ (.inr (.inl h2.1)) (.inr h2.2) h
                · split at h
                  · rename_i h3
                    simp only [Bool.and_eq_true, beq_iff_eq] at h3
                    exact step _ (.inr (.inr h3.1)) (.inr h3.2) h
                  · cases h
            · cases h

theorem pProperty_bal : BalP pProperty := by
  intro ts p rest h
  unfold pProperty at h
  obtain ⟨md, r1, h1, h2⟩ := bind_ok_pair h
  dsimp only at h2
  cases hsc : pScope r1 with
  | error e => rw [hsc] at h2; cases h2
  | ok v =>
    obtain ⟨sk, act, term, r2⟩ := v
    rw [hsc] at h2
    simp only [bind, Except.bind] at h2
    match r2, hsc, h2 with
    | [], _, h2 => cases h2
    | c :: r3, hsc, h2 =>
      cases hc : isSym c ":" with
      | false => simp only [hc, Bool.not_false, if_true] at h2; cases h2
      | true =>
        simp only [hc, Bool.not_true, Bool.false_eq_true, if_false] at h2
        obtain ⟨pm, rfl, hbm⟩ := pMetadata_bal _ _ _ _ _ h1
        obtain ⟨ps, rfl, hbs⟩ := pScope_bal _ _ _ _ _ hsc
        obtain ⟨pp, rfl, hbp⟩ := pPattern_bal _ _ _ _ _ _ _ h2
        exact ⟨pm ++ (ps ++ c :: pp), by simp, hbm.append (hbs.append (Balanced.cons (notBrace_sym hc (by decide) (by decide)) hbp))⟩

/-- **a text that parses as a property closes the braces it opens** -/
theorem property_balanced {ts : List Tok} {p : RawProperty} (h : parsePropertyToks ts = .ok p) : tokDepth ts 0 = 0 := by
  obtain ⟨pre, hpre, hb⟩ := pProperty_bal ts p [] (parsePropertyToks_ok h)
  simp only [List.append_nil] at hpre
  subst hpre
  exact hb 0

/-- **C18 on texts**: property texts each of which `parse_property` reads on its own (scanner and parser), written one per line,
    make a file that `parse_specification` reads as exactly their properties, in order: the result is the list of the members'
    results (or the first member's construction error), and nothing of a member depends on its neighbours. -/
theorem parseSpecification_of_texts (parts : List (String × List Tok × RawProperty)) (hne : parts ≠ [])
    (h : ∀ p ∈ parts, lex p.1 = .ok p.2.1 ∧ parsePropertyToks p.2.1 = .ok p.2.2) :
    parseSpecification (String.ofList (joinLines (parts.map (·.1.toList)))) = (parts.map (·.2.2)).mapM buildProperty ∧
    ∀ p ∈ parts, parseProperty p.1 = buildProperty p.2.2 :=
  parseSpecification_lines parts hne (fun p hp => ⟨(h p hp).1, property_balanced (h p hp).2, (h p hp).2⟩)

end Hpl
