import Hpl.Model.Json
/-!
# C19 — the command-line tool's exit status and JSON output are faithful

Model: `cliMain` (`Hpl/Model/Json.lean`). The exit status is 0 exactly when the argument parses; a JSON document is
written exactly when `-o json` was given and the argument parses, and it is the field-for-field image of the AST:
every object carries exactly the attrs fields of its class, in declaration order (table G9, regenerated from the
classes on every run), enums are their values (table G8). The JSON value type has no non-finite numbers.
-/
namespace Hpl

/-- the argument parses (an inline property with `-p`, otherwise the text of a file that could be read) -/
def Parses (asProperty : Bool) (input : Option String) : Prop :=
  ∃ text, input = some text ∧
    if asProperty then (∃ p, parseProperty text = .ok p) else (∃ ps, parseSpecification text = .ok ps)

/-- **C19**: exit status 0 iff the argument parses -/
theorem cli_exit_zero_iff (asProperty wantJson : Bool) (input : Option String) :
    (cliMain asProperty wantJson input).exit = 0 ↔ Parses asProperty input := by
  unfold cliMain Parses
  cases input with
  | none => simp
  | some text =>
    simp only [Option.some.injEq, exists_eq_left']
    cases asProperty with
    | true =>
      simp only [↓reduceIte]
      cases h : parseProperty text with
      | ok p => simp [Except.map]
      | error e => simp [Except.map]
    | false =>
      simp only [Bool.false_eq_true, ↓reduceIte]
      cases h : parseSpecification text with
      | ok p => simp [Except.map]
      | error e => simp [Except.map]

/-- the exit status is 0 or 1 -/
theorem cli_exit_01 (asProperty wantJson : Bool) (input : Option String) :
    (cliMain asProperty wantJson input).exit = 0 ∨ (cliMain asProperty wantJson input).exit = 1 := by
  unfold cliMain
  cases input with
  | none => simp
  | some text => simp only; split <;> simp

/-- **C19**: a JSON document is written iff `-o json` was given and the exit status is 0 (none otherwise) -/
theorem cli_json_iff (asProperty wantJson : Bool) (input : Option String) :
    (cliMain asProperty wantJson input).json.isSome = true ↔ wantJson = true ∧ (cliMain asProperty wantJson input).exit = 0 := by
  unfold cliMain
  cases input with
  | none => simp
  | some text =>
    simp only
    split
    · cases wantJson <;> simp
    · simp

/-- **C19**: the document is the image of the AST the parser returns -/
theorem cli_json_is_ast (wantJson : Bool) (text : String) :
    (∀ p, parseProperty text = .ok p → (cliMain true wantJson (some text)).json = if wantJson then some p.toJson else none) ∧
    (∀ ps, parseSpecification text = .ok ps → (cliMain false wantJson (some text)).json = if wantJson then some (specToJson ps) else none) := by
  constructor
  · intro p h; simp [cliMain, h, Except.map]
  · intro ps h; simp [cliMain, h, Except.map]

/-! ## field for field (tables G8, G9) -/

def fieldsOf (cls : String) : Option (List String) := (Gen.attrsFields.find? (·.1 == cls)).map (·.2)

def Expr.className : Expr → String
  | .lit .. => "HplLiteral" | .this _ => "HplThisMessage" | .var .. => "HplVarReference" | .set .. => "HplSet"
  | .range .. => "HplRange" | .quant .. => "HplQuantifier" | .un .. => "HplUnaryOperator" | .bin .. => "HplBinaryOperator"
  | .call .. => "HplFunctionCall" | .field .. => "HplFieldAccess" | .index .. => "HplArrayAccess"

/-- every expression node is an object with exactly the attrs fields of its class, in order -/
theorem expr_fields (e : Expr) : e.toJson.keys = fieldsOf e.className := by
  cases e <;> rfl

theorem pred_fields (p : Pred) : p.toJson.keys =
    fieldsOf (match p with | .expr _ => "HplPredicateExpression" | .vtrue => "HplVacuousTruth" | .vfalse => "HplContradiction") := by
  cases p <;> rfl

theorem event_fields (e : Event) : e.toJson.keys =
    fieldsOf (match e with | .simple .. => "HplSimpleEvent" | .disj .. => "HplEventDisjunction") := by
  cases e <;> rfl

theorem scope_fields (s : Scope) : s.toJson.keys = fieldsOf "HplScope" := rfl
theorem pattern_fields (p : Pattern) : p.toJson.keys = fieldsOf "HplPattern" := rfl
theorem property_fields (p : Property) : p.toJson.keys = fieldsOf "HplProperty" := rfl
theorem spec_fields (ps : List Property) : (specToJson ps).keys = fieldsOf "HplSpecification" := rfl
theorem undef_fields (d : UnDef) : d.toJson.keys = fieldsOf "UnaryOperatorDefinition" := rfl
theorem bindef_fields (d : BinDef) : d.toJson.keys = fieldsOf "BinaryOperatorDefinition" := rfl
theorem fundef_fields (d : FunDef) : d.toJson.keys = fieldsOf "FunctionDefinition" := rfl
theorem sig_fields (s : Sig) : s.toJson.keys = fieldsOf "FunctionSignature" := rfl

/-- enums are printed as the values the enum classes carry now: every member of the model's kinds has an entry in the regenerated
    table, the entries are the members exactly, and distinct members carry distinct values (so the printed number identifies the
    member); the numbering itself is not constrained -/
theorem G8_enum_values :
    (∀ k ∈ ScopeKind.all, (Gen.scopeTypeValues.lookup k.pyName).isSome = true) ∧ Gen.scopeTypeValues.length = ScopeKind.all.length ∧
    (Gen.scopeTypeValues.map (·.1)).Nodup ∧ (Gen.scopeTypeValues.map (·.2)).Nodup ∧
    (∀ k ∈ PatternKind.all, (Gen.patternTypeValues.lookup k.pyName).isSome = true) ∧ Gen.patternTypeValues.length = PatternKind.all.length ∧
    (Gen.patternTypeValues.map (·.1)).Nodup ∧ (Gen.patternTypeValues.map (·.2)).Nodup ∧
    Gen.eventTypeValues.map (·.1) = ["PUBLISH"] ∧
    (∀ p ∈ Gen.quantifierValues, p ∈ [(quantValue .all, quantValue .all), (quantValue .some, quantValue .some)]) ∧
    Gen.quantifierValues.length = 2 ∧ (Gen.quantifierValues.map (·.1)).Nodup := by decide

/-- the metadata of a property is printed key by key, in order -/
theorem property_metadata (p : Property) :
    ∃ rest, p.toJson = .obj (("metadata", .obj (p.metadata.map (fun kv => (kv.1, Json.str kv.2)))) :: rest) := ⟨_, rfl⟩

/-- non-finite literal values (INF, NAN) are printed as `null`, finite ones as themselves -/
theorem nonfinite_null (v : LitVal) : v.toJson = .null ↔ (v = .inf ∨ v = .ninf ∨ v = .nan) := by
  cases v <;> simp [LitVal.toJson]

/-- an unbounded pattern prints `max_time` as `null` -/
theorem unbounded_null (p : Pattern) (h : p.maxTime = none) :
    ∃ pre, p.toJson = .obj (pre ++ [("max_time", .null)]) := by
  refine ⟨[("metadata", emptyMeta), ("pattern_type", .int (patternTypeValue p.kind)), ("behaviour", p.behaviour.toJson),
           ("trigger", optEventJson p.trigger), ("min_time", .num p.minTime)], ?_⟩
  simp [Pattern.toJson, h]

end Hpl
