import Hpl.Model.DataType
/-!
# C20 — type-set narrowing is set intersection

Property theorems only (statements + proofs); the model is `Hpl.DataType.{cast,canBe,union}` in
`Hpl/Model/DataType.lean`, tied to `hpl.types.DataType` by the exhaustive 128×128 (quick) / 128³ (thorough)
correspondence stream of `harness/streams/c20.py`. The laws are proved for *every* natural-number mask
(width-independent), so they cover the seven-bit universe of the code and any extension of it.
-/
namespace Hpl
namespace DataType

/-! ## generated-table obligations (G1): re-checked against the values extracted from /repo on every run -/

/-- the seven base members are the seven distinct single-bit masks (in whatever order the enumeration assigns them) -/
theorem G1_base_members_are_bits :
    ([Gen.BOOL, Gen.NUMBER, Gen.STRING, Gen.ARRAY, Gen.RANGE, Gen.SET, Gen.MESSAGE].all (fun t => (List.range 7).any (fun i => t == 2 ^ i))) = true ∧
    [Gen.BOOL, Gen.NUMBER, Gen.STRING, Gen.ARRAY, Gen.RANGE, Gen.SET, Gen.MESSAGE].Nodup := by decide

/-- the derived members are the stated unions / the empty intersection -/
theorem G1_derived_members :
    Gen.PRIMITIVE = Gen.BOOL ||| Gen.NUMBER ||| Gen.STRING ∧ Gen.ITEM = Gen.PRIMITIVE ||| Gen.MESSAGE ∧
    Gen.COMPOUND = Gen.ARRAY ||| Gen.RANGE ||| Gen.SET ∧ Gen.ANY = Gen.ITEM ||| Gen.COMPOUND ∧ Gen.NONE = 0 := by decide

/-- the exported tuples list base members only -/
theorem G1_exported_tuples :
    Gen.BASE_TYPES = [Gen.BOOL, Gen.NUMBER, Gen.STRING, Gen.ARRAY, Gen.SET, Gen.MESSAGE] ∧
    Gen.PRIMITIVE_TYPES = [Gen.BOOL, Gen.NUMBER, Gen.STRING] := by decide

/-! ## helper facts about membership -/

theorem zero_iff_no_mem (a : DataType) : a = 0 ↔ ∀ i, ¬ mem i a := by
  constructor
  · intro h i; simp [mem, h]
  · intro h; apply Nat.eq_of_testBit_eq; intro i
    have := h i; simp only [mem, Bool.not_eq_true] at this; simp [this]

theorem mem_and (i : Nat) (a b : DataType) : mem i (a &&& b) ↔ mem i a ∧ mem i b := by
  simp [mem, Nat.testBit_and]
theorem mem_or (i : Nat) (a b : DataType) : mem i (a ||| b) ↔ mem i a ∨ mem i b := by
  simp [mem, Nat.testBit_or]

theorem sub_iff (a b : DataType) : sub a b ↔ ∀ i, mem i a → mem i b := by
  unfold sub
  constructor
  · intro h i hi; rw [← h] at hi; exact ((mem_and i a b).1 hi).2
  · intro h; apply Nat.eq_of_testBit_eq; intro i
    rw [Nat.testBit_and]
    cases ha : a.testBit i with
    | false => simp
    | true => simp [show b.testBit i = true from h i ha]

/-! ## C20 -/

/-- narrowing succeeds exactly when the sets share a base type, and yields exactly the shared ones -/
theorem cast_ok_iff (a t c : DataType) : cast a t = .ok c ↔ c = a &&& t ∧ c ≠ 0 := by
  unfold cast; split
  · rename_i h; constructor
    · intro h'; cases h'
    · rintro ⟨rfl, hne⟩; exact absurd h hne
  · rename_i h; constructor
    · intro h'; cases h'; exact ⟨rfl, h⟩
    · rintro ⟨rfl, _⟩; rfl

/-- element-wise reading: the result contains base type `i` iff both arguments do -/
theorem cast_ok_mem {a t c : DataType} (h : cast a t = .ok c) (i : Nat) : mem i c ↔ mem i a ∧ mem i t := by
  obtain ⟨rfl, _⟩ := (cast_ok_iff a t c).1 h; exact mem_and i a t

/-- a type error is raised exactly when no base type is shared -/
theorem cast_err_iff (a t : DataType) : cast a t = .error .typeError ↔ ∀ i, ¬ (mem i a ∧ mem i t) := by
  unfold cast; split
  · rename_i h; simp only [true_iff]
    intro i hi; exact (zero_iff_no_mem _).1 h i ((mem_and i a t).2 hi)
  · rename_i h; simp only [reduceCtorEq, false_iff]
    intro hall; apply h; apply (zero_iff_no_mem _).2
    intro i hi; exact hall i ((mem_and i a t).1 hi)

theorem cast_total (a t : DataType) : (∃ c, cast a t = .ok c) ∨ cast a t = .error .typeError := by
  unfold cast; split <;> simp

theorem cast_idem (a : DataType) (h : a ≠ 0) : cast a a = .ok a := by
  simp [cast, Nat.and_self, h]

theorem cast_comm (a t : DataType) : cast a t = cast t a := by
  simp [cast, Nat.and_comm]

/-- associativity in the error monad -/
theorem cast_assoc (a t u : DataType) :
    (cast a t >>= fun c => cast c u) = (cast t u >>= fun c => cast a c) := by
  simp only [cast, bind, Except.bind]
  by_cases h1 : a &&& t = 0
  · have : a &&& (t &&& u) = 0 := by rw [← Nat.and_assoc, h1]; simp
    by_cases h2 : t &&& u = 0 <;> simp [h1, h2, this]
  · by_cases h2 : t &&& u = 0
    · have : a &&& t &&& u = 0 := by rw [Nat.and_assoc, h2]; simp
      simp [h1, h2, this]
    · simp [h1, h2, Nat.and_assoc]

theorem cast_sub_left {a t c : DataType} (h : cast a t = .ok c) : sub c a := by
  obtain ⟨rfl, _⟩ := (cast_ok_iff a t c).1 h
  unfold sub; rw [Nat.and_comm (a &&& t) a, ← Nat.and_assoc, Nat.and_self]
theorem cast_sub_right {a t c : DataType} (h : cast a t = .ok c) : sub c t := by
  rw [cast_comm] at h; exact cast_sub_left h

/-- narrowing twice by the same set changes nothing -/
theorem cast_cast {a t c : DataType} (h : cast a t = .ok c) : cast c t = .ok c := by
  obtain ⟨rfl, hne⟩ := (cast_ok_iff a t _).1 h
  have : a &&& t &&& t = a &&& t := by rw [Nat.and_assoc, Nat.and_self]
  simp [cast, this, hne]

/-- monotone in both arguments -/
theorem cast_mono {a a' t t' c : DataType} (ha : sub a a') (ht : sub t t') (h : cast a t = .ok c) :
    ∃ c', cast a' t' = .ok c' ∧ sub c c' := by
  obtain ⟨rfl, hne⟩ := (cast_ok_iff a t _).1 h
  have hsub : sub (a &&& t) (a' &&& t') := by
    rw [sub_iff] at *
    intro i hi
    have := (mem_and i a t).1 hi
    exact (mem_and i a' t').2 ⟨ha i this.1, ht i this.2⟩
  refine ⟨a' &&& t', ?_, hsub⟩
  apply (cast_ok_iff _ _ _).2 ⟨rfl, ?_⟩
  intro h0
  apply hne
  unfold sub at hsub; rw [h0] at hsub; simpa using hsub.symm

/-- `can_be` is non-empty intersection -/
theorem canBe_iff (a t : DataType) : canBe a t = true ↔ ∃ i, mem i a ∧ mem i t := by
  unfold canBe
  simp only [bne_iff_ne, ne_eq]
  constructor
  · intro h
    apply Classical.byContradiction; intro hn
    apply h; apply (zero_iff_no_mem _).2
    intro i hi; exact hn ⟨i, (mem_and i a t).1 hi⟩
  · rintro ⟨i, hi⟩ h0
    exact (zero_iff_no_mem _).1 h0 i ((mem_and i a t).2 hi)

theorem canBe_iff_cast_ok (a t : DataType) : canBe a t = true ↔ ∃ c, cast a t = .ok c := by
  unfold canBe cast; split <;> simp_all

theorem foldl_or_mem (i : Nat) (ts : List DataType) (acc : DataType) :
    mem i (ts.foldl (· ||| ·) acc) ↔ mem i acc ∨ ∃ t ∈ ts, mem i t := by
  induction ts generalizing acc with
  | nil => simp
  | cons t ts ih => simp [ih, mem_or, or_assoc]

/-- `union` is the least upper bound -/
theorem mem_union (i : Nat) (ts : List DataType) : mem i (union ts) ↔ ∃ t ∈ ts, mem i t := by
  rw [union, foldl_or_mem]
  have : Gen.NONE = 0 := G1_derived_members.2.2.2.2
  simp [this, mem]
theorem union_upper (ts : List DataType) (t : DataType) (h : t ∈ ts) : sub t (union ts) := by
  rw [sub_iff]; intro i hi; exact (mem_union i ts).2 ⟨t, h, hi⟩
theorem union_least (ts : List DataType) (u : DataType) (h : ∀ t ∈ ts, sub t u) : sub (union ts) u := by
  rw [sub_iff]; intro i hi
  obtain ⟨t, ht, hit⟩ := (mem_union i ts).1 hi
  exact (sub_iff t u).1 (h t ht) i hit

/-- closure: the universe of the code's type sets (masks below `ANY + 1`) is preserved -/
theorem cast_closed {a t c : DataType} (ha : a ≤ Gen.ANY) (h : cast a t = .ok c) : c ≤ Gen.ANY := by
  obtain ⟨rfl, _⟩ := (cast_ok_iff a t _).1 h
  exact Nat.le_trans Nat.and_le_left ha

-- non-vacuity: the hypotheses are met by concrete members of the generated table
example : cast Gen.PRIMITIVE (Gen.NUMBER ||| Gen.ARRAY) = .ok Gen.NUMBER := by rfl
example : cast Gen.BOOL Gen.NUMBER = .error .typeError := by rfl
example : canBe Gen.ITEM Gen.MESSAGE = true ∧ canBe Gen.COMPOUND Gen.PRIMITIVE = false := by decide
example : union [Gen.BOOL, Gen.STRING] = (Gen.BOOL ||| Gen.STRING) := by decide

end DataType
end Hpl
