import Hpl.Model.Canon
/-! The decomposition that property C11 describes, written as a specification: the product of the activator's
    alternatives with the split event's alternatives, activator-major, in source order, every other field copied. -/
namespace Hpl


/-- activator alternatives (only `after` / `after-until` scopes have an activator to split) -/
def scopeAlts (s : Scope) : List Scope :=
  match s.kind, s.activator with
  | .after, some a | .afterUntil, some a => a.simpleEvents.map fun e => { s with activator := some e }
  | _, _ => [s]

/-- replace the split event of a pattern -/
def withSplit (p : Pattern) (e : Event) : Pattern :=
  if p.kind.isSafety then { p with behaviour := e }
  else match p.kind with | .response => { p with trigger := some e } | _ => p

def patternAlts (p : Pattern) : List Pattern :=
  match splitEvent p with
  | some e => e.simpleEvents.map (withSplit p)
  | none => [p]

/-- the decomposition the property statement describes -/
def canonicalSpec (p : Property) : List Property :=
  (scopeAlts p.scope).flatMap fun s => (patternAlts p.pattern).map fun q => ({ p with scope := s, pattern := q } : Property)


end Hpl
