import Hpl.Model.Build
import Hpl.Spec.Typing
/-!
# Spec: definite type clashes (C05)

The *intrinsic* type of a term whose head determines it (literals, operator / function results, sets, ranges,
quantifiers; references have none), and an executable detector of a definite clash: an argument position that demands a
type disjoint from the intrinsic type of what stands there. `Props/C05` proves that whatever the detector flags is
rejected by `build`.
-/
namespace Hpl

def intrinsic : Raw → Option DataType
  | .lit _ v => some v.ty
  | .this => some T.MESSAGE
  | .var _ => none
  | .set _ => some T.SET
  | .range .. => some T.RANGE
  | .quant .. => some T.BOOL
  | .un op _ => (findUn op).map (·.res)
  | .bin op _ _ => (findBin op).map (·.res)
  | .call f _ => (findFun f).map (·.result)
  | .field .. | .index .. => none

/-- `r` has an intrinsic type and it is disjoint from `t` -/
def disjointFrom (r : Raw) (t : DataType) : Bool :=
  match intrinsic r with
  | some τ => τ &&& t == 0
  | none => false

def disjointFromL : RawList → DataType → Bool
  | .nil, _ => false
  | .cons r rs, t => disjointFrom r t || disjointFromL rs t

/-- an upper bound of the type `build` can give: the intrinsic type, or anything -/
def upper (r : Raw) : DataType := (intrinsic r).getD T.ANY
def uppers : RawList → List DataType
  | .nil => []
  | .cons r rs => upper r :: uppers rs

def rootClashB : Raw → Bool
  | .un op a => match findUn op with
      | some d => disjointFrom a d.param
      | none => false
  | .bin op a b => match findBin op with
      | some d => disjointFrom a d.p1 || disjointFrom b d.p2 ||
          (d.p1 &&& d.p2 != 0 && match intrinsic a, intrinsic b with
            | some τa, some τb => isBase τa && τa &&& τb == 0
            | _, _ => false)
      | none => false
  | .range lo hi _ _ => disjointFrom lo T.NUMBER || disjointFrom hi T.NUMBER
  | .quant _ _ d b => disjointFrom d T.COMPOUND || disjointFrom b T.BOOL
  | .field m _ => disjointFrom m T.MESSAGE
  | .index a i => disjointFrom a T.ARRAY || disjointFrom i T.NUMBER
  | .set vs => disjointFromL vs T.PRIMITIVE
  | .call f args => match findFun f with
      | some d => d.overloads.all (fun s => !s.accepts (uppers args))
      | none => false
  | _ => false

mutual
def hasClashB : Raw → Bool
  | r@(.set vs) => rootClashB r || hasClashLB vs
  | r@(.range lo hi _ _) => rootClashB r || hasClashB lo || hasClashB hi
  | r@(.quant _ _ d b) => rootClashB r || hasClashB d || hasClashB b
  | r@(.un _ a) => rootClashB r || hasClashB a
  | r@(.bin _ a b) => rootClashB r || hasClashB a || hasClashB b
  | r@(.call _ args) => rootClashB r || hasClashLB args
  | r@(.field m _) => rootClashB r || hasClashB m
  | r@(.index a i) => rootClashB r || hasClashB a || hasClashB i
  | _ => false
def hasClashLB : RawList → Bool
  | .nil => false
  | .cons e es => hasClashB e || hasClashLB es
end

end Hpl
