import Hpl.Model.Ast
import Hpl.Generated.Tables
/-! Reference (denotational) semantics of HPL expressions — the repository has no evaluator; this is the meaning
    the properties C08–C10, C13 are stated against (DESIGN §3). Exact arithmetic over ℚ; strict errors (evaluation fails
    if any evaluated subterm fails, no short-circuit; a quantifier over an empty domain evaluates nothing);
    dynamically typed valuations; interpreted and opaque built-in functions. -/
namespace Hpl

/-- primitive values; numbers are exact rationals or ±∞ (NaN is an evaluation error) -/
inductive Prim where
  | bool (b : Bool)
  | num (q : Rat)
  | pinf | ninf
  | str (s : String)
deriving DecidableEq, Repr, Inhabited

inductive Value where
  | prim (p : Prim)
  | arr (vs : List Value)
  | msg (fs : List (String × Value))
  | set (ps : List Prim)                          -- value of a set literal (a *set*: duplicates are irrelevant)
  | range (lo hi : Prim) (exLo exHi : Bool)       -- value of a range literal
deriving Inhabited

inductive EvErr where
  | type        -- dynamic kind mismatch
  | unbound     -- unknown variable / field / index
  | arith       -- division by zero, NaN, arithmetic on ±∞, non-integer exponent, 0 ** negative
  | domain      -- a range with non-integer or infinite bounds used as a collection
  | opaque      -- an uninterpreted function refused its arguments
deriving DecidableEq, Repr, Inhabited

abbrev EM := Except EvErr

structure Env where
  this : Value
  vars : List (String × Value)
deriving Inhabited

def Env.bind (ρ : Env) (x : String) (v : Value) : Env := { ρ with vars := (x, v) :: ρ.vars }

/-- uninterpreted deterministic functions (sqrt, sin, …, str, roll, pitch, yaw) -/
abbrev Opaque := String → List Value → EM Value

def Value.bool (b : Bool) : Value := .prim (.bool b)
def Value.num (q : Rat) : Value := .prim (.num q)

def asBool : Value → EM Bool
  | .prim (.bool b) => .ok b
  | _ => .error .type
def asPrim : Value → EM Prim
  | .prim p => .ok p
  | _ => .error .type
/-- a finite number -/
def asNum : Value → EM Rat
  | .prim (.num q) => .ok q
  | .prim .pinf | .prim .ninf => .error .arith
  | _ => .error .type

def Prim.isNumeric : Prim → Bool
  | .num _ | .pinf | .ninf => true
  | _ => false

/-- order on the extended numbers -/
def Prim.lt : Prim → Prim → EM Bool
  | .num a, .num b => .ok (a < b)
  | .ninf, .ninf => .ok false | .ninf, .num _ => .ok true | .ninf, .pinf => .ok true
  | .num _, .pinf => .ok true | .num _, .ninf => .ok false
  | .pinf, .num _ => .ok false | .pinf, .ninf => .ok false | .pinf, .pinf => .ok false
  | _, _ => .error .type

/-- booleans, numbers (with the infinities), strings: values of different kinds are not comparable -/
def Prim.kind : Prim → Nat
  | .bool _ => 0
  | .str _ => 2
  | _ => 1

def sameKinds : List Prim → Bool
  | [] => true
  | p :: ps => ps.all (fun q => q.kind == p.kind)

/-- `=` needs operands of the same kind -/
def Prim.eq : Prim → Prim → EM Bool
  | .bool a, .bool b => .ok (a == b)
  | .str a, .str b => .ok (a == b)
  | a, b => if a.isNumeric && b.isNumeric then .ok (a == b) else .error .type

/-- integer powers; exponents beyond ±4096 are treated as arithmetic errors (the executable evaluator must terminate in
    reasonable time and memory; no rule of the simplifier produces or relies on such an exponent) -/
def ratPow (q : Rat) : Int → EM Rat
  | .ofNat n => if n > 4096 then .error .arith else .ok (q ^ n)
  | .negSucc n => if q = 0 || n > 4096 then .error .arith else .ok ((q ^ (n + 1))⁻¹)

def isInt (q : Rat) : Bool := q.den == 1

/-- integers of a range literal with integer bounds -/
def rangeInts (lo hi : Prim) (exLo exHi : Bool) : EM (List Int) :=
  match lo, hi with
  | .num a, .num b =>
      if isInt a && isInt b then
        let l := a.num + (if exLo then 1 else 0)
        let h := b.num - (if exHi then 1 else 0)
        .ok ((List.range (h - l + 1).toNat).map (fun (i : Nat) => l + Int.ofNat i))
      else .error .domain
  | _, _ => if lo.isNumeric && hi.isNumeric then .error .domain else .error .type

/-- the elements a collection ranges over (quantifier domains, `len`, aggregates, `in` on arrays/sets) -/
def elems : Value → EM (List Value)
  | .arr vs => .ok vs
  | .set ps => .ok (ps.eraseDups.map Value.prim)
  | .range lo hi a b => do let is ← rangeInts lo hi a b; pure (is.map (fun (i : Int) => Value.num (Rat.ofInt i)))
  | _ => .error .type

/-- membership: arrays and sets by value equality (same kind required), ranges by bounds -/
def memOf (x : Prim) : Value → EM Bool
  | .arr vs => do
      let ps ← vs.mapM asPrim
      let bs ← ps.mapM (Prim.eq x)
      pure (bs.any id)
  | .set ps => do let bs ← ps.mapM (Prim.eq x); pure (bs.any id)
  | .range lo hi exLo exHi => do
      let a ← (if exLo then Prim.lt lo x else do let b ← Prim.lt x lo; pure (!b))
      let b ← (if exHi then Prim.lt x hi else do let b ← Prim.lt hi x; pure (!b))
      pure (a && b)
  | _ => .error .type

def numsOf (v : Value) : EM (List Rat) := do let es ← elems v; es.mapM asNum

def listMax : List Rat → EM Rat
  | [] => .error .arith
  | x :: xs => .ok (xs.foldl (fun a b => if a < b then b else a) x)
def listMin : List Rat → EM Rat
  | [] => .error .arith
  | x :: xs => .ok (xs.foldl (fun a b => if b < a then b else a) x)

/-- truncation toward zero (`int(x)`) -/
def truncRat (q : Rat) : Int := if 0 ≤ q then q.floor else q.ceil

/-- interpreted built-in functions; everything else goes to `opaque` -/
def applyFun (opq : Opaque) (f : String) (args : List Value) : EM Value :=
  match f, args with
  | "abs", [a] => do let q ← asNum a; pure (Value.num (if q < 0 then -q else q))
  | "len", [a] => do let es ← elems a; pure (Value.num (es.length : Nat))
  | "sum", [a] => do let qs ← numsOf a; pure (Value.num (qs.foldl (· + ·) 0))
  | "prod", [a] => do let qs ← numsOf a; pure (Value.num (qs.foldl (· * ·) 1))
  | "max", [a] => do let qs ← numsOf a; let m ← listMax qs; pure (Value.num m)
  | "min", [a] => do let qs ← numsOf a; let m ← listMin qs; pure (Value.num m)
  | "max", a :: b :: rest => do let qs ← (a :: b :: rest).mapM asNum; let m ← listMax qs; pure (Value.num m)
  | "min", a :: b :: rest => do let qs ← (a :: b :: rest).mapM asNum; let m ← listMin qs; pure (Value.num m)
  | "ceil", [a] => do let q ← asNum a; pure (Value.num (q.ceil : Int))
  | "floor", [a] => do let q ← asNum a; pure (Value.num (q.floor : Int))
  | "int", [.prim (.num q)] => .ok (Value.num (truncRat q : Int))
  | "int", [.prim (.bool b)] => .ok (Value.num (if b then 1 else 0))
  | "float", [.prim (.num q)] => .ok (Value.num q)
  | "float", [.prim (.bool b)] => .ok (Value.num (if b then 1 else 0))
  | "bool", [.prim (.bool b)] => .ok (Value.bool b)
  | "bool", [.prim (.num q)] => .ok (Value.bool (q != 0))
  | "bool", [.prim .pinf] => .ok (Value.bool true)
  | "bool", [.prim .ninf] => .ok (Value.bool true)
  | f, args => opq f args

def unOp (op : String) (v : Value) : EM Value :=
  if op == Gen.NOT_OPERATOR then do let b ← asBool v; pure (Value.bool (!b))
  else if op == "-" then do let q ← asNum v; pure (Value.num (-q))
  else .error .type

def binOp (op : String) (a b : Value) : EM Value :=
  if op == Gen.AND_OPERATOR then do let x ← asBool a; let y ← asBool b; pure (Value.bool (x && y))
  else if op == Gen.OR_OPERATOR then do let x ← asBool a; let y ← asBool b; pure (Value.bool (x || y))
  else if op == Gen.IMPLIES_OPERATOR then do let x ← asBool a; let y ← asBool b; pure (Value.bool (!x || y))
  else if op == Gen.IFF_OPERATOR then do let x ← asBool a; let y ← asBool b; pure (Value.bool (x == y))
  else if op == "=" then do let x ← asPrim a; let y ← asPrim b; let r ← Prim.eq x y; pure (Value.bool r)
  else if op == "!=" then do let x ← asPrim a; let y ← asPrim b; let r ← Prim.eq x y; pure (Value.bool (!r))
  else if op == "<" then do let x ← asPrim a; let y ← asPrim b; let r ← Prim.lt x y; pure (Value.bool r)
  else if op == ">" then do let x ← asPrim a; let y ← asPrim b; let r ← Prim.lt y x; pure (Value.bool r)
  else if op == "<=" then do let x ← asPrim a; let y ← asPrim b; let r ← Prim.lt y x; pure (Value.bool (!r))
  else if op == ">=" then do let x ← asPrim a; let y ← asPrim b; let r ← Prim.lt x y; pure (Value.bool (!r))
  else if op == "+" then do let x ← asNum a; let y ← asNum b; pure (Value.num (x + y))
  else if op == "-" then do let x ← asNum a; let y ← asNum b; pure (Value.num (x - y))
  else if op == "*" then do let x ← asNum a; let y ← asNum b; pure (Value.num (x * y))
  else if op == "/" then do
    let x ← asNum a; let y ← asNum b
    if y = 0 then .error .arith else pure (Value.num (x / y))
  else if op == "**" then do
    let x ← asNum a; let y ← asNum b
    if isInt y then do let r ← ratPow x y.num; pure (Value.num r) else .error .arith
  else if op == Gen.IN_OPERATOR then do let x ← asPrim a; let r ← memOf x b; pure (Value.bool r)
  else .error .type

def litValue : LitVal → EM Value
  | .bool b => .ok (Value.bool b)
  | .int n => .ok (Value.num n)
  | .flt q => .ok (Value.num q)
  | .inf => .ok (.prim .pinf)
  | .ninf => .ok (.prim .ninf)
  | .nan => .error .arith
  | .str s => .ok (.prim (.str s))

def lookupVar (ρ : Env) (x : String) : EM Value :=
  match ρ.vars.lookup x with
  | some v => .ok v
  | none => .error .unbound

def fieldOf (v : Value) (n : String) : EM Value :=
  match v with
  | .msg fs => match fs.lookup n with | some x => .ok x | none => .error .unbound
  | _ => .error .type

def indexOf (a i : Value) : EM Value :=
  match a with
  | .arr vs => do
      let q ← asNum i
      if isInt q && 0 ≤ q.num then
        match vs[q.num.toNat]? with | some v => pure v | none => .error .unbound
      else .error .unbound
  | _ => .error .type

/-- strict universal / existential over already evaluated body results -/
def quantResult (q : Quant) (bs : List Bool) : Bool :=
  match q with
  | .all => bs.all id
  | .some => bs.any id

mutual
def eval (opq : Opaque) (ρ : Env) : Expr → EM Value
  | .lit _ _ v => litValue v
  | .this _ => .ok ρ.this
  | .var _ x => lookupVar ρ x
  | .set _ vs => do
      let xs ← evalList opq ρ vs
      let ps ← xs.mapM asPrim
      -- members of different kinds (a boolean and a number, a string and a number) cannot be compared in this semantics
      -- (`Prim.eq`), so a set literal that mixes them has no value here (Python would identify `True` and `1`)
      if sameKinds ps then pure (.set ps.eraseDups) else .error .type
  | .range _ lo hi a b => do
      let l ← eval opq ρ lo; let h ← eval opq ρ hi
      let pl ← asPrim l; let ph ← asPrim h
      if pl.isNumeric && ph.isNumeric then pure (.range pl ph a b) else .error .type
  | .quant _ q x d b => do
      let dv ← eval opq ρ d
      let es ← elems dv
      let bs ← es.mapM (fun v => do let r ← eval opq (ρ.bind x v) b; asBool r)
      pure (Value.bool (quantResult q bs))
  | .un _ op a => do let v ← eval opq ρ a; unOp op v
  | .bin _ op a b => do let x ← eval opq ρ a; let y ← eval opq ρ b; binOp op x y
  | .call _ f as => do let xs ← evalList opq ρ as; applyFun opq f xs
  | .field _ m n => do let v ← eval opq ρ m; fieldOf v n
  | .index _ a i => do let x ← eval opq ρ a; let y ← eval opq ρ i; indexOf x y
def evalList (opq : Opaque) (ρ : Env) : ExprList → EM (List Value)
  | .nil => .ok []
  | .cons e es => do let v ← eval opq ρ e; let vs ← evalList opq ρ es; pure (v :: vs)
end

/-- truth value of a predicate -/
def evalPred (opq : Opaque) (ρ : Env) : Pred → EM Bool
  | .expr e => do let v ← eval opq ρ e; asBool v
  | .vtrue => .ok true
  | .vfalse => .ok false

end Hpl
