import Hpl.Spec.PrintToks
/-! The expression grammar of `predicates.lark`, declaratively, over token sequences: which token sequences are phrases of
    which grammar level and which tree the grammar assigns to them (`Renders k tree tokens`).  Left-recursive rules are
    left-recursive here (`expr: expr ADD term`), parentheses are optional wherever the grammar makes them so, redundant
    parentheses are allowed.  Used by C01 (`Props/C01b`: the parser model returns exactly the tree the grammar assigns).

    Levels: 0 `condition`, 1 `disjunction`, 2 `conjunction`, 3 `_logic_expr`, 4 `atomic_condition`, 5 `expr`, 6 `term`,
    7 `factor`, 8 `_exponent`, 9 `_atomic_value`; 10 = a reference read so far (`_reference`, before further accessors),
    11 = the members of a set literal read so far. -/
namespace Hpl

/-- the infix operator tokens of a left-recursive level -/
def opTest (k : Nat) (t : Tok) : Bool :=
  match k with
  | 0 => isKw t "implies" || isKw t "iff"
  | 1 => isKw t "or"
  | 2 => isKw t "and"
  | 5 => isSym t "+" || isSym t "-"
  | 6 => isSym t "*" || isSym t "/"
  | 7 => isSym t "**"
  | _ => false

def isLoopLevel (k : Nat) : Bool := k == 0 || k == 1 || k == 2 || k == 5 || k == 6 || k == 7

/-- the relational operators and `in` (level 4, not associative) -/
def relTest (t : Tok) : Bool := (t.kind == .sym && relOps.contains t.text) || isKw t "in"

def rawSnoc : RawList → Raw → RawList
  | .nil, e => .cons e .nil
  | .cons x xs, e => .cons x (rawSnoc xs e)

inductive Renders : Nat → Raw → List Tok → Prop
  /-- every level includes the next tighter one; at the start of a logic operand `not`, `forall` and `exists` are the keywords
      (terminal priority), so an atomic condition standing there does not begin with one of them -/
  | up {k e ts} : k < 9 → (k = 3 → ∀ t ts', ts = t :: ts' → isLogicKw t = false) → Renders (k + 1) e ts → Renders k e ts
  /-- left-recursive binary levels: `x OP y` with `x` of the same level and `y` of the next -/
  | binL {k a b ta tb} (t : Tok) : isLoopLevel k = true → opTest k t = true →
      Renders k a ta → Renders (k + 1) b tb → Renders k (.bin t.text a b) (ta ++ t :: tb)
  /-- `atomic_condition: expr REL expr` (not associative) -/
  | rel {a b ta tb} (t : Tok) : relTest t = true →
      Renders 5 a ta → Renders 5 b tb → Renders 4 (.bin t.text a b) (ta ++ t :: tb)
  | not {a ta} (t : Tok) : isKw t "not" = true → Renders 3 a ta → Renders 3 (.un "not" a) (t :: ta)
  | quant {d b td tb} (t v kin c : Tok) : (isKw t "forall" || isKw t "exists") = true → v.kind = .word → isCName v.text = true →
      isKw kin "in" = true → isSym c ":" = true → Renders 9 d td → Renders 3 b tb →
      Renders 3 (.quant (if t.text == "forall" then .all else .some) v.text d b) (t :: v :: kin :: (td ++ c :: tb))
  | neg {a ta} (t : Tok) : isSym t "-" = true → Renders 8 a ta → Renders 8 (.un "-" a) (t :: ta)
  | paren {e ts} (o c : Tok) : isSym o "(" = true → isSym c ")" = true → Renders 0 e ts → Renders 8 e (o :: (ts ++ [c]))
  /-- literals: strings, numbers, `True` / `False`, the named constants -/
  | str (t : Tok) : t.kind = .str → Renders 9 (.lit t.text (.str t.text)) [t]
  | num (t : Tok) (v : LitVal) : t.kind = .num → decimalValue t.text = some v → Renders 9 (.lit t.text v) [t]
  | true_ (t : Tok) : t.kind = .word → t.text = "True" → Renders 9 (.lit "True" (.bool true)) [t]
  | false_ (t : Tok) : t.kind = .word → t.text = "False" → Renders 9 (.lit "False" (.bool false)) [t]
  | const (t : Tok) (v : LitVal) : t.kind = .word → t.afterWord = false → numberConstant t.text = some v →
      Renders 9 (.lit t.text v) [t]
  /-- `function_call: CNAME "(" expr ")"` -/
  | call {a ta} (f o c : Tok) : f.kind = .word → isNameTok f = true → isSym o "(" = true → isSym c ")" = true →
      Renders 5 a ta → Renders 9 (.call f.text (.cons a .nil)) (f :: o :: (ta ++ [c]))
  /-- `range_literal` -/
  | range {lo hi tl th} (o kto c : Tok) : (isSym o "[" || isSym o "![") = true → isKw kto "to" = true →
      (isSym c "]" || isSym c "]!") = true → Renders 5 lo tl → Renders 5 hi th →
      Renders 9 (.range lo hi (o.text == "![") (c.text == "]!")) (o :: (tl ++ kto :: (th ++ [c])))
  /-- `enum_literal`: the members read so far (level 11), then the closing brace -/
  | setOne {e te} : Renders 5 e te → Renders 11 (.set (.cons e .nil)) te
  | setMore {es ts e te} (c : Tok) : isSym c "," = true → Renders 11 (.set es) ts → Renders 5 e te →
      Renders 11 (.set (rawSnoc es e)) (ts ++ c :: te)
  | set {es ts} (o c : Tok) : isSym o "{" = true → isSym c "}" = true → Renders 11 (.set es) ts → Renders 9 (.set es) (o :: (ts ++ [c]))
  /-- references: `@x` or an own field, then `.name` and `[expr]` accessors (level 10), closed as an atomic value -/
  | var (t : Tok) : t.kind = .var → Renders 10 (.var t.text) [t]
  | own (t : Tok) : t.kind = .word → isNameTok t = true → Renders 10 (.field .this t.text) [t]
  | field {m tm} (d n : Tok) : isSym d "." = true → n.kind = .word → isCName n.text = true →
      Renders 10 m tm → Renders 10 (.field m n.text) (tm ++ [d, n])
  | index {a ta i ti} (o c : Tok) : isSym o "[" = true → isSym c "]" = true →
      Renders 10 a ta → Renders 5 i ti → Renders 10 (.index a i) (ta ++ o :: (ti ++ [c]))
  | ref {x ts} : Renders 10 x ts → Renders 9 x ts

end Hpl
