import Hpl.Spec.Grammar
/-! The property grammar of `properties.lark`, declaratively, over token sequences: which token sequences are events, scopes,
    patterns, time bounds, annotation blocks and properties, and which tree the grammar assigns to them.  Predicates are
    `{` condition `}` with the expression grammar `Renders` (`Spec/Grammar.lean`).  Used by C01 (`Props/C01g`). -/
namespace Hpl

/-- `["as" CNAME]` -/
inductive RAlias : Option String → List Tok → Prop
  | none : RAlias none []
  | some (a v : Tok) : isKw a "as" = true → v.kind = .word → isCName v.text = true → RAlias (some v.text) [a, v]

/-- `[hpl_predicate]`: `{` condition `}` -/
inductive RPred : Option Raw → List Tok → Prop
  | none : RPred none []
  | some {r : Raw} {mid : List Tok} (o c : Tok) : isSym o "{" = true → isSym c "}" = true → Renders 0 r mid → RPred (some r) (o :: (mid ++ [c]))

/-- `event: channel_name [alias] [hpl_predicate]` -/
inductive RSimple : RawSimple → List Tok → Prop
  | mk {alias : Option String} {al : List Tok} {pred : Option Raw} {pr : List Tok} (n : Tok) :
      n.kind = .word → isChannelName n.text = true → RAlias alias al → RPred pred pr → RSimple ⟨n.text, alias, pred⟩ (n :: (al ++ pr))

/-- `event (_KW_OR event)*`, in source order -/
inductive RAlts : List RawSimple → List Tok → Prop
  | last {s : RawSimple} {ts : List Tok} : RSimple s ts → RAlts [s] ts
  | cons {s : RawSimple} {ts : List Tok} {rest : List RawSimple} {ts' : List Tok} (k : Tok) :
      RSimple s ts → isKw k "or" = true → RAlts rest ts' → RAlts (s :: rest) (ts ++ k :: ts')

/-- `_any_event: event | "(" (event _KW_OR)+ event ")"` -/
inductive REvent : RawEvent → List Tok → Prop
  | simple {s : RawSimple} {ts : List Tok} : RSimple s ts → REvent (.simple s) ts
  | disj {alts : List RawSimple} {ts : List Tok} (o c : Tok) : isSym o "(" = true → isSym c ")" = true → 2 ≤ alts.length →
      RAlts alts ts → REvent (.disj alts) (o :: (ts ++ [c]))

/-- the value of a time amount -/
def litRat (v : LitVal) : Rat := match v with | .int i => i | .flt q => q | _ => 0

/-- `_time_bound: [_KW_WITHIN NUMBER ("s" | "ms")]`: the amount and the unit as written (the constructors convert `ms`) -/
inductive RTime : Option (Rat × TimeUnit) → List Tok → Prop
  | none : RTime none []
  | some (w n u : Tok) (v : LitVal) (unit : TimeUnit) : isKw w "within" = true → n.kind = .num → decimalValue n.text = some v →
      ((isWordS u "ms" = true ∧ unit = .ms) ∨ (isWordS u "s" = true ∧ unit = .s)) → RTime (some (litRat v, unit)) [w, n, u]

/-- `metadata: ("#" item)*`, in source order -/
inductive RMeta : List (String × String) → List Tok → Prop
  | nil : RMeta [] []
  | item {rest : List (String × String)} {ts : List Tok} (h k c v : Tok) (key : String) : isSym h "#" = true → isSym c ":" = true →
      ((isWordS k "id" = true ∧ v.kind = .word ∧ isCName v.text = true ∧ key = "id") ∨
       (isWordS k "title" = true ∧ v.kind = .str ∧ key = "title") ∨
       (isWordS k "description" = true ∧ v.kind = .str ∧ key = "description")) →
      RMeta rest ts → RMeta ((key, v.text) :: rest) (h :: k :: c :: v :: ts)

/-- `_scope` -/
inductive RScope : ScopeKind → Option RawEvent → Option RawEvent → List Tok → Prop
  | global (t : Tok) : isKw t "globally" = true → RScope .global none none [t]
  | after {a : RawEvent} {ta : List Tok} (t : Tok) : isKw t "after" = true → REvent a ta → RScope .after (some a) none (t :: ta)
  | afterUntil {a q : RawEvent} {ta tq : List Tok} (t u : Tok) : isKw t "after" = true → isKw u "until" = true → REvent a ta → REvent q tq →
      RScope .afterUntil (some a) (some q) (t :: (ta ++ u :: tq))
  | until_ {q : RawEvent} {tq : List Tok} (t : Tok) : isKw t "until" = true → REvent q tq → RScope .until_ none (some q) (t :: tq)

/-- the first token of a pattern that starts with an event is not `some` / `no` (those open existence / absence) -/
def notSomeNo (ts : List Tok) : Prop := ∀ t tl, ts = t :: tl → isKw t "some" = false ∧ isKw t "no" = false

/-- `_pattern` (behaviour, trigger) -/
inductive RPattern : PatternKind → RawEvent → Option RawEvent → List Tok → Prop
  | existence {b : RawEvent} {tb : List Tok} (t : Tok) : isKw t "some" = true → REvent b tb → RPattern .existence b none (t :: tb)
  | absence {b : RawEvent} {tb : List Tok} (t : Tok) : isKw t "no" = true → REvent b tb → RPattern .absence b none (t :: tb)
  | response {e1 e2 : RawEvent} {t1 t2 : List Tok} (k : Tok) : isKw k "causes" = true → notSomeNo t1 → REvent e1 t1 → REvent e2 t2 →
      RPattern .response e2 (some e1) (t1 ++ k :: t2)
  | prevention {e1 e2 : RawEvent} {t1 t2 : List Tok} (k : Tok) : isKw k "forbids" = true → notSomeNo t1 → REvent e1 t1 → REvent e2 t2 →
      RPattern .prevention e2 (some e1) (t1 ++ k :: t2)
  | requirement {e1 e2 : RawEvent} {t1 t2 : List Tok} (k : Tok) : isKw k "requires" = true → notSomeNo t1 → REvent e1 t1 → REvent e2 t2 →
      RPattern .requirement e1 (some e2) (t1 ++ k :: t2)

/-- `hpl_property: [metadata] _scope ":" _pattern [_time_bound]` -/
inductive RProperty : RawProperty → List Tok → Prop
  | mk {md : List (String × String)} {mts : List Tok} {sk : ScopeKind} {act term : Option RawEvent} {sts : List Tok}
      {pk : PatternKind} {beh : RawEvent} {trig : Option RawEvent} {pts : List Tok} {tb : Option (Rat × TimeUnit)} {tts : List Tok} (c : Tok) :
      RMeta md mts → RScope sk act term sts → isSym c ":" = true → RPattern pk beh trig pts → RTime tb tts →
      RProperty ⟨sk, act, term, pk, beh, trig, tb, md⟩ (mts ++ (sts ++ c :: (pts ++ tts)))

end Hpl
