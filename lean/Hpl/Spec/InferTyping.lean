import Hpl.Spec.WellTyped
import Hpl.Spec.Schema
/-!
# The typing a schema induces on a term (helper of the C04 stream; untrusted)

Builds the table `ρ` (printed reference ↦ declared type) for a term from the tokens of its roots, so that the driver can
ask whether the term satisfies `wellTypedB ρ` — the proved-sound check of the hypothesis of `build_complete`. Nothing
depends on this table being right: a wrong table can only make the check say "no".
-/
namespace Hpl

def denoteRaw (this : TyTok) (vars : VarTypes) : Raw → Option TyTok
  | .this => some this
  | .var x => lookupTok x vars
  | .field m name => (denoteRaw this vars m).bind (tokFieldOf · name)
  | .index a _ => (denoteRaw this vars a).bind tokElemOf
  | _ => none

def lookupDT (s : String) : List (String × DataType) → Option DataType
  | [] => none
  | (k, v) :: rest => if k == s then some v else lookupDT s rest

/-- syntactic type of a term under the schema and the bound variables -/
def simpleTy (this : TyTok) (vars : VarTypes) (env : List (String × DataType)) (r : Raw) : DataType :=
  match intrinsic r with
  | some τ => τ
  | none => match r with
    | .var x => (lookupDT x env).getD T.MESSAGE
    | r => ((denoteRaw this vars r).map TyTok.ty).getD 0

def elemTy (this : TyTok) (vars : VarTypes) (env : List (String × DataType)) : Raw → DataType
  | .set (.cons v _) => simpleTy this vars env v
  | .set .nil => 0
  | .range .. => T.NUMBER
  | d => (((denoteRaw this vars d).bind tokElemOf).map TyTok.ty).getD 0

mutual
def collectTyping (this : TyTok) (vars : VarTypes) (env : List (String × DataType)) : Raw → List (String × DataType)
  | .lit .. | .this => []
  | .var x => [("@" ++ x, (lookupDT x env).getD T.MESSAGE)]
  | .set vs => collectTypingL this vars env vs
  | .range lo hi _ _ => collectTyping this vars env lo ++ collectTyping this vars env hi
  | .quant _ x d b =>
      let τx := elemTy this vars env d
      ("@" ++ x, τx) :: (collectTyping this vars env d ++ collectTyping this vars ((x, τx) :: env) b)
  | .un _ a => collectTyping this vars env a
  | .bin _ a b => collectTyping this vars env a ++ collectTyping this vars env b
  | .call _ as => collectTypingL this vars env as
  | r@(.field m _) => (r.print, simpleTy this vars env r) :: collectTyping this vars env m
  | r@(.index a i) => (r.print, simpleTy this vars env r) :: (collectTyping this vars env a ++ collectTyping this vars env i)
def collectTypingL (this : TyTok) (vars : VarTypes) (env : List (String × DataType)) : RawList → List (String × DataType)
  | .nil => []
  | .cons r rs => collectTyping this vars env r ++ collectTypingL this vars env rs
end

def inducedTyping (this : TyTok) (vars : VarTypes) (r : Raw) : Typing :=
  let table := collectTyping this vars [] r
  fun s => (lookupDT s table).getD 0

/-- is the table single-valued (one concrete type per printed reference)? -/
def singleValued : List (String × DataType) → Bool
  | [] => true
  | (k, v) :: rest => rest.all (fun p => p.1 != k || p.2 == v) && singleValued rest

end Hpl
