import Hpl.Spec.PrintToks
/-! The printed form of an expression tree at character level (`Raw.chars`: what `__str__` writes, `Props/C06f print_chars`) and
    the decidable conditions under which the scanner reads it back as `Raw.toks` (`Raw.lexOkB`: every literal token text and
    variable name is scanned completely as one token). Used by C06 (`Props/C06e`–`C06h`) and evaluated by the driver (`rtcheck`). -/
namespace Hpl

mutual
def Raw.chars : Raw → List Char
  | .lit tok _ => tok.toList
  | .this => []
  | .var x => ['@'] ++ x.toList
  | .set vs => ['{'] ++ (RawList.charsSep vs ++ ['}'])
  | .range lo hi exLo exHi =>
      (if exLo then ['!', '['] else ['[']) ++ (lo.chars ++ ([' '] ++ ("to".toList ++ ([' '] ++ (hi.chars ++ (if exHi then [']', '!'] else [']']))))))
  | .quant q x d b =>
      ['('] ++ ((match q with | .all => "forall" | .some => "exists").toList ++ ([' '] ++ (x.toList ++ ([' '] ++ ("in".toList ++ ([' '] ++
        (d.chars ++ ([':'] ++ ([' '] ++ (b.chars ++ [')']))))))))))
  | .un op a => ['('] ++ ((if op == "not" then "not".toList ++ [' '] else op.toList) ++ (a.chars ++ [')']))
  | .bin op a b => ['('] ++ (a.chars ++ ([' '] ++ (op.toList ++ ([' '] ++ (b.chars ++ [')'])))))
  | .call f as => f.toList ++ (['('] ++ (RawList.charsSep as ++ [')']))
  | .field m n => (match m with | .this => [] | _ => m.chars ++ ['.']) ++ n.toList
  | .index a i => a.chars ++ (['['] ++ (i.chars ++ [']']))
def RawList.charsSep : RawList → List Char
  | .nil => []
  | .cons e .nil => e.chars
  | .cons e es => e.chars ++ ([','] ++ ([' '] ++ RawList.charsSep es))
end

/-- the text is a complete NUMBER token (decidable) -/
def numTokOk (w : List Char) : Bool :=
  scanNumber w == some (w, []) &&
  match w with
  | c :: w' => isDigitA c || (c == '.' && (match w' with | d :: _ => isDigitA d | [] => false))
  | [] => false

/-- the text is a complete ESCAPED_STRING token (decidable) -/
def strTokOk (w : List Char) : Bool :=
  match w with
  | '"' :: body => scanString body ['"'] == some (w, [])
  | _ => false

/-- decidable side condition on a literal: its token text is scanned completely as one token -/
def litLexB (tok : String) (v : LitVal) : Bool :=
  match v with
  | .str _ => strTokOk tok.toList
  | .bool _ => true
  | _ => (numberConstant tok).isSome || numTokOk tok.toList

mutual
/-- decidable form of `Raw.lexOk` (evaluated by the driver's `rtcheck` on every tree it prints) -/
def Raw.lexOkB : Raw → Bool
  | .lit tok v => litOk tok v && litLexB tok v
  | .this => true
  | .var x => isCName x
  | .set vs => RawList.lexOkLB vs
  | .range lo hi _ _ => lo.lexOkB && hi.lexOkB
  | .quant _ _ d b => d.lexOkB && b.lexOkB
  | .un _ a => a.lexOkB
  | .bin _ a b => a.lexOkB && b.lexOkB
  | .call _ as => RawList.lexOkLB as
  | .field m _ => m.lexOkB
  | .index a i => a.lexOkB && i.lexOkB
def RawList.lexOkLB : RawList → Bool
  | .nil => true
  | .cons e es => e.lexOkB && RawList.lexOkLB es
end


end Hpl
