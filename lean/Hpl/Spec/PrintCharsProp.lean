import Hpl.Spec.PrintChars
import Hpl.Spec.PrintToksProp
/-! The printed form of a property at character level (what `__str__` of events, scopes, patterns and properties writes: every
    event with its predicate in braces, alternatives in parentheses separated by `or`, the time bound as number and unit glued),
    and the decidable conditions under which the scanner reads it back as `RawProperty.toks`. Used by C06 / C18 (`Props/C06k`). -/
namespace Hpl

def RawSimple.chars (s : RawSimple) : List Char :=
  s.name.toList ++ ((match s.alias with | some a => [' '] ++ ("as".toList ++ ([' '] ++ a.toList)) | none => []) ++
    ([' '] ++ (match s.pred with | some r => ['{'] ++ ([' '] ++ (r.chars ++ ([' '] ++ ['}']))) | none => [])))

def altsChars : List RawSimple → List Char
  | [] => []
  | [s] => s.chars
  | s :: rest => s.chars ++ ([' '] ++ ("or".toList ++ ([' '] ++ altsChars rest)))

def RawEvent.chars : RawEvent → List Char
  | .simple s => s.chars
  | .disj alts => ['('] ++ (altsChars alts ++ [')'])

def optChars : Option RawEvent → List Char
  | some e => e.chars
  | none => []

def timeChars (fmt : Rat → String) : Option (Rat × TimeUnit) → List Char
  | none => []
  | some (q, u) => [' '] ++ ("within".toList ++ ([' '] ++ ((fmt q).toList ++ (unitText u).toList)))

def scopeChars (p : RawProperty) : List Char :=
  match p.scopeKind with
  | .global => "globally".toList
  | .after => "after".toList ++ ([' '] ++ optChars p.activator)
  | .until_ => "until".toList ++ ([' '] ++ optChars p.terminator)
  | .afterUntil => "after".toList ++ ([' '] ++ (optChars p.activator ++ ([' '] ++ ("until".toList ++ ([' '] ++ optChars p.terminator)))))

def patternChars (p : RawProperty) : List Char :=
  match p.patternKind with
  | .existence => "some".toList ++ ([' '] ++ p.behaviour.chars)
  | .absence => "no".toList ++ ([' '] ++ p.behaviour.chars)
  | .response => optChars p.trigger ++ ([' '] ++ ("causes".toList ++ ([' '] ++ p.behaviour.chars)))
  | .prevention => optChars p.trigger ++ ([' '] ++ ("forbids".toList ++ ([' '] ++ p.behaviour.chars)))
  | .requirement => p.behaviour.chars ++ ([' '] ++ ("requires".toList ++ ([' '] ++ optChars p.trigger)))

/-- `str(property)`: scope, colon, pattern, time bound (annotations are not printed) -/
def RawProperty.chars (fmt : Rat → String) (p : RawProperty) : List Char :=
  scopeChars p ++ ([':'] ++ ([' '] ++ (patternChars p ++ timeChars fmt p.maxTime)))

/-- the text is a complete channel-name token at property level (decidable) -/
def chanTokOk (name : List Char) : Bool :=
  match name with
  | c :: cs =>
    if isIdStart c && isAlphaA c then
      (takeWhileC isIdChar name).1 ++ (chanSegments ((takeWhileC isIdChar name).2.length + 1) (takeWhileC isIdChar name).2).1 == name &&
      (chanSegments ((takeWhileC isIdChar name).2.length + 1) (takeWhileC isIdChar name).2).2.isEmpty
    else if c == '/' || c == '~' then
      (match cs with
       | d :: _ => isAlphaA d &&
          (c :: (takeWhileC isIdChar cs).1 ++ (chanSegments ((takeWhileC isIdChar cs).2.length + 1) (takeWhileC isIdChar cs).2).1 == name) &&
          (chanSegments ((takeWhileC isIdChar cs).2.length + 1) (takeWhileC isIdChar cs).2).2.isEmpty
       | [] => false)
    else false
  | [] => false


/-- decidable side conditions of the text-level theorems at property level: names are complete channel tokens, every event carries
    its predicate (as the printer always writes one) with complete literal tokens, the time amount is a complete number not ending in `.` -/
def RawSimple.lexOkB (s : RawSimple) : Bool :=
  chanTokOk s.name.toList && (match s.pred with | some r => r.lexOkB | none => false)

def RawEvent.lexOkB : RawEvent → Bool
  | .simple s => s.lexOkB
  | .disj alts => alts.all RawSimple.lexOkB

def optLexOkB : Option RawEvent → Bool
  | some e => e.lexOkB
  | none => true

def timeLexOkB (fmt : Rat → String) : Option (Rat × TimeUnit) → Bool
  | none => true
  | some (q, _) => numTokOk (fmt q).toList && ((fmt q).toList.getLast? != some '.')

def RawProperty.lexOkB (fmt : Rat → String) (p : RawProperty) : Bool :=
  p.metadata.isEmpty && p.behaviour.lexOkB && optLexOkB p.activator && optLexOkB p.terminator && optLexOkB p.trigger && timeLexOkB fmt p.maxTime

end Hpl
