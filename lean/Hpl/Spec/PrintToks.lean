import Hpl.Model.Parser
/-! The printed form of an expression tree at token level (what `__str__` writes, read as the token sequence the lexer
    makes of it: every unary / binary operator and quantifier in parentheses, own fields as bare names), and the trees
    that have one (`Raw.printable`: what the parser itself can produce). Used by C06 (`Props/C06b`). -/
namespace Hpl

/-- what the expression grammar reads of a token: kind, text, and - for a word - whether it directly follows a word character -/
def tokKey (t : Tok) : TokKind × String × Bool := (t.kind, t.text, t.kind == .word && t.afterWord)

def mkTok (k : TokKind) (s : String) : Tok := ⟨k, s, false, false⟩
def symT (s : String) : Tok := mkTok .sym s
def wordT (s : String) : Tok := mkTok .word s

/-- the words the expression grammar reads as something other than a name *where a name can stand* (the start of a logic operand
    or of an atom): the prefix operators, the quantifiers, the literals and the constants. The infix keywords (`and or implies iff
    in to`) are not among them: the contextual lexer reads `{ and and and }` as the conjunction of the field `and` with itself. -/
def reservedWords : List String :=
  ["not", "forall", "exists", "True", "False", "INF", "NAN", "PI", "E"]

/-- an identifier that can be written bare as a field or function name -/
def isName (s : String) : Bool := isCName s && !reservedWords.contains s

/-- the keywords that open a logic operand (`negation`, `quantification`) -/
def isLogicKw (t : Tok) : Bool := isKw t "not" || isKw t "forall" || isKw t "exists"

/-- a word token that is a name wherever an atom can stand: an identifier other than the literals `True` / `False` and - unless it is
    glued to a preceding word character - the named constants. (`not`, `forall`, `exists` are names there too: the contextual lexer
    offers the keyword terminals only at the start of a logic operand, see `Renders.up`.) -/
def isNameTok (t : Tok) : Bool :=
  isCName t.text && t.text != "True" && t.text != "False" && !(!t.afterWord && (numberConstant t.text).isSome)

/-- the token of a literal -/
def litTok (tok : String) (v : LitVal) : Tok :=
  match v with
  | .str _ => mkTok .str tok
  | .bool _ => wordT tok
  | _ => if (numberConstant tok).isSome then wordT tok else mkTok .num tok

/-- the literal is what the parser makes of its own token -/
def litOk (tok : String) (v : LitVal) : Bool :=
  match v with
  | .str s => s == tok
  | .bool b => tok == (if b then "True" else "False")
  | _ => if (numberConstant tok).isSome then numberConstant tok == some v && isCName tok
         else decimalValue tok == some v

/-- infix operators by grammar level: 0 `implies iff`, 1 `or`, 2 `and`, 4 relational and `in`, 5 `+ -`, 6 `* /`, 7 `**` -/
def opLevel (op : String) : Option Nat :=
  if op == "implies" || op == "iff" then some 0
  else if op == "or" then some 1
  else if op == "and" then some 2
  else if relOps.contains op || op == "in" then some 4
  else if op == "+" || op == "-" then some 5
  else if op == "*" || op == "/" then some 6
  else if op == "**" then some 7
  else none

def isWordOp (op : String) : Bool := op == "implies" || op == "iff" || op == "or" || op == "and" || op == "in"
def opTok (op : String) : Tok := if isWordOp op then wordT op else symT op

mutual
def Raw.toks : Raw → List Tok
  | .lit tok v => [litTok tok v]
  | .this => []
  | .var x => [mkTok .var x]
  | .set vs => [symT "{"] ++ RawList.toksSep vs ++ [symT "}"]
  | .range lo hi exLo exHi =>
      [symT (if exLo then "![" else "[")] ++ lo.toks ++ [wordT "to"] ++ hi.toks ++ [symT (if exHi then "]!" else "]")]
  | .quant q x d b =>
      [symT "(", wordT (match q with | .all => "forall" | .some => "exists"), wordT x, wordT "in"] ++ d.toks ++ [symT ":"] ++ b.toks ++ [symT ")"]
  | .un op a => [symT "(", (if op == "not" then wordT op else symT op)] ++ a.toks ++ [symT ")"]
  | .bin op a b => [symT "("] ++ a.toks ++ [opTok op] ++ b.toks ++ [symT ")"]
  | .call f as => [wordT f, symT "("] ++ RawList.toksSep as ++ [symT ")"]
  | .field m n => (match m with | .this => [] | _ => m.toks ++ [symT "."]) ++ [wordT n]
  | .index a i => a.toks ++ [symT "["] ++ i.toks ++ [symT "]"]
def RawList.toksSep : RawList → List Tok
  | .nil => []
  | .cons e .nil => e.toks
  | .cons e es => e.toks ++ [symT ","] ++ RawList.toksSep es
end

/-- a reference chain: `@x` or an own field, followed by field and index accessors -/
def Raw.isRef : Raw → Bool
  | .var _ => true
  | .field .this _ => true
  | .field m _ => m.isRef
  | .index a _ => a.isRef
  | _ => false

/-- phrases of `_atomic_value` -/
def Raw.isAtomic : Raw → Bool
  | .lit .. | .set .. | .range .. | .call .. => true
  | r => r.isRef

mutual
/-- trees the expression parser can produce (and therefore print and read back) -/
def Raw.printable : Raw → Bool
  | .lit tok v => litOk tok v
  | .this => false
  | .var _ => true
  | .set vs => (match vs with | .nil => false | _ => true) && RawList.printable vs
  | .range lo hi _ _ => lo.printable && hi.printable
  | .quant _ x d b => isCName x && d.printable && d.isAtomic && b.printable
  | .un op a => (op == "not" || op == "-") && a.printable
  | .bin op a b => (opLevel op).isSome && a.printable && b.printable
  | .call f as => isName f && (match as with | .cons a .nil => a.printable | _ => false)
  | .field m n => (match m with | .this => isName n | _ => isCName n && m.isRef && m.printable)
  | .index a i => a.isRef && a.printable && i.printable
def RawList.printable : RawList → Bool
  | .nil => true
  | .cons e es => e.printable && RawList.printable es
end

mutual
/-- own fields and functions are not named like a word that opens an atom or a logic operand -/
def Raw.goodNames : Raw → Bool
  | .lit .. | .this | .var _ => true
  | .set vs => RawList.goodNames vs
  | .range lo hi _ _ => lo.goodNames && hi.goodNames
  | .quant _ _ d b => d.goodNames && b.goodNames
  | .un _ a => a.goodNames
  | .bin _ a b => a.goodNames && b.goodNames
  | .call f as => isName f && RawList.goodNames as
  | .field m n => (match m with | .this => isName n | _ => m.goodNames)
  | .index a i => a.goodNames && i.goodNames
def RawList.goodNames : RawList → Bool
  | .nil => true
  | .cons e es => e.goodNames && RawList.goodNames es
end

end Hpl
